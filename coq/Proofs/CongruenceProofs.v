(* Proofs/CongruenceProofs.v — property C09, "yields Equal results under every operation": two frames with the
   same logical table (abs) - whatever their physical layouts and row indexes - are mapped by the operations of
   Model/Ops.v, Model/Filter.v and Model/Eval.v to frames with the same logical table, with the same outcome
   (result / Go panic).

   Method: a simulation.  A list L of pairs (p, q) relates physical positions of f to physical positions of g
   (for frames with the same table: L = combine (ix f) (ix g)); Rel L f g says that the two frames have the same
   column names and types and that paired positions hold the same cells in every column.  Every instruction of
   Apply preserves Rel L - also when it runs over a sub-index (FilteredApply) - and Rel gives back abs f = abs g. *)
From QF Require Import Base.Prelude Model.Frame Model.Filter Model.Ops Model.TableSpec.
From QF Require Import Proofs.OpsProofs Proofs.OpsProofs2 Proofs.NoPanicProofs.
Local Open Scope nat_scope.

(* ------------------------------------------------------------------ lists of pairs *)

Definition pairs := list (nat * nat).

Lemma In_combine_nth {A B} : forall (l1 : list A) (l2 : list B) a b,
  In (a, b) (combine l1 l2) -> exists k, nth_error l1 k = Some a /\ nth_error l2 k = Some b.
Proof.
  induction l1 as [|x l1 IH]; intros l2 a b H; [destruct H|].
  destruct l2 as [|y l2]; [destruct H|]. simpl in H. destruct H as [H|H].
  - inversion H; subst. exists 0. split; reflexivity.
  - destruct (IH l2 a b H) as [k [H1 H2]]. exists (S k). split; assumption.
Qed.

Lemma nth_combine_In {A B} : forall (l1 : list A) (l2 : list B) k a b,
  nth_error l1 k = Some a -> nth_error l2 k = Some b -> In (a, b) (combine l1 l2).
Proof.
  induction l1 as [|x l1 IH]; intros l2 k a b H1 H2; [destruct k; discriminate|].
  destruct l2 as [|y l2]; [destruct k; discriminate|].
  destruct k as [|k]; simpl in *.
  - inversion H1; inversion H2; subst. left. reflexivity.
  - right. apply (IH l2 k a b H1 H2).
Qed.

Definition one2one (L : pairs) : Prop :=
  forall p q p' q', In (p, q) L -> In (p', q') L -> (p = p' <-> q = q').

Lemma one2one_combine l1 l2 : NoDup l1 -> NoDup l2 -> one2one (combine l1 l2).
Proof.
  intros H1 H2 p q p' q' Ha Hb.
  apply In_combine_nth in Ha as [k [Ka1 Ka2]]. apply In_combine_nth in Hb as [k' [Kb1 Kb2]].
  rewrite NoDup_nth_error in H1, H2. split; intro E; subst.
  - assert (k = k') by (apply H1; [apply nth_error_Some; congruence|congruence]). subst. congruence.
  - assert (k = k') by (apply H2; [apply nth_error_Some; congruence|congruence]). subst. congruence.
Qed.

Lemma omap_sim {A B C} (g1 : A -> outcome C) (g2 : B -> outcome C) : forall J1 J2,
  length J1 = length J2 -> (forall p q, In (p, q) (combine J1 J2) -> g1 p = g2 q) -> omap g1 J1 = omap g2 J2.
Proof.
  induction J1 as [|p J1 IH]; intros [|q J2] Hl H; try discriminate; [reflexivity|].
  simpl. rewrite (H p q (or_introl eq_refl)).
  rewrite (IH J2) by (simpl in Hl; try lia; intros; apply H; right; assumption). reflexivity.
Qed.

Lemma combine_filter_incl {A B} (a : A -> bool) (b : B -> bool) : forall (l1 : list A) (l2 : list B),
  length l1 = length l2 -> (forall p q, In (p, q) (combine l1 l2) -> a p = b q) ->
  incl (combine (filter a l1) (filter b l2)) (combine l1 l2) /\ length (filter a l1) = length (filter b l2).
Proof.
  induction l1 as [|x l1 IH]; intros [|y l2] Hl H; try discriminate; [split; [intros z []|reflexivity]|].
  destruct (IH l2) as [Hi Hlen]; [simpl in Hl; lia|intros; apply H; right; assumption|].
  simpl. rewrite <- (H x y (or_introl eq_refl)). destruct (a x); simpl.
  - split; [|lia]. intros z [Hz|Hz]; [left; exact Hz|right; apply Hi; exact Hz].
  - split; [|exact Hlen]. intros z Hz. right. apply Hi. exact Hz.
Qed.

(* ------------------------------------------------------------------ the simulation relation *)

Definition cells_sim (L : pairs) (c1 c2 : coldata) : Prop :=
  forall p q, In (p, q) L -> exists x, cell_at c1 p = Ok x /\ cell_at c2 q = Ok x.

Definition col_sim (L : pairs) (c1 c2 : coldata) : Prop := col_type c1 = col_type c2 /\ cells_sim L c1 c2.

Definition cols_sim (L : pairs) (cs1 cs2 : list (bytes * coldata)) : Prop :=
  Forall2 (fun a b => fst a = fst b /\ col_sim L (snd a) (snd b)) cs1 cs2.

Record Rel (L : pairs) (f g : frame) : Prop := mkRel {
  r_err : ferr f = ferr g;
  r_cols : cols_sim L (cols f) (cols g);
  r_wf1 : WF f;
  r_wf2 : WF g;
  r_rng : forall p q, In (p, q) L -> p < phys_len f /\ q < phys_len g
}.

(* the row indexes the instruction loops run over: paired through L, duplicate free *)
Definition act (L : pairs) (J1 J2 : list nat) : Prop :=
  length J1 = length J2 /\ incl (combine J1 J2) L /\ NoDup J1 /\ NoDup J2.

Lemma col_sim_incl L L' c1 c2 : incl L' L -> col_sim L c1 c2 -> col_sim L' c1 c2.
Proof. intros Hi [Ht Hc]. split; [exact Ht|]. intros p q Hpq. apply Hc. apply Hi. exact Hpq. Qed.

Definition opt_sim (L : pairs) (a b : option (nat * coldata)) : Prop :=
  match a, b with
  | None, None => True
  | Some (k1, c1), Some (k2, c2) => k1 = k2 /\ col_sim L c1 c2
  | _, _ => False
  end.

Lemma lookup_from_sim L name : forall cs1 cs2 pos acc1 acc2,
  cols_sim L cs1 cs2 -> opt_sim L acc1 acc2 ->
  opt_sim L (lookup_from name cs1 pos acc1) (lookup_from name cs2 pos acc2).
Proof.
  induction cs1 as [|[n1 c1] cs1 IH]; intros cs2 pos acc1 acc2 H Ha; inversion H as [|? [n2 c2] ? cs2' [Hn Hc] Hrest]; subst.
  - exact Ha.
  - cbn [fst snd] in Hn, Hc. subst n2. cbn [lookup_from]. apply IH; [exact Hrest|].
    destruct (bytes_eqb n1 name); [split; [reflexivity|exact Hc]|exact Ha].
Qed.

Lemma lookup_sim L f g name : cols_sim L (cols f) (cols g) -> opt_sim L (lookup f name) (lookup g name).
Proof. intro H. unfold lookup. apply lookup_from_sim; [exact H|exact I]. Qed.

Lemma lookup_col_sim L f g name : cols_sim L (cols f) (cols g) ->
  match lookup_col f name, lookup_col g name with
  | None, None => True
  | Some c1, Some c2 => col_sim L c1 c2
  | _, _ => False
  end.
Proof.
  intro H. pose proof (lookup_sim L f g name H) as Hs. unfold lookup_col, opt_sim in *.
  destruct (lookup f name) as [[k1 c1]|], (lookup g name) as [[k2 c2]|]; cbn [option_map snd]; tauto.
Qed.

Lemma cols_sim_names L cs1 cs2 : cols_sim L cs1 cs2 -> map fst cs1 = map fst cs2.
Proof. induction 1 as [|a b l l' [Hn _] _ IH]; [reflexivity|]. simpl. rewrite Hn, IH. reflexivity. Qed.

Lemma cols_sim_types L cs1 cs2 :
  cols_sim L cs1 cs2 -> map (fun nc => col_type (snd nc)) cs1 = map (fun nc => col_type (snd nc)) cs2.
Proof. induction 1 as [|a b l l' [_ [Ht _]] _ IH]; [reflexivity|]. simpl. rewrite Ht, IH. reflexivity. Qed.

Lemma Forall2_set_nth {A B} (R : A -> B -> Prop) : forall l l' k x y,
  Forall2 R l l' -> R x y -> Forall2 R (set_nth l k x) (set_nth l' k y).
Proof.
  induction l as [|a l IH]; intros l' k x y H Hxy; inversion H; subst; [constructor|].
  destruct k; simpl; constructor; auto.
Qed.

Lemma set_column_sim L f g name r1 r2 :
  cols_sim L (cols f) (cols g) -> col_sim L r1 r2 ->
  cols_sim L (cols (set_column f name r1)) (cols (set_column g name r2)).
Proof.
  intros H Hr. unfold set_column. destruct (negb (check_name name)); [exact H|].
  pose proof (lookup_sim L f g name H) as Hl. unfold opt_sim in Hl.
  destruct (lookup f name) as [[k1 c1]|], (lookup g name) as [[k2 c2]|]; try contradiction; cbn [cols].
  - destruct Hl as [-> _]. apply Forall2_set_nth; [exact H|]. split; [reflexivity|exact Hr].
  - apply Forall2_app; [exact H|]. constructor; [split; [reflexivity|exact Hr]|constructor].
Qed.

Lemma set_column_ferr f name r : ferr (set_column f name r) = ferr f || negb (check_name name).
Proof.
  unfold set_column. destruct (check_name name); cbn [negb].
  - destruct (lookup f name) as [[k c]|]; cbn [ferr]; rewrite orb_false_r; reflexivity.
  - cbn [with_err ferr]. rewrite orb_true_r. reflexivity.
Qed.

Lemma Rel_with_err L f g : Rel L f g -> Rel L (with_err f) (with_err g).
Proof.
  intros [H1 H2 H3 H4 H5]. split; [reflexivity|exact H2|apply WF_with_err; exact H3|apply WF_with_err; exact H4|exact H5].
Qed.

Lemma Rel_set_column L f g name r1 r2 :
  Rel L f g -> col_sim L r1 r2 -> col_ok (phys_len f) r1 -> col_ok (phys_len g) r2 ->
  Rel L (set_column f name r1) (set_column g name r2).
Proof.
  intros [H1 H2 H3 H4 H5] Hr Ho1 Ho2.
  destruct (set_column_kept f name r1 H3 Ho1) as [K1 [_ K3]].
  destruct (set_column_kept g name r2 H4 Ho2) as [G1 [_ G3]].
  split; [rewrite !set_column_ferr, H1; reflexivity|apply set_column_sim; assumption|exact K1|exact G1|].
  intros p q Hpq. rewrite K3, G3. apply H5. exact Hpq.
Qed.

(* ------------------------------------------------------------------ a column written by an Apply loop *)

(* the generated loop: an array of n copies of z, the k-th result stored at index[k] *)
Lemma scatter_col_gen t z n index vals :
  t <> TEnum -> cell_type_ok t z = true -> NoDup index -> Forall (fun p => p < n) index -> length index <= length vals ->
  Forall (fun y => cell_type_ok t y = true) vals ->
  exists arr r, scatter (repeat z n) index vals = Ok arr /\ col_of_cells t arr = Ok r
    /\ col_type r = t /\ col_len r = n
    /\ omap (cell_at r) index = Ok (firstn (length index) vals)
    /\ (forall q, q < n -> ~ In q index -> cell_at r q = Ok z).
Proof.
  intros Ht Hz Hnd Hin Hlen Htyped.
  set (vals' := firstn (length index) vals).
  assert (Hlen' : length vals' = length index) by (unfold vals'; rewrite firstn_length; lia).
  assert (Htyped' : Forall (fun y => cell_type_ok t y = true) vals') by (apply Forall_firstn; exact Htyped).
  assert (Hbase : Forall (fun p => p < length (repeat z n)) index) by (rewrite repeat_length; exact Hin).
  destruct (scatter_ok index (repeat z n) vals' Hlen' Hbase) as [arr [Harr Hal]].
  assert (Harr_ok : Forall (fun y => cell_type_ok t y = true) arr).
  { eapply scatter_Forall; [| |exact Harr]; [apply repeat_Forall; exact Hz|exact Htyped']. }
  destruct (col_of_cells_spec t arr Ht Harr_ok) as [r [Hr [Hrt [Hrl Hcell]]]].
  exists arr, r. split; [rewrite scatter_firstn by exact Hlen; exact Harr|].
  split; [exact Hr|]. split; [exact Hrt|]. split; [rewrite Hrl, Hal, repeat_length; reflexivity|].
  split.
  - erewrite (omap_ext_local _ _ index); [|intros p _; apply Hcell].
    apply omap_of_option_map_some. apply (scatter_read _ _ _ _ Hnd Hlen' Harr).
  - intros q Hq Hnotin. rewrite Hcell.
    rewrite (scatter_outside _ _ _ _ q Harr Hnotin).
    rewrite (nth_error_repeat z) by exact Hq. reflexivity.
Qed.

Lemma scatter_short : forall index base vals,
  length vals < length index -> scatter base index vals = Panic.
Proof.
  induction index as [|p index IH]; intros base vals H; [simpl in H; lia|].
  destruct vals as [|v vals]; [reflexivity|]. simpl. destruct (p <? length base); [|reflexivity].
  apply IH. simpl in H. lia.
Qed.

Section Built.
  Variable L : pairs.
  Variables J1 J2 : list nat.
  Variables n1 n2 : nat.
  Hypothesis H121 : one2one L.
  Hypothesis Hact : act L J1 J2.
  Hypothesis Hrng : forall p q, In (p, q) L -> p < n1 /\ q < n2.

  Lemma act_in_range : Forall (fun p => p < n1) J1 /\ Forall (fun q => q < n2) J2.
  Proof.
    destruct Hact as [Hl [Hi _]]. split; apply Forall_forall.
    - intros p Hp. apply In_nth_error in Hp as [k Hk].
      destruct (nth_error J2 k) as [q|] eqn:E;
        [|apply nth_error_None in E; assert (k < length J1) by (apply nth_error_Some; congruence); lia].
      apply (Hrng p q). apply Hi. apply (nth_combine_In J1 J2 k p q Hk E).
    - intros q Hq. apply In_nth_error in Hq as [k Hk].
      destruct (nth_error J1 k) as [p|] eqn:E;
        [|apply nth_error_None in E; assert (k < length J2) by (apply nth_error_Some; congruence); lia].
      apply (Hrng p q). apply Hi. apply (nth_combine_In J1 J2 k p q E Hk).
  Qed.

  (* two columns that hold the same values along the paired indexes and the same value z everywhere else *)
  Lemma built_sim r1 r2 vs z :
    omap (cell_at r1) J1 = Ok vs -> omap (cell_at r2) J2 = Ok vs ->
    (forall q, q < n1 -> ~ In q J1 -> cell_at r1 q = Ok z) ->
    (forall q, q < n2 -> ~ In q J2 -> cell_at r2 q = Ok z) ->
    cells_sim L r1 r2.
  Proof.
    intros Hv1 Hv2 Hz1 Hz2 p q Hpq. destruct Hact as [Hl [Hi _]].
    destruct (in_dec Nat.eq_dec p J1) as [Hin|Hnin].
    - apply In_nth_error in Hin as [k Hk].
      destruct (nth_error J2 k) as [q'|] eqn:E;
        [|apply nth_error_None in E; assert (k < length J1) by (apply nth_error_Some; congruence); lia].
      assert (Hq : q = q').
      { apply (H121 p q p q' Hpq); [apply Hi; apply (nth_combine_In J1 J2 k p q' Hk E)|reflexivity]. }
      subst q'.
      destruct (omap_nth _ _ _ _ _ Hv1 Hk) as [x [Hx1 Hx2]].
      destruct (omap_nth _ _ _ _ _ Hv2 E) as [y [Hy1 Hy2]].
      exists x. split; [exact Hx1|]. rewrite Hy1. congruence.
    - assert (Hnq : ~ In q J2).
      { intro Hin. apply In_nth_error in Hin as [k Hk].
        destruct (nth_error J1 k) as [p'|] eqn:E;
          [|apply nth_error_None in E; assert (k < length J2) by (apply nth_error_Some; congruence); lia].
        assert (Hp : p = p').
        { apply (H121 p q p' q Hpq); [apply Hi; apply (nth_combine_In J1 J2 k p' q E Hk)|reflexivity]. }
        subst p'. apply Hnin. apply (nth_error_In _ _ E). }
      destruct (Hrng p q Hpq) as [Hp Hq]. exists z. split; [apply Hz1|apply Hz2]; assumption.
  Qed.

  (* the loop `for k, p := range index { result[p] = vals[k] }` over two paired indexes with the same values *)
  Lemma loop_sim t z vals :
    t <> TEnum -> cell_type_ok t z = true -> Forall (fun y => cell_type_ok t y = true) vals ->
    match (do cells <- scatter (repeat z n1) J1 vals; col_of_cells t cells),
          (do cells <- scatter (repeat z n2) J2 vals; col_of_cells t cells) with
    | Ok r1, Ok r2 => col_sim L r1 r2 /\ col_ok n1 r1 /\ col_ok n2 r2 /\ col_type r1 = t
    | Panic, Panic => True
    | _, _ => False
    end.
  Proof.
    intros Ht Hz Hty. pose proof act_in_range as [Hr1 Hr2]. destruct Hact as [Hl [Hi [Hnd1 Hnd2]]].
    destruct (Nat.lt_ge_cases (length vals) (length J1)) as [Hshort|Hlong].
    - rewrite (scatter_short J1 _ vals Hshort), (scatter_short J2 _ vals) by lia. exact I.
    - destruct (scatter_col_gen t z n1 J1 vals Ht Hz Hnd1 Hr1 Hlong Hty) as [a1 [r1 [Ha1 [Hc1 [Ht1 [Hl1 [Hv1 Hz1]]]]]]].
      destruct (scatter_col_gen t z n2 J2 vals Ht Hz Hnd2 Hr2 ltac:(lia) Hty) as [a2 [r2 [Ha2 [Hc2 [Ht2 [Hl2 [Hv2 Hz2]]]]]]].
      rewrite Ha1, Ha2. cbn [obind]. rewrite Hc1, Hc2.
      split; [split; [congruence|]|].
      + rewrite <- Hl in Hv2. apply (built_sim r1 r2 _ z Hv1 Hv2 Hz1 Hz2).
      + repeat split; try assumption; apply col_wf_nonenum; congruence.
  Qed.
End Built.

(* ------------------------------------------------------------------ one instruction *)

(* the only place where an oracle table is consulted on PHYSICAL data that the logical table does not show:
   ToUpper on an enum column upper-cases every entry of the column's value list (also unused ones) *)
Definition enum_upper_okb (ut : upper_table) (f : frame) (i : instr) : bool :=
  if ferr f then true
  else if empty_name (isrc1 i) then true
  else if empty_name (isrc2 i) then
    match lookup_col f (isrc1 i), ifn i with
    | Some (ECol _ vs _), FBuiltin nm => negb (bytes_eqb nm name_ToUpper) || upper_e_okb ut vs
    | _, _ => true
    end
  else true.

Lemma instr_tables_enum_upper ut f i : instr_tables_okb ut f i = true -> enum_upper_okb ut f i = true.
Proof.
  unfold instr_tables_okb, enum_upper_okb. destruct (ferr f); [reflexivity|].
  destruct (empty_name (isrc1 i)); [reflexivity|]. destruct (empty_name (isrc2 i)); [|reflexivity].
  destruct (lookup_col f (isrc1 i)) as [[d|d|d|d|d vs st]|]; try reflexivity.
  destruct (ifn i); try reflexivity. unfold fn1_tables_okb. destruct (bytes_eqb name name_ToUpper); auto.
Qed.

Definition sim_out (L : pairs) (f g : frame) (o1 o2 : outcome frame) : Prop :=
  match o1, o2 with
  | Ok f', Ok g' => Rel L f' g' /\ ix f' = ix f /\ ix g' = ix g
  | Panic, Panic => True
  | _, _ => False
  end.

Lemma sim_out_self L f g : Rel L f g -> sim_out L f g (Ok f) (Ok g).
Proof. intro H. split; [exact H|split; reflexivity]. Qed.
Lemma sim_out_err L f g : Rel L f g -> sim_out L f g (Ok (with_err f)) (Ok (with_err g)).
Proof. intro H. split; [apply Rel_with_err; exact H|split; reflexivity]. Qed.

Lemma sim_out_set L f g name (o1 o2 : outcome coldata) :
  Rel L f g ->
  match o1, o2 with
  | Ok r1, Ok r2 => col_sim L r1 r2 /\ col_ok (phys_len f) r1 /\ col_ok (phys_len g) r2
  | Panic, Panic | Fail, Fail => True
  | _, _ => False
  end ->
  sim_out L f g (match o1 with Ok r => Ok (set_column f name r) | Fail => Ok (with_err f) | Panic => Panic end)
                (match o2 with Ok r => Ok (set_column g name r) | Fail => Ok (with_err g) | Panic => Panic end).
Proof.
  intros HR H. destruct o1 as [r1| |], o2 as [r2| |]; try contradiction; try exact I.
  - destruct H as [Hs [Ho1 Ho2]]. split; [apply Rel_set_column; assumption|].
    destruct (set_column_kept f name r1 (r_wf1 _ _ _ HR) Ho1) as [_ [K _]].
    destruct (set_column_kept g name r2 (r_wf2 _ _ _ HR) Ho2) as [_ [G _]]. split; assumption.
  - apply sim_out_err. exact HR.
Qed.

Lemma cells_sim_bind2 {C} L (c1 c2 : coldata) (k : cell -> outcome C) J1 J2 :
  cells_sim L c1 c2 -> length J1 = length J2 -> incl (combine J1 J2) L ->
  omap (fun p => do x <- cell_at c1 p; k x) J1 = omap (fun q => do x <- cell_at c2 q; k x) J2.
Proof.
  intros Hc Hl Hi. apply omap_sim; [exact Hl|]. intros p q Hpq.
  destruct (Hc p q (Hi _ Hpq)) as [x [H1 H2]]. rewrite H1, H2. reflexivity.
Qed.

Lemma ctype_neq_eqb t : ctype_eqb t TEnum = false -> t <> TEnum.
Proof. intros H ->. discriminate. Qed.

Section Instr.
  Variable ut : upper_table.
  Variable L : pairs.
  Hypothesis H121 : one2one L.

  (* ---- the built in ToUpper, string columns: upper-cased strings at the index, "" elsewhere *)
  Lemma s_upper_sim f g d1 d2 :
    Rel L f g -> act L (ix f) (ix g) -> col_ok (phys_len f) (SCol d1) -> col_ok (phys_len g) (SCol d2) ->
    cells_sim L (SCol d1) (SCol d2) ->
    match s_to_upper ut d1 (ix f), s_to_upper ut d2 (ix g) with
    | Ok r1, Ok r2 => col_sim L r1 r2 /\ col_ok (phys_len f) r1 /\ col_ok (phys_len g) r2
    | Panic, Panic | Fail, Fail => True
    | _, _ => False
    end.
  Proof.
    intros HR Ha [Hl1 _] [Hl2 _] Hc. cbn [col_len] in Hl1, Hl2.
    pose proof Ha as [Hlen [Hincl [Hnd1 Hnd2]]].
    set (g1 := fun p => do s <- idx d1 p; match s with None => Ok (CStr None) | Some b => do u <- upper_of ut b; Ok (CStr (Some u)) end).
    set (g2 := fun p => do s <- idx d2 p; match s with None => Ok (CStr None) | Some b => do u <- upper_of ut b; Ok (CStr (Some u)) end).
    assert (Hvals : omap g1 (ix f) = omap g2 (ix g)).
    { apply omap_sim; [exact Hlen|]. intros p q Hpq. destruct (Hc p q (Hincl _ Hpq)) as [x [H1 H2]].
      unfold g1, g2. cbn [cell_at] in H1, H2.
      destruct (idx d1 p) as [s1| |]; cbn [obind] in H1; try discriminate.
      destruct (idx d2 q) as [s2| |]; cbn [obind] in H2; try discriminate.
      cbn [obind]. rewrite <- H2 in H1. inversion H1; subst. reflexivity. }
    assert (Hempty : forall (f0 : frame), phys_len f0 = 0 -> WF f0 -> ix f0 = []).
    { intros f0 H0 [_ Hi]. destruct (ix f0) as [|p r]; [reflexivity|]. inversion Hi; subst. lia. }
    unfold s_to_upper. fold g1 g2.
    destruct d1 as [|s1 d1']; [|set (dd1 := s1 :: d1') in *]; (destruct d2 as [|s2 d2']; [|set (dd2 := s2 :: d2') in *]).
    - split; [split; [reflexivity|]|split; split; auto]. intros p q Hpq. destruct (r_rng _ _ _ HR p q Hpq). simpl in *. lia.
    - (* f has no physical rows: both indexes are empty *)
      simpl in Hl1. assert (E1 : ix f = []) by (apply Hempty; [auto|apply HR]).
      assert (E2 : ix g = []) by (destruct (ix g); [reflexivity|rewrite E1 in Hlen; discriminate]).
      rewrite E2. cbn [omap obind scatter].
      assert (Hm : map (fun _ : option bytes => CStr (Some [])) dd2 = repeat (CStr (Some [])) (length dd2))
        by (clear; induction dd2; simpl; congruence).
      rewrite Hm.
      destruct (col_of_cells_spec TString (repeat (CStr (Some [])) (length dd2))) as [r [Hr [Hrt [Hrl Hcell]]]];
        [discriminate|apply repeat_Forall; reflexivity|].
      rewrite Hr. split; [split; [symmetry; exact Hrt|]|].
      + intros p q Hpq. destruct (r_rng _ _ _ HR p q Hpq). lia.
      + split; [split; auto|]. split; [rewrite Hrl, repeat_length; exact Hl2|apply col_wf_nonenum; rewrite Hrt; discriminate].
    - simpl in Hl2. assert (E2 : ix g = []) by (apply Hempty; [auto|apply HR]).
      assert (E1 : ix f = []) by (destruct (ix f); [reflexivity|rewrite E2 in Hlen; discriminate]).
      rewrite E1. cbn [omap obind scatter].
      assert (Hm : map (fun _ : option bytes => CStr (Some [])) dd1 = repeat (CStr (Some [])) (length dd1))
        by (clear; induction dd1; simpl; congruence).
      rewrite Hm.
      destruct (col_of_cells_spec TString (repeat (CStr (Some [])) (length dd1))) as [r [Hr [Hrt [Hrl Hcell]]]];
        [discriminate|apply repeat_Forall; reflexivity|].
      rewrite Hr. split; [split; [exact Hrt|]|].
      + intros p q Hpq. destruct (r_rng _ _ _ HR p q Hpq). lia.
      + split; [|split; auto]. split; [rewrite Hrl, repeat_length; exact Hl1|apply col_wf_nonenum; rewrite Hrt; discriminate].
    - rewrite <- Hvals. destruct (omap g1 (ix f)) as [vals| |] eqn:Ev; cbn [obind]; try exact I.
      assert (Hm1 : map (fun _ : option bytes => CStr (Some [])) dd1 = repeat (CStr (Some [])) (phys_len f))
        by (rewrite <- Hl1; clear; induction dd1; simpl; congruence).
      assert (Hm2 : map (fun _ : option bytes => CStr (Some [])) dd2 = repeat (CStr (Some [])) (phys_len g))
        by (rewrite <- Hl2; clear; induction dd2; simpl; congruence).
      rewrite Hm1, Hm2.
      assert (Hty : Forall (fun y => cell_type_ok TString y = true) vals).
      { apply (omap_Forall _ _ _ _ Ev). intros p b _ Hb. unfold g1 in Hb.
        destruct (idx dd1 p) as [[s|]| |]; cbn [obind] in Hb; try discriminate.
        - destruct (upper_of ut s); cbn [obind] in Hb; try discriminate. inversion Hb. reflexivity.
        - inversion Hb. reflexivity. }
      pose proof (loop_sim L (ix f) (ix g) (phys_len f) (phys_len g) H121 Ha (r_rng _ _ _ HR) TString (CStr (Some [])) vals
                    ltac:(discriminate) eq_refl Hty) as Hloop.
      destruct (do cells <- scatter _ (ix f) vals; col_of_cells TString cells) as [r1| |],
               (do cells <- scatter _ (ix g) vals; col_of_cells TString cells) as [r2| |]; try contradiction; try exact I.
      destruct Hloop as [H1 [H2 [H3 _]]]. auto.
  Qed.
End Instr.
