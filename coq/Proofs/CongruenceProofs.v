(* Proofs/CongruenceProofs.v — property C09, "yields Equal results under every operation": two frames with the
   same logical table (abs) - whatever their physical layouts and row indexes - are mapped by the operations of
   Model/Ops.v, Model/Filter.v and Model/Eval.v to frames with the same logical table, with the same outcome
   (result / Go panic).

   Method: a simulation.  A list L of pairs (p, q) relates physical positions of f to physical positions of g
   (for frames with the same table: L = combine (ix f) (ix g)); Rel L f g says that the two frames have the same
   column names and types and that paired positions hold the same cells in every column.  Every instruction of
   Apply preserves Rel L - also when it runs over a sub-index (FilteredApply) - and Rel gives back abs f = abs g. *)
From QF Require Import Base.Prelude Model.Frame Model.Filter Model.Ops Model.TableSpec.
From QF Require Import Proofs.OpsProofs Proofs.OpsProofs2 Proofs.NoPanicProofs.
Local Open Scope nat_scope.

(* ------------------------------------------------------------------ lists of pairs *)

Definition pairs := list (nat * nat).

Lemma In_combine_nth {A B} : forall (l1 : list A) (l2 : list B) a b,
  In (a, b) (combine l1 l2) -> exists k, nth_error l1 k = Some a /\ nth_error l2 k = Some b.
Proof.
  induction l1 as [|x l1 IH]; intros l2 a b H; [destruct H|].
  destruct l2 as [|y l2]; [destruct H|]. simpl in H. destruct H as [H|H].
  - inversion H; subst. exists 0. split; reflexivity.
  - destruct (IH l2 a b H) as [k [H1 H2]]. exists (S k). split; assumption.
Qed.

Lemma nth_combine_In {A B} : forall (l1 : list A) (l2 : list B) k a b,
  nth_error l1 k = Some a -> nth_error l2 k = Some b -> In (a, b) (combine l1 l2).
Proof.
  induction l1 as [|x l1 IH]; intros l2 k a b H1 H2; [destruct k; discriminate|].
  destruct l2 as [|y l2]; [destruct k; discriminate|].
  destruct k as [|k]; simpl in *.
  - inversion H1; inversion H2; subst. left. reflexivity.
  - right. apply (IH l2 k a b H1 H2).
Qed.

Definition one2one (L : pairs) : Prop :=
  forall p q p' q', In (p, q) L -> In (p', q') L -> (p = p' <-> q = q').

Lemma one2one_combine l1 l2 : NoDup l1 -> NoDup l2 -> one2one (combine l1 l2).
Proof.
  intros H1 H2 p q p' q' Ha Hb.
  apply In_combine_nth in Ha as [k [Ka1 Ka2]]. apply In_combine_nth in Hb as [k' [Kb1 Kb2]].
  rewrite NoDup_nth_error in H1, H2. split; intro E; subst.
  - assert (k = k') by (apply H1; [apply nth_error_Some; congruence|congruence]). subst. congruence.
  - assert (k = k') by (apply H2; [apply nth_error_Some; congruence|congruence]). subst. congruence.
Qed.

Lemma omap_sim {A B C} (g1 : A -> outcome C) (g2 : B -> outcome C) : forall J1 J2,
  length J1 = length J2 -> (forall p q, In (p, q) (combine J1 J2) -> g1 p = g2 q) -> omap g1 J1 = omap g2 J2.
Proof.
  induction J1 as [|p J1 IH]; intros [|q J2] Hl H; try discriminate; [reflexivity|].
  simpl. rewrite (H p q (or_introl eq_refl)).
  rewrite (IH J2) by (simpl in Hl; try lia; intros; apply H; right; assumption). reflexivity.
Qed.

Lemma combine_filter_incl {A B} (a : A -> bool) (b : B -> bool) : forall (l1 : list A) (l2 : list B),
  length l1 = length l2 -> (forall p q, In (p, q) (combine l1 l2) -> a p = b q) ->
  incl (combine (filter a l1) (filter b l2)) (combine l1 l2) /\ length (filter a l1) = length (filter b l2).
Proof.
  induction l1 as [|x l1 IH]; intros [|y l2] Hl H; try discriminate; [split; [intros z []|reflexivity]|].
  destruct (IH l2) as [Hi Hlen]; [simpl in Hl; lia|intros; apply H; right; assumption|].
  simpl. rewrite <- (H x y (or_introl eq_refl)). destruct (a x); simpl.
  - split; [|lia]. intros z [Hz|Hz]; [left; exact Hz|right; apply Hi; exact Hz].
  - split; [|exact Hlen]. intros z Hz. right. apply Hi. exact Hz.
Qed.

(* ------------------------------------------------------------------ the simulation relation *)

Definition cells_sim (L : pairs) (c1 c2 : coldata) : Prop :=
  forall p q, In (p, q) L -> exists x, cell_at c1 p = Ok x /\ cell_at c2 q = Ok x.

Definition col_sim (L : pairs) (c1 c2 : coldata) : Prop := col_type c1 = col_type c2 /\ cells_sim L c1 c2.

Definition cols_sim (L : pairs) (cs1 cs2 : list (bytes * coldata)) : Prop :=
  Forall2 (fun a b => fst a = fst b /\ col_sim L (snd a) (snd b)) cs1 cs2.

Record Rel (L : pairs) (f g : frame) : Prop := mkRel {
  r_err : ferr f = ferr g;
  r_cols : cols_sim L (cols f) (cols g);
  r_wf1 : WF f;
  r_wf2 : WF g;
  r_rng : forall p q, In (p, q) L -> p < phys_len f /\ q < phys_len g
}.

(* the row indexes the instruction loops run over: paired through L, duplicate free *)
Definition act (L : pairs) (J1 J2 : list nat) : Prop :=
  length J1 = length J2 /\ incl (combine J1 J2) L /\ NoDup J1 /\ NoDup J2.

Lemma col_sim_incl L L' c1 c2 : incl L' L -> col_sim L c1 c2 -> col_sim L' c1 c2.
Proof. intros Hi [Ht Hc]. split; [exact Ht|]. intros p q Hpq. apply Hc. apply Hi. exact Hpq. Qed.

Definition opt_sim (L : pairs) (a b : option (nat * coldata)) : Prop :=
  match a, b with
  | None, None => True
  | Some (k1, c1), Some (k2, c2) => k1 = k2 /\ col_sim L c1 c2
  | _, _ => False
  end.

Lemma lookup_from_sim L name : forall cs1 cs2 pos acc1 acc2,
  cols_sim L cs1 cs2 -> opt_sim L acc1 acc2 ->
  opt_sim L (lookup_from name cs1 pos acc1) (lookup_from name cs2 pos acc2).
Proof.
  induction cs1 as [|[n1 c1] cs1 IH]; intros cs2 pos acc1 acc2 H Ha; inversion H as [|? [n2 c2] ? cs2' [Hn Hc] Hrest]; subst.
  - exact Ha.
  - cbn [fst snd] in Hn, Hc. subst n2. cbn [lookup_from]. apply IH; [exact Hrest|].
    destruct (bytes_eqb n1 name); [split; [reflexivity|exact Hc]|exact Ha].
Qed.

Lemma lookup_sim L f g name : cols_sim L (cols f) (cols g) -> opt_sim L (lookup f name) (lookup g name).
Proof. intro H. unfold lookup. apply lookup_from_sim; [exact H|exact I]. Qed.

Lemma lookup_col_sim L f g name : cols_sim L (cols f) (cols g) ->
  match lookup_col f name, lookup_col g name with
  | None, None => True
  | Some c1, Some c2 => col_sim L c1 c2
  | _, _ => False
  end.
Proof.
  intro H. pose proof (lookup_sim L f g name H) as Hs. unfold lookup_col, opt_sim in *.
  destruct (lookup f name) as [[k1 c1]|], (lookup g name) as [[k2 c2]|]; cbn [option_map snd]; tauto.
Qed.

Lemma cols_sim_names L cs1 cs2 : cols_sim L cs1 cs2 -> map fst cs1 = map fst cs2.
Proof. induction 1 as [|a b l l' [Hn _] _ IH]; [reflexivity|]. simpl. rewrite Hn, IH. reflexivity. Qed.

Lemma cols_sim_types L cs1 cs2 :
  cols_sim L cs1 cs2 -> map (fun nc => col_type (snd nc)) cs1 = map (fun nc => col_type (snd nc)) cs2.
Proof. induction 1 as [|a b l l' [_ [Ht _]] _ IH]; [reflexivity|]. simpl. rewrite Ht, IH. reflexivity. Qed.

Lemma Forall2_set_nth {A B} (R : A -> B -> Prop) : forall l l' k x y,
  Forall2 R l l' -> R x y -> Forall2 R (set_nth l k x) (set_nth l' k y).
Proof.
  induction l as [|a l IH]; intros l' k x y H Hxy; inversion H; subst; [constructor|].
  destruct k; simpl; constructor; auto.
Qed.

Lemma set_column_sim L f g name r1 r2 :
  cols_sim L (cols f) (cols g) -> col_sim L r1 r2 ->
  cols_sim L (cols (set_column f name r1)) (cols (set_column g name r2)).
Proof.
  intros H Hr. unfold set_column. destruct (negb (check_name name)); [exact H|].
  pose proof (lookup_sim L f g name H) as Hl. unfold opt_sim in Hl.
  destruct (lookup f name) as [[k1 c1]|], (lookup g name) as [[k2 c2]|]; try contradiction; cbn [cols].
  - destruct Hl as [-> _]. apply Forall2_set_nth; [exact H|]. split; [reflexivity|exact Hr].
  - apply Forall2_app; [exact H|]. constructor; [split; [reflexivity|exact Hr]|constructor].
Qed.

Lemma set_column_ferr f name r : ferr (set_column f name r) = ferr f || negb (check_name name).
Proof.
  unfold set_column. destruct (check_name name); cbn [negb].
  - destruct (lookup f name) as [[k c]|]; cbn [ferr]; rewrite orb_false_r; reflexivity.
  - cbn [with_err ferr]. rewrite orb_true_r. reflexivity.
Qed.

Lemma Rel_with_err L f g : Rel L f g -> Rel L (with_err f) (with_err g).
Proof.
  intros [H1 H2 H3 H4 H5]. split; [reflexivity|exact H2|apply WF_with_err; exact H3|apply WF_with_err; exact H4|exact H5].
Qed.

Lemma Rel_set_column L f g name r1 r2 :
  Rel L f g -> col_sim L r1 r2 -> col_ok (phys_len f) r1 -> col_ok (phys_len g) r2 ->
  Rel L (set_column f name r1) (set_column g name r2).
Proof.
  intros [H1 H2 H3 H4 H5] Hr Ho1 Ho2.
  destruct (set_column_kept f name r1 H3 Ho1) as [K1 [_ K3]].
  destruct (set_column_kept g name r2 H4 Ho2) as [G1 [_ G3]].
  split; [rewrite !set_column_ferr, H1; reflexivity|apply set_column_sim; assumption|exact K1|exact G1|].
  intros p q Hpq. rewrite K3, G3. apply H5. exact Hpq.
Qed.

(* ------------------------------------------------------------------ a column written by an Apply loop *)

(* the generated loop: an array of n copies of z, the k-th result stored at index[k] *)
Lemma scatter_col_gen t z n index vals :
  t <> TEnum -> cell_type_ok t z = true -> NoDup index -> Forall (fun p => p < n) index -> length index <= length vals ->
  Forall (fun y => cell_type_ok t y = true) vals ->
  exists arr r, scatter (repeat z n) index vals = Ok arr /\ col_of_cells t arr = Ok r
    /\ col_type r = t /\ col_len r = n
    /\ omap (cell_at r) index = Ok (firstn (length index) vals)
    /\ (forall q, q < n -> ~ In q index -> cell_at r q = Ok z).
Proof.
  intros Ht Hz Hnd Hin Hlen Htyped.
  set (vals' := firstn (length index) vals).
  assert (Hlen' : length vals' = length index) by (unfold vals'; rewrite firstn_length; lia).
  assert (Htyped' : Forall (fun y => cell_type_ok t y = true) vals') by (apply Forall_firstn; exact Htyped).
  assert (Hbase : Forall (fun p => p < length (repeat z n)) index) by (rewrite repeat_length; exact Hin).
  destruct (scatter_ok index (repeat z n) vals' Hlen' Hbase) as [arr [Harr Hal]].
  assert (Harr_ok : Forall (fun y => cell_type_ok t y = true) arr).
  { eapply scatter_Forall; [| |exact Harr]; [apply repeat_Forall; exact Hz|exact Htyped']. }
  destruct (col_of_cells_spec t arr Ht Harr_ok) as [r [Hr [Hrt [Hrl Hcell]]]].
  exists arr, r. split; [rewrite scatter_firstn by exact Hlen; exact Harr|].
  split; [exact Hr|]. split; [exact Hrt|]. split; [rewrite Hrl, Hal, repeat_length; reflexivity|].
  split.
  - erewrite (omap_ext_local _ _ index); [|intros p _; apply Hcell].
    apply omap_of_option_map_some. apply (scatter_read _ _ _ _ Hnd Hlen' Harr).
  - intros q Hq Hnotin. rewrite Hcell.
    rewrite (scatter_outside _ _ _ _ q Harr Hnotin).
    rewrite (nth_error_repeat z) by exact Hq. reflexivity.
Qed.

Lemma scatter_short : forall index base vals,
  length vals < length index -> scatter base index vals = Panic.
Proof.
  induction index as [|p index IH]; intros base vals H; [simpl in H; lia|].
  destruct vals as [|v vals]; [reflexivity|]. simpl. destruct (p <? length base); [|reflexivity].
  apply IH. simpl in H. lia.
Qed.

Section Built.
  Variable L : pairs.
  Variables J1 J2 : list nat.
  Variables n1 n2 : nat.
  Hypothesis H121 : one2one L.
  Hypothesis Hact : act L J1 J2.
  Hypothesis Hrng : forall p q, In (p, q) L -> p < n1 /\ q < n2.

  Lemma act_in_range : Forall (fun p => p < n1) J1 /\ Forall (fun q => q < n2) J2.
  Proof.
    destruct Hact as [Hl [Hi _]]. split; apply Forall_forall.
    - intros p Hp. apply In_nth_error in Hp as [k Hk].
      destruct (nth_error J2 k) as [q|] eqn:E;
        [|apply nth_error_None in E; assert (k < length J1) by (apply nth_error_Some; congruence); lia].
      apply (Hrng p q). apply Hi. apply (nth_combine_In J1 J2 k p q Hk E).
    - intros q Hq. apply In_nth_error in Hq as [k Hk].
      destruct (nth_error J1 k) as [p|] eqn:E;
        [|apply nth_error_None in E; assert (k < length J2) by (apply nth_error_Some; congruence); lia].
      apply (Hrng p q). apply Hi. apply (nth_combine_In J1 J2 k p q E Hk).
  Qed.

  (* two columns that hold the same values along the paired indexes and the same value z everywhere else *)
  Lemma built_sim r1 r2 vs z :
    omap (cell_at r1) J1 = Ok vs -> omap (cell_at r2) J2 = Ok vs ->
    (forall q, q < n1 -> ~ In q J1 -> cell_at r1 q = Ok z) ->
    (forall q, q < n2 -> ~ In q J2 -> cell_at r2 q = Ok z) ->
    cells_sim L r1 r2.
  Proof.
    intros Hv1 Hv2 Hz1 Hz2 p q Hpq. destruct Hact as [Hl [Hi _]].
    destruct (in_dec Nat.eq_dec p J1) as [Hin|Hnin].
    - apply In_nth_error in Hin as [k Hk].
      destruct (nth_error J2 k) as [q'|] eqn:E;
        [|apply nth_error_None in E; assert (k < length J1) by (apply nth_error_Some; congruence); lia].
      assert (Hq : q = q').
      { apply (H121 p q p q' Hpq); [apply Hi; apply (nth_combine_In J1 J2 k p q' Hk E)|reflexivity]. }
      subst q'.
      destruct (omap_nth _ _ _ _ _ Hv1 Hk) as [x [Hx1 Hx2]].
      destruct (omap_nth _ _ _ _ _ Hv2 E) as [y [Hy1 Hy2]].
      exists x. split; [exact Hx1|]. rewrite Hy1. congruence.
    - assert (Hnq : ~ In q J2).
      { intro Hin. apply In_nth_error in Hin as [k Hk].
        destruct (nth_error J1 k) as [p'|] eqn:E;
          [|apply nth_error_None in E; assert (k < length J2) by (apply nth_error_Some; congruence); lia].
        assert (Hp : p = p').
        { apply (H121 p q p' q Hpq); [apply Hi; apply (nth_combine_In J1 J2 k p' q E Hk)|reflexivity]. }
        subst p'. apply Hnin. apply (nth_error_In _ _ E). }
      destruct (Hrng p q Hpq) as [Hp Hq]. exists z. split; [apply Hz1|apply Hz2]; assumption.
  Qed.

  (* the loop `for k, p := range index { result[p] = vals[k] }` over two paired indexes with the same values *)
  Lemma loop_sim t z vals :
    t <> TEnum -> cell_type_ok t z = true -> Forall (fun y => cell_type_ok t y = true) vals ->
    match (do cells <- scatter (repeat z n1) J1 vals; col_of_cells t cells),
          (do cells <- scatter (repeat z n2) J2 vals; col_of_cells t cells) with
    | Ok r1, Ok r2 => col_sim L r1 r2 /\ col_ok n1 r1 /\ col_ok n2 r2 /\ col_type r1 = t
    | Panic, Panic => True
    | _, _ => False
    end.
  Proof.
    intros Ht Hz Hty. pose proof act_in_range as [Hr1 Hr2]. destruct Hact as [Hl [Hi [Hnd1 Hnd2]]].
    destruct (Nat.lt_ge_cases (length vals) (length J1)) as [Hshort|Hlong].
    - rewrite (scatter_short J1 _ vals Hshort), (scatter_short J2 _ vals) by lia. exact I.
    - destruct (scatter_col_gen t z n1 J1 vals Ht Hz Hnd1 Hr1 Hlong Hty) as [a1 [r1 [Ha1 [Hc1 [Ht1 [Hl1 [Hv1 Hz1]]]]]]].
      destruct (scatter_col_gen t z n2 J2 vals Ht Hz Hnd2 Hr2 ltac:(lia) Hty) as [a2 [r2 [Ha2 [Hc2 [Ht2 [Hl2 [Hv2 Hz2]]]]]]].
      rewrite Ha1, Ha2. cbn [obind]. rewrite Hc1, Hc2.
      split; [split; [congruence|]|].
      + rewrite <- Hl in Hv2. apply (built_sim r1 r2 _ z Hv1 Hv2 Hz1 Hz2).
      + repeat split; try assumption; apply col_wf_nonenum; congruence.
  Qed.
End Built.

(* ------------------------------------------------------------------ one instruction *)

(* the only place where an oracle table is consulted on PHYSICAL data that the logical table does not show:
   ToUpper on an enum column upper-cases every entry of the column's value list (also unused ones) *)
Definition enum_upper_okb (ut : upper_table) (f : frame) (i : instr) : bool :=
  if ferr f then true
  else if empty_name (isrc1 i) then true
  else if empty_name (isrc2 i) then
    match lookup_col f (isrc1 i), ifn i with
    | Some (ECol _ vs _), FBuiltin nm => negb (bytes_eqb nm name_ToUpper) || upper_e_okb ut vs
    | _, _ => true
    end
  else true.

Lemma instr_tables_enum_upper ut f i : instr_tables_okb ut f i = true -> enum_upper_okb ut f i = true.
Proof.
  unfold instr_tables_okb, enum_upper_okb. destruct (ferr f); [reflexivity|].
  destruct (empty_name (isrc1 i)); [reflexivity|]. destruct (empty_name (isrc2 i)); [|reflexivity].
  destruct (lookup_col f (isrc1 i)) as [[d|d|d|d|d vs st]|]; try reflexivity.
  destruct (ifn i); try reflexivity. unfold fn1_tables_okb. destruct (bytes_eqb name name_ToUpper); auto.
Qed.

Definition sim_out (L : pairs) (f g : frame) (o1 o2 : outcome frame) : Prop :=
  match o1, o2 with
  | Ok f', Ok g' => Rel L f' g' /\ ix f' = ix f /\ ix g' = ix g
  | Panic, Panic => True
  | _, _ => False
  end.

Lemma sim_out_self L f g : Rel L f g -> sim_out L f g (Ok f) (Ok g).
Proof. intro H. split; [exact H|split; reflexivity]. Qed.
Lemma sim_out_err L f g : Rel L f g -> sim_out L f g (Ok (with_err f)) (Ok (with_err g)).
Proof. intro H. split; [apply Rel_with_err; exact H|split; reflexivity]. Qed.

Lemma sim_out_set L f g name (o1 o2 : outcome coldata) :
  Rel L f g ->
  match o1, o2 with
  | Ok r1, Ok r2 => col_sim L r1 r2 /\ col_ok (phys_len f) r1 /\ col_ok (phys_len g) r2
  | Panic, Panic | Fail, Fail => True
  | _, _ => False
  end ->
  sim_out L f g (match o1 with Ok r => Ok (set_column f name r) | Fail => Ok (with_err f) | Panic => Panic end)
                (match o2 with Ok r => Ok (set_column g name r) | Fail => Ok (with_err g) | Panic => Panic end).
Proof.
  intros HR H. destruct o1 as [r1| |], o2 as [r2| |]; try contradiction; try exact I.
  - destruct H as [Hs [Ho1 Ho2]]. split; [apply Rel_set_column; assumption|].
    destruct (set_column_kept f name r1 (r_wf1 _ _ _ HR) Ho1) as [_ [K _]].
    destruct (set_column_kept g name r2 (r_wf2 _ _ _ HR) Ho2) as [_ [G _]]. split; assumption.
  - apply sim_out_err. exact HR.
Qed.

Lemma cells_sim_bind2 {C} L (c1 c2 : coldata) (k : cell -> outcome C) J1 J2 :
  cells_sim L c1 c2 -> length J1 = length J2 -> incl (combine J1 J2) L ->
  omap (fun p => do x <- cell_at c1 p; k x) J1 = omap (fun q => do x <- cell_at c2 q; k x) J2.
Proof.
  intros Hc Hl Hi. apply omap_sim; [exact Hl|]. intros p q Hpq.
  destruct (Hc p q (Hi _ Hpq)) as [x [H1 H2]]. rewrite H1, H2. reflexivity.
Qed.

Lemma ctype_neq_eqb t : ctype_eqb t TEnum = false -> t <> TEnum.
Proof. intros H ->. discriminate. Qed.

(* ------------------------------------------------------------------ ecolumn.toUpper, cell by cell *)

Lemma find_value_nth : forall vs s i r, find_value vs s i = Some r ->
  exists k, r = (i + N.of_nat k)%N /\ nth_error vs k = Some s.
Proof.
  induction vs as [|v vs IH]; intros s i r H; simpl in H; [discriminate|].
  destruct (bytes_eqb v s) eqn:E.
  - inversion H; subst. apply bytes_eqb_spec in E. subst. exists 0. split; [lia|reflexivity].
  - destruct (IH s (i + 1)%N r H) as [k [Hr Hk]]. exists (S k). split; [lia|exact Hk].
Qed.

(* the merge loop: every old rank i is sent to a new rank whose value is the i-th upper-cased value *)
Lemma up_fold_sem : forall ups nv o2n mg nv' o2n' mg',
  fold_left up_step ups (nv, o2n, mg) = (nv', o2n', mg') ->
  exists ext rs, nv' = nv ++ ext /\ o2n' = o2n ++ rs /\ length rs = length ups
    /\ (forall i u, nth_error ups i = Some u ->
          exists r, nth_error rs i = Some r /\ nth_error nv' (N.to_nat r) = Some u)
    /\ (mg' = false -> mg = false /\ ext = ups).
Proof.
  induction ups as [|u ups IH]; intros nv o2n mg nv' o2n' mg' H.
  - simpl in H. inversion H; subst. exists [], []. rewrite !app_nil_r. repeat split; auto.
    intros i u Hi. destruct i; discriminate.
  - simpl in H. destruct (find_value nv u 0) as [r|] eqn:E.
    + destruct (IH _ _ _ _ _ _ H) as [ext [rs [H1 [H2 [H3 [H4 H5]]]]]].
      exists ext, (r :: rs). split; [exact H1|]. split; [rewrite H2, <- app_assoc; reflexivity|].
      split; [simpl; lia|]. split.
      * intros [|i] u' Hi; simpl in Hi.
        -- inversion Hi; subst u'. exists r. split; [reflexivity|].
           destruct (find_value_nth _ _ _ _ E) as [k [Hr Hk]]. rewrite H1.
           replace (N.to_nat r) with k by lia. rewrite nth_error_app1; [exact Hk|].
           apply nth_error_Some. congruence.
        -- apply (H4 i u' Hi).
      * intro Hm. destruct (H5 Hm) as [Hd _]. discriminate.
    + destruct (IH _ _ _ _ _ _ H) as [ext [rs [H1 [H2 [H3 [H4 H5]]]]]].
      exists (u :: ext), (N.of_nat (length nv) :: rs).
      split; [rewrite H1, <- app_assoc; reflexivity|]. split; [rewrite H2, <- app_assoc; reflexivity|].
      split; [simpl; lia|]. split.
      * intros [|i] u' Hi; simpl in Hi.
        -- inversion Hi; subst u'. exists (N.of_nat (length nv)). split; [reflexivity|].
           rewrite H1, <- app_assoc. rewrite Nat2N.id. rewrite nth_error_app2 by lia.
           replace (length nv - length nv) with 0 by lia. reflexivity.
        -- apply (H4 i u' Hi).
      * intro Hm. destruct (H5 Hm) as [Hd He]. split; [exact Hd|]. rewrite He. reflexivity.
Qed.

(* the cell a row holds after ToUpper, as a function of the cell it held before *)
Definition upcell (ut : upper_table) (x : cell) : outcome cell :=
  match x with
  | CStr None => Ok (CStr None)
  | CStr (Some s) => do u <- upper_of ut s; Ok (CStr (Some u))
  | CEnum None => Ok (CEnum None)
  | CEnum (Some s) => do u <- upper_of ut s; Ok (CEnum (Some u))
  | _ => Panic
  end.

Lemma e_upper_spec ut d values st n :
  col_ok n (ECol d values st) -> upper_e_okb ut values = true ->
  exists r0, e_to_upper ut d values = Ok r0 /\ col_type r0 = TEnum /\ col_ok n r0
    /\ forall p x, cell_at (ECol d values st) p = Ok x ->
         exists y, upcell ut x = Ok y /\ cell_at r0 p = Ok y.
Proof.
  intros Hok Hut. pose proof (e_to_upper_post ut d values st n Hok) as Hpost.
  destruct (post_total _ _ _ Hpost Hut) as [r0 [Hr0 Hok0]]. exists r0. split; [exact Hr0|].
  pose proof (upper_of_post ut values) as Hup. destruct (post_total _ _ _ Hup Hut) as [ups [Hups Hlen]].
  unfold e_to_upper in Hr0. rewrite Hups in Hr0. cbn [obind] in Hr0.
  change (fold_left _ ups ([], [], false)) with (fold_left up_step ups ([], [], false)) in Hr0.
  destruct (fold_left up_step ups ([], [], false)) as [[nv o2n] mg] eqn:E.
  destruct (up_fold_sem _ _ _ _ _ _ _ E) as [ext [rs [H1 [H2 [H3 [H4 H5]]]]]]. simpl in H1, H2. subst nv o2n.
  assert (Hval : forall r s, nth_error values (N.to_nat r) = Some s ->
                 exists u, upper_of ut s = Ok u /\ nth_error ups (N.to_nat r) = Some u).
  { intros r s Hs. destruct (omap_nth _ _ _ _ _ Hups Hs) as [u [Hu1 Hu2]]. exists u. split; assumption. }
  destruct mg.
  - destruct (omap _ d) as [nd| |] eqn:End; cbn [obind] in Hr0; try discriminate. inversion Hr0; subst r0. clear Hr0.
    split; [reflexivity|]. split; [exact Hok0|].
    intros p x Hx. cbn [cell_at] in Hx |- *. unfold idx in *.
    destruct (nth_error d p) as [r|] eqn:Ed; cbn [of_option obind] in Hx; [|discriminate].
    destruct (omap_nth _ _ _ _ _ End Ed) as [r' [Hr'1 Hr'2]]. rewrite Hr'2. cbn [of_option obind].
    unfold enum_string in *. destruct (enum_is_null r) eqn:En.
    + inversion Hr'1; subst r'. rewrite En. cbn [obind] in Hx |- *. inversion Hx; subst x. exists (CEnum None). split; reflexivity.
    + unfold idx in Hx, Hr'1. destruct (nth_error values (N.to_nat r)) as [s|] eqn:Es; cbn [of_option obind] in Hx; [|discriminate].
      inversion Hx; subst x. destruct (Hval r s Es) as [u [Hu1 Hu2]]. destruct (H4 _ _ Hu2) as [r2 [Hr2 Hnv]].
      rewrite Hr2 in Hr'1. cbn [of_option] in Hr'1. inversion Hr'1; subst r'.
      assert (Hnn : enum_is_null r2 = false).
      { unfold enum_is_null. apply N.eqb_neq. intro Hc. destruct Hok0 as [_ Hw]. cbn [col_wf] in Hw.
        apply andb_true_iff in Hw as [_ Hcard]. apply Nat.leb_le in Hcard.
        assert (N.to_nat r2 < length ext) by (apply nth_error_Some; congruence).
        unfold GenConsts.c_nullValue, GenConsts.c_maxCardinality in *. lia. }
      rewrite Hnn. unfold idx. rewrite Hnv. cbn [of_option obind]. exists (CEnum (Some u)). split; [|reflexivity].
      cbn [upcell]. rewrite Hu1. reflexivity.
  - destruct (H5 eq_refl) as [_ He]. subst ext. inversion Hr0; subst r0. clear Hr0.
    split; [reflexivity|]. split; [exact Hok0|].
    intros p x Hx. cbn [cell_at] in Hx |- *. unfold idx in *.
    destruct (nth_error d p) as [r|] eqn:Ed; cbn [of_option obind] in Hx |- *; [|discriminate].
    unfold enum_string in *. destruct (enum_is_null r) eqn:En; cbn [obind] in Hx |- *.
    + inversion Hx; subst x. exists (CEnum None). split; reflexivity.
    + unfold idx in Hx |- *. destruct (nth_error values (N.to_nat r)) as [s|] eqn:Es; cbn [of_option obind] in Hx; [|discriminate].
      inversion Hx; subst x. destruct (Hval r s Es) as [u [Hu1 Hu2]]. rewrite Hu2. cbn [of_option obind].
      exists (CEnum (Some u)). split; [|reflexivity]. cbn [upcell]. rewrite Hu1. reflexivity.
Qed.

Section Instr.
  Variable ut : upper_table.
  Variable L : pairs.
  Hypothesis H121 : one2one L.

  (* ---- the built in ToUpper, string columns: upper-cased strings at the index, "" elsewhere *)
  Lemma s_upper_sim f g d1 d2 :
    Rel L f g -> act L (ix f) (ix g) -> col_ok (phys_len f) (SCol d1) -> col_ok (phys_len g) (SCol d2) ->
    cells_sim L (SCol d1) (SCol d2) ->
    match s_to_upper ut d1 (ix f), s_to_upper ut d2 (ix g) with
    | Ok r1, Ok r2 => col_sim L r1 r2 /\ col_ok (phys_len f) r1 /\ col_ok (phys_len g) r2
    | Panic, Panic | Fail, Fail => True
    | _, _ => False
    end.
  Proof.
    intros HR Ha [Hl1 _] [Hl2 _] Hc. cbn [col_len] in Hl1, Hl2.
    pose proof Ha as [Hlen [Hincl [Hnd1 Hnd2]]].
    set (g1 := fun p => do s <- idx d1 p; match s with None => Ok (CStr None) | Some b => do u <- upper_of ut b; Ok (CStr (Some u)) end).
    set (g2 := fun p => do s <- idx d2 p; match s with None => Ok (CStr None) | Some b => do u <- upper_of ut b; Ok (CStr (Some u)) end).
    assert (Hvals : omap g1 (ix f) = omap g2 (ix g)).
    { apply omap_sim; [exact Hlen|]. intros p q Hpq. destruct (Hc p q (Hincl _ Hpq)) as [x [H1 H2]].
      unfold g1, g2. cbn [cell_at] in H1, H2.
      destruct (idx d1 p) as [s1| |]; cbn [obind] in H1; try discriminate.
      destruct (idx d2 q) as [s2| |]; cbn [obind] in H2; try discriminate.
      cbn [obind]. rewrite <- H2 in H1. inversion H1; subst. reflexivity. }
    assert (Hempty : forall (f0 : frame), phys_len f0 = 0 -> WF f0 -> ix f0 = []).
    { intros f0 H0 [_ Hi]. destruct (ix f0) as [|p r]; [reflexivity|]. inversion Hi; subst. lia. }
    unfold s_to_upper. fold g1 g2.
    destruct d1 as [|s1 d1']; [|set (dd1 := s1 :: d1') in *]; (destruct d2 as [|s2 d2']; [|set (dd2 := s2 :: d2') in *]).
    - split; [split; [reflexivity|]|split; split; auto]. intros p q Hpq. destruct (r_rng _ _ _ HR p q Hpq). simpl in *. lia.
    - (* f has no physical rows: both indexes are empty *)
      simpl in Hl1. assert (E1 : ix f = []) by (apply Hempty; [auto|apply HR]).
      assert (E2 : ix g = []) by (destruct (ix g); [reflexivity|rewrite E1 in Hlen; discriminate]).
      rewrite E2. cbn [omap obind scatter].
      assert (Hm : map (fun _ : option bytes => CStr (Some [])) dd2 = repeat (CStr (Some [])) (length dd2))
        by (clear; induction dd2; simpl; congruence).
      rewrite Hm.
      destruct (col_of_cells_spec TString (repeat (CStr (Some [])) (length dd2))) as [r [Hr [Hrt [Hrl Hcell]]]];
        [discriminate|apply repeat_Forall; reflexivity|].
      rewrite Hr. split; [split; [symmetry; exact Hrt|]|].
      + intros p q Hpq. destruct (r_rng _ _ _ HR p q Hpq). lia.
      + split; [split; auto|]. split; [rewrite Hrl, repeat_length; exact Hl2|apply col_wf_nonenum; rewrite Hrt; discriminate].
    - simpl in Hl2. assert (E2 : ix g = []) by (apply Hempty; [auto|apply HR]).
      assert (E1 : ix f = []) by (destruct (ix f); [reflexivity|rewrite E2 in Hlen; discriminate]).
      rewrite E1. cbn [omap obind scatter].
      assert (Hm : map (fun _ : option bytes => CStr (Some [])) dd1 = repeat (CStr (Some [])) (length dd1))
        by (clear; induction dd1; simpl; congruence).
      rewrite Hm.
      destruct (col_of_cells_spec TString (repeat (CStr (Some [])) (length dd1))) as [r [Hr [Hrt [Hrl Hcell]]]];
        [discriminate|apply repeat_Forall; reflexivity|].
      rewrite Hr. split; [split; [exact Hrt|]|].
      + intros p q Hpq. destruct (r_rng _ _ _ HR p q Hpq). lia.
      + split; [|split; auto]. split; [rewrite Hrl, repeat_length; exact Hl1|apply col_wf_nonenum; rewrite Hrt; discriminate].
    - rewrite <- Hvals. destruct (omap g1 (ix f)) as [vals| |] eqn:Ev; cbn [obind]; try exact I.
      assert (Hm1 : map (fun _ : option bytes => CStr (Some [])) dd1 = repeat (CStr (Some [])) (phys_len f))
        by (rewrite <- Hl1; clear; induction dd1; simpl; congruence).
      assert (Hm2 : map (fun _ : option bytes => CStr (Some [])) dd2 = repeat (CStr (Some [])) (phys_len g))
        by (rewrite <- Hl2; clear; induction dd2; simpl; congruence).
      rewrite Hm1, Hm2.
      assert (Hty : Forall (fun y => cell_type_ok TString y = true) vals).
      { apply (omap_Forall _ _ _ _ Ev). intros p b _ Hb. unfold g1 in Hb.
        destruct (idx dd1 p) as [[s|]| |]; cbn [obind] in Hb; try discriminate.
        - destruct (upper_of ut s); cbn [obind] in Hb; try discriminate. inversion Hb. reflexivity.
        - inversion Hb. reflexivity. }
      pose proof (loop_sim L (ix f) (ix g) (phys_len f) (phys_len g) H121 Ha (r_rng _ _ _ HR) TString (CStr (Some [])) vals
                    ltac:(discriminate) eq_refl Hty) as Hloop.
      destruct (do cells <- scatter _ (ix f) vals; col_of_cells TString cells) as [r1| |],
               (do cells <- scatter _ (ix g) vals; col_of_cells TString cells) as [r2| |]; try contradiction; try exact I.
      destruct Hloop as [H1 [H2 [H3 _]]]. auto.
  Qed.

  (* ---- the built in ToUpper, enum columns *)
  Lemma e_upper_sim f g d1 v1 s1 d2 v2 s2 :
    col_ok (phys_len f) (ECol d1 v1 s1) -> col_ok (phys_len g) (ECol d2 v2 s2) ->
    cells_sim L (ECol d1 v1 s1) (ECol d2 v2 s2) ->
    upper_e_okb ut v1 = true -> upper_e_okb ut v2 = true ->
    match e_to_upper ut d1 v1, e_to_upper ut d2 v2 with
    | Ok r1, Ok r2 => col_sim L r1 r2 /\ col_ok (phys_len f) r1 /\ col_ok (phys_len g) r2
    | _, _ => False
    end.
  Proof.
    intros Ho1 Ho2 Hc Hu1 Hu2.
    destruct (e_upper_spec ut d1 v1 s1 _ Ho1 Hu1) as [r1 [E1 [T1 [K1 C1]]]].
    destruct (e_upper_spec ut d2 v2 s2 _ Ho2 Hu2) as [r2 [E2 [T2 [K2 C2]]]].
    rewrite E1, E2. split; [split; [congruence|]|split; assumption].
    intros p q Hpq. destruct (Hc p q Hpq) as [x [X1 X2]].
    destruct (C1 p x X1) as [y [Y1 Y2]]. destruct (C2 q x X2) as [y' [Y1' Y2']].
    exists y. split; [exact Y2|]. rewrite Y2'. congruence.
  Qed.

  Definition col_out (f g : frame) (o1 o2 : outcome coldata) : Prop :=
    match o1, o2 with
    | Ok r1, Ok r2 => col_sim L r1 r2 /\ col_ok (phys_len f) r1 /\ col_ok (phys_len g) r2
    | Panic, Panic | Fail, Fail => True
    | _, _ => False
    end.

  Lemma col_ftype_sim c1 c2 : col_type c1 = col_type c2 -> col_ftype c1 = col_ftype c2.
  Proof. intro H. unfold col_ftype. rewrite H. reflexivity. Qed.

  Definition upper_prem (c : coldata) (fn : afn) : Prop :=
    match c, fn with
    | ECol _ vs _, FBuiltin nm => bytes_eqb nm name_ToUpper = true -> upper_e_okb ut vs = true
    | _, _ => True
    end.

  Lemma col_apply1_sim f g c1 c2 fn :
    Rel L f g -> act L (ix f) (ix g) -> col_sim L c1 c2 -> col_ok (phys_len f) c1 -> col_ok (phys_len g) c2 ->
    afn_wf fn = true -> upper_prem c1 fn -> upper_prem c2 fn ->
    col_out f g (col_apply1 ut c1 fn (ix f)) (col_apply1 ut c2 fn (ix g)).
  Proof.
    intros HR Ha [Ht Hc] Ho1 Ho2 Hfn Hp1 Hp2. pose proof Ha as [Hlen [Hincl _]].
    destruct fn as [ty vals|k|src|tin tout tbl|ty tbl|nm|]; try exact I.
    - (* func(T) U *)
      unfold col_apply1. rewrite <- (col_ftype_sim c1 c2 Ht).
      destruct (ctype_eqb (col_ftype c1) tin && negb (ctype_eqb tout TEnum)) eqn:Esig; [|exact I].
      apply andb_true_iff in Esig as [_ Hte]. apply negb_true_iff in Hte. apply ctype_neq_eqb in Hte.
      rewrite (cells_sim_bind2 L c1 c2 (tbl1 tbl) (ix f) (ix g) Hc Hlen Hincl).
      destruct (omap _ (ix g)) as [vals| |] eqn:Ev; cbn [obind]; try exact I.
      assert (Hty : Forall (fun y => cell_type_ok tout y = true) vals).
      { apply (omap_Forall _ _ _ _ Ev). intros p b _ Hb. destruct (cell_at c2 p) as [x| |]; simpl in Hb; try discriminate.
        apply (tbl1_typed tout tbl x b Hfn Hb). }
      destruct Ho1 as [Hl1 Hw1]. destruct Ho2 as [Hl2 Hw2]. rewrite Hl1, Hl2.
      pose proof (loop_sim L (ix f) (ix g) (phys_len f) (phys_len g) H121 Ha (r_rng _ _ _ HR) tout (zero_cell tout) vals
                    Hte (zero_cell_ok tout Hte) Hty) as Hloop.
      destruct (do cells <- scatter _ (ix f) vals; col_of_cells tout cells) as [r1| |],
               (do cells <- scatter _ (ix g) vals; col_of_cells tout cells) as [r2| |]; try contradiction; try exact I.
      destruct Hloop as [H1 [H2 [H3 _]]]. repeat split; try apply H1; try apply H2; try apply H3.
    - (* built in function name *)
      destruct c1 as [d1|d1|d1|d1|d1 v1 s1], c2 as [d2|d2|d2|d2|d2 v2 s2]; try discriminate Ht; try exact I.
      + cbn [col_apply1]. destruct (assocb nm GenTables.t_s_apply); [|exact I].
        destruct (bytes_eqb nm name_ToUpper); [|exact I].
        apply (s_upper_sim f g d1 d2 HR Ha Ho1 Ho2 Hc).
      + cbn [col_apply1]. destruct (assocb nm GenTables.t_e_apply); [|exact I].
        cbn [upper_prem] in Hp1, Hp2. destruct (bytes_eqb nm name_ToUpper) eqn:En; [|exact I].
        pose proof (e_upper_sim f g d1 v1 s1 d2 v2 s2 Ho1 Ho2 Hc (Hp1 eq_refl) (Hp2 eq_refl)) as H.
        unfold col_out. destruct (e_to_upper ut d1 v1), (e_to_upper ut d2 v2); try contradiction. exact H.
  Qed.

  Lemma col_apply2_sim f g c1 c2 e1 e2 fn :
    Rel L f g -> act L (ix f) (ix g) -> col_sim L c1 c2 -> col_sim L e1 e2 ->
    col_ok (phys_len f) c1 -> col_ok (phys_len g) c2 -> afn_wf fn = true ->
    col_out f g (col_apply2 c1 e1 fn (ix f)) (col_apply2 c2 e2 fn (ix g)).
  Proof.
    intros HR Ha [Ht Hc] [Hte He] Ho1 Ho2 Hfn. pose proof Ha as [Hlen [Hincl _]].
    unfold col_apply2. rewrite <- Ht, <- Hte.
    destruct (negb (ctype_eqb (col_type c1) (col_type e1))); [exact I|].
    destruct fn as [ty vals|k|src|tin tout tbl|ty tbl|nm|]; try exact I.
    rewrite <- (col_ftype_sim c1 c2 Ht).
    destruct (ctype_eqb (col_ftype c1) ty) eqn:Ety; [|exact I].
    assert (Hne : ty <> TEnum) by (apply (OpsProofs2.col_ftype_not_enum c1 ty Ety)).
    assert (Hvals : omap (fun p => do x <- cell_at c1 p; do y <- cell_at e1 p; tbl2 tbl x y) (ix f)
                    = omap (fun p => do x <- cell_at c2 p; do y <- cell_at e2 p; tbl2 tbl x y) (ix g)).
    { apply omap_sim; [exact Hlen|]. intros p q Hpq.
      destruct (Hc p q (Hincl _ Hpq)) as [x [X1 X2]]. destruct (He p q (Hincl _ Hpq)) as [y [Y1 Y2]].
      rewrite X1, X2, Y1, Y2. reflexivity. }
    rewrite Hvals. destruct (omap _ (ix g)) as [vals| |] eqn:Ev; cbn [obind]; try exact I.
    assert (Hty : Forall (fun y => cell_type_ok ty y = true) vals).
    { apply (omap_Forall _ _ _ _ Ev). intros p b _ Hb. destruct (cell_at c2 p) as [x| |]; simpl in Hb; try discriminate.
      destruct (cell_at e2 p) as [y| |]; simpl in Hb; try discriminate.
      apply (tbl2_typed ty tbl x y b Hfn Hb). }
    destruct Ho1 as [Hl1 Hw1]. destruct Ho2 as [Hl2 Hw2]. rewrite Hl1, Hl2.
    pose proof (loop_sim L (ix f) (ix g) (phys_len f) (phys_len g) H121 Ha (r_rng _ _ _ HR) ty (zero_cell ty) vals
                  Hne (zero_cell_ok ty Hne) Hty) as Hloop.
    destruct (do cells <- scatter _ (ix f) vals; col_of_cells ty cells) as [r1| |],
             (do cells <- scatter _ (ix g) vals; col_of_cells ty cells) as [r2| |]; try contradiction; try exact I.
    destruct Hloop as [H1 [H2 [H3 _]]]. repeat split; try apply H1; try apply H2; try apply H3.
  Qed.

  Lemma Rel_lookup_ok f g name c1 c2 :
    Rel L f g -> lookup_col f name = Some c1 -> lookup_col g name = Some c2 ->
    col_sim L c1 c2 /\ col_ok (phys_len f) c1 /\ col_ok (phys_len g) c2.
  Proof.
    intros HR H1 H2. pose proof (lookup_col_sim L f g name (r_cols _ _ _ HR)) as Hs. rewrite H1, H2 in Hs.
    split; [exact Hs|]. split; [apply (WF_lookup f name c1 (r_wf1 _ _ _ HR) H1)|apply (WF_lookup g name c2 (r_wf2 _ _ _ HR) H2)].
  Qed.

  Lemma copy_sim f g dst src : Rel L f g -> sim_out L f g (Ok (copy f dst src)) (Ok (copy g dst src)).
  Proof.
    intro HR. unfold copy. rewrite <- (r_err _ _ _ HR). destruct (ferr f); [apply sim_out_self; exact HR|].
    pose proof (lookup_col_sim L f g src (r_cols _ _ _ HR)) as Hs.
    destruct (lookup_col f src) as [c1|] eqn:E1, (lookup_col g src) as [c2|] eqn:E2; try contradiction;
      [|apply sim_out_err; exact HR].
    destruct (bytes_eqb dst src); [apply sim_out_self; exact HR|].
    destruct (Rel_lookup_ok f g src c1 c2 HR E1 E2) as [K1 [K2 K3]].
    apply (sim_out_set L f g dst (Ok c1) (Ok c2) HR). auto.
  Qed.

  (* one instruction of Apply, on two frames related by L, over paired row indexes *)
  Theorem apply_instr_sim f g i :
    Rel L f g -> act L (ix f) (ix g) -> afn_wf (ifn i) = true ->
    enum_upper_okb ut f i = true -> enum_upper_okb ut g i = true ->
    sim_out L f g (apply_instr ut f i) (apply_instr ut g i).
  Proof.
    intros HR Ha Hfn Hu1 Hu2. pose proof (r_err _ _ _ HR) as Herr.
    unfold apply_instr. unfold enum_upper_okb in Hu1, Hu2. rewrite <- Herr in Hu2.
    destruct (empty_name (isrc1 i)); [|destruct (empty_name (isrc2 i))].
    - (* apply0 *)
      unfold apply0. rewrite <- Herr. destruct (ferr f); [apply sim_out_self; exact HR|].
      destruct (ifn i) as [ty vals|k|src|tin tout tbl|ty tbl|nm|]; try (apply sim_out_err; exact HR).
      + destruct (ctype_eqb ty TEnum) eqn:Ete; [exact I|]. apply ctype_neq_eqb in Ete.
        simpl in Hfn. apply andb_true_iff in Hfn as [_ Hty]. apply forallb_Forall in Hty.
        pose proof (loop_sim L (ix f) (ix g) (phys_len f) (phys_len g) H121 Ha (r_rng _ _ _ HR) ty (zero_cell ty) vals
                      Ete (zero_cell_ok ty Ete) Hty) as Hloop.
        assert (Hbind : forall (h : frame) n J,
                  (do cells <- scatter (repeat (zero_cell ty) n) J vals; do c <- col_of_cells ty cells; Ok (set_column h (idst i) c))
                  = match (do cells <- scatter (repeat (zero_cell ty) n) J vals; col_of_cells ty cells) with
                    | Ok r => Ok (set_column h (idst i) r) | Fail => Fail | Panic => Panic end).
        { intros h n J. destruct (scatter (repeat (zero_cell ty) n) J vals) as [a| |]; cbn [obind]; reflexivity. }
        rewrite !Hbind.
        destruct (do cells <- scatter _ (ix f) vals; col_of_cells ty cells) as [r1| |],
                 (do cells <- scatter _ (ix g) vals; col_of_cells ty cells) as [r2| |]; try contradiction; try exact I.
        apply (sim_out_set L f g (idst i) (Ok r1) (Ok r2) HR). destruct Hloop as [H1 [H2 [H3 _]]]. auto.
      + destruct k as [z|b|b|s|s]; try exact I;
          (match goal with |- sim_out _ _ _ (do col <- const_col ?k _; _) _ =>
             destruct (OpsProofs2.const_col_spec k (phys_len f) ltac:(intros ? ?; discriminate)) as [r1 [E1 [T1 [L1 C1]]]];
             destruct (OpsProofs2.const_col_spec k (phys_len g) ltac:(intros ? ?; discriminate)) as [r2 [E2 [T2 [L2 C2]]]];
             rewrite E1, E2; cbn [obind];
             apply (sim_out_set L f g (idst i) (Ok r1) (Ok r2) HR);
             (split; [split; [congruence|]|split; split; try assumption; apply col_wf_nonenum; rewrite ?T1, ?T2; discriminate]);
             intros p q Hpq; destruct (r_rng _ _ _ HR p q Hpq) as [Hp Hq]; exists k; split; [apply C1; exact Hp|apply C2; exact Hq]
           end).
      + apply copy_sim. exact HR.
    - (* apply1 *)
      unfold apply1. rewrite <- Herr. destruct (ferr f); [apply sim_out_self; exact HR|].
      pose proof (lookup_col_sim L f g (isrc1 i) (r_cols _ _ _ HR)) as Hs.
      destruct (lookup_col f (isrc1 i)) as [c1|] eqn:E1, (lookup_col g (isrc1 i)) as [c2|] eqn:E2; try contradiction;
        [|apply sim_out_err; exact HR].
      destruct (Rel_lookup_ok f g _ c1 c2 HR E1 E2) as [K1 [K2 K3]].
      apply (sim_out_set L f g (idst i) _ _ HR).
      apply (col_apply1_sim f g c1 c2 (ifn i) HR Ha K1 K2 K3 Hfn).
      * unfold upper_prem. destruct c1; try exact I. destruct (ifn i); try exact I. intro En. rewrite En in Hu1. exact Hu1.
      * unfold upper_prem. destruct c2; try exact I. destruct (ifn i); try exact I. intro En. rewrite En in Hu2. exact Hu2.
    - (* apply2 *)
      unfold apply2. rewrite <- Herr. destruct (ferr f); [apply sim_out_self; exact HR|].
      pose proof (lookup_col_sim L f g (isrc1 i) (r_cols _ _ _ HR)) as Hs1.
      pose proof (lookup_col_sim L f g (isrc2 i) (r_cols _ _ _ HR)) as Hs2.
      destruct (lookup_col f (isrc1 i)) as [c1|] eqn:E1, (lookup_col g (isrc1 i)) as [c2|] eqn:E2; try contradiction;
        [|apply sim_out_err; exact HR].
      destruct (lookup_col f (isrc2 i)) as [e1|] eqn:E3, (lookup_col g (isrc2 i)) as [e2|] eqn:E4; try contradiction;
        [|apply sim_out_err; exact HR].
      destruct (Rel_lookup_ok f g _ c1 c2 HR E1 E2) as [K1 [K2 K3]].
      apply (sim_out_set L f g (idst i) _ _ HR).
      apply (col_apply2_sim f g c1 c2 e1 e2 (ifn i) HR Ha K1 Hs2 K2 K3 Hfn).
  Qed.
End Instr.
