(* Proofs/CongruenceProofs.v — property C09, "yields Equal results under every operation": two frames with the
   same logical table (abs) - whatever their physical layouts and row indexes - are mapped by the operations of
   Model/Ops.v, Model/Filter.v and Model/Eval.v to frames with the same logical table, with the same outcome
   (result / Go panic).

   Method: a simulation.  A list L of pairs (p, q) relates physical positions of f to physical positions of g
   (for frames with the same table: L = combine (ix f) (ix g)); Rel L f g says that the two frames have the same
   column names and types and that paired positions hold the same cells in every column.  Every instruction of
   Apply preserves Rel L - also when it runs over a sub-index (FilteredApply) - and Rel gives back abs f = abs g. *)
From QF Require Import Base.Prelude Model.Frame Model.Filter Model.Ops Model.TableSpec.
From QF Require Import Proofs.OpsProofs Proofs.OpsProofs2 Proofs.NoPanicProofs.
From QF Require Import Model.FilterSpec Proofs.FilterTypedFrame.
From QF Require Model.Eval Proofs.EvalFullBase Proofs.EvalFull Corr.FrameCorr.
Local Open Scope nat_scope.

(* ------------------------------------------------------------------ lists of pairs *)

Definition pairs := list (nat * nat).

Lemma In_combine_nth {A B} : forall (l1 : list A) (l2 : list B) a b,
  In (a, b) (combine l1 l2) -> exists k, nth_error l1 k = Some a /\ nth_error l2 k = Some b.
Proof.
  induction l1 as [|x l1 IH]; intros l2 a b H; [destruct H|].
  destruct l2 as [|y l2]; [destruct H|]. simpl in H. destruct H as [H|H].
  - inversion H; subst. exists 0. split; reflexivity.
  - destruct (IH l2 a b H) as [k [H1 H2]]. exists (S k). split; assumption.
Qed.

Lemma nth_combine_In {A B} : forall (l1 : list A) (l2 : list B) k a b,
  nth_error l1 k = Some a -> nth_error l2 k = Some b -> In (a, b) (combine l1 l2).
Proof.
  induction l1 as [|x l1 IH]; intros l2 k a b H1 H2; [destruct k; discriminate|].
  destruct l2 as [|y l2]; [destruct k; discriminate|].
  destruct k as [|k]; simpl in *.
  - inversion H1; inversion H2; subst. left. reflexivity.
  - right. apply (IH l2 k a b H1 H2).
Qed.

Definition one2one (L : pairs) : Prop :=
  forall p q p' q', In (p, q) L -> In (p', q') L -> (p = p' <-> q = q').

Lemma one2one_combine l1 l2 : NoDup l1 -> NoDup l2 -> one2one (combine l1 l2).
Proof.
  intros H1 H2 p q p' q' Ha Hb.
  apply In_combine_nth in Ha as [k [Ka1 Ka2]]. apply In_combine_nth in Hb as [k' [Kb1 Kb2]].
  rewrite NoDup_nth_error in H1, H2. split; intro E; subst.
  - assert (k = k') by (apply H1; [apply nth_error_Some; congruence|congruence]). subst. congruence.
  - assert (k = k') by (apply H2; [apply nth_error_Some; congruence|congruence]). subst. congruence.
Qed.

Lemma omap_sim {A B C} (g1 : A -> outcome C) (g2 : B -> outcome C) : forall J1 J2,
  length J1 = length J2 -> (forall p q, In (p, q) (combine J1 J2) -> g1 p = g2 q) -> omap g1 J1 = omap g2 J2.
Proof.
  induction J1 as [|p J1 IH]; intros [|q J2] Hl H; try discriminate; [reflexivity|].
  simpl. rewrite (H p q (or_introl eq_refl)).
  rewrite (IH J2) by (simpl in Hl; try lia; intros; apply H; right; assumption). reflexivity.
Qed.

Lemma combine_filter_incl {A B} (a : A -> bool) (b : B -> bool) : forall (l1 : list A) (l2 : list B),
  length l1 = length l2 -> (forall p q, In (p, q) (combine l1 l2) -> a p = b q) ->
  incl (combine (filter a l1) (filter b l2)) (combine l1 l2) /\ length (filter a l1) = length (filter b l2).
Proof.
  induction l1 as [|x l1 IH]; intros [|y l2] Hl H; try discriminate; [split; [intros z []|reflexivity]|].
  destruct (IH l2) as [Hi Hlen]; [simpl in Hl; lia|intros; apply H; right; assumption|].
  simpl. rewrite <- (H x y (or_introl eq_refl)). destruct (a x); simpl.
  - split; [|lia]. intros z [Hz|Hz]; [left; exact Hz|right; apply Hi; exact Hz].
  - split; [|exact Hlen]. intros z Hz. right. apply Hi. exact Hz.
Qed.

(* ------------------------------------------------------------------ the simulation relation *)

Definition cells_sim (L : pairs) (c1 c2 : coldata) : Prop :=
  forall p q, In (p, q) L -> exists x, cell_at c1 p = Ok x /\ cell_at c2 q = Ok x.

Definition col_sim (L : pairs) (c1 c2 : coldata) : Prop := col_type c1 = col_type c2 /\ cells_sim L c1 c2.

Definition cols_sim (L : pairs) (cs1 cs2 : list (bytes * coldata)) : Prop :=
  Forall2 (fun a b => fst a = fst b /\ col_sim L (snd a) (snd b)) cs1 cs2.

Record Rel (L : pairs) (f g : frame) : Prop := mkRel {
  r_err : ferr f = ferr g;
  r_cols : cols_sim L (cols f) (cols g);
  r_wf1 : WF f;
  r_wf2 : WF g;
  r_rng : forall p q, In (p, q) L -> p < phys_len f /\ q < phys_len g
}.

(* the row indexes the instruction loops run over: paired through L, duplicate free *)
Definition act (L : pairs) (J1 J2 : list nat) : Prop :=
  length J1 = length J2 /\ incl (combine J1 J2) L /\ NoDup J1 /\ NoDup J2.

Lemma col_sim_incl L L' c1 c2 : incl L' L -> col_sim L c1 c2 -> col_sim L' c1 c2.
Proof. intros Hi [Ht Hc]. split; [exact Ht|]. intros p q Hpq. apply Hc. apply Hi. exact Hpq. Qed.

Definition opt_sim (L : pairs) (a b : option (nat * coldata)) : Prop :=
  match a, b with
  | None, None => True
  | Some (k1, c1), Some (k2, c2) => k1 = k2 /\ col_sim L c1 c2
  | _, _ => False
  end.

Lemma lookup_from_sim L name : forall cs1 cs2 pos acc1 acc2,
  cols_sim L cs1 cs2 -> opt_sim L acc1 acc2 ->
  opt_sim L (lookup_from name cs1 pos acc1) (lookup_from name cs2 pos acc2).
Proof.
  induction cs1 as [|[n1 c1] cs1 IH]; intros cs2 pos acc1 acc2 H Ha; inversion H as [|? [n2 c2] ? cs2' [Hn Hc] Hrest]; subst.
  - exact Ha.
  - cbn [fst snd] in Hn, Hc. subst n2. cbn [lookup_from]. apply IH; [exact Hrest|].
    destruct (bytes_eqb n1 name); [split; [reflexivity|exact Hc]|exact Ha].
Qed.

Lemma lookup_sim L f g name : cols_sim L (cols f) (cols g) -> opt_sim L (lookup f name) (lookup g name).
Proof. intro H. unfold lookup. apply lookup_from_sim; [exact H|exact I]. Qed.

Lemma lookup_col_sim L f g name : cols_sim L (cols f) (cols g) ->
  match lookup_col f name, lookup_col g name with
  | None, None => True
  | Some c1, Some c2 => col_sim L c1 c2
  | _, _ => False
  end.
Proof.
  intro H. pose proof (lookup_sim L f g name H) as Hs. unfold lookup_col, opt_sim in *.
  destruct (lookup f name) as [[k1 c1]|], (lookup g name) as [[k2 c2]|]; cbn [option_map snd]; tauto.
Qed.

Lemma cols_sim_names L cs1 cs2 : cols_sim L cs1 cs2 -> map fst cs1 = map fst cs2.
Proof. induction 1 as [|a b l l' [Hn _] _ IH]; [reflexivity|]. simpl. rewrite Hn, IH. reflexivity. Qed.

Lemma cols_sim_types L cs1 cs2 :
  cols_sim L cs1 cs2 -> map (fun nc => col_type (snd nc)) cs1 = map (fun nc => col_type (snd nc)) cs2.
Proof. induction 1 as [|a b l l' [_ [Ht _]] _ IH]; [reflexivity|]. simpl. rewrite Ht, IH. reflexivity. Qed.

Lemma Forall2_set_nth {A B} (R : A -> B -> Prop) : forall l l' k x y,
  Forall2 R l l' -> R x y -> Forall2 R (set_nth l k x) (set_nth l' k y).
Proof.
  induction l as [|a l IH]; intros l' k x y H Hxy; inversion H; subst; [constructor|].
  destruct k; simpl; constructor; auto.
Qed.

Lemma set_column_sim L f g name r1 r2 :
  cols_sim L (cols f) (cols g) -> col_sim L r1 r2 ->
  cols_sim L (cols (set_column f name r1)) (cols (set_column g name r2)).
Proof.
  intros H Hr. unfold set_column. destruct (negb (check_name name)); [exact H|].
  pose proof (lookup_sim L f g name H) as Hl. unfold opt_sim in Hl.
  destruct (lookup f name) as [[k1 c1]|], (lookup g name) as [[k2 c2]|]; try contradiction; cbn [cols].
  - destruct Hl as [-> _]. apply Forall2_set_nth; [exact H|]. split; [reflexivity|exact Hr].
  - apply Forall2_app; [exact H|]. constructor; [split; [reflexivity|exact Hr]|constructor].
Qed.

Lemma set_column_ferr f name r : ferr (set_column f name r) = ferr f || negb (check_name name).
Proof.
  unfold set_column. destruct (check_name name); cbn [negb].
  - destruct (lookup f name) as [[k c]|]; cbn [ferr]; rewrite orb_false_r; reflexivity.
  - cbn [with_err ferr]. rewrite orb_true_r. reflexivity.
Qed.

Lemma Rel_with_err L f g : Rel L f g -> Rel L (with_err f) (with_err g).
Proof.
  intros [H1 H2 H3 H4 H5]. split; [reflexivity|exact H2|apply WF_with_err; exact H3|apply WF_with_err; exact H4|exact H5].
Qed.

Lemma Rel_set_column L f g name r1 r2 :
  Rel L f g -> col_sim L r1 r2 -> col_ok (phys_len f) r1 -> col_ok (phys_len g) r2 ->
  Rel L (set_column f name r1) (set_column g name r2).
Proof.
  intros [H1 H2 H3 H4 H5] Hr Ho1 Ho2.
  destruct (set_column_kept f name r1 H3 Ho1) as [K1 [_ K3]].
  destruct (set_column_kept g name r2 H4 Ho2) as [G1 [_ G3]].
  split; [rewrite !set_column_ferr, H1; reflexivity|apply set_column_sim; assumption|exact K1|exact G1|].
  intros p q Hpq. rewrite K3, G3. apply H5. exact Hpq.
Qed.

(* ------------------------------------------------------------------ a column written by an Apply loop *)

(* the generated loop: an array of n copies of z, the k-th result stored at index[k] *)
Lemma scatter_col_gen t z n index vals :
  t <> TEnum -> cell_type_ok t z = true -> NoDup index -> Forall (fun p => p < n) index -> length index <= length vals ->
  Forall (fun y => cell_type_ok t y = true) vals ->
  exists arr r, scatter (repeat z n) index vals = Ok arr /\ col_of_cells t arr = Ok r
    /\ col_type r = t /\ col_len r = n
    /\ omap (cell_at r) index = Ok (firstn (length index) vals)
    /\ (forall q, q < n -> ~ In q index -> cell_at r q = Ok z).
Proof.
  intros Ht Hz Hnd Hin Hlen Htyped.
  set (vals' := firstn (length index) vals).
  assert (Hlen' : length vals' = length index) by (unfold vals'; rewrite firstn_length; lia).
  assert (Htyped' : Forall (fun y => cell_type_ok t y = true) vals') by (apply Forall_firstn; exact Htyped).
  assert (Hbase : Forall (fun p => p < length (repeat z n)) index) by (rewrite repeat_length; exact Hin).
  destruct (scatter_ok index (repeat z n) vals' Hlen' Hbase) as [arr [Harr Hal]].
  assert (Harr_ok : Forall (fun y => cell_type_ok t y = true) arr).
  { eapply scatter_Forall; [| |exact Harr]; [apply repeat_Forall; exact Hz|exact Htyped']. }
  destruct (col_of_cells_spec t arr Ht Harr_ok) as [r [Hr [Hrt [Hrl Hcell]]]].
  exists arr, r. split; [rewrite scatter_firstn by exact Hlen; exact Harr|].
  split; [exact Hr|]. split; [exact Hrt|]. split; [rewrite Hrl, Hal, repeat_length; reflexivity|].
  split.
  - erewrite (omap_ext_local _ _ index); [|intros p _; apply Hcell].
    apply omap_of_option_map_some. apply (scatter_read _ _ _ _ Hnd Hlen' Harr).
  - intros q Hq Hnotin. rewrite Hcell.
    rewrite (scatter_outside _ _ _ _ q Harr Hnotin).
    rewrite (nth_error_repeat z) by exact Hq. reflexivity.
Qed.

Lemma scatter_short : forall index base vals,
  length vals < length index -> scatter base index vals = Panic.
Proof.
  induction index as [|p index IH]; intros base vals H; [simpl in H; lia|].
  destruct vals as [|v vals]; [reflexivity|]. simpl. destruct (p <? length base); [|reflexivity].
  apply IH. simpl in H. lia.
Qed.

Section Built.
  Variable L : pairs.
  Variables J1 J2 : list nat.
  Variables n1 n2 : nat.
  Hypothesis H121 : one2one L.
  Hypothesis Hact : act L J1 J2.
  Hypothesis Hrng : forall p q, In (p, q) L -> p < n1 /\ q < n2.

  Lemma act_in_range : Forall (fun p => p < n1) J1 /\ Forall (fun q => q < n2) J2.
  Proof.
    destruct Hact as [Hl [Hi _]]. split; apply Forall_forall.
    - intros p Hp. apply In_nth_error in Hp as [k Hk].
      destruct (nth_error J2 k) as [q|] eqn:E;
        [|apply nth_error_None in E; assert (k < length J1) by (apply nth_error_Some; congruence); lia].
      apply (Hrng p q). apply Hi. apply (nth_combine_In J1 J2 k p q Hk E).
    - intros q Hq. apply In_nth_error in Hq as [k Hk].
      destruct (nth_error J1 k) as [p|] eqn:E;
        [|apply nth_error_None in E; assert (k < length J2) by (apply nth_error_Some; congruence); lia].
      apply (Hrng p q). apply Hi. apply (nth_combine_In J1 J2 k p q E Hk).
  Qed.

  (* two columns that hold the same values along the paired indexes and the same value z everywhere else *)
  Lemma built_sim r1 r2 vs z :
    omap (cell_at r1) J1 = Ok vs -> omap (cell_at r2) J2 = Ok vs ->
    (forall q, q < n1 -> ~ In q J1 -> cell_at r1 q = Ok z) ->
    (forall q, q < n2 -> ~ In q J2 -> cell_at r2 q = Ok z) ->
    cells_sim L r1 r2.
  Proof.
    intros Hv1 Hv2 Hz1 Hz2 p q Hpq. destruct Hact as [Hl [Hi _]].
    destruct (in_dec Nat.eq_dec p J1) as [Hin|Hnin].
    - apply In_nth_error in Hin as [k Hk].
      destruct (nth_error J2 k) as [q'|] eqn:E;
        [|apply nth_error_None in E; assert (k < length J1) by (apply nth_error_Some; congruence); lia].
      assert (Hq : q = q').
      { apply (H121 p q p q' Hpq); [apply Hi; apply (nth_combine_In J1 J2 k p q' Hk E)|reflexivity]. }
      subst q'.
      destruct (omap_nth _ _ _ _ _ Hv1 Hk) as [x [Hx1 Hx2]].
      destruct (omap_nth _ _ _ _ _ Hv2 E) as [y [Hy1 Hy2]].
      exists x. split; [exact Hx1|]. rewrite Hy1. congruence.
    - assert (Hnq : ~ In q J2).
      { intro Hin. apply In_nth_error in Hin as [k Hk].
        destruct (nth_error J1 k) as [p'|] eqn:E;
          [|apply nth_error_None in E; assert (k < length J2) by (apply nth_error_Some; congruence); lia].
        assert (Hp : p = p').
        { apply (H121 p q p' q Hpq); [apply Hi; apply (nth_combine_In J1 J2 k p' q E Hk)|reflexivity]. }
        subst p'. apply Hnin. apply (nth_error_In _ _ E). }
      destruct (Hrng p q Hpq) as [Hp Hq]. exists z. split; [apply Hz1|apply Hz2]; assumption.
  Qed.

  (* the loop `for k, p := range index { result[p] = vals[k] }` over two paired indexes with the same values *)
  Lemma loop_sim t z vals :
    t <> TEnum -> cell_type_ok t z = true -> Forall (fun y => cell_type_ok t y = true) vals ->
    match (do cells <- scatter (repeat z n1) J1 vals; col_of_cells t cells),
          (do cells <- scatter (repeat z n2) J2 vals; col_of_cells t cells) with
    | Ok r1, Ok r2 => col_sim L r1 r2 /\ col_ok n1 r1 /\ col_ok n2 r2 /\ col_type r1 = t
    | Panic, Panic => True
    | _, _ => False
    end.
  Proof.
    intros Ht Hz Hty. pose proof act_in_range as [Hr1 Hr2]. destruct Hact as [Hl [Hi [Hnd1 Hnd2]]].
    destruct (Nat.lt_ge_cases (length vals) (length J1)) as [Hshort|Hlong].
    - rewrite (scatter_short J1 _ vals Hshort), (scatter_short J2 _ vals) by lia. exact I.
    - destruct (scatter_col_gen t z n1 J1 vals Ht Hz Hnd1 Hr1 Hlong Hty) as [a1 [r1 [Ha1 [Hc1 [Ht1 [Hl1 [Hv1 Hz1]]]]]]].
      destruct (scatter_col_gen t z n2 J2 vals Ht Hz Hnd2 Hr2 ltac:(lia) Hty) as [a2 [r2 [Ha2 [Hc2 [Ht2 [Hl2 [Hv2 Hz2]]]]]]].
      rewrite Ha1, Ha2. cbn [obind]. rewrite Hc1, Hc2.
      split; [split; [congruence|]|].
      + rewrite <- Hl in Hv2. apply (built_sim r1 r2 _ z Hv1 Hv2 Hz1 Hz2).
      + repeat split; try assumption; apply col_wf_nonenum; congruence.
  Qed.
End Built.

(* ------------------------------------------------------------------ one instruction *)

(* the only place where an oracle table is consulted on PHYSICAL data that the logical table does not show:
   ToUpper on an enum column upper-cases every entry of the column's value list (also unused ones) *)
Definition enum_upper_okb (ut : upper_table) (f : frame) (i : instr) : bool :=
  if ferr f then true
  else if empty_name (isrc1 i) then true
  else if empty_name (isrc2 i) then
    match lookup_col f (isrc1 i), ifn i with
    | Some (ECol _ vs _), FBuiltin nm => negb (bytes_eqb nm name_ToUpper) || upper_e_okb ut vs
    | _, _ => true
    end
  else true.

Lemma instr_tables_enum_upper ut f i : instr_tables_okb ut f i = true -> enum_upper_okb ut f i = true.
Proof.
  unfold instr_tables_okb, enum_upper_okb. destruct (ferr f); [reflexivity|].
  destruct (empty_name (isrc1 i)); [reflexivity|]. destruct (empty_name (isrc2 i)); [|reflexivity].
  destruct (lookup_col f (isrc1 i)) as [[d|d|d|d|d vs st]|]; try reflexivity.
  destruct (ifn i); try reflexivity. unfold fn1_tables_okb. destruct (bytes_eqb name name_ToUpper); auto.
Qed.

Definition sim_out (L : pairs) (f g : frame) (o1 o2 : outcome frame) : Prop :=
  match o1, o2 with
  | Ok f', Ok g' => Rel L f' g' /\ ix f' = ix f /\ ix g' = ix g
  | Panic, Panic => True
  | _, _ => False
  end.

Lemma sim_out_self L f g : Rel L f g -> sim_out L f g (Ok f) (Ok g).
Proof. intro H. split; [exact H|split; reflexivity]. Qed.
Lemma sim_out_err L f g : Rel L f g -> sim_out L f g (Ok (with_err f)) (Ok (with_err g)).
Proof. intro H. split; [apply Rel_with_err; exact H|split; reflexivity]. Qed.

Lemma sim_out_set L f g name (o1 o2 : outcome coldata) :
  Rel L f g ->
  match o1, o2 with
  | Ok r1, Ok r2 => col_sim L r1 r2 /\ col_ok (phys_len f) r1 /\ col_ok (phys_len g) r2
  | Panic, Panic | Fail, Fail => True
  | _, _ => False
  end ->
  sim_out L f g (match o1 with Ok r => Ok (set_column f name r) | Fail => Ok (with_err f) | Panic => Panic end)
                (match o2 with Ok r => Ok (set_column g name r) | Fail => Ok (with_err g) | Panic => Panic end).
Proof.
  intros HR H. destruct o1 as [r1| |], o2 as [r2| |]; try contradiction; try exact I.
  - destruct H as [Hs [Ho1 Ho2]]. split; [apply Rel_set_column; assumption|].
    destruct (set_column_kept f name r1 (r_wf1 _ _ _ HR) Ho1) as [_ [K _]].
    destruct (set_column_kept g name r2 (r_wf2 _ _ _ HR) Ho2) as [_ [G _]]. split; assumption.
  - apply sim_out_err. exact HR.
Qed.

Lemma cells_sim_bind2 {C} L (c1 c2 : coldata) (k : cell -> outcome C) J1 J2 :
  cells_sim L c1 c2 -> length J1 = length J2 -> incl (combine J1 J2) L ->
  omap (fun p => do x <- cell_at c1 p; k x) J1 = omap (fun q => do x <- cell_at c2 q; k x) J2.
Proof.
  intros Hc Hl Hi. apply omap_sim; [exact Hl|]. intros p q Hpq.
  destruct (Hc p q (Hi _ Hpq)) as [x [H1 H2]]. rewrite H1, H2. reflexivity.
Qed.

Lemma ctype_neq_eqb t : ctype_eqb t TEnum = false -> t <> TEnum.
Proof. intros H ->. discriminate. Qed.

(* ------------------------------------------------------------------ the constant instruction *)

(* a duplicate-free index of n positions below n covers all of them *)
Lemma full_index J n : NoDup J -> Forall (fun p => p < n) J -> length J = n -> forall q, q < n -> In q J.
Proof.
  intros Hnd Hin Hl q Hq.
  assert (Hincl : incl (seq 0 n) J).
  { apply NoDup_length_incl; [exact Hnd|rewrite seq_length; lia|].
    intros p Hp. apply in_seq. rewrite Forall_forall in Hin. specialize (Hin p Hp). lia. }
  apply Hincl. apply in_seq. lia.
Qed.

Lemma map_const_repeat {A B} (v : B) (l : list A) : map (fun _ => v) l = repeat v (length l).
Proof. induction l as [|a l IH]; simpl; [reflexivity|rewrite IH; reflexivity]. Qed.

(* apply0 with a constant (Model/Ops.v): whichever of its two branches runs, the column holds the constant along the
   index and - where there is anything outside the index - the zero value there *)
Lemma const_instr_col k (h : frame) dst :
  NoDup (ix h) -> Forall (fun p => p < phys_len h) (ix h) ->
  let o := (if Nat.eqb (length (ix h)) (phys_len h) then do col <- const_col k (phys_len h); Ok (set_column h dst col)
            else match const_type k with
                 | None => Panic
                 | Some t => do cells <- scatter (repeat (zero_cell t) (phys_len h)) (ix h) (repeat k (length (ix h)));
                             do col <- col_of_cells t cells; Ok (set_column h dst col)
                 end) in
  match const_type k with
  | None => o = Panic
  | Some t => exists r, o = Ok (set_column h dst r) /\ col_type r = t /\ col_ok (phys_len h) r
                /\ omap (cell_at r) (ix h) = Ok (repeat k (length (ix h)))
                /\ (forall q, q < phys_len h -> ~ In q (ix h) -> cell_at r q = Ok (zero_cell t))
  end.
Proof.
  intros Hnd Hin o. subst o. set (n := phys_len h) in *. set (J := ix h) in *.
  destruct (const_type k) as [t|] eqn:Ek.
  - assert (Hk : (forall s, k <> CEnum s) /\ t <> TEnum /\ cell_type_ok t k = true /\ const_ctype k = t).
    { destruct k; inversion Ek; subst; repeat split; try discriminate; intros ? ?; discriminate. }
    destruct Hk as [Hk1 [Hk2 [Hk3 Hk4]]].
    destruct (Nat.eqb (length J) n) eqn:El.
    + apply Nat.eqb_eq in El.
      destruct (OpsProofs2.const_col_spec k n Hk1) as [r [E [T [Ln C]]]]. rewrite E. cbn [obind].
      exists r. split; [reflexivity|]. split; [congruence|].
      split; [split; [exact Ln|apply col_wf_nonenum; rewrite T, Hk4; exact Hk2]|]. split.
      * rewrite <- map_const_repeat. apply omap_const_ok. intros p Hp. apply C. rewrite Forall_forall in Hin. apply Hin. exact Hp.
      * intros q Hq Hnot. exfalso. apply Hnot. apply (full_index J n Hnd Hin El q Hq).
    + destruct (scatter_col_gen t (zero_cell t) n J (repeat k (length J)) Hk2 (zero_cell_ok t Hk2) Hnd Hin
                  ltac:(rewrite repeat_length; lia) (repeat_Forall _ k (length J) Hk3))
        as [arr [r [Ha [Hc [Ht [Hl [Hv Hz]]]]]]].
      rewrite Ha. cbn [obind]. rewrite Hc. cbn [obind].
      exists r. split; [reflexivity|]. split; [exact Ht|].
      split; [split; [exact Hl|apply col_wf_nonenum; rewrite Ht; exact Hk2]|]. split; [|exact Hz].
      rewrite Hv. rewrite firstn_all2 by (rewrite repeat_length; lia). reflexivity.
  - destruct k; try discriminate Ek. destruct (Nat.eqb (length J) n); reflexivity.
Qed.

(* ------------------------------------------------------------------ ecolumn.toUpper, cell by cell *)

Lemma find_value_nth : forall vs s i r, find_value vs s i = Some r ->
  exists k, r = (i + N.of_nat k)%N /\ nth_error vs k = Some s.
Proof.
  induction vs as [|v vs IH]; intros s i r H; simpl in H; [discriminate|].
  destruct (bytes_eqb v s) eqn:E.
  - inversion H; subst. apply bytes_eqb_spec in E. subst. exists 0. split; [lia|reflexivity].
  - destruct (IH s (i + 1)%N r H) as [k [Hr Hk]]. exists (S k). split; [lia|exact Hk].
Qed.

(* the merge loop: every old rank i is sent to a new rank whose value is the i-th upper-cased value *)
Lemma up_fold_sem : forall ups nv o2n mg nv' o2n' mg',
  fold_left up_step ups (nv, o2n, mg) = (nv', o2n', mg') ->
  exists ext rs, nv' = nv ++ ext /\ o2n' = o2n ++ rs /\ length rs = length ups
    /\ (forall i u, nth_error ups i = Some u ->
          exists r, nth_error rs i = Some r /\ nth_error nv' (N.to_nat r) = Some u)
    /\ (mg' = false -> mg = false /\ ext = ups).
Proof.
  induction ups as [|u ups IH]; intros nv o2n mg nv' o2n' mg' H.
  - simpl in H. inversion H; subst. exists [], []. rewrite !app_nil_r. repeat split; auto.
    intros i u Hi. destruct i; discriminate.
  - simpl in H. destruct (find_value nv u 0) as [r|] eqn:E.
    + destruct (IH _ _ _ _ _ _ H) as [ext [rs [H1 [H2 [H3 [H4 H5]]]]]].
      exists ext, (r :: rs). split; [exact H1|]. split; [rewrite H2, <- app_assoc; reflexivity|].
      split; [simpl; lia|]. split.
      * intros [|i] u' Hi; simpl in Hi.
        -- inversion Hi; subst u'. exists r. split; [reflexivity|].
           destruct (find_value_nth _ _ _ _ E) as [k [Hr Hk]]. rewrite H1.
           replace (N.to_nat r) with k by lia. rewrite nth_error_app1; [exact Hk|].
           apply nth_error_Some. congruence.
        -- apply (H4 i u' Hi).
      * intro Hm. destruct (H5 Hm) as [Hd _]. discriminate.
    + destruct (IH _ _ _ _ _ _ H) as [ext [rs [H1 [H2 [H3 [H4 H5]]]]]].
      exists (u :: ext), (N.of_nat (length nv) :: rs).
      split; [rewrite H1, <- app_assoc; reflexivity|]. split; [rewrite H2, <- app_assoc; reflexivity|].
      split; [simpl; lia|]. split.
      * intros [|i] u' Hi; simpl in Hi.
        -- inversion Hi; subst u'. exists (N.of_nat (length nv)). split; [reflexivity|].
           rewrite H1, <- app_assoc. rewrite Nat2N.id. rewrite nth_error_app2 by lia.
           replace (length nv - length nv) with 0 by lia. reflexivity.
        -- apply (H4 i u' Hi).
      * intro Hm. destruct (H5 Hm) as [Hd He]. split; [exact Hd|]. rewrite He. reflexivity.
Qed.

(* the cell a row holds after ToUpper, as a function of the cell it held before *)
Definition upcell (ut : upper_table) (x : cell) : outcome cell :=
  match x with
  | CStr None => Ok (CStr None)
  | CStr (Some s) => do u <- upper_of ut s; Ok (CStr (Some u))
  | CEnum None => Ok (CEnum None)
  | CEnum (Some s) => do u <- upper_of ut s; Ok (CEnum (Some u))
  | _ => Panic
  end.

Lemma e_upper_spec ut d values st n :
  col_ok n (ECol d values st) -> upper_e_okb ut values = true ->
  exists r0, e_to_upper ut d values = Ok r0 /\ col_type r0 = TEnum /\ col_ok n r0
    /\ forall p x, cell_at (ECol d values st) p = Ok x ->
         exists y, upcell ut x = Ok y /\ cell_at r0 p = Ok y.
Proof.
  intros Hok Hut. pose proof (e_to_upper_post ut d values st n Hok) as Hpost.
  destruct (post_total _ _ _ Hpost Hut) as [r0 [Hr0 Hok0]]. exists r0. split; [exact Hr0|].
  pose proof (upper_of_post ut values) as Hup. destruct (post_total _ _ _ Hup Hut) as [ups [Hups Hlen]].
  unfold e_to_upper in Hr0. rewrite Hups in Hr0. cbn [obind] in Hr0.
  change (fold_left _ ups ([], [], false)) with (fold_left up_step ups ([], [], false)) in Hr0.
  destruct (fold_left up_step ups ([], [], false)) as [[nv o2n] mg] eqn:E.
  destruct (up_fold_sem _ _ _ _ _ _ _ E) as [ext [rs [H1 [H2 [H3 [H4 H5]]]]]]. simpl in H1, H2. subst nv o2n.
  assert (Hval : forall r s, nth_error values (N.to_nat r) = Some s ->
                 exists u, upper_of ut s = Ok u /\ nth_error ups (N.to_nat r) = Some u).
  { intros r s Hs. destruct (omap_nth _ _ _ _ _ Hups Hs) as [u [Hu1 Hu2]]. exists u. split; assumption. }
  destruct mg.
  - destruct (omap _ d) as [nd| |] eqn:End; cbn [obind] in Hr0; try discriminate. inversion Hr0; subst r0. clear Hr0.
    split; [reflexivity|]. split; [exact Hok0|].
    intros p x Hx. cbn [cell_at] in Hx |- *. unfold idx in *.
    destruct (nth_error d p) as [r|] eqn:Ed; cbn [of_option obind] in Hx; [|discriminate].
    destruct (omap_nth _ _ _ _ _ End Ed) as [r' [Hr'1 Hr'2]]. rewrite Hr'2. cbn [of_option obind].
    unfold enum_string in *. destruct (enum_is_null r) eqn:En.
    + inversion Hr'1; subst r'. rewrite En. cbn [obind] in Hx |- *. inversion Hx; subst x. exists (CEnum None). split; reflexivity.
    + unfold idx in Hx, Hr'1. destruct (nth_error values (N.to_nat r)) as [s|] eqn:Es; cbn [of_option obind] in Hx; [|discriminate].
      inversion Hx; subst x. destruct (Hval r s Es) as [u [Hu1 Hu2]]. destruct (H4 _ _ Hu2) as [r2 [Hr2 Hnv]].
      rewrite Hr2 in Hr'1. cbn [of_option] in Hr'1. inversion Hr'1; subst r'.
      assert (Hnn : enum_is_null r2 = false).
      { unfold enum_is_null. apply N.eqb_neq. intro Hc. destruct Hok0 as [_ Hw]. cbn [col_wf] in Hw.
        apply andb_true_iff in Hw as [_ Hcard]. apply Nat.leb_le in Hcard.
        assert (N.to_nat r2 < length ext) by (apply nth_error_Some; congruence).
        unfold GenConsts.c_nullValue, GenConsts.c_maxCardinality in *. lia. }
      rewrite Hnn. unfold idx. rewrite Hnv. cbn [of_option obind]. exists (CEnum (Some u)). split; [|reflexivity].
      cbn [upcell]. rewrite Hu1. reflexivity.
  - destruct (H5 eq_refl) as [_ He]. subst ext. inversion Hr0; subst r0. clear Hr0.
    split; [reflexivity|]. split; [exact Hok0|].
    intros p x Hx. cbn [cell_at] in Hx |- *. unfold idx in *.
    destruct (nth_error d p) as [r|] eqn:Ed; cbn [of_option obind] in Hx |- *; [|discriminate].
    unfold enum_string in *. destruct (enum_is_null r) eqn:En; cbn [obind] in Hx |- *.
    + inversion Hx; subst x. exists (CEnum None). split; reflexivity.
    + unfold idx in Hx |- *. destruct (nth_error values (N.to_nat r)) as [s|] eqn:Es; cbn [of_option obind] in Hx; [|discriminate].
      inversion Hx; subst x. destruct (Hval r s Es) as [u [Hu1 Hu2]]. rewrite Hu2. cbn [of_option obind].
      exists (CEnum (Some u)). split; [|reflexivity]. cbn [upcell]. rewrite Hu1. reflexivity.
Qed.

(* what the proofs need of a recorded function: results of the declared type (a constant needs nothing: an enum
   constant makes both runs panic) *)
Definition afn_typed (fn : afn) : bool := match fn with F0Const _ => true | other => afn_wf other end.
Lemma afn_wf_typed fn : afn_wf fn = true -> afn_typed fn = true.
Proof. destruct fn; auto. Qed.
Lemma afn_wf_typed_all is :
  forallb (fun i => afn_wf (ifn i)) is = true -> forallb (fun i => afn_typed (ifn i)) is = true.
Proof.
  intro H. apply forallb_forall. intros i Hi. rewrite forallb_forall in H. apply afn_wf_typed. apply H. exact Hi.
Qed.

Section Instr.
  Variable ut : upper_table.
  Variable L : pairs.
  Hypothesis H121 : one2one L.

  (* ---- the built in ToUpper, string columns: upper-cased strings at the index, "" elsewhere *)
  Lemma s_upper_sim f g d1 d2 :
    Rel L f g -> act L (ix f) (ix g) -> col_ok (phys_len f) (SCol d1) -> col_ok (phys_len g) (SCol d2) ->
    cells_sim L (SCol d1) (SCol d2) ->
    match s_to_upper ut d1 (ix f), s_to_upper ut d2 (ix g) with
    | Ok r1, Ok r2 => col_sim L r1 r2 /\ col_ok (phys_len f) r1 /\ col_ok (phys_len g) r2
    | Panic, Panic | Fail, Fail => True
    | _, _ => False
    end.
  Proof.
    intros HR Ha [Hl1 _] [Hl2 _] Hc. cbn [col_len] in Hl1, Hl2.
    pose proof Ha as [Hlen [Hincl [Hnd1 Hnd2]]].
    set (g1 := fun p => do s <- idx d1 p; match s with None => Ok (CStr None) | Some b => do u <- upper_of ut b; Ok (CStr (Some u)) end).
    set (g2 := fun p => do s <- idx d2 p; match s with None => Ok (CStr None) | Some b => do u <- upper_of ut b; Ok (CStr (Some u)) end).
    assert (Hvals : omap g1 (ix f) = omap g2 (ix g)).
    { apply omap_sim; [exact Hlen|]. intros p q Hpq. destruct (Hc p q (Hincl _ Hpq)) as [x [H1 H2]].
      unfold g1, g2. cbn [cell_at] in H1, H2.
      destruct (idx d1 p) as [s1| |]; cbn [obind] in H1; try discriminate.
      destruct (idx d2 q) as [s2| |]; cbn [obind] in H2; try discriminate.
      cbn [obind]. rewrite <- H2 in H1. inversion H1; subst. reflexivity. }
    assert (Hempty : forall (f0 : frame), phys_len f0 = 0 -> WF f0 -> ix f0 = []).
    { intros f0 H0 [_ Hi]. destruct (ix f0) as [|p r]; [reflexivity|]. inversion Hi; subst. lia. }
    unfold s_to_upper. fold g1 g2.
    destruct d1 as [|s1 d1']; [|set (dd1 := s1 :: d1') in *]; (destruct d2 as [|s2 d2']; [|set (dd2 := s2 :: d2') in *]).
    - split; [split; [reflexivity|]|split; split; auto]. intros p q Hpq. destruct (r_rng _ _ _ HR p q Hpq). simpl in *. lia.
    - (* f has no physical rows: both indexes are empty *)
      simpl in Hl1. assert (E1 : ix f = []) by (apply Hempty; [auto|apply HR]).
      assert (E2 : ix g = []) by (destruct (ix g); [reflexivity|rewrite E1 in Hlen; discriminate]).
      rewrite E2. cbn [omap obind scatter].
      assert (Hm : map (fun _ : option bytes => CStr (Some [])) dd2 = repeat (CStr (Some [])) (length dd2))
        by (clear; induction dd2; simpl; congruence).
      rewrite Hm.
      destruct (col_of_cells_spec TString (repeat (CStr (Some [])) (length dd2))) as [r [Hr [Hrt [Hrl Hcell]]]];
        [discriminate|apply repeat_Forall; reflexivity|].
      rewrite Hr. split; [split; [symmetry; exact Hrt|]|].
      + intros p q Hpq. destruct (r_rng _ _ _ HR p q Hpq). lia.
      + split; [split; auto|]. split; [rewrite Hrl, repeat_length; exact Hl2|apply col_wf_nonenum; rewrite Hrt; discriminate].
    - simpl in Hl2. assert (E2 : ix g = []) by (apply Hempty; [auto|apply HR]).
      assert (E1 : ix f = []) by (destruct (ix f); [reflexivity|rewrite E2 in Hlen; discriminate]).
      rewrite E1. cbn [omap obind scatter].
      assert (Hm : map (fun _ : option bytes => CStr (Some [])) dd1 = repeat (CStr (Some [])) (length dd1))
        by (clear; induction dd1; simpl; congruence).
      rewrite Hm.
      destruct (col_of_cells_spec TString (repeat (CStr (Some [])) (length dd1))) as [r [Hr [Hrt [Hrl Hcell]]]];
        [discriminate|apply repeat_Forall; reflexivity|].
      rewrite Hr. split; [split; [exact Hrt|]|].
      + intros p q Hpq. destruct (r_rng _ _ _ HR p q Hpq). lia.
      + split; [|split; auto]. split; [rewrite Hrl, repeat_length; exact Hl1|apply col_wf_nonenum; rewrite Hrt; discriminate].
    - rewrite <- Hvals. destruct (omap g1 (ix f)) as [vals| |] eqn:Ev; cbn [obind]; try exact I.
      assert (Hm1 : map (fun _ : option bytes => CStr (Some [])) dd1 = repeat (CStr (Some [])) (phys_len f))
        by (rewrite <- Hl1; clear; induction dd1; simpl; congruence).
      assert (Hm2 : map (fun _ : option bytes => CStr (Some [])) dd2 = repeat (CStr (Some [])) (phys_len g))
        by (rewrite <- Hl2; clear; induction dd2; simpl; congruence).
      rewrite Hm1, Hm2.
      assert (Hty : Forall (fun y => cell_type_ok TString y = true) vals).
      { apply (omap_Forall _ _ _ _ Ev). intros p b _ Hb. unfold g1 in Hb.
        destruct (idx dd1 p) as [[s|]| |]; cbn [obind] in Hb; try discriminate.
        - destruct (upper_of ut s); cbn [obind] in Hb; try discriminate. inversion Hb. reflexivity.
        - inversion Hb. reflexivity. }
      pose proof (loop_sim L (ix f) (ix g) (phys_len f) (phys_len g) H121 Ha (r_rng _ _ _ HR) TString (CStr (Some [])) vals
                    ltac:(discriminate) eq_refl Hty) as Hloop.
      destruct (do cells <- scatter _ (ix f) vals; col_of_cells TString cells) as [r1| |],
               (do cells <- scatter _ (ix g) vals; col_of_cells TString cells) as [r2| |]; try contradiction; try exact I.
      destruct Hloop as [H1 [H2 [H3 _]]]. auto.
  Qed.

  (* ---- the built in ToUpper, enum columns *)
  Lemma e_upper_sim f g d1 v1 s1 d2 v2 s2 :
    col_ok (phys_len f) (ECol d1 v1 s1) -> col_ok (phys_len g) (ECol d2 v2 s2) ->
    cells_sim L (ECol d1 v1 s1) (ECol d2 v2 s2) ->
    upper_e_okb ut v1 = true -> upper_e_okb ut v2 = true ->
    match e_to_upper ut d1 v1, e_to_upper ut d2 v2 with
    | Ok r1, Ok r2 => col_sim L r1 r2 /\ col_ok (phys_len f) r1 /\ col_ok (phys_len g) r2
    | _, _ => False
    end.
  Proof.
    intros Ho1 Ho2 Hc Hu1 Hu2.
    destruct (e_upper_spec ut d1 v1 s1 _ Ho1 Hu1) as [r1 [E1 [T1 [K1 C1]]]].
    destruct (e_upper_spec ut d2 v2 s2 _ Ho2 Hu2) as [r2 [E2 [T2 [K2 C2]]]].
    rewrite E1, E2. split; [split; [congruence|]|split; assumption].
    intros p q Hpq. destruct (Hc p q Hpq) as [x [X1 X2]].
    destruct (C1 p x X1) as [y [Y1 Y2]]. destruct (C2 q x X2) as [y' [Y1' Y2']].
    exists y. split; [exact Y2|]. rewrite Y2'. congruence.
  Qed.

  Definition col_out (f g : frame) (o1 o2 : outcome coldata) : Prop :=
    match o1, o2 with
    | Ok r1, Ok r2 => col_sim L r1 r2 /\ col_ok (phys_len f) r1 /\ col_ok (phys_len g) r2
    | Panic, Panic | Fail, Fail => True
    | _, _ => False
    end.

  Lemma col_ftype_sim c1 c2 : col_type c1 = col_type c2 -> col_ftype c1 = col_ftype c2.
  Proof. intro H. unfold col_ftype. rewrite H. reflexivity. Qed.

  Definition upper_prem (c : coldata) (fn : afn) : Prop :=
    match c, fn with
    | ECol _ vs _, FBuiltin nm => bytes_eqb nm name_ToUpper = true -> upper_e_okb ut vs = true
    | _, _ => True
    end.

  Lemma col_apply1_sim f g c1 c2 fn :
    Rel L f g -> act L (ix f) (ix g) -> col_sim L c1 c2 -> col_ok (phys_len f) c1 -> col_ok (phys_len g) c2 ->
    afn_typed fn = true -> upper_prem c1 fn -> upper_prem c2 fn ->
    col_out f g (col_apply1 ut c1 fn (ix f)) (col_apply1 ut c2 fn (ix g)).
  Proof.
    intros HR Ha [Ht Hc] Ho1 Ho2 Hfn Hp1 Hp2. pose proof Ha as [Hlen [Hincl _]].
    destruct fn as [ty vals|k|src|tin tout tbl|ty tbl|nm|]; try exact I.
    - (* func(T) U *)
      unfold col_apply1. rewrite <- (col_ftype_sim c1 c2 Ht).
      destruct (ctype_eqb (col_ftype c1) tin && negb (ctype_eqb tout TEnum)) eqn:Esig; [|exact I].
      apply andb_true_iff in Esig as [_ Hte]. apply negb_true_iff in Hte. apply ctype_neq_eqb in Hte.
      rewrite (cells_sim_bind2 L c1 c2 (tbl1 tbl) (ix f) (ix g) Hc Hlen Hincl).
      destruct (omap _ (ix g)) as [vals| |] eqn:Ev; cbn [obind]; try exact I.
      assert (Hty : Forall (fun y => cell_type_ok tout y = true) vals).
      { apply (omap_Forall _ _ _ _ Ev). intros p b _ Hb. destruct (cell_at c2 p) as [x| |]; simpl in Hb; try discriminate.
        apply (tbl1_typed tout tbl x b Hfn Hb). }
      destruct Ho1 as [Hl1 Hw1]. destruct Ho2 as [Hl2 Hw2]. rewrite Hl1, Hl2.
      pose proof (loop_sim L (ix f) (ix g) (phys_len f) (phys_len g) H121 Ha (r_rng _ _ _ HR) tout (zero_cell tout) vals
                    Hte (zero_cell_ok tout Hte) Hty) as Hloop.
      destruct (do cells <- scatter _ (ix f) vals; col_of_cells tout cells) as [r1| |],
               (do cells <- scatter _ (ix g) vals; col_of_cells tout cells) as [r2| |]; try contradiction; try exact I.
      destruct Hloop as [H1 [H2 [H3 _]]]. repeat split; try apply H1; try apply H2; try apply H3.
    - (* built in function name *)
      destruct c1 as [d1|d1|d1|d1|d1 v1 s1], c2 as [d2|d2|d2|d2|d2 v2 s2]; try discriminate Ht; try exact I.
      + cbn [col_apply1]. destruct (assocb nm GenTables.t_s_apply); [|exact I].
        destruct (bytes_eqb nm name_ToUpper); [|exact I].
        apply (s_upper_sim f g d1 d2 HR Ha Ho1 Ho2 Hc).
      + cbn [col_apply1]. destruct (assocb nm GenTables.t_e_apply); [|exact I].
        cbn [upper_prem] in Hp1, Hp2. destruct (bytes_eqb nm name_ToUpper) eqn:En; [|exact I].
        pose proof (e_upper_sim f g d1 v1 s1 d2 v2 s2 Ho1 Ho2 Hc (Hp1 eq_refl) (Hp2 eq_refl)) as H.
        unfold col_out. destruct (e_to_upper ut d1 v1), (e_to_upper ut d2 v2); try contradiction. exact H.
  Qed.

  Lemma col_apply2_sim f g c1 c2 e1 e2 fn :
    Rel L f g -> act L (ix f) (ix g) -> col_sim L c1 c2 -> col_sim L e1 e2 ->
    col_ok (phys_len f) c1 -> col_ok (phys_len g) c2 -> afn_typed fn = true ->
    col_out f g (col_apply2 c1 e1 fn (ix f)) (col_apply2 c2 e2 fn (ix g)).
  Proof.
    intros HR Ha [Ht Hc] [Hte He] Ho1 Ho2 Hfn. pose proof Ha as [Hlen [Hincl _]].
    unfold col_apply2. rewrite <- Ht, <- Hte.
    destruct (negb (ctype_eqb (col_type c1) (col_type e1))); [exact I|].
    destruct fn as [ty vals|k|src|tin tout tbl|ty tbl|nm|]; try exact I.
    rewrite <- (col_ftype_sim c1 c2 Ht).
    destruct (ctype_eqb (col_ftype c1) ty) eqn:Ety; [|exact I].
    assert (Hne : ty <> TEnum) by (apply (OpsProofs2.col_ftype_not_enum c1 ty Ety)).
    assert (Hvals : omap (fun p => do x <- cell_at c1 p; do y <- cell_at e1 p; tbl2 tbl x y) (ix f)
                    = omap (fun p => do x <- cell_at c2 p; do y <- cell_at e2 p; tbl2 tbl x y) (ix g)).
    { apply omap_sim; [exact Hlen|]. intros p q Hpq.
      destruct (Hc p q (Hincl _ Hpq)) as [x [X1 X2]]. destruct (He p q (Hincl _ Hpq)) as [y [Y1 Y2]].
      rewrite X1, X2, Y1, Y2. reflexivity. }
    rewrite Hvals. destruct (omap _ (ix g)) as [vals| |] eqn:Ev; cbn [obind]; try exact I.
    assert (Hty : Forall (fun y => cell_type_ok ty y = true) vals).
    { apply (omap_Forall _ _ _ _ Ev). intros p b _ Hb. destruct (cell_at c2 p) as [x| |]; simpl in Hb; try discriminate.
      destruct (cell_at e2 p) as [y| |]; simpl in Hb; try discriminate.
      apply (tbl2_typed ty tbl x y b Hfn Hb). }
    destruct Ho1 as [Hl1 Hw1]. destruct Ho2 as [Hl2 Hw2]. rewrite Hl1, Hl2.
    pose proof (loop_sim L (ix f) (ix g) (phys_len f) (phys_len g) H121 Ha (r_rng _ _ _ HR) ty (zero_cell ty) vals
                  Hne (zero_cell_ok ty Hne) Hty) as Hloop.
    destruct (do cells <- scatter _ (ix f) vals; col_of_cells ty cells) as [r1| |],
             (do cells <- scatter _ (ix g) vals; col_of_cells ty cells) as [r2| |]; try contradiction; try exact I.
    destruct Hloop as [H1 [H2 [H3 _]]]. repeat split; try apply H1; try apply H2; try apply H3.
  Qed.

  Lemma Rel_lookup_ok f g name c1 c2 :
    Rel L f g -> lookup_col f name = Some c1 -> lookup_col g name = Some c2 ->
    col_sim L c1 c2 /\ col_ok (phys_len f) c1 /\ col_ok (phys_len g) c2.
  Proof.
    intros HR H1 H2. pose proof (lookup_col_sim L f g name (r_cols _ _ _ HR)) as Hs. rewrite H1, H2 in Hs.
    split; [exact Hs|]. split; [apply (WF_lookup f name c1 (r_wf1 _ _ _ HR) H1)|apply (WF_lookup g name c2 (r_wf2 _ _ _ HR) H2)].
  Qed.

  Lemma copy_sim f g dst src : Rel L f g -> sim_out L f g (Ok (copy f dst src)) (Ok (copy g dst src)).
  Proof.
    intro HR. unfold copy. rewrite <- (r_err _ _ _ HR). destruct (ferr f); [apply sim_out_self; exact HR|].
    pose proof (lookup_col_sim L f g src (r_cols _ _ _ HR)) as Hs.
    destruct (lookup_col f src) as [c1|] eqn:E1, (lookup_col g src) as [c2|] eqn:E2; try contradiction;
      [|apply sim_out_err; exact HR].
    destruct (bytes_eqb dst src); [apply sim_out_self; exact HR|].
    destruct (Rel_lookup_ok f g src c1 c2 HR E1 E2) as [K1 [K2 K3]].
    apply (sim_out_set L f g dst (Ok c1) (Ok c2) HR). auto.
  Qed.

  (* one instruction of Apply, on two frames related by L, over paired row indexes *)
  Theorem apply_instr_sim f g i :
    Rel L f g -> act L (ix f) (ix g) -> afn_typed (ifn i) = true ->
    enum_upper_okb ut f i = true -> enum_upper_okb ut g i = true ->
    sim_out L f g (apply_instr ut f i) (apply_instr ut g i).
  Proof.
    intros HR Ha Hfn Hu1 Hu2. pose proof (r_err _ _ _ HR) as Herr.
    unfold apply_instr. unfold enum_upper_okb in Hu1, Hu2. rewrite <- Herr in Hu2.
    destruct (empty_name (isrc1 i)); [|destruct (empty_name (isrc2 i))].
    - (* apply0 *)
      unfold apply0. rewrite <- Herr. destruct (ferr f); [apply sim_out_self; exact HR|].
      destruct (ifn i) as [ty vals|k|src|tin tout tbl|ty tbl|nm|]; try (apply sim_out_err; exact HR).
      + destruct (ctype_eqb ty TEnum) eqn:Ete; [exact I|]. apply ctype_neq_eqb in Ete.
        simpl in Hfn. apply andb_true_iff in Hfn as [_ Hty]. apply forallb_Forall in Hty.
        pose proof (loop_sim L (ix f) (ix g) (phys_len f) (phys_len g) H121 Ha (r_rng _ _ _ HR) ty (zero_cell ty) vals
                      Ete (zero_cell_ok ty Ete) Hty) as Hloop.
        assert (Hbind : forall (h : frame) n J,
                  (do cells <- scatter (repeat (zero_cell ty) n) J vals; do c <- col_of_cells ty cells; Ok (set_column h (idst i) c))
                  = match (do cells <- scatter (repeat (zero_cell ty) n) J vals; col_of_cells ty cells) with
                    | Ok r => Ok (set_column h (idst i) r) | Fail => Fail | Panic => Panic end).
        { intros h n J. destruct (scatter (repeat (zero_cell ty) n) J vals) as [a| |]; cbn [obind]; reflexivity. }
        rewrite !Hbind.
        destruct (do cells <- scatter _ (ix f) vals; col_of_cells ty cells) as [r1| |],
                 (do cells <- scatter _ (ix g) vals; col_of_cells ty cells) as [r2| |]; try contradiction; try exact I.
        apply (sim_out_set L f g (idst i) (Ok r1) (Ok r2) HR). destruct Hloop as [H1 [H2 [H3 _]]]. auto.
      + (* a constant: a constant column when the index covers the columns, else written through the index *)
        pose proof (act_in_range L (ix f) (ix g) _ _ Ha (r_rng _ _ _ HR)) as [I1 I2].
        pose proof Ha as [Hlen [_ [Hnd1 Hnd2]]].
        pose proof (const_instr_col k f (idst i) Hnd1 I1) as C1.
        pose proof (const_instr_col k g (idst i) Hnd2 I2) as C2.
        destruct (const_type k) as [t|].
        * destruct C1 as [r1 [E1 [T1 [K1 [V1 Z1]]]]]. destruct C2 as [r2 [E2 [T2 [K2 [V2 Z2]]]]].
          rewrite E1, E2. apply (sim_out_set L f g (idst i) (Ok r1) (Ok r2) HR).
          split; [split; [congruence|]|split; assumption].
          rewrite <- Hlen in V2.
          apply (built_sim L (ix f) (ix g) (phys_len f) (phys_len g) H121 Ha (r_rng _ _ _ HR) r1 r2 _ (zero_cell t) V1 V2 Z1 Z2).
        * rewrite C1, C2. exact I.
      + apply copy_sim. exact HR.
    - (* apply1 *)
      unfold apply1. rewrite <- Herr. destruct (ferr f); [apply sim_out_self; exact HR|].
      pose proof (lookup_col_sim L f g (isrc1 i) (r_cols _ _ _ HR)) as Hs.
      destruct (lookup_col f (isrc1 i)) as [c1|] eqn:E1, (lookup_col g (isrc1 i)) as [c2|] eqn:E2; try contradiction;
        [|apply sim_out_err; exact HR].
      destruct (Rel_lookup_ok f g _ c1 c2 HR E1 E2) as [K1 [K2 K3]].
      apply (sim_out_set L f g (idst i) _ _ HR).
      apply (col_apply1_sim f g c1 c2 (ifn i) HR Ha K1 K2 K3 Hfn).
      * unfold upper_prem. destruct c1; try exact I. destruct (ifn i); try exact I. intro En. rewrite En in Hu1. exact Hu1.
      * unfold upper_prem. destruct c2; try exact I. destruct (ifn i); try exact I. intro En. rewrite En in Hu2. exact Hu2.
    - (* apply2 *)
      unfold apply2. rewrite <- Herr. destruct (ferr f); [apply sim_out_self; exact HR|].
      pose proof (lookup_col_sim L f g (isrc1 i) (r_cols _ _ _ HR)) as Hs1.
      pose proof (lookup_col_sim L f g (isrc2 i) (r_cols _ _ _ HR)) as Hs2.
      destruct (lookup_col f (isrc1 i)) as [c1|] eqn:E1, (lookup_col g (isrc1 i)) as [c2|] eqn:E2; try contradiction;
        [|apply sim_out_err; exact HR].
      destruct (lookup_col f (isrc2 i)) as [e1|] eqn:E3, (lookup_col g (isrc2 i)) as [e2|] eqn:E4; try contradiction;
        [|apply sim_out_err; exact HR].
      destruct (Rel_lookup_ok f g _ c1 c2 HR E1 E2) as [K1 [K2 K3]].
      apply (sim_out_set L f g (idst i) _ _ HR).
      apply (col_apply2_sim f g c1 c2 e1 e2 (ifn i) HR Ha K1 Hs2 K2 K3 Hfn).
  Qed.
End Instr.

(* ------------------------------------------------------------------ Rel <-> the same logical table *)

Lemma cols_sim_row L cs1 cs2 p q :
  cols_sim L cs1 cs2 -> In (p, q) L ->
  omap (fun nc : bytes * coldata => cell_at (snd nc) p) cs1 = omap (fun nc : bytes * coldata => cell_at (snd nc) q) cs2.
Proof.
  intros H Hpq. induction H as [|a b l l' [_ [_ Hc]] _ IH]; [reflexivity|].
  simpl. destruct (Hc p q Hpq) as [x [H1 H2]]. rewrite H1, H2, IH. reflexivity.
Qed.

Lemma cols_sim_intro L : forall cs1 cs2,
  map fst cs1 = map fst cs2 ->
  map (fun nc : bytes * coldata => col_type (snd nc)) cs1 = map (fun nc : bytes * coldata => col_type (snd nc)) cs2 ->
  (forall p q, In (p, q) L -> exists row,
      omap (fun nc : bytes * coldata => cell_at (snd nc) p) cs1 = Ok row
      /\ omap (fun nc : bytes * coldata => cell_at (snd nc) q) cs2 = Ok row) ->
  cols_sim L cs1 cs2.
Proof.
  induction cs1 as [|[n1 c1] cs1 IH]; intros [|[n2 c2] cs2] Hn Ht Hrow; try discriminate; [constructor|].
  simpl in Hn, Ht. inversion Hn; inversion Ht; subst. constructor.
  - split; [reflexivity|]. split; [assumption|]. intros p q Hpq. destruct (Hrow p q Hpq) as [row [R1 R2]].
    apply omap_cons_inv in R1 as [y [ys [Hy [_ ->]]]]. apply omap_cons_inv in R2 as [y' [ys' [Hy' [_ E]]]].
    inversion E; subst. exists y'. split; assumption.
  - apply IH; try assumption. intros p q Hpq. destruct (Hrow p q Hpq) as [row [R1 R2]].
    apply omap_cons_inv in R1 as [y [ys [_ [Hys ->]]]]. apply omap_cons_inv in R2 as [y' [ys' [_ [Hys' E]]]].
    inversion E; subst. exists ys'. split; assumption.
Qed.

Theorem rel_of_abs f g t :
  abs f = Ok t -> abs g = Ok t -> ferr f = ferr g -> wf_frame f = true -> wf_frame g = true ->
  Rel (combine (ix f) (ix g)) f g /\ length (ix f) = length (ix g).
Proof.
  intros Hf Hg He Hw1 Hw2. apply wf_frame_WF in Hw1, Hw2.
  destruct (abs_rows f t Hf) as [R1 [N1 T1]]. destruct (abs_rows g t Hg) as [R2 [N2 T2]].
  assert (Hlen : length (ix f) = length (ix g)).
  { rewrite <- (omap_length _ _ _ R1), <- (omap_length _ _ _ R2). reflexivity. }
  split; [|exact Hlen]. split; try assumption.
  - apply cols_sim_intro; [unfold col_names in *; congruence|congruence|].
    intros p q Hpq. apply In_combine_nth in Hpq as [k [K1 K2]].
    destruct (omap_nth _ _ _ _ _ R1 K1) as [b [B1 B2]]. destruct (omap_nth _ _ _ _ _ R2 K2) as [b' [B1' B2']].
    exists b. unfold row_at in B1, B1'. split; [exact B1|]. rewrite B1'. congruence.
  - intros p q Hpq. apply In_combine_nth in Hpq as [k [K1 K2]].
    destruct Hw1 as [_ I1]. destruct Hw2 as [_ I2]. rewrite Forall_forall in I1, I2.
    split; [apply I1; apply (nth_error_In _ _ K1)|apply I2; apply (nth_error_In _ _ K2)].
Qed.

Theorem abs_of_rel L f g :
  Rel L f g -> length (ix f) = length (ix g) -> incl (combine (ix f) (ix g)) L -> abs f = abs g.
Proof.
  intros HR Hl Hi. unfold abs.
  assert (Hrows : omap (row_at f) (ix f) = omap (row_at g) (ix g)).
  { apply omap_sim; [exact Hl|]. intros p q Hpq. unfold row_at. apply (cols_sim_row L). apply HR. apply Hi. exact Hpq. }
  rewrite Hrows. unfold col_names. rewrite (cols_sim_names L _ _ (r_cols _ _ _ HR)), (cols_sim_types L _ _ (r_cols _ _ _ HR)).
  reflexivity.
Qed.

Lemma Rel_with_ix L f g i j :
  Rel L f g -> Forall (fun p => p < phys_len f) i -> Forall (fun q => q < phys_len g) j ->
  Rel L (with_ix f i) (with_ix g j).
Proof.
  intros [H1 H2 [H3 _] [H4 _] H5] Hi Hj. split; try assumption; split; assumption.
Qed.

(* ------------------------------------------------------------------ instruction lists *)

Fixpoint upper_prog_okb (ut : upper_table) (f : frame) (is : list instr) : bool :=
  match is with
  | [] => true
  | i :: is' => enum_upper_okb ut f i
                && match apply_instr ut f i with Ok g => upper_prog_okb ut g is' | _ => true end
  end.

(* the premise of the no-panic theorem of C10 implies it *)
Lemma apply_tables_upper_prog ut : forall is f, apply_tables_okb ut f is = true -> upper_prog_okb ut f is = true.
Proof.
  induction is as [|i is IH]; intros f H; [reflexivity|]. cbn [apply_tables_okb upper_prog_okb] in *.
  apply andb_true_iff in H as [H1 H2]. rewrite (instr_tables_enum_upper ut f i H1). cbn [andb].
  destruct (apply_instr ut f i) as [g| |]; [apply IH; exact H2|reflexivity|reflexivity].
Qed.

(* a program without ToUpper needs no premise about the oracle at all *)
Lemma no_builtin_upper_prog ut : forall is f,
  forallb (fun i => no_builtin (ifn i)) is = true -> upper_prog_okb ut f is = true.
Proof.
  induction is as [|i is IH]; intros f H; [reflexivity|]. cbn [forallb upper_prog_okb] in *.
  apply andb_true_iff in H as [H1 H2]. apply andb_true_iff. split.
  - unfold enum_upper_okb. destruct (ferr f); [reflexivity|]. destruct (empty_name (isrc1 i)); [reflexivity|].
    destruct (empty_name (isrc2 i)); [|reflexivity]. destruct (lookup_col f (isrc1 i)) as [[]|]; try reflexivity.
    destruct (ifn i); try reflexivity. discriminate.
  - destruct (apply_instr ut f i); [apply IH; exact H2|reflexivity|reflexivity].
Qed.

Theorem apply_sim ut L : one2one L -> forall is f g,
  Rel L f g -> act L (ix f) (ix g) -> forallb (fun i => afn_typed (ifn i)) is = true ->
  upper_prog_okb ut f is = true -> upper_prog_okb ut g is = true ->
  sim_out L f g (apply ut f is) (apply ut g is).
Proof.
  intros H121. induction is as [|i is IH]; intros f g HR Ha Hfn Hu1 Hu2.
  - apply sim_out_self. exact HR.
  - cbn [forallb upper_prog_okb] in *. apply andb_true_iff in Hfn as [Hfn Hfns].
    apply andb_true_iff in Hu1 as [Hu1 Hu1s]. apply andb_true_iff in Hu2 as [Hu2 Hu2s].
    pose proof (apply_instr_sim ut L H121 f g i HR Ha Hfn Hu1 Hu2) as Hi.
    rewrite !apply_cons. unfold sim_out in Hi.
    destruct (apply_instr ut f i) as [f1| |], (apply_instr ut g i) as [g1| |]; try contradiction; [|exact I].
    destruct Hi as [HR1 [If Ig]].
    assert (Ha1 : act L (ix f1) (ix g1)) by (rewrite If, Ig; exact Ha).
    pose proof (IH f1 g1 HR1 Ha1 Hfns Hu1s Hu2s) as Hrest. unfold sim_out in *.
    destruct (apply ut f1 is) as [f2| |], (apply ut g1 is) as [g2| |]; try contradiction; [|exact I].
    destruct Hrest as [HR2 [If2 Ig2]]. split; [exact HR2|]. split; congruence.
Qed.

(* what two results have in common *)
Definition same_result (o1 o2 : outcome frame) : Prop :=
  match o1, o2 with
  | Ok f', Ok g' => ferr f' = ferr g' /\ abs f' = abs g'
  | Panic, Panic => True
  | _, _ => False
  end.

(* a frame with Err exposes nothing but its Err (Len = -1, every view is an error): results are compared by
   their Err state and, without Err, by their logical tables *)
Definition same_visible (o1 o2 : outcome frame) : Prop :=
  match o1, o2 with
  | Ok f', Ok g' => ferr f' = ferr g' /\ (ferr f' = false -> abs f' = abs g')
  | Panic, Panic => True
  | _, _ => False
  end.

Lemma same_result_visible o1 o2 : same_result o1 o2 -> same_visible o1 o2.
Proof. unfold same_result, same_visible. destruct o1, o2; tauto. Qed.

Lemma act_full f g : length (ix f) = length (ix g) -> NoDup (ix f) -> NoDup (ix g) ->
  act (combine (ix f) (ix g)) (ix f) (ix g).
Proof. intros Hl H1 H2. split; [exact Hl|]. split; [apply incl_refl|]. split; assumption. Qed.

(* C09: Apply - every instruction kind, every program - is a function of the logical table *)
Theorem apply_congr ut f g t is :
  abs f = Ok t -> abs g = Ok t -> ferr f = ferr g ->
  wf_frame f = true -> wf_frame g = true -> NoDup (ix f) -> NoDup (ix g) ->
  forallb (fun i => afn_wf (ifn i)) is = true ->
  upper_prog_okb ut f is = true -> upper_prog_okb ut g is = true ->
  same_result (apply ut f is) (apply ut g is).
Proof.
  intros Hf Hg He Hw1 Hw2 Hn1 Hn2 Hfn Hu1 Hu2.
  destruct (rel_of_abs f g t Hf Hg He Hw1 Hw2) as [HR Hl].
  pose proof (apply_sim ut _ (one2one_combine _ _ Hn1 Hn2) is f g HR (act_full f g Hl Hn1 Hn2) (afn_wf_typed_all is Hfn) Hu1 Hu2) as H.
  unfold sim_out, same_result in *.
  destruct (apply ut f is) as [f'| |], (apply ut g is) as [g'| |]; try contradiction; [|exact I].
  destruct H as [HR' [If Ig]]. split; [apply HR'|].
  apply (abs_of_rel _ f' g' HR'); rewrite If, Ig; [exact Hl|apply incl_refl].
Qed.

(* WithRowNums *)
Theorem with_row_nums_congr f g t name :
  abs f = Ok t -> abs g = Ok t -> ferr f = ferr g ->
  wf_frame f = true -> wf_frame g = true -> NoDup (ix f) -> NoDup (ix g) ->
  same_result (with_row_nums f name) (with_row_nums g name).
Proof.
  intros Hf Hg He Hw1 Hw2 Hn1 Hn2. unfold with_row_nums.
  destruct (rel_of_abs f g t Hf Hg He Hw1 Hw2) as [_ Hl]. rewrite <- Hl.
  apply (apply_congr [] f g t _ Hf Hg He Hw1 Hw2 Hn1 Hn2).
  - cbn [forallb ifn afn_wf ctype_eqb negb andb]. rewrite andb_true_r. apply forallb_forall.
    intros x Hx. apply in_map_iff in Hx as [k [<- _]]. reflexivity.
  - apply no_builtin_upper_prog. reflexivity.
  - apply no_builtin_upper_prog. reflexivity.
Qed.

(* ------------------------------------------------------------------ FilteredApply, given what Filter returns *)

(* the two filter results agree: same outcome, same Err, and without Err the kept rows are paired through L *)
Definition filter_sim_out (L : pairs) (f g : frame) (o1 o2 : outcome frame) : Prop :=
  match o1, o2 with
  | Ok ff, Ok gg =>
      ferr ff = ferr gg
      /\ (if ferr ff then True
          else cols ff = cols f /\ cols gg = cols g /\ act L (ix ff) (ix gg))
  | Panic, Panic => True
  | _, _ => False
  end.

Theorem filtered_apply_sim mt ut f g t c is :
  abs f = Ok t -> abs g = Ok t -> ferr f = ferr g ->
  wf_frame f = true -> wf_frame g = true -> NoDup (ix f) -> NoDup (ix g) ->
  filter_sim_out (combine (ix f) (ix g)) f g (frame_filter mt f c) (frame_filter mt g c) ->
  forallb (fun i => afn_wf (ifn i)) is = true ->
  (forall ff, frame_filter mt f c = Ok ff -> upper_prog_okb ut (with_ix f (ix ff)) is = true) ->
  (forall gg, frame_filter mt g c = Ok gg -> upper_prog_okb ut (with_ix g (ix gg)) is = true) ->
  same_visible (filtered_apply mt ut f c is) (filtered_apply mt ut g c is).
Proof.
  intros Hf Hg He Hw1 Hw2 Hn1 Hn2 Hflt Hfn Hu1 Hu2.
  destruct (rel_of_abs f g t Hf Hg He Hw1 Hw2) as [HR Hl].
  set (L := combine (ix f) (ix g)) in *.
  unfold filtered_apply, filter_sim_out in *.
  destruct (frame_filter mt f c) as [ff| |], (frame_filter mt g c) as [gg| |]; try contradiction; [|exact I].
  cbn [obind]. destruct Hflt as [Hee Hrest]. rewrite <- Hee.
  destruct (ferr ff) eqn:Eff; [split; [congruence|intro; congruence]|].
  destruct Hrest as [_ [_ Hact]].
  destruct (act_in_range L _ _ _ _ Hact (r_rng _ _ _ HR)) as [I1 I2].
  assert (HR0 : Rel L (with_ix f (ix ff)) (with_ix g (ix gg))) by (apply Rel_with_ix; assumption).
  pose proof (apply_sim ut L (one2one_combine _ _ Hn1 Hn2) is _ _ HR0 Hact (afn_wf_typed_all is Hfn) (Hu1 ff eq_refl) (Hu2 gg eq_refl)) as H.
  pose proof (apply_post ut is (with_ix f (ix ff)) (r_wf1 _ _ _ HR0)) as P1.
  pose proof (apply_post ut is (with_ix g (ix gg)) (r_wf2 _ _ _ HR0)) as P2.
  unfold sim_out, same_visible in *.
  destruct (apply ut (with_ix f (ix ff)) is) as [r1| |], (apply ut (with_ix g (ix gg)) is) as [r2| |];
    try contradiction; [|exact I].
  cbn [obind post] in *. destruct H as [HR' _]. destruct P1 as [_ [_ P1]]. destruct P2 as [_ [_ P2]].
  change (phys_len (with_ix f (ix ff))) with (phys_len f) in P1. change (phys_len (with_ix g (ix gg))) with (phys_len g) in P2.
  assert (HRf : Rel L (with_ix r1 (ix f)) (with_ix r2 (ix g))).
  { apply Rel_with_ix; [exact HR'|rewrite P1; apply (r_wf1 _ _ _ HR)|rewrite P2; apply (r_wf2 _ _ _ HR)]. }
  split; [apply HR'|]. intros _. apply (abs_of_rel L _ _ HRf); [exact Hl|apply incl_refl].
Qed.

(* ------------------------------------------------------------------ Filter: the row-wise specification reads a row
   only through its cells - and through the value list and strictness of enum columns (rank order, strict
   constants), which the logical table does not show: they are an explicit premise *)

Definition enum_meta (c : coldata) : option (list bytes * bool) :=
  match c with ECol _ vs st => Some (vs, st) | _ => None end.

Definition enum_metas (f : frame) : list (option (list bytes * bool)) := map (fun nc => enum_meta (snd nc)) (cols f).

Section SatSim.
  Variable mt : matcher_table.
  Variables f g : frame.
  Variable L : pairs.
  Hypothesis HR : Rel L f g.
  Hypothesis Hmeta : enum_metas f = enum_metas g.
  Variables p q : nat.
  Hypothesis Hpq : In (p, q) L.

  (* two columns in the same position of the two frames, seen at the paired positions p and q *)
  Definition psim (c1 c2 : coldata) : Prop :=
    col_type c1 = col_type c2 /\ enum_meta c1 = enum_meta c2 /\ exists x, cell_at c1 p = Ok x /\ cell_at c2 q = Ok x.

  Lemma lookup_from_psim name : forall cs1 cs2 pos (acc1 acc2 : option (nat * coldata)),
    cols_sim L cs1 cs2 -> map (fun nc => enum_meta (snd nc)) cs1 = map (fun nc => enum_meta (snd nc)) cs2 ->
    match acc1, acc2 with None, None => True | Some (_, c1), Some (_, c2) => psim c1 c2 | _, _ => False end ->
    match lookup_from name cs1 pos acc1, lookup_from name cs2 pos acc2 with
    | None, None => True | Some (_, c1), Some (_, c2) => psim c1 c2 | _, _ => False end.
  Proof.
    induction cs1 as [|[n1 c1] cs1 IH]; intros cs2 pos acc1 acc2 H Hm Ha;
      inversion H as [|? [n2 c2] ? cs2' [Hn [Ht Hc]] Hrest]; subst.
    - exact Ha.
    - cbn [fst snd] in *. subst n2. cbn [lookup_from]. simpl in Hm. inversion Hm as [[Hm1 Hm2]].
      apply IH; [exact Hrest|exact Hm2|].
      destruct (bytes_eqb n1 name); [|exact Ha]. split; [exact Ht|]. split; [exact Hm1|]. apply Hc. exact Hpq.
  Qed.

  Lemma lookup_psim name :
    match lookup_col f name, lookup_col g name with
    | None, None => True
    | Some c1, Some c2 => psim c1 c2 /\ col_len c1 = phys_len f /\ col_len c2 = phys_len g
    | _, _ => False
    end.
  Proof.
    pose proof (lookup_from_psim name (cols f) (cols g) 0 None None (r_cols _ _ _ HR) Hmeta I) as H.
    fold (lookup f name) in H. fold (lookup g name) in H.
    pose proof (WF_lookup f name) as W1. pose proof (WF_lookup g name) as W2. unfold lookup_col in *.
    destruct (lookup f name) as [[k1 c1]|], (lookup g name) as [[k2 c2]|]; cbn [option_map snd] in *;
      try contradiction; try exact I.
    split; [exact H|]. split; [apply (W1 c1 (r_wf1 _ _ _ HR) eq_refl)|apply (W2 c2 (r_wf2 _ _ _ HR) eq_refl)].
  Qed.

  (* raw reads *)
  Lemma raw_i d1 d2 : psim (ICol d1) (ICol d2) -> exists z, idx d1 p = Ok z /\ idx d2 q = Ok z.
  Proof.
    intros [_ [_ [x [H1 H2]]]]. cbn [cell_at] in H1, H2.
    destruct (idx d1 p) as [z1| |]; cbn [obind] in H1; try discriminate.
    destruct (idx d2 q) as [z2| |]; cbn [obind] in H2; try discriminate.
    exists z1. split; [reflexivity|]. congruence.
  Qed.
  Lemma raw_f d1 d2 : psim (FCol d1) (FCol d2) -> exists z, idx d1 p = Ok z /\ idx d2 q = Ok z.
  Proof.
    intros [_ [_ [x [H1 H2]]]]. cbn [cell_at] in H1, H2.
    destruct (idx d1 p) as [z1| |]; cbn [obind] in H1; try discriminate.
    destruct (idx d2 q) as [z2| |]; cbn [obind] in H2; try discriminate.
    exists z1. split; [reflexivity|]. congruence.
  Qed.
  Lemma raw_b d1 d2 : psim (BCol d1) (BCol d2) -> exists z, idx d1 p = Ok z /\ idx d2 q = Ok z.
  Proof.
    intros [_ [_ [x [H1 H2]]]]. cbn [cell_at] in H1, H2.
    destruct (idx d1 p) as [z1| |]; cbn [obind] in H1; try discriminate.
    destruct (idx d2 q) as [z2| |]; cbn [obind] in H2; try discriminate.
    exists z1. split; [reflexivity|]. congruence.
  Qed.
  Lemma raw_s d1 d2 : psim (SCol d1) (SCol d2) -> exists z, idx d1 p = Ok z /\ idx d2 q = Ok z.
  Proof.
    intros [_ [_ [x [H1 H2]]]]. cbn [cell_at] in H1, H2.
    destruct (idx d1 p) as [z1| |]; cbn [obind] in H1; try discriminate.
    destruct (idx d2 q) as [z2| |]; cbn [obind] in H2; try discriminate.
    exists z1. split; [reflexivity|]. congruence.
  Qed.
  Lemma raw_e d1 v1 s1 d2 v2 s2 : psim (ECol d1 v1 s1) (ECol d2 v2 s2) ->
    v1 = v2 /\ s1 = s2 /\ exists s, cell_at (ECol d1 v1 s1) p = Ok (CEnum s) /\ cell_at (ECol d2 v2 s2) q = Ok (CEnum s).
  Proof.
    intros [_ [Hm [x [H1 H2]]]]. cbn [enum_meta] in Hm. inversion Hm; subst. split; [reflexivity|]. split; [reflexivity|].
    assert (exists s, x = CEnum s) as [s ->].
    { cbn [cell_at] in H1. destruct (idx d1 p) as [r| |]; cbn [obind] in H1; try discriminate.
      destruct (enum_string v2 r) as [s| |]; cbn [obind] in H1; try discriminate. exists s. congruence. }
    exists s. split; assumption.
  Qed.

  Lemma float_slice_psim d1 d2 : psim (ICol d1) (ICol d2) -> psim (FCol (float_slice d1)) (FCol (float_slice d2)).
  Proof.
    intro H. destruct (raw_i d1 d2 H) as [z [Z1 Z2]]. split; [reflexivity|]. split; [reflexivity|].
    exists (CFloat (i2f z)). unfold idx, float_slice in *. cbn [cell_at]. unfold idx. rewrite !nth_error_map.
    destruct (nth_error d1 p); cbn [of_option] in Z1; try discriminate.
    destruct (nth_error d2 q); cbn [of_option] in Z2; try discriminate.
    inversion Z1; inversion Z2; subst. split; reflexivity.
  Qed.

  Lemma equal_types_sim v (d1 d1' d2 d2' : list N) v' :
    length d1 = length d1' -> length d2 = length d2' ->
    equal_types v (length d1) v' (length d1') = equal_types v (length d2) v' (length d2').
  Proof. intros H1 H2. unfold equal_types. rewrite <- H1, <- H2, !Nat.eqb_refl. reflexivity. Qed.

  Lemma builtin_sim c1 c2 cmp a :
    psim c1 c2 -> col_len c1 = phys_len f -> col_len c2 = phys_len g ->
    builtin_sat mt f c1 cmp a p = builtin_sat mt g c2 cmp a q.
  Proof.
    intros Hp Hl1 Hl2. pose proof Hp as [Ht _].
    destruct c1 as [d1|d1|d1|d1|d1 v1 s1], c2 as [d2|d2|d2|d2|d2 v2 s2]; try discriminate Ht.
    - destruct (raw_i d1 d2 Hp) as [z [Z1 Z2]]. unfold builtin_sat. cbn [cell_at]. rewrite Z1, Z2. cbn [obind].
      destruct a; try reflexivity.
      pose proof (lookup_psim n) as Hn. destruct (lookup_col f n) as [e1|], (lookup_col g n) as [e2|]; try contradiction; try reflexivity.
      destruct Hn as [Hn _]. pose proof Hn as [Hte _].
      destruct e1 as [x1|x1|x1|x1|x1 w1 t1], e2 as [x2|x2|x2|x2|x2 w2 t2]; try discriminate Hte; try reflexivity.
      + destruct (raw_i x1 x2 Hn) as [w [W1 W2]]. rewrite W1, W2. reflexivity.
      + destruct (raw_f x1 x2 Hn) as [w [W1 W2]]. rewrite W1, W2. reflexivity.
    - destruct (raw_f d1 d2 Hp) as [z [Z1 Z2]]. unfold builtin_sat. cbn [cell_at]. rewrite Z1, Z2. cbn [obind].
      destruct a; try reflexivity.
      pose proof (lookup_psim n) as Hn. destruct (lookup_col f n) as [e1|], (lookup_col g n) as [e2|]; try contradiction; try reflexivity.
      destruct Hn as [Hn _]. pose proof Hn as [Hte _].
      destruct e1 as [x1|x1|x1|x1|x1 w1 t1], e2 as [x2|x2|x2|x2|x2 w2 t2]; try discriminate Hte; try reflexivity.
      + destruct (raw_i x1 x2 Hn) as [w [W1 W2]]. rewrite W1, W2. reflexivity.
      + destruct (raw_f x1 x2 Hn) as [w [W1 W2]]. rewrite W1, W2. reflexivity.
    - destruct (raw_b d1 d2 Hp) as [z [Z1 Z2]]. unfold builtin_sat. cbn [cell_at]. rewrite Z1, Z2. cbn [obind].
      destruct a; try reflexivity.
      pose proof (lookup_psim n) as Hn. destruct (lookup_col f n) as [e1|], (lookup_col g n) as [e2|]; try contradiction; try reflexivity.
      destruct Hn as [Hn _]. pose proof Hn as [Hte _].
      destruct e1 as [x1|x1|x1|x1|x1 w1 t1], e2 as [x2|x2|x2|x2|x2 w2 t2]; try discriminate Hte; try reflexivity.
      destruct (raw_b x1 x2 Hn) as [w [W1 W2]]. rewrite W1, W2. reflexivity.
    - destruct (raw_s d1 d2 Hp) as [z [Z1 Z2]]. unfold builtin_sat. cbn [cell_at]. rewrite Z1, Z2. cbn [obind].
      destruct (norm_strs a); try reflexivity.
      pose proof (lookup_psim n) as Hn. destruct (lookup_col f n) as [e1|], (lookup_col g n) as [e2|]; try contradiction; try reflexivity.
      destruct Hn as [Hn _]. pose proof Hn as [Hte _].
      destruct e1 as [x1|x1|x1|x1|x1 w1 t1], e2 as [x2|x2|x2|x2|x2 w2 t2]; try discriminate Hte; try reflexivity.
      destruct (raw_s x1 x2 Hn) as [w [W1 W2]]. rewrite W1, W2. reflexivity.
    - destruct (raw_e _ _ _ _ _ _ Hp) as [-> [-> [s [Z1 Z2]]]]. unfold builtin_sat. rewrite Z1, Z2. cbn [obind].
      destruct (norm_strs a); try reflexivity.
      pose proof (lookup_psim n) as Hn. destruct (lookup_col f n) as [e1|], (lookup_col g n) as [e2|]; try contradiction; try reflexivity.
      destruct Hn as [Hn [Hle1 Hle2]]. pose proof Hn as [Hte _].
      destruct e1 as [x1|x1|x1|x1|x1 w1 t1], e2 as [x2|x2|x2|x2|x2 w2 t2]; try discriminate Hte; try reflexivity.
      destruct (raw_e _ _ _ _ _ _ Hn) as [-> [-> [w [W1 W2]]]].
      change (cell_at (ECol x1 w2 false) p) with (cell_at (ECol x1 w2 t2) p).
      change (cell_at (ECol x2 w2 false) q) with (cell_at (ECol x2 w2 t2) q).
      rewrite W1, W2. cbn [obind]. cbn [col_len] in *.
      rewrite (equal_types_sim v2 d1 x1 d2 x2 w2) by congruence. reflexivity.
  Qed.

  Lemma psim_cell c1 c2 : psim c1 c2 -> cell_at c1 p = cell_at c2 q.
  Proof. intros [_ [_ [x [H1 H2]]]]. congruence. Qed.
  Lemma psim_fn_type c1 c2 t : psim c1 c2 -> fn_type_ok c1 t = fn_type_ok c2 t.
  Proof. intros [Ht _]. unfold fn_type_ok, col_ftype. rewrite Ht. reflexivity. Qed.

  (* the int column promoted to float when the other operand is a float column *)
  Lemma promote_psim c1 c2 e1 e2 : psim c1 c2 -> psim e1 e2 ->
    psim (match c1, e1 with ICol d, FCol _ => FCol (float_slice d) | _, _ => c1 end)
         (match c2, e2 with ICol d, FCol _ => FCol (float_slice d) | _, _ => c2 end).
  Proof.
    intros Hc He. pose proof Hc as [Ht _]. pose proof He as [Hte _].
    destruct c1, c2; try discriminate Ht; try exact Hc;
      destruct e1, e2; try discriminate Hte; try exact Hc.
    apply float_slice_psim. exact Hc.
  Qed.

  Lemma leaf_sim l : leaf_sat mt f l p = leaf_sat mt g l q.
  Proof.
    unfold leaf_sat. pose proof (lookup_psim (lcol l)) as Hl.
    destruct (lookup_col f (lcol l)) as [c1|], (lookup_col g (lcol l)) as [c2|]; try contradiction; [|reflexivity].
    destruct Hl as [Hp [Hl1 Hl2]].
    match goal with |- obind ?a _ = obind ?b _ => assert (a = b) as ->; [|reflexivity] end.
    destruct (lcmp l) as [s|t tbl|t tbl|].
    - destruct (larg l) eqn:Ea; try (apply builtin_sim; assumption).
      pose proof (lookup_psim n) as Hn.
      destruct (lookup_col f n) as [e1|], (lookup_col g n) as [e2|]; try contradiction; [|reflexivity].
      apply builtin_sim; assumption.
    - destruct (larg l) eqn:Ea;
        try (rewrite (psim_fn_type c1 c2 t Hp), (psim_cell c1 c2 Hp); reflexivity).
      pose proof (lookup_psim n) as Hn.
      destruct (lookup_col f n) as [e1|], (lookup_col g n) as [e2|]; try contradiction; [|reflexivity].
      destruct Hn as [Hn _]. pose proof (promote_psim c1 c2 e1 e2 Hp Hn) as Hp'. cbv zeta.
      rewrite (psim_fn_type _ _ t Hp'), (psim_cell _ _ Hp'). reflexivity.
    - destruct (larg l) eqn:Ea; try reflexivity.
      pose proof (lookup_psim n) as Hn.
      destruct (lookup_col f n) as [e1|], (lookup_col g n) as [e2|]; try contradiction; [|reflexivity].
      destruct Hn as [Hn _].
      pose proof (promote_psim c1 c2 e1 e2 Hp Hn) as Hp1. pose proof (promote_psim e1 e2 c1 c2 Hn Hp) as Hp2.
      assert (Hpair : forall (A : Type) (K : coldata -> coldata -> A),
                 (let '(c', c2') := match c1, e1 with
                                    | ICol d, FCol _ => (FCol (float_slice d), e1)
                                    | FCol _, ICol d2 => (c1, FCol (float_slice d2))
                                    | _, _ => (c1, e1) end in K c' c2')
                 = K (match c1, e1 with ICol d, FCol _ => FCol (float_slice d) | _, _ => c1 end)
                     (match e1, c1 with ICol d, FCol _ => FCol (float_slice d) | _, _ => e1 end)).
      { intros A K. destruct c1, e1; reflexivity. }
      assert (Hpair2 : forall (A : Type) (K : coldata -> coldata -> A),
                 (let '(c', c2') := match c2, e2 with
                                    | ICol d, FCol _ => (FCol (float_slice d), e2)
                                    | FCol _, ICol d2 => (c2, FCol (float_slice d2))
                                    | _, _ => (c2, e2) end in K c' c2')
                 = K (match c2, e2 with ICol d, FCol _ => FCol (float_slice d) | _, _ => c2 end)
                     (match e2, c2 with ICol d, FCol _ => FCol (float_slice d) | _, _ => e2 end)).
      { intros A K. destruct c2, e2; reflexivity. }
      rewrite (Hpair _ (fun c' c2' => if fn_type_ok c' t && ctype_eqb (col_type c') (col_type c2')
                                      then do x <- cell_at c' p; do y <- cell_at c2' p;
                                           Ok match find (fun e => cell_key_eqb (fst (fst e)) x && cell_key_eqb (snd (fst e)) y) tbl with
                                              | Some e => det (snd e) | None => open_ end
                                      else Ok invalid)).
      rewrite (Hpair2 _ (fun c' c2' => if fn_type_ok c' t && ctype_eqb (col_type c') (col_type c2')
                                       then do x <- cell_at c' q; do y <- cell_at c2' q;
                                            Ok match find (fun e => cell_key_eqb (fst (fst e)) x && cell_key_eqb (snd (fst e)) y) tbl with
                                               | Some e => det (snd e) | None => open_ end
                                       else Ok invalid)).
      rewrite (psim_fn_type _ _ t Hp1), (psim_cell _ _ Hp1), (psim_cell _ _ Hp2).
      destruct Hp1 as [T1 _]. destruct Hp2 as [T2 _]. rewrite T1, T2. reflexivity.
    - reflexivity.
  Qed.

  Lemma clause_sim c : clause_sat mt f c p = clause_sat mt g c q.
  Proof.
    induction c as [l| |c IH|cs IH|cs IH] using clause_ind2.
    - apply leaf_sim.
    - reflexivity.
    - cbn [clause_sat]. rewrite IH. reflexivity.
    - rewrite !clause_sat_and. destruct cs as [|c0 cs]; [reflexivity|].
      induction IH as [|c cs' Hc _ IHl]; [reflexivity|]. cbn [and_go]. rewrite Hc, IHl. reflexivity.
    - rewrite !clause_sat_or. destruct cs as [|c0 cs]; [reflexivity|].
      induction IH as [|c cs' Hc _ IHl]; [reflexivity|]. cbn [or_go]. rewrite Hc, IHl. reflexivity.
  Qed.
End SatSim.

(* ------------------------------------------------------------------ QFrame.Filter *)

Definition same_verdict (v1 v2 : filter_verdict) : Prop :=
  match v1, v2 with
  | VRows _, VRows _ | VError, VError | VOpen, VOpen | VFault, VFault => True
  | _, _ => False
  end.

Lemma spec_go_sim mt f g c : forall i1 i2 acc1 acc2 opened,
  length i1 = length i2 -> (forall p q, In (p, q) (combine i1 i2) -> clause_sat mt f c p = clause_sat mt g c q) ->
  same_verdict (spec_go mt f c i1 acc1 opened) (spec_go mt g c i2 acc2 opened).
Proof.
  induction i1 as [|p i1 IH]; intros [|q i2] acc1 acc2 opened Hl H; try discriminate.
  - cbn [spec_go]. destruct opened; exact I.
  - cbn [spec_go]. rewrite <- (H p q (or_introl eq_refl)).
    assert (Hl' : length i1 = length i2) by (simpl in Hl; lia).
    assert (H' : forall p0 q0, In (p0, q0) (combine i1 i2) -> clause_sat mt f c p0 = clause_sat mt g c q0)
      by (intros; apply H; right; assumption).
    destruct (clause_sat mt f c p) as [[[[|]|]|]| |]; try exact I; apply IH; assumption.
Qed.

Lemma c02_premises_parts mt f c : c02_premises_b mt f c = true ->
  wf_frame f = true /\ ferr f = false /\ NoDup (ix f).
Proof.
  unfold c02_premises_b. intro H.
  apply andb_true_iff in H as [H _]. apply andb_true_iff in H as [H _].
  apply andb_true_iff in H as [H Hnd]. apply andb_true_iff in H as [H Hne]. apply andb_true_iff in H as [Hw _].
  split; [exact Hw|]. split; [apply negb_true_iff; exact Hne|].
  apply (FilterTypedFrame.nodupb_ok Nat.eqb Nat.eqb_eq). exact Hnd.
Qed.

(* C09 for Filter.  Premises: those of the C02 theorem for BOTH frames (c02_premises_b: well formed, no Err,
   pairwise different enum values, duplicate-free index, the specification answers on every row of the frame for
   every leaf, no "not in"), at least one row, and - beyond the same logical table - the same enum value lists
   and strictness, column by column (enum_metas).  The conclusion also says where the kept rows are (paired
   through the two indexes), which is what FilteredApply needs. *)
Theorem filter_congr mt f g t c :
  abs f = Ok t -> abs g = Ok t ->
  c02_premises_b mt f c = true -> c02_premises_b mt g c = true -> trows t <> [] ->
  enum_metas f = enum_metas g ->
  filter_sim_out (combine (ix f) (ix g)) f g (frame_filter mt f c) (frame_filter mt g c)
  /\ same_visible (frame_filter mt f c) (frame_filter mt g c).
Proof.
  intros Hf Hg P1 P2 Hne Hm.
  destruct (c02_premises_parts mt f c P1) as [Hw1 [He1 Hn1]]. destruct (c02_premises_parts mt g c P2) as [Hw2 [He2 Hn2]].
  destruct (rel_of_abs f g t Hf Hg ltac:(congruence) Hw1 Hw2) as [HR Hl].
  set (L := combine (ix f) (ix g)) in *.
  assert (Hne1 : ix f <> []).
  { intro E. apply Hne. pose proof (abs_length f t Hf) as H. rewrite E in H. destruct (trows t); [reflexivity|discriminate]. }
  assert (Hne2 : ix g <> []) by (intro E; rewrite E in Hl; destruct (ix f); [congruence|discriminate]).
  assert (Hsat : forall p q, In (p, q) L -> clause_sat mt f c p = clause_sat mt g c q).
  { intros p q Hpq. apply (clause_sim mt f g L HR Hm p q Hpq). }
  pose proof (filter_meets_spec mt f c P1 Hne1) as M1. pose proof (filter_meets_spec mt g c P2 Hne2) as M2.
  pose proof (spec_go_sim mt f g c (ix f) (ix g) [] [] false Hl Hsat) as Hv.
  rewrite <- !filter_spec_go in Hv. unfold same_verdict in Hv.
  destruct (filter_spec mt f c) as [r1| | |], (filter_spec mt g c) as [r2| | |]; try contradiction.
  - destruct M1 as [F1 R1]. destruct M2 as [F2 R2]. rewrite F1, F2.
    destruct (combine_filter_incl (fun p => sat_true (clause_sat mt f c p)) (fun q => sat_true (clause_sat mt g c q))
                (ix f) (ix g) Hl ltac:(intros p q Hpq; cbv beta; rewrite (Hsat p q Hpq); reflexivity)) as [Hi Hlen].
    rewrite <- R1, <- R2 in Hi, Hlen.
    assert (Hact : act L r1 r2).
    { split; [exact Hlen|]. split; [exact Hi|]. subst r1 r2. split; apply NoDup_filter; assumption. }
    unfold filter_sim_out, same_visible. cbn [ferr with_ix ix cols]. rewrite He1, He2.
    split; [split; [reflexivity|split; [reflexivity|split; [reflexivity|exact Hact]]]|].
    split; [reflexivity|]. intros _.
    destruct (act_in_range L r1 r2 _ _ Hact (r_rng _ _ _ HR)) as [I1 I2].
    apply (abs_of_rel L _ _ (Rel_with_ix L f g r1 r2 HR I1 I2)); [exact Hlen|exact Hi].
  - destruct M1 as [g1 [F1 E1]]. destruct M2 as [g2 [F2 E2]]. rewrite F1, F2.
    unfold filter_sim_out, same_visible. rewrite E1, E2. split; [split; [reflexivity|exact I]|].
    split; [reflexivity|discriminate].
Qed.

(* FilteredApply *)
Theorem filtered_apply_congr mt ut f g t c is :
  abs f = Ok t -> abs g = Ok t ->
  c02_premises_b mt f c = true -> c02_premises_b mt g c = true -> trows t <> [] ->
  enum_metas f = enum_metas g ->
  forallb (fun i => afn_wf (ifn i)) is = true ->
  (forall ff, frame_filter mt f c = Ok ff -> upper_prog_okb ut (with_ix f (ix ff)) is = true) ->
  (forall gg, frame_filter mt g c = Ok gg -> upper_prog_okb ut (with_ix g (ix gg)) is = true) ->
  same_visible (filtered_apply mt ut f c is) (filtered_apply mt ut g c is).
Proof.
  intros Hf Hg P1 P2 Hne Hm Hfn Hu1 Hu2.
  destruct (c02_premises_parts mt f c P1) as [Hw1 [He1 Hn1]]. destruct (c02_premises_parts mt g c P2) as [Hw2 [He2 Hn2]].
  destruct (filter_congr mt f g t c Hf Hg P1 P2 Hne Hm) as [Hflt _].
  apply (filtered_apply_sim mt ut f g t c is Hf Hg ltac:(congruence) Hw1 Hw2 Hn1 Hn2 Hflt Hfn Hu1 Hu2).
Qed.

(* ------------------------------------------------------------------ QFrame.Eval, from the C07 theorem *)

Section EvalCongr.
  Import QF.Model.Eval QF.Proofs.EvalFullBase QF.Corr.FrameCorr.

  Lemma contains_names f g m : col_names f = col_names g -> contains f m = contains g m.
  Proof.
    intro H. destruct (contains f m) eqn:E1, (contains g m) eqn:E2; try reflexivity.
    - apply contains_In in E1. rewrite H in E1. apply contains_In in E1. congruence.
    - apply contains_In in E2. rewrite <- H in E2. apply contains_In in E2. congruence.
  Qed.

  Theorem eval_congr ut cx f g t dst e :
    abs f = Ok t -> abs g = Ok t -> ferr f = ferr g -> wf_frame f = true -> wf_frame g = true ->
    EvalFull.ctx_ok cx = true -> EvalFull.names_ok f = true -> EvalFull.expr_ok f e = true ->
    (N.of_nat (length (cols f) + EvalFull.temps_needed e) <= 10000)%N -> EvalFull.has_open cx t e = false ->
    same_visible (eval ut cx f dst e) (eval ut cx g dst e).
  Proof.
    intros Hf Hg He Hw1 Hw2 Hcx Hn Hok Hb Hop.
    destruct (ferr f) eqn:Ef.
    { unfold eval. rewrite Ef, <- He. split; [congruence|intro; congruence]. }
    symmetry in He.
    destruct (abs_rows f t Hf) as [_ [N1 _]]. destruct (abs_rows g t Hg) as [_ [N2 _]].
    assert (Hnames : col_names f = col_names g) by congruence.
    assert (Hn2 : EvalFull.names_ok g = true) by (unfold EvalFull.names_ok in *; rewrite <- Hnames; exact Hn).
    assert (Hok2 : EvalFull.expr_ok g e = true).
    { unfold EvalFull.expr_ok in *. apply andb_true_iff in Hok as [H1 H2]. rewrite H2, andb_true_r.
      rewrite forallb_forall in *. intros m Hm. specialize (H1 m Hm). unfold EvalFull.hyg in *.
      rewrite <- (contains_names f g m Hnames). exact H1. }
    assert (Hb2 : (N.of_nat (length (cols g) + EvalFull.temps_needed e) <= 10000)%N).
    { replace (length (cols g)) with (length (cols f)); [exact Hb|].
      unfold col_names in Hnames. rewrite <- (map_length fst (cols f)), <- (map_length fst (cols g)), Hnames. reflexivity. }
    pose proof (EvalFull.eval_full ut cx f dst e t Hcx Hw1 Ef Hn Hok Hb Hf) as M1.
    pose proof (EvalFull.eval_full ut cx g dst e t Hcx Hw2 He Hn2 Hok2 Hb2 Hg) as M2.
    unfold EvalFull.eval_meets in *.
    destruct (denote cx t e) as [[[ty cs]|]|].
    - destruct M1 as [f' [F1 R1]]. destruct M2 as [g' [F2 R2]]. rewrite F1, F2. unfold same_visible.
      destruct (EvalFull.is_col_ref e dst).
      + subst f' g'. split; [congruence|intros _; congruence].
      + destruct (check_name dst).
        * destruct R1 as [A1 [_ [_ A2]]]. destruct R2 as [B1 [_ [_ B2]]]. split; [congruence|intros _; congruence].
        * split; [congruence|intro; congruence].
    - rewrite M1, M2. exact I.
    - destruct M1 as [[M1 _]|[f' [F1 R1]]]; [congruence|]. destruct M2 as [[M2 _]|[g' [F2 R2]]]; [congruence|].
      rewrite F1, F2. split; [congruence|intro; congruence].
  Qed.
End EvalCongr.

(* ------------------------------------------------------------------ C06: the built in ToUpper on the logical table *)

Lemma omap_ok_in {A B} (g : A -> outcome B) l r a : omap g l = Ok r -> In a l -> exists b, g a = Ok b.
Proof.
  intros H Ha. apply In_nth_error in Ha as [k Hk]. destruct (omap_nth _ _ _ _ _ H Hk) as [b [Hb _]]. exists b. exact Hb.
Qed.

(* the column a ToUpper instruction builds, read through the row index: upcell of the source cells *)
Lemma col_upper_cells ut c index n cells :
  col_ok n c -> (col_type c = TString \/ col_type c = TEnum) -> NoDup index -> Forall (fun p => p < n) index ->
  fn1_tables_okb ut c (FBuiltin name_ToUpper) index = true ->
  omap (cell_at c) index = Ok cells ->
  exists r vals, col_apply1 ut c (FBuiltin name_ToUpper) index = Ok r /\ col_ok n r /\ col_type r = col_type c
    /\ omap (upcell ut) cells = Ok vals /\ omap (cell_at r) index = Ok vals.
Proof.
  intros Hok Hty Hnd Hin Htab Hcells. unfold fn1_tables_okb in Htab. rewrite bytes_eqb_refl in Htab.
  destruct c as [d|d|d|d|d vs st]; try (destruct Hty; discriminate).
  - (* string column *)
    cbn [col_apply1]. destruct (assocb name_ToUpper GenTables.t_s_apply) as [nm0|] eqn:Eas; [|vm_compute in Eas; discriminate].
    rewrite bytes_eqb_refl. destruct Hok as [Hl _]. cbn [col_len] in Hl.
    unfold s_to_upper.
    set (g1 := fun p => do s <- idx d p; match s with None => Ok (CStr None) | Some b => do u <- upper_of ut b; Ok (CStr (Some u)) end).
    assert (Hg1 : omap g1 index = omap (upcell ut) cells).
    { rewrite <- (omap_compose (cell_at (SCol d)) (upcell ut) index cells Hcells).
      apply omap_ext_local. intros p _. unfold g1. cbn [cell_at]. destruct (idx d p) as [[s|]| |]; reflexivity. }
    destruct d as [|s0 d'].
    + (* no physical rows: the source itself *)
      assert (index = []) by (destruct index as [|p r]; [reflexivity|inversion Hin; subst; simpl in *; lia]). subst index.
      inversion Hcells; subst cells. exists (SCol []), []. repeat split; reflexivity || assumption.
    + set (dd := s0 :: d') in *.
      destruct (post_total _ _ _ (s_to_upper_post ut dd index n (conj Hl eq_refl) Hin) Htab) as [r [Hr Hrok]].
      unfold s_to_upper in Hr. fold g1 in Hr. change (match dd with [] => Ok (SCol dd) | _ :: _ => ?x end) with x in Hr.
      fold g1. destruct (omap g1 index) as [vals| |] eqn:Ev; cbn [obind] in Hr |- *; try discriminate.
      assert (Hm : map (fun _ : option bytes => CStr (Some [])) dd = repeat (CStr (Some [])) n)
        by (rewrite <- Hl; clear; induction dd; simpl; congruence).
      rewrite Hm in Hr |- *.
      assert (Hvty : Forall (fun y => cell_type_ok TString y = true) vals).
      { apply (omap_Forall _ _ _ _ Ev). intros p b _ Hb. unfold g1 in Hb.
        destruct (idx dd p) as [[s|]| |]; cbn [obind] in Hb; try discriminate.
        - destruct (upper_of ut s); cbn [obind] in Hb; try discriminate. inversion Hb. reflexivity.
        - inversion Hb. reflexivity. }
      assert (Hvl : length index <= length vals) by (rewrite (omap_length _ _ _ Ev); lia).
      destruct (scatter_col_gen TString (CStr (Some [])) n index vals ltac:(discriminate) eq_refl Hnd Hin Hvl Hvty)
        as [arr [r' [Ha [Hc [Ht [Hlr [Hv _]]]]]]].
      rewrite Ha in Hr |- *. cbn [obind] in Hr |- *. rewrite Hc in Hr |- *. inversion Hr; subst r'.
      exists r, vals. split; [reflexivity|]. split; [exact Hrok|]. split; [exact Ht|]. split; [symmetry; exact Hg1|].
      rewrite Hv. rewrite firstn_all2; [reflexivity|]. rewrite (omap_length _ _ _ Ev). lia.
  - (* enum column *)
    cbn [col_apply1]. destruct (assocb name_ToUpper GenTables.t_e_apply) as [nm0|] eqn:Eas; [|vm_compute in Eas; discriminate].
    rewrite bytes_eqb_refl.
    destruct (e_upper_spec ut d vs st n Hok Htab) as [r0 [E0 [T0 [K0 C0]]]].
    assert (Hr0 : omap (cell_at r0) index = omap (upcell ut) cells).
    { rewrite <- (omap_compose (cell_at (ECol d vs st)) (upcell ut) index cells Hcells).
      apply omap_ext_local. intros p Hp. destruct (omap_ok_in _ _ _ p Hcells Hp) as [x Hx].
      destruct (C0 p x Hx) as [y [Y1 Y2]]. rewrite Hx, Y2. cbn [obind]. symmetry. exact Y1. }
    destruct (omap_total (cell_at r0) index) as [vals Hvals].
    { intros p Hp. destruct K0 as [Kl Kw]. apply cell_at_total; [exact Kw|]. rewrite Kl. rewrite Forall_forall in Hin. apply Hin. exact Hp. }
    exists r0, vals. split; [exact E0|]. split; [exact K0|]. split; [exact T0|]. split; [rewrite <- Hr0; exact Hvals|exact Hvals].
Qed.

(* Apply(Instruction{Fn: "ToUpper", DstCol: dst, SrcCol1: src}) on the logical table:
   string and enum source columns: dst (replaced in position / appended last, the type of the source) holds
   upcell of the source cell of the same row - the upper-cased string (oracle table ut), null stays null - and
   nothing else changes; a source column of another type is an error.  Premises: a well-formed frame with a
   duplicate-free index, a legal destination name, and the oracle table answers (for a string column on the strings
   of the frame's rows; for an enum column on EVERY entry of its value list, as the implementation upper-cases
   the whole list). *)
Theorem apply1_builtin_toupper_spec ut f t dst src ty cells :
  abs f = Ok t -> ferr f = false -> wf_frame f = true -> NoDup (ix f) -> check_name dst = true ->
  tcolumn t src = Some (ty, cells) ->
  (forall c, lookup_col f src = Some c -> fn1_tables_okb ut c (FBuiltin name_ToUpper) (ix f) = true) ->
  match ty with
  | TString | TEnum =>
      exists vals g, omap (upcell ut) cells = Ok vals /\ apply1 ut f (FBuiltin name_ToUpper) dst src = Ok g
                     /\ ferr g = false /\ ix g = ix f /\ wf_frame g = true
                     /\ abs g = Ok (tset_col t dst ty vals)
  | _ => apply1 ut f (FBuiltin name_ToUpper) dst src = Ok (with_err f)
  end.
Proof.
  intros Ht Hf Hwf Hnd Hn Hcol Htab.
  destruct (lookup f src) as [[k c]|] eqn:El; [|rewrite (abs_tcolumn_none f t src Ht El) in Hcol; discriminate].
  destruct (abs_tcolumn_some f t src k c Ht El) as [cells' [Hc' Hcells]]. rewrite Hc' in Hcol. inversion Hcol; subst ty cells'.
  pose proof (lookup_col_of f src k c El) as Hlc. specialize (Htab c Hlc).
  pose proof Hwf as Hwf'. apply wf_frame_WF in Hwf'.
  pose proof (WF_lookup f src c Hwf' Hlc) as Hok.
  unfold apply1. rewrite Hf, Hlc.
  assert (Hgo : col_type c = TString \/ col_type c = TEnum ->
          exists vals g, omap (upcell ut) cells = Ok vals
            /\ match col_apply1 ut c (FBuiltin name_ToUpper) (ix f) with
               | Ok r => Ok (set_column f dst r) | Fail => Ok (with_err f) | Panic => Panic end = Ok g
            /\ ferr g = false /\ ix g = ix f /\ wf_frame g = true /\ abs g = Ok (tset_col t dst (col_type c) vals)).
  { intro Hty. destruct (col_upper_cells ut c (ix f) (phys_len f) cells Hok Hty Hnd (proj2 Hwf') Htab Hcells)
      as [r [vals [Hr [Hrok [Hrt [Hv Hrv]]]]]].
    exists vals, (set_column f dst r). rewrite Hr. split; [exact Hv|]. split; [reflexivity|].
    destruct (set_column_spec f dst r Hn) as [H1 [H2 _]].
    split; [rewrite H2; exact Hf|]. split; [exact H1|].
    split; [apply wf_frame_WF; apply (set_column_kept f dst r Hwf' Hrok)|].
    rewrite <- Hrt. apply abs_set_column; assumption. }
  destruct c as [d|d|d|d|d vs st]; cbn [col_type] in *; try reflexivity; apply Hgo; auto.
Qed.

(* when the oracle table is faithful to a function up (e.g. Model/Match.v upper_spec, which C18 proves the
   model of qfstrings.ToUpper computes), upcell is "apply up to the string, keep null" *)
Lemma upcell_faithful (up : bytes -> bytes) ut x y :
  (forall s u, assocb s ut = Some u -> u = up s) -> upcell ut x = Ok y ->
  y = match x with
      | CStr (Some s) => CStr (Some (up s)) | CEnum (Some s) => CEnum (Some (up s)) | other => other
      end.
Proof.
  intros Hfaith H. destruct x as [z|b|b|[s|]|[s|]]; cbn [upcell] in H; try discriminate; try (inversion H; reflexivity);
    unfold upper_of in H; destruct (assocb s ut) as [u|] eqn:E; cbn [obind] in H; try discriminate;
    inversion H; rewrite (Hfaith s u E); reflexivity.
Qed.

(* ------------------------------------------------------------------ the statement kept as C06_builtin_full_statement
   (Properties/C06.v), at the level of apply_instr.  upper_cell2 is, word for word, upper_cell of Properties/C06.v.
   One premise is ADDED: the source name is not empty - with SrcCol1 = "" the instruction is read as a
   zero-argument one (apply0), where a function name is an error, so the statement without it is false for a
   frame that has a column named "". *)
Definition upper_cell2 (ut : upper_table) (x : cell) : outcome cell :=
  match x with
  | CStr (Some s) => do u <- upper_of ut s; Ok (CStr (Some u))
  | CEnum (Some s) => do u <- upper_of ut s; Ok (CEnum (Some u))
  | other => Ok other
  end.

Lemma upcell_upper_cell2 ut c index cells :
  (col_type c = TString \/ col_type c = TEnum) -> omap (cell_at c) index = Ok cells ->
  omap (upcell ut) cells = omap (upper_cell2 ut) cells.
Proof.
  intros Hty Hcells.
  rewrite <- (omap_compose (cell_at c) (upcell ut) index cells Hcells).
  rewrite <- (omap_compose (cell_at c) (upper_cell2 ut) index cells Hcells).
  apply omap_ext_local. intros p _.
  destruct c as [d|d|d|d|d vs st]; try (destruct Hty; discriminate); cbn [cell_at].
  - destruct (idx d p) as [[s|]| |]; reflexivity.
  - destruct (idx d p) as [r| |]; cbn [obind]; try reflexivity. destruct (enum_string vs r) as [[s|]| |]; reflexivity.
Qed.

Theorem apply_instr_builtin_toupper ut f t dst src ty cells out :
  ferr f = false -> fr_ok f -> abs f = Ok t -> check_name dst = true -> empty_name src = false ->
  tcolumn t src = Some (ty, cells) -> (ty = TString \/ ty = TEnum) ->
  omap (upper_cell2 ut) cells = Ok out ->
  (forall c s, lookup_col f src = Some c -> In s (match c with ECol _ vs _ => vs | _ => [] end) -> upper_of ut s <> Panic) ->
  exists g, apply_instr ut f (mkInstr (FBuiltin name_ToUpper) dst src []) = Ok g /\ ferr g = false
            /\ ix g = ix f /\ wf_frame g = true /\ abs g = Ok (tset_col t dst ty out).
Proof.
  intros Hf [Hwf Hnd] Ht Hn Hsrc Hcol Hty Hout Henum.
  destruct (lookup f src) as [[k c]|] eqn:El; [|rewrite (abs_tcolumn_none f t src Ht El) in Hcol; discriminate].
  destruct (abs_tcolumn_some f t src k c Ht El) as [cells' [Hc' Hcells]].
  pose proof Hcol as Hcol0. rewrite Hc' in Hcol0. inversion Hcol0; subst ty cells'. clear Hcol0.
  pose proof (lookup_col_of f src k c El) as Hlc.
  assert (Hup : omap (upcell ut) cells = Ok out) by (rewrite (upcell_upper_cell2 ut c (ix f) cells Hty Hcells); exact Hout).
  assert (Htab : forall c0, lookup_col f src = Some c0 -> fn1_tables_okb ut c0 (FBuiltin name_ToUpper) (ix f) = true).
  { intros c0 Hc0. rewrite Hlc in Hc0. inversion Hc0; subst c0. unfold fn1_tables_okb. rewrite bytes_eqb_refl.
    destruct c as [d|d|d|d|d vs st]; try reflexivity.
    - unfold upper_s_okb. apply forallb_forall. intros p Hp.
      apply In_nth_error in Hp as [j Hj]. destruct (omap_nth _ _ _ _ _ Hcells Hj) as [x [Hx Hxj]].
      destruct (omap_nth _ _ _ _ _ Hup Hxj) as [y [Hy _]].
      cbn [cell_at] in Hx. unfold idx in Hx. destruct (nth_error d p) as [[b|]|]; cbn [of_option obind] in Hx; try reflexivity.
      inversion Hx; subst x. cbn [upcell] in Hy. unfold upper_of in Hy. destruct (assocb b ut); [reflexivity|discriminate].
    - unfold upper_e_okb. apply forallb_forall. intros v Hv. specialize (Henum _ v Hlc Hv).
      unfold upper_of in Henum. destruct (assocb v ut); [reflexivity|congruence]. }
  pose proof (apply1_builtin_toupper_spec ut f t dst src (col_type c) cells Ht Hf Hwf Hnd Hn Hcol Htab) as H.
  assert (Hgoal : exists vals g, omap (upcell ut) cells = Ok vals /\ apply1 ut f (FBuiltin name_ToUpper) dst src = Ok g
                   /\ ferr g = false /\ ix g = ix f /\ wf_frame g = true /\ abs g = Ok (tset_col t dst (col_type c) vals)).
  { destruct Hty as [E|E]; rewrite E in H |- *; exact H. }
  destruct Hgoal as [vals [g [Hv [Hg [H1 [H2 [H3 H4]]]]]]].
  rewrite Hup in Hv. inversion Hv; subst vals.
  exists g. unfold apply_instr. cbn [isrc1 isrc2 ifn idst]. rewrite Hsrc. cbn [empty_name length Nat.eqb].
  repeat split; assumption.
Qed.

(* the added premise cannot be dropped *)
Example builtin_toupper_empty_source :
  let f := mkFrame [([], SCol [Some [97%N]])] [0] false in
  (do t <- abs f; Ok (tcolumn t [])) = Ok (Some (TString, [CStr (Some [97%N])]))
  /\ apply_instr [([97%N], [65%N])] f (mkInstr (FBuiltin name_ToUpper) [66%N] [] []) = Ok (with_err f).
Proof. split; vm_compute; reflexivity. Qed.

(* ------------------------------------------------------------------ QFrame.Eval, directly: every tree, no premise on names
   The corollary eval_congr above inherits the premises of the C07 theorem (pairwise different column names,
   hygienic references, the 10000 limit).  None of them is needed for congruence: temporaries are named after the
   column NAMES only, which the two frames share, so both runs create, find, capture and drop the same names. *)

Record FRel (f g : frame) : Prop := mkFRel {
  fr_err : ferr f = ferr g;
  fr_cols : cols_sim (combine (ix f) (ix g)) (cols f) (cols g);
  fr_wf1 : WF f;
  fr_wf2 : WF g;
  fr_len : length (ix f) = length (ix g);
  fr_nd1 : NoDup (ix f);
  fr_nd2 : NoDup (ix g)
}.

Lemma FRel_Rel f g : FRel f g -> Rel (combine (ix f) (ix g)) f g.
Proof.
  intros [H1 H2 H3 H4 H5 H6 H7]. split; try assumption.
  intros p q Hpq. apply In_combine_nth in Hpq as [k [K1 K2]].
  destruct H3 as [_ I1]. destruct H4 as [_ I2]. rewrite Forall_forall in I1, I2.
  split; [apply I1; apply (nth_error_In _ _ K1)|apply I2; apply (nth_error_In _ _ K2)].
Qed.

Lemma Rel_FRel f g f' g' :
  FRel f g -> Rel (combine (ix f) (ix g)) f' g' -> ix f' = ix f -> ix g' = ix g -> FRel f' g'.
Proof.
  intros [_ _ _ _ H5 H6 H7] [R1 R2 R3 R4 _] E1 E2. split; rewrite ?E1, ?E2; assumption.
Qed.

Lemma FRel_of_abs f g t :
  abs f = Ok t -> abs g = Ok t -> ferr f = ferr g -> wf_frame f = true -> wf_frame g = true ->
  NoDup (ix f) -> NoDup (ix g) -> FRel f g.
Proof.
  intros Hf Hg He Hw1 Hw2 Hn1 Hn2. destruct (rel_of_abs f g t Hf Hg He Hw1 Hw2) as [[R1 R2 R3 R4 _] Hl].
  split; assumption.
Qed.

Lemma FRel_abs f g : FRel f g -> abs f = abs g.
Proof. intro H. apply (abs_of_rel _ f g (FRel_Rel f g H)); [apply H|apply incl_refl]. Qed.

Definition fsim (o1 o2 : outcome frame) : Prop :=
  match o1, o2 with Ok a, Ok b => FRel a b | Panic, Panic => True | _, _ => False end.

Lemma fsim_same_result o1 o2 : fsim o1 o2 -> same_result o1 o2.
Proof.
  unfold fsim, same_result. destruct o1 as [a| |], o2 as [b| |]; try tauto. intro H. split; [apply H|apply FRel_abs; exact H].
Qed.

Lemma FRel_apply ut f g is :
  FRel f g -> forallb (fun i => afn_typed (ifn i)) is = true ->
  upper_prog_okb ut f is = true -> upper_prog_okb ut g is = true ->
  fsim (apply ut f is) (apply ut g is).
Proof.
  intros HF Hfn Hu1 Hu2.
  pose proof (apply_sim ut _ (one2one_combine _ _ (fr_nd1 _ _ HF) (fr_nd2 _ _ HF)) is f g (FRel_Rel f g HF)
                (act_full f g (fr_len _ _ HF) (fr_nd1 _ _ HF) (fr_nd2 _ _ HF)) Hfn Hu1 Hu2) as H.
  unfold sim_out, fsim in *. destruct (apply ut f is) as [a| |], (apply ut g is) as [b| |]; try contradiction; [|exact I].
  destruct H as [HR [E1 E2]]. apply (Rel_FRel f g a b HF HR E1 E2).
Qed.

Lemma FRel_with_err f g : FRel f g -> FRel (with_err f) (with_err g).
Proof.
  intros [H1 H2 H3 H4 H5 H6 H7]. split; try assumption; try reflexivity; apply WF_with_err; assumption.
Qed.

Lemma contains_sim L f g m : cols_sim L (cols f) (cols g) -> contains f m = contains g m.
Proof.
  intro H. pose proof (lookup_sim L f g m H) as Hs. unfold contains, opt_sim in *.
  destruct (lookup f m) as [[k1 c1]|], (lookup g m) as [[k2 c2]|]; tauto.
Qed.

Lemma select_cols_sim L f g : cols_sim L (cols f) (cols g) -> forall names,
  cols_sim L (flat_map (fun n => match lookup_col f n with Some c => [(n, c)] | None => [] end) names)
             (flat_map (fun n => match lookup_col g n with Some c => [(n, c)] | None => [] end) names).
Proof.
  intros H names. induction names as [|n names IH]; [constructor|]. cbn [flat_map].
  pose proof (lookup_col_sim L f g n H) as Hs.
  destruct (lookup_col f n) as [c1|], (lookup_col g n) as [c2|]; try contradiction; [|exact IH].
  cbn [app]. constructor; [split; [reflexivity|exact Hs]|exact IH].
Qed.

Lemma contains_all_sim L f g names :
  cols_sim L (cols f) (cols g) -> forallb (contains f) names = forallb (contains g) names.
Proof.
  intro H. induction names as [|n names IH]; [reflexivity|]. cbn [forallb]. rewrite (contains_sim L f g n H), IH. reflexivity.
Qed.

Lemma FRel_select f g names : FRel f g -> FRel (select f names) (select g names).
Proof.
  intro HF. pose proof HF as [H1 H2 H3 H4 H5 H6 H7].
  pose proof (select_WF f names H3) as W1. pose proof (select_WF g names H4) as W2.
  unfold select in *. rewrite <- H1 in *. destruct (ferr f); [exact HF|].
  pose proof (contains_all_sim _ f g names H2) as Hc.
  rewrite <- Hc in *. destruct (negb (forallb (contains f) names)); [apply FRel_with_err; exact HF|].
  destruct names as [|n0 names0].
  - split; try assumption; try reflexivity; constructor.
  - split; cbn [ix cols ferr]; try assumption; [reflexivity|]. apply select_cols_sim. exact H2.
Qed.

Lemma FRel_drop f g names : FRel f g -> FRel (drop f names) (drop g names).
Proof.
  intro HF. unfold drop. rewrite <- (fr_err _ _ HF). destruct (ferr f); [exact HF|].
  destruct names as [|n0 names0]; [exact HF|].
  unfold col_names. rewrite <- (cols_sim_names _ _ _ (fr_cols _ _ HF)). apply FRel_select. exact HF.
Qed.

Lemma FRel_copy f g dst src : FRel f g -> FRel (copy f dst src) (copy g dst src).
Proof.
  intro HF. pose proof (copy_sim _ f g dst src (FRel_Rel f g HF)) as H. unfold sim_out in H.
  destruct H as [HR [E1 E2]]. apply (Rel_FRel f g _ _ HF HR E1 E2).
Qed.

Section EvalSim.
  Import QF.Model.Eval QF.Proofs.EvalFullTemp.
  Variable ut : upper_table.
  Variable cx : ctx.

  (* the functions of the evaluation context: recorded tables with typed results, no built-in names *)
  Definition ctx_fn_ok : bool := forallb (fun e => afn_typed (snd e) && no_builtin (snd e)) cx.
  Hypothesis Hcx : ctx_fn_ok = true.

  Lemma get_func_fn_ok t two op fn : get_func cx t two op = Some fn -> afn_typed fn = true /\ no_builtin fn = true.
  Proof.
    unfold get_func. intro H. destruct (find _ cx) as [e|] eqn:E; [|discriminate]. inversion H; subst.
    apply find_some in E as [Hin _]. unfold ctx_fn_ok in Hcx. rewrite forallb_forall in Hcx.
    apply andb_true_iff. apply Hcx. exact Hin.
  Qed.

  Lemma tgo_sim f g prefix : (forall m, contains f m = contains g m) -> forall k i, tgo f prefix k i = tgo g prefix k i.
  Proof.
    intros H. induction k as [|k IH]; intro i; [reflexivity|]. rewrite !tgo_S, H, IH. reflexivity.
  Qed.

  Lemma temp_sim f g prefix : FRel f g -> temp_col_name f prefix = temp_col_name g prefix.
  Proof.
    intro HF. rewrite !temp_col_name_tgo. apply tgo_sim. intro m. apply (contains_sim _ f g m (fr_cols _ _ HF)).
  Qed.

  Definition xsim (o1 o2 : outcome (frame * bytes)) : Prop :=
    match o1, o2 with
    | Ok (a, n1), Ok (b, n2) => n1 = n2 /\ FRel a b
    | Panic, Panic => True
    | _, _ => False
    end.

  Lemma one_instr_sim f g i :
    FRel f g -> afn_typed (ifn i) = true -> no_builtin (ifn i) = true -> fsim (apply ut f [i]) (apply ut g [i]).
  Proof.
    intros HF H1 H2. apply FRel_apply; [exact HF|cbn [forallb]; rewrite H1; reflexivity| |];
      apply no_builtin_upper_prog; cbn [forallb]; rewrite H2; reflexivity.
  Qed.

  Lemma exec_const_sim f g v : FRel f g -> xsim (exec_const ut f v) (exec_const ut g v).
  Proof.
    intro HF. unfold exec_const. rewrite <- (fr_err _ _ HF). destruct (ferr f); [split; [reflexivity|exact HF]|].
    rewrite <- (temp_sim f g p_const HF).
    destruct (EvalFull.temp_cases f p_const) as [[name ->]| ->]; cbn [obind]; [|exact I].
    pose proof (one_instr_sim f g (mkInstr (F0Const v) name [] []) HF eq_refl eq_refl) as H. unfold fsim in H.
    destruct (apply ut f _) as [a| |], (apply ut g _) as [b| |]; try contradiction; cbn [obind]; [|exact I].
    split; [reflexivity|exact H].
  Qed.

  Lemma get_fn_sim two f g col op :
    FRel f g -> snd (get_fn cx two f col op) = snd (get_fn cx two g col op)
                /\ FRel (fst (get_fn cx two f col op)) (fst (get_fn cx two g col op))
                /\ (forall fn, snd (get_fn cx two f col op) = Some fn -> afn_typed fn = true /\ no_builtin fn = true).
  Proof.
    intro HF. unfold get_fn. rewrite <- (fr_err _ _ HF).
    destruct (ferr f); [split; [reflexivity|split; [exact HF|discriminate]]|].
    pose proof (lookup_col_sim _ f g col (fr_cols _ _ HF)) as Hs.
    destruct (lookup_col f col) as [c1|], (lookup_col g col) as [c2|]; try contradiction;
      [|split; [reflexivity|split; [apply FRel_with_err; exact HF|discriminate]]].
    destruct Hs as [Ht _]. rewrite <- (col_ftype_sim c1 c2 Ht).
    destruct (get_func cx (col_ftype c1) two op) as [fn|] eqn:E; cbn [fst snd].
    - split; [reflexivity|]. split; [exact HF|]. intros fn0 H0. inversion H0; subst. apply (get_func_fn_ok _ _ _ _ E).
    - split; [reflexivity|]. split; [apply FRel_with_err; exact HF|discriminate].
  Qed.

  Lemma exec_fn_sim two prefix f g op col c1 c2 :
    FRel f g ->
    xsim (let '(f', fn) := get_fn cx two f col op in
          if ferr f' then Ok (f', []) else match fn with None => Panic | Some h =>
            do name <- temp_col_name f' prefix; do r <- apply ut f' [mkInstr h name c1 c2]; Ok (r, name) end)
         (let '(g', fn) := get_fn cx two g col op in
          if ferr g' then Ok (g', []) else match fn with None => Panic | Some h =>
            do name <- temp_col_name g' prefix; do r <- apply ut g' [mkInstr h name c1 c2]; Ok (r, name) end).
  Proof.
    intro HF. destruct (get_fn_sim two f g col op HF) as [Hfn [HF' Hok]].
    destruct (get_fn cx two f col op) as [f' fn1], (get_fn cx two g col op) as [g' fn2]. cbn [fst snd] in *. subst fn2.
    rewrite <- (fr_err _ _ HF'). destruct (ferr f'); [split; [reflexivity|exact HF']|].
    destruct fn1 as [h|]; [|exact I]. destruct (Hok h eq_refl) as [T1 T2].
    rewrite <- (temp_sim f' g' prefix HF').
    destruct (EvalFull.temp_cases f' prefix) as [[name ->]| ->]; cbn [obind]; [|exact I].
    pose proof (one_instr_sim f' g' (mkInstr h name c1 c2) HF' T1 T2) as H. unfold fsim in H.
    destruct (apply ut f' _) as [a| |], (apply ut g' _) as [b| |]; try contradiction; cbn [obind]; [|exact I].
    split; [reflexivity|exact H].
  Qed.

  Lemma exec_unary_sim f g op col : FRel f g -> xsim (exec_unary ut cx f op col) (exec_unary ut cx g op col).
  Proof. intro HF. exact (exec_fn_sim false p_unary f g op col col [] HF). Qed.

  Lemma exec_colcol_sim f g op c1 c2 : FRel f g -> xsim (exec_colcol ut cx f op c1 c2) (exec_colcol ut cx g op c1 c2).
  Proof. intro HF. exact (exec_fn_sim true p_colcol f g op c1 c1 c2 HF). Qed.

  Lemma execute_sim e : forall f g, FRel f g -> xsim (execute ut cx e f) (execute ut cx e g).
  Proof.
    induction e as [m|v|op c|op c v cf|op c1 c2|op e1 IH1|op l IHl r IHr|]; intros f g HF; cbn [execute].
    - split; [reflexivity|exact HF].
    - apply exec_const_sim. exact HF.
    - apply exec_unary_sim. exact HF.
    - rewrite <- (fr_err _ _ HF). destruct (ferr f); [split; [reflexivity|exact HF]|].
      pose proof (exec_const_sim f g v HF) as H1. unfold xsim in H1.
      destruct (exec_const ut f v) as [[r1 n1]| |], (exec_const ut g v) as [[r2 n2]| |]; try contradiction; cbn [obind]; [|exact I].
      destruct H1 as [<- HF1].
      assert (H2 : forall a b, xsim (exec_colcol ut cx r1 op a b) (exec_colcol ut cx r2 op a b)) by (intros; apply exec_colcol_sim; exact HF1).
      destruct cf.
      + specialize (H2 n1 c). unfold xsim in H2.
        destruct (exec_colcol ut cx r1 op n1 c) as [[r1' m1]| |], (exec_colcol ut cx r2 op n1 c) as [[r2' m2]| |];
          try contradiction; cbn [obind]; [|exact I].
        destruct H2 as [<- HF2]. split; [reflexivity|apply FRel_drop; exact HF2].
      + specialize (H2 c n1). unfold xsim in H2.
        destruct (exec_colcol ut cx r1 op c n1) as [[r1' m1]| |], (exec_colcol ut cx r2 op c n1) as [[r2' m2]| |];
          try contradiction; cbn [obind]; [|exact I].
        destruct H2 as [<- HF2]. split; [reflexivity|apply FRel_drop; exact HF2].
    - apply exec_colcol_sim. exact HF.
    - pose proof (IH1 f g HF) as H1. unfold xsim in H1.
      destruct (execute ut cx e1 f) as [[r1 n1]| |], (execute ut cx e1 g) as [[r2 n2]| |]; try contradiction; cbn [obind]; [|exact I].
      destruct H1 as [<- HF1].
      pose proof (exec_unary_sim r1 r2 op n1 HF1) as H2. unfold xsim in H2.
      destruct (exec_unary ut cx r1 op n1) as [[r1' m1]| |], (exec_unary ut cx r2 op n1) as [[r2' m2]| |];
        try contradiction; cbn [obind]; [|exact I].
      destruct H2 as [<- HF2]. split; [reflexivity|].
      rewrite <- (contains_sim _ f g n1 (fr_cols _ _ HF)). destruct (contains f n1); [exact HF2|apply FRel_drop; exact HF2].
    - pose proof (IHl f g HF) as H1. unfold xsim in H1.
      destruct (execute ut cx l f) as [[fl n1]| |], (execute ut cx l g) as [[gl n2]| |]; try contradiction; cbn [obind]; [|exact I].
      destruct H1 as [<- HF1].
      pose proof (IHr fl gl HF1) as H2. unfold xsim in H2.
      destruct (execute ut cx r fl) as [[fr m1]| |], (execute ut cx r gl) as [[gr m2]| |]; try contradiction; cbn [obind]; [|exact I].
      destruct H2 as [<- HF2].
      pose proof (exec_colcol_sim fr gr op n1 m1 HF2) as H3. unfold xsim in H3.
      destruct (exec_colcol ut cx fr op n1 m1) as [[f' k1]| |], (exec_colcol ut cx gr op n1 m1) as [[g' k2]| |];
        try contradiction; cbn [obind]; [|exact I].
      destruct H3 as [<- HF3]. split; [reflexivity|]. unfold drop_unless_original.
      assert (Hflt : filter (fun n => negb (contains f n)) [n1; m1] = filter (fun n => negb (contains g n)) [n1; m1]).
      { cbn [filter]. rewrite !(contains_sim _ f g _ (fr_cols _ _ HF)). reflexivity. }
      rewrite Hflt. apply FRel_drop. exact HF3.
    - rewrite <- (fr_err _ _ HF). destruct (ferr f); (split; [reflexivity|]); [exact HF|apply FRel_with_err; exact HF].
  Qed.

  (* C09 for Eval: every expression tree (valid or not), every destination, every pair of frames with the same
     table - column names repeated, shaped like temporaries, 10000 of them: both runs do the same *)
  Theorem eval_sim f g dst e : FRel f g -> fsim (eval ut cx f dst e) (eval ut cx g dst e).
  Proof.
    intro HF. unfold eval. rewrite <- (fr_err _ _ HF). destruct (ferr f); [exact HF|].
    pose proof (execute_sim e f g HF) as H. unfold xsim in H.
    destruct (execute ut cx e f) as [[r1 n1]| |], (execute ut cx e g) as [[r2 n2]| |]; try contradiction; cbn [obind]; [|exact I].
    destruct H as [<- HF1]. cbn [fsim].
    rewrite <- (contains_sim _ f g n1 (fr_cols _ _ HF)).
    destruct (negb (bytes_eqb n1 dst) && negb (contains f n1)); [apply FRel_drop|]; apply FRel_copy; exact HF1.
  Qed.

  Theorem eval_congr_full f g t dst e :
    abs f = Ok t -> abs g = Ok t -> ferr f = ferr g -> wf_frame f = true -> wf_frame g = true ->
    NoDup (ix f) -> NoDup (ix g) ->
    same_result (eval ut cx f dst e) (eval ut cx g dst e).
  Proof.
    intros Hf Hg He Hw1 Hw2 Hn1 Hn2. apply fsim_same_result. apply eval_sim.
    apply (FRel_of_abs f g t); assumption.
  Qed.
End EvalSim.

(* ================================================================== QFrame.Filter, directly on the executed model
   filter_congr above goes through the row-wise specification and inherits the premises of the C02 theorem.  Here
   the executed model itself - generated kernels, shared masks, leaf batching, orFrames, the Not merge - is run
   on the two frames side by side.  What remains as premise is what the implementation really reads beyond the
   logical table: the enum value lists (ranks).  *)
From QF Require Import Base.KernelSyntax Model.Bits Model.Kernel.

Section KernelSim.
  Variables env1 env2 : kenv.
  Hypothesis Hconst : k_const env1 = k_const env2.
  Hypothesis Hinset : forall v, k_inset env1 v = k_inset env2 v.
  Hypothesis Hmatch : forall s, k_match env1 s = k_match env2 s.
  Hypothesis Hbitset : k_bitset env1 = k_bitset env2.
  Hypothesis Hfn : forall vs, k_fn env1 vs = k_fn env2 vs.

  Definition cells_agree (p q : nat) : Prop := forall n, k_cell env1 n p = k_cell env2 n q.

  Lemma keval_sim p q : cells_agree p q -> forall e, keval env1 p e = keval env2 q e.
  Proof.
    intro Hc. fix IH 1. intro e.
    destruct e as [n| |z| | |a b|a b|a b|a b|a b|a b|a b|a b|a|a b|a|a|a|a|a|a|args|]; cbn [keval]; cbv zeta;
      try reflexivity;
      repeat match goal with |- context [keval env1 p ?x] => rewrite (IH x) end;
      try reflexivity.
    - apply Hc.
    - rewrite Hconst. reflexivity.
    - destruct (keval env2 q a) as [x| |]; cbn [obind]; try reflexivity. rewrite Hinset. reflexivity.
    - destruct (keval env2 q a) as [[| | |s| |]| |]; cbn [obind]; try reflexivity. rewrite Hmatch. reflexivity.
    - rewrite Hbitset. reflexivity.
    - assert (Hargs : (fix go (l : list kexpr) : outcome (list kval) :=
                         match l with [] => Ok [] | a :: l' => do v <- keval env1 p a; do vs <- go l'; Ok (v :: vs) end) args
                      = (fix go (l : list kexpr) : outcome (list kval) :=
                         match l with [] => Ok [] | a :: l' => do v <- keval env2 q a; do vs <- go l'; Ok (v :: vs) end) args).
      { induction args as [|a args IHa]; [reflexivity|]. rewrite (IH a), IHa. reflexivity. }
      rewrite Hargs. clear Hargs.
      match goal with |- obind ?X _ = obind ?X _ => destruct X as [vs| |] end; cbn [obind]; try reflexivity.
      rewrite Hfn. reflexivity.
  Qed.

  Lemma guarded_loop_sim c e : forall b i1 i2,
    Forall2 cells_agree i1 i2 -> guarded_loop env1 c e i1 b = guarded_loop env2 c e i2 b.
  Proof.
    induction b as [|x b IH]; intros i1 i2 H; [reflexivity|].
    inversion H as [|p q i1' i2' Hpq Hrest]; subst; cbn [guarded_loop].
    - rewrite (IH [] [] (Forall2_nil _)). reflexivity.
    - rewrite (IH i1' i2' Hrest). destruct (guarded_loop env2 c e i2' b) as [r| |]; cbn [obind]; try reflexivity.
      destruct x; [reflexivity|].
      assert (Hgo : match c with None => Ok true | Some ce => do v <- keval env1 p ce; as_bool v end
                    = match c with None => Ok true | Some ce => do v <- keval env2 q ce; as_bool v end).
      { destruct c as [ce|]; [rewrite (keval_sim p q Hpq ce)|]; reflexivity. }
      rewrite Hgo, (keval_sim p q Hpq e). reflexivity.
  Qed.

  Lemma run_kernel_sim d k i1 i2 b :
    Forall2 cells_agree i1 i2 -> run_kernel d env1 k i1 b = run_kernel d env2 k i2 b.
  Proof.
    intro H. unfold run_kernel.
    assert (Hd : forall k0, match k0 with
                            | KNoOp => Ok b | KFill v => Ok (map (fun _ => v) b)
                            | KGuarded _ e => guarded_loop env1 None e i1 b
                            | KGuardedIf _ c e => guarded_loop env1 (Some c) e i1 b
                            | KDelegate _ _ => Panic end
                          = match k0 with
                            | KNoOp => Ok b | KFill v => Ok (map (fun _ => v) b)
                            | KGuarded _ e => guarded_loop env2 None e i2 b
                            | KGuardedIf _ c e => guarded_loop env2 (Some c) e i2 b
                            | KDelegate _ _ => Panic end).
    { intros [| |pr e|pr c e|fn fl]; try reflexivity; apply guarded_loop_sim; exact H. }
    destruct k as [|v|pr e|pr c e|fn fl];
      [apply (Hd KNoOp)|apply (Hd (KFill v))|apply (Hd (KGuarded pr e))|apply (Hd (KGuardedIf pr c e))|].
    destruct (d fn) as [k'|]; [apply Hd|reflexivity].
  Qed.
End KernelSim.

(* ---- columns as the filter kernels see them *)

Definition paired (L : pairs) (i1 i2 : list nat) : Prop := Forall2 (fun p q => In (p, q) L) i1 i2.

(* two columns in the same position of the two frames: same type, same enum value list and strictness, the same
   kernel value (for enum columns: the same RANK) and the same cell at paired positions, the physical lengths *)
Definition fcol_sim (L : pairs) (n1 n2 : nat) (c1 c2 : coldata) : Prop :=
  col_type c1 = col_type c2 /\ enum_meta c1 = enum_meta c2 /\ col_len c1 = n1 /\ col_len c2 = n2
  /\ forall p q, In (p, q) L ->
       (exists v, raw_kval c1 p = Ok v /\ raw_kval c2 q = Ok v) /\ (exists x, cell_at c1 p = Ok x /\ cell_at c2 q = Ok x).

Lemma Forall2_impl_local {A B} (R S : A -> B -> Prop) l l' : (forall a b, R a b -> S a b) -> Forall2 R l l' -> Forall2 S l l'.
Proof. intros H F. induction F; constructor; auto. Qed.

Definition kc_agree (kc1 kc2 : nat -> nat -> outcome kval) (i1 i2 : list nat) : Prop :=
  Forall2 (fun p q => forall n, kc1 n p = kc2 n q) i1 i2.

Lemma run_sim letter fname env1 env2 i1 i2 b :
  k_const env1 = k_const env2 -> (forall v, k_inset env1 v = k_inset env2 v) ->
  (forall s, k_match env1 s = k_match env2 s) -> k_bitset env1 = k_bitset env2 ->
  (forall vs, k_fn env1 vs = k_fn env2 vs) -> kc_agree (k_cell env1) (k_cell env2) i1 i2 ->
  run letter fname env1 i1 b = run letter fname env2 i2 b.
Proof.
  intros H1 H2 H3 H4 H5 H6. unfold run. destruct (kernel_named GenKernels.g_kernels (kname letter fname)); [|reflexivity].
  apply (run_kernel_sim env1 env2 H1 H2 H3 H4 H5). exact H6.
Qed.

Lemma run_tbl_sim t letter cmp env1 env2 i1 i2 b :
  k_const env1 = k_const env2 -> (forall v, k_inset env1 v = k_inset env2 v) ->
  (forall s, k_match env1 s = k_match env2 s) -> k_bitset env1 = k_bitset env2 ->
  (forall vs, k_fn env1 vs = k_fn env2 vs) -> kc_agree (k_cell env1) (k_cell env2) i1 i2 ->
  run_tbl t letter cmp env1 i1 b = run_tbl t letter cmp env2 i2 b.
Proof. intros. unfold run_tbl. destruct (assocb cmp t); [apply run_sim; assumption|reflexivity]. Qed.

Section ColFilterSim.
  Variable L : pairs.
  Variables n1 n2 : nat.
  Variables i1 i2 : list nat.
  Hypothesis Hpair : paired L i1 i2.

  Lemma base_agree x1 x2 y1 y2 k :
    fcol_sim L n1 n2 x1 x2 ->
    match y1, y2 with None, None => True | Some a, Some b => fcol_sim L n1 n2 a b | _, _ => False end ->
    kc_agree (k_cell (base_env x1 y1 k)) (k_cell (base_env x2 y2 k)) i1 i2.
  Proof.
    intros Hx Hy. unfold kc_agree. eapply Forall2_impl_local; [|exact Hpair]. intros p q Hpq n. cbn [k_cell base_env].
    destruct n as [|n].
    - destruct Hx as [_ [_ [_ [_ Hx]]]]. destruct (Hx p q Hpq) as [[v [V1 V2]] _]. congruence.
    - destruct y1 as [a|], y2 as [b|]; try contradiction; [|reflexivity].
      destruct Hy as [_ [_ [_ [_ Hy]]]]. destruct (Hy p q Hpq) as [[v [V1 V2]] _]. congruence.
  Qed.

  Lemma ptr_agree1 c1 c2 tbl : fcol_sim L n1 n2 c1 c2 -> kc_agree (k_cell (fn1_env c1 tbl)) (k_cell (fn1_env c2 tbl)) i1 i2.
  Proof.
    intros [_ [_ [_ [_ Hx]]]]. unfold kc_agree. eapply Forall2_impl_local; [|exact Hpair]. intros p q Hpq n. cbn [k_cell fn1_env].
    destruct n; [|reflexivity]. unfold ptr_kval. destruct (Hx p q Hpq) as [_ [x [X1 X2]]]. rewrite X1, X2. reflexivity.
  Qed.

  Lemma ptr_agree2 c1 c2 e1 e2 tbl : fcol_sim L n1 n2 c1 c2 -> fcol_sim L n1 n2 e1 e2 ->
    kc_agree (k_cell (fn2_env c1 e1 tbl)) (k_cell (fn2_env c2 e2 tbl)) i1 i2.
  Proof.
    intros [_ [_ [_ [_ Hx]]]] [_ [_ [_ [_ Hy]]]]. unfold kc_agree. eapply Forall2_impl_local; [|exact Hpair].
    intros p q Hpq n. cbn [k_cell fn2_env]. unfold ptr_kval.
    destruct (Hx p q Hpq) as [_ [x [X1 X2]]]. destruct (Hy p q Hpq) as [_ [y [Y1 Y2]]].
    destruct n; [rewrite X1, X2|rewrite Y1, Y2]; reflexivity.
  Qed.

  Definition rarg_sim (a1 a2 : rarg) : Prop :=
    match a1, a2 with
    | RConst x, RConst y => x = y
    | RCol c1, RCol c2 => fcol_sim L n1 n2 c1 c2
    | _, _ => False
    end.

  Ltac env_eqs := try reflexivity; try (intros; reflexivity).

  Lemma col_filter_sim mt c1 c2 cmp a1 a2 b :
    fcol_sim L n1 n2 c1 c2 -> rarg_sim a1 a2 ->
    col_filter mt c1 i1 cmp a1 b = col_filter mt c2 i2 cmp a2 b.
  Proof.
    intros Hc Ha. pose proof Hc as [Ht [Hm [Hl1 [Hl2 _]]]].
    assert (Hft : forall t, fn_type_ok c1 t = fn_type_ok c2 t) by (intro t; unfold fn_type_ok, col_ftype; rewrite Ht; reflexivity).
    assert (Hlet : letter_of c1 = letter_of c2) by (destruct c1, c2; try discriminate Ht; reflexivity).
    destruct cmp as [s|t tbl|t tbl|]; cbn [col_filter]; [| | |reflexivity].
    - (* built in comparators *)
      destruct c1 as [d1|d1|d1|d1|d1 v1 s1], c2 as [d2|d2|d2|d2|d2 v2 s2]; try discriminate Ht.
      + unfold i_filter_builtin. destruct a1 as [x|e1], a2 as [y|e2]; try contradiction; cbn [rarg_sim] in Ha.
        * subst y. destruct (int_comp x) as [z|]; [apply run_tbl_sim; env_eqs; apply base_agree; [exact Hc|exact I]|].
          destruct (int_set x) as [st|]; [apply run_tbl_sim; env_eqs; apply (base_agree _ _ None None VBad); [exact Hc|exact I]|].
          destruct x; try reflexivity. apply run_tbl_sim; env_eqs; apply base_agree; [exact Hc|exact I].
        * pose proof Ha as [Hte _]. destruct e1, e2; try discriminate Hte; try reflexivity.
          apply run_tbl_sim; env_eqs; apply base_agree; [exact Hc|exact Ha].
      + unfold f_filter_builtin. destruct a1 as [x|e1], a2 as [y|e2]; try contradiction; cbn [rarg_sim] in Ha.
        * subst y. destruct x; try reflexivity.
          -- destruct (f_isnan b0); [reflexivity|]. apply run_tbl_sim; env_eqs; apply base_agree; [exact Hc|exact I].
          -- apply run_tbl_sim; env_eqs; apply base_agree; [exact Hc|exact I].
        * pose proof Ha as [Hte _]. destruct e1, e2; try discriminate Hte; try reflexivity.
          apply run_tbl_sim; env_eqs; apply base_agree; [exact Hc|exact Ha].
      + unfold b_filter_builtin. destruct a1 as [x|e1], a2 as [y|e2]; try contradiction; cbn [rarg_sim] in Ha.
        * subst y. destruct x; try reflexivity. apply run_tbl_sim; env_eqs; apply base_agree; [exact Hc|exact I].
        * pose proof Ha as [Hte _]. destruct e1, e2; try discriminate Hte; try reflexivity.
          apply run_tbl_sim; env_eqs; apply base_agree; [exact Hc|exact Ha].
      + unfold s_filter_builtin. destruct a1 as [x|e1], a2 as [y|e2]; try contradiction; cbn [rarg_sim] in Ha.
        * subst y. destruct (norm_strs x); try reflexivity.
          -- destruct (assocb s GenTables.t_s_filter1) as [fname|]; [|reflexivity].
             destruct (kernel_named GenKernels.g_kernels (kname L_s fname)) as [[| | | |fn flag]|] eqn:Ek;
               try (apply run_sim; env_eqs; apply base_agree; [exact Hc|exact I]).
             destruct (find_matcher mt s0 flag) as [[m|]|]; try reflexivity.
             apply run_sim; env_eqs. cbn [k_cell]. apply base_agree; [exact Hc|exact I].
          -- apply run_tbl_sim; env_eqs. cbn [k_cell str_set_env]. apply base_agree; [exact Hc|exact I].
          -- apply run_tbl_sim; env_eqs; apply base_agree; [exact Hc|exact I].
        * pose proof Ha as [Hte _]. destruct e1, e2; try discriminate Hte; try reflexivity.
          apply run_tbl_sim; env_eqs; apply base_agree; [exact Hc|exact Ha].
      + cbn [enum_meta] in Hm. inversion Hm; subst v2 s2.
        unfold e_filter_builtin. destruct a1 as [x|e1], a2 as [y|e2]; try contradiction; cbn [rarg_sim] in Ha.
        * subst y. destruct (norm_strs x); try reflexivity.
          -- destruct (assocb s GenTables.t_e_filter1) as [fname|].
             ++ destruct (find_value v1 s0 0%N) as [r|]; [|reflexivity].
                apply run_sim; env_eqs; apply base_agree; [exact Hc|exact I].
             ++ destruct (assocb s GenTables.t_e_filterLike) as [fname|]; [|reflexivity].
                destruct (is_like fname) as [flag|]; [|reflexivity].
                destruct (find_matcher mt s0 flag) as [[m|]|]; try reflexivity.
                apply run_sim; env_eqs. cbn [k_cell with_bitset]. apply base_agree; [exact Hc|exact I].
          -- destruct (assocb s GenTables.t_e_filterN); [|reflexivity].
             apply run_sim; env_eqs. cbn [k_cell with_bitset]. apply base_agree; [exact Hc|exact I].
          -- apply run_tbl_sim; env_eqs; apply base_agree; [exact Hc|exact I].
        * pose proof Ha as [Hte [Hme [Hle1 [Hle2 _]]]]. destruct e1 as [x1|x1|x1|x1|x1 w1 t1], e2 as [x2|x2|x2|x2|x2 w2 t2];
            try discriminate Hte; try reflexivity.
          cbn [enum_meta] in Hme. inversion Hme; subst w2 t2. cbn [col_len] in *.
          replace (equal_types v1 (length d2) w1 (length x2)) with (equal_types v1 (length d1) w1 (length x1))
            by (unfold equal_types; rewrite Hl1, Hl2, Hle1, Hle2, !Nat.eqb_refl; reflexivity).
          destruct (equal_types v1 (length d1) w1 (length x1)); [|reflexivity].
          apply run_tbl_sim; env_eqs. apply base_agree; [exact Hc|].
          destruct Ha as [A1 [A2 [A3 [A4 A5]]]]. split; [reflexivity|]. split; [reflexivity|]. split; [exact A3|]. split; [exact A4|exact A5].
    - rewrite <- Hft, <- Hlet. destruct (fn_type_ok c1 t); [|reflexivity].
      apply run_sim; env_eqs. apply ptr_agree1. exact Hc.
    - rewrite <- Hft, <- Hlet. destruct (fn_type_ok c1 t); [|reflexivity].
      destruct a1 as [x|e1], a2 as [y|e2]; try contradiction; [reflexivity|]. cbn [rarg_sim] in Ha.
      pose proof Ha as [Hte _]. rewrite <- Ht, <- Hte. destruct (ctype_eqb (col_type c1) (col_type e1)); [|reflexivity].
      apply run_sim; env_eqs. apply ptr_agree2; assumption.
  Qed.
End ColFilterSim.

(* ---- the frame level: leaves, masks, index merging *)

Lemma paired_combine (i1 i2 : list nat) : length i1 = length i2 -> paired (combine i1 i2) i1 i2.
Proof.
  revert i2. induction i1 as [|p i1 IH]; intros [|q i2] H; try discriminate; [constructor|].
  constructor; [left; reflexivity|]. eapply Forall2_impl_local; [|apply IH; simpl in H; lia].
  intros a b Hab. right. exact Hab.
Qed.

Lemma paired_length L i1 i2 : paired L i1 i2 -> length i1 = length i2.
Proof. induction 1; simpl; congruence. Qed.

Lemma fcol_float_slice L n1 n2 d1 d2 :
  fcol_sim L n1 n2 (ICol d1) (ICol d2) -> fcol_sim L n1 n2 (FCol (float_slice d1)) (FCol (float_slice d2)).
Proof.
  intros [_ [_ [H1 [H2 H]]]]. cbn [col_len] in *. unfold float_slice.
  split; [reflexivity|]. split; [reflexivity|]. split; [cbn [col_len]; rewrite map_length; exact H1|].
  split; [cbn [col_len]; rewrite map_length; exact H2|].
  intros p q Hpq. destruct (H p q Hpq) as [[v [V1 V2]] _]. cbn [raw_kval cell_at] in *. unfold idx in *.
  rewrite !nth_error_map.
  destruct (nth_error d1 p) as [z1|]; cbn [of_option obind] in V1; [|discriminate].
  destruct (nth_error d2 q) as [z2|]; cbn [of_option obind] in V2; [|discriminate].
  assert (z1 = z2) by congruence. subst z2. cbn [option_map of_option obind].
  split; eexists; split; reflexivity.
Qed.

Section FrameFilterSim.
  Variable mt : matcher_table.
  Variables f g : frame.
  Variable L : pairs.
  Hypothesis H121 : one2one L.
  (* every name resolves in the two frames to columns that look alike to the kernels *)
  Hypothesis Hcols : forall name,
    match lookup_col f name, lookup_col g name with
    | None, None => True
    | Some c1, Some c2 => fcol_sim L (phys_len f) (phys_len g) c1 c2
    | _, _ => False
    end.

  (* frames derived from f and g by filtering: same columns, paired row indexes *)
  Definition Sub (a b : frame) : Prop :=
    cols a = cols f /\ cols b = cols g /\ ferr a = ferr b /\ paired L (ix a) (ix b).

  Lemma Sub_lookup a b name : Sub a b ->
    match lookup_col a name, lookup_col b name with
    | None, None => True
    | Some c1, Some c2 => fcol_sim L (phys_len f) (phys_len g) c1 c2
    | _, _ => False
    end.
  Proof.
    intros [Ha [Hb _]]. rewrite (lookup_col_cols_eq f a name Ha), (lookup_col_cols_eq g b name Hb). apply Hcols.
  Qed.

  Lemma filter_leaf_sim a b l m : Sub a b -> filter_leaf mt a l m = filter_leaf mt b l m.
  Proof.
    intro HS. rewrite !filter_leaf_unfold. pose proof (Sub_lookup a b (lcol l) HS) as Hl.
    destruct (lookup_col a (lcol l)) as [s1|], (lookup_col b (lcol l)) as [s2|]; try contradiction; [|reflexivity].
    destruct HS as [Ha [Hb [He Hp]]].
    assert (Hops : match leaf_operands a l s1, leaf_operands b l s2 with
                   | Ok (s1', a1), Ok (s2', a2) =>
                       fcol_sim L (phys_len f) (phys_len g) s1' s2' /\ rarg_sim L (phys_len f) (phys_len g) a1 a2
                   | Fail, Fail => True
                   | _, _ => False
                   end).
    { unfold leaf_operands. destruct (larg l) eqn:Ea; try (split; [exact Hl|reflexivity]).
      pose proof (Sub_lookup a b n (conj Ha (conj Hb (conj He Hp)))) as Hn.
      destruct (lookup_col a n) as [e1|], (lookup_col b n) as [e2|]; try contradiction; [|exact I].
      pose proof Hl as [Ht _]. pose proof Hn as [Hte _].
      destruct s1, s2; try discriminate Ht; destruct e1, e2; try discriminate Hte;
        try (split; [exact Hl|exact Hn]).
      - split; [apply fcol_float_slice; exact Hl|exact Hn].
      - split; [exact Hl|cbn [rarg_sim]; apply fcol_float_slice; exact Hn]. }
    destruct (leaf_operands a l s1) as [[s1' a1]| |], (leaf_operands b l s2) as [[s2' a2]| |]; try contradiction; [|reflexivity].
    cbn [obind]. destruct Hops as [Hs Hr].
    assert (Heq : forall cmp m0, col_filter mt s1' (ix a) cmp a1 m0 = col_filter mt s2' (ix b) cmp a2 m0).
    { intros cmp m0. apply (col_filter_sim L _ _ (ix a) (ix b) Hp mt s1' s2' cmp a1 a2 m0 Hs Hr). }
    unfold leaf_body. destruct (linv l); [|apply Heq].
    destruct (lcmp l) as [sc|t tbl|t tbl|]; try (rewrite Heq; reflexivity).
    destruct (is_order_comparator sc); [rewrite Heq; reflexivity|].
    destruct (assocb sc GenTables.t_filter_inverse) as [inv|]; rewrite !Heq; reflexivity.
  Qed.

  Lemma index_filter_sim : forall (m : list bool) i1 i2, paired L i1 i2 ->
    match index_filter i1 m, index_filter i2 m with
    | Ok r1, Ok r2 => paired L r1 r2
    | Panic, Panic => True
    | _, _ => False
    end.
  Proof.
    induction m as [|x m IH]; intros i1 i2 H; cbn [index_filter]; [constructor|].
    inversion H as [|p q i1' i2' Hpq Hrest]; subst.
    - destruct x; [exact I|]. apply (IH [] [] (Forall2_nil _)).
    - specialize (IH i1' i2' Hrest).
      destruct (index_filter i1' m) as [r1| |], (index_filter i2' m) as [r2| |]; try contradiction; cbn [obind]; [|exact I].
      destruct x; [constructor; assumption|exact IH].
  Qed.

  Definition sub_out (o1 o2 : outcome frame) : Prop :=
    match o1, o2 with
    | Ok a, Ok b => Sub a b
    | Panic, Panic => True
    | _, _ => False
    end.

  Lemma Sub_with_err a b : Sub a b -> Sub (with_err a) (with_err b).
  Proof. intros [H1 [H2 [H3 H4]]]. repeat split; assumption. Qed.

  Lemma Sub_with_ix a b i j : Sub a b -> paired L i j -> Sub (with_ix a i) (with_ix b j).
  Proof. intros [H1 [H2 [H3 H4]]] H. repeat split; assumption. Qed.

  Lemma filter_leaves_sim a b ls : Sub a b -> sub_out (filter_leaves mt a ls) (filter_leaves mt b ls).
  Proof.
    intro HS. pose proof HS as [Ha [Hb [He Hp]]]. unfold filter_leaves. rewrite <- He. destruct (ferr a); [exact HS|].
    assert (Hfold : forall ls0 (acc : outcome (list bool)),
              fold_left (fun acc0 x => do m <- acc0; filter_leaf mt a x m) ls0 acc
              = fold_left (fun acc0 x => do m <- acc0; filter_leaf mt b x m) ls0 acc).
    { induction ls0 as [|l ls0 IH]; intro acc; [reflexivity|]. cbn [fold_left].
      assert (E : (do m <- acc; filter_leaf mt a l m) = (do m <- acc; filter_leaf mt b l m)).
      { destruct acc as [m| |]; cbn [obind]; try reflexivity. apply filter_leaf_sim. exact HS. }
      rewrite E. apply IH. }
    unfold ofold. rewrite Hfold, (map_const_repeat false (ix a)), (paired_length L _ _ Hp), <- (map_const_repeat false (ix b)).
    destruct (fold_left _ ls (Ok (map (fun _ => false) (ix b)))) as [m| |]; [|apply Sub_with_err; exact HS|exact I].
    pose proof (index_filter_sim m (ix a) (ix b) Hp) as Hi.
    destruct (index_filter (ix a) m) as [r1| |], (index_filter (ix b) m) as [r2| |]; try contradiction; cbn [obind]; [|exact I].
    apply Sub_with_ix; assumption.
  Qed.

  (* ---- index merging: orFrames and the Not merge compare positions for equality; paired positions are equal in
     the one frame exactly when they are equal in the other *)
  Lemma eqb_pair x1 x2 p1 p2 : In (x1, x2) L -> In (p1, p2) L -> Nat.eqb x1 p1 = Nat.eqb x2 p2.
  Proof.
    intros Hx Hp. destruct (H121 x1 x2 p1 p2 Hx Hp) as [A B].
    destruct (Nat.eqb x1 p1) eqn:E1, (Nat.eqb x2 p2) eqn:E2; try reflexivity.
    - apply Nat.eqb_eq in E1. apply Nat.eqb_neq in E2. exfalso. apply E2. apply A. exact E1.
    - apply Nat.eqb_neq in E1. apply Nat.eqb_eq in E2. exfalso. apply E1. apply B. exact E2.
  Qed.

  Lemma or_merge_sim : forall o1 o2, paired L o1 o2 -> forall l1 l2 r1 r2,
    paired L l1 l2 -> paired L r1 r2 -> paired L (or_merge o1 l1 r1) (or_merge o2 l2 r2).
  Proof.
    induction 1 as [|p1 p2 o1 o2 Hp Ho IH]; intros l1 l2 r1 r2 Hl Hr; cbn [or_merge]; [constructor|].
    assert (Hleft : exists (fl : bool) l1' l2', paired L l1' l2'
              /\ match l1 with x :: l' => if Nat.eqb x p1 then (true, l') else (false, l1) | [] => (false, l1) end = (fl, l1')
              /\ match l2 with x :: l' => if Nat.eqb x p2 then (true, l') else (false, l2) | [] => (false, l2) end = (fl, l2')).
    { inversion Hl as [|x1 x2 l1' l2' Hx Hl']; subst.
      - exists false, [], []. repeat split; constructor.
      - rewrite (eqb_pair x1 x2 p1 p2 Hx Hp). destruct (Nat.eqb x2 p2).
        + exists true, l1', l2'. repeat split. exact Hl'.
        + exists false, (x1 :: l1'), (x2 :: l2'). repeat split. exact Hl. }
    assert (Hright : exists (fr : bool) r1' r2', paired L r1' r2'
              /\ match r1 with x :: r' => if Nat.eqb x p1 then (true, r') else (false, r1) | [] => (false, r1) end = (fr, r1')
              /\ match r2 with x :: r' => if Nat.eqb x p2 then (true, r') else (false, r2) | [] => (false, r2) end = (fr, r2')).
    { inversion Hr as [|x1 x2 r1' r2' Hx Hr']; subst.
      - exists false, [], []. repeat split; constructor.
      - rewrite (eqb_pair x1 x2 p1 p2 Hx Hp). destruct (Nat.eqb x2 p2).
        + exists true, r1', r2'. repeat split. exact Hr'.
        + exists false, (x1 :: r1'), (x2 :: r2'). repeat split. exact Hr. }
    destruct Hleft as [fl [l1' [l2' [Hl' [E1 E2]]]]]. destruct Hright as [fr [r1' [r2' [Hr' [E3 E4]]]]].
    rewrite E1, E2, E3, E4. destruct (fl || fr); [constructor; [exact Hp|]|]; apply IH; assumption.
  Qed.

  Lemma not_merge_sim : forall o1 o2, paired L o1 o2 -> forall s1 s2,
    paired L s1 s2 -> paired L (not_merge o1 s1) (not_merge o2 s2).
  Proof.
    induction 1 as [|p1 p2 o1 o2 Hp Ho IH]; intros s1 s2 Hs; cbn [not_merge]; [constructor|].
    inversion Hs as [|x1 x2 s1' s2' Hx Hs']; subst.
    - constructor; [exact Hp|]. apply IH. constructor.
    - rewrite (eqb_pair x1 x2 p1 p2 Hx Hp). destruct (Nat.eqb x2 p2); [apply IH; exact Hs'|].
      constructor; [exact Hp|]. apply IH. exact Hs.
  Qed.

  Definition opt_sub (x y : option frame) : Prop :=
    match x, y with None, None => True | Some a, Some b => Sub a b | _, _ => False end.

  Lemma or_frames_sim a b x y r1 r2 : Sub a b -> opt_sub x y -> Sub r1 r2 -> Sub (or_frames a x r1) (or_frames b y r2).
  Proof.
    intros HS Hxy Hr. unfold or_frames. destruct x as [l1|], y as [l2|]; try contradiction; [|exact Hr].
    cbn [opt_sub] in Hxy. pose proof Hxy as [_ [_ [El Pl]]]. pose proof Hr as [_ [_ [Er Pr]]].
    rewrite <- El. destruct (ferr l1); [exact Hxy|]. rewrite <- Er. destruct (ferr r1); [exact Hr|].
    apply Sub_with_ix; [exact HS|]. apply or_merge_sim; [apply HS|exact Pl|exact Pr].
  Qed.

  Section Loops.
    Variable cf : clause -> frame -> outcome frame.

    Lemma and_loop_sim : forall cs, Forall (fun c => forall a b, Sub a b -> sub_out (cf c a) (cf c b)) cs ->
      forall a b, Sub a b -> sub_out (and_loop cf cs a) (and_loop cf cs b).
    Proof.
      induction 1 as [|c cs Hc _ IH]; intros a b HS; cbn [and_loop]; [exact HS|].
      specialize (Hc a b HS). unfold sub_out in Hc.
      destruct (cf c a) as [a'| |], (cf c b) as [b'| |]; try contradiction; cbn [obind]; [|exact I].
      apply IH. exact Hc.
    Qed.

    Lemma or_loop_sim a b : Sub a b -> forall cs,
      Forall (fun c => forall a0 b0, Sub a0 b0 -> sub_out (cf c a0) (cf c b0)) cs ->
      forall pending x y, opt_sub x y ->
      sub_out (or_loop mt cf a cs pending x) (or_loop mt cf b cs pending y).
    Proof.
      intros HS cs Hcs. induction Hcs as [|c cs Hc _ IH]; intros pending x y Hxy.
      - (* the end of the list: flush the pending leaves *)
        cbn [or_loop]. destruct pending as [|l0 pending0].
        + cbn [obind]. destruct x as [r1|], y as [r2|]; try contradiction; [exact Hxy|exact I].
        + pose proof (filter_leaves_sim a b (rev (l0 :: pending0)) HS) as Hf. unfold sub_out in Hf.
          destruct (filter_leaves mt a (rev (l0 :: pending0))) as [n1| |],
                   (filter_leaves mt b (rev (l0 :: pending0))) as [n2| |]; try contradiction; cbn [obind]; [|exact I].
          apply or_frames_sim; assumption.
      - assert (Hflush : match (match pending with
                                | [] => Ok x
                                | _ => do nf <- filter_leaves mt a (rev pending); Ok (Some (or_frames a x nf)) end),
                               (match pending with
                                | [] => Ok y
                                | _ => do nf <- filter_leaves mt b (rev pending); Ok (Some (or_frames b y nf)) end) with
                         | Ok x', Ok y' => opt_sub x' y'
                         | Panic, Panic => True
                         | _, _ => False
                         end).
        { destruct pending as [|l0 pending0]; [exact Hxy|].
          pose proof (filter_leaves_sim a b (rev (l0 :: pending0)) HS) as Hf. unfold sub_out in Hf.
          destruct (filter_leaves mt a (rev (l0 :: pending0))) as [n1| |],
                   (filter_leaves mt b (rev (l0 :: pending0))) as [n2| |]; try contradiction; cbn [obind]; [|exact I].
          cbn [opt_sub]. apply or_frames_sim; assumption. }
        assert (Hstep : forall c0, c0 = c ->
                  sub_out (do acc' <- (match pending with
                                       | [] => Ok x
                                       | _ => do nf <- filter_leaves mt a (rev pending); Ok (Some (or_frames a x nf)) end);
                           do nf <- cf c0 a; or_loop mt cf a cs [] (Some (or_frames a acc' nf)))
                          (do acc' <- (match pending with
                                       | [] => Ok y
                                       | _ => do nf <- filter_leaves mt b (rev pending); Ok (Some (or_frames b y nf)) end);
                           do nf <- cf c0 b; or_loop mt cf b cs [] (Some (or_frames b acc' nf)))).
        { intros c0 ->.
          destruct (match pending with [] => Ok x | _ => _ end) as [x'| |],
                   (match pending with [] => Ok y | _ => _ end) as [y'| |]; try contradiction; cbn [obind]; [|exact I].
          specialize (Hc a b HS). unfold sub_out in Hc.
          destruct (cf c a) as [n1| |], (cf c b) as [n2| |]; try contradiction; cbn [obind]; [|exact I].
          apply IH. cbn [opt_sub]. apply or_frames_sim; assumption. }
        destruct c as [l| | | |]; cbn [or_loop]; try (apply Hstep; reflexivity).
        apply IH. exact Hxy.
    Qed.
  End Loops.

  Theorem clause_filter_sim c : forall a b, Sub a b -> sub_out (clause_filter mt c a) (clause_filter mt c b).
  Proof.
    induction c as [l| |c IH|cs IH|cs IH] using clause_ind2; intros a b HS; pose proof HS as [_ [_ [He Hp]]]; cbn [clause_filter].
    - apply filter_leaves_sim. exact HS.
    - exact HS.
    - rewrite <- He. destruct (ferr a); [exact HS|].
      destruct (clause_err (CNot c)); [apply Sub_with_err; exact HS|].
      assert (Hgen : sub_out (do nf <- clause_filter mt c a; if ferr nf then Ok nf else Ok (with_ix a (not_merge (ix a) (ix nf))))
                             (do nf <- clause_filter mt c b; if ferr nf then Ok nf else Ok (with_ix b (not_merge (ix b) (ix nf))))).
      { specialize (IH a b HS). unfold sub_out in IH.
        destruct (clause_filter mt c a) as [n1| |], (clause_filter mt c b) as [n2| |]; try contradiction; cbn [obind]; [|exact I].
        pose proof IH as [_ [_ [En Pn]]]. rewrite <- En. destruct (ferr n1); [exact IH|].
        apply Sub_with_ix; [exact HS|]. apply not_merge_sim; assumption. }
      destruct c as [l| | | |]; try exact Hgen. apply filter_leaves_sim. exact HS.
    - rewrite <- He. destruct (ferr a); [exact HS|].
      destruct (clause_err (CAnd cs)); [apply Sub_with_err; exact HS|].
      apply and_loop_sim; [exact IH|exact HS].
    - rewrite <- He. destruct (ferr a); [exact HS|].
      destruct (clause_err (COr cs)); [apply Sub_with_err; exact HS|].
      apply or_loop_sim; [exact HS|exact IH|exact I].
  Qed.

  Theorem frame_filter_sim c a b : Sub a b -> sub_out (frame_filter mt a c) (frame_filter mt b c).
  Proof.
    intro HS. unfold frame_filter. pose proof HS as [_ [_ [He _]]]. rewrite <- He.
    destruct (ferr a); [exact HS|apply clause_filter_sim; exact HS].
  Qed.
End FrameFilterSim.

(* ---- the index Filter returns is duplicate free when the frame's is (it is a sub-sequence of it) *)

Lemma index_filter_in : forall m i r x, index_filter i m = Ok r -> In x r -> In x i.
Proof.
  induction m as [|b m IH]; intros i r x H Hx; cbn [index_filter] in H; [inversion H; subst; destruct Hx|].
  destruct i as [|p i].
  - destruct b; [discriminate|]. apply (IH [] r x H Hx).
  - destruct (index_filter i m) as [r'| |] eqn:E; cbn [obind] in H; try discriminate. inversion H; subst r.
    destruct b; [destruct Hx as [<-|Hx]; [left; reflexivity|right; apply (IH i r' x E Hx)]|right; apply (IH i r' x E Hx)].
Qed.

Lemma index_filter_nodup : forall m i r, NoDup i -> index_filter i m = Ok r -> NoDup r.
Proof.
  induction m as [|b m IH]; intros i r Hnd H; cbn [index_filter] in H; [inversion H; constructor|].
  destruct i as [|p i].
  - destruct b; [discriminate|]. apply (IH [] r Hnd H).
  - inversion Hnd as [|? ? Hnotin Hnd']; subst.
    destruct (index_filter i m) as [r'| |] eqn:E; cbn [obind] in H; try discriminate. inversion H; subst r.
    destruct b; [|apply (IH i r' Hnd' E)]. constructor; [|apply (IH i r' Hnd' E)].
    intro Hin. apply Hnotin. apply (index_filter_in m i r' p E Hin).
Qed.

Lemma or_merge_in : forall orig l r x, In x (or_merge orig l r) -> In x orig.
Proof.
  induction orig as [|p orig IH]; intros l r x H; cbn [or_merge] in H; [destruct H|].
  destruct (match l with x0 :: l' => if Nat.eqb x0 p then (true, l') else (false, l) | [] => (false, l) end) as [fl l'].
  destruct (match r with x0 :: r' => if Nat.eqb x0 p then (true, r') else (false, r) | [] => (false, r) end) as [fr r'].
  destruct (fl || fr); [destruct H as [<-|H]; [left; reflexivity|]|]; right; apply (IH l' r' x H).
Qed.

Lemma or_merge_nodup : forall orig l r, NoDup orig -> NoDup (or_merge orig l r).
Proof.
  induction orig as [|p orig IH]; intros l r H; cbn [or_merge]; [constructor|].
  inversion H as [|? ? Hnotin Hnd]; subst.
  destruct (match l with x0 :: l' => if Nat.eqb x0 p then (true, l') else (false, l) | [] => (false, l) end) as [fl l'].
  destruct (match r with x0 :: r' => if Nat.eqb x0 p then (true, r') else (false, r) | [] => (false, r) end) as [fr r'].
  destruct (fl || fr); [|apply IH; exact Hnd]. constructor; [|apply IH; exact Hnd].
  intro Hin. apply Hnotin. apply (or_merge_in orig l' r' p Hin).
Qed.

Lemma not_merge_in : forall orig s x, In x (not_merge orig s) -> In x orig.
Proof.
  induction orig as [|p orig IH]; intros s x H; cbn [not_merge] in H; [destruct H|].
  destruct s as [|y s'].
  - destruct H as [<-|H]; [left; reflexivity|right; apply (IH [] x H)].
  - destruct (Nat.eqb y p); [right; apply (IH s' x H)|].
    destruct H as [<-|H]; [left; reflexivity|right; apply (IH (y :: s') x H)].
Qed.

Lemma not_merge_nodup : forall orig s, NoDup orig -> NoDup (not_merge orig s).
Proof.
  induction orig as [|p orig IH]; intros s H; cbn [not_merge]; [constructor|].
  inversion H as [|? ? Hnotin Hnd]; subst.
  destruct s as [|y s'].
  - constructor; [intro Hin; apply Hnotin; apply (not_merge_in orig [] p Hin)|apply IH; exact Hnd].
  - destruct (Nat.eqb y p); [apply IH; exact Hnd|].
    constructor; [intro Hin; apply Hnotin; apply (not_merge_in orig (y :: s') p Hin)|apply IH; exact Hnd].
Qed.

Section FilterNoDup.
  Variable mt : matcher_table.

  Lemma filter_leaves_nodup a ls r : NoDup (ix a) -> filter_leaves mt a ls = Ok r -> NoDup (ix r).
  Proof.
    intros Hnd H. unfold filter_leaves in H. destruct (ferr a); [inversion H; subst; exact Hnd|].
    destruct (ofold _ ls _) as [m| |]; try discriminate; [|inversion H; subst; exact Hnd].
    destruct (index_filter (ix a) m) as [i| |] eqn:E; cbn [obind] in H; try discriminate. inversion H; subst r.
    cbn [ix with_ix]. apply (index_filter_nodup m (ix a) i Hnd E).
  Qed.

  Lemma or_frames_nodup orig x r : NoDup (ix orig) -> (forall l, x = Some l -> NoDup (ix l)) -> NoDup (ix r) ->
    NoDup (ix (or_frames orig x r)).
  Proof.
    intros Ho Hx Hr. unfold or_frames. destruct x as [l|]; [|exact Hr].
    destruct (ferr l); [apply Hx; reflexivity|]. destruct (ferr r); [exact Hr|]. cbn [ix with_ix]. apply or_merge_nodup. exact Ho.
  Qed.

  Section Loops.
    Variable cf : clause -> frame -> outcome frame.

    Lemma and_loop_nodup : forall cs, Forall (fun c => forall a r, NoDup (ix a) -> cf c a = Ok r -> NoDup (ix r)) cs ->
      forall a r, NoDup (ix a) -> and_loop cf cs a = Ok r -> NoDup (ix r).
    Proof.
      induction 1 as [|c cs Hc _ IH]; intros a r Hnd H; cbn [and_loop] in H; [inversion H; subst; exact Hnd|].
      destruct (cf c a) as [a'| |] eqn:E; cbn [obind] in H; try discriminate.
      apply (IH a' r (Hc a a' Hnd E) H).
    Qed.

    Lemma or_loop_nodup a : NoDup (ix a) -> forall cs,
      Forall (fun c => forall a0 r, NoDup (ix a0) -> cf c a0 = Ok r -> NoDup (ix r)) cs ->
      forall pending x r, (forall l, x = Some l -> NoDup (ix l)) -> or_loop mt cf a cs pending x = Ok r -> NoDup (ix r).
    Proof.
      intros Hnd cs Hcs. induction Hcs as [|c cs Hc _ IH]; intros pending x r Hx H.
      - cbn [or_loop] in H. destruct pending as [|l0 pending0].
        + cbn [obind] in H. destruct x as [l|]; [|discriminate]. inversion H; subst. apply Hx. reflexivity.
        + destruct (filter_leaves mt a (rev (l0 :: pending0))) as [nf| |] eqn:E; cbn [obind] in H; try discriminate.
          inversion H; subst r. apply or_frames_nodup; [exact Hnd|exact Hx|apply (filter_leaves_nodup a _ nf Hnd E)].
      - assert (Hstep : (do acc' <- (match pending with
                                     | [] => Ok x
                                     | _ => do nf <- filter_leaves mt a (rev pending); Ok (Some (or_frames a x nf)) end);
                         do nf <- cf c a; or_loop mt cf a cs [] (Some (or_frames a acc' nf))) = Ok r -> NoDup (ix r)).
        { intro H0.
          destruct (match pending with [] => Ok x | _ => _ end) as [x'| |] eqn:Ef; cbn [obind] in H0; try discriminate.
          assert (Hx' : forall l, x' = Some l -> NoDup (ix l)).
          { destruct pending as [|l0 pending0]; [inversion Ef; subst; exact Hx|].
            destruct (filter_leaves mt a (rev (l0 :: pending0))) as [nf| |] eqn:E; cbn [obind] in Ef; try discriminate.
            inversion Ef; subst x'. intros l Hl. inversion Hl; subst l.
            apply or_frames_nodup; [exact Hnd|exact Hx|apply (filter_leaves_nodup a _ nf Hnd E)]. }
          destruct (cf c a) as [nf| |] eqn:E; cbn [obind] in H0; try discriminate.
          apply (IH [] (Some (or_frames a x' nf)) r); [|exact H0]. intros l Hl. inversion Hl; subst l.
          apply or_frames_nodup; [exact Hnd|exact Hx'|apply (Hc a nf Hnd E)]. }
        destruct c as [l| | | |]; cbn [or_loop] in H; try (apply Hstep; exact H).
        apply (IH (l :: pending) x r Hx H).
    Qed.
  End Loops.

  Theorem clause_filter_nodup c : forall a r, NoDup (ix a) -> clause_filter mt c a = Ok r -> NoDup (ix r).
  Proof.
    induction c as [l| |c IH|cs IH|cs IH] using clause_ind2; intros a r Hnd H; cbn [clause_filter] in H.
    - apply (filter_leaves_nodup a [l] r Hnd H).
    - inversion H; subst; exact Hnd.
    - destruct (ferr a); [inversion H; subst; exact Hnd|].
      destruct (clause_err (CNot c)); [inversion H; subst; exact Hnd|].
      assert (Hgen : (do nf <- clause_filter mt c a; if ferr nf then Ok nf else Ok (with_ix a (not_merge (ix a) (ix nf)))) = Ok r
                     -> NoDup (ix r)).
      { intro H0. destruct (clause_filter mt c a) as [nf| |] eqn:E; cbn [obind] in H0; try discriminate.
        destruct (ferr nf); inversion H0; subst r; [apply (IH a nf Hnd E)|]. cbn [ix with_ix]. apply not_merge_nodup. exact Hnd. }
      destruct c as [l| | | |]; try (apply Hgen; exact H). apply (filter_leaves_nodup a _ r Hnd H).
    - destruct (ferr a); [inversion H; subst; exact Hnd|].
      destruct (clause_err (CAnd cs)); [inversion H; subst; exact Hnd|].
      apply (and_loop_nodup _ cs IH a r Hnd H).
    - destruct (ferr a); [inversion H; subst; exact Hnd|].
      destruct (clause_err (COr cs)); [inversion H; subst; exact Hnd|].
      apply (or_loop_nodup _ a Hnd cs IH [] None r); [discriminate|exact H].
  Qed.

  Theorem frame_filter_nodup c a r : NoDup (ix a) -> frame_filter mt a c = Ok r -> NoDup (ix r).
  Proof.
    intros Hnd H. unfold frame_filter in H. destruct (ferr a); [inversion H; subst; exact Hnd|].
    apply (clause_filter_nodup c a r Hnd H).
  Qed.
End FilterNoDup.

(* ---- from "the same logical table" to what the kernels see *)

Definition enum_nodup_col (c : coldata) : Prop := match c with ECol _ vs _ => NoDup vs | _ => True end.

Lemma fcol_intro L n1 n2 c1 c2 :
  col_sim L c1 c2 -> enum_meta c1 = enum_meta c2 -> col_ok n1 c1 -> col_ok n2 c2 -> enum_nodup_col c1 ->
  fcol_sim L n1 n2 c1 c2.
Proof.
  intros [Ht Hc] Hm [Hl1 Hw1] [Hl2 Hw2] Hnd.
  split; [exact Ht|]. split; [exact Hm|]. split; [exact Hl1|]. split; [exact Hl2|].
  intros p q Hpq. destruct (Hc p q Hpq) as [x [X1 X2]]. split; [|exists x; split; assumption].
  destruct c1 as [d1|d1|d1|d1|d1 v1 s1], c2 as [d2|d2|d2|d2|d2 v2 s2]; try discriminate Ht; cbn [raw_kval cell_at] in *.
  - destruct (idx d1 p) as [z1| |]; cbn [obind] in X1; try discriminate.
    destruct (idx d2 q) as [z2| |]; cbn [obind] in X2; try discriminate.
    exists (VZ z1). split; [reflexivity|]. cbn [obind]. congruence.
  - destruct (idx d1 p) as [z1| |]; cbn [obind] in X1; try discriminate.
    destruct (idx d2 q) as [z2| |]; cbn [obind] in X2; try discriminate.
    exists (VF z1). split; [reflexivity|]. cbn [obind]. congruence.
  - destruct (idx d1 p) as [z1| |]; cbn [obind] in X1; try discriminate.
    destruct (idx d2 q) as [z2| |]; cbn [obind] in X2; try discriminate.
    exists (VB z1). split; [reflexivity|]. cbn [obind]. congruence.
  - destruct (idx d1 p) as [z1| |]; cbn [obind] in X1; try discriminate.
    destruct (idx d2 q) as [z2| |]; cbn [obind] in X2; try discriminate.
    exists (VS z1). split; [reflexivity|]. cbn [obind]. congruence.
  - cbn [enum_meta] in Hm. inversion Hm; subst v2 s2. cbn [enum_nodup_col] in Hnd.
    destruct (idx d1 p) as [r1| |]; cbn [obind] in X1; try discriminate.
    destruct (idx d2 q) as [r2| |]; cbn [obind] in X2; try discriminate.
    exists (VE r1). split; [reflexivity|]. cbn [obind]. f_equal. f_equal.
    unfold enum_string in X1, X2.
    destruct (enum_is_null r1) eqn:N1, (enum_is_null r2) eqn:N2; cbn [obind] in X1, X2.
    + unfold enum_is_null in N1, N2. apply N.eqb_eq in N1, N2. congruence.
    + unfold idx in X2. destruct (nth_error v1 (N.to_nat r2)); cbn [of_option obind] in X2; [|discriminate]. congruence.
    + unfold idx in X1. destruct (nth_error v1 (N.to_nat r1)); cbn [of_option obind] in X1; [|discriminate]. congruence.
    + unfold idx in X1, X2.
      destruct (nth_error v1 (N.to_nat r1)) as [a1|] eqn:E1; cbn [of_option obind] in X1; [|discriminate].
      destruct (nth_error v1 (N.to_nat r2)) as [a2|] eqn:E2; cbn [of_option obind] in X2; [|discriminate].
      assert (a1 = a2) by congruence. subst a2.
      rewrite NoDup_nth_error in Hnd. symmetry. apply N2Nat.inj. symmetry. apply Hnd; [apply nth_error_Some; congruence|congruence].
Qed.

Definition optrel (R : coldata -> coldata -> Prop) (x y : option (nat * coldata)) : Prop :=
  match x, y with None, None => True | Some (_, c1), Some (_, c2) => R c1 c2 | _, _ => False end.

Lemma lookup_from_rel (R : coldata -> coldata -> Prop) name : forall cs1 cs2 pos acc1 acc2,
  Forall2 (fun a b : bytes * coldata => fst a = fst b /\ R (snd a) (snd b)) cs1 cs2 -> optrel R acc1 acc2 ->
  optrel R (lookup_from name cs1 pos acc1) (lookup_from name cs2 pos acc2).
Proof.
  induction cs1 as [|[m1 c1] cs1 IH]; intros cs2 pos acc1 acc2 H Ha; inversion H as [|? [m2 c2] ? cs2' [Hn Hr] Hrest]; subst.
  - exact Ha.
  - cbn [fst snd] in *. subst m2. cbn [lookup_from]. apply IH; [exact Hrest|].
    destruct (bytes_eqb m1 name); [exact Hr|exact Ha].
Qed.

Lemma cols_fsim L n1 n2 : forall cs1 cs2 : list (bytes * coldata),
  cols_sim L cs1 cs2 -> map (fun nc => enum_meta (snd nc)) cs1 = map (fun nc => enum_meta (snd nc)) cs2 ->
  Forall (fun nc => col_ok n1 (snd nc)) cs1 -> Forall (fun nc => col_ok n2 (snd nc)) cs2 ->
  Forall (fun nc => enum_nodup_col (snd nc)) cs1 ->
  Forall2 (fun a b : bytes * coldata => fst a = fst b /\ fcol_sim L n1 n2 (snd a) (snd b)) cs1 cs2.
Proof.
  induction 1 as [|a b l l' [Hn Hs] _ IH]; intros Hm H1 H2 H3; [constructor|].
  simpl in Hm. inversion Hm. inversion H1; inversion H2; inversion H3; subst.
  constructor; [split; [exact Hn|apply fcol_intro; assumption]|apply IH; assumption].
Qed.

Lemma paired_incl L i1 i2 : paired L i1 i2 -> incl (combine i1 i2) L.
Proof.
  induction 1 as [|p q i1 i2 Hpq _ IH]; [intros x []|]. intros x [<-|Hx]; [exact Hpq|apply IH; exact Hx].
Qed.

Lemma Sub_Rel f g L a b : Rel L f g -> Sub f g L a b -> Rel L a b.
Proof.
  intros [R1 R2 [W1 _] [W2 _] R5] [Ha [Hb [He Hp]]].
  assert (P1 : phys_len a = phys_len f) by (unfold phys_len; rewrite Ha; reflexivity).
  assert (P2 : phys_len b = phys_len g) by (unfold phys_len; rewrite Hb; reflexivity).
  split; [exact He|rewrite Ha, Hb; exact R2| | |intros p q Hpq; rewrite P1, P2; apply R5; exact Hpq].
  - split; [unfold wf_cols; rewrite P1, Ha; exact W1|]. rewrite P1. apply Forall_forall. intros p Hp0.
    apply In_nth_error in Hp0 as [k Hk].
    destruct (nth_error (ix b) k) as [q|] eqn:E;
      [|apply nth_error_None in E; pose proof (paired_length L _ _ Hp); assert (k < length (ix a)) by (apply nth_error_Some; congruence); lia].
    apply (R5 p q). apply (paired_incl L _ _ Hp). apply (nth_combine_In _ _ k p q Hk E).
  - split; [unfold wf_cols; rewrite P2, Hb; exact W2|]. rewrite P2. apply Forall_forall. intros q Hq0.
    apply In_nth_error in Hq0 as [k Hk].
    destruct (nth_error (ix a) k) as [p|] eqn:E;
      [|apply nth_error_None in E; pose proof (paired_length L _ _ Hp); assert (k < length (ix b)) by (apply nth_error_Some; congruence); lia].
    apply (R5 p q). apply (paired_incl L _ _ Hp). apply (nth_combine_In _ _ k p q E Hk).
Qed.

(* C09 for Filter, every clause tree, on the executed model: premises are the common ones, the same enum value
   lists and strictness (enum_metas) and pairwise different enum values (enum_nodup_b: what the enum factory
   guarantees; it makes "the rank of a string" well defined).  No premise about recorded tables (where one lacks
   an entry both runs panic), none about the number of rows, none about the comparator names. *)
Theorem filter_congr_full mt f g t c :
  abs f = Ok t -> abs g = Ok t -> ferr f = ferr g -> wf_frame f = true -> wf_frame g = true ->
  NoDup (ix f) -> NoDup (ix g) -> enum_metas f = enum_metas g -> enum_nodup_b f = true ->
  filter_sim_out (combine (ix f) (ix g)) f g (frame_filter mt f c) (frame_filter mt g c)
  /\ same_result (frame_filter mt f c) (frame_filter mt g c).
Proof.
  intros Hf Hg He Hw1 Hw2 Hn1 Hn2 Hm Hnd.
  destruct (rel_of_abs f g t Hf Hg He Hw1 Hw2) as [HR Hl]. set (L := combine (ix f) (ix g)) in *.
  assert (Hcols : forall name,
            match lookup_col f name, lookup_col g name with
            | None, None => True
            | Some c1, Some c2 => fcol_sim L (phys_len f) (phys_len g) c1 c2
            | _, _ => False
            end).
  { intro name.
    assert (H3 : Forall (fun nc : bytes * coldata => enum_nodup_col (snd nc)) (cols f)).
    { apply Forall_forall. intros [m c0] Hin. unfold enum_nodup_b in Hnd. rewrite forallb_forall in Hnd.
      specialize (Hnd _ Hin). cbn [snd] in *. destruct c0; try exact I.
      apply (FilterTypedFrame.nodupb_ok bytes_eqb bytes_eqb_spec). exact Hnd. }
    pose proof (cols_fsim L (phys_len f) (phys_len g) (cols f) (cols g) (r_cols _ _ _ HR) Hm
                  (proj1 (r_wf1 _ _ _ HR)) (proj1 (r_wf2 _ _ _ HR)) H3) as HF.
    pose proof (lookup_from_rel (fcol_sim L (phys_len f) (phys_len g)) name (cols f) (cols g) 0 None None HF I) as Hl0.
    unfold lookup_col, lookup, optrel in *.
    destruct (lookup_from name (cols f) 0 None) as [[k1 c1]|], (lookup_from name (cols g) 0 None) as [[k2 c2]|];
      cbn [option_map snd]; exact Hl0. }
  assert (HS : Sub f g L f g) by (split; [reflexivity|split; [reflexivity|split; [exact He|apply paired_combine; exact Hl]]]).
  pose proof (frame_filter_sim mt f g L (one2one_combine _ _ Hn1 Hn2) Hcols c f g HS) as H.
  unfold sub_out, filter_sim_out, same_result in *.
  destruct (frame_filter mt f c) as [a| |] eqn:Ea, (frame_filter mt g c) as [b| |] eqn:Eb; try contradiction; [|split; exact I].
  pose proof H as [Ca [Cb [Eab Pab]]].
  pose proof (Sub_Rel f g L a b HR H) as HRab.
  split.
  - split; [exact Eab|]. destruct (ferr a); [exact I|]. split; [exact Ca|]. split; [exact Cb|].
    split; [apply (paired_length L _ _ Pab)|]. split; [apply paired_incl; exact Pab|].
    split; [apply (frame_filter_nodup mt c f a Hn1 Ea)|apply (frame_filter_nodup mt c g b Hn2 Eb)].
  - split; [exact Eab|]. apply (abs_of_rel L a b HRab); [apply (paired_length L _ _ Pab)|apply paired_incl; exact Pab].
Qed.

Theorem filtered_apply_congr_full mt ut f g t c is :
  abs f = Ok t -> abs g = Ok t -> ferr f = ferr g -> wf_frame f = true -> wf_frame g = true ->
  NoDup (ix f) -> NoDup (ix g) -> enum_metas f = enum_metas g -> enum_nodup_b f = true ->
  forallb (fun i => afn_wf (ifn i)) is = true ->
  (forall ff, frame_filter mt f c = Ok ff -> upper_prog_okb ut (with_ix f (ix ff)) is = true) ->
  (forall gg, frame_filter mt g c = Ok gg -> upper_prog_okb ut (with_ix g (ix gg)) is = true) ->
  same_visible (filtered_apply mt ut f c is) (filtered_apply mt ut g c is).
Proof.
  intros Hf Hg He Hw1 Hw2 Hn1 Hn2 Hm Hnd Hfn Hu1 Hu2.
  destruct (filter_congr_full mt f g t c Hf Hg He Hw1 Hw2 Hn1 Hn2 Hm Hnd) as [Hflt _].
  apply (filtered_apply_sim mt ut f g t c is Hf Hg He Hw1 Hw2 Hn1 Hn2 Hflt Hfn Hu1 Hu2).
Qed.

(* ================================================================== the summary statement *)

(* Every deterministic operation of Model/Ops.v, Model/Filter.v and Model/Eval.v maps two well-formed frames with
   the same logical table and Err state (duplicate-free indexes) to the same outcome: both panic, or both return
   frames with the same Err state and the same logical table (FilteredApply: the same table when Err is not set).
   The premises beyond "same table" are exactly the places where the implementation consults data the table does
   not show:
     - ToUpper on an enum column upper-cases the whole value list (upper_prog_okb: the oracle table answers there);
     - Filter compares enum cells by rank and rejects unknown constants for strict enums (enum_metas: same value
       lists and strictness; enum_nodup_b: pairwise different values, so that a string has one rank);
     - Eval: nothing beyond typed context functions (ctx_fn_ok) - not even the premises of the C07 theorem.
   Recorded function / matcher tables need not answer: where one lacks an entry both runs panic. *)
Definition congruence_statement2 : Prop :=
  forall f g t,
    wf_frame f = true -> wf_frame g = true -> NoDup (ix f) -> NoDup (ix g) ->
    abs f = Ok t -> abs g = Ok t -> ferr f = ferr g ->
    (forall ut is, forallb (fun i => afn_wf (ifn i)) is = true ->
                   upper_prog_okb ut f is = true -> upper_prog_okb ut g is = true ->
                   same_result (apply ut f is) (apply ut g is))
    /\ (forall name, same_result (with_row_nums f name) (with_row_nums g name))
    /\ (forall mt c, enum_metas f = enum_metas g -> enum_nodup_b f = true ->
                     same_result (frame_filter mt f c) (frame_filter mt g c))
    /\ (forall mt ut c is,
          enum_metas f = enum_metas g -> enum_nodup_b f = true -> forallb (fun i => afn_wf (ifn i)) is = true ->
          (forall ff, frame_filter mt f c = Ok ff -> upper_prog_okb ut (with_ix f (ix ff)) is = true) ->
          (forall gg, frame_filter mt g c = Ok gg -> upper_prog_okb ut (with_ix g (ix gg)) is = true) ->
          same_visible (filtered_apply mt ut f c is) (filtered_apply mt ut g c is))
    /\ (forall ut cx dst e, ctx_fn_ok cx = true ->
          same_result (Eval.eval ut cx f dst e) (Eval.eval ut cx g dst e)).

Theorem congruence2 : congruence_statement2.
Proof.
  intros f g t Hw1 Hw2 Hn1 Hn2 Hf Hg He. repeat split.
  - intros ut is Hfn Hu1 Hu2. apply (apply_congr ut f g t is); assumption.
  - intro name. apply (with_row_nums_congr f g t name); assumption.
  - intros mt c Hm Hnd. apply (filter_congr_full mt f g t c); assumption.
  - intros mt ut c is Hm Hnd Hfn Hu1 Hu2. apply (filtered_apply_congr_full mt ut f g t c is); assumption.
  - intros ut cx dst e Hcx. apply (eval_congr_full ut cx Hcx f g t dst e); assumption.
Qed.
