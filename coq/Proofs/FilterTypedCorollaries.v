(* Proofs/FilterTypedCorollaries.v — C02: "the outcome does not depend on how the clause is nested or ordered",
   Not(Not c) = c, De Morgan, Filter{Inverse} = Not.  Each is an identity of the row-wise specification
   (Model/FilterSpec.v) transported to the executed model by the frame theorem filter_meets_spec. *)
From QF Require Import Base.Prelude Base.KernelSyntax Gen.GenConsts Gen.GenTables Gen.GenKernels.
From QF Require Import Model.Frame Model.Bits Model.Kernel Model.Filter Model.FilterSpec.
From QF Require Import Proofs.FilterProofs Proofs.FilterLeafProofs Proofs.FilterTyped Proofs.FilterTypedLeaf
                       Proofs.FilterTypedFrame.
Local Open Scope nat_scope.

(* two results of Filter that a caller cannot tell apart: the same frame, or both with Err set *)
Definition same_outcome (r1 r2 : outcome frame) : Prop :=
  r1 = r2 \/ exists g1 g2, r1 = Ok g1 /\ r2 = Ok g2 /\ ferr g1 = true /\ ferr g2 = true.

Lemma spec_go_ext mt f c1 c2 : forall index acc opened,
  (forall p, In p index -> clause_sat mt f c1 p = clause_sat mt f c2 p) ->
  spec_go mt f c1 index acc opened = spec_go mt f c2 index acc opened.
Proof.
  induction index as [|p index IH]; intros acc opened H; [reflexivity|].
  cbn [spec_go]. rewrite (H p (or_introl eq_refl)).
  destruct (clause_sat mt f c2 p) as [[[[|]|]|]| |]; try reflexivity; apply IH; intros q Hq; apply H; right; exact Hq.
Qed.

(* clauses with the same row-wise meaning on the rows of the frame give the same result *)
Theorem same_spec mt f c1 c2 :
  c02_premises_b mt f c1 = true -> c02_premises_b mt f c2 = true -> ix f <> [] ->
  (forall p, In p (ix f) -> clause_sat mt f c1 p = clause_sat mt f c2 p) ->
  same_outcome (frame_filter mt f c1) (frame_filter mt f c2).
Proof.
  intros H1 H2 Hne Hsame.
  pose proof (filter_meets_spec mt f c1 H1 Hne) as M1.
  pose proof (filter_meets_spec mt f c2 H2 Hne) as M2.
  assert (E : filter_spec mt f c1 = filter_spec mt f c2) by (rewrite !filter_spec_go; apply spec_go_ext; exact Hsame).
  rewrite E in M1. destruct (filter_spec mt f c2) as [rows| | |]; try contradiction.
  - left. destruct M1 as [M1 _]. destruct M2 as [M2 _]. rewrite M1, M2. reflexivity.
  - right. destruct M1 as [g1 [E1 G1]]. destruct M2 as [g2 [E2 G2]]. exists g1, g2. auto.
Qed.

(* ------------------------------------------------------------------ identities of the specification *)

Lemma not3_invol r : not3 (not3 r) = r.
Proof. destruct r as [[[|]|]|]; reflexivity. Qed.
Lemma not3_and3 a b : not3 (and3 a b) = or3 (not3 a) (not3 b).
Proof. destruct a as [[[|]|]|], b as [[[|]|]|]; reflexivity. Qed.
Lemma not3_or3 a b : not3 (or3 a b) = and3 (not3 a) (not3 b).
Proof. destruct a as [[[|]|]|], b as [[[|]|]|]; reflexivity. Qed.
Lemma and3_assoc a b c : and3 (and3 a b) c = and3 a (and3 b c).
Proof. destruct a as [[[|]|]|], b as [[[|]|]|], c as [[[|]|]|]; reflexivity. Qed.
Lemma or3_assoc a b c : or3 (or3 a b) c = or3 a (or3 b c).
Proof. destruct a as [[[|]|]|], b as [[[|]|]|], c as [[[|]|]|]; reflexivity. Qed.
Lemma and3_swap a b c : and3 a (and3 b c) = and3 b (and3 a c).
Proof. destruct a as [[[|]|]|], b as [[[|]|]|], c as [[[|]|]|]; reflexivity. Qed.
Lemma or3_swap a b c : or3 a (or3 b c) = or3 b (or3 a c).
Proof. destruct a as [[[|]|]|], b as [[[|]|]|], c as [[[|]|]|]; reflexivity. Qed.

Lemma sat_not_not mt f c p : clause_sat mt f (CNot (CNot c)) p = clause_sat mt f c p.
Proof. cbn [clause_sat]. destruct (clause_sat mt f c p); cbn [obind]; [rewrite not3_invol|..]; reflexivity. Qed.

Lemma or_go_map_not mt f p : forall cs, or_go mt f p (map CNot cs) = do r <- and_go mt f p cs; Ok (not3 r).
Proof.
  induction cs as [|c cs IH]; [reflexivity|]. cbn [map or_go and_go clause_sat]. rewrite IH.
  destruct (clause_sat mt f c p); cbn [obind]; try reflexivity.
  destruct (and_go mt f p cs); cbn [obind]; try reflexivity. rewrite not3_and3. reflexivity.
Qed.
Lemma and_go_map_not mt f p : forall cs, and_go mt f p (map CNot cs) = do r <- or_go mt f p cs; Ok (not3 r).
Proof.
  induction cs as [|c cs IH]; [reflexivity|]. cbn [map or_go and_go clause_sat]. rewrite IH.
  destruct (clause_sat mt f c p); cbn [obind]; try reflexivity.
  destruct (or_go mt f p cs); cbn [obind]; try reflexivity. rewrite not3_or3. reflexivity.
Qed.

(* De Morgan *)
Lemma sat_de_morgan_and mt f cs p : clause_sat mt f (CNot (CAnd cs)) p = clause_sat mt f (COr (map CNot cs)) p.
Proof.
  change (clause_sat mt f (CNot (CAnd cs)) p) with (do r <- clause_sat mt f (CAnd cs) p; Ok (not3 r)).
  rewrite clause_sat_and, clause_sat_or. destruct cs as [|c cs]; [reflexivity|].
  cbn [map]. change (CNot c :: map CNot cs) with (map CNot (c :: cs)). rewrite or_go_map_not. reflexivity.
Qed.
Lemma sat_de_morgan_or mt f cs p : clause_sat mt f (CNot (COr cs)) p = clause_sat mt f (CAnd (map CNot cs)) p.
Proof.
  change (clause_sat mt f (CNot (COr cs)) p) with (do r <- clause_sat mt f (COr cs) p; Ok (not3 r)).
  rewrite clause_sat_and, clause_sat_or. destruct cs as [|c cs]; [reflexivity|].
  cbn [map]. change (CNot c :: map CNot cs) with (map CNot (c :: cs)). rewrite and_go_map_not. reflexivity.
Qed.

(* Filter{Inverse: true} = Not *)
Lemma sat_inverse_is_not mt f l p : clause_sat mt f (CLeaf (invert_leaf l)) p = clause_sat mt f (CNot (CLeaf l)) p.
Proof. cbn [clause_sat]. apply leaf_sat_invert. Qed.

(* nesting: And(And(as), bs) = And(as ++ bs) *)
Lemma and_go_app mt f p : forall xs ys,
  and_go mt f p (xs ++ ys) = do a <- and_go mt f p xs; do b <- and_go mt f p ys; Ok (and3 a b).
Proof.
  induction xs as [|x xs IH]; intro ys.
  - cbn [app and_go obind]. destruct (and_go mt f p ys) as [[[[|]|]|]| |]; reflexivity.
  - cbn [app and_go]. rewrite IH. destruct (clause_sat mt f x p); cbn [obind]; try reflexivity.
    destruct (and_go mt f p xs); cbn [obind]; try reflexivity.
    destruct (and_go mt f p ys); cbn [obind]; try reflexivity. rewrite and3_assoc. reflexivity.
Qed.
Lemma or_go_app mt f p : forall xs ys,
  or_go mt f p (xs ++ ys) = do a <- or_go mt f p xs; do b <- or_go mt f p ys; Ok (or3 a b).
Proof.
  induction xs as [|x xs IH]; intro ys.
  - cbn [app or_go obind]. destruct (or_go mt f p ys) as [[[[|]|]|]| |]; reflexivity.
  - cbn [app or_go]. rewrite IH. destruct (clause_sat mt f x p); cbn [obind]; try reflexivity.
    destruct (or_go mt f p xs); cbn [obind]; try reflexivity.
    destruct (or_go mt f p ys); cbn [obind]; try reflexivity. rewrite or3_assoc. reflexivity.
Qed.

Lemma sat_and_flatten mt f xs ys p : xs <> [] ->
  clause_sat mt f (CAnd (CAnd xs :: ys)) p = clause_sat mt f (CAnd (xs ++ ys)) p.
Proof.
  intro Hne. rewrite !clause_sat_and. destruct xs as [|x xs]; [congruence|].
  change ((x :: xs) ++ ys) with (x :: (xs ++ ys)). cbv iota.
  change (x :: xs ++ ys) with ((x :: xs) ++ ys). rewrite and_go_app.
  cbn [and_go]. rewrite clause_sat_and. reflexivity.
Qed.
Lemma sat_or_flatten mt f xs ys p : xs <> [] ->
  clause_sat mt f (COr (COr xs :: ys)) p = clause_sat mt f (COr (xs ++ ys)) p.
Proof.
  intro Hne. rewrite !clause_sat_or. destruct xs as [|x xs]; [congruence|].
  change ((x :: xs) ++ ys) with (x :: (xs ++ ys)). cbv iota.
  change (x :: xs ++ ys) with ((x :: xs) ++ ys). rewrite or_go_app.
  cbn [or_go]. rewrite clause_sat_or. reflexivity.
Qed.

(* order: any permutation of the sub-clauses, provided each of them can be evaluated on the row *)
Lemma and_go_perm mt f p xs ys : Permutation xs ys ->
  (forall c, In c xs -> exists r, clause_sat mt f c p = Ok r) -> and_go mt f p xs = and_go mt f p ys.
Proof.
  induction 1 as [|x xs ys _ IH|x y xs|xs ys zs P1 IH1 P2 IH2]; intro Hok.
  - reflexivity.
  - cbn [and_go]. rewrite IH; [reflexivity|]. intros c Hc. apply Hok. right. exact Hc.
  - cbn [and_go]. destruct (Hok x (or_intror (or_introl eq_refl))) as [rx Ex].
    destruct (Hok y (or_introl eq_refl)) as [ry Ey]. rewrite Ex, Ey. cbn [obind].
    destruct (and_go mt f p xs); cbn [obind]; try reflexivity. rewrite and3_swap. reflexivity.
  - rewrite IH1 by exact Hok. apply IH2. intros c Hc. apply Hok. eapply Permutation_in; [apply Permutation_sym; exact P1|exact Hc].
Qed.
Lemma or_go_perm mt f p xs ys : Permutation xs ys ->
  (forall c, In c xs -> exists r, clause_sat mt f c p = Ok r) -> or_go mt f p xs = or_go mt f p ys.
Proof.
  induction 1 as [|x xs ys _ IH|x y xs|xs ys zs P1 IH1 P2 IH2]; intro Hok.
  - reflexivity.
  - cbn [or_go]. rewrite IH; [reflexivity|]. intros c Hc. apply Hok. right. exact Hc.
  - cbn [or_go]. destruct (Hok x (or_intror (or_introl eq_refl))) as [rx Ex].
    destruct (Hok y (or_introl eq_refl)) as [ry Ey]. rewrite Ex, Ey. cbn [obind].
    destruct (or_go mt f p xs); cbn [obind]; try reflexivity. rewrite or3_swap. reflexivity.
  - rewrite IH1 by exact Hok. apply IH2. intros c Hc. apply Hok. eapply Permutation_in; [apply Permutation_sym; exact P1|exact Hc].
Qed.

(* ------------------------------------------------------------------ transport to the executed model *)

Lemma premises_unpack mt f c :
  c02_premises_b mt f c = true ->
  frame_ok f /\ ferr f = false /\ NoDup (ix f) /\ clause_closed mt f c /\ clause_in_scope c.
Proof.
  unfold c02_premises_b. intro H.
  apply andb_true_iff in H as [H Hscope]. apply andb_true_iff in H as [H Hclosed].
  apply andb_true_iff in H as [H Hndb]. apply andb_true_iff in H as [H Hne'].
  split; [apply frame_ok_b; exact H|]. split; [apply negb_true_iff; exact Hne'|].
  split; [apply (nodupb_ok Nat.eqb Nat.eqb_eq); exact Hndb|]. split.
  - apply all_leaves_of_list. apply Forall_forall. intros l Hl. apply leaf_closed_b_ok.
    rewrite forallb_forall in Hclosed. apply Hclosed. exact Hl.
  - apply all_leaves_of_list. apply Forall_forall. intros l Hl. apply leaf_scope_b_ok.
    rewrite forallb_forall in Hscope. apply Hscope. exact Hl.
Qed.

(* the premises only look at the set of leaves *)
Lemma premises_leaves mt f c1 c2 :
  c02_premises_b mt f c1 = true -> incl (clause_leaves c2) (clause_leaves c1) -> c02_premises_b mt f c2 = true.
Proof.
  unfold c02_premises_b. intros H Hincl.
  apply andb_true_iff in H as [H Hscope]. apply andb_true_iff in H as [H Hclosed].
  rewrite H. cbn [andb].
  apply andb_true_iff. split; apply forallb_forall; intros l Hl; apply Hincl in Hl.
  - rewrite forallb_forall in Hclosed. apply Hclosed. exact Hl.
  - rewrite forallb_forall in Hscope. apply Hscope. exact Hl.
Qed.

Lemma flat_map_map_not cs : flat_map clause_leaves (map CNot cs) = flat_map clause_leaves cs.
Proof. induction cs as [|c cs IH]; [reflexivity|]. cbn [map flat_map clause_leaves]. rewrite IH. reflexivity. Qed.

Lemma closed_sat_ok mt f c p :
  frame_ok f -> clause_closed mt f c -> In p (ix f) -> exists r, clause_sat mt f c p = Ok r.
Proof.
  intros Hok Hc Hp. destruct (clause_dich mt f c Hc) as [Hv|Hb].
  - eexists. apply (valid_sat mt f c Hv p Hp).
  - eexists. apply (bad_sat mt f Hok c Hc Hb p Hp).
Qed.

Lemma leaf_closed_b_invert mt f l : leaf_closed_b mt f (invert_leaf l) = leaf_closed_b mt f l.
Proof.
  unfold leaf_closed_b. generalize (ix f). intro i. induction i as [|p i IHi]; [reflexivity|].
  cbn [forallb]. rewrite IHi. f_equal. rewrite leaf_sat_invert.
  destruct (leaf_sat mt f l p) as [[[v|]|]| |]; reflexivity.
Qed.

Section Corollaries.
  Variable mt : matcher_table.
  Variable f : frame.
  Hypothesis Hne : ix f <> [].

  (* Not(Not c) = c *)
  Theorem filter_not_not c :
    c02_premises_b mt f c = true ->
    same_outcome (frame_filter mt f (CNot (CNot c))) (frame_filter mt f c).
  Proof.
    intro H. apply same_spec; [exact H|exact H|exact Hne|]. intros p _. apply sat_not_not.
  Qed.

  (* De Morgan *)
  Theorem filter_de_morgan_and cs :
    c02_premises_b mt f (CAnd cs) = true ->
    same_outcome (frame_filter mt f (CNot (CAnd cs))) (frame_filter mt f (COr (map CNot cs))).
  Proof.
    intro H. apply same_spec; [exact H| |exact Hne|intros p _; apply sat_de_morgan_and].
    apply (premises_leaves mt f (CAnd cs)); [exact H|]. cbn [clause_leaves]. rewrite flat_map_map_not. apply incl_refl.
  Qed.
  Theorem filter_de_morgan_or cs :
    c02_premises_b mt f (COr cs) = true ->
    same_outcome (frame_filter mt f (CNot (COr cs))) (frame_filter mt f (CAnd (map CNot cs))).
  Proof.
    intro H. apply same_spec; [exact H| |exact Hne|intros p _; apply sat_de_morgan_or].
    apply (premises_leaves mt f (COr cs)); [exact H|]. cbn [clause_leaves]. rewrite flat_map_map_not. apply incl_refl.
  Qed.

  (* Filter{Inverse: true} = Not(Filter{...}) *)
  Theorem filter_inverse_is_not l :
    c02_premises_b mt f (CLeaf l) = true ->
    same_outcome (frame_filter mt f (CLeaf (invert_leaf l))) (frame_filter mt f (CNot (CLeaf l))).
  Proof.
    intro H. apply same_spec; [|exact H|exact Hne|intros p _; apply sat_inverse_is_not].
    unfold c02_premises_b in *. cbn [clause_leaves forallb] in *.
    pose proof (leaf_closed_b_invert mt f l) as E1.
    assert (E2 : leaf_scope_b (invert_leaf l) = leaf_scope_b l) by reflexivity.
    rewrite E1, E2. exact H.
  Qed.

  (* nesting *)
  Theorem filter_and_flatten xs ys : xs <> [] ->
    c02_premises_b mt f (CAnd (xs ++ ys)) = true ->
    same_outcome (frame_filter mt f (CAnd (CAnd xs :: ys))) (frame_filter mt f (CAnd (xs ++ ys))).
  Proof.
    intros Hx H. apply same_spec; [|exact H|exact Hne|intros p _; apply sat_and_flatten; exact Hx].
    apply (premises_leaves mt f (CAnd (xs ++ ys))); [exact H|]. cbn [clause_leaves flat_map].
    rewrite flat_map_app. apply incl_refl.
  Qed.
  Theorem filter_or_flatten xs ys : xs <> [] ->
    c02_premises_b mt f (COr (xs ++ ys)) = true ->
    same_outcome (frame_filter mt f (COr (COr xs :: ys))) (frame_filter mt f (COr (xs ++ ys))).
  Proof.
    intros Hx H. apply same_spec; [|exact H|exact Hne|intros p _; apply sat_or_flatten; exact Hx].
    apply (premises_leaves mt f (COr (xs ++ ys))); [exact H|]. cbn [clause_leaves flat_map].
    rewrite flat_map_app. apply incl_refl.
  Qed.

  Lemma incl_flat_map_perm (xs ys : list clause) :
    Permutation xs ys -> incl (flat_map clause_leaves ys) (flat_map clause_leaves xs).
  Proof.
    intros P l Hl. apply in_flat_map in Hl as [c [Hc Hl]]. apply in_flat_map. exists c.
    split; [eapply Permutation_in; [apply Permutation_sym; exact P|exact Hc]|exact Hl].
  Qed.

  Lemma sub_clauses_ok cs (mk : list clause -> clause) :
    (forall P cs, all_leaves P (mk cs) -> Forall (all_leaves P) cs) ->
    c02_premises_b mt f (mk cs) = true ->
    forall p, In p (ix f) -> forall c, In c cs -> exists r, clause_sat mt f c p = Ok r.
  Proof.
    intros Hinv H p Hp c Hc. destruct (premises_unpack mt f _ H) as [Hok [_ [_ [Hcl _]]]].
    apply Hinv in Hcl. rewrite Forall_forall in Hcl. exact (closed_sat_ok mt f c p Hok (Hcl c Hc) Hp).
  Qed.

  (* order *)
  Theorem filter_and_perm xs ys : Permutation xs ys ->
    c02_premises_b mt f (CAnd xs) = true ->
    same_outcome (frame_filter mt f (CAnd xs)) (frame_filter mt f (CAnd ys)).
  Proof.
    intros P H. apply same_spec; [exact H| |exact Hne|].
    - apply (premises_leaves mt f (CAnd xs)); [exact H|]. cbn [clause_leaves]. apply incl_flat_map_perm. exact P.
    - intros p Hp. rewrite !clause_sat_and.
      destruct xs as [|x xs]; [apply Permutation_nil in P; subst; reflexivity|].
      destruct ys as [|y ys]; [apply Permutation_sym, Permutation_nil in P; discriminate|].
      apply and_go_perm; [exact P|].
      apply (sub_clauses_ok (x :: xs) CAnd (fun P0 cs0 H0 => al_and_inv P0 cs0 H0) H p Hp).
  Qed.
  Theorem filter_or_perm xs ys : Permutation xs ys ->
    c02_premises_b mt f (COr xs) = true ->
    same_outcome (frame_filter mt f (COr xs)) (frame_filter mt f (COr ys)).
  Proof.
    intros P H. apply same_spec; [exact H| |exact Hne|].
    - apply (premises_leaves mt f (COr xs)); [exact H|]. cbn [clause_leaves]. apply incl_flat_map_perm. exact P.
    - intros p Hp. rewrite !clause_sat_or.
      destruct xs as [|x xs]; [apply Permutation_nil in P; subst; reflexivity|].
      destruct ys as [|y ys]; [apply Permutation_sym, Permutation_nil in P; discriminate|].
      apply or_go_perm; [exact P|].
      apply (sub_clauses_ok (x :: xs) COr (fun P0 cs0 H0 => al_or_inv P0 cs0 H0) H p Hp).
  Qed.
End Corollaries.
