(* Proofs/FilterTypedInt.v — C02, typed meaning of the leaves over an INT column (internal/icolumn):
   every built-in comparator x every argument kind, one row at a time, against Model/FilterSpec.v.
   The kernels are the GENERATED ones (Gen/GenKernels.v) reached through the GENERATED tables. *)
From QF Require Import Base.Prelude Base.KernelSyntax Gen.GenConsts Gen.GenTables Gen.GenKernels.
From QF Require Import Model.Frame Model.Bits Model.Kernel Model.Filter Model.FilterSpec.
From QF Require Import Proofs.FilterProofs Proofs.FilterLeafProofs Proofs.FilterTyped.
Local Open Scope nat_scope.

Lemma any_bits_int v z : (z <? 0)%Z = false -> cmp_int OGt (Z.land v z) 0 = negb (Z.land v z =? 0)%Z.
Proof. intro H. rewrite <- (any_bits_pos v z H). unfold cmp_int. destruct (Z.land v z ?= 0)%Z; reflexivity. Qed.
Lemma all_bits_int v z : cmp_int OEq (Z.land v z) z = (Z.land v z =? z)%Z.
Proof. unfold cmp_int. apply ord_eq. Qed.

Ltac fin_int :=
  cbn [map]; rewrite ?existsb_VZ;
  first [ reflexivity
        | rewrite any_bits_int by assumption; reflexivity
        | rewrite all_bits_int; reflexivity ].

(* one known comparator name: both sides are closed in the name, run them *)
Ltac int_known rew :=
  reduce_closed1; spec_done;
  first [ exact I
        | model_unfold; reduce_closed1;
          first [ intros i b; reflexivity
                | eval_run; rew; cbn [obind]; kcmp; cbn [obind as_bool k_inset]; fin_int ] ].

Ltac int_unknown Hunk :=
  unk Hunk; spec_done; first [ exact I | intros i b; model_unfold; unk Hunk; reflexivity ].

Theorem colrow_int mt f d s arg p :
  p < length d -> arg_row_ok f arg p -> colrow_ok mt f (ICol d) (CmpName s) arg p.
Proof.
  intros Hp Harg. destruct (idx_lt d p Hp) as [v Hv].
  unfold colrow_ok, leaf_core, resolve.
  destruct arg as [z|fb ft|bb|str|zs|fs|ss|ifs|n| |].
  - (* int constant *)
    unfold builtin_sat. cbn [cell_at]. rewrite Hv. cbn [obind].
    name_cases s Hunk;
      [ reduce_closed1; try (destruct (z <? 0)%Z eqn:Hz; [exact I|]); int_known ltac:(rewrite ?Hv) ..
      | int_unknown Hunk ].
  - (* float constant: int(f) *)
    unfold builtin_sat. cbn [cell_at]. rewrite Hv. cbn [obind].
    name_cases s Hunk;
      [ reduce_closed1; try (destruct (ft <? 0)%Z eqn:Hz; [exact I|]); int_known ltac:(rewrite ?Hv) ..
      | int_unknown Hunk ].
  - unfold builtin_sat. cbn [cell_at]. rewrite Hv. cbn [obind]. spec_done. intros i b. reflexivity.
  - unfold builtin_sat. cbn [cell_at]. rewrite Hv. cbn [obind]. spec_done. intros i b. reflexivity.
  - (* []int *)
    unfold builtin_sat. cbn [cell_at]. rewrite Hv. cbn [obind int_set].
    name_cases s Hunk; [ int_known ltac:(rewrite ?Hv) .. | int_unknown Hunk ].
  - (* []float64 *)
    unfold builtin_sat. cbn [cell_at]. rewrite Hv. cbn [obind int_set].
    name_cases s Hunk; [ int_known ltac:(rewrite ?Hv) .. | int_unknown Hunk ].
  - unfold builtin_sat. cbn [cell_at]. rewrite Hv. cbn [obind]. spec_done. intros i b. reflexivity.
  - (* []interface{} *)
    unfold builtin_sat. cbn [cell_at]. rewrite Hv. cbn [obind int_set].
    destruct (iface_ints ifs) as [zs|] eqn:Hif.
    + name_cases s Hunk;
        [ reduce_closed1; spec_done;
          first [ exact I
                | model_unfold; rewrite ?Hif; reduce_closed1;
                  first [ intros i b; reflexivity
                        | eval_run; rewrite ?Hv; cbn [obind]; kcmp; cbn [obind as_bool k_inset]; fin_int ] ] ..
        | unk Hunk; spec_done; intros i b; model_unfold; rewrite ?Hif; unk Hunk; reflexivity ].
    + spec_done. intros i b. model_unfold. rewrite Hif. reflexivity.
  - (* another column *)
    unfold arg_row_ok in Harg.
    destruct (lookup_col f n) as [c2|] eqn:Hl; [|exact I].
    destruct Harg as [Hp2 _].
    destruct c2 as [d2|d2|d2|d2|d2 vs2 st2]; cbn [col_len] in Hp2.
    + destruct (idx_lt d2 p Hp2) as [w Hw].
      unfold builtin_sat. cbn [cell_at]. rewrite Hv. cbn [obind]. rewrite Hl, Hw. cbn [obind].
      name_cases s Hunk; [ int_known ltac:(rewrite ?Hv, ?Hw) .. | int_unknown Hunk ].
    + destruct (idx_lt d2 p Hp2) as [w Hw].
      unfold builtin_sat. cbn [cell_at]. rewrite Hv. cbn [obind]. rewrite Hl, Hw. cbn [obind].
      name_cases s Hunk;
        [ int_known ltac:(unfold float_slice; rewrite ?idx_map, ?Hv, ?Hw) .. | int_unknown Hunk ].
    + unfold builtin_sat. cbn [cell_at]. rewrite Hv. cbn [obind]. rewrite Hl. spec_done. intros i b. reflexivity.
    + unfold builtin_sat. cbn [cell_at]. rewrite Hv. cbn [obind]. rewrite Hl. spec_done. intros i b. reflexivity.
    + unfold builtin_sat. cbn [cell_at]. rewrite Hv. cbn [obind]. rewrite Hl. spec_done. intros i b. reflexivity.
  - (* nil : isnull / isnotnull *)
    unfold builtin_sat. cbn [cell_at]. rewrite Hv. cbn [obind].
    name_cases s Hunk; [ int_known ltac:(rewrite ?Hv) .. | int_unknown Hunk ].
  - unfold builtin_sat. cbn [cell_at]. rewrite Hv. cbn [obind]. spec_done. intros i b. reflexivity.
Qed.
