(* Proofs/RyuExactInt.v — float64ToDecimalExactInt: the integer fast path of AppendFloat64f. *)
From QF Require Import Base.Prelude Gen.GenConsts Gen.GenRyu Model.Ryu Proofs.RyuArith.
Local Open Scope N_scope.

Lemma strip10_spec : forall fuel m e,
  0 < m -> m < 10 ^ N.of_nat fuel -> (0 <= e)%Z -> (e + Z.of_nat fuel < 2147483648)%Z ->
  exists m' k, strip10 fuel m e = Ok (m', (e + Z.of_N k)%Z) /\ m = m' * 10 ^ k /\ m' mod 10 <> 0.
Proof.
  induction fuel as [|f IH]; intros m e Hm Hf He Hb.
  - cbn in Hf. lia.
  - cbn [strip10]. destruct (m mod 10 =? 0) eqn:E.
    + apply N.eqb_eq in E. pose proof (N.div_mod m 10 ltac:(lia)) as DM.
      rewrite Nat2N.inj_succ, N.pow_succ_r' in Hf.
      rewrite i32_small by lia.
      destruct (IH (m / 10) (e + 1)%Z) as (m' & k & E1 & E2 & E3); try lia.
      exists m', (k + 1). split; [rewrite E1; f_equal; f_equal; lia|]. split; [|exact E3].
      rewrite N.pow_add_r, N.pow_1_r. lia.
    + apply N.eqb_neq in E. exists m, 0. split; [f_equal; f_equal; lia|]. split; [|exact E].
      rewrite N.pow_0_r. lia.
Qed.

(* The float with mantissa field mant and biased exponent exp in 1..2046 has the value
   (2^52 + mant) * 2^(exp - 1075).  It is an integer in [1, 2^53) iff 1023 <= exp <= 1075 and
   2^(1075-exp) divides 2^52 + mant.  The function answers (m, e, true) exactly in that case, with
   m * 10^e = the value and m free of trailing zeros; it never panics.  (For exp = 0, a subnormal, the answer
   is false because exp - 1023 wraps around.) *)
Theorem exact_int_ok (mant exp : N) :
  mant < 2 ^ 52 -> exp < 2048 ->
  let M := 2 ^ 52 + mant in
  match float64ToDecimalExactInt mant exp with
  | Ok (Some (m, e)) =>
      1023 <= exp <= 1075 /\ (0 <= e)%Z /\ m * 10 ^ Z.to_N e * 2 ^ (1075 - exp) = M /\ m mod 10 <> 0 /\ 0 < m
  | Ok None => ~ (1023 <= exp <= 1075 /\ M mod 2 ^ (1075 - exp) = 0)
  | _ => False
  end.
Proof.
  intros Hm He M. unfold float64ToDecimalExactInt.
  change c_bias64 with 1023. change c_mantBits64 with 52.
  rewrite (sub64_spec exp 1023) by lia.
  destruct (1023 <=? exp) eqn:E1.
  2:{ apply N.leb_gt in E1.
      replace (52 <? exp + 2 ^ 64 - 1023) with true by (symmetry; apply N.ltb_lt; lia). lia. }
  apply N.leb_le in E1.
  destruct (52 <? exp - 1023) eqn:E2.
  { apply N.ltb_lt in E2. lia. }
  apply N.ltb_ge in E2.
  rewrite (sub64_spec 52 (exp - 1023)) by lia.
  replace (exp - 1023 <=? 52) with true by (symmetry; apply N.leb_le; lia).
  replace (52 - (exp - 1023)) with (1075 - exp) by lia.
  set (sh := 1075 - exp). assert (Hsh : sh <= 52) by (unfold sh; lia).
  change (shl64 1 52) with (1 * 2 ^ 52). rewrite N.lor_comm, lor_disjoint by exact Hm.
  replace (1 * 2 ^ 52 + mant) with M by (unfold M; lia).
  rewrite shr64_spec by lia. rewrite shl64_spec by lia.
  assert (P : 2 ^ sh <> 0) by (apply N.pow_nonzero; lia).
  assert (HM : M < 2 ^ 53) by (unfold M; change (2 ^ 53) with (2 * 2 ^ 52); lia).
  pose proof (N.div_mod M (2 ^ sh) P) as DM.
  pose proof (N.mod_upper_bound M (2 ^ sh) P) as MU.
  assert (Hsmall : M / 2 ^ sh * 2 ^ sh < 2 ^ 64).
  { assert (2 ^ 53 < 2 ^ 64) by (vm_compute; reflexivity). lia. }
  rewrite (N.mod_small _ _ Hsmall).
  destruct (M / 2 ^ sh * 2 ^ sh =? M) eqn:E3; cbn [negb].
  - apply N.eqb_eq in E3.
    assert (Hpos : 0 < M / 2 ^ sh).
    { apply N.div_str_pos. split; [lia|]. unfold M.
      assert (2 ^ sh <= 2 ^ 52) by (apply N.pow_le_mono_r; lia). lia. }
    assert (Hlt : M / 2 ^ sh < 10 ^ N.of_nat 20).
    { assert (2 ^ 53 < 10 ^ N.of_nat 20) by (vm_compute; reflexivity).
      assert (M / 2 ^ sh <= M) by (apply N.div_le_upper_bound; [exact P|]; nia). lia. }
    destruct (strip10_spec 20 (M / 2 ^ sh) 0%Z Hpos Hlt ltac:(lia) ltac:(cbn; lia)) as (m' & k & S1 & S2 & S3).
    rewrite S1. cbn [obind].
    split; [lia|]. split; [lia|]. split.
    + replace (Z.to_N (0 + Z.of_N k)) with k by lia. rewrite <- S2. exact E3.
    + split; [exact S3|]. destruct m'; [cbn in S3; congruence|lia].
  - apply N.eqb_neq in E3. intros (_ & D). apply E3. lia.
Qed.
