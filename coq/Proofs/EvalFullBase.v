(* Proofs/EvalFullBase.v — frame-level lemmas used by the full Eval theorem (Proofs/EvalFull.v):
   name resolution in frames with pairwise different column names, appending a column, Select/Drop as a filter of
   the column list, setColumn at table level, and the column builders behind Apply (constant, func(T) U,
   func(T, T) T) read back through an arbitrary row index. *)
From QF Require Import Base.Prelude Model.Frame Model.Filter Model.Ops Model.TableSpec Proofs.OpsProofs.
Local Open Scope nat_scope.

(* ------------------------------------------------------------------ lists *)

Lemma NoDup_app_iff {A} (l1 l2 : list A) :
  NoDup (l1 ++ l2) <-> NoDup l1 /\ NoDup l2 /\ (forall x, In x l1 -> ~ In x l2).
Proof.
  induction l1 as [|a l1 IH]; simpl.
  - split; [intro H; repeat split; [constructor|exact H|intros x []]|intros [_ [H _]]; exact H].
  - split.
    + intro H. inversion H as [|? ? Hn Hnd]; subst. apply IH in Hnd as [H1 [H2 H3]].
      repeat split; [constructor; [intro Hi; apply Hn; apply in_or_app; left; exact Hi|exact H1]|exact H2|].
      intros x [->|Hx]; [intro Hi; apply Hn; apply in_or_app; right; exact Hi|apply H3; exact Hx].
    + intros [H1 [H2 H3]]. inversion H1 as [|? ? Hn Hnd]; subst. constructor.
      * intro Hi. apply in_app_or in Hi as [Hi|Hi]; [exact (Hn Hi)|exact (H3 a (or_introl eq_refl) Hi)].
      * apply IH. repeat split; [exact Hnd|exact H2|intros x Hx; apply H3; right; exact Hx].
Qed.

Lemma filter_all {A} (p : A -> bool) (l : list A) : Forall (fun x => p x = true) l -> filter p l = l.
Proof. induction 1 as [|x l Hx Hl IH]; simpl; [reflexivity|rewrite Hx, IH; reflexivity]. Qed.

Lemma filter_none {A} (p : A -> bool) (l : list A) : Forall (fun x => p x = false) l -> filter p l = [].
Proof. induction 1 as [|x l Hx Hl IH]; simpl; [reflexivity|rewrite Hx, IH; reflexivity]. Qed.

Lemma set_nth_app_l {A} (l1 l2 : list A) k v : k < length l1 -> set_nth (l1 ++ l2) k v = set_nth l1 k v ++ l2.
Proof.
  revert k. induction l1 as [|x l1 IH]; intros [|k] H; simpl in *; try lia; [reflexivity|].
  f_equal. apply IH. lia.
Qed.

Lemma map_set_nth {A B} (g : A -> B) (l : list A) k v : map g (set_nth l k v) = set_nth (map g l) k (g v).
Proof. revert k. induction l as [|x l IH]; intros [|k]; simpl; try reflexivity. f_equal. apply IH. Qed.

Lemma set_nth_same {A} (l : list A) k v : nth_error l k = Some v -> set_nth l k v = l.
Proof.
  revert k. induction l as [|x l IH]; intros [|k] H; simpl in *; try discriminate.
  - inversion H; reflexivity.
  - f_equal. apply IH. exact H.
Qed.

Lemma existsb_bytes_In n names : existsb (bytes_eqb n) names = true <-> In n names.
Proof.
  rewrite existsb_exists. split.
  - intros [x [Hx He]]. apply bytes_eqb_spec in He. subst. exact Hx.
  - intro H. exists n. split; [exact H|apply bytes_eqb_refl].
Qed.

Lemma bytes_eqb_false a b : bytes_eqb a b = false <-> a <> b.
Proof.
  split.
  - intros H E. subst. rewrite bytes_eqb_refl in H. discriminate.
  - intro H. destruct (bytes_eqb a b) eqn:E; [|reflexivity]. apply bytes_eqb_spec in E. contradiction.
Qed.

Lemma bytes_eq_dec (a b : bytes) : {a = b} + {a <> b}.
Proof. destruct (bytes_eqb a b) eqn:E; [left; apply bytes_eqb_spec; exact E|right; apply bytes_eqb_false; exact E]. Qed.

(* ------------------------------------------------------------------ omap *)

Lemma omap_app {A B} (g : A -> outcome B) l1 l2 r1 r2 :
  omap g l1 = Ok r1 -> omap g l2 = Ok r2 -> omap g (l1 ++ l2) = Ok (r1 ++ r2).
Proof.
  revert r1. induction l1 as [|x l1 IH]; intros r1 H1 H2; simpl in *.
  - inversion H1. exact H2.
  - destruct (g x) as [y| |]; simpl in *; try discriminate.
    destruct (omap g l1) as [ys| |] eqn:E; simpl in *; try discriminate.
    inversion H1; subst. rewrite (IH ys eq_refl H2). reflexivity.
Qed.

Lemma omap_set_nth {A B} (g : A -> outcome B) : forall l r k x y,
  omap g l = Ok r -> g x = Ok y -> omap g (set_nth l k x) = Ok (set_nth r k y).
Proof.
  induction l as [|a l IH]; intros r k x y H Hx; simpl in H.
  - inversion H; subst. destruct k; reflexivity.
  - destruct (g a) as [b| |] eqn:Ea; simpl in H; try discriminate.
    destruct (omap g l) as [bs'| |] eqn:E; simpl in H; try discriminate.
    inversion H; subst. destruct k as [|k]; simpl.
    + rewrite Hx, E. reflexivity.
    + rewrite Ea, (IH bs' k x y eq_refl Hx). reflexivity.
Qed.

Lemma omap_nth {A B} (g : A -> outcome B) : forall l r k x,
  omap g l = Ok r -> nth_error l k = Some x -> exists y, g x = Ok y /\ nth_error r k = Some y.
Proof.
  induction l as [|a l IH]; intros r k x H Hk; [destruct k; discriminate|].
  simpl in H. destruct (g a) as [b| |] eqn:Ea; simpl in H; try discriminate.
  destruct (omap g l) as [bs'| |] eqn:E; simpl in H; try discriminate.
  inversion H; subst. destruct k as [|k]; simpl in *.
  - inversion Hk; subst. exists b. split; [exact Ea|reflexivity].
  - apply (IH bs' k x eq_refl Hk).
Qed.

(* reading, then applying = applying to what was read *)
Lemma omap_bind {A B C} (g : A -> outcome B) (k : B -> outcome C) : forall l r,
  omap g l = Ok r -> omap (fun x => do y <- g x; k y) l = omap k r.
Proof.
  induction l as [|a l IH]; intros r H; simpl in H.
  - inversion H. reflexivity.
  - destruct (g a) as [b| |] eqn:Ea; simpl in H; try discriminate.
    destruct (omap g l) as [bs'| |] eqn:E; simpl in H; try discriminate.
    inversion H; subst. simpl. rewrite Ea. cbn [obind]. rewrite (IH bs' eq_refl). reflexivity.
Qed.

Lemma omap_bind2 {A B C} (g1 g2 : A -> outcome B) (k : B -> B -> outcome C) : forall l r1 r2,
  omap g1 l = Ok r1 -> omap g2 l = Ok r2 ->
  omap (fun p => do x <- g1 p; do y <- g2 p; k x y) l = omap (fun xy => k (fst xy) (snd xy)) (combine r1 r2).
Proof.
  induction l as [|a l IH]; intros r1 r2 H1 H2; simpl in H1, H2.
  - inversion H1; inversion H2. reflexivity.
  - destruct (g1 a) as [b1| |] eqn:E1; simpl in H1; try discriminate.
    destruct (omap g1 l) as [bs1| |] eqn:F1; simpl in H1; try discriminate.
    destruct (g2 a) as [b2| |] eqn:E2; simpl in H2; try discriminate.
    destruct (omap g2 l) as [bs2| |] eqn:F2; simpl in H2; try discriminate.
    inversion H1; inversion H2; subst. simpl. rewrite E1, E2. cbn [obind].
    rewrite (IH bs1 bs2 eq_refl eq_refl). reflexivity.
Qed.

Lemma omap_Forall_out {A B} (g : A -> outcome B) (P : B -> Prop) : forall l r,
  (forall x y, g x = Ok y -> P y) -> omap g l = Ok r -> Forall P r.
Proof.
  induction l as [|a l IH]; intros r HP H; simpl in H.
  - inversion H. constructor.
  - destruct (g a) as [b| |] eqn:Ea; simpl in H; try discriminate.
    destruct (omap g l) as [bs'| |] eqn:E; simpl in H; try discriminate.
    inversion H; subst. constructor; [apply (HP a b Ea)|apply (IH bs' HP eq_refl)].
Qed.

(* a function that never fails (only Ok / Panic) maps to Ok or Panic *)
Lemma omap_no_fail {A B} (g : A -> outcome B) : (forall x, g x <> Fail) -> forall l, omap g l <> Fail.
Proof.
  intros Hg. induction l as [|a l IH]; simpl; [discriminate|].
  destruct (g a) as [b| |] eqn:Ea; simpl; [|exfalso; exact (Hg a Ea)|discriminate].
  destruct (omap g l) as [bs'| |]; simpl; [discriminate|exfalso; apply IH; reflexivity|discriminate].
Qed.

Lemma omap_const {A B} (v : B) (l : list A) : omap (fun _ => Ok v) l = Ok (map (fun _ => v) l).
Proof. induction l as [|a l IH]; simpl; [reflexivity|rewrite IH; reflexivity]. Qed.

(* ------------------------------------------------------------------ name resolution *)

Lemma lookup_from_notin n : forall cs pos acc, ~ In n (map fst cs) -> lookup_from n cs pos acc = acc.
Proof.
  induction cs as [|[m c] cs IH]; intros pos acc H; simpl; [reflexivity|].
  simpl in H. destruct (bytes_eqb m n) eqn:E.
  - apply bytes_eqb_spec in E. exfalso. apply H. left. exact E.
  - apply IH. intro Hi. apply H. right. exact Hi.
Qed.

Lemma lookup_from_last_occ n c : forall cs1 cs2 pos acc, ~ In n (map fst cs2) ->
  lookup_from n (cs1 ++ (n, c) :: cs2) pos acc = Some (pos + length cs1, c).
Proof.
  induction cs1 as [|[m c1] cs1 IH]; intros cs2 pos acc H; simpl.
  - rewrite bytes_eqb_refl. rewrite (lookup_from_notin n cs2 _ _ H). f_equal. f_equal. lia.
  - rewrite (IH cs2 (S pos) _ H). f_equal. f_equal. lia.
Qed.

Lemma contains_In f n : contains f n = true <-> In n (col_names f).
Proof.
  unfold contains, lookup, col_names. split.
  - intro H. destruct (in_dec bytes_eq_dec n (map fst (cols f))) as [Hi|Hn]; [exact Hi|].
    rewrite (lookup_from_notin n (cols f) 0 None Hn) in H. discriminate.
  - intro H. induction (cols f) as [|[m c] cs IH] using rev_ind; [destruct H|].
    rewrite map_app in H. simpl in H. apply in_app_or in H.
    destruct (bytes_eq_dec m n) as [->|Hne].
    + rewrite (lookup_from_last_occ n c cs [] 0 None); [reflexivity|intros []].
    + rewrite lookup_from_app_other by (apply bytes_eqb_false; exact Hne).
      apply IH. destruct H as [H|[H|[]]]; [exact H|contradiction].
Qed.

Lemma contains_false_In f n : contains f n = false <-> ~ In n (col_names f).
Proof.
  rewrite <- contains_In. destruct (contains f n); split; intro H; congruence.
Qed.

Lemma lookup_col_contains f n : contains f n = (match lookup_col f n with Some _ => true | None => false end).
Proof. unfold contains, lookup_col. destruct (lookup f n); reflexivity. Qed.

Lemma lookup_nodup f n c :
  NoDup (col_names f) -> In (n, c) (cols f) -> lookup_col f n = Some c.
Proof.
  unfold col_names, lookup_col, lookup. intros Hnd Hin.
  apply in_split in Hin as [cs1 [cs2 Hs]]. rewrite Hs in *.
  rewrite map_app in Hnd. simpl in Hnd. apply NoDup_app_iff in Hnd as [_ [H2 _]].
  inversion H2 as [|? ? Hn _]; subst.
  rewrite (lookup_from_last_occ n c cs1 cs2 0 None Hn). reflexivity.
Qed.

Lemma lookup_col_In f n c : lookup_col f n = Some c -> In (n, c) (cols f).
Proof.
  unfold lookup_col. destruct (lookup f n) as [[p c0]|] eqn:E; [|discriminate].
  intro H. inversion H; subst. apply lookup_some_nth in E. eapply nth_error_In. exact E.
Qed.

(* ------------------------------------------------------------------ appending a column *)

Definition ext (f : frame) (name : bytes) (c : coldata) : frame := mkFrame (cols f ++ [(name, c)]) (ix f) false.

Lemma ext_lookup_same f name c : lookup_col (ext f name c) name = Some c.
Proof. unfold lookup_col, lookup, ext. cbn [cols]. rewrite lookup_from_app_same. reflexivity. Qed.

Lemma ext_lookup_other f name c m : m <> name -> lookup (ext f name c) m = lookup f m.
Proof.
  intro H. unfold lookup, ext. cbn [cols]. apply lookup_from_app_other. apply bytes_eqb_false. congruence.
Qed.

Lemma ext_lookup_col_other f name c m : m <> name -> lookup_col (ext f name c) m = lookup_col f m.
Proof. intro H. unfold lookup_col. rewrite (ext_lookup_other f name c m H). reflexivity. Qed.

Lemma ext_contains_other f name c m : m <> name -> contains (ext f name c) m = contains f m.
Proof. intro H. unfold contains. rewrite (ext_lookup_other f name c m H). reflexivity. Qed.

Lemma ext_col_names f name c : col_names (ext f name c) = col_names f ++ [name].
Proof. unfold col_names, ext. cbn [cols]. rewrite map_app. reflexivity. Qed.

Lemma ext_nodup f name c : NoDup (col_names f) -> contains f name = false -> NoDup (col_names (ext f name c)).
Proof.
  intros Hnd Hc. rewrite ext_col_names. apply NoDup_app_iff. repeat split; [exact Hnd|repeat constructor; intros []|].
  intros x Hx [->|[]]. apply contains_false_In in Hc. contradiction.
Qed.

Lemma set_column_fresh f name c :
  ferr f = false -> contains f name = false -> check_name name = true -> set_column f name c = ext f name c.
Proof.
  intros Hf Hc Hn. unfold set_column, ext. rewrite Hn. simpl negb. cbv iota.
  unfold contains in Hc. destruct (lookup f name); [discriminate|]. rewrite Hf. reflexivity.
Qed.

(* ------------------------------------------------------------------ Select / Drop as filters of the column list *)

Lemma select_flat_filter f (keep : bytes -> bool) : forall l,
  (forall nc, In nc l -> lookup_col f (fst nc) = Some (snd nc)) ->
  flat_map (fun n => match lookup_col f n with Some c => [(n, c)] | None => [] end) (filter keep (map fst l))
  = filter (fun nc => keep (fst nc)) l.
Proof.
  induction l as [|[n c] l IH]; intro H; simpl; [reflexivity|].
  destruct (keep n) eqn:E; simpl.
  - pose proof (H (n, c) (or_introl eq_refl)) as Hn. cbn [fst snd] in Hn. rewrite Hn. simpl. f_equal.
    apply IH. intros nc Hnc. apply H. right. exact Hnc.
  - apply IH. intros nc Hnc. apply H. right. exact Hnc.
Qed.

Lemma drop_filter f names :
  ferr f = false -> NoDup (col_names f) -> names <> [] ->
  let keep := fun n => negb (existsb (bytes_eqb n) names) in
  filter keep (col_names f) <> [] ->
  drop f names = mkFrame (filter (fun nc => keep (fst nc)) (cols f)) (ix f) false.
Proof.
  intros Hf Hnd Hne keep Hk. unfold drop. rewrite Hf.
  destruct names as [|n0 names]; [congruence|].
  fold keep. unfold select. rewrite Hf.
  assert (Hall : forallb (contains f) (filter keep (col_names f)) = true).
  { apply forallb_forall. intros x Hx. apply filter_In in Hx as [Hx _]. apply contains_In. exact Hx. }
  rewrite Hall. simpl negb. cbv iota.
  destruct (filter keep (col_names f)) as [|k0 ks] eqn:Ek; [congruence|].
  rewrite <- Ek. unfold col_names.
  rewrite (select_flat_filter f keep (cols f)); [reflexivity|].
  intros [n c] Hin. apply lookup_nodup; assumption.
Qed.

(* dropping a middle segment of pairwise different names *)
Lemma drop_middle A B C ixs :
  NoDup (map fst (A ++ B ++ C)) -> B <> [] -> A ++ C <> [] ->
  drop (mkFrame (A ++ B ++ C) ixs false) (map fst B) = mkFrame (A ++ C) ixs false.
Proof.
  intros Hnd HB HAC.
  set (keep := fun n => negb (existsb (bytes_eqb n) (map fst B))).
  rewrite !map_app in Hnd. apply NoDup_app_iff in Hnd as [HA [HBC HABC]].
  apply NoDup_app_iff in HBC as [HB' [HC HBC]].
  assert (FA : filter (fun nc => keep (fst nc)) A = A).
  { apply filter_all. apply Forall_forall. intros [n c] Hin. unfold keep. cbn [fst].
    destruct (existsb (bytes_eqb n) (map fst B)) eqn:E; [|reflexivity].
    apply existsb_bytes_In in E. exfalso. apply (HABC n); [apply in_map_iff; exists (n, c); split; [reflexivity|exact Hin]|].
    apply in_or_app. left. exact E. }
  assert (FB : filter (fun nc => keep (fst nc)) B = []).
  { apply filter_none. apply Forall_forall. intros [n c] Hin. unfold keep. cbn [fst].
    assert (E : existsb (bytes_eqb n) (map fst B) = true).
    { apply existsb_bytes_In. apply in_map_iff. exists (n, c). split; [reflexivity|exact Hin]. }
    rewrite E. reflexivity. }
  assert (FC : filter (fun nc => keep (fst nc)) C = C).
  { apply filter_all. apply Forall_forall. intros [n c] Hin. unfold keep. cbn [fst].
    destruct (existsb (bytes_eqb n) (map fst B)) eqn:E; [|reflexivity].
    apply existsb_bytes_In in E. exfalso. apply (HBC n E). apply in_map_iff. exists (n, c). split; [reflexivity|exact Hin]. }
  assert (Fall : filter (fun nc => keep (fst nc)) (A ++ B ++ C) = A ++ C).
  { rewrite !filter_app, FA, FB, FC. reflexivity. }
  rewrite drop_filter; cbn [ferr cols ix col_names].
  - f_equal. exact Fall.
  - reflexivity.
  - unfold col_names. cbn [cols]. rewrite !map_app. apply NoDup_app_iff. repeat split; try assumption.
    apply NoDup_app_iff. repeat split; assumption.
  - destruct B; [congruence|discriminate].
  - fold keep. unfold col_names. cbn [cols].
    assert (Hm : filter keep (map fst (A ++ B ++ C)) = map fst (filter (fun nc => keep (fst nc)) (A ++ B ++ C))).
    { generalize (A ++ B ++ C). intro l. induction l as [|[n c] l IH]; simpl; [reflexivity|].
      destruct (keep n); simpl; rewrite IH; reflexivity. }
    rewrite Hm, Fall. intro H0. apply map_eq_nil in H0. contradiction.
Qed.

(* ------------------------------------------------------------------ the logical table of a frame *)

Lemma last_pos_lookup n : forall cs pos acc,
  last_pos_from n (map fst cs) pos (option_map fst acc) = option_map fst (lookup_from n cs pos acc).
Proof.
  induction cs as [|[m c] cs IH]; intros pos acc; simpl; [reflexivity|].
  rewrite <- IH. destruct (bytes_eqb m n); reflexivity.
Qed.

Lemma tpos_abs f t n : abs f = Ok t -> tpos t n = option_map fst (lookup f n).
Proof.
  intro H. destruct (abs_rows f t H) as [_ [Hn _]]. unfold tpos, lookup. rewrite Hn. unfold col_names.
  apply (last_pos_lookup n (cols f) 0 None).
Qed.

Lemma rows_col f p n c : forall ixs rows,
  omap (row_at f) ixs = Ok rows -> nth_error (cols f) p = Some (n, c) ->
  omap (cell_at c) ixs = Ok (map (fun row => nth p row (CInt 0)) rows).
Proof.
  induction ixs as [|q ixs IH]; intros rows H Hp; simpl in H.
  - inversion H. reflexivity.
  - destruct (row_at f q) as [row| |] eqn:Er; simpl in H; try discriminate.
    destruct (omap (row_at f) ixs) as [rs| |] eqn:E; simpl in H; try discriminate.
    inversion H; subst. unfold row_at in Er.
    destruct (omap_nth _ _ _ p (n, c) Er Hp) as [y [Hy Hn]]. cbn [snd] in Hy.
    simpl. rewrite Hy. cbn [obind]. rewrite (IH rs eq_refl Hp). cbn [obind].
    rewrite (nth_error_nth _ _ (CInt 0) Hn). reflexivity.
Qed.

Lemma tcolumn_abs f t n p c :
  abs f = Ok t -> lookup f n = Some (p, c) ->
  exists cs, omap (cell_at c) (ix f) = Ok cs /\ tcolumn t n = Some (col_type c, cs).
Proof.
  intros H Hl. pose proof (tpos_abs f t n H) as Hp. rewrite Hl in Hp. cbn in Hp.
  destruct (abs_rows f t H) as [Hrows [Hn Hty]].
  pose proof (lookup_some_nth f n p c Hl) as Hnth.
  exists (map (fun row => nth p row (CInt 0)) (trows t)). split.
  - apply (rows_col f p n c _ _ Hrows Hnth).
  - unfold tcolumn. rewrite Hp, Hty. f_equal. f_equal.
    apply nth_error_nth. rewrite nth_error_map, Hnth. reflexivity.
Qed.

Lemma tcolumn_abs_none f t n : abs f = Ok t -> lookup_col f n = None -> tcolumn t n = None.
Proof.
  intros H Hl. unfold tcolumn. rewrite (tpos_abs f t n H). unfold lookup_col in Hl.
  destruct (lookup f n); [discriminate|reflexivity].
Qed.

Lemma abs_nrows f t : abs f = Ok t -> length (trows t) = length (ix f).
Proof. intro H. destruct (abs_rows f t H) as [Hr _]. apply (omap_length _ _ _ Hr). Qed.

Lemma rows_append f name c i e : forall ixs rows cs,
  omap (row_at f) ixs = Ok rows -> omap (cell_at c) ixs = Ok cs ->
  omap (row_at (mkFrame (cols f ++ [(name, c)]) i e)) ixs = Ok (map (fun rc => fst rc ++ [snd rc]) (combine rows cs)).
Proof.
  induction ixs as [|q ixs IH]; intros rows cs H Hc; simpl in H, Hc.
  - inversion H; inversion Hc. reflexivity.
  - destruct (row_at f q) as [row| |] eqn:Er; simpl in H; try discriminate.
    destruct (omap (row_at f) ixs) as [rs| |] eqn:E; simpl in H; try discriminate.
    destruct (cell_at c q) as [y| |] eqn:Ey; simpl in Hc; try discriminate.
    destruct (omap (cell_at c) ixs) as [ys| |] eqn:E2; simpl in Hc; try discriminate.
    inversion H; inversion Hc; subst. simpl.
    assert (Hrow : row_at (mkFrame (cols f ++ [(name, c)]) i e) q = Ok (row ++ [y])).
    { unfold row_at in *. cbn [cols]. apply omap_app; [exact Er|]. simpl. rewrite Ey. reflexivity. }
    rewrite Hrow. cbn [obind]. rewrite (IH rs ys eq_refl eq_refl). reflexivity.
Qed.

Lemma rows_replace f name c pos i e : forall ixs rows cs,
  omap (row_at f) ixs = Ok rows -> omap (cell_at c) ixs = Ok cs ->
  omap (row_at (mkFrame (set_nth (cols f) pos (name, c)) i e)) ixs
  = Ok (map (fun rc => set_nth (fst rc) pos (snd rc)) (combine rows cs)).
Proof.
  induction ixs as [|q ixs IH]; intros rows cs H Hc; simpl in H, Hc.
  - inversion H; inversion Hc. reflexivity.
  - destruct (row_at f q) as [row| |] eqn:Er; simpl in H; try discriminate.
    destruct (omap (row_at f) ixs) as [rs| |] eqn:E; simpl in H; try discriminate.
    destruct (cell_at c q) as [y| |] eqn:Ey; simpl in Hc; try discriminate.
    destruct (omap (cell_at c) ixs) as [ys| |] eqn:E2; simpl in Hc; try discriminate.
    inversion H; inversion Hc; subst. simpl.
    assert (Hrow : row_at (mkFrame (set_nth (cols f) pos (name, c)) i e) q = Ok (set_nth row pos y)).
    { unfold row_at in *. cbn [cols]. apply (omap_set_nth _ _ _ pos (name, c) y Er). exact Ey. }
    rewrite Hrow. cbn [obind]. rewrite (IH rs ys eq_refl eq_refl). reflexivity.
Qed.

(* setColumn denotes "replace the column in its position, else append it last" *)
Theorem abs_set_column f dst c t cs :
  check_name dst = true -> abs f = Ok t -> omap (cell_at c) (ix f) = Ok cs ->
  abs (set_column f dst c) = Ok (tset_col t dst (col_type c) cs).
Proof.
  intros Hn Ha Hc. destruct (abs_rows f t Ha) as [Hrows [Hnm Hty]].
  pose proof (tpos_abs f t dst Ha) as Hp.
  unfold set_column. rewrite Hn. simpl negb. cbv iota. unfold tset_col. rewrite Hp.
  destruct (lookup f dst) as [[pos c0]|] eqn:El; cbn [option_map fst].
  - pose proof (lookup_some_nth f dst pos c0 El) as Hnth.
    unfold abs. cbn [ix cols]. rewrite (rows_replace f dst c pos (ix f) (ferr f) _ _ _ Hrows Hc). cbn [obind].
    f_equal. unfold col_names. cbn [cols]. rewrite !map_set_nth. cbn [fst snd].
    rewrite Hnm, Hty. f_equal.
    unfold col_names. apply set_nth_same. rewrite nth_error_map, Hnth. reflexivity.
  - unfold abs. cbn [ix cols]. rewrite (rows_append f dst c (ix f) (ferr f) _ _ _ Hrows Hc). cbn [obind].
    f_equal. unfold col_names. cbn [cols]. rewrite !map_app. cbn [map fst snd]. rewrite Hnm, Hty. reflexivity.
Qed.

(* ------------------------------------------------------------------ the column builders behind Apply *)

Definition colok (n : nat) (c : coldata) : Prop := col_len c = n /\ col_wf c = true.

(* reading the scattered array at an index position returns what was computed FOR that position; the row index
   may list a physical position more than once (every write to it stores the same value) *)
Lemma scatter_read_fun (h : nat -> outcome cell) : forall index base vals arr,
  omap h index = Ok vals -> scatter base index vals = Ok arr ->
  forall q, In q index -> of_option (nth_error arr q) = h q.
Proof.
  induction index as [|p index IH]; intros base vals arr Hv Hs q Hq; [destruct Hq|].
  simpl in Hv. destruct (h p) as [v| |] eqn:Ep; simpl in Hv; try discriminate.
  destruct (omap h index) as [vs| |] eqn:E; simpl in Hv; try discriminate.
  inversion Hv; subst. simpl in Hs. destruct (p <? length base) eqn:El; [|discriminate].
  apply Nat.ltb_lt in El.
  destruct (in_dec Nat.eq_dec q index) as [Hi|Hni].
  - apply (IH _ vs arr eq_refl Hs q Hi).
  - destruct Hq as [->|Hq]; [|contradiction].
    rewrite (scatter_outside _ _ _ _ q Hs Hni), (nth_error_set_nth_eq _ _ _ El), Ep. reflexivity.
Qed.

Lemma non_enum_wf c : col_type c <> TEnum -> col_wf c = true.
Proof. destruct c; simpl; congruence. Qed.

Lemma build_col (h : nat -> outcome cell) t n index vals :
  t <> TEnum -> Forall (fun p => p < n) index -> omap h index = Ok vals ->
  Forall (fun y => cell_type_ok t y = true) vals ->
  exists c, (do cells <- scatter (repeat (zero_cell t) n) index vals; col_of_cells t cells) = Ok c
    /\ col_type c = t /\ colok n c /\ omap (cell_at c) index = Ok vals.
Proof.
  intros Ht Hin Hv Hty.
  pose proof (omap_length _ _ _ Hv) as Hlen.
  assert (Hbase : Forall (fun p => p < length (repeat (zero_cell t) n)) index) by (rewrite repeat_length; exact Hin).
  destruct (scatter_ok index _ vals Hlen Hbase) as [arr [Harr Hal]].
  assert (Hok : Forall (fun y => cell_type_ok t y = true) arr).
  { eapply scatter_Forall; [| |exact Harr]; [apply repeat_Forall; apply zero_cell_ok; exact Ht|exact Hty]. }
  destruct (col_of_cells_spec t arr Ht Hok) as [r [Hr [Hrt [Hrl Hcell]]]].
  exists r. rewrite Harr. cbn [obind]. split; [exact Hr|]. split; [exact Hrt|]. split.
  - split; [rewrite Hrl, Hal, repeat_length; reflexivity|apply non_enum_wf; rewrite Hrt; exact Ht].
  - rewrite <- Hv. apply omap_ext_local. intros p Hp. rewrite Hcell.
    apply (scatter_read_fun h index _ vals arr Hv Harr p Hp).
Qed.

Definition cell_ty (c : cell) : ctype :=
  match c with CInt _ => TInt | CFloat _ => TFloat | CBool _ => TBool | CStr _ => TString | CEnum _ => TEnum end.

Lemma const_col_spec v n : cell_ty v <> TEnum ->
  exists c, const_col v n = Ok c /\ col_type c = cell_ty v /\ colok n c
    /\ forall index, Forall (fun p => p < n) index -> omap (cell_at c) index = Ok (map (fun _ => v) index).
Proof.
  intro Hv.
  assert (G : forall c, col_len c = n -> (forall p, p < n -> cell_at c p = Ok v) ->
            forall index, Forall (fun p => p < n) index -> omap (cell_at c) index = Ok (map (fun _ => v) index)).
  { intros c _ Hc index Hin. rewrite <- omap_const. apply omap_ext_local. intros p Hp.
    apply Hc. rewrite Forall_forall in Hin. apply Hin. exact Hp. }
  destruct v as [z|b|b|s|s]; simpl in Hv; try congruence; simpl.
  - exists (ICol (repeat z n)). repeat split; try apply repeat_length.
    apply G; [apply repeat_length|]. intros p Hp. simpl. unfold idx. rewrite (nth_error_repeat z n p Hp). reflexivity.
  - exists (FCol (repeat b n)). repeat split; try apply repeat_length.
    apply G; [apply repeat_length|]. intros p Hp. simpl. unfold idx. rewrite (nth_error_repeat b n p Hp). reflexivity.
  - exists (BCol (repeat b n)). repeat split; try apply repeat_length.
    apply G; [apply repeat_length|]. intros p Hp. simpl. unfold idx. rewrite (nth_error_repeat b n p Hp). reflexivity.
  - exists (SCol (repeat s n)). repeat split; try apply repeat_length.
    apply G; [apply repeat_length|]. intros p Hp. simpl. unfold idx. rewrite (nth_error_repeat s n p Hp). reflexivity.
Qed.

Lemma tbl1_no_fail tbl x : tbl1 tbl x <> Fail.
Proof. unfold tbl1. destruct (find _ tbl); discriminate. Qed.
Lemma tbl2_no_fail tbl x y : tbl2 tbl x y <> Fail.
Proof. unfold tbl2. destruct (find _ tbl); discriminate. Qed.

Lemma tbl1_typed tbl t : forallb (fun e => cell_type_ok t (snd e)) tbl = true ->
  forall x y, tbl1 tbl x = Ok y -> cell_type_ok t y = true.
Proof.
  intros H x y. unfold tbl1. destruct (find _ tbl) as [e|] eqn:E; [|discriminate].
  intro Hy. inversion Hy; subst. apply find_some in E as [Hin _].
  rewrite forallb_forall in H. apply (H e Hin).
Qed.
Lemma tbl2_typed tbl t : forallb (fun e => cell_type_ok t (snd e)) tbl = true ->
  forall x y z, tbl2 tbl x y = Ok z -> cell_type_ok t z = true.
Proof.
  intros H x y z. unfold tbl2. destruct (find _ tbl) as [e|] eqn:E; [|discriminate].
  intro Hy. inversion Hy; subst. apply find_some in E as [Hin _].
  rewrite forallb_forall in H. apply (H e Hin).
Qed.

Lemma outcome_cases {A} (o : outcome A) : (exists a, o = Ok a) \/ o = Fail \/ o = Panic.
Proof. destruct o; [left; eexists; reflexivity|right; left; reflexivity|right; right; reflexivity]. Qed.

(* Column.Apply1 with a recorded func(T) U *)
Lemma col_apply1_mismatch ut c tin tout tbl index :
  ctype_eqb (col_ftype c) tin && negb (ctype_eqb tout TEnum) = false ->
  col_apply1 ut c (F1 tin tout tbl) index = Fail.
Proof. intro H. unfold col_apply1. rewrite H. reflexivity. Qed.

Lemma col_apply1_ok ut c tin tout tbl index n cells out :
  ctype_eqb (col_ftype c) tin && negb (ctype_eqb tout TEnum) = true ->
  col_len c = n -> Forall (fun p => p < n) index -> omap (cell_at c) index = Ok cells ->
  forallb (fun e => cell_type_ok tout (snd e)) tbl = true ->
  omap (tbl1 tbl) cells = Ok out ->
  exists c', col_apply1 ut c (F1 tin tout tbl) index = Ok c'
    /\ col_type c' = tout /\ colok n c' /\ omap (cell_at c') index = Ok out.
Proof.
  intros Hchk Hlen Hin Hcells Htbl Hout. unfold col_apply1. rewrite Hchk.
  apply andb_true_iff in Hchk as [_ Hte].
  assert (Ht : tout <> TEnum) by (intro; subst; discriminate).
  assert (Hv : omap (fun p => do x <- cell_at c p; tbl1 tbl x) index = Ok out).
  { rewrite (omap_bind (cell_at c) (tbl1 tbl) index cells Hcells). exact Hout. }
  assert (Hty : Forall (fun y => cell_type_ok tout y = true) out).
  { apply (omap_Forall_out (tbl1 tbl) _ cells out); [|exact Hout]. intros x y. apply (tbl1_typed tbl tout Htbl). }
  destruct (build_col _ tout n index out Ht Hin Hv Hty) as [c' [Hc' [Hty' [Hok Hrd]]]].
  exists c'. rewrite Hv. cbn [obind]. rewrite Hlen. auto.
Qed.

Lemma col_apply1_open ut c tin tout tbl index cells :
  ctype_eqb (col_ftype c) tin && negb (ctype_eqb tout TEnum) = true ->
  omap (cell_at c) index = Ok cells ->
  (forall out, omap (tbl1 tbl) cells <> Ok out) ->
  col_apply1 ut c (F1 tin tout tbl) index = Panic.
Proof.
  intros Hchk Hcells Hno. unfold col_apply1. rewrite Hchk.
  rewrite (omap_bind (cell_at c) (tbl1 tbl) index cells Hcells).
  destruct (outcome_cases (omap (tbl1 tbl) cells)) as [[out Ho]|[Ho|Ho]].
  - exfalso. exact (Hno out Ho).
  - exfalso. exact (omap_no_fail _ (tbl1_no_fail tbl) cells Ho).
  - rewrite Ho. reflexivity.
Qed.

(* Column.Apply2 with a recorded func(T, T) T *)
Lemma col_apply2_mismatch c c2 t tbl index :
  ctype_eqb (col_type c) (col_type c2) && ctype_eqb (col_ftype c) t = false ->
  col_apply2 c c2 (F2 t tbl) index = Fail.
Proof.
  intro H. unfold col_apply2. destruct (ctype_eqb (col_type c) (col_type c2)); simpl in *; [|reflexivity].
  rewrite H. reflexivity.
Qed.

Lemma col_apply2_ok c c2 t tbl index n cells1 cells2 out :
  ctype_eqb (col_type c) (col_type c2) && ctype_eqb (col_ftype c) t = true ->
  col_len c = n -> Forall (fun p => p < n) index ->
  omap (cell_at c) index = Ok cells1 -> omap (cell_at c2) index = Ok cells2 ->
  forallb (fun e => cell_type_ok t (snd e)) tbl = true ->
  omap (fun xy => tbl2 tbl (fst xy) (snd xy)) (combine cells1 cells2) = Ok out ->
  exists c', col_apply2 c c2 (F2 t tbl) index = Ok c'
    /\ col_type c' = t /\ colok n c' /\ omap (cell_at c') index = Ok out.
Proof.
  intros Hchk Hlen Hin Hc1 Hc2 Htbl Hout. unfold col_apply2.
  apply andb_true_iff in Hchk as [Hteq Hft]. rewrite Hteq, Hft. simpl negb. cbv iota.
  assert (Ht : t <> TEnum).
  { intro; subst. unfold col_ftype in Hft. destruct (col_type c); discriminate. }
  assert (Hv : omap (fun p => do x <- cell_at c p; do y <- cell_at c2 p; tbl2 tbl x y) index = Ok out).
  { rewrite (omap_bind2 (cell_at c) (cell_at c2) (tbl2 tbl) index cells1 cells2 Hc1 Hc2). exact Hout. }
  assert (Hty : Forall (fun y => cell_type_ok t y = true) out).
  { apply (omap_Forall_out _ _ _ out) with (2 := Hout). intros [x y] z. apply (tbl2_typed tbl t Htbl). }
  destruct (build_col _ t n index out Ht Hin Hv Hty) as [c' [Hc' [Hty' [Hok Hrd]]]].
  exists c'. rewrite Hv. cbn [obind]. rewrite Hlen. auto.
Qed.

Lemma col_apply2_open c c2 t tbl index cells1 cells2 :
  ctype_eqb (col_type c) (col_type c2) && ctype_eqb (col_ftype c) t = true ->
  omap (cell_at c) index = Ok cells1 -> omap (cell_at c2) index = Ok cells2 ->
  (forall out, omap (fun xy => tbl2 tbl (fst xy) (snd xy)) (combine cells1 cells2) <> Ok out) ->
  col_apply2 c c2 (F2 t tbl) index = Panic.
Proof.
  intros Hchk Hc1 Hc2 Hno. unfold col_apply2.
  apply andb_true_iff in Hchk as [Hteq Hft]. rewrite Hteq, Hft. simpl negb. cbv iota.
  rewrite (omap_bind2 (cell_at c) (cell_at c2) (tbl2 tbl) index cells1 cells2 Hc1 Hc2).
  destruct (outcome_cases (omap (fun xy => tbl2 tbl (fst xy) (snd xy)) (combine cells1 cells2))) as [[out Ho]|[Ho|Ho]].
  - exfalso. exact (Hno out Ho).
  - exfalso. refine (omap_no_fail _ _ _ Ho). intros [x y]. apply tbl2_no_fail.
  - rewrite Ho. reflexivity.
Qed.
