(* Proofs/StringRenderProofs.v — QFrame.String() (Model/StringRender.v) prints the logical table: header, dashes,
   the first min(n, 50) rows of abs f in row order, every cell rendered by StringAt(_, "null") and cut or
   right-aligned to the width of its column, the truncation marker, the Dims footer. *)
From QF Require Import Base.Prelude Model.CsvSpec Model.CsvWrite Model.Observe.
From QF Require Import Model.Frame Model.StringRender Proofs.OpsProofs Proofs.OpsProofs2.
Local Open Scope nat_scope.

(* ------------------------------------------------------------------ fixLengthString *)

Lemma fix_length_ok s pad n : 3 <= n -> fix_length s pad n = Ok (fix_len s pad n).
Proof.
  intro H. unfold fix_length, fix_len. destruct (n <? length s); [|reflexivity].
  destruct (n <? 3) eqn:E; [apply Nat.ltb_lt in E; lia|reflexivity].
Qed.

(* the NB of the Go source: below 3 the slice expression s[:desiredLen-3] panics *)
Lemma fix_length_panics s pad n : n < 3 -> n < length s -> fix_length s pad n = Panic.
Proof.
  intros H1 H2. unfold fix_length. apply Nat.ltb_lt in H1, H2. rewrite H2, H1. reflexivity.
Qed.

(* every printed field has exactly the width of its column *)
Lemma fix_len_length s pad n : 3 <= n -> length (fix_len s pad n) = n.
Proof.
  intro H. unfold fix_len. destruct (n <? length s) eqn:E.
  - apply Nat.ltb_lt in E. rewrite app_length, firstn_length. change (length str_dots) with 3. lia.
  - apply Nat.ltb_ge in E. rewrite app_length, repeat_length. lia.
Qed.

(* a text that fits is printed completely, right-aligned *)
Lemma fix_len_fits s pad n : length s <= n -> fix_len s pad n = repeat pad (n - length s) ++ s.
Proof. intro H. unfold fix_len. destruct (n <? length s) eqn:E; [apply Nat.ltb_lt in E; lia|reflexivity]. Qed.

(* a longer text is cut to its first n-3 bytes followed by "..." (the documented cell-width truncation) *)
Lemma fix_len_cut s pad n : n < length s -> fix_len s pad n = firstn (n - 3) s ++ str_dots.
Proof. intro H. unfold fix_len. apply Nat.ltb_lt in H. rewrite H. reflexivity. Qed.

Lemma col_width_ge name t : 5 <= col_width name t /\ length (col_header name t) <= col_width name t.
Proof. unfold col_width, c_minColWidth. lia. Qed.

(* the column header is never cut *)
Lemma header_fits name t :
  fix_len (col_header name t) c_space (col_width name t)
  = repeat c_space (col_width name t - length (col_header name t)) ++ col_header name t.
Proof. apply fix_len_fits. apply col_width_ge. Qed.

(* ------------------------------------------------------------------ helpers *)

Lemma omap_pure {A B} (h : A -> B) (l : list A) : omap (fun x => Ok (h x)) l = Ok (map h l).
Proof. induction l as [|x l IH]; simpl; [reflexivity|]. rewrite IH. reflexivity. Qed.

Lemma combine_map {A B C} (g : A -> B) (h : A -> C) (l : list A) :
  combine (map g l) (map h l) = map (fun x => (g x, h x)) l.
Proof. induction l as [|x l IH]; simpl; [reflexivity|]. rewrite IH. reflexivity. Qed.

Lemma nth_error_firstn_lt {A} : forall n (l : list A) i, i < n -> nth_error (firstn n l) i = nth_error l i.
Proof.
  induction n as [|n IH]; intros l i H; [lia|]. destruct l as [|x l]; [reflexivity|].
  destruct i as [|i]; [reflexivity|]. simpl. apply IH. lia.
Qed.

Section Proofs.
  Variable ff : N -> bytes.

  (* StringAt(_, "") is the field ToCSV writes: the two serializers render a cell in the same way, up to naRep *)
  Lemma string_at_csv c : string_at ff [] c = csv_cell ff c.
  Proof. destruct c as [z|x|b|[s|]|[s|]]; cbn [string_at csv_cell opt_str]; reflexivity. Qed.

  (* naRep only shows for null / NaN *)
  Lemma string_at_na na c :
    string_at ff na c = match c with
                        | CFloat x => if is_nan_bits x then na else csv_cell ff c
                        | CStr None | CEnum None => na
                        | _ => csv_cell ff c
                        end.
  Proof.
    destruct c as [z|x|b|[s|]|[s|]]; cbn [string_at csv_cell]; try reflexivity.
    destruct (is_nan_bits x); reflexivity.
  Qed.

  Definition wof (nc : bytes * coldata) : nat := col_width (fst nc) (col_type (snd nc)).

  Lemma twidths_cols f t : abs f = Ok t -> twidths t = map wof (cols f).
  Proof.
    intro H. destruct (abs_rows f t H) as [_ [Hn Ht]]. unfold twidths. rewrite Hn, Ht. unfold col_names.
    rewrite combine_map, map_map. reflexivity.
  Qed.

  (* one printed row: the fields are those of the row of cells the frame holds at position p *)
  Lemma phys_row_fields p : forall cs : list (bytes * coldata),
    omap (fun nc => do x <- cell_at (snd nc) p; fix_length (string_at ff str_na x) c_space (wof nc)) cs
    = do row <- omap (fun nc : bytes * coldata => cell_at (snd nc) p) cs;
      Ok (map (fun cw => fix_len (string_at ff str_na (fst cw)) c_space (snd cw)) (combine row (map wof cs))).
  Proof.
    induction cs as [|nc cs IH]; [reflexivity|]. cbn [omap map]. rewrite IH.
    destruct (cell_at (snd nc) p) as [x| |]; cbn [obind]; try reflexivity.
    rewrite fix_length_ok by (pose proof (col_width_ge (fst nc) (col_type (snd nc))); unfold wof; lia).
    cbn [obind]. destruct (omap (fun nc0 : bytes * coldata => cell_at (snd nc0) p) cs) as [row| |]; reflexivity.
  Qed.

  Lemma phys_row_spec f t p : abs f = Ok t ->
    phys_row ff f p = do row <- row_at f p; Ok (print_row ff (twidths t) row).
  Proof.
    intro H. unfold phys_row. change (fun nc : bytes * coldata => do x <- cell_at (snd nc) p;
        fix_length (string_at ff str_na x) c_space (col_width (fst nc) (col_type (snd nc))))
      with (fun nc : bytes * coldata => do x <- cell_at (snd nc) p; fix_length (string_at ff str_na x) c_space (wof nc)).
    rewrite phys_row_fields. unfold row_at, print_row. rewrite (twidths_cols f t H).
    destruct (omap _ (cols f)); reflexivity.
  Qed.

  (* THE C09 THEOREM FOR String(): the lines String() joins are those of the logical table *)
  Theorem string_lines_spec f t :
    abs f = Ok t -> ferr f = false -> frame_string_lines ff f = Ok (tstring_lines ff t).
  Proof.
    intros H He. pose proof (abs_rows f t H) as [Hrows [Hn Ht]]. unfold frame_string_lines, tstring_lines. rewrite He.
    assert (Hcomb : combine (tnames t) (ttypes t) = map (fun nc : bytes * coldata => (fst nc, col_type (snd nc))) (cols f)).
    { rewrite Hn, Ht. unfold col_names. apply combine_map. }
    (* header *)
    erewrite (omap_ext_local _ (fun nc => Ok (fix_len (col_header (fst nc) (col_type (snd nc))) c_space (wof nc))));
      [|intros nc _; unfold wof; apply fix_length_ok; pose proof (col_width_ge (fst nc) (col_type (snd nc))); lia].
    rewrite omap_pure. cbn [obind].
    (* dashes *)
    erewrite (omap_ext_local _ (fun nc => Ok (repeat c_dash (wof nc))));
      [|intros nc _; unfold fix_length; cbn [length Nat.ltb Nat.leb]; rewrite app_nil_r, Nat.sub_0_r; reflexivity].
    rewrite omap_pure. cbn [obind].
    (* rows *)
    erewrite (omap_ext_local (phys_row ff f)); [|intros p _; apply (phys_row_spec f t p H)].
    rewrite (omap_compose (row_at f) (fun row => Ok (print_row ff (twidths t) row)) _ _
               (omap_firstn (row_at f) c_maxRowCount (ix f) (trows t) Hrows)).
    rewrite omap_pure. cbn [obind].
    rewrite (abs_length f t H).
    assert (Hnc : length (cols f) = length (tnames t)) by (rewrite Hn; unfold col_names; rewrite map_length; reflexivity).
    rewrite Hnc. unfold theader, tdashes. rewrite (twidths_cols f t H), Hcomb, !map_map. reflexivity.
  Qed.

  Theorem string_spec f t : abs f = Ok t -> ferr f = false -> frame_string ff f = Ok (tstring ff t).
  Proof. intros H He. unfold frame_string. rewrite (string_lines_spec f t H He). reflexivity. Qed.

  (* on a well-formed frame String() never panics *)
  Theorem string_total f : wf_frame f = true -> ferr f = false -> exists s, frame_string ff f = Ok s.
  Proof.
    intros Hw He. destruct (abs_total f Hw) as [t Ht]. exists (tstring ff t). apply string_spec; assumption.
  Qed.

  (* String() is a function of the logical table: frames with the same table print the same text *)
  Theorem string_congr f g t :
    abs f = Ok t -> abs g = Ok t -> ferr f = false -> ferr g = false -> frame_string ff f = frame_string ff g.
  Proof. intros Hf Hg Ef Eg. rewrite (string_spec f t Hf Ef), (string_spec g t Hg Eg). reflexivity. Qed.

  (* ---- reading the statement *)

  (* the printed rows are the first min(n, 50) rows of the table, in row order *)
  Lemma printed_rows_count t :
    length (map (print_row ff (twidths t)) (firstn c_maxRowCount (trows t))) = Nat.min c_maxRowCount (length (trows t)).
  Proof. rewrite map_length, firstn_length. reflexivity. Qed.

  Lemma printed_row_nth t i row :
    i < c_maxRowCount -> nth_error (trows t) i = Some row ->
    nth_error (tstring_lines ff t) (2 + i) = Some (print_row ff (twidths t) row).
  Proof.
    intros Hi Hrow. unfold tstring_lines. cbn [plus nth_error].
    rewrite nth_error_app1.
    - rewrite nth_error_map. rewrite nth_error_firstn_lt by exact Hi. rewrite Hrow. reflexivity.
    - rewrite printed_rows_count. assert (i < length (trows t)) by (apply nth_error_Some; congruence). lia.
  Qed.

  (* header, dashes, min(n, 50) rows, the truncation marker exactly when the table has more than 50 rows, the footer *)
  Lemma lines_count t :
    length (tstring_lines ff t)
    = 2 + Nat.min c_maxRowCount (length (trows t)) + (if c_maxRowCount <? length (trows t) then 1 else 0) + 1.
  Proof.
    unfold tstring_lines. cbn [length]. rewrite !app_length, printed_rows_count. cbn [length].
    destruct (c_maxRowCount <? length (trows t)); cbn [length]; lia.
  Qed.

  Lemma last_line_dims t : last (tstring_lines ff t) [] = dims_line (length (tnames t)) (length (trows t)).
  Proof.
    unfold tstring_lines. rewrite !app_comm_cons, app_assoc. apply last_last.
  Qed.
End Proofs.
