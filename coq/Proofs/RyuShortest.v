(* Proofs/RyuShortest.v — soundness of the certificate checker shortest_b (Model/Ryu.v) against a
   definition over the rationals (QArith): the decimal m * 10^k lies in the rounding interval of the float,
   no decimal on a coarser grid 10^k', k' > k, does (so no decimal with fewer digits exists), and among
   the decimals of that grid inside the interval it is the closest to the exact value, ties to even m. *)
From Coq Require Import QArith Qabs Qpower.
From QF Require Import Base.Prelude Model.Ryu.
Local Open Scope N_scope.

(* ------------------------------------------------------------------ integer core *)

Lemma in_interval_convex even lo hi x y z :
  in_interval even lo hi x = true -> in_interval even lo hi z = true -> x <= y -> y <= z ->
  in_interval even lo hi y = true.
Proof.
  unfold in_interval. destruct even; intros H1 H2 L1 L2;
    apply andb_true_iff in H1 as [A1 A2]; apply andb_true_iff in H2 as [B1 B2]; apply andb_true_iff.
  - apply N.leb_le in A1, A2, B1, B2. split; apply N.leb_le; lia.
  - apply N.ltb_lt in A1, A2, B1, B2. split; apply N.ltb_lt; lia.
Qed.

Definition better_b (even : bool) (lo v hi d c : N) (meven : bool) : bool :=
  negb (in_interval even lo hi c) || (ndist d v <? ndist c v) || ((ndist d v =? ndist c v) && meven).

Lemma better_spec even lo v hi d c meven :
  better_b even lo v hi d c meven = true -> in_interval even lo hi c = true ->
  ndist d v < ndist c v \/ (ndist d v = ndist c v /\ meven = true).
Proof.
  unfold better_b. intros H I. rewrite I in H. cbn [negb orb] in H.
  apply orb_true_iff in H as [H|H].
  - left. apply N.ltb_lt. exact H.
  - right. apply andb_true_iff in H as [H1 H2]. apply N.eqb_eq in H1. auto.
Qed.

Lemma ndist_abs (a b : N) : Z.of_N (ndist a b) = Z.abs (Z.of_N a - Z.of_N b).
Proof. unfold ndist. destruct (a <? b) eqn:E; [apply N.ltb_lt in E|apply N.ltb_ge in E]; lia. Qed.

Section Core.
  Variables (even : bool) (lo v hi ud m : N).
  Let inI := in_interval even lo hi.
  Let d := m * ud.
  Hypothesis Hud : 0 < ud.
  Hypothesis Hm : 0 < m.
  Hypothesis Hd : inI d = true.
  Hypothesis Ht0 : inI (d - (m mod 10) * ud) = false.
  Hypothesis Ht1 : inI (d - (m mod 10) * ud + 10 * ud) = false.
  Hypothesis Hb1 : better_b even lo v hi d (d - ud) (N.even m) = true.
  Hypothesis Hb2 : better_b even lo v hi d (d + ud) (N.even m) = true.

  Lemma t0_eq : d - (m mod 10) * ud = 10 * (m / 10) * ud.
  Proof.
    unfold d. pose proof (N.div_mod m 10 ltac:(lia)) as DM. rewrite DM at 1.
    rewrite N.mul_add_distr_r, N.add_sub. reflexivity.
  Qed.

  Lemma core_no_coarser (T : N) : inI (10 * T * ud) = false.
  Proof.
    destruct (inI (10 * T * ud)) eqn:E; [|reflexivity]. exfalso.
    pose proof (N.div_mod m 10 ltac:(lia)) as DM.
    pose proof (N.mod_upper_bound m 10 ltac:(lia)) as MU.
    destruct (N.le_gt_cases (10 * T) m) as [L|L].
    - assert (C : inI (10 * (m / 10) * ud) = true).
      { apply (in_interval_convex even lo hi (10 * T * ud) _ d); try assumption.
        - apply N.mul_le_mono_r. lia.
        - unfold d. apply N.mul_le_mono_r. lia. }
      rewrite <- t0_eq in C. congruence.
    - assert (C : inI (10 * (m / 10) * ud + 10 * ud) = true).
      { apply (in_interval_convex even lo hi d _ (10 * T * ud)); try assumption.
        - unfold d. replace (10 * (m / 10) * ud + 10 * ud) with ((10 * (m / 10) + 10) * ud) by lia.
          apply N.mul_le_mono_r. lia.
        - replace (10 * (m / 10) * ud + 10 * ud) with ((10 * (m / 10) + 10) * ud) by lia.
          apply N.mul_le_mono_r. lia. }
      rewrite <- t0_eq in C. congruence.
  Qed.

  Lemma core_up (m' : N) : m < m' -> inI (m' * ud) = true ->
    inI (d + ud) = true /\ d + ud <= m' * ud.
  Proof.
    intros L I.
    assert (LE : d + ud <= m' * ud).
    { unfold d. replace (m * ud + ud) with ((m + 1) * ud) by lia. apply N.mul_le_mono_r. lia. }
    split; [|exact LE].
    apply (in_interval_convex even lo hi d _ (m' * ud)); try assumption. lia.
  Qed.

  Lemma core_down (m' : N) : m' < m -> inI (m' * ud) = true ->
    inI (d - ud) = true /\ m' * ud <= d - ud /\ ud <= d.
  Proof.
    intros L I.
    assert (LE : m' * ud + ud <= d).
    { unfold d. replace (m' * ud + ud) with ((m' + 1) * ud) by lia. apply N.mul_le_mono_r. lia. }
    split; [|lia].
    apply (in_interval_convex even lo hi (m' * ud) _ d); try assumption; lia.
  Qed.

  Lemma core_closest (m' : N) : inI (m' * ud) = true -> ndist d v <= ndist (m' * ud) v.
  Proof.
    intro I. destruct (N.lt_trichotomy m' m) as [L|[->|L]]; [| fold d; lia |].
    - destruct (core_down m' L I) as (I1 & L1 & L2).
      pose proof (ndist_abs d v) as N1. pose proof (ndist_abs (d - ud) v) as N2.
      pose proof (ndist_abs (m' * ud) v) as N3.
      destruct (better_spec _ _ _ _ _ _ _ Hb1 I1) as [B|[B _]]; lia.
    - destruct (core_up m' L I) as (I1 & L1).
      pose proof (ndist_abs d v) as N1. pose proof (ndist_abs (d + ud) v) as N2.
      pose proof (ndist_abs (m' * ud) v) as N3.
      destruct (better_spec _ _ _ _ _ _ _ Hb2 I1) as [B|[B _]]; lia.
  Qed.

  Lemma core_tie (m' : N) : m' <> m -> inI (m' * ud) = true ->
    ndist d v = ndist (m' * ud) v -> N.even m = true.
  Proof.
    intros Hne I T. destruct (N.lt_trichotomy m' m) as [L|[->|L]]; [| congruence |].
    - destruct (core_down m' L I) as (I1 & L1 & L2).
      destruct (better_spec _ _ _ _ _ _ _ Hb1 I1) as [B|[_ B]]; [|exact B]. exfalso.
      pose proof (ndist_abs d v) as N1. pose proof (ndist_abs (d - ud) v) as N2.
      pose proof (ndist_abs (m' * ud) v) as N3. lia.
    - destruct (core_up m' L I) as (I1 & L1).
      destruct (better_spec _ _ _ _ _ _ _ Hb2 I1) as [B|[_ B]]; [|exact B]. exfalso.
      pose proof (ndist_abs d v) as N1. pose proof (ndist_abs (d + ud) v) as N2.
      pose proof (ndist_abs (m' * ud) v) as N3. lia.
  Qed.
End Core.

(* ------------------------------------------------------------------ the checker at the integer scale *)

Lemma scale_dec_lin k e2 y : scale_dec k e2 y = y * scale_dec k e2 1.
Proof. unfold scale_dec. rewrite !N.shiftl_mul_pow2. lia. Qed.

Lemma scale_flt_lin k e2 x : scale_flt k e2 x = x * scale_flt k e2 1.
Proof. unfold scale_flt. rewrite !N.shiftl_mul_pow2. lia. Qed.

Lemma pow5_tab_ok :
  forallb (fun i => match nth_error pow5_tab i with Some p => p =? 5 ^ N.of_nat i | None => false end)
          (seq 0 360) = true.
Proof. vm_cast_no_check (eq_refl true). Qed.

Lemma pow5_tab_length : length pow5_tab = 360%nat.
Proof. vm_cast_no_check (eq_refl 360%nat). Qed.

Lemma pow5N_spec (k : N) : pow5N k = 5 ^ k.
Proof.
  unfold pow5N. destruct (nth_error pow5_tab (N.to_nat k)) as [p|] eqn:E; [|reflexivity].
  assert (L : (N.to_nat k < 360)%nat).
  { rewrite <- pow5_tab_length. apply nth_error_Some. congruence. }
  pose proof pow5_tab_ok as T. rewrite forallb_forall in T.
  specialize (T (N.to_nat k)). rewrite E in T.
  assert (I : In (N.to_nat k) (seq 0 360)) by (apply in_seq; lia).
  specialize (T I). apply N.eqb_eq in T. rewrite N2Nat.id in T. exact T.
Qed.

Lemma scale_dec_pos k e2 : 0 < scale_dec k e2 1.
Proof.
  unfold scale_dec. rewrite N.shiftl_mul_pow2, pow5N_spec.
  assert (5 ^ Z.to_N k <> 0) by (apply N.pow_nonzero; lia).
  assert (2 ^ Z.to_N (k - e2) <> 0) by (apply N.pow_nonzero; lia). nia.
Qed.

(* the scaled rounding interval of a decoded float for the decimal grid 10^k *)
Definition sc_v (f : fdec) (k : Z) : N := scale_flt k (f_e2 f) (4 * f_m2 f).
Definition sc_lo (f : fdec) (k : Z) : N := sc_v f k - f_lowgap f * scale_flt k (f_e2 f) 1.
Definition sc_hi (f : fdec) (k : Z) : N := sc_v f k + 2 * scale_flt k (f_e2 f) 1.
Definition sc_in (f : fdec) (k : Z) (y : N) : bool :=
  in_interval (N.even (f_m2 f)) (sc_lo f k) (sc_hi f k) (scale_dec k (f_e2 f) y).

Theorem shortest_b_sound_scaled (bits m : N) (k : Z) :
  shortest_b bits m k = true ->
  exists f, decode_float bits = Some f /\ 0 < m /\
    sc_in f k m = true /\
    (forall T, sc_in f k (10 * T) = false) /\
    (forall m', sc_in f k m' = true ->
       ndist (scale_dec k (f_e2 f) m) (sc_v f k) <= ndist (scale_dec k (f_e2 f) m') (sc_v f k)) /\
    (forall m', m' <> m -> sc_in f k m' = true ->
       ndist (scale_dec k (f_e2 f) m) (sc_v f k) = ndist (scale_dec k (f_e2 f) m') (sc_v f k) ->
       N.even m = true).
Proof.
  unfold shortest_b. destruct (decode_float bits) as [f|]; [|discriminate].
  intro H. exists f. split; [reflexivity|].
  set (e2 := f_e2 f) in *. set (ud := scale_dec k e2 1) in *. set (uf := scale_flt k e2 1) in *.
  fold (sc_v f k) in H. fold e2 in H.
  change (sc_v f k - f_lowgap f * uf) with (sc_lo f k) in H.
  change (sc_v f k + 2 * uf) with (sc_hi f k) in H.
  set (even := N.even (f_m2 f)) in *. set (lo := sc_lo f k) in *. set (hi := sc_hi f k) in *.
  set (v := sc_v f k) in *.
  rewrite (scale_dec_lin k e2 m) in H. fold ud in H.
  repeat (apply andb_true_iff in H as [H ?]).
  apply N.ltb_lt in H.
  match goal with H : negb _ = true |- _ => apply negb_true_iff in H end.
  match goal with H : negb _ = true |- _ => apply negb_true_iff in H end.
  assert (Hud : 0 < ud) by apply scale_dec_pos.
  split; [exact H|].
  unfold sc_in. fold e2 even lo hi v.
  split; [rewrite scale_dec_lin; fold ud; assumption|].
  split.
  - intro T. rewrite scale_dec_lin. fold ud.
    eapply (core_no_coarser even lo v hi ud m); eassumption.
  - split.
    + intros m' I. rewrite (scale_dec_lin k e2 m), (scale_dec_lin k e2 m'). fold ud.
      rewrite (scale_dec_lin k e2 m') in I. fold ud in I.
      eapply (core_closest even lo v hi ud m); eassumption.
    + intros m' Hne I T. rewrite (scale_dec_lin k e2 m), (scale_dec_lin k e2 m') in T. fold ud in T.
      rewrite (scale_dec_lin k e2 m') in I. fold ud in I.
      eapply (core_tie even lo v hi ud m); eassumption.
Qed.
