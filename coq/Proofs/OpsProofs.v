(* Proofs/OpsProofs.v — representation independence of the projecting and column-changing operations:
   the operation on the physical frame denotes the table-level operation of the statement, for every
   row index (however the frame was derived). *)
From QF Require Import Base.Prelude Model.Frame Model.Filter Model.Ops Model.TableSpec.
Local Open Scope nat_scope.

Lemma omap_length {A B} (g : A -> outcome B) : forall l r, omap g l = Ok r -> length r = length l.
Proof.
  induction l as [|x l IH]; intros r H; simpl in H.
  - inversion H. reflexivity.
  - destruct (g x) as [y| |]; simpl in H; try discriminate.
    destruct (omap g l) as [ys| |] eqn:E; simpl in H; try discriminate.
    inversion H; subst. simpl. f_equal. apply IH. reflexivity.
Qed.

Lemma omap_firstn {A B} (g : A -> outcome B) : forall n l r,
  omap g l = Ok r -> omap g (firstn n l) = Ok (firstn n r).
Proof.
  induction n as [|n IH]; intros l r H; [reflexivity|].
  destruct l as [|x l]; simpl in *.
  - inversion H. reflexivity.
  - destruct (g x) as [y| |]; simpl in *; try discriminate.
    destruct (omap g l) as [ys| |] eqn:E; simpl in *; try discriminate.
    inversion H; subst. rewrite (IH l ys E). reflexivity.
Qed.

Lemma omap_skipn {A B} (g : A -> outcome B) : forall n l r,
  omap g l = Ok r -> omap g (skipn n l) = Ok (skipn n r).
Proof.
  induction n as [|n IH]; intros l r H; [exact H|].
  destruct l as [|x l]; simpl in *.
  - inversion H. reflexivity.
  - destruct (g x) as [y| |]; simpl in *; try discriminate.
    destruct (omap g l) as [ys| |] eqn:E; simpl in *; try discriminate.
    inversion H; subst. simpl. apply IH. exact E.
Qed.

Lemma abs_rows f t : abs f = Ok t -> omap (row_at f) (ix f) = Ok (trows t)
                                  /\ tnames t = col_names f /\ ttypes t = map (fun nc => col_type (snd nc)) (cols f).
Proof.
  unfold abs. intro H. destruct (omap (row_at f) (ix f)) as [rows| |]; simpl in H; try discriminate.
  inversion H; subst. simpl. auto.
Qed.

(* Slice(a, b) is exactly rows a .. b-1, all columns as they were; anything else is rejected *)
Theorem slice_abs f a b t :
  ferr f = false -> abs f = Ok t ->
  (0 <= a)%Z -> (a <= b)%Z -> (b <= Z.of_nat (length (ix f)))%Z ->
  ferr (slice f a b) = false /\ abs (slice f a b) = Ok (tslice t (Z.to_nat a) (Z.to_nat b)).
Proof.
  intros Hf Ht Ha Hab Hb.
  destruct (abs_rows f t Ht) as [Hrows [Hn Hty]].
  unfold slice. rewrite Hf.
  destruct (a <? 0)%Z eqn:E1; [lia|].
  destruct (b <? a)%Z eqn:E2; [lia|].
  destruct (Z.of_nat (length (ix f)) <? b)%Z eqn:E3; [lia|].
  split; [exact Hf|].
  unfold abs. cbn [ix with_ix cols].
  change (row_at (with_ix f (firstn (Z.to_nat (b - a)) (skipn (Z.to_nat a) (ix f))))) with (row_at f).
  rewrite (omap_firstn _ _ _ _ (omap_skipn _ (Z.to_nat a) _ _ Hrows)). simpl.
  unfold tslice. rewrite Hn, Hty. unfold col_names. cbn [cols with_ix].
  replace (Z.to_nat (b - a)) with (Z.to_nat b - Z.to_nat a) by lia. reflexivity.
Qed.

Theorem slice_rejects f a b :
  ferr f = false -> (a < 0 \/ b < a \/ Z.of_nat (length (ix f)) < b)%Z -> ferr (slice f a b) = true.
Proof.
  intros Hf H. unfold slice. rewrite Hf.
  destruct (a <? 0)%Z eqn:E1; [reflexivity|].
  destruct (b <? a)%Z eqn:E2; [reflexivity|].
  destruct (Z.of_nat (length (ix f)) <? b)%Z eqn:E3; [reflexivity|]. lia.
Qed.

(* ------------------------------------------------------------------ scatter: Apply writes the k-th result at index[k] *)

Lemma scatter_ok : forall (index : list nat) (base vals : list cell),
  length vals = length index -> Forall (fun p => p < length base) index ->
  exists arr, scatter base index vals = Ok arr /\ length arr = length base.
Proof.
  induction index as [|p index IH]; intros base vals Hlen Hin.
  - exists base. split; reflexivity.
  - destruct vals as [|v vals]; [discriminate|].
    inversion Hin as [|? ? Hp Hrest]; subst.
    simpl. destruct (p <? length base) eqn:E; [|apply Nat.ltb_ge in E; lia].
    destruct (IH (set_nth base p v) vals) as [arr [Ha Hl]].
    + simpl in Hlen. lia.
    + rewrite set_nth_length. exact Hrest.
    + exists arr. split; [exact Ha|]. rewrite Hl. apply set_nth_length.
Qed.

(* positions outside the index keep the base value (the zero value of the type) *)
Lemma scatter_outside : forall (index : list nat) (base vals arr : list cell) q,
  scatter base index vals = Ok arr -> ~ In q index -> nth_error arr q = nth_error base q.
Proof.
  induction index as [|p index IH]; intros base vals arr q H Hq.
  - inversion H. reflexivity.
  - destruct vals as [|v vals]; [discriminate|]. simpl in H.
    destruct (p <? length base); [|discriminate].
    rewrite (IH _ _ _ q H) by (intro; apply Hq; right; assumption).
    apply nth_error_set_nth_neq. intro; apply Hq; left; assumption.
Qed.

(* reading the array back through the (duplicate free) index returns the results in order *)
Lemma scatter_read : forall (index : list nat) (base vals arr : list cell),
  NoDup index -> length vals = length index ->
  scatter base index vals = Ok arr ->
  map (nth_error arr) index = map Some vals.
Proof.
  induction index as [|p index IH]; intros base vals arr Hnd Hlen H.
  - destruct vals; [reflexivity|discriminate].
  - destruct vals as [|v vals]; [discriminate|]. simpl in H.
    destruct (p <? length base) eqn:E; [|discriminate]. apply Nat.ltb_lt in E.
    inversion Hnd as [|? ? Hnotin Hnd']; subst.
    simpl. f_equal.
    + rewrite (scatter_outside _ _ _ _ p H Hnotin). apply nth_error_set_nth_eq. exact E.
    + apply (IH (set_nth base p v)); [exact Hnd'|simpl in Hlen; lia|exact H].
Qed.

(* ------------------------------------------------------------------ setColumn: replace in position or append last *)

Lemma lookup_from_some_ge name : forall cs pos acc q c,
  (forall q0 c0, acc = Some (q0, c0) -> q0 < pos) ->
  lookup_from name cs pos acc = Some (q, c) ->
  (acc = Some (q, c) /\ q < pos) \/ (pos <= q /\ nth_error cs (q - pos) = Some (name, c)).
Proof.
  induction cs as [|[n0 c0] cs IH]; intros pos acc q c Hacc H; simpl in H.
  - left. split; [exact H|]. eapply Hacc; exact H.
  - destruct (bytes_eqb n0 name) eqn:E.
    + apply bytes_eqb_spec in E; subst n0.
      apply IH in H.
      * destruct H as [[Ha Hq]|[Hq Hn]].
        -- inversion Ha; subst. right. split; [lia|]. replace (q - q) with 0 by lia. reflexivity.
        -- right. split; [lia|]. replace (q - pos) with (S (q - S pos)) by lia. exact Hn.
      * intros q0 c1 Hs. inversion Hs; subst. lia.
    + apply IH in H.
      * destruct H as [[Ha Hq]|[Hq Hn]].
        -- left. split; [exact Ha|]. eapply Hacc; exact Ha.
        -- right. split; [lia|]. replace (q - pos) with (S (q - S pos)) by lia. exact Hn.
      * intros q0 c1 Hs. apply Hacc in Hs. lia.
Qed.

Lemma lookup_some_nth f name q c :
  lookup f name = Some (q, c) -> nth_error (cols f) q = Some (name, c).
Proof.
  unfold lookup. intro H. apply lookup_from_some_ge in H; [|intros ? ? Hn; discriminate].
  destruct H as [[Hn _]|[_ Hn]]; [discriminate|]. rewrite Nat.sub_0_r in Hn. exact Hn.
Qed.

(* appending a column: the new name resolves to it, every other name resolves as before *)
Lemma lookup_from_app_same name c : forall cs pos acc,
  lookup_from name (cs ++ [(name, c)]) pos acc = Some (pos + length cs, c).
Proof.
  induction cs as [|[n0 c0] cs IH]; intros pos acc; simpl.
  - rewrite bytes_eqb_refl. f_equal. f_equal. lia.
  - rewrite IH. f_equal. f_equal. lia.
Qed.

Lemma lookup_from_app_other name m c : forall cs pos acc,
  bytes_eqb name m = false ->
  lookup_from m (cs ++ [(name, c)]) pos acc = lookup_from m cs pos acc.
Proof.
  induction cs as [|[n0 c0] cs IH]; intros pos acc H; simpl.
  - rewrite H. reflexivity.
  - apply IH. exact H.
Qed.

(* replacing the column a name resolves to: the name now resolves to the new column at the SAME position,
   every other name resolves as before *)
Lemma lookup_from_set_same name c : forall cs pos acc k c0,
  nth_error cs k = Some (name, c0) ->
  (forall j n1 c1, k < j -> nth_error cs j = Some (n1, c1) -> bytes_eqb n1 name = false) ->
  lookup_from name (set_nth cs k (name, c)) pos acc = Some (pos + k, c).
Proof.
  induction cs as [|[n0 c1] cs IH]; intros pos acc k c0 Hk Hlast; [destruct k; discriminate|].
  destruct k as [|k]; simpl.
  - rewrite bytes_eqb_refl.
    assert (Hno : forall cs' pos' acc', (forall j n1 c2, nth_error cs' j = Some (n1, c2) -> bytes_eqb n1 name = false) ->
                    lookup_from name cs' pos' acc' = acc').
    { induction cs' as [|[n2 c2] cs' IHc]; intros pos' acc' Hn; simpl; [reflexivity|].
      rewrite (Hn 0 n2 c2 eq_refl). apply IHc. intros j n1 c3 Hj. apply (Hn (S j) n1 c3 Hj). }
    rewrite Hno; [f_equal; f_equal; lia|].
    intros j n1 c2 Hj. apply (Hlast (S j) n1 c2); [lia|exact Hj].
  - simpl in Hk. rewrite (IH (S pos) _ k c0 Hk).
    + f_equal. f_equal. lia.
    + intros j n1 c2 Hj Hn. apply (Hlast (S j) n1 c2); [lia|exact Hn].
Qed.

Lemma lookup_from_set_other name m c : forall cs pos acc k c0,
  nth_error cs k = Some (name, c0) -> bytes_eqb name m = false ->
  lookup_from m (set_nth cs k (name, c)) pos acc = lookup_from m cs pos acc.
Proof.
  induction cs as [|[n0 c1] cs IH]; intros pos acc k c0 Hk Hm; [destruct k; discriminate|].
  destruct k as [|k]; simpl in *.
  - inversion Hk; subst. rewrite Hm. reflexivity.
  - apply (IH _ _ k c0 Hk Hm).
Qed.

Lemma lookup_from_last name : forall cs pos acc q c,
  (forall q0 c0, acc = Some (q0, c0) -> q0 < pos) ->
  lookup_from name cs pos acc = Some (q, c) -> pos <= q ->
  forall j n1 c1, q - pos < j -> nth_error cs j = Some (n1, c1) -> bytes_eqb n1 name = false.
Proof.
  induction cs as [|[n0 c0] cs IH]; intros pos acc q c Hacc H Hq j n1 c1 Hj Hn; [destruct j; discriminate|].
  simpl in H. destruct j as [|j]; [lia|]. simpl in Hn.
  destruct (bytes_eqb n0 name) eqn:E.
  - destruct (Nat.eq_dec q pos) as [->|Hne].
    + (* the match at pos is the final answer: nothing later matches *)
      clear IH Hj.
      assert (Hno : forall cs' pos' , pos < pos' -> lookup_from name cs' pos' (Some (pos, c0)) = Some (pos, c) ->
                forall j n1 c1, nth_error cs' j = Some (n1, c1) -> bytes_eqb n1 name = false).
      { induction cs' as [|[n2 c2] cs' IHc]; intros pos' Hp Hl j0 n2' c2' Hj0; [destruct j0; discriminate|].
        simpl in Hl. destruct (bytes_eqb n2 name) eqn:E2.
        - exfalso. apply lookup_from_some_ge in Hl; [|intros ? ? Hs; inversion Hs; lia].
          destruct Hl as [[Hs _]|[Hge _]]; [inversion Hs; lia|lia].
        - destruct j0 as [|j0]; simpl in Hj0; [inversion Hj0; subst; exact E2|].
          apply (IHc (S pos') ltac:(lia) Hl j0 n2' c2' Hj0). }
      apply (Hno cs (S pos) ltac:(lia) H j n1 c1 Hn).
    + apply (IH (S pos) (Some (pos, c0)) q c) with (j := j) (c1 := c1); try assumption; try lia.
      intros q0 c2 Hs. inversion Hs; subst. lia.
  - destruct (Nat.eq_dec q pos) as [->|Hne].
    + exfalso. apply lookup_from_some_ge in H; [|intros ? ? Hs; apply Hacc in Hs; lia].
      destruct H as [[Hs Hlt]|[Hge _]]; [apply Hacc in Hs; lia|lia].
    + apply (IH (S pos) acc q c) with (j := j) (c1 := c1); try assumption; try lia.
      intros q0 c2 Hs. apply Hacc in Hs. lia.
Qed.

Theorem set_column_spec f name c :
  check_name name = true ->
  let g := set_column f name c in
  ix g = ix f /\ ferr g = ferr f
  /\ lookup_col g name = Some c
  /\ (forall m, bytes_eqb name m = false -> lookup g m = lookup f m)
  /\ (match lookup f name with
      | Some (pos, _) => col_names g = col_names f /\ nth_error (cols g) pos = Some (name, c)   (* replaced in its position *)
      | None => cols g = cols f ++ [(name, c)]                                              (* appended last *)
      end).
Proof.
  intros Hn g. subst g. unfold set_column. rewrite Hn. simpl negb. cbv iota.
  destruct (lookup f name) as [[pos c0]|] eqn:El.
  - pose proof (lookup_some_nth f name pos c0 El) as Hnth.
    assert (Hlast : forall j n1 c1, pos < j -> nth_error (cols f) j = Some (n1, c1) -> bytes_eqb n1 name = false).
    { intros j n1 c1 Hj Hnj. unfold lookup in El.
      eapply (lookup_from_last name (cols f) 0 None pos c0); try eassumption; try lia.
      intros ? ? Hs; discriminate. }
    cbn [ix ferr cols]. repeat split.
    + unfold lookup_col, lookup. cbn [cols].
      rewrite (lookup_from_set_same name c (cols f) 0 None pos c0 Hnth Hlast). reflexivity.
    + intros m Hm. unfold lookup. cbn [cols]. apply (lookup_from_set_other name m c (cols f) 0 None pos c0 Hnth Hm).
    + unfold col_names. cbn [cols]. clear - Hnth. revert pos Hnth.
      induction (cols f) as [|[n1 c1] cs IH]; intros [|pos] H; simpl in *; try discriminate.
      * inversion H; subst. reflexivity.
      * f_equal. apply IH. exact H.
    + apply nth_error_set_nth_eq. apply nth_error_Some. rewrite Hnth. discriminate.
  - cbn [ix ferr cols]. repeat split.
    + unfold lookup_col, lookup. cbn [cols]. rewrite lookup_from_app_same. reflexivity.
    + intros m Hm. unfold lookup. cbn [cols]. apply lookup_from_app_other. exact Hm.
Qed.

(* ------------------------------------------------------------------ Apply with a one argument function *)

Lemma omap_ext_local {A B} (g h : A -> outcome B) (l : list A) :
  (forall x, In x l -> g x = h x) -> omap g l = omap h l.
Proof.
  induction l as [|x l IH]; intro H; simpl; [reflexivity|].
  rewrite (H x (or_introl eq_refl)). rewrite IH; [reflexivity|]. intros y Hy. apply H. right. exact Hy.
Qed.

Lemma nth_error_repeat {A} (x : A) n q : q < n -> nth_error (repeat x n) q = Some x.
Proof.
  revert q. induction n as [|n IH]; intros q H; [lia|]. destruct q; simpl; [reflexivity|]. apply IH. lia.
Qed.


Lemma set_nth_Forall {A} (P : A -> Prop) : forall (l : list A) k v, Forall P l -> P v -> Forall P (set_nth l k v).
Proof.
  induction l as [|x l IH]; intros [|k] v Hl Hv; simpl; try constructor; inversion Hl; subst; auto.
Qed.

Lemma scatter_Forall (P : cell -> Prop) : forall index base vals arr,
  Forall P base -> Forall P vals -> scatter base index vals = Ok arr -> Forall P arr.
Proof.
  induction index as [|p index IH]; intros base vals arr Hb Hv H; simpl in H.
  - inversion H; subst. exact Hb.
  - destruct vals as [|v vals]; [discriminate|]. destruct (p <? length base); [|discriminate].
    inversion Hv; subst. eapply IH; [| |exact H]; [apply set_nth_Forall|]; assumption.
Qed.

Lemma repeat_Forall {A} (P : A -> Prop) x n : P x -> Forall P (repeat x n).
Proof. intro H. induction n; simpl; constructor; auto. Qed.

Lemma omap_typed {B} (inj : B -> cell) (prj : cell -> outcome B) :
  (forall c b, prj c = Ok b -> c = inj b) -> (forall c, prj c <> Fail) ->
  forall cells d, omap prj cells = Ok d -> cells = map inj d.
Proof.
  intros Hinj Hnf. induction cells as [|c cells IH]; intros d H; simpl in H.
  - inversion H. reflexivity.
  - destruct (prj c) as [b| |] eqn:E; simpl in H; try discriminate.
    destruct (omap prj cells) as [ds| |] eqn:E2; simpl in H; try discriminate.
    inversion H; subst. simpl. f_equal; [apply Hinj; exact E|apply IH; reflexivity].
Qed.

Lemma omap_typed_total {B} (prj : cell -> outcome B) (P : cell -> Prop) :
  (forall c, P c -> exists b, prj c = Ok b) ->
  forall cells, Forall P cells -> exists d, omap prj cells = Ok d.
Proof.
  intros Htot. induction 1 as [|c cells Hc Hcs [d Hd]]; simpl.
  - exists []. reflexivity.
  - destruct (Htot c Hc) as [b Hb]. rewrite Hb, Hd. simpl. eexists; reflexivity.
Qed.

Lemma nth_error_map_of_option {A} (g : A -> cell) (d : list A) q :
  (do z <- idx d q; Ok (g z)) = of_option (nth_error (map g d) q).
Proof. unfold idx. rewrite nth_error_map. destruct (nth_error d q); reflexivity. Qed.

Lemma typed_col {B} (inj : B -> cell) (prj : cell -> outcome B) (mk : list B -> coldata) (t : ctype) :
  (forall c b, prj c = Ok b -> c = inj b) -> (forall c, prj c <> Fail) ->
  (forall c, cell_type_ok t c = true -> exists b, prj c = Ok b) ->
  (forall d, col_type (mk d) = t /\ col_len (mk d) = length d
             /\ forall q, cell_at (mk d) q = (do z <- idx d q; Ok (inj z))) ->
  forall cells, Forall (fun y => cell_type_ok t y = true) cells ->
  exists r, (do d <- omap prj cells; Ok (mk d)) = Ok r /\ col_type r = t /\ col_len r = length cells
            /\ forall q, cell_at r q = of_option (nth_error cells q).
Proof.
  intros Hinj Hnf Htot Hmk cells Hall.
  destruct (omap_typed_total prj _ Htot cells Hall) as [d Hd].
  rewrite Hd. simpl. exists (mk d). split; [reflexivity|].
  pose proof (omap_typed inj prj Hinj Hnf _ _ Hd) as Hc. subst cells.
  destruct (Hmk d) as [H1 [H2 H3]].
  repeat split; [exact H1|rewrite H2, map_length; reflexivity|].
  intro q. rewrite H3. apply nth_error_map_of_option.
Qed.

Lemma col_of_cells_spec t cells :
  t <> TEnum -> Forall (fun y => cell_type_ok t y = true) cells ->
  exists r, col_of_cells t cells = Ok r /\ col_type r = t /\ col_len r = length cells
            /\ forall q, cell_at r q = of_option (nth_error cells q).
Proof.
  intros Ht Hall.
  destruct t; try congruence; unfold col_of_cells.
  - apply (typed_col CInt (fun c => match c with CInt z => Ok z | _ => Panic end) ICol TInt); try assumption.
    + intros [] bb HH; inversion HH; reflexivity.
    + intros []; discriminate.
    + intros [] HH; try discriminate; eexists; reflexivity.
    + intro d. repeat split.
  - apply (typed_col CFloat (fun c => match c with CFloat z => Ok z | _ => Panic end) FCol TFloat); try assumption.
    + intros [] bb HH; inversion HH; reflexivity.
    + intros []; discriminate.
    + intros [] HH; try discriminate; eexists; reflexivity.
    + intro d. repeat split.
  - apply (typed_col CBool (fun c => match c with CBool z => Ok z | _ => Panic end) BCol TBool); try assumption.
    + intros [] bb HH; inversion HH; reflexivity.
    + intros []; discriminate.
    + intros [] HH; try discriminate; eexists; reflexivity.
    + intro d. repeat split.
  - apply (typed_col CStr (fun c => match c with CStr z => Ok z | _ => Panic end) SCol TString); try assumption.
    + intros [] bb HH; inversion HH; reflexivity.
    + intros []; discriminate.
    + intros [] HH; try discriminate; eexists; reflexivity.
    + intro d. repeat split.
Qed.

Lemma zero_cell_ok t : t <> TEnum -> cell_type_ok t (zero_cell t) = true.
Proof. destruct t; try congruence; reflexivity. Qed.

Lemma omap_of_option_map_some {A} (arr : list A) (index : list nat) (vals : list A) :
  map (nth_error arr) index = map Some vals -> omap (fun p => of_option (nth_error arr p)) index = Ok vals.
Proof.
  revert vals. induction index as [|p index IH]; intros [|v vals] H; simpl in *; try discriminate; [reflexivity|].
  inversion H as [[Hp Hrest]]. rewrite Hp. simpl. rewrite (IH vals Hrest). reflexivity.
Qed.

(* Apply with func(T) U: the destination column holds fn(src[r]) for every row r of the frame (read through the
   index, whatever it is), the zero value at every physical position outside the index, has the type given by the
   function, and replaces/appends exactly as setColumn specifies; index and Err are untouched. *)
Theorem apply1_spec ut f tin tout tbl dst src c vals :
  ferr f = false -> lookup_col f src = Some c ->
  ctype_eqb (col_ftype c) tin = true -> tout <> TEnum ->
  NoDup (ix f) -> Forall (fun p => p < col_len c) (ix f) ->
  omap (fun p => do x <- cell_at c p; tbl1 tbl x) (ix f) = Ok vals ->
  Forall (fun y => cell_type_ok tout y = true) vals ->
  exists r, apply1 ut f (F1 tin tout tbl) dst src = Ok (set_column f dst r)
    /\ col_type r = tout /\ col_len r = col_len c
    /\ omap (cell_at r) (ix f) = Ok vals
    /\ (forall q, q < col_len c -> ~ In q (ix f) -> cell_at r q = Ok (zero_cell tout)).
Proof.
  intros Hf Hsrc Hty Hte Hnd Hin Hvals Htyped.
  pose proof (omap_length _ _ _ Hvals) as Hlen.
  assert (Hbase : Forall (fun p => p < length (repeat (zero_cell tout) (col_len c))) (ix f)).
  { rewrite repeat_length. exact Hin. }
  destruct (scatter_ok (ix f) (repeat (zero_cell tout) (col_len c)) vals Hlen Hbase) as [arr [Harr Hal]].
  assert (Harr_ok : Forall (fun y => cell_type_ok tout y = true) arr).
  { eapply scatter_Forall; [| |exact Harr]; [apply repeat_Forall; apply zero_cell_ok; exact Hte|exact Htyped]. }
  destruct (col_of_cells_spec tout arr Hte Harr_ok) as [r [Hr [Hrt [Hrl Hcell]]]].
  exists r.
  assert (Hte' : ctype_eqb tout TEnum = false) by (destruct tout; try reflexivity; congruence).
  split.
  { unfold apply1. rewrite Hf, Hsrc. unfold col_apply1. rewrite Hty, Hte'. simpl andb. cbv iota.
    rewrite Hvals. cbn [obind]. rewrite Harr. cbn [obind]. rewrite Hr. reflexivity. }
  split; [exact Hrt|]. split; [rewrite Hrl, Hal, repeat_length; reflexivity|].
  split.
  - erewrite (omap_ext_local _ _ (ix f)); [|intros p _; apply Hcell].
    apply omap_of_option_map_some. apply (scatter_read _ _ _ _ Hnd Hlen Harr).
  - intros q Hq Hnotin. rewrite Hcell.
    rewrite (scatter_outside _ _ _ _ q Harr Hnotin).
    rewrite (nth_error_repeat (zero_cell tout)) by exact Hq. reflexivity.
Qed.

(* ------------------------------------------------------------------ WithRowNums *)

Lemma map_CInt_typed l : Forall (fun y => cell_type_ok TInt y = true) (map (fun k => CInt (Z.of_nat k)) l).
Proof. induction l; simpl; constructor; auto. Qed.

Theorem rownums_spec f name :
  ferr f = false -> NoDup (ix f) -> Forall (fun p => p < phys_len f) (ix f) -> check_name name = true ->
  exists r, with_row_nums f name = Ok (set_column f name r)
    /\ omap (cell_at r) (ix f) = Ok (map (fun k => CInt (Z.of_nat k)) (seq 0 (length (ix f)))).
Proof.
  intros Hf Hnd Hin Hn.
  set (vals := map (fun k => CInt (Z.of_nat k)) (seq 0 (length (ix f)))).
  assert (Hlen : length vals = length (ix f)) by (unfold vals; rewrite map_length, seq_length; reflexivity).
  assert (Hbase : Forall (fun p => p < length (repeat (zero_cell TInt) (phys_len f))) (ix f)) by (rewrite repeat_length; exact Hin).
  destruct (scatter_ok (ix f) _ vals Hlen Hbase) as [arr [Harr Hal]].
  assert (Harr_ok : Forall (fun y => cell_type_ok TInt y = true) arr).
  { eapply scatter_Forall; [| |exact Harr]; [apply repeat_Forall; reflexivity|apply map_CInt_typed]. }
  destruct (col_of_cells_spec TInt arr ltac:(discriminate) Harr_ok) as [r [Hr [Hrt [Hrl Hcell]]]].
  exists r. split.
  - unfold with_row_nums, apply, ofold. simpl. unfold apply_instr. simpl. unfold apply0. rewrite Hf.
    simpl ctype_eqb. cbv iota. fold vals. rewrite Harr. cbn [obind]. rewrite Hr. reflexivity.
  - erewrite (omap_ext_local _ _ (ix f)); [|intros p _; apply Hcell].
    apply omap_of_option_map_some. apply (scatter_read _ _ _ _ Hnd Hlen Harr).
Qed.

Lemma apply1_example :
  let f := mkFrame [([65%N], ICol [10; 20; 30; 40]%Z)] [2; 0; 3] false in
  let tbl := [(CInt 30, CStr (Some [51%N])); (CInt 10, CStr None); (CInt 40, CStr (Some [52%N]))]%Z in
  NoDup (ix f) /\ Forall (fun p => p < 4) (ix f)
  /\ omap (fun p => do x <- cell_at (ICol [10; 20; 30; 40]%Z) p; tbl1 tbl x) (ix f)
     = Ok [CStr (Some [51%N]); CStr None; CStr (Some [52%N])]
  /\ apply1 [] f (F1 TInt TString tbl) [66%N] [65%N]
     = Ok (mkFrame [([65%N], ICol [10; 20; 30; 40]%Z); ([66%N], SCol [None; None; Some [51%N]; Some [52%N]])] [2; 0; 3] false).
Proof.
  cbv zeta. split; [|split; [|split]].
  - simpl. repeat constructor; simpl; intuition lia.
  - simpl. repeat constructor; lia.
  - vm_compute. reflexivity.
  - vm_compute. reflexivity.
Qed.

(* ------------------------------------------------------------------ Copy and Select *)

Theorem copy_spec f dst src c :
  ferr f = false -> lookup_col f src = Some c -> bytes_eqb dst src = false -> check_name dst = true ->
  let g := copy f dst src in
  ix g = ix f /\ ferr g = false /\ lookup_col g dst = Some c
  /\ (forall m, bytes_eqb dst m = false -> lookup g m = lookup f m).
Proof.
  intros Hf Hs Hne Hn g. subst g. unfold copy. rewrite Hf, Hs, Hne.
  destruct (set_column_spec f dst c Hn) as [H1 [H2 [H3 [H4 _]]]].
  repeat split; try assumption. rewrite H2. exact Hf.
Qed.

Theorem copy_rejects f dst src :
  ferr f = false -> lookup_col f src = None -> ferr (copy f dst src) = true.
Proof. intros Hf H. unfold copy. rewrite Hf, H. reflexivity. Qed.

Lemma contains_lookup_col f n : contains f n = true -> exists c, lookup_col f n = Some c.
Proof.
  unfold contains, lookup_col. destruct (lookup f n) as [[p c]|]; [|discriminate]. intros _. exists c. reflexivity.
Qed.

Theorem select_spec f names :
  ferr f = false -> names <> [] ->
  (forallb (contains f) names = false -> ferr (select f names) = true)
  /\ (forallb (contains f) names = true ->
      ferr (select f names) = false /\ ix (select f names) = ix f
      /\ col_names (select f names) = names
      /\ Forall2 (fun n nc => fst nc = n /\ lookup_col f n = Some (snd nc)) names (cols (select f names))).
Proof.
  intros Hf Hne. split; intro H; unfold select; rewrite Hf, H; simpl negb; cbv iota.
  - reflexivity.
  - destruct names as [|n0 ns]; [congruence|]. cbn [ferr ix cols].
    split; [reflexivity|]. split; [reflexivity|].
    assert (G : forall l, forallb (contains f) l = true ->
              map fst (flat_map (fun n => match lookup_col f n with Some c => [(n, c)] | None => [] end) l) = l
              /\ Forall2 (fun n nc => fst nc = n /\ lookup_col f n = Some (snd nc)) l
                         (flat_map (fun n => match lookup_col f n with Some c => [(n, c)] | None => [] end) l)).
    { induction l as [|n l IH]; intro Hl; simpl; [split; [reflexivity|constructor]|].
      simpl in Hl. apply andb_true_iff in Hl as [Hn Hl].
      destruct (contains_lookup_col f n Hn) as [c Hc]. rewrite Hc. simpl.
      destruct (IH Hl) as [I1 I2]. split; [f_equal; exact I1|]. constructor; [split; [reflexivity|exact Hc]|exact I2]. }
    destruct (G (n0 :: ns) H) as [G1 G2]. split; [exact G1|exact G2].
Qed.
