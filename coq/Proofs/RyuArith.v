(* Proofs/RyuArith.v — the machine-integer helpers of Model/Ryu.v in arithmetic terms. *)
From QF Require Import Base.Prelude Gen.GenConsts Gen.GenRyu Model.Ryu.
Local Open Scope N_scope.

Lemma two64N_eq : two64N = 2 ^ 64. Proof. reflexivity. Qed.

Lemma lor_disjoint (a b k : N) : b < 2 ^ k -> N.lor (a * 2 ^ k) b = a * 2 ^ k + b.
Proof.
  intro H.
  assert (L : N.land (a * 2 ^ k) b = 0).
  { apply N.bits_inj_0. intro n. rewrite N.land_spec.
    destruct (N.lt_ge_cases n k) as [Hn|Hn].
    - rewrite N.mul_pow2_bits_low by exact Hn. reflexivity.
    - rewrite <- (N.mod_small b (2 ^ k)) by exact H.
      rewrite N.mod_pow2_bits_high by exact Hn. apply andb_false_r. }
  rewrite N.add_nocarry_lxor by exact L. symmetry. apply N.lxor_lor. exact L.
Qed.

Lemma i32_small (z : Z) : (- 2147483648 <= z < 2147483648)%Z -> i32 z = z.
Proof. intro H. unfold i32. rewrite Z.mod_small by lia. lia. Qed.

Lemma u64_small (x : N) : x < 2 ^ 64 -> u64 x = x.
Proof. intro H. unfold u64. rewrite two64N_eq. apply N.mod_small. exact H. Qed.

Lemma u64_lt (x : N) : u64 x < 2 ^ 64.
Proof. unfold u64. rewrite two64N_eq. apply N.mod_upper_bound. lia. Qed.

Lemma sub64_spec (a b : N) :
  a < 2 ^ 64 -> b <= 2 ^ 64 -> sub64 a b = if b <=? a then a - b else a + 2 ^ 64 - b.
Proof.
  intros Ha Hb. unfold sub64, u64. rewrite two64N_eq.
  destruct (b <=? a) eqn:E.
  - apply N.leb_le in E. replace (a + 2 ^ 64 - b) with ((a - b) + 1 * 2 ^ 64) by lia.
    rewrite N.mod_add by lia. apply N.mod_small. lia.
  - apply N.leb_gt in E. apply N.mod_small. lia.
Qed.

Lemma shl64_spec (x c : N) : c < 64 -> shl64 x c = (x * 2 ^ c) mod 2 ^ 64.
Proof.
  intro H. unfold shl64. apply N.ltb_lt in H. rewrite H. unfold u64. rewrite N.shiftl_mul_pow2. reflexivity.
Qed.

Lemma shr64_spec (x c : N) : c < 64 -> shr64 x c = x / 2 ^ c.
Proof. intro H. unfold shr64. apply N.ltb_lt in H. rewrite H. apply N.shiftr_div_pow2. Qed.

(* ------------------------------------------------------------------ mulShift64 *)

Lemma u64_of_Z_small (z : Z) : (0 <= z < 2 ^ 64)%Z -> u64_of_Z z = Z.to_N z.
Proof. intro H. unfold u64_of_Z. change 18446744073709551616%Z with (2 ^ 64)%Z. rewrite Z.mod_small by exact H. reflexivity. Qed.

(* (hi, lo) >> c as a 128-bit value, truncated to 64 bits *)
Lemma shiftRight128_spec (lo hi : N) (c : Z) :
  lo < 2 ^ 64 -> (0 <= c <= 63)%Z ->
  shiftRight128 (lo, hi) c = Ok (((hi * 2 ^ 64 + lo) / 2 ^ Z.to_N c) mod 2 ^ 64).
Proof.
  intros Hlo Hc. unfold shiftRight128, assert_.
  replace (c <? 64)%Z with true by (symmetry; apply Z.ltb_lt; lia). cbn [obind].
  rewrite (i32_small (64 - c)) by lia.
  rewrite (u64_of_Z_small (64 - c)) by lia. rewrite (u64_of_Z_small c) by lia.
  f_equal.
  destruct (Z.eq_dec c 0) as [->|Hc0].
  - change (Z.to_N (64 - 0)) with 64. change (Z.to_N 0) with 0.
    unfold shl64. change (64 <? 64) with false. cbv iota. rewrite shr64_spec by lia.
    rewrite N.pow_0_r, !N.div_1_r, N.lor_0_l.
    rewrite N.add_comm, N.mod_add by lia. symmetry. apply N.mod_small. exact Hlo.
  - set (cn := Z.to_N c). assert (Hcn : 0 < cn < 64) by (unfold cn; lia).
    replace (Z.to_N (64 - c)) with (64 - cn) by (unfold cn; lia).
    rewrite shl64_spec by lia. rewrite shr64_spec by lia.
    set (A := 2 ^ (64 - cn)). set (B := 2 ^ cn).
    assert (PA : A <> 0) by (apply N.pow_nonzero; lia).
    assert (PB : B <> 0) by (apply N.pow_nonzero; lia).
    assert (E64 : 2 ^ 64 = A * B).
    { unfold A, B. rewrite <- N.pow_add_r. f_equal. lia. }
    assert (Hq : lo / B < A).
    { apply N.div_lt_upper_bound; [exact PB|]. rewrite N.mul_comm, <- E64. exact Hlo. }
    assert (L : (hi * A) mod 2 ^ 64 = (hi mod B) * A).
    { rewrite E64, (N.mul_comm A B). apply N.mul_mod_distr_r; assumption. }
    assert (R : (hi * 2 ^ 64 + lo) / B = hi * A + lo / B).
    { rewrite E64. replace (hi * (A * B) + lo) with ((hi * A) * B + lo) by lia. apply N.div_add_l. exact PB. }
    assert (R2 : (hi * A + lo / B) mod 2 ^ 64 = lo / B + A * (hi mod B)).
    { rewrite E64. rewrite N.mod_mul_r by assumption.
      rewrite (N.add_comm (hi * A)), N.mod_add by exact PA. rewrite (N.mod_small _ _ Hq).
      rewrite N.div_add by exact PA. rewrite (N.div_small _ _ Hq). reflexivity. }
    pose proof (lor_disjoint (hi mod B) (lo / B) (64 - cn) Hq) as LD. fold A in LD.
    rewrite L, LD, R, R2. lia.
Qed.

Lemma mulShift64_spec (m lo hi : N) (sh : Z) :
  m < 2 ^ 64 -> lo < 2 ^ 64 -> hi < 2 ^ 63 -> (64 <= sh <= 127)%Z ->
  mulShift64 m (lo, hi) sh = Ok ((m * (hi * 2 ^ 64 + lo) / 2 ^ Z.to_N sh) mod 2 ^ 64).
Proof.
  intros Hm Hlo Hhi Hsh. unfold mulShift64. rewrite two64N_eq.
  assert (P : 2 ^ 64 <> 0) by (apply N.pow_nonzero; lia).
  set (hihi := m * hi / 2 ^ 64). set (hilo := (m * hi) mod 2 ^ 64). set (lohi := m * lo / 2 ^ 64).
  pose proof (N.div_mod (m * hi) (2 ^ 64) P) as DM. fold hihi hilo in DM.
  pose proof (N.mod_upper_bound (m * hi) (2 ^ 64) P) as MU. fold hilo in MU.
  assert (Hhihi : hihi < 2 ^ 63).
  { unfold hihi. apply N.div_lt_upper_bound; [exact P|]. nia. }
  assert (Hlohi : lohi < 2 ^ 64).
  { unfold lohi. apply N.div_lt_upper_bound; [exact P|]. nia. }
  set (slo := u64 (lohi + hilo)).
  set (shi := if slo <? lohi then u64 (hihi + 1) else hihi).
  assert (Hslo : slo < 2 ^ 64) by apply u64_lt.
  assert (HS : shi * 2 ^ 64 + slo = m * hi + lohi).
  { unfold shi, slo, u64. rewrite two64N_eq.
    destruct (N.lt_ge_cases (lohi + hilo) (2 ^ 64)) as [Hs|Hs].
    - rewrite (N.mod_small _ _ Hs).
      replace (lohi + hilo <? lohi) with false by (symmetry; apply N.ltb_ge; lia). lia.
    - assert (E : (lohi + hilo) mod 2 ^ 64 = lohi + hilo - 2 ^ 64).
      { replace (lohi + hilo) with ((lohi + hilo - 2 ^ 64) + 1 * 2 ^ 64) at 1 by lia.
        rewrite N.mod_add by exact P. apply N.mod_small. lia. }
      rewrite E.
      replace (lohi + hilo - 2 ^ 64 <? lohi) with true by (symmetry; apply N.ltb_lt; lia).
      rewrite N.mod_small by (assert (2 ^ 63 + 1 < 2 ^ 64) by (vm_compute; reflexivity); lia).
      lia. }
  rewrite (i32_small (sh - 64)) by lia.
  rewrite shiftRight128_spec by (assumption || lia).
  f_equal. f_equal. rewrite HS.
  replace (Z.to_N sh) with (64 + Z.to_N (sh - 64)) by lia.
  rewrite N.pow_add_r, <- N.div_div by (try apply N.pow_nonzero; lia).
  f_equal. replace (m * (hi * 2 ^ 64 + lo)) with ((m * hi) * 2 ^ 64 + m * lo) by lia.
  rewrite N.div_add_l by exact P. reflexivity.
Qed.
