(* Proofs/GenAggrProofs.v — the definitions generated from grouper.go / qframe.go / config/groupby /
   internal/icolumn (Gen/GenAggr.v) equal the hand-written model of Model/Aggregate.v.
   The generated code is abstract in the column, error, function, stats, comparable and config-function types;
   here it is instantiated with the model's values (section "instantiation") and the model's frames / groupers
   are represented as the Go structs (emb_frame, emb_grouper: the representation). *)
From QF Require Import Base.Prelude Gen.GenConsts Gen.GenTables Gen.GenFuncs Gen.GenFilterClause Gen.GenAggr.
From QF Require Import Model.Frame Model.Filter Model.Ops Model.Aggregate Proofs.GenFilterClauseProofs Proofs.AggregateProofs.
From QF Require Model.Sort Model.SortFrame Model.Grouper Proofs.SortKeyProofs Model.Bits Proofs.BitsProofs Proofs.GenFuncsProofs.
Local Open Scope Z_scope.

(* ------------------------------------------------------------------ outcome helpers *)

Definition omap1 {A B} (f : A -> B) (x : outcome A) : outcome B :=
  match x with Ok a => Ok (f a) | Fail => Fail | Panic => Panic end.

Lemma obind_omap1 {A B X} (f : A -> B) (x : outcome A) (k : B -> outcome X) :
  obind (omap1 f x) k = obind x (fun a => k (f a)).
Proof. destruct x; reflexivity. Qed.

Lemma omap_map {A B X} (g : A -> B) (f : B -> outcome X) (l : list A) :
  omap f (map g l) = omap (fun a => f (g a)) l.
Proof. induction l as [|a l IH]; cbn [map omap]; [reflexivity|]. now rewrite IH. Qed.

Lemma omap_ext {A B} (f g : A -> outcome B) (l : list A) :
  (forall a, f a = g a) -> omap f l = omap g l.
Proof. intro H. induction l as [|a l IH]; cbn [omap]; [reflexivity|]. now rewrite H, IH. Qed.

Lemma omap_omap1 {A B X} (f : A -> outcome B) (g : B -> X) (l : list A) :
  omap (fun a => omap1 g (f a)) l = omap1 (map g) (omap f l).
Proof.
  induction l as [|a l IH]; cbn [omap]; [reflexivity|]. rewrite IH.
  destruct (f a); cbn [omap1 obind]; [|reflexivity|reflexivity].
  destruct (omap f l); reflexivity.
Qed.

Lemma omap_length {A B} (f : A -> outcome B) (l : list A) r : omap f l = Ok r -> length r = length l.
Proof.
  revert r. induction l as [|a l IH]; cbn [omap]; intros r H.
  - now inversion H.
  - destruct (f a); cbn [obind] in H; try discriminate.
    destruct (omap f l) eqn:E; cbn [obind] in H; try discriminate.
    inversion H. cbn [length]. now rewrite (IH _ eq_refl).
Qed.

(* ------------------------------------------------------------------ slices *)

Lemma gap_succ (n : nat) : Z.of_nat n + 1 = Z.of_nat (S n).
Proof. lia. Qed.

Lemma gap_index {T} (l : list T) (n : nat) : ga_index l (Z.of_nat n) = idx l n.
Proof. unfold ga_index. destruct (Z.of_nat n <? 0) eqn:E; [lia|]. now rewrite Nat2Z.id. Qed.

Lemma gap_make {T} (z : T) (n : nat) : ga_make z (Z.of_nat n) (Z.of_nat n) = Ok (repeat z n).
Proof.
  unfold ga_make. destruct ((Z.of_nat n <? 0) || (Z.of_nat n <? Z.of_nat n)) eqn:E; [lia|]. now rewrite Nat2Z.id.
Qed.

Lemma gap_make0 {T} (z : Z) : 0 <= z -> @ga_make0 T z = Ok [].
Proof. intro H. unfold ga_make0. destruct (z <? 0) eqn:E; [lia|reflexivity]. Qed.

Lemma gap_set_mid {T} (pre rest : list T) r v : set_nth (pre ++ r :: rest) (length pre) v = (pre ++ [v]) ++ rest.
Proof. induction pre as [|p pre IH]; cbn [app length set_nth]; [reflexivity|now rewrite IH]. Qed.

Lemma gap_update_mid {T} (pre rest : list T) r v :
  ga_update (pre ++ r :: rest) (Z.of_nat (length pre)) v = Ok ((pre ++ [v]) ++ rest).
Proof.
  unfold ga_update. destruct (Z.of_nat (length pre) <? 0) eqn:E; [lia|]. rewrite Nat2Z.id.
  unfold idx. rewrite nth_error_app2 by lia. rewrite Nat.sub_diag. cbn [nth_error of_option obind].
  now rewrite gap_set_mid.
Qed.

(* the shape of every "result[i] = f(x)" loop: positions from k on are overwritten with the values of f *)
Fixpoint gap_fill {A T} (f : A -> outcome T) (l : list A) (k : Z) (res : list T) : outcome (list T) :=
  match l with
  | [] => Ok res
  | x :: l' => do v <- f x; do res <- ga_update res k v; gap_fill f l' (k + 1) res
  end.

Lemma gap_fill_spec {A T} (f : A -> outcome T) (l : list A) : forall (pre rest : list T),
  length rest = length l ->
  gap_fill f l (Z.of_nat (length pre)) (pre ++ rest) = (do vs <- omap f l; Ok (pre ++ vs)).
Proof.
  induction l as [|x l IH]; intros pre rest Hlen.
  - destruct rest; [|discriminate]. reflexivity.
  - destruct rest as [|r rest]; [discriminate|]. cbn [gap_fill omap].
    destruct (f x) as [v| |]; cbn [obind]; [|reflexivity|reflexivity].
    rewrite gap_update_mid. cbn [obind]. rewrite gap_succ.
    replace (S (length pre)) with (length (pre ++ [v])) by (rewrite app_length; cbn; lia).
    rewrite IH by (cbn in Hlen; lia).
    destruct (omap f l); cbn [obind]; [|reflexivity|reflexivity]. now rewrite <- app_assoc.
Qed.

Lemma gap_fill_all {A T} (f : A -> outcome T) (l : list A) (z : T) :
  gap_fill f l 0 (repeat z (length l)) = omap f l.
Proof.
  pose proof (gap_fill_spec f l [] (repeat z (length l)) (repeat_length _ _)) as H.
  cbn [length app Z.of_nat] in H. rewrite H. destruct (omap f l); reflexivity.
Qed.

Lemma omap_Ok {A B} (f : A -> B) (l : list A) : omap (fun a => Ok (f a)) l = Ok (map f l).
Proof. induction l as [|a l IH]; cbn [omap map]; [reflexivity|]. now rewrite IH. Qed.

(* ------------------------------------------------------------------ instantiation *)

Definition m_new_error : bytes -> bytes -> list bytes -> unit := fun _ _ _ => tt.
Definition m_propagate : bytes -> option unit -> unit := fun _ _ => tt.
Definition m_unknownCol : bytes -> bytes := fun c => c.
(* fn == "literal": true exactly for a string with that value *)
Definition m_fn_eq_string (fn : aggfn) (s : bytes) : bool :=
  match fn with GName n => bytes_eqb n s | _ => false end.
Definition nats (l : list Z) : list nat := map Z.to_nat l.
Definition ints (l : list nat) : list Z := map Z.of_nat l.
(* Column.Subset / Column.Aggregate of the model's columns; an error of Aggregate is (nil, err) *)
Definition m_col_Subset (c : coldata) (ix : list Z) : outcome (option coldata) :=
  omap1 Some (col_subset c (nats ix)).
Definition m_col_Aggregate (ft : float_table) (c : coldata) (ixs : list (list Z)) (fn : aggfn)
  : outcome (option coldata * option unit) :=
  match col_aggregate ft c (map nats ixs) fn with
  | Ok r => Ok (Some r, None)
  | Fail => Ok (None, Some tt)
  | Panic => Panic
  end.
Definition m_icolumn_New (d : list Z) : coldata := ICol d.

Lemma nats_ints l : nats (ints l) = l.
Proof. unfold nats, ints. rewrite map_map. rewrite <- (map_id l) at 2. apply map_ext. intro; apply Nat2Z.id. Qed.

Lemma map_nats_ints l : map nats (map ints l) = l.
Proof. rewrite map_map. rewrite <- (map_id l) at 2. apply map_ext. intro; apply nats_ints. Qed.

(* ------------------------------------------------------------------ the representation *)

Notation NC := (@ga_namedColumn coldata).
Definition emb_nc (name : bytes) (pc : nat * coldata) : NC := ga_mk_namedColumn (Some (snd pc)) name (Z.of_nat (fst pc)).

(* qf.columns: position i of the slice holds name, column and pos = i *)
Fixpoint emb_cols_from (k : nat) (cs : list (bytes * coldata)) : list NC :=
  match cs with
  | [] => []
  | nc :: r => emb_nc (fst nc) (k, snd nc) :: emb_cols_from (S k) r
  end.
(* qf.columnsByName: every column entered under its name, in slice order *)
Definition emb_map_from (k : nat) (cs : list (bytes * coldata)) : list (bytes * NC) :=
  map (fun nc => (ga_namedColumn_name nc, nc)) (emb_cols_from k cs).
Definition emb_cols := emb_cols_from 0.
Definition emb_map := emb_map_from 0.

Definition emb_err (b : bool) : option unit := if b then Some tt else None.

Definition emb_frame (f : frame) : @ga_QFrame coldata unit :=
  ga_mk_QFrame (emb_cols (cols f)) (emb_map (cols f)) (ints (ix f)) (emb_err (ferr f)).
Definition emb_grouper (g : grouper) : @ga_Grouper coldata unit unit :=
  ga_mk_Grouper (map ints (gindices g)) (gkeys g) (emb_cols (gcols g)) (emb_map (gcols g)) (emb_err (gerr g)) tt.
Definition emb_agg (a : aggregation) : @ga_Aggregation aggfn := ga_mk_Aggregation (agfn a) (acol a) (aas a).

Lemma emb_err_nil b : negb (ga_isnil (emb_err b)) = b.
Proof. now destruct b. Qed.

Lemma emb_cols_from_app k a b :
  emb_cols_from k (a ++ b) = emb_cols_from k a ++ emb_cols_from (k + length a) b.
Proof.
  revert k. induction a as [|x a IH]; intro k; cbn [app emb_cols_from length].
  - now rewrite Nat.add_0_r.
  - rewrite IH. now replace (S k + length a)%nat with (k + S (length a))%nat by lia.
Qed.

Lemma emb_cols_from_length k cs : length (emb_cols_from k cs) = length cs.
Proof. revert k. induction cs as [|x cs IH]; intro k; cbn [emb_cols_from length]; [reflexivity|now rewrite IH]. Qed.

Lemma emb_cols_length cs : length (emb_cols cs) = length cs.
Proof. apply emb_cols_from_length. Qed.

Lemma emb_cols_snoc acc name c :
  emb_cols acc ++ [ga_mk_namedColumn (Some c) name (Z.of_nat (length acc))] = emb_cols (acc ++ [(name, c)]).
Proof. unfold emb_cols. rewrite emb_cols_from_app. reflexivity. Qed.

Lemma emb_map_snoc acc name c :
  ga_map_set (emb_map acc) name (ga_mk_namedColumn (Some c) name (Z.of_nat (length acc))) = emb_map (acc ++ [(name, c)]).
Proof.
  unfold ga_map_set, emb_map, emb_map_from. fold emb_cols. rewrite <- emb_cols_snoc, map_app. reflexivity.
Qed.

(* the map lookup is the model's lookup (the LAST column with the name, and its position) *)
Lemma gap_find_from (name : bytes) (cs : list (bytes * coldata)) : forall k acc,
  ga_map_find (emb_map_from k cs) name (option_map (emb_nc name) acc)
  = option_map (emb_nc name) (lookup_from name cs k acc).
Proof.
  induction cs as [|[n c] cs IH]; intros k acc; cbn [emb_map_from emb_cols_from map ga_map_find lookup_from].
  - reflexivity.
  - fold (emb_map_from (S k) cs). cbn [fst snd emb_nc ga_namedColumn_name].
    destruct (bytes_eqb n name) eqn:E.
    + apply bytes_eqb_spec in E. subst n. apply (IH (S k) (Some (k, c))).
    + apply IH.
Qed.

Lemma gap_map_get (f_cols : list (bytes * coldata)) (name : bytes) :
  ga_map_get ga_namedColumn_zero (emb_map f_cols) name
  = match lookup_from name f_cols 0 None with
    | Some pc => (emb_nc name pc, true)
    | None => (ga_namedColumn_zero, false)
    end.
Proof.
  unfold ga_map_get, emb_map. pose proof (gap_find_from name f_cols 0%nat None) as H.
  change (option_map (emb_nc name) None) with (@None NC) in H. rewrite H.
  destruct (lookup_from name f_cols 0 None); reflexivity.
Qed.

Lemma lookup_from_some_iff name cs : forall k acc,
  (exists pc, lookup_from name cs k acc = Some pc) <->
  (existsb (fun nc => bytes_eqb (fst nc) name) cs = true \/ exists pc, acc = Some pc).
Proof.
  induction cs as [|[n c] cs IH]; intros k acc; cbn [lookup_from existsb fst].
  - split; [intros [pc H]; right; now exists pc|intros [H|H]; [discriminate|exact H]].
  - rewrite IH. destruct (bytes_eqb n name); cbn [orb].
    + split; intros _; [now left|right; now eexists].
    + reflexivity.
Qed.

(* _, ok := newColumnsByName[name] is the model's name_in *)
Lemma gap_map_has acc name :
  snd (ga_map_get (@ga_namedColumn_zero coldata) (emb_map acc) name) = name_in name acc.
Proof.
  rewrite gap_map_get. unfold name_in.
  destruct (lookup_from name acc 0 None) eqn:E; cbn [snd].
  - symmetry. pose proof (proj1 (lookup_from_some_iff name acc 0%nat None) (ex_intro _ _ E)) as [H|[pc H]];
      [exact H|discriminate].
  - destruct (existsb (fun nc => bytes_eqb (fst nc) name) acc) eqn:X; [|reflexivity].
    pose proof (proj2 (lookup_from_some_iff name acc 0%nat None) (or_introl X)) as [pc H]. congruence.
Qed.

(* ------------------------------------------------------------------ Grouper.Aggregate *)

Lemma idx_ints (l : list nat) (n : nat) : idx (ints l) n = omap1 Z.of_nat (idx l n).
Proof. unfold idx, ints. rewrite nth_error_map. destruct (nth_error l n); reflexivity. Qed.

(* firstElementIx[i] = ix[0] *)
Lemma ga_Aggregate_loop1_fill (l : list (list Z)) : forall k res,
  ga_Grouper_Aggregate_loop1 l k res = gap_fill (fun ix => ga_index ix 0) l k res.
Proof.
  induction l as [|x l IH]; intros k res; cbn [ga_Grouper_Aggregate_loop1 gap_fill]; [reflexivity|].
  destruct (ga_index x 0); cbn [obind]; [|reflexivity|reflexivity].
  destruct (ga_update res k a); cbn [obind]; [apply IH|reflexivity|reflexivity].
Qed.

Lemma ga_Aggregate_firsts (gs : list (list nat)) :
  ga_Grouper_Aggregate_loop1 (map ints gs) 0 (repeat 0 (length gs))
  = omap1 ints (omap (fun ix => idx ix 0%nat) gs).
Proof.
  rewrite ga_Aggregate_loop1_fill. rewrite <- (map_length ints gs) at 1. rewrite gap_fill_all.
  rewrite omap_map. etransitivity; [|exact (omap_omap1 (fun ix => idx ix 0%nat) Z.of_nat gs)].
  apply omap_ext. intro ix. change 0 with (Z.of_nat 0). rewrite gap_index. apply idx_ints.
Qed.

(* counts[i] = len(ix) *)
Lemma ga_Aggregate_loop3_fill (l : list (list Z)) : forall k res,
  ga_Grouper_Aggregate_loop3 l k res = gap_fill (fun ix => Ok (Z.of_nat (length ix))) l k res.
Proof.
  induction l as [|x l IH]; intros k res; cbn [ga_Grouper_Aggregate_loop3 gap_fill obind]; [reflexivity|].
  destruct (ga_update res k (Z.of_nat (length x))); cbn [obind]; [apply IH|reflexivity|reflexivity].
Qed.

Lemma ga_Aggregate_counts (gs : list (list nat)) :
  ga_Grouper_Aggregate_loop3 (map ints gs) 0 (repeat 0 (length gs))
  = Ok (map (fun ix => Z.of_nat (length ix)) gs).
Proof.
  rewrite ga_Aggregate_loop3_fill. rewrite <- (map_length ints gs) at 1. rewrite gap_fill_all.
  rewrite omap_Ok, map_map. f_equal. apply map_ext. intro ix. unfold ints. now rewrite map_length.
Qed.

Ltac ncsimpl := unfold ga_namedColumn_set_name, ga_namedColumn_set_pos, ga_namedColumn_set_Column, emb_nc;
                cbn [fst snd ga_namedColumn_Column ga_namedColumn_name ga_namedColumn_pos].

Lemma m_col_Subset_ints c firsts : m_col_Subset c (ints firsts) = omap1 Some (col_subset c firsts).
Proof. unfold m_col_Subset. now rewrite nats_ints. Qed.

Lemma m_col_Aggregate_ints ft c gs fn :
  m_col_Aggregate ft c (map ints gs) fn
  = match col_aggregate ft c gs fn with Ok r => Ok (Some r, None) | Fail => Ok (None, Some tt) | Panic => Panic end.
Proof. unfold m_col_Aggregate. now rewrite map_nats_ints. Qed.

(* the key columns: the grouped columns taken with Subset on the first row of every group *)
Definition key_col (g : grouper) (firsts : list nat) (n : bytes) : outcome (bytes * coldata) :=
  do c <- of_option (lookup_col (gframe g) n); do s <- col_subset c firsts; Ok (n, s).

Lemma lookup_col_gframe g n : lookup_col (gframe g) n = option_map snd (lookup_from n (gcols g) 0 None).
Proof. reflexivity. Qed.

Lemma ga_Aggregate_loop2_eq (g : grouper) (firsts : list nat) (keys : list bytes) : forall acc,
  ga_Grouper_Aggregate_loop2 m_col_Subset keys (Z.of_nat (length acc)) (emb_grouper g) (ints firsts)
    (emb_map acc) (emb_cols acc)
  = omap1 (fun kc => (emb_map (acc ++ kc), emb_cols (acc ++ kc))) (omap (key_col g firsts) keys).
Proof.
  induction keys as [|n keys IH]; intro acc; cbn [ga_Grouper_Aggregate_loop2 omap omap1].
  - now rewrite app_nil_r.
  - cbn [emb_grouper ga_Grouper_columnsByName]. rewrite gap_map_get. unfold key_col at 1.
    rewrite lookup_col_gframe.
    destruct (lookup_from n (gcols g) 0 None) as [[p c]|]; cbn [fst option_map of_option obind snd];
      [|reflexivity].
    ncsimpl. cbn [ga_deref obind]. rewrite m_col_Subset_ints.
    destruct (col_subset c firsts) as [s| |]; cbn [omap1 obind]; [|reflexivity|reflexivity].
    ncsimpl.
    rewrite emb_map_snoc, emb_cols_snoc, gap_succ.
    replace (S (length acc)) with (length (acc ++ [(n, s)])) by (rewrite app_length; cbn; lia).
    rewrite IH. destruct (omap (key_col g firsts) keys); cbn [omap1 obind]; [|reflexivity|reflexivity].
    now rewrite <- app_assoc.
Qed.

Lemma gap_agg_name (a : aggregation) :
  (if negb (bytes_eqb (aas a) (@nil N)) then aas a else acol a) = agg_name a.
Proof. unfold agg_name, empty_name. destruct (aas a); reflexivity. Qed.

Lemma gap_is_count fn : m_fn_eq_string fn (bs 5 0x636f756e74) = is_count fn.
Proof. reflexivity. Qed.

Definition agg_result (g : grouper) (r : outcome (list (bytes * coldata))) : outcome (@ga_QFrame coldata unit) :=
  match r with
  | Ok cs => Ok (emb_frame (mkFrame cs (seq 0 (length (gindices g))) false))
  | Fail => Ok (emb_frame err_frame)
  | Panic => Panic
  end.

Lemma ga_Aggregate_loop4_eq (ft : float_table) (g : grouper) (aggs : list aggregation) :
  Z.of_nat (length (gindices g)) < 4294967296 ->
  forall acc err,
  ga_Grouper_Aggregate_loop4 m_new_error m_propagate m_unknownCol m_fn_eq_string (m_col_Aggregate ft) m_icolumn_New
    (map emb_agg aggs) (emb_grouper g) (emb_map acc) (emb_cols acc) err
  = agg_result g (ofold (agg_step ft g) aggs acc).
Proof.
  intro Hn. induction aggs as [|a aggs IH]; intros acc err; cbn [map ga_Grouper_Aggregate_loop4].
  - rewrite ofold_nil. cbn [agg_result emb_grouper ga_Grouper_indices]. rewrite map_length.
    unfold ga_u32. rewrite Z.mod_small by lia. rewrite gc_NewAscending_small by lia. reflexivity.
  - rewrite ofold_cons. unfold agg_step at 1.
    cbn [emb_grouper ga_Grouper_columnsByName ga_Grouper_indices emb_agg ga_Aggregation_Column ga_Aggregation_As ga_Aggregation_Fn].
    rewrite gap_map_get. rewrite lookup_col_gframe.
    destruct (lookup_from (acol a) (gcols g) 0 None) as [[p c]|]; cbn [option_map negb snd]; [|reflexivity].
    cbn [obind].
    assert (Hname : (if negb (bytes_eqb (aas a) (@nil N)) then Ok (aas a) else Ok (acol a)) = Ok (agg_name a)).
    { rewrite <- gap_agg_name. destruct (negb (bytes_eqb (aas a) [])); reflexivity. }
    rewrite Hname. cbn [obind].
    pose proof (gap_map_has acc (agg_name a)) as Hhas.
    destruct (ga_map_get ga_namedColumn_zero (emb_map acc) (agg_name a)) as [t8 t9]. cbn [snd] in Hhas. subst t9.
    destruct (name_in (agg_name a) acc); [reflexivity|].
    rewrite gap_is_count. unfold agg_column.
    ncsimpl. rewrite emb_cols_length.
    destruct (is_count (agfn a)).
    + rewrite map_length, gap_make. cbn [obind]. rewrite ga_Aggregate_counts. cbn [obind].
      ncsimpl. unfold m_icolumn_New. rewrite emb_map_snoc, emb_cols_snoc. apply IH.
    + cbn [ga_deref obind]. rewrite m_col_Aggregate_ints.
      destruct (col_aggregate ft c (gindices g) (agfn a)) as [r| |]; cbn [obind ga_isnil negb]; [|reflexivity|reflexivity].
      ncsimpl.
      rewrite emb_map_snoc, emb_cols_snoc. apply IH.
Qed.

(* func (g Grouper) Aggregate(aggs ...Aggregation) QFrame = the model's aggregate *)
Lemma ga_Grouper_Aggregate_eq (ft : float_table) (g : grouper) (aggs : list aggregation) :
  Z.of_nat (length (gindices g)) < 4294967296 ->
  ga_Grouper_Aggregate m_new_error m_propagate m_unknownCol m_fn_eq_string m_col_Subset (m_col_Aggregate ft)
    m_icolumn_New (emb_grouper g) (map emb_agg aggs)
  = omap1 emb_frame (aggregate ft g aggs).
Proof.
  intro Hn. unfold ga_Grouper_Aggregate, aggregate.
  cbn [emb_grouper ga_Grouper_Err ga_Grouper_indices ga_Grouper_groupedColumns]. rewrite emb_err_nil.
  destruct (gerr g); [reflexivity|].
  rewrite map_length, gap_make. cbn [obind]. rewrite ga_Aggregate_firsts, obind_omap1.
  destruct (omap (fun ix => idx ix 0%nat) (gindices g)) as [firsts| |]; cbn [obind omap1]; [|reflexivity|reflexivity].
  rewrite gap_make0 by lia. cbn [obind].
  pose proof (ga_Aggregate_loop2_eq g firsts (gkeys g) []) as H2. cbn [length Z.of_nat app] in H2.
  change (emb_map []) with (@nil (bytes * NC)) in H2. change (emb_cols []) with (@nil NC) in H2.
  fold (emb_grouper g). rewrite H2. clear H2.
  fold (key_col g firsts).
  change (fun n => do c <- of_option (lookup_col (gframe g) n); do s <- col_subset c firsts; Ok (n, s))
    with (key_col g firsts).
  destruct (omap (key_col g firsts) (gkeys g)) as [keycols| |]; cbn [omap1 obind]; [|reflexivity|reflexivity].
  rewrite ga_Aggregate_loop4_eq by exact Hn.
  destruct (ofold (agg_step ft g) aggs keycols); reflexivity.
Qed.

(* ------------------------------------------------------------------ Grouper.QFrames *)

Lemma ga_QFrames_loop1_fill {C E : Type} (base : @ga_QFrame C E) (l : list (list Z)) : forall k res,
  ga_Grouper_QFrames_loop1 l k base res = gap_fill (fun ix => ga_QFrame_withIndex base ix) l k res.
Proof.
  induction l as [|x l IH]; intros k res; cbn [ga_Grouper_QFrames_loop1 gap_fill]; [reflexivity|].
  destruct (ga_QFrame_withIndex base x); cbn [obind]; [|reflexivity|reflexivity].
  destruct (ga_update res k a); cbn [obind]; [apply IH|reflexivity|reflexivity].
Qed.

(* func (g Grouper) QFrames() ([]QFrame, error): (nil, g.Err) or one frame per group, (frames, nil) *)
Lemma ga_Grouper_QFrames_eq (g : grouper) :
  ga_Grouper_QFrames (emb_grouper g)
  = Ok (match qframes g with Ok fs => (map emb_frame fs, None) | _ => ([], Some tt) end).
Proof.
  unfold ga_Grouper_QFrames, qframes.
  cbn [emb_grouper ga_Grouper_Err ga_Grouper_indices ga_Grouper_columns ga_Grouper_columnsByName].
  rewrite emb_err_nil. destruct (gerr g); [reflexivity|].
  rewrite map_length, gap_make. cbn [obind]. rewrite ga_QFrames_loop1_fill.
  rewrite <- (map_length ints (gindices g)) at 1. rewrite gap_fill_all.
  unfold ga_QFrame_withIndex. rewrite omap_Ok. cbn [obind]. rewrite !map_map. reflexivity.
Qed.

(* ------------------------------------------------------------------ groupby.NewConfig *)

(* for every total config function: the functions are applied in order to the zero Config *)
Lemma ga_NewConfig_loop_eq {CF : Type} (apply : CF -> ga_Config -> ga_Config) (fns : list CF) : forall cfg,
  ga_groupby_NewConfig_loop1 (fun f c => Ok (apply f c)) fns cfg = Ok (fold_left (fun c f => apply f c) fns cfg).
Proof. induction fns as [|f fns IH]; intro cfg; cbn [ga_groupby_NewConfig_loop1 fold_left obind]; [reflexivity|apply IH]. Qed.

Lemma ga_NewConfig_eq {CF : Type} (apply : CF -> ga_Config -> ga_Config) (fns : list CF) :
  ga_groupby_NewConfig (fun f c => Ok (apply f c)) fns = Ok (fold_left (fun c f => apply f c) fns ga_Config_zero).
Proof. unfold ga_groupby_NewConfig. rewrite ga_NewConfig_loop_eq. reflexivity. Qed.

(* a config function that panics makes NewConfig panic *)
Lemma ga_NewConfig_panic {CF : Type} (cf_apply : CF -> ga_Config -> outcome ga_Config) (f : CF) (fns : list CF) :
  cf_apply f ga_Config_zero = Panic -> ga_groupby_NewConfig cf_apply (f :: fns) = Panic.
Proof. intro H. unfold ga_groupby_NewConfig. cbn [ga_groupby_NewConfig_loop1]. now rewrite H. Qed.

(* the two config functions of the package: groupby.Columns(columns...) and groupby.Null(b) *)
Inductive m_cf := CfColumns (columns : list bytes) | CfNull (b : bool).
Definition m_cf_fun (f : m_cf) (c : ga_Config) : ga_Config :=
  match f with
  | CfColumns l => ga_Config_set_Columns c l
  | CfNull b => ga_Config_set_GroupByNull c b
  end.
Definition m_cf_apply (f : m_cf) (c : ga_Config) : outcome ga_Config := Ok (m_cf_fun f c).
Definition m_config (fns : list m_cf) : ga_Config := fold_left (fun c f => m_cf_fun f c) fns ga_Config_zero.

(* ------------------------------------------------------------------ the helpers of qframe.go *)

Lemma ga_Len_eq (f : frame) : ga_QFrame_Len (emb_frame f) = Ok (frame_len f).
Proof.
  unfold ga_QFrame_Len, frame_len. cbn [emb_frame ga_QFrame_Err ga_QFrame_index]. rewrite emb_err_nil.
  destruct (ferr f); [reflexivity|]. unfold ints. now rewrite map_length.
Qed.

Lemma emb_cols_names k cs : map (@ga_namedColumn_name coldata) (emb_cols_from k cs) = map fst cs.
Proof. revert k. induction cs as [|x cs IH]; intro k; cbn [emb_cols_from map]; [reflexivity|]. now rewrite IH. Qed.

Lemma ga_ColumnNames_loop1_fill {C : Type} (l : list (@ga_namedColumn C)) : forall k res,
  ga_QFrame_ColumnNames_loop1 l k res = gap_fill (fun s => Ok (ga_namedColumn_name s)) l k res.
Proof.
  induction l as [|x l IH]; intros k res; cbn [ga_QFrame_ColumnNames_loop1 gap_fill obind]; [reflexivity|].
  destruct (ga_update res k (ga_namedColumn_name x)); cbn [obind]; [apply IH|reflexivity|reflexivity].
Qed.

Lemma ga_ColumnNames_eq (f : frame) : ga_QFrame_ColumnNames (emb_frame f) = Ok (col_names f).
Proof.
  unfold ga_QFrame_ColumnNames. cbn [emb_frame ga_QFrame_columns]. rewrite gap_make. cbn [obind].
  rewrite ga_ColumnNames_loop1_fill, gap_fill_all, omap_Ok. cbn [obind]. unfold emb_cols. now rewrite emb_cols_names.
Qed.

Lemma gap_len_zero {T} (l : list T) : (Z.of_nat (length l) =? 0) = match l with [] => true | _ :: _ => false end.
Proof. destruct l; reflexivity. Qed.

Lemma ga_columnsOrAll_eq (f : frame) (columns : list bytes) :
  ga_QFrame_columnsOrAll (emb_frame f) columns
  = Ok (match columns with [] => col_names f | _ :: _ => columns end).
Proof.
  unfold ga_QFrame_columnsOrAll. rewrite gap_len_zero. destruct columns; [|reflexivity].
  rewrite ga_ColumnNames_eq. reflexivity.
Qed.

Definition m_order (c : bytes) : ga_Order := ga_mk_Order c false false.

Lemma ga_orders_loop1_fill (l : list bytes) : forall k res,
  ga_QFrame_orders_loop1 l k res = gap_fill (fun c => Ok (m_order c)) l k res.
Proof.
  induction l as [|x l IH]; intros k res; cbn [ga_QFrame_orders_loop1 gap_fill obind]; [reflexivity|].
  fold (m_order x). destruct (ga_update res k (m_order x)); cbn [obind]; [apply IH|reflexivity|reflexivity].
Qed.

Lemma ga_orders_eq {C E : Type} (qf : @ga_QFrame C E) (columns : list bytes) :
  ga_QFrame_orders qf columns = Ok (map m_order columns).
Proof.
  unfold ga_QFrame_orders. rewrite gap_make. cbn [obind].
  now rewrite ga_orders_loop1_fill, gap_fill_all, omap_Ok.
Qed.

(* checkColumns: an error exactly when some name is not a column (the first such name makes the error) *)
Lemma gap_map_contains (f : frame) (name : bytes) :
  snd (ga_map_get (@ga_namedColumn_zero coldata) (emb_map (cols f)) name) = contains f name.
Proof.
  rewrite gap_map_get. unfold contains, lookup. destruct (lookup_from name (cols f) 0 None); reflexivity.
Qed.

Lemma ga_checkColumns_eq (f : frame) (op : bytes) (columns : list bytes) :
  ga_QFrame_checkColumns m_new_error m_unknownCol (emb_frame f) op columns
  = Ok (emb_err (negb (forallb (contains f) columns))).
Proof.
  unfold ga_QFrame_checkColumns.
  induction columns as [|c columns IH]; cbn [ga_QFrame_checkColumns_loop1 forallb]; [reflexivity|].
  cbn [emb_frame ga_QFrame_columnsByName]. pose proof (gap_map_contains f c) as H.
  destruct (ga_map_get ga_namedColumn_zero (emb_map (cols f)) c) as [t1 t2]. cbn [snd] in H. subst t2.
  destruct (contains f c); cbn [negb andb]; [exact IH|reflexivity].
Qed.

(* comparables: column.Comparable(false, groupByNull, false) of every named column, in order *)
Notation MK := (coldata * bool * bool * bool)%type.
Definition m_Comparable (c : coldata) (r e n : bool) : MK := (c, r, e, n).
Definition m_key (nulleq : bool) (c : coldata) : MK := (c, false, nulleq, false).

Lemma gap_skipn_cons {T} (l : list T) : forall k x r,
  skipn k l = x :: r -> nth_error l k = Some x /\ skipn (S k) l = r.
Proof.
  induction l as [|y l IH]; intros k x r H.
  - destruct k; discriminate.
  - destruct k as [|k].
    + cbn in H. inversion H. split; reflexivity.
    + cbn [skipn] in H. destruct (IH k x r H) as [H1 H2]. split; [exact H1|exact H2].
Qed.

Lemma ga_comparables_loop1_eq (f : frame) (nulleq : bool) (orders : list ga_Order) (suffix : list bytes) :
  forall k res, skipn k orders = map m_order suffix ->
  ga_QFrame_comparables_loop1 m_Comparable (ints (seq k (length suffix))) (emb_frame f) orders nulleq res
  = omap1 (fun kcols => res ++ map (m_key nulleq) kcols) (named_cols f suffix).
Proof.
  induction suffix as [|n suffix IH]; intros k res Hs; cbn [length seq ints map ga_QFrame_comparables_loop1].
  - cbn [named_cols omap omap1 map]. now rewrite app_nil_r.
  - cbn [map] in Hs. destruct (gap_skipn_cons orders k _ _ Hs) as [H1 H2].
    rewrite gap_index. unfold idx. rewrite H1. cbn [of_option obind m_order ga_Order_Column].
    cbn [emb_frame ga_QFrame_columnsByName]. rewrite gap_map_get.
    unfold named_cols. cbn [omap]. fold (named_cols f suffix).
    unfold lookup_col, lookup.
    destruct (lookup_from n (cols f) 0 None) as [[p c]|]; cbn [fst option_map of_option obind snd]; [|reflexivity].
    ncsimpl. cbn [ga_deref obind]. fold (ints (seq (S k) (length suffix))).
    rewrite (IH (S k) _ H2). destruct (named_cols f suffix); cbn [omap1 obind map]; [|reflexivity|reflexivity].
    rewrite <- app_assoc. reflexivity.
Qed.

Lemma ga_comparables_eq (f : frame) (nulleq : bool) (columns : list bytes) :
  ga_QFrame_comparables m_Comparable (emb_frame f) columns (map m_order columns) nulleq
  = omap1 (map (m_key nulleq)) (named_cols f columns).
Proof.
  unfold ga_QFrame_comparables. rewrite gap_make0 by lia. cbn [obind].
  unfold ga_iota. rewrite Nat2Z.id. fold (ints (seq 0 (length columns))).
  rewrite (ga_comparables_loop1_eq f nulleq (map m_order columns) columns 0 [] eq_refl).
  destruct (named_cols f columns); reflexivity.
Qed.

(* ------------------------------------------------------------------ QFrame.GroupBy / QFrame.Distinct *)

(* grouper.GroupBy / grouper.Distinct over the comparables, as functions of the model's row ids *)
Definition m_GroupBy (grp : list MK -> list nat -> outcome (list (list nat))) (ix : list Z) (ks : list MK)
  : outcome (list (list Z) * unit) := omap1 (fun gs => (map ints gs, tt)) (grp ks (nats ix)).
Definition m_Distinct (dst : list MK -> list nat -> outcome (list nat)) (ix : list Z) (ks : list MK)
  : outcome (list Z) := omap1 ints (dst ks (nats ix)).

Lemma ga_NewConfig_m (fns : list m_cf) : ga_groupby_NewConfig m_cf_apply fns = Ok (m_config fns).
Proof. exact (ga_NewConfig_eq m_cf_fun fns). Qed.

Lemma frame_len_zero f : ferr f = false -> (frame_len f =? 0) = match ix f with [] => true | _ :: _ => false end.
Proof. intro H. unfold frame_len. rewrite H. apply gap_len_zero. Qed.

Lemma ga_GroupBy_eq (grp : list MK -> list nat -> outcome (list (list nat))) (f : frame) (fns : list m_cf) :
  ga_QFrame_GroupBy tt m_new_error m_unknownCol m_Comparable (m_GroupBy grp) m_cf_apply (emb_frame f) fns
  = omap1 emb_grouper
      (group_by_with (fun kcols ids => grp (map (m_key (ga_Config_GroupByNull (m_config fns))) kcols) ids)
         f (ga_Config_Columns (m_config fns))).
Proof.
  unfold ga_QFrame_GroupBy, group_by_with.
  replace (ga_QFrame_Err (emb_frame f)) with (emb_err (ferr f)) by reflexivity. rewrite emb_err_nil.
  destruct (ferr f) eqn:Ef; [reflexivity|].
  rewrite ga_NewConfig_m. cbn [obind]. rewrite ga_checkColumns_eq. cbn [obind]. rewrite emb_err_nil.
  destruct (negb (forallb (contains f) (ga_Config_Columns (m_config fns)))); [reflexivity|].
  rewrite ga_Len_eq. cbn [obind]. rewrite (frame_len_zero f Ef).
  destruct (ix f) as [|i0 ixs] eqn:Eix.
  { cbn [omap1 emb_grouper gindices gkeys gcols gerr map emb_err emb_frame ga_QFrame_columns ga_QFrame_columnsByName].
    reflexivity. }
  rewrite gap_len_zero. destruct (ga_Config_Columns (m_config fns)) as [|c0 cs] eqn:Ec.
  { cbn [omap1 emb_grouper gindices gkeys gcols gerr map emb_err emb_frame ga_QFrame_columns ga_QFrame_columnsByName
         ga_QFrame_index ga_Grouper_set_indices ga_Grouper_indices ga_Grouper_groupedColumns ga_Grouper_columns
         ga_Grouper_columnsByName ga_Grouper_Err ga_Grouper_Stats].
    unfold ga_Grouper_set_indices. cbn [ga_Grouper_groupedColumns ga_Grouper_columns ga_Grouper_columnsByName
         ga_Grouper_Err ga_Grouper_Stats]. rewrite Eix. reflexivity. }
  rewrite ga_orders_eq. cbn [obind]. rewrite ga_comparables_eq, obind_omap1.
  destruct (named_cols f (c0 :: cs)) as [kcols| |]; cbn [obind]; [|reflexivity|reflexivity].
  cbn [emb_frame ga_QFrame_index ga_QFrame_columns ga_QFrame_columnsByName]. unfold m_GroupBy. rewrite nats_ints, Eix.
  destruct (grp (map (m_key (ga_Config_GroupByNull (m_config fns))) kcols) (i0 :: ixs)) as [gs| |];
    cbn [omap1 obind]; reflexivity.
Qed.

Definition m_withErr_frame (f : frame) : @ga_QFrame coldata unit :=
  ga_mk_QFrame (emb_cols (cols f)) (emb_map (cols f)) (ints (ix f)) (Some tt).

Lemma ga_Distinct_loop1_eq (dst : list MK -> list nat -> outcome (list nat)) (f : frame) (cfg : ga_Config)
  (l : list bytes) :
  ga_QFrame_Distinct_loop1 m_new_error m_unknownCol m_Comparable (m_Distinct dst) l (emb_frame f) cfg
  = if forallb (contains f) l
    then ga_QFrame_Distinct_loop1 m_new_error m_unknownCol m_Comparable (m_Distinct dst) [] (emb_frame f) cfg
    else Ok (emb_frame (with_err f)).
Proof.
  induction l as [|c l IH]; [reflexivity|]. cbn [forallb]. cbn [ga_QFrame_Distinct_loop1].
  cbn [emb_frame ga_QFrame_columnsByName]. pose proof (gap_map_contains f c) as H.
  destruct (ga_map_get ga_namedColumn_zero (emb_map (cols f)) c) as [t1 t2]. cbn [snd] in H. subst t2.
  destruct (contains f c); cbn [negb andb]; [exact IH|reflexivity].
Qed.

Lemma ga_Distinct_eq (dst : list MK -> list nat -> outcome (list nat)) (f : frame) (fns : list m_cf) :
  ga_QFrame_Distinct m_new_error m_unknownCol m_Comparable (m_Distinct dst) m_cf_apply (emb_frame f) fns
  = omap1 emb_frame
      (distinct_with (fun kcols ids => dst (map (m_key (ga_Config_GroupByNull (m_config fns))) kcols) ids)
         f (ga_Config_Columns (m_config fns))).
Proof.
  unfold ga_QFrame_Distinct, distinct_with.
  replace (ga_QFrame_Err (emb_frame f)) with (emb_err (ferr f)) by reflexivity. rewrite emb_err_nil.
  destruct (ferr f) eqn:Ef; [reflexivity|].
  rewrite ga_Len_eq. cbn [obind]. rewrite (frame_len_zero f Ef).
  destruct (ix f) as [|i0 ixs] eqn:Eix; [reflexivity|].
  rewrite ga_NewConfig_m. cbn [obind]. rewrite ga_Distinct_loop1_eq.
  destruct (forallb (contains f) (ga_Config_Columns (m_config fns))); cbn [negb]; [|reflexivity].
  cbn [ga_QFrame_Distinct_loop1]. rewrite ga_columnsOrAll_eq. cbn [obind].
  rewrite ga_orders_eq. cbn [obind]. rewrite ga_comparables_eq, obind_omap1.
  destruct (named_cols f _) as [kcols| |]; cbn [obind]; [|reflexivity|reflexivity].
  cbn [emb_frame ga_QFrame_index]. unfold m_Distinct. rewrite nats_ints, obind_omap1, Eix.
  destruct (dst (map (m_key (ga_Config_GroupByNull (m_config fns))) kcols) (i0 :: ixs)) as [d| |];
    cbn [omap1 obind]; reflexivity.
Qed.

(* ------------------------------------------------------------------ the instances built from Model/Grouper.v *)

Definition mk_col (k : MK) : coldata := fst (fst (fst k)).
Definition mk_null (ks : list MK) : bool := match ks with k :: _ => snd (fst k) | [] => false end.
(* the hash table of Model/Grouper.v over the comparables: equalNull is read off the (first) comparable *)
Definition m_table_group (memhash : bytes -> N -> N) (rnd : nat -> nat -> N) (ks : list MK) (ids : list nat) :=
  table_group memhash rnd (mk_null ks) (map mk_col ks) ids.
Definition m_table_distinct (memhash : bytes -> N -> N) (rnd : nat -> nat -> N) (ks : list MK) (ids : list nat) :=
  table_distinct memhash rnd (mk_null ks) (map mk_col ks) ids.

Lemma mk_col_key nulleq kcols : map mk_col (map (m_key nulleq) kcols) = kcols.
Proof. rewrite map_map. rewrite <- (map_id kcols) at 2. apply map_ext. reflexivity. Qed.

Lemma mk_null_key nulleq kcols : kcols <> [] -> mk_null (map (m_key nulleq) kcols) = nulleq.
Proof. destruct kcols; [congruence|reflexivity]. Qed.

Lemma named_cols_nonempty f c cs kcols : named_cols f (c :: cs) = Ok kcols -> kcols <> [].
Proof. intros H E. apply omap_length in H. subst kcols. discriminate. Qed.

Lemma group_by_with_ext grp1 grp2 f columns :
  (forall kcols ids, kcols <> [] -> grp1 kcols ids = grp2 kcols ids) ->
  group_by_with grp1 f columns = group_by_with grp2 f columns.
Proof.
  intro H. unfold group_by_with. destruct (ferr f); [reflexivity|].
  destruct (negb (forallb (contains f) columns)); [reflexivity|].
  destruct (ix f); [reflexivity|]. destruct columns as [|c cs]; [reflexivity|].
  destruct (named_cols f (c :: cs)) as [kcols| |] eqn:E; cbn [obind]; [|reflexivity|reflexivity].
  rewrite (H kcols _ (named_cols_nonempty f c cs kcols E)). reflexivity.
Qed.

Lemma ga_GroupBy_table (memhash : bytes -> N -> N) (rnd : nat -> nat -> N) (f : frame) (fns : list m_cf) :
  ga_QFrame_GroupBy tt m_new_error m_unknownCol m_Comparable (m_GroupBy (m_table_group memhash rnd)) m_cf_apply
    (emb_frame f) fns
  = omap1 emb_grouper
      (group_by memhash rnd (ga_Config_GroupByNull (m_config fns)) f (ga_Config_Columns (m_config fns))).
Proof.
  rewrite ga_GroupBy_eq. f_equal. unfold group_by. apply group_by_with_ext. intros kcols ids Hk.
  unfold m_table_group. now rewrite mk_col_key, mk_null_key.
Qed.

Lemma distinct_with_ext dst1 dst2 f columns :
  (columns <> [] \/ cols f <> []) ->
  (forall kcols ids, kcols <> [] -> dst1 kcols ids = dst2 kcols ids) ->
  distinct_with dst1 f columns = distinct_with dst2 f columns.
Proof.
  intros Hne H. unfold distinct_with. destruct (ferr f); [reflexivity|].
  destruct (ix f); [reflexivity|].
  destruct (negb (forallb (contains f) columns)); [reflexivity|].
  set (columns' := match columns with [] => col_names f | _ :: _ => columns end).
  assert (Hc : columns' <> []).
  { subst columns'. destruct columns as [|c cs]; [|discriminate].
    destruct Hne as [Hne|Hne]; [congruence|]. unfold col_names. destruct (cols f); [congruence|discriminate]. }
  destruct columns' as [|c cs]; [congruence|].
  destruct (named_cols f (c :: cs)) as [kcols| |] eqn:E; cbn [obind]; [|reflexivity|reflexivity].
  rewrite (H kcols _ (named_cols_nonempty f c cs kcols E)). reflexivity.
Qed.

Lemma ga_Distinct_table (memhash : bytes -> N -> N) (rnd : nat -> nat -> N) (f : frame) (fns : list m_cf) :
  (ga_Config_Columns (m_config fns) <> [] \/ cols f <> []) ->
  ga_QFrame_Distinct m_new_error m_unknownCol m_Comparable (m_Distinct (m_table_distinct memhash rnd)) m_cf_apply
    (emb_frame f) fns
  = omap1 emb_frame
      (distinct memhash rnd (ga_Config_GroupByNull (m_config fns)) f (ga_Config_Columns (m_config fns))).
Proof.
  intro Hne. rewrite ga_Distinct_eq. f_equal. unfold distinct. apply distinct_with_ext; [exact Hne|].
  intros kcols ids Hk. unfold m_table_distinct. now rewrite mk_col_key, mk_null_key.
Qed.

(* ------------------------------------------------------------------ what the representation keeps *)

(* the position bookkeeping of an embedded frame: column i of the slice carries pos = i, and the map entry of a
   name is the LAST column of the slice with that name (with its position) *)
Lemma emb_cols_pos k cs i nc :
  nth_error (emb_cols_from k cs) i = Some nc -> ga_namedColumn_pos nc = Z.of_nat (k + i).
Proof.
  revert k i. induction cs as [|x cs IH]; intros k i H; cbn [emb_cols_from] in H.
  - destruct i; discriminate.
  - destruct i as [|i]; cbn [nth_error] in H.
    + inversion H. cbn. now rewrite Nat.add_0_r.
    + rewrite (IH (S k) i H). f_equal. lia.
Qed.

Lemma emb_frame_pos (f : frame) i nc :
  nth_error (ga_QFrame_columns (emb_frame f)) i = Some nc -> ga_namedColumn_pos nc = Z.of_nat i.
Proof. intro H. exact (emb_cols_pos 0 (cols f) i nc H). Qed.

Lemma emb_frame_lookup (f : frame) (name : bytes) :
  ga_map_get ga_namedColumn_zero (ga_QFrame_columnsByName (emb_frame f)) name
  = match lookup f name with
    | Some pc => (ga_mk_namedColumn (Some (snd pc)) name (Z.of_nat (fst pc)), true)
    | None => (ga_namedColumn_zero, false)
    end.
Proof. exact (gap_map_get (cols f) name). Qed.

(* ------------------------------------------------------------------ internal/icolumn: the built-in aggregations *)

Lemma ga_sum_loop_eq (l : list Z) : forall r,
  ga_icolumn_sum_loop1 l r = Ok (fold_left (fun r x => wrap64 (r + x)) l r).
Proof. induction l as [|x l IH]; intro r; cbn [ga_icolumn_sum_loop1 fold_left]; [reflexivity|apply IH]. Qed.

Lemma ga_icolumn_sum_eq (v : list Z) : ga_icolumn_sum v = Ok (i_sum v).
Proof. unfold ga_icolumn_sum, i_sum. now rewrite ga_sum_loop_eq. Qed.

Lemma gap_int_max x y : gf_integer_Max x y = int_max x y.
Proof. unfold gf_integer_Max, int_max. now rewrite Z.gtb_ltb. Qed.

Lemma gap_int_min x y : gf_integer_Min x y = int_min x y.
Proof. reflexivity. Qed.

Lemma ga_max_loop_eq (l : list Z) : forall r, ga_icolumn_max_loop1 l r = Ok (fold_left int_max l r).
Proof.
  induction l as [|x l IH]; intro r; cbn [ga_icolumn_max_loop1 fold_left]; [reflexivity|].
  rewrite gap_int_max. apply IH.
Qed.

Lemma ga_min_loop_eq (l : list Z) : forall r, ga_icolumn_min_loop1 l r = Ok (fold_left int_min l r).
Proof.
  induction l as [|x l IH]; intro r; cbn [ga_icolumn_min_loop1 fold_left]; [reflexivity|].
  rewrite gap_int_min. apply IH.
Qed.

(* max / min of an empty slice panic (values[0]) *)
Lemma ga_icolumn_max_eq (v : list Z) : ga_icolumn_max v = i_max v.
Proof.
  unfold ga_icolumn_max, i_max. destruct v as [|x r]; [reflexivity|].
  cbn [ga_index Z.ltb Z.compare idx nth_error Z.to_nat of_option obind ga_tail1]. now rewrite ga_max_loop_eq.
Qed.

Lemma ga_icolumn_min_eq (v : list Z) : ga_icolumn_min v = i_min v.
Proof.
  unfold ga_icolumn_min, i_min. destruct v as [|x r]; [reflexivity|].
  cbn [ga_index Z.ltb Z.compare idx nth_error Z.to_nat of_option obind ga_tail1]. now rewrite ga_min_loop_eq.
Qed.

(* the table: var aggregations.  A name resolves as in the generated name table t_i_aggregations and the function
   it resolves to is the model's builtin_apply of that Go function name, on int cells *)
Definition cells_int (fnc : list cell -> outcome cell) (zs : list Z) : outcome Z :=
  do c <- fnc (map CInt zs); cell_int c.

Lemma omap_cell_int_CInt zs : omap cell_int (map CInt zs) = Ok zs.
Proof. induction zs as [|z zs IH]; cbn [map omap cell_int obind]; [reflexivity|]. now rewrite IH. Qed.

Lemma ga_aggregations_eq (ft : float_table) (n : bytes) :
  match assocb n t_i_aggregations with
  | Some gofn => exists fz, ga_map_get (fun _ : list Z => @Panic Z) ga_icolumn_aggregations n = (fz, true)
                            /\ forall zs, fz zs = cells_int (builtin_apply ft TInt gofn) zs
  | None => snd (ga_map_get (fun _ : list Z => @Panic Z) ga_icolumn_aggregations n) = false
  end.
Proof.
  destruct (bytes_eqb (bs 3 0x6d6178) n) eqn:Emax.
  { apply bytes_eqb_spec in Emax. subst n. exists ga_icolumn_max. split; [reflexivity|]. intro zs.
    change (assocb (bs 3 0x6d6178) t_i_aggregations) with (Some gofn_max).
    unfold cells_int, builtin_apply. rewrite omap_cell_int_CInt. cbn [obind].
    rewrite ga_icolumn_max_eq. change (bytes_eqb gofn_max gofn_sum) with false.
    change (bytes_eqb gofn_max gofn_max) with true. cbn iota. destruct (i_max zs); reflexivity. }
  destruct (bytes_eqb (bs 3 0x6d696e) n) eqn:Emin.
  { apply bytes_eqb_spec in Emin. subst n. exists ga_icolumn_min. split; [reflexivity|]. intro zs.
    change (assocb (bs 3 0x6d696e) t_i_aggregations) with (Some gofn_min).
    unfold cells_int, builtin_apply. rewrite omap_cell_int_CInt. cbn [obind].
    rewrite ga_icolumn_min_eq. change (bytes_eqb gofn_min gofn_sum) with false.
    change (bytes_eqb gofn_min gofn_max) with false. change (bytes_eqb gofn_min gofn_min) with true.
    cbn iota. destruct (i_min zs); reflexivity. }
  destruct (bytes_eqb (bs 3 0x73756d) n) eqn:Esum.
  { apply bytes_eqb_spec in Esum. subst n. exists ga_icolumn_sum. split; [reflexivity|]. intro zs.
    change (assocb (bs 3 0x73756d) t_i_aggregations) with (Some gofn_sum).
    unfold cells_int, builtin_apply. rewrite omap_cell_int_CInt. cbn [obind].
    rewrite ga_icolumn_sum_eq. change (bytes_eqb gofn_sum gofn_sum) with true. reflexivity. }
  unfold t_i_aggregations, ga_icolumn_aggregations, ga_map_get. cbn [assocb ga_map_find fst snd].
  rewrite Emax, Emin, Esum. reflexivity.
Qed.

(* ------------------------------------------------------------------ internal/icolumn: subsetWithBuf / Aggregate *)

(* the reusable buffer after a call: a fresh one when the capacity does not suffice *)
Definition buf_after (buf : list Z * Z) (index : list Z) : list Z * Z :=
  if snd buf <? Z.of_nat (length index) then ([], Z.of_nat (length index)) else buf.

Lemma ga_subsetWithBuf_loop_eq (c : ga_icolumn_Column) (l : list Z) : forall data,
  ga_icolumn_Column_subsetWithBuf_loop1 l c data
  = omap1 (app data) (omap (ga_index (ga_icolumn_Column_data c)) l).
Proof.
  induction l as [|i l IH]; intro data; cbn [ga_icolumn_Column_subsetWithBuf_loop1 omap omap1].
  - now rewrite app_nil_r.
  - destruct (ga_index (ga_icolumn_Column_data c) i) as [v| |]; cbn [obind]; [|reflexivity|reflexivity].
    rewrite IH. destruct (omap (ga_index (ga_icolumn_Column_data c)) l); cbn [omap1 obind]; [|reflexivity|reflexivity].
    now rewrite <- app_assoc.
Qed.

(* the values at the positions, in the order of the index (a position outside the column panics); the buffer
   only changes capacity *)
Lemma ga_subsetWithBuf_eq (c : ga_icolumn_Column) (index : list Z) (buf : list Z * Z) :
  ga_icolumn_Column_subsetWithBuf c index buf
  = omap1 (fun d => (ga_mk_icolumn_Column d, buf_after buf index)) (omap (ga_index (ga_icolumn_Column_data c)) index).
Proof.
  unfold ga_icolumn_Column_subsetWithBuf, buf_after.
  destruct (snd buf <? Z.of_nat (length index)).
  - rewrite gap_make0 by lia. cbn [obind]. rewrite ga_subsetWithBuf_loop_eq.
    destruct (omap (ga_index (ga_icolumn_Column_data c)) index); reflexivity.
  - cbn [obind]. rewrite ga_subsetWithBuf_loop_eq.
    destruct (omap (ga_index (ga_icolumn_Column_data c)) index); reflexivity.
Qed.

(* one group: the function applied to the values of the group *)
Definition ga_group_value (d : list Z) (fz : list Z -> outcome Z) (ix : list Z) : outcome Z :=
  do vals <- omap (ga_index d) ix; fz vals.

Lemma ga_icolumn_Aggregate_loop1_eq (d : list Z) (fz : list Z -> outcome Z) (l : list (list Z)) : forall data buf,
  omap1 fst (ga_icolumn_Column_Aggregate_loop1 l (ga_mk_icolumn_Column d) fz data buf)
  = omap1 (app data) (omap (ga_group_value d fz) l).
Proof.
  induction l as [|ix l IH]; intros data buf; cbn [ga_icolumn_Column_Aggregate_loop1 omap omap1 fst].
  - now rewrite app_nil_r.
  - rewrite ga_subsetWithBuf_eq. cbn [ga_icolumn_Column_data]. unfold ga_group_value at 1.
    destruct (omap (ga_index d) ix) as [vals| |]; cbn [omap1 obind ga_icolumn_Column_data]; [|reflexivity|reflexivity].
    destruct (fz vals) as [v| |]; cbn [obind]; [|reflexivity|reflexivity].
    rewrite IH. destruct (omap (ga_group_value d fz) l); cbn [omap1 obind]; [|reflexivity|reflexivity].
    now rewrite <- app_assoc.
Qed.

Lemma ga_icolumn_Aggregate_loop2_eq (d : list Z) (fz : list Z -> outcome Z) (l : list (list Z)) : forall data buf,
  omap1 fst (ga_icolumn_Column_Aggregate_loop2 l (ga_mk_icolumn_Column d) fz data buf)
  = omap1 (app data) (omap (ga_group_value d fz) l).
Proof.
  induction l as [|ix l IH]; intros data buf; cbn [ga_icolumn_Column_Aggregate_loop2 omap omap1 fst].
  - now rewrite app_nil_r.
  - rewrite ga_subsetWithBuf_eq. cbn [ga_icolumn_Column_data]. unfold ga_group_value at 1.
    destruct (omap (ga_index d) ix) as [vals| |]; cbn [omap1 obind ga_icolumn_Column_data]; [|reflexivity|reflexivity].
    destruct (fz vals) as [v| |]; cbn [obind]; [|reflexivity|reflexivity].
    rewrite IH. destruct (omap (ga_group_value d fz) l); cbn [omap1 obind]; [|reflexivity|reflexivity].
    now rewrite <- app_assoc.
Qed.

(* the dynamic type of the model's aggregation function values, as the type switch of icolumn sees it: a string,
   a func([]int) int (a user table over int cells; a result cell that is not an int is a model fault), other *)
Definition m_user_int (tbl : list (list cell * cell)) (zs : list Z) : outcome Z := cells_int (user_apply tbl) zs.
Definition m_fn_cases (fn : aggfn) : ga_fncase Z :=
  match fn with
  | GName n => ga_FnString n
  | GUser TInt tbl => ga_FnFunc (m_user_int tbl)
  | _ => ga_FnOther
  end.
Definition m_fnName : bytes -> bytes := fun n => n.
Definition m_fn_text : aggfn -> bytes := fun _ => [].

(* what the model does per group, on int cells *)
Definition m_group_cell (d : list Z) (fnc : list cell -> outcome cell) (g : list nat) : outcome cell :=
  do vals <- agg_vals (ICol d) g; fnc vals.

Lemma agg_vals_ICol d g : agg_vals (ICol d) g = omap1 (map CInt) (omap (idx d) g).
Proof.
  unfold agg_vals. induction g as [|p g IH]; cbn [omap omap1 map]; [reflexivity|].
  unfold agg_cell_at at 1. cbn [cell_at]. destruct (idx d p); cbn [obind]; [|reflexivity|reflexivity].
  rewrite IH. destruct (omap (idx d) g); reflexivity.
Qed.

Lemma ga_index_ints {T} (d : list T) g : omap (ga_index d) (ints g) = omap (idx d) g.
Proof. unfold ints. rewrite omap_map. apply omap_ext. intro p. apply gap_index. Qed.

Lemma ga_group_value_eq d fz fnc g :
  (forall zs, fz zs = cells_int fnc zs) ->
  ga_group_value d fz (ints g) = (do c <- m_group_cell d fnc g; cell_int c).
Proof.
  intro H. unfold ga_group_value, m_group_cell. rewrite ga_index_ints, agg_vals_ICol.
  destruct (omap (idx d) g) as [vals| |]; cbn [omap1 obind]; [|reflexivity|reflexivity].
  rewrite H. reflexivity.
Qed.

(* outcomes without Fail: omap followed by a conversion of every element is the fused omap *)
Lemma omap_fuse {A B X} (f : A -> outcome B) (h : B -> outcome X) (l : list A) :
  (forall a, f a <> Fail) -> (forall b, h b <> Fail) ->
  (do bs <- omap f l; omap h bs) = omap (fun a => do b <- f a; h b) l.
Proof.
  intros Hf Hh. induction l as [|a l IH]; cbn [omap obind]; [reflexivity|].
  pose proof (Hf a) as Ha. destruct (f a) as [b| |]; cbn [obind]; [|congruence|].
  - rewrite <- IH. destruct (omap f l) as [bs| |] eqn:E; cbn [obind omap].
    + reflexivity.
    + exfalso. apply (omap_not_fail f l); [intros x _; apply Hf|exact E].
    + specialize (Hh b). destruct (h b); cbn [obind]; congruence.
  - reflexivity.
Qed.

Lemma obind_nofail {A B} (x : outcome A) (k : A -> outcome B) :
  x <> Fail -> (forall a, k a <> Fail) -> obind x k <> Fail.
Proof. intros Hx Hk. destruct x; cbn [obind]; [apply Hk|congruence|discriminate]. Qed.

Lemma cell_int_nofail c : cell_int c <> Fail.
Proof. destruct c; discriminate. Qed.

Lemma idx_nofail {T} (l : list T) p : idx l p <> Fail.
Proof. unfold idx. destruct (nth_error l p); discriminate. Qed.

Lemma m_group_cell_nofail d fnc g : (forall vals, fnc vals <> Fail) -> m_group_cell d fnc g <> Fail.
Proof.
  intro H. unfold m_group_cell. apply obind_nofail; [|exact H]. rewrite agg_vals_ICol.
  pose proof (omap_not_fail (idx d) g (fun x _ => idx_nofail d x)) as Hn.
  destruct (omap (idx d) g); cbn [omap1]; congruence.
Qed.

Lemma user_apply_nofail tbl vals : user_apply tbl vals <> Fail.
Proof. unfold user_apply. destruct (find _ tbl); discriminate. Qed.

Lemma builtin_int_nofail ft gofn vals : builtin_apply ft TInt gofn vals <> Fail.
Proof.
  unfold builtin_apply. apply obind_nofail.
  - apply omap_not_fail. intros x _. apply cell_int_nofail.
  - intro zs. destruct (bytes_eqb gofn gofn_sum); [discriminate|].
    destruct (bytes_eqb gofn gofn_max). { unfold i_max. destruct zs; discriminate. }
    destruct (bytes_eqb gofn gofn_min). { unfold i_min. destruct zs; discriminate. }
    discriminate.
Qed.

Lemma obind_pair_fst {A B X} (x : outcome (A * B)) (k : A -> outcome X) :
  obind x (fun p => let '(a, _) := p in k a) = obind (omap1 fst x) k.
Proof. destruct x as [[a b]| |]; reflexivity. Qed.

Definition agg_pair (r : outcome coldata) : outcome (option coldata * option unit) :=
  match r with Ok c => Ok (Some c, None) | Fail => Ok (None, Some tt) | Panic => Panic end.

(* the loop of Column.Aggregate for a function fz that computes, on int cells, what the model's fnc computes *)
Lemma ga_icolumn_Aggregate_core (d : list Z) (fz : list Z -> outcome Z) (fnc : list cell -> outcome cell)
  (gs : list (list nat)) :
  (forall zs, fz zs = cells_int fnc zs) -> (forall vals, fnc vals <> Fail) ->
  (do data <- omap1 (app []) (omap (ga_group_value d fz) (map ints gs)); Ok (Some (ICol data), @None unit))
  = agg_pair (do cells <- omap (m_group_cell d fnc) gs; col_of_cells TInt cells).
Proof.
  intros HR Hnf. rewrite omap_map.
  rewrite (omap_ext _ (fun g => do c <- m_group_cell d fnc g; cell_int c) gs (fun g => ga_group_value_eq d fz fnc g HR)).
  rewrite <- (omap_fuse (m_group_cell d fnc) cell_int gs (fun g => m_group_cell_nofail d fnc g Hnf) cell_int_nofail).
  pose proof (omap_not_fail (m_group_cell d fnc) gs (fun g _ => m_group_cell_nofail d fnc g Hnf)) as Hn.
  destruct (omap (m_group_cell d fnc) gs) as [cells| |]; cbn [obind omap1 agg_pair]; [|congruence|reflexivity].
  unfold col_of_cells. fold cell_int.
  change (fun c : cell => match c with CInt z => Ok z | _ => Panic end) with cell_int.
  pose proof (omap_not_fail cell_int cells (fun c _ => cell_int_nofail c)) as Hc.
  destruct (omap cell_int cells); cbn [obind omap1 agg_pair app]; [reflexivity|congruence|reflexivity].
Qed.

(* func (c Column) Aggregate(indices []index.Int, fn interface{}) (column.Column, error) of internal/icolumn
   = the model's col_aggregate on an int column: it is the col_Aggregate the frame level was instantiated with *)
Lemma ga_icolumn_Aggregate_eq (ft : float_table) (d : list Z) (gs : list (list nat)) (fn : aggfn) :
  ga_icolumn_Column_Aggregate m_new_error m_fn_cases ICol m_fnName m_fn_text (ga_mk_icolumn_Column d) (map ints gs) fn
  = m_col_Aggregate ft (ICol d) (map ints gs) fn.
Proof.
  rewrite m_col_Aggregate_ints. fold (agg_pair (col_aggregate ft (ICol d) gs fn)).
  unfold ga_icolumn_Column_Aggregate, col_aggregate, resolve_fn.
  change (col_type (ICol d)) with TInt. change (col_ftype (ICol d)) with TInt. change (agg_table_of TInt) with t_i_aggregations.
  destruct fn as [n|t tbl|]; cbn [m_fn_cases].
  - pose proof (ga_aggregations_eq ft n) as H. destruct (assocb n t_i_aggregations) as [gofn|].
    + destruct H as (fz & Hget & HR). rewrite Hget. cbn [negb obind]. rewrite gap_make0 by lia. cbn [obind].
      rewrite obind_pair_fst, ga_icolumn_Aggregate_loop1_eq. cbn [ga_icolumn_Column_data].
      exact (ga_icolumn_Aggregate_core d fz (builtin_apply ft TInt gofn) gs HR (builtin_int_nofail ft gofn)).
    + destruct (ga_map_get _ ga_icolumn_aggregations n) as [t1 t2]. cbn [snd] in H. subst t2. reflexivity.
  - destruct t; cbn [ctype_eqb andb negb obind agg_pair]; try reflexivity.
    rewrite gap_make0 by lia. cbn [obind].
    rewrite obind_pair_fst, ga_icolumn_Aggregate_loop2_eq. cbn [ga_icolumn_Column_data].
    exact (ga_icolumn_Aggregate_core d (m_user_int tbl) (user_apply tbl) gs (fun zs => eq_refl) (user_apply_nofail tbl)).
  - reflexivity.
Qed.

(* ------------------------------------------------------------------ internal/icolumn: Comparable / Compare *)


(* column.CompareResult as the byte the Go constants have *)
Definition cres_code (r : Sort.cmpres) : Z :=
  match r with Sort.LessThan => 0 | Sort.GreaterThan => 1 | Sort.Equal => 2 | Sort.NotEqual => 3 end.

(* the Go struct icolumn.Comparable of a model configuration over the data d *)
Definition emb_comparable (d : list Z) (cfg : Sort.cmpcfg) : ga_icolumn_Comparable :=
  ga_mk_icolumn_Comparable d (cres_code (Sort.ltValue cfg)) (cres_code (Sort.nullLtValue cfg))
    (cres_code (Sort.gtValue cfg)) (cres_code (Sort.nullGtValue cfg)) (cres_code (Sort.equalNullValue cfg)).

(* Column.Comparable(reverse, equalNull, nullLast): the literal, the four-way swap, the null swap, equalNull *)
Lemma ga_icolumn_Comparable_eq {K : Type} (wrap : ga_icolumn_Comparable -> K) (d : list Z) (reverse equalNull nullLast : bool) :
  ga_icolumn_Column_Comparable wrap (ga_mk_icolumn_Column d) reverse equalNull nullLast
  = Ok (wrap (emb_comparable d (Sort.mk_cmpcfg reverse equalNull nullLast))).
Proof. destruct reverse, equalNull, nullLast; reflexivity. Qed.

(* Comparable.Compare(i, j): a row outside the data panics; otherwise the model's compare_rows_int *)
Lemma ga_icolumn_Compare_eq (d : list Z) (cfg : Sort.cmpcfg) (i j : nat) :
  ga_icolumn_Comparable_Compare (emb_comparable d cfg) (Z.of_nat i) (Z.of_nat j)
  = (do _ <- idx d i; do _ <- idx d j;
     Ok (cres_code (Sort.compare_rows_int cfg (fun a b => nth a d 0 <? nth b d 0) i j))).
Proof.
  unfold ga_icolumn_Comparable_Compare. cbn [emb_comparable ga_icolumn_Comparable_data
    ga_icolumn_Comparable_ltValue ga_icolumn_Comparable_gtValue]. rewrite !gap_index.
  unfold idx, Sort.compare_rows_int.
  destruct (nth_error d i) as [x|] eqn:Ei; cbn [of_option obind]; [|reflexivity].
  destruct (nth_error d j) as [y|] eqn:Ej; cbn [of_option obind]; [|reflexivity].
  rewrite (nth_error_nth d i 0 Ei), (nth_error_nth d j 0 Ej).
  destruct (x <? y); [reflexivity|]. destruct (y <? x); reflexivity.
Qed.

(* ... which is the Compare that SortFrame's col_comparable gives an int column *)
Lemma ga_icolumn_Compare_sortframe (d : list Z) (reverse nullLast : bool) (i j : nat) :
  (i < length d)%nat -> (j < length d)%nat ->
  ga_icolumn_Comparable_Compare (emb_comparable d (Sort.mk_cmpcfg reverse false nullLast)) (Z.of_nat i) (Z.of_nat j)
  = Ok (cres_code (SortFrame.col_comparable (ICol d) reverse nullLast i j)).
Proof.
  intros Hi Hj. rewrite ga_icolumn_Compare_eq. unfold idx.
  destruct (nth_error d i) eqn:Ei; [|apply nth_error_None in Ei; lia].
  destruct (nth_error d j) eqn:Ej; [|apply nth_error_None in Ej; lia]. reflexivity.
Qed.

(* ------------------------------------------------------------------ fcolumn / bcolumn / scolumn / ecolumn:
   Comparable (the constructor) and Compare *)

Definition emb_fcomparable (d : list N) (cfg : Sort.cmpcfg) : ga_fcolumn_Comparable :=
  ga_mk_fcolumn_Comparable d (cres_code (Sort.ltValue cfg)) (cres_code (Sort.nullLtValue cfg))
    (cres_code (Sort.gtValue cfg)) (cres_code (Sort.nullGtValue cfg)) (cres_code (Sort.equalNullValue cfg)).
Definition emb_bcomparable (d : list bool) (cfg : Sort.cmpcfg) : ga_bcolumn_Comparable :=
  ga_mk_bcolumn_Comparable d (cres_code (Sort.ltValue cfg)) (cres_code (Sort.nullLtValue cfg))
    (cres_code (Sort.gtValue cfg)) (cres_code (Sort.nullGtValue cfg)) (cres_code (Sort.equalNullValue cfg)).
(* scolumn declares the fields in the order column, lt, gt, nullLt, nullGt, equalNull *)
Definition emb_scomparable (c : ga_scolumn_Column) (cfg : Sort.cmpcfg) : ga_scolumn_Comparable :=
  ga_mk_scolumn_Comparable c (cres_code (Sort.ltValue cfg)) (cres_code (Sort.gtValue cfg))
    (cres_code (Sort.nullLtValue cfg)) (cres_code (Sort.nullGtValue cfg)) (cres_code (Sort.equalNullValue cfg)).
Definition emb_ecomparable (c : ga_ecolumn_Column) (cfg : Sort.cmpcfg) : ga_ecolumn_Comparable :=
  ga_mk_ecolumn_Comparable c (cres_code (Sort.ltValue cfg)) (cres_code (Sort.nullLtValue cfg))
    (cres_code (Sort.gtValue cfg)) (cres_code (Sort.nullGtValue cfg)) (cres_code (Sort.equalNullValue cfg)).
(* the Go struct of an enum column: the ranks as uint8 values *)
Definition emb_ecol (d : list N) (values : list bytes) (strict : bool) : ga_ecolumn_Column :=
  ga_mk_ecolumn_Column (map Z.of_N d) values strict.

Lemma ga_fcolumn_Comparable_eq {K : Type} (wrap : ga_fcolumn_Comparable -> K) (d : list N) (reverse equalNull nullLast : bool) :
  ga_fcolumn_Column_Comparable wrap (ga_mk_fcolumn_Column d) reverse equalNull nullLast
  = Ok (wrap (emb_fcomparable d (Sort.mk_cmpcfg reverse equalNull nullLast))).
Proof. destruct reverse, equalNull, nullLast; reflexivity. Qed.

Lemma ga_bcolumn_Comparable_eq {K : Type} (wrap : ga_bcolumn_Comparable -> K) (d : list bool) (reverse equalNull nullLast : bool) :
  ga_bcolumn_Column_Comparable wrap (ga_mk_bcolumn_Column d) reverse equalNull nullLast
  = Ok (wrap (emb_bcomparable d (Sort.mk_cmpcfg reverse equalNull nullLast))).
Proof. destruct reverse, equalNull, nullLast; reflexivity. Qed.

Lemma ga_scolumn_Comparable_eq {K : Type} (wrap : ga_scolumn_Comparable -> K) (c : ga_scolumn_Column) (reverse equalNull nullLast : bool) :
  ga_scolumn_Column_Comparable wrap c reverse equalNull nullLast
  = Ok (wrap (emb_scomparable c (Sort.mk_cmpcfg reverse equalNull nullLast))).
Proof. destruct reverse, equalNull, nullLast; reflexivity. Qed.

Lemma ga_ecolumn_Comparable_eq {K : Type} (wrap : ga_ecolumn_Comparable -> K) (c : ga_ecolumn_Column) (reverse equalNull nullLast : bool) :
  ga_ecolumn_Column_Comparable wrap c reverse equalNull nullLast
  = Ok (wrap (emb_ecomparable c (Sort.mk_cmpcfg reverse equalNull nullLast))).
Proof. destruct reverse, equalNull, nullLast; reflexivity. Qed.

(* fcolumn Compare, for ANY reading flt / fnan of < and math.IsNaN on bit patterns: x < y, x > y first, the NaN
   tests afterwards *)
Lemma ga_fcolumn_Compare_eq (flt : N -> N -> bool) (fnan : N -> bool) (d : list N) (cfg : Sort.cmpcfg) (i j : nat) :
  ga_fcolumn_Comparable_Compare flt fnan (emb_fcomparable d cfg) (Z.of_nat i) (Z.of_nat j)
  = (do _ <- idx d i; do _ <- idx d j;
     Ok (cres_code (Sort.compare_rows_float cfg (fun a => fnan (nth a d 0%N))
                      (fun a b => flt (nth a d 0%N) (nth b d 0%N)) i j))).
Proof.
  unfold ga_fcolumn_Comparable_Compare. cbn [emb_fcomparable ga_fcolumn_Comparable_data
    ga_fcolumn_Comparable_ltValue ga_fcolumn_Comparable_gtValue ga_fcolumn_Comparable_nullLtValue
    ga_fcolumn_Comparable_nullGtValue ga_fcolumn_Comparable_equalNullValue]. rewrite !gap_index.
  unfold idx, Sort.compare_rows_float.
  destruct (nth_error d i) as [x|] eqn:Ei; cbn [of_option obind]; [|reflexivity].
  destruct (nth_error d j) as [y|] eqn:Ej; cbn [of_option obind]; [|reflexivity].
  rewrite (nth_error_nth d i 0%N Ei), (nth_error_nth d j 0%N Ej).
  destruct (flt x y); [reflexivity|]. destruct (flt y x); [reflexivity|].
  destruct (fnan x), (fnan y); reflexivity.
Qed.

Lemma ga_fcolumn_Compare_sortframe (d : list N) (reverse nullLast : bool) (i j : nat) :
  (i < length d)%nat -> (j < length d)%nat ->
  ga_fcolumn_Comparable_Compare f_lt f_isnan (emb_fcomparable d (Sort.mk_cmpcfg reverse false nullLast))
    (Z.of_nat i) (Z.of_nat j)
  = Ok (cres_code (SortFrame.col_comparable (FCol d) reverse nullLast i j)).
Proof.
  intros Hi Hj. rewrite ga_fcolumn_Compare_eq. unfold idx.
  destruct (nth_error d i) eqn:Ei; [|apply nth_error_None in Ei; lia].
  destruct (nth_error d j) eqn:Ej; [|apply nth_error_None in Ej; lia]. reflexivity.
Qed.

(* bcolumn Compare *)
Lemma ga_bcolumn_Compare_eq (d : list bool) (cfg : Sort.cmpcfg) (i j : nat) :
  ga_bcolumn_Comparable_Compare (emb_bcomparable d cfg) (Z.of_nat i) (Z.of_nat j)
  = (do _ <- idx d i; do _ <- idx d j;
     Ok (cres_code (Sort.compare_rows_bool cfg (fun a => nth a d false) i j))).
Proof.
  unfold ga_bcolumn_Comparable_Compare. cbn [emb_bcomparable ga_bcolumn_Comparable_data
    ga_bcolumn_Comparable_ltValue ga_bcolumn_Comparable_gtValue]. rewrite !gap_index.
  unfold idx, Sort.compare_rows_bool.
  destruct (nth_error d i) as [x|] eqn:Ei; cbn [of_option obind]; [|reflexivity].
  destruct (nth_error d j) as [y|] eqn:Ej; cbn [of_option obind]; [|reflexivity].
  rewrite (nth_error_nth d i false Ei), (nth_error_nth d j false Ej).
  destruct (Bool.eqb x y); [reflexivity|]. destruct x; reflexivity.
Qed.

Lemma ga_bcolumn_Compare_sortframe (d : list bool) (reverse nullLast : bool) (i j : nat) :
  (i < length d)%nat -> (j < length d)%nat ->
  ga_bcolumn_Comparable_Compare (emb_bcomparable d (Sort.mk_cmpcfg reverse false nullLast)) (Z.of_nat i) (Z.of_nat j)
  = Ok (cres_code (SortFrame.col_comparable (BCol d) reverse nullLast i j)).
Proof.
  intros Hi Hj. rewrite ga_bcolumn_Compare_eq. unfold idx.
  destruct (nth_error d i) eqn:Ei; [|apply nth_error_None in Ei; lia].
  destruct (nth_error d j) eqn:Ej; [|apply nth_error_None in Ej; lia]. reflexivity.
Qed.

(* ecolumn Compare: the null tests (rank 255) first, then the ranks as numbers *)
Lemma gap_enum_isnull (r : N) : gf_ecolumn_enumVal_isNull (Z.of_N r) = enum_is_null r.
Proof. unfold gf_ecolumn_enumVal_isNull, enum_is_null, GenConsts.c_nullValue. destruct (N.eqb_spec r 255); lia. Qed.

Lemma gap_N_ltb (x y : N) : (Z.of_N x <? Z.of_N y) = (x <? y)%N.
Proof. destruct (N.ltb_spec x y); lia. Qed.

Lemma idx_map {A B} (f : A -> B) (l : list A) (n : nat) : idx (map f l) n = omap1 f (idx l n).
Proof. unfold idx. rewrite nth_error_map. destruct (nth_error l n); reflexivity. Qed.

Lemma ga_ecolumn_Compare_eq (d : list N) (values : list bytes) (strict : bool) (cfg : Sort.cmpcfg) (i j : nat) :
  ga_ecolumn_Comparable_Compare (emb_ecomparable (emb_ecol d values strict) cfg) (Z.of_nat i) (Z.of_nat j)
  = (do _ <- idx d i; do _ <- idx d j;
     Ok (cres_code (Sort.compare_rows cfg (fun a => enum_is_null (nth a d GenConsts.c_nullValue))
                      (fun a b => (nth a d GenConsts.c_nullValue <? nth b d GenConsts.c_nullValue)%N) i j))).
Proof.
  unfold ga_ecolumn_Comparable_Compare. cbn [emb_ecomparable emb_ecol ga_ecolumn_Comparable_column ga_ecolumn_Column_data
    ga_ecolumn_Comparable_ltValue ga_ecolumn_Comparable_gtValue ga_ecolumn_Comparable_nullLtValue
    ga_ecolumn_Comparable_nullGtValue ga_ecolumn_Comparable_equalNullValue]. rewrite !gap_index, !idx_map.
  unfold idx, Sort.compare_rows.
  destruct (nth_error d i) as [x|] eqn:Ei; cbn [of_option omap1 obind]; [|reflexivity].
  destruct (nth_error d j) as [y|] eqn:Ej; cbn [of_option omap1 obind]; [|reflexivity].
  rewrite (nth_error_nth d i GenConsts.c_nullValue Ei), (nth_error_nth d j GenConsts.c_nullValue Ej).
  rewrite !gap_enum_isnull, !gap_N_ltb.
  destruct (enum_is_null x), (enum_is_null y); cbn [orb negb]; try reflexivity.
  destruct (x <? y)%N; [reflexivity|]. destruct (y <? x)%N; reflexivity.
Qed.

Lemma ga_ecolumn_Compare_sortframe (d : list N) (values : list bytes) (strict : bool) (reverse nullLast : bool) (i j : nat) :
  (i < length d)%nat -> (j < length d)%nat ->
  ga_ecolumn_Comparable_Compare (emb_ecomparable (emb_ecol d values strict) (Sort.mk_cmpcfg reverse false nullLast))
    (Z.of_nat i) (Z.of_nat j)
  = Ok (cres_code (SortFrame.col_comparable (ECol d values strict) reverse nullLast i j)).
Proof.
  intros Hi Hj. rewrite ga_ecolumn_Compare_eq. unfold idx.
  destruct (nth_error d i) eqn:Ei; [|apply nth_error_None in Ei; lia].
  destruct (nth_error d j) eqn:Ej; [|apply nth_error_None in Ej; lia]. reflexivity.
Qed.

(* scolumn.  THE REPRESENTATION of a string column: the Go struct c (pointers into a byte slice) represents the
   model's list of optional strings d when bytesAt reads d: the bytes of string i, (nil, true) for a null, a panic
   beyond the column *)
Definition scol_cell (x : option (option bytes)) : outcome (bytes * bool) :=
  match x with Some (Some s) => Ok (s, false) | Some None => Ok ([], true) | None => Panic end.
Definition rep_scol (c : ga_scolumn_Column) (d : list (option bytes)) : Prop :=
  forall i : nat, ga_scolumn_Column_bytesAt c (Z.of_nat i) = scol_cell (nth_error d i).

Lemma gap_bytes_compare_lt x y : (ga_bytes_compare x y =? -1) = match bytes_cmp x y with Lt => true | _ => false end.
Proof. unfold ga_bytes_compare. destruct (bytes_cmp x y); reflexivity. Qed.

Lemma gap_bytes_compare_gt x y : (ga_bytes_compare x y =? 1) = match bytes_cmp y x with Lt => true | _ => false end.
Proof.
  unfold ga_bytes_compare. rewrite (SortKeyProofs.bytes_cmp_antisym x y). destruct (bytes_cmp x y); reflexivity.
Qed.

Lemma ga_scolumn_Compare_eq (c : ga_scolumn_Column) (d : list (option bytes)) (cfg : Sort.cmpcfg) (i j : nat) :
  rep_scol c d ->
  ga_scolumn_Comparable_Compare (emb_scomparable c cfg) (Z.of_nat i) (Z.of_nat j)
  = (do _ <- idx d i; do _ <- idx d j;
     Ok (cres_code (Sort.compare_rows cfg (fun a => SortFrame.str_is_null (nth a d None))
                      (fun a b => SortFrame.str_vlt (nth a d None) (nth b d None)) i j))).
Proof.
  intro Hrep. unfold ga_scolumn_Comparable_Compare. cbn [emb_scomparable ga_scolumn_Comparable_column
    ga_scolumn_Comparable_ltValue ga_scolumn_Comparable_gtValue ga_scolumn_Comparable_nullLtValue
    ga_scolumn_Comparable_nullGtValue ga_scolumn_Comparable_equalNullValue]. rewrite !Hrep.
  unfold idx, Sort.compare_rows.
  destruct (nth_error d i) as [x|] eqn:Ei; cbn [scol_cell of_option obind]; [|reflexivity].
  rewrite (nth_error_nth d i None Ei).
  destruct (nth_error d j) as [y|] eqn:Ej.
  2:{ destruct x; reflexivity. }
  rewrite (nth_error_nth d j None Ej).
  destruct x as [a|], y as [b|]; cbn [scol_cell obind of_option SortFrame.str_is_null SortFrame.str_vlt orb negb];
    try reflexivity.
  rewrite gap_bytes_compare_lt, gap_bytes_compare_gt.
  destruct (bytes_cmp a b); [|reflexivity|]; destruct (bytes_cmp b a); reflexivity.
Qed.

Lemma ga_scolumn_Compare_sortframe (c : ga_scolumn_Column) (d : list (option bytes)) (reverse nullLast : bool) (i j : nat) :
  rep_scol c d -> (i < length d)%nat -> (j < length d)%nat ->
  ga_scolumn_Comparable_Compare (emb_scomparable c (Sort.mk_cmpcfg reverse false nullLast)) (Z.of_nat i) (Z.of_nat j)
  = Ok (cres_code (SortFrame.col_comparable (SCol d) reverse nullLast i j)).
Proof.
  intros Hrep Hi Hj. rewrite (ga_scolumn_Compare_eq c d _ i j Hrep). unfold idx.
  destruct (nth_error d i) eqn:Ei; [|apply nth_error_None in Ei; lia].
  destruct (nth_error d j) eqn:Ej; [|apply nth_error_None in Ej; lia]. reflexivity.
Qed.

(* a decidable sufficient condition for rep_scol: as many pointers as strings, and bytesAt right at every row *)
Definition scol_cell_eqb (a b : outcome (bytes * bool)) : bool :=
  match a, b with
  | Ok (x, p), Ok (y, q) => bytes_eqb x y && Bool.eqb p q
  | Panic, Panic => true
  | _, _ => false
  end.
Definition rep_scol_check (c : ga_scolumn_Column) (d : list (option bytes)) : bool :=
  Nat.eqb (length (ga_scolumn_Column_pointers c)) (length d)
  && forallb (fun i => scol_cell_eqb (ga_scolumn_Column_bytesAt c (Z.of_nat i)) (scol_cell (nth_error d i)))
       (seq 0 (length d)).

Lemma scol_cell_eqb_eq a b : scol_cell_eqb a b = true -> a = b.
Proof.
  destruct a as [[x p]| |], b as [[y q]| |]; cbn [scol_cell_eqb]; intro H; try discriminate; [|reflexivity].
  apply andb_prop in H. destruct H as [H1 H2]. apply bytes_eqb_spec in H1. apply Bool.eqb_prop in H2. now subst.
Qed.

Lemma rep_scol_check_sound c d : rep_scol_check c d = true -> rep_scol c d.
Proof.
  unfold rep_scol_check. intros H i. apply andb_prop in H. destruct H as [Hlen Hall].
  apply Nat.eqb_eq in Hlen. destruct (Nat.lt_ge_cases i (length d)) as [Hi|Hi].
  - apply scol_cell_eqb_eq. rewrite forallb_forall in Hall. apply Hall. apply in_seq. lia.
  - assert (E : nth_error d i = None) by (apply nth_error_None; exact Hi). rewrite E. cbn [scol_cell].
    unfold ga_scolumn_Column_bytesAt. rewrite gap_index. unfold idx.
    assert (E2 : nth_error (ga_scolumn_Column_pointers c) i = None) by (apply nth_error_None; lia).
    now rewrite E2.
Qed.

(* ------------------------------------------------------------------ Hash: the bytes handed to memhash *)

Lemma gap_le_bytes n v : ga_le_bytes n v = Grouper.le_bytes n v.
Proof. revert v. induction n as [|n IH]; intro v; cbn [ga_le_bytes Grouper.le_bytes]; [reflexivity|now rewrite IH]. Qed.

(* equalNullValue of a constructed Comparable is NotEqual exactly when equalNull is false *)
Lemma gap_equalNull_code reverse equalNull nullLast :
  (cres_code (Sort.equalNullValue (Sort.mk_cmpcfg reverse equalNull nullLast)) =? ga_column_NotEqual) = negb equalNull.
Proof. destruct reverse, equalNull, nullLast; reflexivity. Qed.

(* what Hash answers for a key cell: memhash of the model's hash input, or the next random number *)
Definition hash_result {R : Type} (mh : bytes -> N -> N) (rnd : R -> N * R) (nulleq : bool) (c : Grouper.cell)
  (seed : N) (r : R) : N * R :=
  match Grouper.hash_input nulleq c with Some b => (mh b seed, r) | None => rnd r end.

Lemma ga_icolumn_Hash_eq (mh : bytes -> N -> N) (d : list Z) (cfg : Sort.cmpcfg) (nulleq : bool) (i : nat) (seed : N) :
  ga_icolumn_Comparable_Hash mh (emb_comparable d cfg) (Z.of_nat i) seed
  = (do z <- idx d i; Ok (match Grouper.hash_input nulleq (Grouper.CInt z) with Some b => mh b seed | None => 0%N end)).
Proof.
  unfold ga_icolumn_Comparable_Hash. cbn [emb_comparable ga_icolumn_Comparable_data]. rewrite gap_index.
  destruct (idx d i) as [z| |]; cbn [obind Grouper.hash_input]; [|reflexivity|reflexivity].
  unfold ga_le64, ga_u64. rewrite gap_le_bytes. reflexivity.
Qed.

Lemma ga_bcolumn_Hash_eq (mh : bytes -> N -> N) (d : list bool) (cfg : Sort.cmpcfg) (nulleq : bool) (i : nat) (seed : N) :
  ga_bcolumn_Comparable_Hash mh (emb_bcomparable d cfg) (Z.of_nat i) seed
  = (do b <- idx d i; Ok (match Grouper.hash_input nulleq (Grouper.CBool b) with Some x => mh x seed | None => 0%N end)).
Proof.
  unfold ga_bcolumn_Comparable_Hash. cbn [emb_bcomparable ga_bcolumn_Comparable_data]. rewrite gap_index.
  destruct (idx d i) as [[|]| |]; reflexivity.
Qed.

Lemma ga_ecolumn_Hash_eq (mh : bytes -> N -> N) (d : list N) values strict (cfg : Sort.cmpcfg) (nulleq : bool) (i : nat) (seed : N) :
  ga_ecolumn_Comparable_Hash mh (emb_ecomparable (emb_ecol d values strict) cfg) (Z.of_nat i) seed
  = (do r <- idx d i; Ok (match Grouper.hash_input nulleq (Grouper.CEnum r) with Some x => mh x seed | None => 0%N end)).
Proof.
  unfold ga_ecolumn_Comparable_Hash. cbn [emb_ecomparable emb_ecol ga_ecolumn_Comparable_column ga_ecolumn_Column_data].
  rewrite gap_index, idx_map.
  destruct (idx d i) as [r| |]; cbn [omap1 obind Grouper.hash_input]; [|reflexivity|reflexivity].
  now rewrite N2Z.id.
Qed.

(* fcolumn: math.IsNaN, == 0, math.NaN() and the literal 0 read as Model/Grouper.v reads them on bit patterns *)
Definition g_iszero (b : N) : bool := (Grouper.f_key b =? 0)%Z.

Lemma ga_fcolumn_Hash_eq {R : Type} (mh : bytes -> N -> N) (rnd : R -> N * R) (d : list N)
  (reverse equalNull nullLast : bool) (i : nat) (seed : N) (r : R) :
  ga_fcolumn_Comparable_Hash 0%N Grouper.c_uvnan Grouper.f_isnan g_iszero mh rnd
    (emb_fcomparable d (Sort.mk_cmpcfg reverse equalNull nullLast)) (Z.of_nat i) seed r
  = (do b <- idx d i; Ok (hash_result mh rnd equalNull (Grouper.CFloat b) seed r)).
Proof.
  unfold ga_fcolumn_Comparable_Hash. cbn [emb_fcomparable ga_fcolumn_Comparable_data ga_fcolumn_Comparable_equalNullValue].
  rewrite gap_index, gap_equalNull_code.
  destruct (idx d i) as [b| |]; cbn [obind]; [|reflexivity|reflexivity].
  unfold hash_result. cbn [Grouper.hash_input]. unfold ga_le64. rewrite !gap_le_bytes.
  destruct (Grouper.f_isnan b).
  - destruct equalNull; cbn [negb]; [reflexivity|]. destruct (rnd r); reflexivity.
  - unfold g_iszero. destruct (Grouper.f_key b =? 0)%Z; cbn [obind]; now rewrite ?gap_le_bytes.
Qed.

Lemma ga_scolumn_Hash_eq {R : Type} (mh : bytes -> N -> N) (rnd : R -> N * R) (c : ga_scolumn_Column)
  (d : list (option bytes)) (reverse equalNull nullLast : bool) (i : nat) (seed : N) (r : R) :
  rep_scol c d ->
  ga_scolumn_Comparable_Hash mh rnd (emb_scomparable c (Sort.mk_cmpcfg reverse equalNull nullLast)) (Z.of_nat i) seed r
  = (do s <- idx d i; Ok (hash_result mh rnd equalNull (Grouper.CStr s) seed r)).
Proof.
  intro Hrep. unfold ga_scolumn_Comparable_Hash.
  cbn [emb_scomparable ga_scolumn_Comparable_column ga_scolumn_Comparable_equalNullValue].
  rewrite Hrep, gap_equalNull_code. unfold idx.
  destruct (nth_error d i) as [[s|]|]; cbn [scol_cell of_option obind]; [reflexivity| |reflexivity].
  unfold hash_result. cbn [Grouper.hash_input]. destruct equalNull; cbn [negb]; [reflexivity|].
  destruct (rnd r); reflexivity.
Qed.

(* ------------------------------------------------------------------ Column.Aggregate of the template, generically *)

Lemma omap_ext_in {A B} (f g : A -> outcome B) (l : list A) :
  (forall a, In a l -> f a = g a) -> omap f l = omap g l.
Proof.
  induction l as [|a l IH]; intro H; cbn [omap]; [reflexivity|].
  rewrite (H a (or_introl eq_refl)), IH; [reflexivity|]. intros x Hx. apply H. now right.
Qed.

Definition gv {T : Type} (d : list T) (fz : list T -> outcome T) (ix : list Z) : outcome T :=
  do vals <- omap (ga_index d) ix; fz vals.

Section AggCore.
  Context {T : Type} (inj : T -> cell) (proj : cell -> outcome T) (mkcol : list T -> coldata) (ct : ctype).
  Hypothesis Hproj_nf : forall c, proj c <> Fail.
  Hypothesis Hvals : forall d g, agg_vals (mkcol d) g = omap1 (map inj) (omap (idx d) g).
  Hypothesis Hcol : forall cells, col_of_cells ct cells = (do d <- omap proj cells; Ok (mkcol d)).

  Definition cells_T (fnc : list cell -> outcome cell) (zs : list T) : outcome T :=
    do c <- fnc (map inj zs); proj c.
  Definition group_cell (d : list T) (fnc : list cell -> outcome cell) (g : list nat) : outcome cell :=
    do vals <- agg_vals (mkcol d) g; fnc vals.

  Lemma group_cell_nofail d fnc g : (forall vals, fnc vals <> Fail) -> group_cell d fnc g <> Fail.
  Proof.
    intro H. unfold group_cell. apply obind_nofail; [|exact H]. rewrite Hvals.
    pose proof (omap_not_fail (idx d) g (fun x _ => idx_nofail d x)) as Hn.
    destruct (omap (idx d) g); cbn [omap1]; congruence.
  Qed.

  (* fz has to agree with fnc only on the values of the groups *)
  Lemma agg_core (d : list T) (fz : list T -> outcome T) (fnc : list cell -> outcome cell) (gs : list (list nat)) :
    (forall g vals, In g gs -> omap (idx d) g = Ok vals -> fz vals = cells_T fnc vals) ->
    (forall vals, fnc vals <> Fail) ->
    (do data <- omap1 (app []) (omap (gv d fz) (map ints gs)); Ok (Some (mkcol data), @None unit))
    = agg_pair (do cells <- omap (group_cell d fnc) gs; col_of_cells ct cells).
  Proof.
    intros HR Hnf. rewrite omap_map.
    rewrite (omap_ext_in _ (fun g => do c <- group_cell d fnc g; proj c) gs).
    2:{ intros g Hg. unfold gv, group_cell. rewrite ga_index_ints, Hvals.
        destruct (omap (idx d) g) as [vals| |] eqn:E; cbn [omap1 obind]; [|reflexivity|reflexivity].
        apply (HR g vals Hg E). }
    rewrite <- (omap_fuse (group_cell d fnc) proj gs (fun g => group_cell_nofail d fnc g Hnf) Hproj_nf).
    pose proof (omap_not_fail (group_cell d fnc) gs (fun g _ => group_cell_nofail d fnc g Hnf)) as Hn.
    destruct (omap (group_cell d fnc) gs) as [cells| |]; cbn [obind omap1 agg_pair]; [|congruence|reflexivity].
    rewrite Hcol. pose proof (omap_not_fail proj cells (fun c _ => Hproj_nf c)) as Hc.
    destruct (omap proj cells); cbn [obind omap1 agg_pair app]; [reflexivity|congruence|reflexivity].
  Qed.
End AggCore.

Lemma cell_float_nofail c : cell_float c <> Fail.
Proof. destruct c; discriminate. Qed.
Lemma cell_bool_nofail c : cell_bool c <> Fail.
Proof. destruct c; discriminate. Qed.

Lemma agg_vals_FCol d g : agg_vals (FCol d) g = omap1 (map CFloat) (omap (idx d) g).
Proof.
  unfold agg_vals. induction g as [|p g IH]; cbn [omap omap1 map]; [reflexivity|].
  unfold agg_cell_at at 1. cbn [cell_at]. destruct (idx d p); cbn [obind]; [|reflexivity|reflexivity].
  rewrite IH. destruct (omap (idx d) g); reflexivity.
Qed.
Lemma agg_vals_BCol d g : agg_vals (BCol d) g = omap1 (map CBool) (omap (idx d) g).
Proof.
  unfold agg_vals. induction g as [|p g IH]; cbn [omap omap1 map]; [reflexivity|].
  unfold agg_cell_at at 1. cbn [cell_at]. destruct (idx d p); cbn [obind]; [|reflexivity|reflexivity].
  rewrite IH. destruct (omap (idx d) g); reflexivity.
Qed.

Lemma omap_cell_float_CFloat zs : omap cell_float (map CFloat zs) = Ok zs.
Proof. induction zs as [|z zs IH]; cbn [map omap cell_float obind]; [reflexivity|]. now rewrite IH. Qed.
Lemma omap_cell_bool_CBool zs : omap cell_bool (map CBool zs) = Ok zs.
Proof. induction zs as [|z zs IH]; cbn [map omap cell_bool obind]; [reflexivity|]. now rewrite IH. Qed.

(* ---- internal/fcolumn: subsetWithBuf and the loop of Aggregate (the template instantiated at N) *)
Definition buf_after_fcolumn (buf : list N * Z) (index : list Z) : list N * Z :=
  if snd buf <? Z.of_nat (length index) then ([], Z.of_nat (length index)) else buf.

Lemma ga_fcolumn_subsetWithBuf_loop_eq (c : ga_fcolumn_Column) (l : list Z) : forall data,
  ga_fcolumn_Column_subsetWithBuf_loop1 l c data
  = omap1 (app data) (omap (ga_index (ga_fcolumn_Column_data c)) l).
Proof.
  induction l as [|i l IH]; intro data; cbn [ga_fcolumn_Column_subsetWithBuf_loop1 omap omap1].
  - now rewrite app_nil_r.
  - destruct (ga_index (ga_fcolumn_Column_data c) i) as [v| |]; cbn [obind]; [|reflexivity|reflexivity].
    rewrite IH. destruct (omap (ga_index (ga_fcolumn_Column_data c)) l); cbn [omap1 obind]; [|reflexivity|reflexivity].
    now rewrite <- app_assoc.
Qed.

Lemma ga_fcolumn_subsetWithBuf_eq (c : ga_fcolumn_Column) (index : list Z) (buf : list N * Z) :
  ga_fcolumn_Column_subsetWithBuf c index buf
  = omap1 (fun d => (ga_mk_fcolumn_Column d, buf_after_fcolumn buf index)) (omap (ga_index (ga_fcolumn_Column_data c)) index).
Proof.
  unfold ga_fcolumn_Column_subsetWithBuf, buf_after_fcolumn.
  destruct (snd buf <? Z.of_nat (length index)).
  - rewrite gap_make0 by lia. cbn [obind]. rewrite ga_fcolumn_subsetWithBuf_loop_eq.
    destruct (omap (ga_index (ga_fcolumn_Column_data c)) index); reflexivity.
  - cbn [obind]. rewrite ga_fcolumn_subsetWithBuf_loop_eq.
    destruct (omap (ga_index (ga_fcolumn_Column_data c)) index); reflexivity.
Qed.

Lemma ga_fcolumn_Aggregate_loop1_eq (d : list N) (fz : list N -> outcome N) (l : list (list Z)) : forall data buf,
  omap1 fst (ga_fcolumn_Column_Aggregate_loop1 l (ga_mk_fcolumn_Column d) fz data buf)
  = omap1 (app data) (omap (gv d fz) l).
Proof.
  induction l as [|ix l IH]; intros data buf; cbn [ga_fcolumn_Column_Aggregate_loop1 omap omap1 fst].
  - now rewrite app_nil_r.
  - rewrite ga_fcolumn_subsetWithBuf_eq. cbn [ga_fcolumn_Column_data]. unfold gv at 1.
    destruct (omap (ga_index d) ix) as [vals| |]; cbn [omap1 obind ga_fcolumn_Column_data]; [|reflexivity|reflexivity].
    destruct (fz vals) as [v| |]; cbn [obind]; [|reflexivity|reflexivity].
    rewrite IH. destruct (omap (gv d fz) l); cbn [omap1 obind]; [|reflexivity|reflexivity].
    now rewrite <- app_assoc.
Qed.

Lemma ga_fcolumn_Aggregate_loop2_eq (d : list N) (fz : list N -> outcome N) (l : list (list Z)) : forall data buf,
  omap1 fst (ga_fcolumn_Column_Aggregate_loop2 l (ga_mk_fcolumn_Column d) fz data buf)
  = omap1 (app data) (omap (gv d fz) l).
Proof.
  induction l as [|ix l IH]; intros data buf; cbn [ga_fcolumn_Column_Aggregate_loop2 omap omap1 fst].
  - now rewrite app_nil_r.
  - rewrite ga_fcolumn_subsetWithBuf_eq. cbn [ga_fcolumn_Column_data]. unfold gv at 1.
    destruct (omap (ga_index d) ix) as [vals| |]; cbn [omap1 obind ga_fcolumn_Column_data]; [|reflexivity|reflexivity].
    destruct (fz vals) as [v| |]; cbn [obind]; [|reflexivity|reflexivity].
    rewrite IH. destruct (omap (gv d fz) l); cbn [omap1 obind]; [|reflexivity|reflexivity].
    now rewrite <- app_assoc.
Qed.

(* ---- internal/bcolumn: subsetWithBuf and the loop of Aggregate (the template instantiated at bool) *)
Definition buf_after_bcolumn (buf : list bool * Z) (index : list Z) : list bool * Z :=
  if snd buf <? Z.of_nat (length index) then ([], Z.of_nat (length index)) else buf.

Lemma ga_bcolumn_subsetWithBuf_loop_eq (c : ga_bcolumn_Column) (l : list Z) : forall data,
  ga_bcolumn_Column_subsetWithBuf_loop1 l c data
  = omap1 (app data) (omap (ga_index (ga_bcolumn_Column_data c)) l).
Proof.
  induction l as [|i l IH]; intro data; cbn [ga_bcolumn_Column_subsetWithBuf_loop1 omap omap1].
  - now rewrite app_nil_r.
  - destruct (ga_index (ga_bcolumn_Column_data c) i) as [v| |]; cbn [obind]; [|reflexivity|reflexivity].
    rewrite IH. destruct (omap (ga_index (ga_bcolumn_Column_data c)) l); cbn [omap1 obind]; [|reflexivity|reflexivity].
    now rewrite <- app_assoc.
Qed.

Lemma ga_bcolumn_subsetWithBuf_eq (c : ga_bcolumn_Column) (index : list Z) (buf : list bool * Z) :
  ga_bcolumn_Column_subsetWithBuf c index buf
  = omap1 (fun d => (ga_mk_bcolumn_Column d, buf_after_bcolumn buf index)) (omap (ga_index (ga_bcolumn_Column_data c)) index).
Proof.
  unfold ga_bcolumn_Column_subsetWithBuf, buf_after_bcolumn.
  destruct (snd buf <? Z.of_nat (length index)).
  - rewrite gap_make0 by lia. cbn [obind]. rewrite ga_bcolumn_subsetWithBuf_loop_eq.
    destruct (omap (ga_index (ga_bcolumn_Column_data c)) index); reflexivity.
  - cbn [obind]. rewrite ga_bcolumn_subsetWithBuf_loop_eq.
    destruct (omap (ga_index (ga_bcolumn_Column_data c)) index); reflexivity.
Qed.

Lemma ga_bcolumn_Aggregate_loop1_eq (d : list bool) (fz : list bool -> outcome bool) (l : list (list Z)) : forall data buf,
  omap1 fst (ga_bcolumn_Column_Aggregate_loop1 l (ga_mk_bcolumn_Column d) fz data buf)
  = omap1 (app data) (omap (gv d fz) l).
Proof.
  induction l as [|ix l IH]; intros data buf; cbn [ga_bcolumn_Column_Aggregate_loop1 omap omap1 fst].
  - now rewrite app_nil_r.
  - rewrite ga_bcolumn_subsetWithBuf_eq. cbn [ga_bcolumn_Column_data]. unfold gv at 1.
    destruct (omap (ga_index d) ix) as [vals| |]; cbn [omap1 obind ga_bcolumn_Column_data]; [|reflexivity|reflexivity].
    destruct (fz vals) as [v| |]; cbn [obind]; [|reflexivity|reflexivity].
    rewrite IH. destruct (omap (gv d fz) l); cbn [omap1 obind]; [|reflexivity|reflexivity].
    now rewrite <- app_assoc.
Qed.

Lemma ga_bcolumn_Aggregate_loop2_eq (d : list bool) (fz : list bool -> outcome bool) (l : list (list Z)) : forall data buf,
  omap1 fst (ga_bcolumn_Column_Aggregate_loop2 l (ga_mk_bcolumn_Column d) fz data buf)
  = omap1 (app data) (omap (gv d fz) l).
Proof.
  induction l as [|ix l IH]; intros data buf; cbn [ga_bcolumn_Column_Aggregate_loop2 omap omap1 fst].
  - now rewrite app_nil_r.
  - rewrite ga_bcolumn_subsetWithBuf_eq. cbn [ga_bcolumn_Column_data]. unfold gv at 1.
    destruct (omap (ga_index d) ix) as [vals| |]; cbn [omap1 obind ga_bcolumn_Column_data]; [|reflexivity|reflexivity].
    destruct (fz vals) as [v| |]; cbn [obind]; [|reflexivity|reflexivity].
    rewrite IH. destruct (omap (gv d fz) l); cbn [omap1 obind]; [|reflexivity|reflexivity].
    now rewrite <- app_assoc.
Qed.

(* ------------------------------------------------------------------ internal/fcolumn: the built-in aggregations *)

Section FloatArith.
  Variables (fzero : N) (fadd fdiv : N -> N -> N) (fofint : Z -> N).

  Lemma ga_fsum_loop_eq (l : list N) : forall r, ga_fcolumn_sum_loop1 fadd l r = Ok (fold_left fadd l r).
  Proof. induction l as [|x l IH]; intro r; cbn [ga_fcolumn_sum_loop1 fold_left]; [reflexivity|apply IH]. Qed.
  Lemma ga_favg_loop_eq (l : list N) : forall r, ga_fcolumn_avg_loop1 fadd l r = Ok (fold_left fadd l r).
  Proof. induction l as [|x l IH]; intro r; cbn [ga_fcolumn_avg_loop1 fold_left]; [reflexivity|apply IH]. Qed.

  (* sum: the left fold of + from 0 in slice order; avg: that sum divided by float64(len) — for ANY float
     arithmetic *)
  Definition f_sum_spec (v : list N) : N := fold_left fadd v fzero.
  Definition f_avg_spec (v : list N) : N := fdiv (fold_left fadd v fzero) (fofint (Z.of_nat (length v))).

  Lemma ga_fcolumn_sum_eq (v : list N) : ga_fcolumn_sum fzero fadd v = Ok (f_sum_spec v).
  Proof. unfold ga_fcolumn_sum. now rewrite ga_fsum_loop_eq. Qed.
  Lemma ga_fcolumn_avg_eq (v : list N) : ga_fcolumn_avg fzero fadd fdiv fofint v = Ok (f_avg_spec v).
  Proof. unfold ga_fcolumn_avg. now rewrite ga_favg_loop_eq. Qed.
End FloatArith.

Lemma ga_fmax_loop_eq (fmx : N -> N -> N) (l : list N) : forall r, ga_fcolumn_max_loop1 fmx l r = Ok (fold_left fmx l r).
Proof. induction l as [|x l IH]; intro r; cbn [ga_fcolumn_max_loop1 fold_left]; [reflexivity|apply IH]. Qed.
Lemma ga_fmin_loop_eq (fmn : N -> N -> N) (l : list N) : forall r, ga_fcolumn_min_loop1 fmn l r = Ok (fold_left fmn l r).
Proof. induction l as [|x l IH]; intro r; cbn [ga_fcolumn_min_loop1 fold_left]; [reflexivity|apply IH]. Qed.

(* max / min with math.Max / math.Min read as the model reads them: fl_max / fl_min (panic on an empty slice) *)
Lemma ga_fcolumn_max_eq (v : list N) : ga_fcolumn_max Aggregate.f_max v = fl_max v.
Proof.
  unfold ga_fcolumn_max, fl_max. destruct v as [|x r]; [reflexivity|].
  cbn [ga_index Z.ltb Z.compare idx nth_error Z.to_nat of_option obind ga_tail1]. now rewrite ga_fmax_loop_eq.
Qed.
Lemma ga_fcolumn_min_eq (v : list N) : ga_fcolumn_min Aggregate.f_min v = fl_min v.
Proof.
  unfold ga_fcolumn_min, fl_min. destruct v as [|x r]; [reflexivity|].
  cbn [ga_index Z.ltb Z.compare idx nth_error Z.to_nat of_option obind ga_tail1]. now rewrite ga_fmin_loop_eq.
Qed.

Notation cells_float := (cells_T CFloat cell_float).
Notation cells_bool := (cells_T CBool cell_bool).

(* the table var aggregations of fcolumn: which function a name is bound to *)
Definition f_builtin (fzero : N) (fadd fdiv : N -> N -> N) (fofint : Z -> N) (gofn : bytes) : option (list N -> outcome N) :=
  if bytes_eqb gofn gofn_max then Some (ga_fcolumn_max Aggregate.f_max)
  else if bytes_eqb gofn gofn_min then Some (ga_fcolumn_min Aggregate.f_min)
  else if bytes_eqb gofn gofn_sum then Some (ga_fcolumn_sum fzero fadd)
  else if bytes_eqb gofn gofn_avg then Some (ga_fcolumn_avg fzero fadd fdiv fofint)
  else None.

Lemma ga_faggregations_eq (fzero : N) (fadd fdiv : N -> N -> N) (fofint : Z -> N) (n : bytes) :
  ga_map_get (fun _ : list N => @Panic N)
    (ga_fcolumn_aggregations fzero fadd fdiv Aggregate.f_max Aggregate.f_min fofint) n
  = match assocb n t_f_aggregations with
    | Some gofn => match f_builtin fzero fadd fdiv fofint gofn with
                   | Some fz => (fz, true) | None => (fun _ => Panic, false) end
    | None => (fun _ => Panic, false)
    end.
Proof.
  unfold t_f_aggregations, ga_fcolumn_aggregations, ga_map_get. cbn [assocb ga_map_find fst snd].
  destruct (bytes_eqb (bs 3 0x617667) n) eqn:Eavg.
  { apply bytes_eqb_spec in Eavg. subst n. reflexivity. }
  destruct (bytes_eqb (bs 3 0x6d6178) n) eqn:Emax.
  { apply bytes_eqb_spec in Emax. subst n. reflexivity. }
  destruct (bytes_eqb (bs 3 0x6d696e) n) eqn:Emin.
  { apply bytes_eqb_spec in Emin. subst n. reflexivity. }
  destruct (bytes_eqb (bs 3 0x73756d) n) eqn:Esum.
  { apply bytes_eqb_spec in Esum. subst n. reflexivity. }
  reflexivity.
Qed.

(* ------------------------------------------------------------------ internal/fcolumn: Column.Aggregate *)

Definition m_fn_cases_float (fn : aggfn) : ga_fncase N :=
  match fn with
  | GName n => ga_FnString n
  | GUser TFloat tbl => ga_FnFunc (cells_float (user_apply tbl))
  | _ => ga_FnOther
  end.

Lemma col_of_cells_float cells : col_of_cells TFloat cells = (do d <- omap cell_float cells; Ok (FCol d)).
Proof. reflexivity. Qed.
Lemma col_of_cells_bool cells : col_of_cells TBool cells = (do d <- omap cell_bool cells; Ok (BCol d)).
Proof. reflexivity. Qed.

Lemma builtin_float_nofail ft gofn vals : builtin_apply ft TFloat gofn vals <> Fail.
Proof.
  unfold builtin_apply.
  destruct (bytes_eqb gofn gofn_max).
  { apply obind_nofail; [apply omap_not_fail; intros x _; apply cell_float_nofail|].
    intro fs. unfold fl_max. destruct fs; discriminate. }
  destruct (bytes_eqb gofn gofn_min).
  { apply obind_nofail; [apply omap_not_fail; intros x _; apply cell_float_nofail|].
    intro fs. unfold fl_min. destruct fs; discriminate. }
  unfold float_oracle. destruct (find _ ft); discriminate.
Qed.

(* the premise for sum / avg: the oracle table of the model holds, for the values of every group, the result of
   the float arithmetic the generated code is instantiated with *)
Definition oracle_agrees (ft : float_table) (gofn : bytes) (spec : list N -> N) (d : list N) (gs : list (list nat)) : Prop :=
  forall g vals, In g gs -> omap (idx d) g = Ok vals ->
    float_oracle ft gofn (map CFloat vals) = Ok (CFloat (spec vals)).

Lemma ga_fcolumn_Aggregate_eq (ft : float_table) (fzero : N) (fadd fdiv : N -> N -> N) (fofint : Z -> N)
  (d : list N) (gs : list (list nat)) (fn : aggfn) :
  (fn = GName gofn_sum -> oracle_agrees ft gofn_sum (f_sum_spec fzero fadd) d gs) ->
  (fn = GName gofn_avg -> oracle_agrees ft gofn_avg (f_avg_spec fzero fadd fdiv fofint) d gs) ->
  ga_fcolumn_Column_Aggregate m_new_error m_fn_cases_float FCol m_fnName fzero fadd fdiv Aggregate.f_max Aggregate.f_min
    fofint m_fn_text (ga_mk_fcolumn_Column d) (map ints gs) fn
  = m_col_Aggregate ft (FCol d) (map ints gs) fn.
Proof.
  intros Hsum Havg. rewrite m_col_Aggregate_ints. fold (agg_pair (col_aggregate ft (FCol d) gs fn)).
  unfold ga_fcolumn_Column_Aggregate, col_aggregate, resolve_fn.
  change (col_type (FCol d)) with TFloat. change (col_ftype (FCol d)) with TFloat.
  change (agg_table_of TFloat) with t_f_aggregations.
  pose proof (agg_core CFloat cell_float FCol TFloat cell_float_nofail agg_vals_FCol col_of_cells_float d) as Core.
  destruct fn as [n|t tbl|]; cbn [m_fn_cases_float].
  - rewrite ga_faggregations_eq.
    destruct (assocb n t_f_aggregations) as [gofn|] eqn:En; [|reflexivity].
    assert (Hn : n = gofn).
    { revert En. unfold t_f_aggregations. cbn [assocb].
      repeat match goal with |- context [bytes_eqb ?k n] => destruct (bytes_eqb k n) eqn:?E end;
        intro H; inversion H; subst;
        match goal with E : bytes_eqb _ n = true |- _ => apply bytes_eqb_spec in E; now rewrite <- E end. }
    subst gofn. unfold f_builtin.
    destruct (bytes_eqb n gofn_max) eqn:Emax.
    { cbn [negb obind]. rewrite gap_make0 by lia. cbn [obind].
      rewrite obind_pair_fst, ga_fcolumn_Aggregate_loop1_eq. cbn [ga_fcolumn_Column_data].
      apply (Core _ (builtin_apply ft TFloat n) gs); [|apply builtin_float_nofail].
      intros g vals _ _. unfold cells_T, builtin_apply. rewrite Emax, omap_cell_float_CFloat. cbn [obind].
      rewrite ga_fcolumn_max_eq. destruct (fl_max vals); reflexivity. }
    destruct (bytes_eqb n gofn_min) eqn:Emin.
    { cbn [negb obind]. rewrite gap_make0 by lia. cbn [obind].
      rewrite obind_pair_fst, ga_fcolumn_Aggregate_loop1_eq. cbn [ga_fcolumn_Column_data].
      apply (Core _ (builtin_apply ft TFloat n) gs); [|apply builtin_float_nofail].
      intros g vals _ _. unfold cells_T, builtin_apply. rewrite Emax, Emin, omap_cell_float_CFloat. cbn [obind].
      rewrite ga_fcolumn_min_eq. destruct (fl_min vals); reflexivity. }
    destruct (bytes_eqb n gofn_sum) eqn:Es.
    { apply bytes_eqb_spec in Es. subst n. cbn [negb obind]. rewrite gap_make0 by lia. cbn [obind].
      rewrite obind_pair_fst, ga_fcolumn_Aggregate_loop1_eq. cbn [ga_fcolumn_Column_data].
      apply (Core _ (builtin_apply ft TFloat gofn_sum) gs); [|apply builtin_float_nofail].
      intros g vals Hg Hv. unfold cells_T, builtin_apply. rewrite Emax, Emin.
      rewrite (Hsum eq_refl g vals Hg Hv). cbn [obind cell_float]. apply ga_fcolumn_sum_eq. }
    destruct (bytes_eqb n gofn_avg) eqn:Ea.
    { apply bytes_eqb_spec in Ea. subst n. cbn [negb obind]. rewrite gap_make0 by lia. cbn [obind].
      rewrite obind_pair_fst, ga_fcolumn_Aggregate_loop1_eq. cbn [ga_fcolumn_Column_data].
      apply (Core _ (builtin_apply ft TFloat gofn_avg) gs); [|apply builtin_float_nofail].
      intros g vals Hg Hv. unfold cells_T, builtin_apply. rewrite Emax, Emin.
      rewrite (Havg eq_refl g vals Hg Hv). cbn [obind cell_float]. apply ga_fcolumn_avg_eq. }
    exfalso. revert En. unfold t_f_aggregations. cbn [assocb].
    repeat match goal with |- context [bytes_eqb ?k n] => destruct (bytes_eqb k n) eqn:?E end; try discriminate;
      intros _; match goal with E : bytes_eqb _ n = true |- _ => apply bytes_eqb_spec in E; subst n end;
      vm_compute in Emax, Emin, Es, Ea; congruence.
  - destruct t; cbn [ctype_eqb andb negb obind agg_pair]; try reflexivity.
    rewrite gap_make0 by lia. cbn [obind].
    rewrite obind_pair_fst, ga_fcolumn_Aggregate_loop2_eq. cbn [ga_fcolumn_Column_data].
    apply (Core _ (user_apply tbl) gs); [intros; reflexivity|apply user_apply_nofail].
  - reflexivity.
Qed.

(* ------------------------------------------------------------------ internal/bcolumn: majority / Aggregate *)

Lemma ga_majority_loop_eq (l : list bool) : forall t f,
  ga_bcolumn_majority_loop1 l t f
  = Ok (t + Z.of_nat (length (filter (fun x => x) l)), f + Z.of_nat (length (filter negb l))).
Proof.
  induction l as [|x l IH]; intros t f; cbn [ga_bcolumn_majority_loop1 filter length].
  - now rewrite !Z.add_0_r.
  - destruct x; cbn [obind negb length]; rewrite IH; f_equal; f_equal; lia.
Qed.

(* majority: tCount > fCount *)
Lemma ga_bcolumn_majority_eq (v : list bool) : ga_bcolumn_majority v = Ok (b_majority v).
Proof.
  unfold ga_bcolumn_majority, b_majority. rewrite ga_majority_loop_eq. cbn [obind]. f_equal.
  destruct (Nat.ltb_spec (length (filter negb v)) (length (filter (fun x => x) v))); lia.
Qed.

Definition m_fn_cases_bool (fn : aggfn) : ga_fncase bool :=
  match fn with
  | GName n => ga_FnString n
  | GUser TBool tbl => ga_FnFunc (cells_bool (user_apply tbl))
  | _ => ga_FnOther
  end.

Lemma builtin_bool_nofail ft gofn vals : builtin_apply ft TBool gofn vals <> Fail.
Proof.
  unfold builtin_apply. apply obind_nofail; [apply omap_not_fail; intros x _; apply cell_bool_nofail|].
  intro bl. destruct (bytes_eqb gofn gofn_majority); discriminate.
Qed.

Lemma ga_bcolumn_Aggregate_eq (ft : float_table) (d : list bool) (gs : list (list nat)) (fn : aggfn) :
  ga_bcolumn_Column_Aggregate m_new_error m_fn_cases_bool BCol m_fnName m_fn_text (ga_mk_bcolumn_Column d) (map ints gs) fn
  = m_col_Aggregate ft (BCol d) (map ints gs) fn.
Proof.
  rewrite m_col_Aggregate_ints. fold (agg_pair (col_aggregate ft (BCol d) gs fn)).
  unfold ga_bcolumn_Column_Aggregate, col_aggregate, resolve_fn.
  change (col_type (BCol d)) with TBool. change (col_ftype (BCol d)) with TBool.
  change (agg_table_of TBool) with t_b_aggregations.
  pose proof (agg_core CBool cell_bool BCol TBool cell_bool_nofail agg_vals_BCol col_of_cells_bool d) as Core.
  destruct fn as [n|t tbl|]; cbn [m_fn_cases_bool].
  - unfold t_b_aggregations, ga_bcolumn_aggregations, ga_map_get. cbn [assocb ga_map_find fst snd].
    destruct (bytes_eqb (bs 8 0x6d616a6f72697479) n) eqn:E; [|reflexivity].
    apply bytes_eqb_spec in E. subst n. cbn [negb obind]. rewrite gap_make0 by lia. cbn [obind].
    rewrite obind_pair_fst, ga_bcolumn_Aggregate_loop1_eq. cbn [ga_bcolumn_Column_data].
    apply (Core _ (builtin_apply ft TBool (bs 8 0x6d616a6f72697479)) gs); [|apply builtin_bool_nofail].
    intros g vals _ _. unfold cells_T, builtin_apply. rewrite omap_cell_bool_CBool. cbn [obind].
    change (bytes_eqb (bs 8 0x6d616a6f72697479) gofn_majority) with true. cbn iota. cbn [obind cell_bool].
    apply ga_bcolumn_majority_eq.
  - destruct t; cbn [ctype_eqb andb negb obind agg_pair]; try reflexivity.
    rewrite gap_make0 by lia. cbn [obind].
    rewrite obind_pair_fst, ga_bcolumn_Aggregate_loop2_eq. cbn [ga_bcolumn_Column_data].
    apply (Core _ (user_apply tbl) gs); [intros; reflexivity|apply user_apply_nofail].
  - reflexivity.
Qed.

Lemma hash_input_total (nulleq : bool) (z : Z) (b : bool) (r : N) :
  Grouper.hash_input nulleq (Grouper.CInt z) <> None /\ Grouper.hash_input nulleq (Grouper.CBool b) <> None
  /\ Grouper.hash_input nulleq (Grouper.CEnum r) <> None.
Proof. repeat split; discriminate. Qed.

(* ---- internal/icolumn: Column.subset / Column.Subset: a fresh data array, the values at the positions in index order *)
Lemma ga_icolumn_subset_loop_fill (c : ga_icolumn_Column) (l : list Z) : forall k res,
  ga_icolumn_Column_subset_loop1 l k c res = gap_fill (ga_index (ga_icolumn_Column_data c)) l k res.
Proof.
  induction l as [|x l IH]; intros k res; cbn [ga_icolumn_Column_subset_loop1 gap_fill]; [reflexivity|].
  destruct (ga_index (ga_icolumn_Column_data c) x); cbn [obind]; [|reflexivity|reflexivity].
  destruct (ga_update res k a); cbn [obind]; [apply IH|reflexivity|reflexivity].
Qed.

Lemma ga_icolumn_subset_eq (d : list Z) (ix : list nat) :
  ga_icolumn_Column_subset (ga_mk_icolumn_Column d) (ints ix) = omap1 ga_mk_icolumn_Column (omap (idx d) ix).
Proof.
  unfold ga_icolumn_Column_subset. unfold ints at 1 2. rewrite map_length, gap_make. cbn [obind].
  rewrite ga_icolumn_subset_loop_fill. fold (ints ix). rewrite <- (map_length Z.of_nat ix) at 1. fold (ints ix).
  rewrite gap_fill_all. cbn [ga_icolumn_Column_data]. rewrite ga_index_ints.
  destruct (omap (idx d) ix); reflexivity.
Qed.

Lemma ga_icolumn_Subset_eq (d : list Z) (ix : list nat) :
  ga_icolumn_Column_Subset ICol (ga_mk_icolumn_Column d) (ints ix) = m_col_Subset (ICol d) (ints ix).
Proof.
  unfold ga_icolumn_Column_Subset. rewrite ga_icolumn_subset_eq, m_col_Subset_ints. cbn [col_subset].
  destruct (omap (idx d) ix); reflexivity.
Qed.

(* ---- internal/fcolumn: Column.subset / Column.Subset: a fresh data array, the values at the positions in index order *)
Lemma ga_fcolumn_subset_loop_fill (c : ga_fcolumn_Column) (l : list Z) : forall k res,
  ga_fcolumn_Column_subset_loop1 l k c res = gap_fill (ga_index (ga_fcolumn_Column_data c)) l k res.
Proof.
  induction l as [|x l IH]; intros k res; cbn [ga_fcolumn_Column_subset_loop1 gap_fill]; [reflexivity|].
  destruct (ga_index (ga_fcolumn_Column_data c) x); cbn [obind]; [|reflexivity|reflexivity].
  destruct (ga_update res k a); cbn [obind]; [apply IH|reflexivity|reflexivity].
Qed.

Lemma ga_fcolumn_subset_eq (fz : N) (d : list N) (ix : list nat) :
  ga_fcolumn_Column_subset fz (ga_mk_fcolumn_Column d) (ints ix) = omap1 ga_mk_fcolumn_Column (omap (idx d) ix).
Proof.
  unfold ga_fcolumn_Column_subset. unfold ints at 1 2. rewrite map_length, gap_make. cbn [obind].
  rewrite ga_fcolumn_subset_loop_fill. fold (ints ix). rewrite <- (map_length Z.of_nat ix) at 1. fold (ints ix).
  rewrite gap_fill_all. cbn [ga_fcolumn_Column_data]. rewrite ga_index_ints.
  destruct (omap (idx d) ix); reflexivity.
Qed.

Lemma ga_fcolumn_Subset_eq (fz : N) (d : list N) (ix : list nat) :
  ga_fcolumn_Column_Subset FCol fz (ga_mk_fcolumn_Column d) (ints ix) = m_col_Subset (FCol d) (ints ix).
Proof.
  unfold ga_fcolumn_Column_Subset. rewrite ga_fcolumn_subset_eq, m_col_Subset_ints. cbn [col_subset].
  destruct (omap (idx d) ix); reflexivity.
Qed.

(* ---- internal/bcolumn: Column.subset / Column.Subset: a fresh data array, the values at the positions in index order *)
Lemma ga_bcolumn_subset_loop_fill (c : ga_bcolumn_Column) (l : list Z) : forall k res,
  ga_bcolumn_Column_subset_loop1 l k c res = gap_fill (ga_index (ga_bcolumn_Column_data c)) l k res.
Proof.
  induction l as [|x l IH]; intros k res; cbn [ga_bcolumn_Column_subset_loop1 gap_fill]; [reflexivity|].
  destruct (ga_index (ga_bcolumn_Column_data c) x); cbn [obind]; [|reflexivity|reflexivity].
  destruct (ga_update res k a); cbn [obind]; [apply IH|reflexivity|reflexivity].
Qed.

Lemma ga_bcolumn_subset_eq (d : list bool) (ix : list nat) :
  ga_bcolumn_Column_subset (ga_mk_bcolumn_Column d) (ints ix) = omap1 ga_mk_bcolumn_Column (omap (idx d) ix).
Proof.
  unfold ga_bcolumn_Column_subset. unfold ints at 1 2. rewrite map_length, gap_make. cbn [obind].
  rewrite ga_bcolumn_subset_loop_fill. fold (ints ix). rewrite <- (map_length Z.of_nat ix) at 1. fold (ints ix).
  rewrite gap_fill_all. cbn [ga_bcolumn_Column_data]. rewrite ga_index_ints.
  destruct (omap (idx d) ix); reflexivity.
Qed.

Lemma ga_bcolumn_Subset_eq (d : list bool) (ix : list nat) :
  ga_bcolumn_Column_Subset BCol (ga_mk_bcolumn_Column d) (ints ix) = m_col_Subset (BCol d) (ints ix).
Proof.
  unfold ga_bcolumn_Column_Subset. rewrite ga_bcolumn_subset_eq, m_col_Subset_ints. cbn [col_subset].
  destruct (omap (idx d) ix); reflexivity.
Qed.

(* ---- internal/ecolumn: subset keeps the value table and does not copy the strict flag *)
Lemma ga_ecolumn_subset_loop_eq (c : ga_ecolumn_Column) (l : list Z) : forall data,
  ga_ecolumn_Column_subset_loop1 l c data = omap1 (app data) (omap (ga_index (ga_ecolumn_Column_data c)) l).
Proof.
  induction l as [|i l IH]; intro data; cbn [ga_ecolumn_Column_subset_loop1 omap omap1].
  - now rewrite app_nil_r.
  - destruct (ga_index (ga_ecolumn_Column_data c) i) as [v| |]; cbn [obind]; [|reflexivity|reflexivity].
    rewrite IH. destruct (omap (ga_index (ga_ecolumn_Column_data c)) l); cbn [omap1 obind]; [|reflexivity|reflexivity].
    now rewrite <- app_assoc.
Qed.

Lemma omap_idx_map {A B} (f : A -> B) (d : list A) (ix : list nat) :
  omap (idx (map f d)) ix = omap1 (map f) (omap (idx d) ix).
Proof.
  induction ix as [|p ix IH]; cbn [omap omap1 map]; [reflexivity|]. rewrite idx_map, IH.
  destruct (idx d p); cbn [omap1 obind]; [|reflexivity|reflexivity]. destruct (omap (idx d) ix); reflexivity.
Qed.

Lemma ga_ecolumn_subset_eq (d : list N) (values : list bytes) (strict : bool) (ix : list nat) :
  ga_ecolumn_Column_subset (emb_ecol d values strict) (ints ix)
  = omap1 (fun r => emb_ecol r values false) (omap (idx d) ix).
Proof.
  unfold ga_ecolumn_Column_subset. rewrite gap_make0 by lia. cbn [obind]. rewrite ga_ecolumn_subset_loop_eq.
  cbn [emb_ecol ga_ecolumn_Column_data ga_ecolumn_Column_values]. rewrite ga_index_ints, omap_idx_map.
  destruct (omap (idx d) ix); reflexivity.
Qed.

(* ------------------------------------------------------------------ scolumn.New: the layout it builds *)

Definition str_bytes (o : option bytes) : bytes := match o with Some s => s | None => [] end.
Definition bytes_of (strs : list (option bytes)) : bytes := concat (map str_bytes strs).
(* one pointer per string: the running offset, the length (0 for nil), the null bit *)
Fixpoint layout (strs : list (option bytes)) (off : Z) : list Z :=
  match strs with
  | [] => []
  | None :: r => gf_strings_NewPointer off 0 true :: layout r off
  | Some s :: r => gf_strings_NewPointer off (Z.of_nat (length s)) false :: layout r (off + Z.of_nat (length s))
  end.

Lemma layout_length strs : forall off, length (layout strs off) = length strs.
Proof. induction strs as [|[s|] r IH]; intro off; cbn [layout length]; [reflexivity| |]; now rewrite IH. Qed.

Lemma ga_New_loop_eq (l : list (option bytes)) : forall (pre rest : list Z) data off,
  length rest = length l ->
  ga_scolumn_New_loop1 l (Z.of_nat (length pre)) data (pre ++ rest) off
  = Ok (data ++ bytes_of l, pre ++ layout l off, off + Z.of_nat (length (bytes_of l))).
Proof.
  induction l as [|[s|] l IH]; intros pre rest data off Hlen.
  - destruct rest; [|discriminate]. cbn [ga_scolumn_New_loop1 bytes_of map concat layout length Z.of_nat].
    now rewrite !app_nil_r, Z.add_0_r.
  - destruct rest as [|r0 rest]; [discriminate|]. cbn [ga_scolumn_New_loop1 ga_isnil ga_deref obind].
    rewrite gap_update_mid. cbn [obind]. rewrite gap_succ.
    replace (S (length pre)) with (length (pre ++ [gf_strings_NewPointer off (Z.of_nat (length s)) false]))
      by (rewrite app_length; cbn; lia).
    rewrite IH by (cbn in Hlen; lia). unfold bytes_of. cbn [map concat str_bytes layout].
    rewrite <- !app_assoc, app_length. cbn [app]. f_equal. f_equal. lia.
  - destruct rest as [|r0 rest]; [discriminate|]. cbn [ga_scolumn_New_loop1 ga_isnil obind].
    rewrite gap_update_mid. cbn [obind]. rewrite gap_succ.
    replace (S (length pre)) with (length (pre ++ [gf_strings_NewPointer off 0 true])) by (rewrite app_length; cbn; lia).
    rewrite IH by (cbn in Hlen; lia). unfold bytes_of. cbn [map concat str_bytes layout app].
    now rewrite <- !app_assoc.
Qed.

(* scolumn.New(strings): the pointers of the layout over the concatenated bytes — no premise *)
Lemma ga_scolumn_New_eq (strs : list (option bytes)) :
  ga_scolumn_New strs = Ok (ga_mk_scolumn_Column (layout strs 0) (bytes_of strs)).
Proof.
  unfold ga_scolumn_New. rewrite gap_make0 by lia. cbn [obind]. rewrite gap_make. cbn [obind].
  pose proof (ga_New_loop_eq strs [] (repeat 0 (length strs)) [] 0 (repeat_length _ _)) as H.
  cbn [length Z.of_nat app] in H. rewrite H. cbn [obind]. reflexivity.
Qed.

(* the accessors read back what NewPointer packed (limits of pointer.go: offset < 2^35, length < 2^28) *)
Lemma gap_lor_lt (a b : N) : (a < 2^64)%N -> (b < 2^64)%N -> (N.lor a b < 2^64)%N.
Proof.
  intros Ha Hb. destruct (N.eq_dec (N.lor a b) 0) as [E|E]; [rewrite E; reflexivity|].
  apply N.log2_lt_pow2; [lia|]. rewrite N.log2_lor. apply N.max_lub_lt.
  - destruct (N.eq_dec a 0) as [->|Hz]; [reflexivity|]. apply N.log2_lt_pow2; lia.
  - destruct (N.eq_dec b 0) as [->|Hz]; [reflexivity|]. apply N.log2_lt_pow2; lia.
Qed.

Lemma gap_new_pointer_lt o l n : (Bits.new_pointer o l n < 2^64)%N.
Proof.
  unfold Bits.new_pointer, Bits.u64.
  assert (H : (N.lor (N.shiftl o GenConsts.c_ptr_new_shift) l mod 2^64 < 2^64)%N) by (apply N.mod_lt; discriminate).
  destruct n; [|exact H]. apply gap_lor_lt; [exact H|reflexivity].
Qed.

Lemma gap_pointer_roundtrip (o l : Z) (n : bool) :
  0 <= o < 2^35 -> 0 <= l < 2^28 ->
  gf_strings_Pointer_Offset (gf_strings_NewPointer o l n) = o /\
  gf_strings_Pointer_Len (gf_strings_NewPointer o l n) = l /\
  gf_strings_Pointer_IsNull (gf_strings_NewPointer o l n) = n.
Proof.
  intros Ho Hl. rewrite GenFuncsProofs.gf_strings_NewPointer_eq by lia.
  pose proof (gap_new_pointer_lt (Z.to_N o) (Z.to_N l) n) as Hlt.
  assert (Hr : 0 <= Z.of_N (Bits.new_pointer (Z.to_N o) (Z.to_N l) n) < 18446744073709551616) by lia.
  rewrite GenFuncsProofs.gf_strings_Pointer_Offset_eq, GenFuncsProofs.gf_strings_Pointer_Len_eq,
    GenFuncsProofs.gf_strings_Pointer_IsNull_eq by lia.
  rewrite N2Z.id.
  destruct (BitsProofs.pointer_roundtrip (Z.to_N o) (Z.to_N l) n) as (H1 & H2 & H3); [lia|lia|].
  rewrite H1, H2, H3. repeat split; lia.
Qed.

Lemma gap_bytesAt_cons p ps D (i : nat) :
  ga_scolumn_Column_bytesAt (ga_mk_scolumn_Column (p :: ps) D) (Z.of_nat (S i))
  = ga_scolumn_Column_bytesAt (ga_mk_scolumn_Column ps D) (Z.of_nat i).
Proof. unfold ga_scolumn_Column_bytesAt. cbn [ga_scolumn_Column_pointers ga_scolumn_Column_data]. now rewrite !gap_index. Qed.

Lemma gap_slice_mid {T} (pre s rest : list T) :
  ga_slice (pre ++ s ++ rest) (Z.of_nat (length pre)) (Z.of_nat (length pre) + Z.of_nat (length s)) = Ok s.
Proof.
  unfold ga_slice. rewrite !app_length.
  destruct ((Z.of_nat (length pre) <? 0) || (Z.of_nat (length pre) + Z.of_nat (length s) <? Z.of_nat (length pre))
            || (Z.of_nat (length pre + (length s + length rest)) <? Z.of_nat (length pre) + Z.of_nat (length s))) eqn:E; [lia|].
  rewrite Nat2Z.id. replace (Z.to_nat (Z.of_nat (length pre) + Z.of_nat (length s) - Z.of_nat (length pre))) with (length s) by lia.
  rewrite skipn_app, skipn_all, Nat.sub_diag. cbn [skipn app].
  rewrite firstn_app, firstn_all, Nat.sub_diag. cbn [firstn]. now rewrite app_nil_r.
Qed.

(* the limits of pointer.go for a list of strings laid out from offset off *)
Definition strs_small (l : list (option bytes)) (off : Z) : Prop :=
  off + Z.of_nat (length (bytes_of l)) < 2^35 /\ Forall (fun o => Z.of_nat (length (str_bytes o)) < 2^28) l.

Lemma rep_layout (l : list (option bytes)) : forall (pre rest : bytes),
  strs_small l (Z.of_nat (length pre)) ->
  forall i : nat,
  ga_scolumn_Column_bytesAt (ga_mk_scolumn_Column (layout l (Z.of_nat (length pre))) (pre ++ bytes_of l ++ rest)) (Z.of_nat i)
  = scol_cell (nth_error l i).
Proof.
  induction l as [|[s|] r IH]; intros pre rest [Hoff Hall] i.
  - cbn [layout]. unfold ga_scolumn_Column_bytesAt. cbn [ga_scolumn_Column_pointers]. rewrite gap_index.
    destruct i; reflexivity.
  - inversion Hall as [|? ? Hs Hr]; subst. cbn [str_bytes] in Hs.
    unfold bytes_of in *. cbn [map concat str_bytes] in *. rewrite app_length in Hoff.
    cbn [layout]. destruct i as [|i].
    + unfold ga_scolumn_Column_bytesAt. cbn [ga_scolumn_Column_pointers ga_scolumn_Column_data].
      change (Z.of_nat 0) with 0. cbn [ga_index Z.ltb Z.compare idx nth_error Z.to_nat of_option obind].
      destruct (gap_pointer_roundtrip (Z.of_nat (length pre)) (Z.of_nat (length s)) false) as (H1 & H2 & H3); [lia|lia|].
      rewrite H1, H2, H3. rewrite <- app_assoc. rewrite gap_slice_mid. reflexivity.
    + rewrite gap_bytesAt_cons. cbn [nth_error].
      replace (Z.of_nat (length pre) + Z.of_nat (length s)) with (Z.of_nat (length (pre ++ s))) by (rewrite app_length; lia).
      replace (pre ++ (s ++ concat (map str_bytes r)) ++ rest) with ((pre ++ s) ++ concat (map str_bytes r) ++ rest)
        by (now rewrite <- !app_assoc).
      apply (IH (pre ++ s) rest). split; [rewrite app_length; unfold bytes_of; lia|exact Hr].
  - inversion Hall as [|? ? Hs Hr]; subst.
    unfold bytes_of in *. cbn [map concat str_bytes app] in *.
    cbn [layout]. destruct i as [|i].
    + unfold ga_scolumn_Column_bytesAt. cbn [ga_scolumn_Column_pointers ga_scolumn_Column_data].
      change (Z.of_nat 0) with 0. cbn [ga_index Z.ltb Z.compare idx nth_error Z.to_nat of_option obind].
      destruct (gap_pointer_roundtrip (Z.of_nat (length pre)) 0 true) as (H1 & H2 & H3); [lia|lia|].
      rewrite H3. reflexivity.
    + rewrite gap_bytesAt_cons. cbn [nth_error]. apply (IH pre rest). split; [unfold bytes_of; lia|exact Hr].
Qed.

(* scolumn.New(strs) represents strs (within the limits of pointer.go) *)
Lemma rep_scol_New (strs : list (option bytes)) :
  strs_small strs 0 -> rep_scol (ga_mk_scolumn_Column (layout strs 0) (bytes_of strs)) strs.
Proof.
  intros H i. pose proof (rep_layout strs [] [] H i) as R. cbn [length Z.of_nat app] in R.
  rewrite app_nil_r in R. exact R.
Qed.

(* ------------------------------------------------------------------ Grouper.Aggregate for ANY column level that
   agrees with the model on the columns of the grouper (composition) *)

Lemma lookup_from_in name (cs : list (bytes * coldata)) : forall k acc p c,
  lookup_from name cs k acc = Some (p, c) -> In c (map snd cs) \/ acc = Some (p, c).
Proof.
  induction cs as [|[n c0] cs IH]; intros k acc p c H; cbn [lookup_from map snd] in *.
  - now right.
  - destruct (IH _ _ _ _ H) as [Hin|Hacc]; [left; now right|].
    destruct (bytes_eqb n name); [inversion Hacc; subst; left; now left|now right].
Qed.

Section Compose.
  Variable ft : float_table.
  Variable g : grouper.
  Variable colS : coldata -> list Z -> outcome (option coldata).
  Variable colA : coldata -> list (list Z) -> aggfn -> outcome (option coldata * option unit).
  Hypothesis HS : forall c firsts, In c (map snd (gcols g)) -> colS c (ints firsts) = omap1 Some (col_subset c firsts).

  Lemma ga_Aggregate_loop2_gen (firsts : list nat) (keys : list bytes) : forall acc,
    ga_Grouper_Aggregate_loop2 colS keys (Z.of_nat (length acc)) (emb_grouper g) (ints firsts)
      (emb_map acc) (emb_cols acc)
    = omap1 (fun kc => (emb_map (acc ++ kc), emb_cols (acc ++ kc))) (omap (key_col g firsts) keys).
  Proof.
    induction keys as [|n keys IH]; intro acc; cbn [ga_Grouper_Aggregate_loop2 omap omap1].
    - now rewrite app_nil_r.
    - cbn [emb_grouper ga_Grouper_columnsByName]. rewrite gap_map_get. unfold key_col at 1.
      rewrite lookup_col_gframe.
      destruct (lookup_from n (gcols g) 0 None) as [[p c]|] eqn:El; cbn [fst option_map of_option obind snd];
        [|reflexivity].
      ncsimpl. cbn [ga_deref obind]. rewrite HS.
      2:{ destruct (lookup_from_in _ _ _ _ _ _ El) as [H|H]; [exact H|discriminate]. }
      destruct (col_subset c firsts) as [s| |]; cbn [omap1 obind]; [|reflexivity|reflexivity].
      ncsimpl. rewrite emb_map_snoc, emb_cols_snoc, gap_succ.
      replace (S (length acc)) with (length (acc ++ [(n, s)])) by (rewrite app_length; cbn; lia).
      rewrite IH. destruct (omap (key_col g firsts) keys); cbn [omap1 obind]; [|reflexivity|reflexivity].
      now rewrite <- app_assoc.
  Qed.

  Lemma ga_Aggregate_loop4_gen (aggs : list aggregation) :
    Z.of_nat (length (gindices g)) < 4294967296 ->
    (forall c a, In c (map snd (gcols g)) -> In a aggs -> is_count (agfn a) = false ->
       colA c (map ints (gindices g)) (agfn a) = agg_pair (col_aggregate ft c (gindices g) (agfn a))) ->
    forall acc err,
    ga_Grouper_Aggregate_loop4 m_new_error m_propagate m_unknownCol m_fn_eq_string colA m_icolumn_New
      (map emb_agg aggs) (emb_grouper g) (emb_map acc) (emb_cols acc) err
    = agg_result g (ofold (agg_step ft g) aggs acc).
  Proof.
    intro Hn. induction aggs as [|a aggs IH]; intros HA acc err; cbn [map ga_Grouper_Aggregate_loop4].
    - rewrite ofold_nil. cbn [agg_result emb_grouper ga_Grouper_indices]. rewrite map_length.
      unfold ga_u32. rewrite Z.mod_small by lia. rewrite gc_NewAscending_small by lia. reflexivity.
    - assert (HA' : forall c a0, In c (map snd (gcols g)) -> In a0 aggs -> is_count (agfn a0) = false ->
                colA c (map ints (gindices g)) (agfn a0) = agg_pair (col_aggregate ft c (gindices g) (agfn a0))).
      { intros c a0 Hc Ha0. apply HA; [exact Hc|now right]. }
      rewrite ofold_cons. unfold agg_step at 1.
      cbn [emb_grouper ga_Grouper_columnsByName ga_Grouper_indices emb_agg ga_Aggregation_Column ga_Aggregation_As ga_Aggregation_Fn].
      rewrite gap_map_get. rewrite lookup_col_gframe.
      destruct (lookup_from (acol a) (gcols g) 0 None) as [[p c]|] eqn:El; cbn [option_map negb snd]; [|reflexivity].
      cbn [obind].
      assert (Hname : (if negb (bytes_eqb (aas a) (@nil N)) then Ok (aas a) else Ok (acol a)) = Ok (agg_name a)).
      { rewrite <- gap_agg_name. destruct (negb (bytes_eqb (aas a) [])); reflexivity. }
      rewrite Hname. cbn [obind].
      pose proof (gap_map_has acc (agg_name a)) as Hhas.
      destruct (ga_map_get ga_namedColumn_zero (emb_map acc) (agg_name a)) as [t8 t9]. cbn [snd] in Hhas. subst t9.
      destruct (name_in (agg_name a) acc); [reflexivity|].
      rewrite gap_is_count. unfold agg_column.
      ncsimpl. rewrite emb_cols_length.
      destruct (is_count (agfn a)) eqn:Ecnt.
      + rewrite map_length, gap_make. cbn [obind]. rewrite ga_Aggregate_counts. cbn [obind].
        ncsimpl. unfold m_icolumn_New. rewrite emb_map_snoc, emb_cols_snoc. apply (IH HA').
      + cbn [ga_deref obind]. rewrite (HA c a).
        2:{ destruct (lookup_from_in _ _ _ _ _ _ El) as [H|H]; [exact H|discriminate]. }
        2:{ now left. }
        2:{ exact Ecnt. }
        destruct (col_aggregate ft c (gindices g) (agfn a)) as [r| |]; cbn [agg_pair obind ga_isnil negb]; [|reflexivity|reflexivity].
        ncsimpl. rewrite emb_map_snoc, emb_cols_snoc. apply (IH HA').
  Qed.

  Lemma ga_Grouper_Aggregate_gen (aggs : list aggregation) :
    Z.of_nat (length (gindices g)) < 4294967296 ->
    (forall c a, In c (map snd (gcols g)) -> In a aggs -> is_count (agfn a) = false ->
       colA c (map ints (gindices g)) (agfn a) = agg_pair (col_aggregate ft c (gindices g) (agfn a))) ->
    ga_Grouper_Aggregate m_new_error m_propagate m_unknownCol m_fn_eq_string colS colA
      m_icolumn_New (emb_grouper g) (map emb_agg aggs)
    = omap1 emb_frame (aggregate ft g aggs).
  Proof.
    intros Hn HA. unfold ga_Grouper_Aggregate, aggregate.
    cbn [emb_grouper ga_Grouper_Err ga_Grouper_indices ga_Grouper_groupedColumns]. rewrite emb_err_nil.
    destruct (gerr g); [reflexivity|].
    rewrite map_length, gap_make. cbn [obind]. rewrite ga_Aggregate_firsts, obind_omap1.
    destruct (omap (fun ix => idx ix 0%nat) (gindices g)) as [firsts| |]; cbn [obind omap1]; [|reflexivity|reflexivity].
    rewrite gap_make0 by lia. cbn [obind].
    pose proof (ga_Aggregate_loop2_gen firsts (gkeys g) []) as H2. cbn [length Z.of_nat app] in H2.
    change (emb_map []) with (@nil (bytes * NC)) in H2. change (emb_cols []) with (@nil NC) in H2.
    fold (emb_grouper g). rewrite H2. clear H2.
    change (fun n => do c <- of_option (lookup_col (gframe g) n); do s <- col_subset c firsts; Ok (n, s))
      with (key_col g firsts).
    destruct (omap (key_col g firsts) (gkeys g)) as [keycols| |]; cbn [omap1 obind]; [|reflexivity|reflexivity].
    rewrite (ga_Aggregate_loop4_gen aggs Hn HA).
    destruct (ofold (agg_step ft g) aggs keycols); reflexivity.
  Qed.
End Compose.

(* ------------------------------------------------------------------ stringSlice (the []*string a user function gets) *)

Lemma ga_stringAt_bytesAt c i : ga_scolumn_Column_stringAt c i = ga_scolumn_Column_bytesAt c i.
Proof. reflexivity. Qed.

Definition str_ptr (x : bytes * bool) : option bytes := if snd x then None else Some (fst x).

Lemma ga_s_stringSlice_loop_fill (c : ga_scolumn_Column) (l : list Z) : forall k res,
  ga_scolumn_Column_stringSlice_loop1 l k c res
  = gap_fill (fun ix => omap1 str_ptr (ga_scolumn_Column_stringAt c ix)) l k res.
Proof.
  induction l as [|x l IH]; intros k res; cbn [ga_scolumn_Column_stringSlice_loop1 gap_fill]; [reflexivity|].
  destruct (ga_scolumn_Column_stringAt c x) as [[s [|]]| |]; cbn [omap1 obind str_ptr fst snd]; try reflexivity.
  - destruct (ga_update res k None); cbn [obind]; [apply IH|reflexivity|reflexivity].
  - destruct (ga_update res k (Some s)); cbn [obind]; [apply IH|reflexivity|reflexivity].
Qed.

(* every element is written: nil for a null row, a pointer to the string otherwise — the cells of the model *)
Lemma ga_s_stringSlice_eq (c : ga_scolumn_Column) (d : list (option bytes)) (g : list nat) :
  rep_scol c d -> ga_scolumn_Column_stringSlice c (ints g) = omap (idx d) g.
Proof.
  intro Hrep. unfold ga_scolumn_Column_stringSlice. unfold ints at 1 2. rewrite map_length, gap_make. cbn [obind].
  rewrite ga_s_stringSlice_loop_fill. fold (ints g). rewrite <- (map_length Z.of_nat g) at 1. fold (ints g).
  rewrite gap_fill_all. unfold ints. rewrite omap_map.
  rewrite (omap_ext _ (idx d) g); [destruct (omap (idx d) g); reflexivity|].
  intro p. rewrite ga_stringAt_bytesAt, Hrep. unfold idx. destruct (nth_error d p) as [[s|]|]; reflexivity.
Qed.

Lemma ga_e_stringSlice_loop_eq (d : list N) values strict (l : list nat) : forall res,
  omap1 snd (ga_ecolumn_Column_stringSlice_loop1 (ints l) (emb_ecol d values strict) res)
  = omap1 (app res) (omap (fun p => do r <- idx d p; enum_string values r) l).
Proof.
  induction l as [|p l IH]; intro res; cbn [ints map ga_ecolumn_Column_stringSlice_loop1 omap omap1 snd].
  - now rewrite app_nil_r.
  - cbn [emb_ecol ga_ecolumn_Column_data ga_ecolumn_Column_values]. rewrite gap_index, idx_map.
    destruct (idx d p) as [r| |]; cbn [omap1 obind]; [|reflexivity|reflexivity].
    rewrite gap_enum_isnull. unfold enum_string. destruct (enum_is_null r); cbn [obind].
    + fold (ints l). fold (emb_ecol d values strict). rewrite IH.
      destruct (omap _ l); cbn [omap1 obind]; [|reflexivity|reflexivity]. now rewrite <- app_assoc.
    + replace (Z.of_N r) with (Z.of_nat (N.to_nat r)) by lia. rewrite gap_index.
      destruct (idx values (N.to_nat r)) as [s| |]; cbn [obind]; [|reflexivity|reflexivity].
      fold (ints l). fold (emb_ecol d values strict). rewrite IH.
      destruct (omap _ l); cbn [omap1 obind]; [|reflexivity|reflexivity]. now rewrite <- app_assoc.
Qed.

Lemma ga_e_stringSlice_eq (d : list N) values strict (g : list nat) :
  ga_ecolumn_Column_stringSlice (emb_ecol d values strict) (ints g)
  = omap (fun p => do r <- idx d p; enum_string values r) g.
Proof.
  unfold ga_ecolumn_Column_stringSlice. rewrite gap_make0 by lia. cbn [obind].
  pose proof (ga_e_stringSlice_loop_eq d values strict g []) as H.
  destruct (ga_ecolumn_Column_stringSlice_loop1 (ints g) (emb_ecol d values strict) []) as [[c r]| |];
    cbn [omap1 snd obind] in *; destruct (omap _ g); cbn [omap1 app] in H; congruence.
Qed.

(* ------------------------------------------------------------------ the column level built from TRANSLATED functions *)

(* an ecolumn.Column seen as a model column *)
Definition abs_ecol (c : ga_ecolumn_Column) : coldata :=
  ECol (map Z.to_N (ga_ecolumn_Column_data c)) (ga_ecolumn_Column_values c) (ga_ecolumn_Column_strict c).

Lemma abs_emb_ecol d values strict : abs_ecol (emb_ecol d values strict) = ECol d values strict.
Proof.
  unfold abs_ecol, emb_ecol. cbn [ga_ecolumn_Column_data ga_ecolumn_Column_values ga_ecolumn_Column_strict].
  rewrite map_map. f_equal. rewrite <- (map_id d) at 2. apply map_ext. intro; apply N2Z.id.
Qed.

Lemma ga_ecolumn_Subset_eq (d : list N) values strict (ix : list nat) :
  ga_ecolumn_Column_Subset abs_ecol (emb_ecol d values strict) (ints ix) = m_col_Subset (ECol d values strict) (ints ix).
Proof.
  unfold ga_ecolumn_Column_Subset. rewrite ga_ecolumn_subset_eq, m_col_Subset_ints. cbn [col_subset].
  destruct (omap (idx d) ix); cbn [omap1 obind]; [|reflexivity|reflexivity]. now rewrite abs_emb_ecol.
Qed.

(* col.Subset / col.Aggregate dispatched on the column type to the translated functions of the column packages;
   the string column (and the Aggregate of the enum column) stay on the model's functions *)
Definition tr_col_Subset (fz : N) (c : coldata) (ix : list Z) : outcome (option coldata) :=
  match c with
  | ICol d => ga_icolumn_Column_Subset ICol (ga_mk_icolumn_Column d) ix
  | FCol d => ga_fcolumn_Column_Subset FCol fz (ga_mk_fcolumn_Column d) ix
  | BCol d => ga_bcolumn_Column_Subset BCol (ga_mk_bcolumn_Column d) ix
  | ECol d values strict => ga_ecolumn_Column_Subset abs_ecol (emb_ecol d values strict) ix
  | SCol _ => m_col_Subset c ix
  end.

Definition tr_col_Aggregate (ft : float_table) (fzero : N) (fadd fdiv : N -> N -> N) (fofint : Z -> N)
  (c : coldata) (ixs : list (list Z)) (fn : aggfn) : outcome (option coldata * option unit) :=
  match c with
  | ICol d => ga_icolumn_Column_Aggregate m_new_error m_fn_cases ICol m_fnName m_fn_text (ga_mk_icolumn_Column d) ixs fn
  | FCol d => ga_fcolumn_Column_Aggregate m_new_error m_fn_cases_float FCol m_fnName fzero fadd fdiv Aggregate.f_max
                Aggregate.f_min fofint m_fn_text (ga_mk_fcolumn_Column d) ixs fn
  | BCol d => ga_bcolumn_Column_Aggregate m_new_error m_fn_cases_bool BCol m_fnName m_fn_text (ga_mk_bcolumn_Column d) ixs fn
  | _ => m_col_Aggregate ft c ixs fn
  end.

Lemma tr_col_Subset_eq fz c firsts : tr_col_Subset fz c (ints firsts) = omap1 Some (col_subset c firsts).
Proof.
  rewrite <- m_col_Subset_ints. destruct c as [d|d|d|d|d values strict]; cbn [tr_col_Subset].
  - apply ga_icolumn_Subset_eq.
  - apply ga_fcolumn_Subset_eq.
  - apply ga_bcolumn_Subset_eq.
  - reflexivity.
  - apply ga_ecolumn_Subset_eq.
Qed.

(* the float premise of the composition: for every float column of the grouper and every "sum" / "avg"
   aggregation, the oracle table holds the results of the float arithmetic the code is instantiated with *)
Definition float_oracle_ok (ft : float_table) (fzero : N) (fadd fdiv : N -> N -> N) (fofint : Z -> N)
  (g : grouper) (aggs : list aggregation) : Prop :=
  forall d a, In (FCol d) (map snd (gcols g)) -> In a aggs ->
    (agfn a = GName gofn_sum -> oracle_agrees ft gofn_sum (f_sum_spec fzero fadd) d (gindices g)) /\
    (agfn a = GName gofn_avg -> oracle_agrees ft gofn_avg (f_avg_spec fzero fadd fdiv fofint) d (gindices g)).

Lemma ga_Grouper_Aggregate_composed (ft : float_table) (fzero : N) (fadd fdiv : N -> N -> N) (fofint : Z -> N)
  (g : grouper) (aggs : list aggregation) :
  Z.of_nat (length (gindices g)) < 4294967296 ->
  float_oracle_ok ft fzero fadd fdiv fofint g aggs ->
  ga_Grouper_Aggregate m_new_error m_propagate m_unknownCol m_fn_eq_string (tr_col_Subset fzero)
    (tr_col_Aggregate ft fzero fadd fdiv fofint) m_icolumn_New (emb_grouper g) (map emb_agg aggs)
  = omap1 emb_frame (aggregate ft g aggs).
Proof.
  intros Hn Hf. apply (ga_Grouper_Aggregate_gen ft g); [|exact Hn|].
  - intros c firsts _. apply tr_col_Subset_eq.
  - intros c a Hc Ha _. unfold agg_pair. rewrite <- m_col_Aggregate_ints.
    destruct c as [d|d|d|d|d values strict]; cbn [tr_col_Aggregate]; try reflexivity.
    + apply ga_icolumn_Aggregate_eq.
    + destruct (Hf d a Hc Ha) as [Hs Hav]. apply ga_fcolumn_Aggregate_eq; assumption.
    + apply ga_bcolumn_Aggregate_eq.
Qed.

(* ================================================================== wave 11: string / enum Aggregate, string Subset *)

(* ------------------------------------------------------------------ an scolumn.Column read back as a model column *)

(* one optional string per pointer: what bytesAt answers at that row *)
Definition abs_scol_cell (x : outcome (bytes * bool)) : option bytes :=
  match x with Ok (s, false) => Some s | _ => None end.
Definition abs_scol (c : ga_scolumn_Column) : coldata :=
  SCol (map (fun i => abs_scol_cell (ga_scolumn_Column_bytesAt c (Z.of_nat i)))
            (seq 0 (length (ga_scolumn_Column_pointers c)))).

Lemma map_seq_nth_error {T} (d : list T) : forall (f : nat -> T),
  (forall i x, nth_error d i = Some x -> f i = x) -> map f (seq 0 (length d)) = d.
Proof.
  induction d as [|x d IH]; intros f H; cbn [length seq map]; [reflexivity|].
  rewrite (H 0%nat x eq_refl). f_equal. rewrite <- seq_shift, map_map. apply IH.
  intros i y Hy. apply (H (S i) y Hy).
Qed.

Lemma abs_scol_rep (c : ga_scolumn_Column) (d : list (option bytes)) :
  rep_scol c d -> length (ga_scolumn_Column_pointers c) = length d -> abs_scol c = SCol d.
Proof.
  intros Hrep Hlen. unfold abs_scol. rewrite Hlen. f_equal. apply map_seq_nth_error.
  intros i x Hx. rewrite Hrep, Hx. destruct x; reflexivity.
Qed.

(* scolumn.New(strs) read back is the string column of strs (within the limits of pointer.go) *)
Lemma abs_scol_New (strs : list (option bytes)) :
  strs_small strs 0 -> abs_scol (ga_mk_scolumn_Column (layout strs 0) (bytes_of strs)) = SCol strs.
Proof.
  intro H. apply abs_scol_rep; [exact (rep_scol_New strs H)|]. cbn [ga_scolumn_Column_pointers]. apply layout_length.
Qed.

(* ------------------------------------------------------------------ scolumn / ecolumn: Column.Aggregate *)

Definition cell_str (c : cell) : outcome (option bytes) := match c with CStr s => Ok s | _ => Panic end.
Lemma cell_str_nofail c : cell_str c <> Fail.
Proof. destruct c; discriminate. Qed.
Lemma col_of_cells_string cells : col_of_cells TString cells = (do d <- omap cell_str cells; Ok (SCol d)).
Proof. reflexivity. Qed.

Notation cells_str := (cells_T CStr cell_str).

(* the type switch of scolumn / ecolumn on the model's function values: a string, a func([]*string) *string (a user
   table over string cells; a result cell that is not a string is a model fault), other *)
Definition m_fn_cases_string (fn : aggfn) : ga_fncase (option bytes) :=
  match fn with
  | GName n => ga_FnString n
  | GUser TString tbl => ga_FnFunc (cells_str (user_apply tbl))
  | _ => ga_FnOther
  end.

Lemma agg_vals_SCol d g : agg_vals (SCol d) g = omap1 (map CStr) (omap (idx d) g).
Proof.
  unfold agg_vals. induction g as [|p g IH]; cbn [omap omap1 map]; [reflexivity|].
  unfold agg_cell_at at 1. cbn [cell_at]. destruct (idx d p); cbn [obind]; [|reflexivity|reflexivity].
  rewrite IH. destruct (omap (idx d) g); reflexivity.
Qed.

(* the enum column hands the function c.values[v] (nil for the null rank) *)
Definition enum_ptr (d : list N) (values : list bytes) (p : nat) : outcome (option bytes) :=
  do r <- idx d p; enum_string values r.

Lemma agg_vals_ECol d values strict g :
  agg_vals (ECol d values strict) g = omap1 (map CStr) (omap (enum_ptr d values) g).
Proof.
  unfold agg_vals. induction g as [|p g IH]; cbn [omap omap1 map]; [reflexivity|].
  unfold agg_cell_at at 1, enum_ptr at 1. cbn [cell_at]. destruct (idx d p) as [r| |]; cbn [obind]; [|reflexivity|reflexivity].
  destruct (enum_string values r); cbn [obind]; [|reflexivity|reflexivity].
  rewrite IH. destruct (omap (enum_ptr d values) g); reflexivity.
Qed.

Lemma enum_ptr_nofail d values p : enum_ptr d values p <> Fail.
Proof.
  unfold enum_ptr. apply obind_nofail; [apply idx_nofail|]. intro r. unfold enum_string.
  destruct (enum_is_null r); [discriminate|]. apply obind_nofail; [apply idx_nofail|discriminate].
Qed.

(* agg_core for a column whose cells are READ through rd and whose result is a column of another constructor
   (the enum column: ranks in, strings out) *)
Section AggCore2.
  Context {T : Type} (inj : T -> cell) (proj : cell -> outcome T) (mkcol : list T -> coldata) (ct : ctype).
  Variable cin : coldata.
  Variable rd : nat -> outcome T.
  Hypothesis Hproj_nf : forall c, proj c <> Fail.
  Hypothesis Hrd_nf : forall p, rd p <> Fail.
  Hypothesis Hvals : forall g, agg_vals cin g = omap1 (map inj) (omap rd g).
  Hypothesis Hcol : forall cells, col_of_cells ct cells = (do d <- omap proj cells; Ok (mkcol d)).

  Definition group_cell2 (fnc : list cell -> outcome cell) (g : list nat) : outcome cell :=
    do vals <- agg_vals cin g; fnc vals.

  Lemma group_cell2_nofail fnc g : (forall vals, fnc vals <> Fail) -> group_cell2 fnc g <> Fail.
  Proof.
    intro H. unfold group_cell2. apply obind_nofail; [|exact H]. rewrite Hvals.
    pose proof (omap_not_fail rd g (fun x _ => Hrd_nf x)) as Hn.
    destruct (omap rd g); cbn [omap1]; congruence.
  Qed.

  Lemma agg_core2 (fz : list T -> outcome T) (fnc : list cell -> outcome cell) (gs : list (list nat)) :
    (forall vals, fz vals = cells_T inj proj fnc vals) ->
    (forall vals, fnc vals <> Fail) ->
    (do data <- omap (fun g => do vals <- omap rd g; fz vals) gs; Ok (Some (mkcol data), @None unit))
    = agg_pair (do cells <- omap (group_cell2 fnc) gs; col_of_cells ct cells).
  Proof.
    intros HR Hnf.
    rewrite (omap_ext _ (fun g => do c <- group_cell2 fnc g; proj c) gs).
    2:{ intros g. unfold group_cell2. rewrite Hvals.
        destruct (omap rd g) as [vals| |] eqn:E; cbn [omap1 obind]; [|reflexivity|reflexivity]. apply HR. }
    rewrite <- (omap_fuse (group_cell2 fnc) proj gs (fun g => group_cell2_nofail fnc g Hnf) Hproj_nf).
    pose proof (omap_not_fail (group_cell2 fnc) gs (fun g _ => group_cell2_nofail fnc g Hnf)) as Hn.
    destruct (omap (group_cell2 fnc) gs) as [cells| |]; cbn [obind omap1 agg_pair]; [|congruence|reflexivity].
    rewrite Hcol. pose proof (omap_not_fail proj cells (fun c _ => Hproj_nf c)) as Hc.
    destruct (omap proj cells); cbn [obind omap1 agg_pair app]; [reflexivity|congruence|reflexivity].
  Qed.
End AggCore2.

Lemma omap1_app_nil {T} (x : outcome (list T)) : omap1 (app []) x = x.
Proof. destruct x; reflexivity. Qed.

(* the loop of Aggregate: data = append(data, t(c.stringSlice(ix))) — one fresh slice per group *)
Lemma ga_s_Aggregate_loop_eq (c : ga_scolumn_Column) (t : list (option bytes) -> outcome (option bytes))
  (l : list (list Z)) : forall data,
  ga_scolumn_Column_Aggregate_loop1 l c t data
  = omap1 (app data) (omap (fun ix => do vals <- ga_scolumn_Column_stringSlice c ix; t vals) l).
Proof.
  induction l as [|ix l IH]; intro data; cbn [ga_scolumn_Column_Aggregate_loop1 omap omap1].
  - now rewrite app_nil_r.
  - destruct (ga_scolumn_Column_stringSlice c ix) as [vals| |]; cbn [obind omap1]; [|reflexivity|reflexivity].
    destruct (t vals) as [r| |]; cbn [obind omap1]; [|reflexivity|reflexivity].
    rewrite IH. destruct (omap _ l); cbn [omap1 obind]; [|reflexivity|reflexivity]. now rewrite <- app_assoc.
Qed.

Lemma ga_e_Aggregate_loop_eq (c : ga_ecolumn_Column) (t : list (option bytes) -> outcome (option bytes))
  (l : list (list Z)) : forall data,
  ga_ecolumn_Column_Aggregate_loop1 l c t data
  = omap1 (app data) (omap (fun ix => do vals <- ga_ecolumn_Column_stringSlice c ix; t vals) l).
Proof.
  induction l as [|ix l IH]; intro data; cbn [ga_ecolumn_Column_Aggregate_loop1 omap omap1].
  - now rewrite app_nil_r.
  - destruct (ga_ecolumn_Column_stringSlice c ix) as [vals| |]; cbn [obind omap1]; [|reflexivity|reflexivity].
    destruct (t vals) as [r| |]; cbn [obind omap1]; [|reflexivity|reflexivity].
    rewrite IH. destruct (omap _ l); cbn [omap1 obind]; [|reflexivity|reflexivity]. now rewrite <- app_assoc.
Qed.

(* the limits of pointer.go on the strings the function returned: the premise of both Aggregate theorems *)
Definition agg_result_small (ft : float_table) (c : coldata) (gs : list (list nat)) (fn : aggfn) : Prop :=
  forall r, col_aggregate ft c gs fn = Ok (SCol r) -> strs_small r 0.

(* New(data) read back, under the premise on the result *)
Lemma agg_New_tail (X : outcome (list (option bytes))) (R : outcome coldata) :
  (do data <- X; Ok (Some (SCol data), @None unit)) = agg_pair R ->
  (forall r, R = Ok (SCol r) -> strs_small r 0) ->
  (do data <- X; do t4 <- ga_scolumn_New data; Ok (Some (abs_scol t4), @None unit)) = agg_pair R.
Proof.
  intros H Hsmall. destruct X as [data| |]; cbn [obind] in *; [|exact H|exact H].
  rewrite ga_scolumn_New_eq. cbn [obind]. rewrite abs_scol_New; [exact H|].
  apply Hsmall. destruct R as [r| |]; cbn [agg_pair] in H; [|discriminate|discriminate]. congruence.
Qed.

Lemma ga_scolumn_Aggregate_eq (ft : float_table) (c : ga_scolumn_Column) (d : list (option bytes))
  (gs : list (list nat)) (fn : aggfn) :
  rep_scol c d -> agg_result_small ft (SCol d) gs fn ->
  ga_scolumn_Column_Aggregate m_new_error m_fn_cases_string m_fn_text abs_scol c (map ints gs) fn
  = m_col_Aggregate ft (SCol d) (map ints gs) fn.
Proof.
  intros Hrep Hsmall. rewrite m_col_Aggregate_ints. fold (agg_pair (col_aggregate ft (SCol d) gs fn)).
  unfold ga_scolumn_Column_Aggregate. unfold agg_result_small in Hsmall. revert Hsmall.
  unfold col_aggregate, resolve_fn.
  change (col_type (SCol d)) with TString. change (col_ftype (SCol d)) with TString. change (agg_table_of TString) with (@nil (bytes * bytes)).
  pose proof (agg_core CStr cell_str SCol TString cell_str_nofail agg_vals_SCol col_of_cells_string d) as Core.
  destruct fn as [n|t tbl|]; cbn [m_fn_cases_string assocb]; intro Hsmall.
  - reflexivity.
  - destruct t; cbn [ctype_eqb andb negb obind agg_pair]; try reflexivity.
    cbn [ctype_eqb andb negb obind] in Hsmall.
    rewrite gap_make0 by lia. cbn [obind]. rewrite ga_s_Aggregate_loop_eq.
    apply agg_New_tail; [|exact Hsmall].
    etransitivity; [|exact (Core (cells_str (user_apply tbl)) (user_apply tbl) gs (fun _ _ _ _ => eq_refl) (user_apply_nofail tbl))].
    f_equal. f_equal. rewrite !omap_map. apply omap_ext. intro g. unfold gv.
    now rewrite (ga_s_stringSlice_eq c d g Hrep), ga_index_ints.
  - reflexivity.
Qed.

Lemma ga_ecolumn_Aggregate_eq (ft : float_table) (d : list N) (values : list bytes) (strict : bool)
  (gs : list (list nat)) (fn : aggfn) :
  agg_result_small ft (ECol d values strict) gs fn ->
  ga_ecolumn_Column_Aggregate m_new_error m_fn_cases_string m_fn_text abs_scol (emb_ecol d values strict) (map ints gs) fn
  = m_col_Aggregate ft (ECol d values strict) (map ints gs) fn.
Proof.
  intros Hsmall. rewrite m_col_Aggregate_ints. fold (agg_pair (col_aggregate ft (ECol d values strict) gs fn)).
  unfold ga_ecolumn_Column_Aggregate. unfold agg_result_small in Hsmall. revert Hsmall.
  unfold col_aggregate, resolve_fn.
  change (col_type (ECol d values strict)) with TEnum. change (col_ftype (ECol d values strict)) with TString.
  change (agg_table_of TEnum) with (@nil (bytes * bytes)).
  pose proof (agg_core2 CStr cell_str SCol TString (ECol d values strict) (enum_ptr d values) cell_str_nofail
                (enum_ptr_nofail d values) (agg_vals_ECol d values strict) col_of_cells_string) as Core.
  destruct fn as [n|t tbl|]; cbn [m_fn_cases_string assocb]; intro Hsmall.
  - reflexivity.
  - destruct t; cbn [ctype_eqb andb negb obind agg_pair]; try reflexivity.
    cbn [ctype_eqb andb negb obind] in Hsmall.
    rewrite gap_make0 by lia. cbn [obind]. rewrite ga_e_Aggregate_loop_eq.
    apply agg_New_tail; [|exact Hsmall].
    etransitivity; [|exact (Core (cells_str (user_apply tbl)) (user_apply tbl) gs (fun _ => eq_refl) (user_apply_nofail tbl))].
    f_equal. rewrite omap_map.
    rewrite (omap_ext _ (fun g => do vals <- omap (enum_ptr d values) g; cells_str (user_apply tbl) vals) gs).
    2:{ intro g. now rewrite ga_e_stringSlice_eq. }
    apply omap1_app_nil.
  - reflexivity.
Qed.

(* ------------------------------------------------------------------ scolumn: Column.subset / Column.Subset *)

(* bytesAt is the cell of the pointer at that row *)
Definition ptr_cell (D : bytes) (p : Z) : outcome (bytes * bool) :=
  if gf_strings_Pointer_IsNull p then Ok ([], true)
  else do t <- ga_slice D (gf_strings_Pointer_Offset p) (gf_strings_Pointer_Offset p + gf_strings_Pointer_Len p);
       Ok (t, false).

Lemma ga_bytesAt_ptr_cell (c : ga_scolumn_Column) (i : Z) :
  ga_scolumn_Column_bytesAt c i
  = (do p <- ga_index (ga_scolumn_Column_pointers c) i; ptr_cell (ga_scolumn_Column_data c) p).
Proof. reflexivity. Qed.

(* THE INVARIANT of subset relative to rep_scol: the pointers of a subset are the layout of its strings EXCEPT that
   the pointer of a null row carries the length field of the source pointer (ls), which no reader looks at *)
Fixpoint layoutL (ls : list Z) (strs : list (option bytes)) (off : Z) : list Z :=
  match strs with
  | [] => []
  | None :: r => gf_strings_NewPointer off (hd 0 ls) true :: layoutL (tl ls) r off
  | Some s :: r => gf_strings_NewPointer off (Z.of_nat (length s)) false :: layoutL (tl ls) r (off + Z.of_nat (length s))
  end.

Lemma layoutL_length strs : forall ls off, length (layoutL ls strs off) = length strs.
Proof. induction strs as [|[s|] r IH]; intros ls off; cbn [layoutL length]; [reflexivity| |]; now rewrite IH. Qed.

Definition lens_ok (ls : list Z) : Prop := Forall (fun x => 0 <= x < 2^28) ls.

Lemma lens_ok_hd ls : lens_ok ls -> 0 <= hd 0 ls < 2^28.
Proof. intro H. destruct ls as [|x ls]; cbn [hd]; [lia|]. now inversion H. Qed.
Lemma lens_ok_tl ls : lens_ok ls -> lens_ok (tl ls).
Proof. intro H. destruct ls as [|x ls]; cbn [tl]; [exact H|]. now inversion H. Qed.

Lemma rep_layoutL (l : list (option bytes)) : forall (ls : list Z) (pre rest : bytes),
  strs_small l (Z.of_nat (length pre)) -> lens_ok ls ->
  forall i : nat,
  ga_scolumn_Column_bytesAt (ga_mk_scolumn_Column (layoutL ls l (Z.of_nat (length pre))) (pre ++ bytes_of l ++ rest)) (Z.of_nat i)
  = scol_cell (nth_error l i).
Proof.
  induction l as [|[s|] r IH]; intros ls pre rest [Hoff Hall] Hls i.
  - cbn [layoutL]. unfold ga_scolumn_Column_bytesAt. cbn [ga_scolumn_Column_pointers]. rewrite gap_index.
    destruct i; reflexivity.
  - inversion Hall as [|? ? Hs Hr]; subst. cbn [str_bytes] in Hs.
    unfold bytes_of in *. cbn [map concat str_bytes] in *. rewrite app_length in Hoff.
    cbn [layoutL]. destruct i as [|i].
    + unfold ga_scolumn_Column_bytesAt. cbn [ga_scolumn_Column_pointers ga_scolumn_Column_data].
      change (Z.of_nat 0) with 0. cbn [ga_index Z.ltb Z.compare idx nth_error Z.to_nat of_option obind].
      destruct (gap_pointer_roundtrip (Z.of_nat (length pre)) (Z.of_nat (length s)) false) as (H1 & H2 & H3); [lia|lia|].
      rewrite H1, H2, H3. rewrite <- app_assoc. rewrite gap_slice_mid. reflexivity.
    + rewrite gap_bytesAt_cons. cbn [nth_error].
      replace (Z.of_nat (length pre) + Z.of_nat (length s)) with (Z.of_nat (length (pre ++ s))) by (rewrite app_length; lia).
      replace (pre ++ (s ++ concat (map str_bytes r)) ++ rest) with ((pre ++ s) ++ concat (map str_bytes r) ++ rest)
        by (now rewrite <- !app_assoc).
      apply (IH (tl ls) (pre ++ s) rest); [|apply lens_ok_tl; exact Hls].
      split; [rewrite app_length; unfold bytes_of; lia|exact Hr].
  - inversion Hall as [|? ? Hs Hr]; subst.
    unfold bytes_of in *. cbn [map concat str_bytes app] in *.
    cbn [layoutL]. destruct i as [|i].
    + unfold ga_scolumn_Column_bytesAt. cbn [ga_scolumn_Column_pointers ga_scolumn_Column_data].
      change (Z.of_nat 0) with 0. cbn [ga_index Z.ltb Z.compare idx nth_error Z.to_nat of_option obind].
      pose proof (lens_ok_hd ls Hls) as Hhd.
      destruct (gap_pointer_roundtrip (Z.of_nat (length pre)) (hd 0 ls) true) as (H1 & H2 & H3); [lia|lia|].
      rewrite H3. reflexivity.
    + rewrite gap_bytesAt_cons. cbn [nth_error]. apply (IH (tl ls) pre rest); [|apply lens_ok_tl; exact Hls].
      split; [unfold bytes_of; lia|exact Hr].
Qed.

(* Len() of ANY pointer value is a 28 bit number *)
Lemma gap_pointer_len_range (p : Z) : 0 <= gf_strings_Pointer_Len p < 2^28.
Proof.
  unfold gf_strings_Pointer_Len. change 268435455 with (Z.ones 28). rewrite Z.land_ones by lia.
  apply Z.mod_pos_bound. lia.
Qed.

Lemma gap_slice_length {T} (D : list T) (lo n : Z) (t : list T) :
  ga_slice D lo (lo + n) = Ok t -> n = Z.of_nat (length t).
Proof.
  unfold ga_slice. destruct ((lo <? 0) || (lo + n <? lo) || (Z.of_nat (length D) <? lo + n)) eqn:E; [discriminate|].
  intro H. inversion H; subst t. rewrite firstn_length, skipn_length. lia.
Qed.

(* the length fields of the source pointers at the positions of the index *)
Definition lens (c : ga_scolumn_Column) (l : list nat) : list Z :=
  map (fun p => gf_strings_Pointer_Len (nth p (ga_scolumn_Column_pointers c) 0)) l.

Lemma lens_lens_ok c l : lens_ok (lens c l).
Proof. unfold lens_ok, lens. apply Forall_forall. intros x Hx. apply in_map_iff in Hx. destruct Hx as (p & <- & _). apply gap_pointer_len_range. Qed.

Lemma ga_s_subset_loop_eq (c : ga_scolumn_Column) (d : list (option bytes)) (Hrep : rep_scol c d) (l : list nat) :
  forall (pre rest : list Z) data off,
  length rest = length l ->
  ga_scolumn_Column_subset_loop1 (ints l) (Z.of_nat (length pre)) c data (pre ++ rest) off
  = omap1 (fun r => (data ++ bytes_of r, pre ++ layoutL (lens c l) r off, off + Z.of_nat (length (bytes_of r))))
          (omap (idx d) l).
Proof.
  induction l as [|p l IH]; intros pre rest data off Hlen.
  - destruct rest; [|discriminate]. cbn [ints map ga_scolumn_Column_subset_loop1 omap omap1 bytes_of concat layoutL length Z.of_nat].
    now rewrite !app_nil_r, Z.add_0_r.
  - destruct rest as [|r0 rest]; [discriminate|]. cbn [ints map ga_scolumn_Column_subset_loop1 omap]. fold (ints l).
    pose proof (Hrep p) as Hp. rewrite ga_bytesAt_ptr_cell in Hp.
    rewrite gap_index in *. unfold idx at 1. unfold idx at 1 in Hp.
    destruct (nth_error (ga_scolumn_Column_pointers c) p) as [q|] eqn:Eq; cbn [of_option obind] in *.
    2:{ unfold idx at 1. destruct (nth_error d p) as [[s|]|]; cbn [scol_cell] in Hp; try discriminate. reflexivity. }
    rewrite gap_update_mid. cbn [obind]. rewrite gap_succ.
    assert (Enth : nth p (ga_scolumn_Column_pointers c) 0 = q) by (apply nth_error_nth; exact Eq).
    unfold ptr_cell in Hp. destruct (gf_strings_Pointer_IsNull q) eqn:En; cbn [negb obind].
    + (* a null row: no bytes, the length field of the source pointer *)
      unfold idx at 1. destruct (nth_error d p) as [[s|]|]; cbn [scol_cell] in Hp; try discriminate. cbn [of_option obind].
      replace (S (length pre)) with (length (pre ++ [gf_strings_NewPointer off (gf_strings_Pointer_Len q) true]))
        by (rewrite app_length; cbn; lia).
      rewrite IH by (cbn in Hlen; lia).
      destruct (omap (idx d) l) as [r| |]; cbn [omap1 obind]; [|reflexivity|reflexivity].
      unfold bytes_of. cbn [map concat str_bytes app lens layoutL hd tl]. fold (lens c l). rewrite Enth.
      now rewrite <- !app_assoc.
    + destruct (ga_slice (ga_scolumn_Column_data c) (gf_strings_Pointer_Offset q)
                  (gf_strings_Pointer_Offset q + gf_strings_Pointer_Len q)) as [t| |] eqn:Es; cbn [obind] in *.
      * pose proof (gap_slice_length _ _ _ _ Es) as Hl.
        unfold idx at 1. destruct (nth_error d p) as [[s|]|]; cbn [scol_cell] in Hp; try discriminate. cbn [of_option obind].
        assert (s = t) by congruence. subst s. rewrite Hl.
        replace (S (length pre)) with (length (pre ++ [gf_strings_NewPointer off (Z.of_nat (length t)) false]))
          by (rewrite app_length; cbn; lia).
        rewrite IH by (cbn in Hlen; lia).
        destruct (omap (idx d) l) as [r| |]; cbn [omap1 obind]; [|reflexivity|reflexivity].
        unfold bytes_of. cbn [map concat str_bytes app lens layoutL hd tl]. fold (lens c l).
        rewrite <- !app_assoc, app_length. cbn [app]. f_equal. f_equal. lia.
      * destruct (nth_error d p) as [[s|]|]; cbn [scol_cell] in Hp; discriminate.
      * unfold idx at 1. destruct (nth_error d p) as [[s|]|]; cbn [scol_cell] in Hp; try discriminate. reflexivity.
Qed.

(* the struct subset builds, explicitly *)
Definition sub_scol (c : ga_scolumn_Column) (ix : list nat) (r : list (option bytes)) : ga_scolumn_Column :=
  ga_mk_scolumn_Column (layoutL (lens c ix) r 0) (bytes_of r).

Lemma ga_scolumn_subset_eq (c : ga_scolumn_Column) (d : list (option bytes)) (ix : list nat) :
  rep_scol c d ->
  ga_scolumn_Column_subset c (ints ix) = omap1 (sub_scol c ix) (omap (idx d) ix).
Proof.
  intro Hrep. unfold ga_scolumn_Column_subset. rewrite gap_make0 by lia. cbn [obind].
  unfold ints at 1 2. rewrite map_length, gap_make. cbn [obind]. fold (ints ix).
  pose proof (ga_s_subset_loop_eq c d Hrep ix [] (repeat 0 (length ix)) [] 0 (repeat_length _ _)) as H.
  cbn [length Z.of_nat app] in H. rewrite H.
  destruct (omap (idx d) ix); reflexivity.
Qed.

Lemma rep_sub_scol (c : ga_scolumn_Column) (ix : list nat) (r : list (option bytes)) :
  strs_small r 0 -> rep_scol (sub_scol c ix r) r.
Proof.
  intros H i. pose proof (rep_layoutL r (lens c ix) [] [] H (lens_lens_ok c ix) i) as R. cbn [length Z.of_nat app] in R.
  rewrite app_nil_r in R. exact R.
Qed.

(* the limits of pointer.go on the strings of the subset *)
Definition subset_small (d : list (option bytes)) (ix : list nat) : Prop :=
  forall r, omap (idx d) ix = Ok r -> strs_small r 0.

(* Column.subset: panics exactly when the model does, else a struct that represents the model's subset *)
Lemma ga_scolumn_subset_rep (c : ga_scolumn_Column) (d : list (option bytes)) (ix : list nat) :
  rep_scol c d -> subset_small d ix ->
  match col_subset (SCol d) ix with
  | Ok (SCol r) => exists c', ga_scolumn_Column_subset c (ints ix) = Ok c' /\ rep_scol c' r
                              /\ length (ga_scolumn_Column_pointers c') = length r
  | Ok _ => False
  | Fail => False
  | Panic => ga_scolumn_Column_subset c (ints ix) = Panic
  end.
Proof.
  intros Hrep Hsmall. rewrite (ga_scolumn_subset_eq c d ix Hrep). cbn [col_subset].
  pose proof (omap_not_fail (idx d) ix (fun x _ => idx_nofail d x)) as Hn.
  destruct (omap (idx d) ix) as [r| |] eqn:E; cbn [obind omap1]; [|congruence|reflexivity].
  exists (sub_scol c ix r). split; [reflexivity|]. split; [apply rep_sub_scol; apply Hsmall; exact E|].
  cbn [sub_scol ga_scolumn_Column_pointers]. apply layoutL_length.
Qed.

(* Column.Subset with the result read back: the m_col_Subset of the frame level *)
Lemma ga_scolumn_Subset_eq (c : ga_scolumn_Column) (d : list (option bytes)) (ix : list nat) :
  rep_scol c d -> subset_small d ix ->
  ga_scolumn_Column_Subset abs_scol c (ints ix) = m_col_Subset (SCol d) (ints ix).
Proof.
  intros Hrep Hsmall. unfold ga_scolumn_Column_Subset. rewrite (ga_scolumn_subset_eq c d ix Hrep), m_col_Subset_ints.
  cbn [col_subset]. destruct (omap (idx d) ix) as [r| |] eqn:E; cbn [omap1 obind]; [|reflexivity|reflexivity].
  rewrite (abs_scol_rep (sub_scol c ix r) r); [reflexivity|apply rep_sub_scol; apply Hsmall; exact E|].
  cbn [sub_scol ga_scolumn_Column_pointers]. apply layoutL_length.
Qed.

(* ------------------------------------------------------------------ Grouper.Aggregate over frames with string and
   enum columns: the composition with col.Subset asked only at the first elements of the groups *)

Section Compose2.
  Variable g : grouper.
  Variable colS : coldata -> list Z -> outcome (option coldata).
  Variable firsts : list nat.
  Hypothesis HS : forall c, In c (map snd (gcols g)) -> colS c (ints firsts) = omap1 Some (col_subset c firsts).

  Lemma ga_Aggregate_loop2_at (keys : list bytes) : forall acc,
    ga_Grouper_Aggregate_loop2 colS keys (Z.of_nat (length acc)) (emb_grouper g) (ints firsts)
      (emb_map acc) (emb_cols acc)
    = omap1 (fun kc => (emb_map (acc ++ kc), emb_cols (acc ++ kc))) (omap (key_col g firsts) keys).
  Proof.
    induction keys as [|n keys IH]; intro acc; cbn [ga_Grouper_Aggregate_loop2 omap omap1].
    - now rewrite app_nil_r.
    - cbn [emb_grouper ga_Grouper_columnsByName]. rewrite gap_map_get. unfold key_col at 1.
      rewrite lookup_col_gframe.
      destruct (lookup_from n (gcols g) 0 None) as [[p c]|] eqn:El; cbn [fst option_map of_option obind snd];
        [|reflexivity].
      ncsimpl. cbn [ga_deref obind]. rewrite HS.
      2:{ destruct (lookup_from_in _ _ _ _ _ _ El) as [H|H]; [exact H|discriminate]. }
      destruct (col_subset c firsts) as [s| |]; cbn [omap1 obind]; [|reflexivity|reflexivity].
      ncsimpl. rewrite emb_map_snoc, emb_cols_snoc, gap_succ.
      replace (S (length acc)) with (length (acc ++ [(n, s)])) by (rewrite app_length; cbn; lia).
      rewrite IH. destruct (omap (key_col g firsts) keys); cbn [omap1 obind]; [|reflexivity|reflexivity].
      now rewrite <- app_assoc.
  Qed.
End Compose2.

Definition group_firsts (g : grouper) : outcome (list nat) := omap (fun ix => idx ix 0%nat) (gindices g).

Lemma ga_Grouper_Aggregate_gen_at (ft : float_table) (g : grouper)
  (colS : coldata -> list Z -> outcome (option coldata))
  (colA : coldata -> list (list Z) -> aggfn -> outcome (option coldata * option unit)) (aggs : list aggregation) :
  (forall firsts c, group_firsts g = Ok firsts -> In c (map snd (gcols g)) ->
     colS c (ints firsts) = omap1 Some (col_subset c firsts)) ->
  Z.of_nat (length (gindices g)) < 4294967296 ->
  (forall c a, In c (map snd (gcols g)) -> In a aggs -> is_count (agfn a) = false ->
     colA c (map ints (gindices g)) (agfn a) = agg_pair (col_aggregate ft c (gindices g) (agfn a))) ->
  ga_Grouper_Aggregate m_new_error m_propagate m_unknownCol m_fn_eq_string colS colA
    m_icolumn_New (emb_grouper g) (map emb_agg aggs)
  = omap1 emb_frame (aggregate ft g aggs).
Proof.
  intros HS Hn HA. unfold ga_Grouper_Aggregate, aggregate.
  cbn [emb_grouper ga_Grouper_Err ga_Grouper_indices ga_Grouper_groupedColumns]. rewrite emb_err_nil.
  destruct (gerr g); [reflexivity|].
  rewrite map_length, gap_make. cbn [obind]. rewrite ga_Aggregate_firsts, obind_omap1.
  unfold group_firsts in HS.
  destruct (omap (fun ix => idx ix 0%nat) (gindices g)) as [firsts| |]; cbn [obind omap1]; [|reflexivity|reflexivity].
  rewrite gap_make0 by lia. cbn [obind].
  pose proof (ga_Aggregate_loop2_at g colS firsts (fun c Hc => HS firsts c eq_refl Hc) (gkeys g) []) as H2.
  cbn [length Z.of_nat app] in H2.
  change (emb_map []) with (@nil (bytes * NC)) in H2. change (emb_cols []) with (@nil NC) in H2.
  fold (emb_grouper g). rewrite H2. clear H2.
  change (fun n => do c <- of_option (lookup_col (gframe g) n); do s <- col_subset c firsts; Ok (n, s))
    with (key_col g firsts).
  destruct (omap (key_col g firsts) (gkeys g)) as [keycols| |]; cbn [omap1 obind]; [|reflexivity|reflexivity].
  rewrite (ga_Aggregate_loop4_gen ft g colA aggs Hn HA).
  destruct (ofold (agg_step ft g) aggs keycols); reflexivity.
Qed.

(* col.Subset / col.Aggregate dispatched on the column type to the TRANSLATED functions of all five column
   packages; srep d is the Go struct (pointers + bytes) that holds the string column d *)
Definition tr_col_Subset_all (srep : list (option bytes) -> ga_scolumn_Column) (fz : N) (c : coldata) (ix : list Z)
  : outcome (option coldata) :=
  match c with
  | SCol d => ga_scolumn_Column_Subset abs_scol (srep d) ix
  | _ => tr_col_Subset fz c ix
  end.

Definition tr_col_Aggregate_all (srep : list (option bytes) -> ga_scolumn_Column) (ft : float_table) (fzero : N)
  (fadd fdiv : N -> N -> N) (fofint : Z -> N) (c : coldata) (ixs : list (list Z)) (fn : aggfn)
  : outcome (option coldata * option unit) :=
  match c with
  | SCol d => ga_scolumn_Column_Aggregate m_new_error m_fn_cases_string m_fn_text abs_scol (srep d) ixs fn
  | ECol d values strict =>
      ga_ecolumn_Column_Aggregate m_new_error m_fn_cases_string m_fn_text abs_scol (emb_ecol d values strict) ixs fn
  | _ => tr_col_Aggregate ft fzero fadd fdiv fofint c ixs fn
  end.

(* the premises about strings: every string column of the grouper is represented by its struct, and the limits of
   pointer.go hold for the key rows of the string columns and for the strings the aggregation functions return *)
Definition srep_ok (srep : list (option bytes) -> ga_scolumn_Column) (g : grouper) : Prop :=
  forall d, In (SCol d) (map snd (gcols g)) -> rep_scol (srep d) d.
Definition str_limits_ok (ft : float_table) (g : grouper) (aggs : list aggregation) : Prop :=
  (forall d firsts, In (SCol d) (map snd (gcols g)) -> group_firsts g = Ok firsts -> subset_small d firsts) /\
  (forall c a, In c (map snd (gcols g)) -> In a aggs -> agg_result_small ft c (gindices g) (agfn a)).

Lemma ga_Grouper_Aggregate_composed_all (srep : list (option bytes) -> ga_scolumn_Column) (ft : float_table)
  (fzero : N) (fadd fdiv : N -> N -> N) (fofint : Z -> N) (g : grouper) (aggs : list aggregation) :
  Z.of_nat (length (gindices g)) < 4294967296 ->
  float_oracle_ok ft fzero fadd fdiv fofint g aggs ->
  srep_ok srep g -> str_limits_ok ft g aggs ->
  ga_Grouper_Aggregate m_new_error m_propagate m_unknownCol m_fn_eq_string (tr_col_Subset_all srep fzero)
    (tr_col_Aggregate_all srep ft fzero fadd fdiv fofint) m_icolumn_New (emb_grouper g) (map emb_agg aggs)
  = omap1 emb_frame (aggregate ft g aggs).
Proof.
  intros Hn Hf Hrep [HsubS HaggS]. apply (ga_Grouper_Aggregate_gen_at ft g); [|exact Hn|].
  - intros firsts c Hfirsts Hc. destruct c as [d|d|d|d|d values strict]; cbn [tr_col_Subset_all];
      try apply tr_col_Subset_eq.
    rewrite (ga_scolumn_Subset_eq (srep d) d firsts (Hrep d Hc) (HsubS d firsts Hc Hfirsts)). apply m_col_Subset_ints.
  - intros c a Hc Ha _. unfold agg_pair. rewrite <- m_col_Aggregate_ints.
    destruct c as [d|d|d|d|d values strict]; cbn [tr_col_Aggregate_all tr_col_Aggregate].
    + apply ga_icolumn_Aggregate_eq.
    + destruct (Hf d a Hc Ha) as [Hs Hav]. apply ga_fcolumn_Aggregate_eq; assumption.
    + apply ga_bcolumn_Aggregate_eq.
    + apply (ga_scolumn_Aggregate_eq ft (srep d) d (gindices g) (agfn a) (Hrep d Hc) (HaggS _ a Hc Ha)).
    + apply (ga_ecolumn_Aggregate_eq ft d values strict (gindices g) (agfn a) (HaggS _ a Hc Ha)).
Qed.

(* the struct scolumn.New builds for d: one representation that satisfies srep_ok (within the limits) *)
Definition new_scol (d : list (option bytes)) : ga_scolumn_Column := ga_mk_scolumn_Column (layout d 0) (bytes_of d).

(* decidable forms of the limits, for examples *)
Definition strs_small_b (l : list (option bytes)) : bool :=
  (Z.of_nat (length (bytes_of l)) <? 2^35) && forallb (fun o => Z.of_nat (length (str_bytes o)) <? 2^28) l.
Lemma strs_small_b_sound l : strs_small_b l = true -> strs_small l 0.
Proof.
  unfold strs_small_b, strs_small. intro H. apply andb_prop in H. destruct H as [H1 H2]. split; [lia|].
  apply Forall_forall. intros o Ho. rewrite forallb_forall in H2. specialize (H2 o Ho). lia.
Qed.

(* the invariant as a representation statement from offset 0 *)
Lemma rep_scol_layoutL (l : list (option bytes)) (ls : list Z) :
  strs_small l 0 -> lens_ok ls -> rep_scol (ga_mk_scolumn_Column (layoutL ls l 0) (bytes_of l)) l.
Proof.
  intros H Hls i. pose proof (rep_layoutL l ls [] [] H Hls i) as R. cbn [length Z.of_nat app] in R.
  rewrite app_nil_r in R. exact R.
Qed.
