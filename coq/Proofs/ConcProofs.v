(* Proofs/ConcProofs.v — theorem 2 (C11_schedule_independent), generic in the programs:
   if every thread is solo-safe from the common store (its instrumented sequential run does not
   fault, i.e. it writes only what it allocated itself and reads only pre-existing or own
   locations) then under EVERY schedule each thread that finishes returns exactly its solo value,
   no pre-existing location ever changes, and the trace has no race.
   Invariant: each thread's view of the shared store restricted to (pre-existing + own) equals a
   store of its sequential run (step agreement); own sets lie in the thread's name space. *)
From QF Require Import Base.Prelude Model.Heap Model.Conc Proofs.HeapProofs.

Section ConcProofs.
  Variable env : fnid -> list val -> val.
  Variable A : Type.
  Variable s0 : store.                     (* the common initial store *)
  Variable progs : list (prog A).

  Variable pre : loc -> bool.              (* = in_dom s0, kept abstract so that nothing unfolds it *)
  Hypothesis pre_def : pre = in_dom s0.

  Definition solo_value (i : nat) (p : prog A) : A := fst (fst (run env (S i) p 0 s0)).

  (* thread i, currently in state th with the shared store S, is simulated by a sequential store *)
  Definition sim (i : nat) (p : prog A) (S : store) (th : tstate A) : Prop :=
    exists own si a n' s' own',
      run_tr_aux env pre (Datatypes.S i) (ts_code th) (ts_ctr th) own si = Some (a, n', s', own') /\
      a = solo_value i p /\
      (forall l, In l own -> fst l = Datatypes.S i /\ pre l = false) /\
      (forall l, pre l = true \/ In l own -> lookup S l = lookup si l).

  Definition ev_ok (e : event) : Prop :=
    let '(t, l, w) := e in (pre l = true /\ w = false) \/ (fst l = t /\ pre l = false).

  (* S' differs from S at most on locations in the name space of thread j that are not pre-existing *)
  Definition changes_only (j : nat) (S S' : store) : Prop :=
    forall q, lookup S' q = lookup S q \/ (fst q = Datatypes.S j /\ pre q = false).

  Lemma tstep_sim i p S th th' S' ev :
    sim i p S th ->
    tstep env (Datatypes.S i) th S = Some (th', S', ev) ->
    sim i p S' th' /\ changes_only i S S' /\ (forall e, ev = Some e -> ev_ok e).
  Proof.
    intros (own & si & a & n' & s' & own' & Hrun & Ha & Hown & Hag) Hstep.
    unfold tstep in Hstep. destruct th as [code ctr]. simpl in *.
    destruct code as [a0|init k|l k|l i0 v k|fn args k]; simpl in *.
    - discriminate.
    - inversion Hstep; subst; clear Hstep.
      match type of Hrun with (if ?c then _ else _) = _ => destruct c eqn:E end; [discriminate|].
      apply orb_false_iff in E as [E1 E2]. apply mem_loc_false in E2.
      repeat split.
      + exists ((Datatypes.S i, ctr) :: own), (update si (Datatypes.S i, ctr) init), (solo_value i p), n', s', own'.
        simpl. repeat split; auto.
        * destruct H as [<-|H]; simpl; auto. apply Hown; auto.
        * destruct H as [<-|H]; simpl; auto. apply Hown; auto.
        * intros q Hq. rewrite !lookup_update. destruct (loc_eqb q (Datatypes.S i, ctr)) eqn:Eq; auto.
          apply Hag. destruct Hq as [Hq|[Hq|Hq]]; auto.
          apply loc_eqb_neq in Eq. congruence.
      + intro q. destruct (loc_eq_dec q (Datatypes.S i, ctr)) as [->|Hne].
        * right. simpl. auto.
        * left. apply lookup_update_other; auto.
      + intros e He. inversion He; subst. simpl. right. auto.
    - inversion Hstep; subst; clear Hstep.
      match type of Hrun with (if ?c then _ else _) = _ => destruct c eqn:E end; [|discriminate].
      assert (Hacc : pre l = true \/ In l own).
      { apply orb_true_iff in E as [E|E]; auto. right. apply mem_loc_In; auto. }
      repeat split.
      + exists own, si, (solo_value i p), n', s', own'. simpl. repeat split; auto; try (apply Hown; auto).
        unfold read_loc. rewrite (Hag l Hacc). exact Hrun.
      + intro q. left. reflexivity.
      + intros e He. inversion He; subst. simpl.
        destruct (pre l) eqn:Ep; [left; auto|right].
        destruct Hacc as [Hacc|Hacc]; [discriminate|]. split; auto. apply Hown; auto.
    - inversion Hstep; subst; clear Hstep.
      match type of Hrun with (if ?c then _ else _) = _ => destruct c eqn:E end; [|discriminate].
      apply mem_loc_In in E.
      repeat split.
      + exists own, (write_loc si l i0 v), (solo_value i p), n', s', own'. simpl. repeat split; auto; try (apply Hown; auto).
        intros q Hq. destruct (loc_eq_dec q l) as [->|Hne].
        * rewrite !lookup_write_same. rewrite (Hag l (or_intror E)). reflexivity.
        * rewrite !lookup_write_other by exact Hne. apply Hag; auto.
      + intro q. destruct (loc_eq_dec q l) as [->|Hne].
        * right. apply Hown; auto.
        * left. apply lookup_write_other; auto.
      + intros e He. inversion He; subst. simpl. right. apply Hown; auto.
    - inversion Hstep; subst; clear Hstep.
      repeat split.
      + exists own, si, (solo_value i p), n', s', own'. simpl. repeat split; auto; apply Hown; auto.
      + intro q. left. reflexivity.
      + intros e He. discriminate.
  Qed.

  Lemma sim_frame i j p S S' th :
    sim i p S th -> changes_only j S S' -> j <> i -> sim i p S' th.
  Proof.
    intros (own & si & a & n' & s' & own' & Hrun & Ha & Hown & Hag) Hch Hne.
    exists own, si, a, n', s', own'. repeat split; auto; try (apply Hown; auto).
    intros q Hq. rewrite <- (Hag q Hq).
    destruct (Hch q) as [H|[H1 H2]]; auto.
    destruct Hq as [Hq|Hq]; [congruence|].
    apply Hown in Hq. destruct Hq as [Hq _]. exfalso. apply Hne. congruence.
  Qed.

  (* the global invariant *)
  Record inv (c : cstate A) : Prop := {
    inv_len : length (c_pool c) = length progs;
    inv_sim : forall i th, nth_error (c_pool c) i = Some th ->
                           exists p, nth_error progs i = Some p /\ sim i p (c_store c) th;
    inv_tr  : forall e, In e (c_trace c) -> ev_ok e;
    inv_pre : forall l, pre l = true -> lookup (c_store c) l = lookup s0 l
  }.

  Hypothesis solo_safe : forall i p, nth_error progs i = Some p -> run_tr env (S i) p 0 s0 <> None.

  Lemma inv_init : inv (cinit progs s0).
  Proof.
    constructor; simpl.
    - apply map_length.
    - intros i th H. rewrite nth_error_map in H. destruct (nth_error progs i) as [p|] eqn:E; [|discriminate].
      inversion H; subst; clear H. exists p. split; auto.
      pose proof (solo_safe i p E) as Hs. unfold run_tr in Hs. rewrite <- pre_def in Hs.
      assert (Hsound := fun a n' s' own => run_tr_sound env (S i) p 0 s0 a n' s' own).
      unfold run_tr in Hsound. rewrite <- pre_def in Hsound.
      destruct (run_tr_aux env pre (S i) p 0 [] s0) as [[[[a n'] s'] own']|] eqn:Er; [|congruence].
      exists [], s0, a, n', s', own'. simpl. repeat split; auto; try contradiction.
      destruct (Hsound a n' s' own' eq_refl) as [Er' _]. unfold solo_value. rewrite Er'. reflexivity.
    - intros e [].
    - auto.
  Qed.

  Lemma inv_step t c : inv c -> inv (cstep env t c).
  Proof.
    intros [Hlen Hsim Htr Hpre]. unfold cstep. destruct t as [|j]; [constructor; auto|].
    destruct (nth_error (c_pool c) j) as [th|] eqn:Eth; [|constructor; auto].
    destruct (tstep env (S j) th (c_store c)) as [[[th' S'] ev]|] eqn:Est; [|constructor; auto].
    destruct (Hsim j th Eth) as (p & Hp & Hs).
    destruct (tstep_sim j p _ th th' S' ev Hs Est) as (Hs' & Hch & Hev).
    assert (Hj : j < length (c_pool c)) by (apply nth_error_Some; congruence).
    constructor; simpl.
    - rewrite set_nth_length. exact Hlen.
    - intros i thi Hi. destruct (Nat.eq_dec j i) as [<-|Hne].
      + rewrite nth_error_set_nth_eq in Hi by exact Hj. inversion Hi; subst. exists p. auto.
      + rewrite nth_error_set_nth_neq in Hi by exact Hne.
        destruct (Hsim i thi Hi) as (pi & Hpi & Hsi). exists pi. split; auto.
        eapply sim_frame; eauto.
    - intros e He. destruct ev as [e0|]; auto. destruct He as [<-|He]; auto.
    - intros l Hl. rewrite <- (Hpre l Hl). destruct (Hch l) as [H|[_ H]]; auto. congruence.
  Qed.

  Lemma inv_run sched : inv (run_conc env progs sched s0).
  Proof.
    unfold run_conc. generalize (cinit progs s0) inv_init.
    induction sched as [|t r IH]; intros c Hc; simpl; auto.
    apply IH. apply inv_step. exact Hc.
  Qed.

  Lemma ev_ok_no_race tr : (forall e, In e tr -> ev_ok e) -> no_race tr.
  Proof.
    intros H [[t1 l1] w1] [[t2 l2] w2] H1 H2. apply H in H1. apply H in H2. simpl in *.
    destruct (t1 =? t2) eqn:Et; simpl; auto.
    destruct (loc_eqb l1 l2) eqn:El; simpl; auto.
    apply loc_eqb_eq in El. subst l2. apply Nat.eqb_neq in Et.
    destruct H1 as [[P1 W1]|[F1 P1]], H2 as [[P2 W2]|[F2 P2]]; subst; simpl; auto; try congruence.
  Qed.

  (* ---------------------------------------------------------- theorem 2 *)
  Theorem schedule_independent (sched : list tid) :
    let c := run_conc env progs sched s0 in
    (forall i p th a, nth_error progs i = Some p -> nth_error (c_pool c) i = Some th ->
                      ts_code th = Ret a -> a = solo_value i p) /\
    no_race (c_trace c) /\
    (forall l, in_dom s0 l = true -> lookup (c_store c) l = lookup s0 l).
  Proof.
    rewrite <- pre_def.
    intro c. destruct (inv_run sched) as [Hlen Hsim Htr Hpre]. fold c in Hlen, Hsim, Htr, Hpre.
    repeat split.
    - intros i p th a Hp Hth Hret.
      destruct (Hsim i th Hth) as (p' & Hp' & own & si & a' & n' & s' & own' & Hrun & Ha & _).
      rewrite Hret in Hrun. simpl in Hrun. inversion Hrun; subst. congruence.
    - apply ev_ok_no_race. exact Htr.
    - exact Hpre.
  Qed.

  Lemma solo_results_from_nth (ps : list (prog A)) : forall k i,
    nth_error (solo_results_from env k ps s0) i =
    match nth_error ps i with Some p => Some (Some (solo_value (k + i) p)) | None => None end.
  Proof.
    induction ps as [|p r IH]; intros k [|i]; simpl; auto.
    - rewrite Nat.add_0_r. reflexivity.
    - rewrite IH. replace (S k + i) with (k + S i) by lia. reflexivity.
  Qed.

  Lemma nth_error_ext {X} (l1 l2 : list X) :
    (forall i, nth_error l1 i = nth_error l2 i) -> l1 = l2.
  Proof.
    revert l2. induction l1 as [|x r IH]; intros [|y r2] H; auto.
    - specialize (H 0); discriminate.
    - specialize (H 0); discriminate.
    - pose proof (H 0) as H0. simpl in H0. inversion H0; subst. f_equal.
      apply IH. intro i. exact (H (S i)).
  Qed.

  (* for a complete schedule: the list of results is the list of solo results *)
  Theorem complete_results (sched : list tid) :
    let c := run_conc env progs sched s0 in
    complete c = true -> results c = solo_results env progs s0.
  Proof.
    intros c Hc. destruct (inv_run sched) as [Hlen Hsim _ _]. fold c in Hlen, Hsim.
    destruct (schedule_independent sched) as [Hres _]. fold c in Hres.
    apply nth_error_ext. intro i. unfold results, solo_results.
    rewrite nth_error_map, solo_results_from_nth. simpl.
    destruct (nth_error (c_pool c) i) as [th|] eqn:Eth; simpl.
    - destruct (Hsim i th Eth) as (p & Hp & _). rewrite Hp.
      unfold complete in Hc. rewrite forallb_forall in Hc.
      specialize (Hc th (nth_error_In _ _ Eth)).
      unfold result_of in *. destruct (ts_code th) as [a| | | |] eqn:Ec; try discriminate.
      rewrite (Hres i p th a Hp Eth Ec). reflexivity.
    - apply nth_error_None in Eth. rewrite Hlen in Eth. apply nth_error_None in Eth. rewrite Eth. reflexivity.
  Qed.
End ConcProofs.

(* the statements with pre instantiated *)
Theorem C11_generic env A (s0 : store) (progs : list (prog A)) :
  (forall i p, nth_error progs i = Some p -> run_tr env (S i) p 0 s0 <> None) ->
  forall sched : list tid,
    let c := run_conc env progs sched s0 in
    (forall i p th a, nth_error progs i = Some p -> nth_error (c_pool c) i = Some th ->
                      ts_code th = Ret a -> a = solo_value env A s0 i p) /\
    no_race (c_trace c) /\
    (forall l, in_dom s0 l = true -> lookup (c_store c) l = lookup s0 l) /\
    (complete c = true -> results c = solo_results env progs s0).
Proof.
  intros Hs sched c.
  destruct (schedule_independent env A s0 progs (in_dom s0) eq_refl Hs sched) as (H1 & H2 & H3).
  repeat split; auto.
  apply (complete_results env A s0 progs (in_dom s0) eq_refl Hs sched).
Qed.

(* ==================================================================== theorem 5: C11 for the qframe operations *)
From QF Require Import Model.HeapOps Proofs.HeapOpsProofs.

Definition job := (lop * member * member)%type.          (* operation, receiver, second argument *)
Definition job_prog (j : job) : prog (outcome (list member)) :=
  let '(op, recv, other) := j in lop_prog op recv other.
Definition job_ok (st : store) (j : job) : Prop :=
  let '(op, recv, other) := j in
  lop_safe op /\ mem_ok (in_dom st) recv [] /\ mem_ok (in_dom st) other [].

Theorem C11_ops env (s0 : store) (jobs : list job) :
  closed_store s0 ->
  (forall t k, 1 <= t -> lookup s0 (t, k) = None) ->        (* the threads' name spaces are unused *)
  Forall (job_ok s0) jobs ->
  forall sched : list nat,
    let progs := map job_prog jobs in
    let c := run_conc env progs sched s0 in
    (forall i p th a, nth_error progs i = Some p -> nth_error (c_pool c) i = Some th ->
                      ts_code th = Ret a -> a = solo_value env _ s0 i p) /\
    no_race (c_trace c) /\
    (forall l, in_dom s0 l = true -> lookup (c_store c) l = lookup s0 l) /\
    (complete c = true -> results c = solo_results env progs s0).
Proof.
  intros Hc Hf Hjobs sched progs c. apply C11_generic.
  intros i p Hp. unfold progs in Hp. rewrite nth_error_map in Hp.
  destruct (nth_error jobs i) as [[[op recv] other]|] eqn:Ej; [|discriminate].
  inversion Hp; subst; clear Hp. rewrite Forall_forall in Hjobs.
  destruct (Hjobs _ (nth_error_In _ _ Ej)) as (Hs & Hr & Ho). simpl.
  apply op_solo_safe; auto. intros k _. apply Hf. lia.
Qed.

(* ==================================================================== non-vacuity examples *)
Module HeapExamples.
  Definition env0 : fnid -> list val -> val := fun _ args => match args with VZ x :: _ => VZ (x + 1) | _ => VZ 7 end.
  Definition nA : bytes := [65%N].
  Definition cA := mkCol nA 0 0 [mkSlice (0, 3) 0 4 4].
  Definition st0 : store :=
    [((0, 0), [VZ 0; VZ 1; VZ 3; VZ 2]);
     ((0, 1), [VCol cA]);
     ((0, 2), [VMap [(nA, cA)]]);
     ((0, 3), [VZ 30; VZ 10; VZ 5; VZ 20])].
  Definition qf0 := mkQF (mkSlice (0, 1) 0 1 1) (Some (0, 2)) (mkSlice (0, 0) 0 4 4) false.
  Definition lessA : sort_less :=
    fun _ _ a b => match a, b with [VZ x :: _], [VZ y :: _] => (x <? y)%Z | _, _ => false end.
  Definition lfA : leaf :=
    mkLeaf nA None false false 0%N false false (fun _ => 0) None
           (fun _ c _ => match c with VZ x :: _ => (x <? 25)%Z | _ => false end) (fun _ _ _ => false).

  (* Slice with spare capacity -> Sort the slice -> Filter the parent -> Apply on both *)
  Definition h0 : list (nat * nat * lop) :=
    [(0, 0, LSlice 0 3);
     (1, 1, LSort [nA] lessA insertion_script);
     (0, 0, LFilter (COr false [CLeaf lfA; CNot false (CAnd false [CLeaf lfA])]));
     (1, 1, LApply [mkInstr (FnCall 1%N 0%N) [66%N] (Some nA) None true]);
     (0, 0, LApply [mkInstr (FnCall 1%N 0%N) nA (Some nA) None true]);
     (0, 0, LGroupBy (mkGP (fun _ c => match c with [VZ x :: _] => (x mod 20)%Z | _ => 0%Z end)
                           (fun _ _ a b => match a, b with [VZ x :: _], [VZ y :: _] => ((x mod 20) =? (y mod 20))%Z | _, _ => false end)) [nA]);
     (6, 6, LQFrames)].

  Definition states := history_states env0 h0 1 st0 [MemF qf0].
  Definition obs_at (k : nat) (m : nat) : option (list observation) :=
    match nth_error states k with
    | Some (st, fam) => match nth_error fam m with Some x => Some (observe env0 100 st x) | None => None end
    | None => None
    end.
  Definition ob_lens (o : option (list observation)) := match o with Some l => map ob_len l | None => [] end.

  (* the parent (member 0), the slice (member 1) and the sorted slice (member 2) observe the same
     after every later step; the sort really reordered the slice; 10 members at the end *)
  Example history_example :
    obs_at 7 0 = obs_at 0 0 /\ obs_at 7 1 = obs_at 1 1 /\ obs_at 7 2 = obs_at 2 2 /\
    obs_at 7 6 = obs_at 6 6 /\
    ob_lens (obs_at 0 0) = [4%Z] /\ ob_lens (obs_at 1 1) = [3%Z] /\ obs_at 2 2 <> obs_at 1 1 /\
    match nth_error states 7 with Some (_, fam) => length fam = 10 | None => False end.
  Proof. vm_compute. repeat split; try reflexivity. intro H. discriminate H. Qed.

  (* the obligation has teeth: Sort without the index copy and an orFrames that appends into
     lhs.index are rejected by the instrumented run when the index is shared *)
  Definition sl0 : qframe := match op_slice 0 3 qf0 with Ok q => q | _ => qf0 end.
  Example wrong_sort_rejected :
    run_tr env0 1 (op_sort_nocopy [nA] lessA insertion_script sl0) 0 st0 = None /\
    (exists r, run_tr env0 1 (op_sort [nA] lessA insertion_script sl0) 0 st0 = Some r).
  Proof. split; [vm_compute; reflexivity|eexists; vm_compute; reflexivity]. Qed.
  Example wrong_or_frames_rejected :
    run_tr env0 1 (let? rhs := qf_filter [lfA] sl0 in or_frames_bad sl0 sl0 rhs) 0 st0 = None /\
    (exists r, run_tr env0 1 (let? rhs := qf_filter [lfA] sl0 in or_frames sl0 (Some sl0) rhs) 0 st0 = Some r).
  Proof. split; [vm_compute; reflexivity|eexists; vm_compute; reflexivity]. Qed.

  (* the premises of C01_history / C11_ops hold for this store *)
  Lemma st0_closed : closed_store st0.
  Proof.
    intros l a Hl _. unfold st0 in Hl. simpl in Hl.
    repeat match type of Hl with
           | (if ?c then _ else _) = _ => destruct c
           end; inversion Hl; subst; clear Hl;
      repeat (apply Forall_cons; [try exact I|]); try apply Forall_nil.
    - right. left. reflexivity.
    - right. left. reflexivity.
  Qed.

  Lemma st0_fresh t k : 1 <= t -> lookup st0 (t, k) = None.
  Proof. intro H. destruct t as [|t]; [lia|]. reflexivity. Qed.

  Lemma qf0_ok : mem_ok (in_dom st0) (MemF qf0) [].
  Proof. simpl. repeat split; simpl; try (right; left; reflexivity). intros l Hl. inversion Hl; subst. left. reflexivity. Qed.

  Example hist_inv_example : hist_inv 1 st0 [MemF qf0].
  Proof.
    split; [exact st0_closed|split].
    - constructor; [exact qf0_ok|constructor].
    - intros t' k Ht'. apply st0_fresh. exact Ht'.
  Qed.

  (* C11: Sort, Filter, Apply and GroupBy started at once on the same frame and on its slice *)
  Definition jobs0 : list job :=
    [(LSort [nA] lessA insertion_script, MemF qf0, MemF qf0);
     (LFilter (CLeaf lfA), MemF qf0, MemF qf0);
     (LApply [mkInstr (FnCall 1%N 0%N) nA (Some nA) None true], MemF sl0, MemF sl0);
     (LSort [nA] lessA insertion_script, MemF sl0, MemF sl0)].
  Definition conc0 := run_conc env0 (map job_prog jobs0) (round_robin 4 200) st0.
  Example conc_example :
    complete conc0 = true /\ has_race (c_trace conc0) = false /\ (100 <? length (c_trace conc0)) = true /\
    results conc0 = solo_results env0 (map job_prog jobs0) st0.
  Proof. vm_compute. repeat split; reflexivity. Qed.
  (* ... whereas the wrong Sort races with a reader of the same index *)
  Definition conc_bad := run_conc env0
     [op_sort_nocopy [nA] lessA insertion_script sl0; op_filter (CLeaf lfA) qf0] (round_robin 2 200) st0.
  Example conc_bad_example : complete conc_bad = true /\ has_race (c_trace conc_bad) = true.
  Proof. vm_compute. split; reflexivity. Qed.
End HeapExamples.
