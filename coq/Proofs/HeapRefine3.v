(* Proofs/HeapRefine3.v — refinement of the heap-level programs (Model/HeapOps.v) to the pure L0 model, third part
   (continues Proofs/HeapRefine2.v): the WHOLE clause tree of QFrame.Filter (And chains narrowing the index, Or with
   leaf batches flushed and merged by orFrames, Not of any clause through the index complement, Null), by induction
   over the tree.
   1. The indexes built by index.Filter / orFrames / Not hold non-negative entries when their inputs do
      (the merges compare entries as integers, the L0 model as row numbers).
   2. The link of a leaf (leaf_link) is stable when the store grows.
   3. The induction over the clause tree, parametric in the relation that links heap leaves to L0 leaves
      (all it needs is that a BATCH of linked leaves is refined by QFrame.filter on every later store and every
      sub-index of the rows).
   4. Instances: the link of HeapRefine2 (leaf_link), and the extended link with int->float promotion of the column
      or of the argument column and with inversion through a second mask.
   5. FilteredApply end to end. *)
From QF Require Import Base.Prelude Model.Heap Model.HeapOps Proofs.HeapProofs Proofs.HeapRefine Proofs.HeapRefine2.
From QF Require Model.Frame Model.Ops Model.Filter.
From QF Require Proofs.FilterProofs.

#[local] Arguments bind : simpl never.
#[local] Arguments bindO : simpl never.

(* ==================================================================== 1. non-negative entries *)
Lemma nonneg_app a b : nonneg a -> nonneg b -> nonneg (a ++ b).
Proof. unfold nonneg. intros Ha Hb. apply Forall_app. split; assumption. Qed.

Lemma nonneg_one z : (0 <= z)%Z -> nonneg [VZ z].
Proof. intro H. constructor; [exact H|constructor]. Qed.

Lemma nonneg_nth vs k v : nonneg vs -> nth_error vs k = Some v -> (0 <= as_z v)%Z.
Proof. intros H E. unfold nonneg in H. rewrite Forall_forall in H. apply H. eapply nth_error_In; eauto. Qed.

Lemma empty_seg st l c : seg_of st (mkSlice l 0 0 c) = [].
Proof. reflexivity. Qed.

Section Nonneg.
  Variable env : fnid -> list val -> val.

  (* index.Filter: the entries of the result are entries of the index *)
  Lemma index_filter_loop_nn t ix st0 :
    in_bounds st0 ix -> nonneg (seg_of st0 ix) ->
    forall bs k r n st,
    keeps st0 st -> store_fresh t n st -> in_bounds st r -> own_in st0 r -> nonneg (seg_of st r) ->
    exists res n' st',
      run env t (for_eachO (combine (seq k (length bs)) bs)
                   (fun (ib : nat * bool) (r : slice) =>
                      if snd ib
                      then let? x := get_z ix (fst ib) in lift (slice_append r (VZ x))
                      else Ret (Ok r)) r) n st = (res, n', st') /\
      match res with Ok r' => nonneg (seg_of st' r') | _ => True end.
  Proof.
    intros Hix Hnix. induction bs as [|x bs IH]; intros k r n st Hk Hf Hr Hown Hnn.
    - simpl. eexists _, _, _. split; [reflexivity|]. exact Hnn.
    - cbn [length seq combine for_eachO snd fst]. destruct x.
      + pose proof (run_get_z env t ix k n st) as Hg.
        assert (Hgv : get_val st ix k = idx (seg_of st0 ix) k).
        { rewrite get_val_seg by (eapply in_bounds_keeps; eauto). rewrite (seg_keeps_eq _ _ _ Hk Hix). reflexivity. }
        rewrite Hgv in Hg. unfold idx in Hg.
        destruct (nth_error (seg_of st0 ix) k) as [v|] eqn:En; simpl in Hg.
        * destruct (append_spec env t r (VZ (as_z v)) n st0 st Hk Hf Hr Hown)
            as (r1 & n1 & st1 & Hrun & Hseg & Hb1 & Hlen1 & Hk1 & Hf1 & Hn1 & Hown1 & _).
          destruct (IH (S k) r1 n1 st1 Hk1 Hf1 Hb1 Hown1) as (res & n' & st' & Hloop & Hres).
          { rewrite Hseg. apply nonneg_app; [exact Hnn|]. apply nonneg_one. exact (nonneg_nth _ _ _ Hnix En). }
          exists res, n', st'. split; [|exact Hres].
          erewrite run_bindO_ok; [exact Hloop|]. erewrite run_bindO_ok; [|exact Hg]. apply run_lift. exact Hrun.
        * eexists Panic, n, st. split; [|exact I].
          erewrite run_bindO_panic; [reflexivity|]. erewrite run_bindO_panic; [reflexivity|exact Hg].
      + destruct (IH (S k) r n st Hk Hf Hr Hown Hnn) as (res & n' & st' & Hloop & Hres).
        exists res, n', st'. split; [|exact Hres]. erewrite run_bindO_ok; [exact Hloop|reflexivity].
  Qed.

  Lemma index_filter_nn t n st ix b res n' st' :
    store_fresh t n st -> in_bounds st ix -> nonneg (seg_of st ix) ->
    run env t (index_filter ix b) n st = (res, n', st') ->
    match res with Ok r => nonneg (seg_of st' r) | _ => True end.
  Proof.
    intros Hf Hix Hnn Hrun. unfold index_filter in Hrun.
    set (bs := map as_b (seg_of st b)) in *.
    set (st1 := update st (t, n) (repeat (VZ 0) (count_true bs))).
    set (r0 := mkSlice (t, n) 0 0 (count_true bs)).
    assert (Hfr : lookup st (t, n) = None) by (apply Hf; lia).
    assert (Hk1 : keeps st st1) by (apply keeps_update; exact Hfr).
    assert (Hr0 : in_bounds st1 r0).
    { split; simpl; [lia|]. unfold st1. rewrite read_update_same, repeat_length. lia. }
    destruct (index_filter_loop_nn t ix st Hix Hnn bs 0 r0 (S n) st1 Hk1 (fresh_update _ _ _ _ Hf) Hr0 (or_intror Hfr))
      as (res2 & n2 & st2 & Hloop & Hres).
    { unfold r0. rewrite empty_seg. constructor. }
    assert (E : run env t (index_filter ix b) n st = (res2, n2, st2)).
    { unfold index_filter. erewrite run_bind_eq; [|apply run_read_bs]. fold bs.
      erewrite run_bind_eq; [|apply run_make]. exact Hloop. }
    unfold index_filter in E. fold bs in E. rewrite E in Hrun. inversion Hrun; subst. exact Hres.
  Qed.

  (* one probe of orFrames / Not never touches the store *)
  Lemma step2_pure t c other j ix n st : exists o, run env t (step2 c other j ix) n st = (o, n, st).
  Proof.
    unfold step2. destruct c; [|eexists; reflexivity].
    rewrite run_bindO_unfold, run_get_z. destruct (get_val st other j); eexists; reflexivity.
  Qed.

  (* orFrames: the entries of the result are entries of the original index *)
  Lemma or_loop_nn t st0 l r : forall oix res li ri n st,
    Forall (fun z => (0 <= z)%Z) oix ->
    keeps st0 st -> store_fresh t n st -> in_bounds st res -> own_in st0 res -> nonneg (seg_of st res) ->
    exists o n' st',
      run env t (for_eachO oix
         (fun ix (st : slice * nat * nat) =>
            let '(r0, li, ri) := st in
            let? f1 := step2 (li <? s_len l)%nat l li ix in
            let? f2 := step2 (ri <? s_len r)%nat r ri ix in
            if (fst f1 || fst f2)%bool
            then let* r' := slice_append r0 (VZ ix) in Ret (Ok (r', snd f1, snd f2))
            else Ret (Ok (r0, snd f1, snd f2))) (res, li, ri)) n st = (o, n', st') /\
      match o with Ok p => nonneg (seg_of st' (fst (fst p))) | _ => True end.
  Proof.
    induction oix as [|ix oix IH]; intros res li ri n st Hnn Hk Hf Hb Hown Hres.
    - simpl. eexists _, _, _. split; [reflexivity|]. exact Hres.
    - inversion Hnn as [|? ? Hix Hnn']; subst. cbn [for_eachO].
      destruct (step2_pure t (li <? s_len l)%nat l li ix n st) as [o1 H1].
      destruct (step2_pure t (ri <? s_len r)%nat r ri ix n st) as [o2 H2].
      destruct o1 as [f1| |].
      2:{ eexists Fail, n, st. split; [|exact I]. erewrite run_bindO_fail; [reflexivity|].
          erewrite run_bindO_fail; [reflexivity|exact H1]. }
      2:{ eexists Panic, n, st. split; [|exact I]. erewrite run_bindO_panic; [reflexivity|].
          erewrite run_bindO_panic; [reflexivity|exact H1]. }
      destruct o2 as [f2| |].
      2:{ eexists Fail, n, st. split; [|exact I]. erewrite run_bindO_fail; [reflexivity|].
          erewrite run_bindO_ok; [|exact H1]. erewrite run_bindO_fail; [reflexivity|exact H2]. }
      2:{ eexists Panic, n, st. split; [|exact I]. erewrite run_bindO_panic; [reflexivity|].
          erewrite run_bindO_ok; [|exact H1]. erewrite run_bindO_panic; [reflexivity|exact H2]. }
      destruct (fst f1 || fst f2) eqn:Ef.
      + destruct (append_spec env t res (VZ ix) n st0 st Hk Hf Hb Hown)
          as (r1 & n1 & st1 & Hrun & Hseg & Hb1 & _ & Hk1 & Hf1 & _ & Hown1 & _).
        destruct (IH r1 (snd f1) (snd f2) n1 st1 Hnn' Hk1 Hf1 Hb1 Hown1) as (o & n' & st' & Hloop & Ho).
        { rewrite Hseg. apply nonneg_app; [exact Hres|apply nonneg_one; exact Hix]. }
        exists o, n', st'. split; [|exact Ho].
        erewrite run_bindO_ok; [exact Hloop|].
        erewrite run_bindO_ok; [|exact H1]. erewrite run_bindO_ok; [|exact H2]. rewrite Ef.
        erewrite run_bind_eq; [|exact Hrun]. reflexivity.
      + destruct (IH res (snd f1) (snd f2) n st Hnn' Hk Hf Hb Hown Hres) as (o & n' & st' & Hloop & Ho).
        exists o, n', st'. split; [|exact Ho].
        erewrite run_bindO_ok; [exact Hloop|].
        erewrite run_bindO_ok; [|exact H1]. erewrite run_bindO_ok; [|exact H2]. rewrite Ef. reflexivity.
  Qed.

  Lemma or_frames_nn t n st orig l rhs q' n' st' :
    store_fresh t n st -> in_bounds st (q_idx orig) ->
    nonneg (seg_of st (q_idx orig)) -> nonneg (seg_of st (q_idx l)) -> nonneg (seg_of st (q_idx rhs)) ->
    run env t (or_frames orig (Some l) rhs) n st = (Ok q', n', st') ->
    nonneg (seg_of st' (q_idx q')) /\ (q_map orig = q_map l -> q_map orig = q_map rhs -> q_map q' = q_map orig).
  Proof.
    intros Hf Hio Hno Hnl Hnr Hrun. unfold or_frames in Hrun.
    destruct (q_err l). { inversion Hrun; subst. split; [exact Hnl|intros; congruence]. }
    destruct (q_err rhs). { inversion Hrun; subst. split; [exact Hnr|intros; congruence]. }
    set (c := Nat.max (s_len (q_idx l)) (s_len (q_idx rhs))) in *.
    set (st1 := update st (t, n) (repeat (VZ 0) c)).
    set (r0 := mkSlice (t, n) 0 0 c).
    assert (Hfr : lookup st (t, n) = None) by (apply Hf; lia).
    assert (Hk1 : keeps st st1) by (apply keeps_update; exact Hfr).
    assert (Hr0 : in_bounds st1 r0).
    { split; simpl; [lia|]. unfold st1. rewrite read_update_same, repeat_length. lia. }
    destruct (or_loop_nn t st (q_idx l) (q_idx rhs) (map as_z (seg_of st (q_idx orig))) r0 0 0 (S n) st1
                (nonneg_as_z _ Hno) Hk1 (fresh_update _ _ _ _ Hf) Hr0 (or_intror Hfr))
      as (o & n2 & st2 & Hloop & Ho).
    { unfold r0. rewrite empty_seg. constructor. }
    erewrite run_bind_eq in Hrun; [|apply run_make]. fold st1 r0 in Hrun.
    erewrite run_bind_eq in Hrun; [|apply run_read_zs].
    rewrite (seg_keeps_eq _ _ _ Hk1 Hio) in Hrun.
    rewrite run_bindO_unfold, Hloop in Hrun.
    destruct o as [p| |]; inversion Hrun; subst. split; [exact Ho|intros; reflexivity].
  Qed.

  (* Not: the entries of the result are entries of the receiver's index *)
  Lemma not_loop_nn t st0 sub : forall oix res j n st,
    Forall (fun z => (0 <= z)%Z) oix ->
    keeps st0 st -> store_fresh t n st -> in_bounds st res -> own_in st0 res -> nonneg (seg_of st res) ->
    exists o n' st',
      run env t (for_eachO oix
         (fun ix (st : slice * nat) =>
            let '(r0, j) := st in
            let? f := step2 (j <? s_len sub)%nat sub j ix in
            if fst f then Ret (Ok (r0, snd f))
            else let* r' := slice_append r0 (VZ ix) in Ret (Ok (r', snd f))) (res, j)) n st = (o, n', st') /\
      match o with Ok p => nonneg (seg_of st' (fst p)) | _ => True end.
  Proof.
    induction oix as [|ix oix IH]; intros res j n st Hnn Hk Hf Hb Hown Hres.
    - simpl. eexists _, _, _. split; [reflexivity|]. exact Hres.
    - inversion Hnn as [|? ? Hix Hnn']; subst. cbn [for_eachO].
      destruct (step2_pure t (j <? s_len sub)%nat sub j ix n st) as [o1 H1].
      destruct o1 as [f1| |].
      2:{ eexists Fail, n, st. split; [|exact I]. erewrite run_bindO_fail; [reflexivity|].
          erewrite run_bindO_fail; [reflexivity|exact H1]. }
      2:{ eexists Panic, n, st. split; [|exact I]. erewrite run_bindO_panic; [reflexivity|].
          erewrite run_bindO_panic; [reflexivity|exact H1]. }
      destruct (fst f1) eqn:Ef.
      + destruct (IH res (snd f1) n st Hnn' Hk Hf Hb Hown Hres) as (o & n' & st' & Hloop & Ho).
        exists o, n', st'. split; [|exact Ho].
        erewrite run_bindO_ok; [exact Hloop|]. erewrite run_bindO_ok; [|exact H1]. rewrite Ef. reflexivity.
      + destruct (append_spec env t res (VZ ix) n st0 st Hk Hf Hb Hown)
          as (r1 & n1 & st1 & Hrun & Hseg & Hb1 & _ & Hk1 & Hf1 & _ & Hown1 & _).
        destruct (IH r1 (snd f1) n1 st1 Hnn' Hk1 Hf1 Hb1 Hown1) as (o & n' & st' & Hloop & Ho).
        { rewrite Hseg. apply nonneg_app; [exact Hres|apply nonneg_one; exact Hix]. }
        exists o, n', st'. split; [|exact Ho].
        erewrite run_bindO_ok; [exact Hloop|]. erewrite run_bindO_ok; [|exact H1]. rewrite Ef.
        erewrite run_bind_eq; [|exact Hrun]. reflexivity.
  Qed.

  Lemma not_index_nn t n st qf nq q' n' st' :
    store_fresh t n st -> in_bounds st (q_idx qf) -> nonneg (seg_of st (q_idx qf)) ->
    run env t (not_index qf nq) n st = (Ok q', n', st') ->
    nonneg (seg_of st' (q_idx q')) /\ q_map q' = q_map qf.
  Proof.
    intros Hf Hio Hno Hrun. unfold not_index in Hrun.
    set (c := s_len (q_idx qf) - s_len (q_idx nq)) in *.
    set (st1 := update st (t, n) (repeat (VZ 0) c)).
    set (r0 := mkSlice (t, n) 0 0 c).
    assert (Hfr : lookup st (t, n) = None) by (apply Hf; lia).
    assert (Hk1 : keeps st st1) by (apply keeps_update; exact Hfr).
    assert (Hr0 : in_bounds st1 r0).
    { split; simpl; [lia|]. unfold st1. rewrite read_update_same, repeat_length. lia. }
    destruct (not_loop_nn t st (q_idx nq) (map as_z (seg_of st (q_idx qf))) r0 0 (S n) st1
                (nonneg_as_z _ Hno) Hk1 (fresh_update _ _ _ _ Hf) Hr0 (or_intror Hfr))
      as (o & n2 & st2 & Hloop & Ho).
    { unfold r0. rewrite empty_seg. constructor. }
    erewrite run_bind_eq in Hrun; [|apply run_make]. fold st1 r0 in Hrun.
    erewrite run_bind_eq in Hrun; [|apply run_read_zs].
    rewrite (seg_keeps_eq _ _ _ Hk1 Hio) in Hrun.
    rewrite run_bindO_unfold, Hloop in Hrun.
    destruct o as [p| |]; inversion Hrun; subst. split; [exact Ho|reflexivity].
  Qed.
End Nonneg.

(* ==================================================================== L0: the results are sub-indexes *)
Lemma index_filter_incl : forall b ix out, Filter.index_filter ix b = Ok out -> incl out ix.
Proof.
  induction b as [|x b IH]; intros ix out H; simpl in H.
  - inversion H. intros p Hp. destruct Hp.
  - destruct ix as [|p ix].
    + destruct x; [discriminate|]. apply IH in H. exact H.
    + destruct (Filter.index_filter ix b) as [r| |] eqn:E; simpl in H; try discriminate. inversion H; subst.
      pose proof (IH _ _ E) as Hr. destruct x.
      * intros q [->|Hq]; [left; reflexivity|right; apply Hr; exact Hq].
      * intros q Hq. right. apply Hr. exact Hq.
Qed.

Lemma or_merge_incl : forall orig l r, incl (Filter.or_merge orig l r) orig.
Proof.
  induction orig as [|p orig IH]; intros l r; simpl; [apply incl_refl|].
  destruct l as [|x l]; [|destruct (Nat.eqb x p)]; (destruct r as [|y r]; [|destruct (Nat.eqb y p)]); simpl;
    try (apply incl_cons; [left; reflexivity|]); apply incl_tl; apply IH.
Qed.

Lemma not_merge_incl : forall orig sub, incl (Filter.not_merge orig sub) orig.
Proof.
  induction orig as [|p orig IH]; intros sub; simpl; [apply incl_refl|].
  destruct sub as [|x sub]; [|destruct (Nat.eqb x p)];
    try (apply incl_cons; [left; reflexivity|]); apply incl_tl; apply IH.
Qed.

Lemma filter_leaves_sub mt g ls g' :
  Filter.filter_leaves mt g ls = Ok g' -> Frame.cols g' = Frame.cols g /\ incl (Frame.ix g') (Frame.ix g).
Proof.
  unfold Filter.filter_leaves. destruct (Frame.ferr g).
  { intro H. inversion H; subst. split; [reflexivity|apply incl_refl]. }
  destruct (Filter.ofold _ ls _) as [b| |]; try discriminate.
  - destruct (Filter.index_filter (Frame.ix g) b) as [i| |] eqn:E; simpl; try discriminate.
    intro H. inversion H; subst. split; [reflexivity|]. simpl. eapply index_filter_incl; eauto.
  - intro H. inversion H; subst. split; [reflexivity|apply incl_refl].
Qed.

(* ==================================================================== 2. the link of a leaf when the store grows *)
Section LinkKeeps.
  Variable env : fnid -> list val -> val.

  Lemma row_val_keeps st0 st hl u c argc i :
    keeps st0 st -> parts_in_bounds st0 c -> (forall a, argc = Some a -> parts_in_bounds st0 a) ->
    row_val env st hl u c argc i = row_val env st0 hl u c argc i.
  Proof.
    intros Hk Hc Ha. unfold row_val. rewrite (cell_val_keeps _ _ _ _ Hk Hc).
    destruct argc as [a|]; simpl; [rewrite (cell_val_keeps _ _ _ _ Hk (Ha a eq_refl))|]; reflexivity.
  Qed.

  (* the store only grows and existing locations keep their content: the columns of the leaf still resolve to the
     same headers, whose arrays are unchanged *)
  Lemma leaf_heap_ok_keeps st0 st m rows hl P :
    keeps st0 st -> Forall (fun e => parts_in_bounds st0 (snd e)) (map_of st0 m) ->
    (forall l, m = Some l -> lookup st0 l <> None) ->
    leaf_heap_ok env st0 m rows hl P -> leaf_heap_ok env st m rows hl P.
  Proof.
    intros Hk Hmp Hlive (c & argc & Hc & Harg & Hpro & Hbad & Hinv & HP).
    assert (Em : map_of st m = map_of st0 m) by (apply map_of_keeps'; auto).
    assert (Hpc : parts_in_bounds st0 c) by (eapply map_get_parts; eauto).
    assert (Hpa : forall a, argc = Some a -> parts_in_bounds st0 a).
    { intros a Ea. destruct (lf_arg hl) as [an|]; [|congruence].
      destruct Harg as (a' & Ha' & Ea'). rewrite Ea' in Ea. inversion Ea; subst. eapply map_get_parts; eauto. }
    exists c, argc. rewrite Em. split; [exact Hc|]. split; [exact Harg|]. split; [exact Hpro|]. split; [exact Hbad|].
    split; [exact Hinv|].
    intros i Hi. rewrite (row_val_keeps st0 st _ _ _ _ _ Hk Hpc Hpa). apply HP. exact Hi.
  Qed.

  Lemma leaf_link_keeps mt st0 st m f hl l :
    keeps st0 st -> Forall (fun e => parts_in_bounds st0 (snd e)) (map_of st0 m) ->
    (forall l, m = Some l -> lookup st0 l <> None) ->
    leaf_link env mt st0 m f hl l -> leaf_link env mt st m f hl l.
  Proof.
    intros Hk Hmp Hlive (P & Hh & Hl0). exists P. split; [|exact Hl0]. eapply leaf_heap_ok_keeps; eauto.
  Qed.

  Lemma leaf_links_keeps mt st0 st m f hls ls :
    keeps st0 st -> Forall (fun e => parts_in_bounds st0 (snd e)) (map_of st0 m) ->
    (forall l, m = Some l -> lookup st0 l <> None) ->
    Forall2 (leaf_link env mt st0 m f) hls ls -> Forall2 (leaf_link env mt st m f) hls ls.
  Proof.
    intros Hk Hmp Hlive HF. induction HF as [|hl l hls ls H HF IH]; constructor; [|exact IH].
    eapply leaf_link_keeps; eauto.
  Qed.

  (* QFrame.filter keeps the by-name map and returns an index with non-negative entries *)
  Lemma qf_filter_extras dec mt t n st qf f i0 hls ls q' n' st' :
    ref_ok dec st qf -> abs1 dec st qf = Some (Frame.with_ix f i0) -> incl i0 (Frame.ix f) ->
    store_fresh t n st -> Forall2 (leaf_link env mt st (q_map qf) f) hls ls ->
    nonneg (seg_of st (q_idx qf)) ->
    run env t (qf_filter hls qf) n st = (Ok q', n', st') ->
    q_map q' = q_map qf /\ nonneg (seg_of st' (q_idx q')).
  Proof.
    intros Hok Habs Hincl Hf HF Hnn Hrun. destruct (abs1_inv _ _ _ _ Habs) as (Hc & Hi & He). simpl in Hi, He.
    unfold qf_filter in Hrun. destruct (q_err qf) eqn:Eerr.
    { inversion Hrun; subst. auto. }
    set (len := s_len (q_idx qf)) in *. set (lb := (t, n)).
    set (st1 := update st lb (repeat (VB false) len)).
    assert (Hfr : lookup st lb = None) by (apply Hf; lia).
    assert (Hk1 : keeps st st1) by (apply keeps_update; exact Hfr).
    destruct (leaves_loop env mt t st qf lb len f i0 Hfr (ro_idx _ _ _ Hok) eq_refl (ro_mparts _ _ _ Hok) (ro_mlive _ _ _ Hok)
                (eq_sym Hi) Hincl hls ls HF (S n) st1 (repeat (VB false) len) Hk1 (fresh_update _ _ _ _ Hf))
      as (n2 & st2 & arr2 & Hloop & Hk2 & Hf2 & Hl2 & Ha2 & Hfold).
    { unfold st1. apply lookup_update_same. }
    { apply repeat_length. }
    unfold new_bool in Hrun. erewrite run_bind_eq in Hrun; [|apply run_make]. fold len lb st1 in Hrun.
    erewrite run_bind_eq in Hrun; [|exact Hloop]. cbv iota in Hrun.
    rewrite run_bindO_unfold in Hrun.
    destruct (run env t (index_filter (q_idx qf) (mkSlice lb 0 len len)) n2 st2) as [[o n3] st3] eqn:Eif.
    apply index_filter_nn in Eif; [|exact Hf2|eapply in_bounds_keeps; [exact Hk2|apply (ro_idx _ _ _ Hok)]|].
    2:{ rewrite (seg_keeps_eq _ _ _ Hk2 (ro_idx _ _ _ Hok)). exact Hnn. }
    destruct o as [r| |]; inversion Hrun; subst. simpl. auto.
  Qed.
End LinkKeeps.

(* ==================================================================== 3. the clause tree *)
(* the loop of AndClause.filter of Model/HeapOps.v, named (clause_filter (CAnd ..) unfolds to it) *)
Definition and_go : list clause -> qframe -> prog (outcome qframe) :=
  fix go (cs : list clause) (cur : qframe) {struct cs} : prog (outcome qframe) :=
    match cs with
    | [] => Ret (Ok cur)
    | c1 :: r => let? n := clause_filter c1 cur in go r n
    end.

Lemma clause_filter_and err cs qf :
  clause_filter (CAnd err cs) qf =
  if q_err qf then Ret (Ok qf) else if err then Ret (Ok (with_err qf)) else and_go cs qf.
Proof. reflexivity. Qed.

Lemma clause_filter_not_other err hc qf : (forall hl, hc <> CLeaf hl) ->
  clause_filter (CNot err hc) qf =
  if q_err qf then Ret (Ok qf) else if err then Ret (Ok (with_err qf)) else
  let? nq := clause_filter hc qf in if q_err nq then Ret (Ok nq) else not_index qf nq.
Proof. intro H. destruct hc; try reflexivity. exfalso. eapply H. reflexivity. Qed.

Lemma or_go_leaf qf hl r filters acc : or_go qf (CLeaf hl :: r) filters acc = or_go qf r (filters ++ [hl]) acc.
Proof. reflexivity. Qed.

Lemma or_go_other qf c1 r filters acc : (forall hl, c1 <> CLeaf hl) ->
  or_go qf (c1 :: r) filters acc =
  (let? acc1 := flush_or qf filters acc in
   let? nq := clause_filter c1 qf in
   let? acc2 := or_frames qf acc1 nq in
   or_go qf r [] (Some acc2)).
Proof. intro H. destruct c1; try reflexivity. exfalso. eapply H. reflexivity. Qed.

Lemma or_go_nil qf filters acc :
  or_go qf [] filters acc =
  (let? acc1 := flush_or qf filters acc in Ret (match acc1 with Some r => Ok r | None => Panic end)).
Proof. reflexivity. Qed.

(* the same for the L0 model *)
Definition l0_flush (mt : Filter.matcher_table) (g : Frame.frame) (pending : list Filter.leaf) (acc : option Frame.frame)
  : outcome (option Frame.frame) :=
  match pending with
  | [] => Ok acc
  | _ => do nf <- Filter.filter_leaves mt g (rev pending); Ok (Some (Filter.or_frames g acc nf))
  end.

Lemma l0_and mt cs g :
  Filter.clause_filter mt (Filter.CAnd cs) g =
  if Frame.ferr g then Ok g else if Filter.clause_err (Filter.CAnd cs) then Ok (Frame.with_err g)
  else Filter.and_loop (fun c' g' => Filter.clause_filter mt c' g') cs g.
Proof. reflexivity. Qed.

Lemma l0_or mt cs g :
  Filter.clause_filter mt (Filter.COr cs) g =
  if Frame.ferr g then Ok g else if Filter.clause_err (Filter.COr cs) then Ok (Frame.with_err g)
  else Filter.or_loop mt (fun c' g' => Filter.clause_filter mt c' g') g cs [] None.
Proof. reflexivity. Qed.

Lemma l0_not_other mt c g : (forall l, c <> Filter.CLeaf l) ->
  Filter.clause_filter mt (Filter.CNot c) g =
  if Frame.ferr g then Ok g else if Filter.clause_err (Filter.CNot c) then Ok (Frame.with_err g)
  else do nf <- Filter.clause_filter mt c g;
       if Frame.ferr nf then Ok nf else Ok (Frame.with_ix g (Filter.not_merge (Frame.ix g) (Frame.ix nf))).
Proof. intro H. destruct c; try reflexivity. exfalso. eapply H. reflexivity. Qed.

Lemma l0_or_nil mt cf g pending acc :
  Filter.or_loop mt cf g [] pending acc =
  do acc' <- l0_flush mt g pending acc; match acc' with Some r => Ok r | None => Panic end.
Proof. destruct pending; reflexivity. Qed.

Lemma l0_or_leaf mt cf g l rest pending acc :
  Filter.or_loop mt cf g (Filter.CLeaf l :: rest) pending acc = Filter.or_loop mt cf g rest (l :: pending) acc.
Proof. reflexivity. Qed.

Lemma l0_or_other mt cf g c rest pending acc : (forall l, c <> Filter.CLeaf l) ->
  Filter.or_loop mt cf g (c :: rest) pending acc =
  do acc' <- l0_flush mt g pending acc; do nf <- cf c g; Filter.or_loop mt cf g rest [] (Some (Filter.or_frames g acc' nf)).
Proof. intro H. destruct c; try (destruct pending; reflexivity). exfalso. eapply H. reflexivity. Qed.

Lemma Forall2_snoc {X Y} (R : X -> Y -> Prop) xs ys x y : Forall2 R xs ys -> R x y -> Forall2 R (xs ++ [x]) (ys ++ [y]).
Proof. intros H Hxy. apply Forall2_app; [exact H|]. constructor; [exact Hxy|constructor]. Qed.

Section ClauseTree.
  Variable env : fnid -> list val -> val.
  Variable dec : decoder.
  Variable mt : Filter.matcher_table.
  Variable st0 : store.              (* the store in which QFrame.Filter starts *)
  Variable m : option loc.           (* the by-name map of the receiver *)
  Variable f : Frame.frame.          (* the receiver at L0: its index holds THE ROWS *)
  Variable LL : leaf -> Filter.leaf -> Prop.       (* the link between heap leaves and L0 leaves *)

  (* the relation between heap clause trees and L0 clause trees (clause_rel of HeapRefine2 with the link left
     abstract) *)
  Inductive crel : clause -> Filter.clause -> Prop :=
  | GR_leaf hl l : LL hl l -> crel (CLeaf hl) (Filter.CLeaf l)
  | GR_null : crel CNull Filter.CNull
  | GR_not_leaf hl l : LL (toggle hl) (Filter.invert_leaf l) ->
                       crel (CNot false (CLeaf hl)) (Filter.CNot (Filter.CLeaf l))
  | GR_not hc c : (forall hl, hc <> CLeaf hl) -> crel hc c ->
                  crel (CNot (Filter.clause_err (Filter.CNot c)) hc) (Filter.CNot c)
  | GR_and hcs cs : Forall2 crel hcs cs -> crel (CAnd (Filter.clause_err (Filter.CAnd cs)) hcs) (Filter.CAnd cs)
  | GR_or hcs cs : Forall2 crel hcs cs -> crel (COr (Filter.clause_err (Filter.COr cs)) hcs) (Filter.COr cs).

  (* induction over the tree, with the induction hypothesis for every member of an And / Or *)
  Section CrelInd.
    Variable Q : clause -> Filter.clause -> Prop.
    Hypothesis Hleaf : forall hl l, LL hl l -> Q (CLeaf hl) (Filter.CLeaf l).
    Hypothesis Hnull : Q CNull Filter.CNull.
    Hypothesis Hnotl : forall hl l, LL (toggle hl) (Filter.invert_leaf l) ->
                                    Q (CNot false (CLeaf hl)) (Filter.CNot (Filter.CLeaf l)).
    Hypothesis Hnot : forall hc c, (forall hl, hc <> CLeaf hl) -> crel hc c -> Q hc c ->
                                   Q (CNot (Filter.clause_err (Filter.CNot c)) hc) (Filter.CNot c).
    Hypothesis Hand : forall hcs cs, Forall2 (fun h c => crel h c /\ Q h c) hcs cs ->
                                     Q (CAnd (Filter.clause_err (Filter.CAnd cs)) hcs) (Filter.CAnd cs).
    Hypothesis Hor : forall hcs cs, Forall2 (fun h c => crel h c /\ Q h c) hcs cs ->
                                    Q (COr (Filter.clause_err (Filter.COr cs)) hcs) (Filter.COr cs).

    Fixpoint crel_strong hc c (H : crel hc c) {struct H} : Q hc c :=
      match H in crel hc c return Q hc c with
      | GR_leaf hl l h => Hleaf hl l h
      | GR_null => Hnull
      | GR_not_leaf hl l h => Hnotl hl l h
      | GR_not hc c hn h => Hnot hc c hn h (crel_strong hc c h)
      | GR_and hcs cs hf =>
          Hand hcs cs
            ((fix go hcs cs (hf : Forall2 crel hcs cs) {struct hf} : Forall2 (fun h c => crel h c /\ Q h c) hcs cs :=
                match hf in Forall2 _ hcs cs return Forall2 (fun h c => crel h c /\ Q h c) hcs cs with
                | Forall2_nil _ => Forall2_nil _
                | @Forall2_cons _ _ _ x y l l' hxy hr =>
                    @Forall2_cons _ _ _ x y l l' (conj hxy (crel_strong x y hxy)) (go l l' hr)
                end) hcs cs hf)
      | GR_or hcs cs hf =>
          Hor hcs cs
            ((fix go hcs cs (hf : Forall2 crel hcs cs) {struct hf} : Forall2 (fun h c => crel h c /\ Q h c) hcs cs :=
                match hf in Forall2 _ hcs cs return Forall2 (fun h c => crel h c /\ Q h c) hcs cs with
                | Forall2_nil _ => Forall2_nil _
                | @Forall2_cons _ _ _ x y l l' hxy hr =>
                    @Forall2_cons _ _ _ x y l l' (conj hxy (crel_strong x y hxy)) (go l l' hr)
                end) hcs cs hf)
      end.
  End CrelInd.

  Lemma crel_cases hc c : crel hc c ->
    (exists hl l, hc = CLeaf hl /\ c = Filter.CLeaf l /\ LL hl l) \/
    ((forall hl, hc <> CLeaf hl) /\ (forall l, c <> Filter.CLeaf l)).
  Proof.
    intros [hl l H| |hl l H|hc' c' Hn H|hcs cs H|hcs cs H];
      [left; exists hl, l; auto| | | | |]; right; split; intros; discriminate.
  Qed.

  (* ---- the state of the induction: a struct copy of the receiver whose index is a sub-index of the rows *)
  Definition cur_ok (st : store) (qf : qframe) (g : Frame.frame) : Prop :=
    keeps st0 st /\ q_map qf = m /\ ref_ok dec st qf /\ abs1 dec st qf = Some g /\
    Frame.cols g = Frame.cols f /\ incl (Frame.ix g) (Frame.ix f) /\ nonneg (seg_of st (q_idx qf)).

  Definition post (r0 : outcome Frame.frame) (t : nat) (st : store) (res : outcome qframe) (n' : nat) (st' : store) : Prop :=
    keeps st st' /\ store_fresh t n' st' /\
    match res with
    | Ok qf' => exists g', r0 = Ok g' /\ cur_ok st' qf' g'
    | Panic => r0 = Panic
    | Fail => False
    end.

  (* ALL the induction needs from the leaves: a batch of linked leaves is refined by QFrame.filter on every later
     store, for every struct copy of the receiver whose index is a sub-index of the rows *)
  Definition leaves_ok : Prop :=
    forall hls ls, Forall2 LL hls ls -> forall t n st qf i0,
      cur_ok st qf (Frame.with_ix f i0) -> q_err qf = false -> store_fresh t n st ->
      exists res n' st', run env t (qf_filter hls qf) n st = (res, n', st') /\
                         post (Filter.filter_leaves mt (Frame.with_ix f i0) ls) t st res n' st'.

  Hypothesis Hferr : Frame.ferr f = false.
  Hypothesis Hleaves : leaves_ok.

  Lemma cur_ok_keeps st st' qf g : keeps st st' -> cur_ok st qf g -> cur_ok st' qf g.
  Proof.
    intros Hk (K & M & R & A & C & I & N). split; [eapply keeps_trans; eauto|]. split; [exact M|].
    split; [eapply ref_ok_keeps; eauto|]. split; [rewrite (abs1_keeps _ _ _ _ Hk R); exact A|].
    split; [exact C|]. split; [exact I|]. rewrite (seg_keeps_eq _ _ _ Hk (ro_idx _ _ _ R)). exact N.
  Qed.

  Lemma cur_err st qf g : cur_ok st qf g -> Frame.ferr g = q_err qf.
  Proof. intros (_ & _ & _ & A & _). destruct (abs1_inv _ _ _ _ A) as (_ & _ & He). exact He. Qed.

  Lemma cur_eta st qf g : cur_ok st qf g -> q_err qf = false -> g = Frame.with_ix f (Frame.ix g).
  Proof.
    intros Hc He. pose proof (cur_err _ _ _ Hc) as Hg. rewrite He in Hg.
    destruct Hc as (_ & _ & _ & _ & C & _). destruct g as [cs i e]. simpl in *. subst.
    unfold Frame.with_ix. simpl. rewrite Hferr. reflexivity.
  Qed.

  Lemma post_refl t n st qf g : cur_ok st qf g -> store_fresh t n st -> post (Ok g) t st (Ok qf) n st.
  Proof. intros Hc Hf. split; [apply keeps_refl|]. split; [exact Hf|]. exists g. auto. Qed.

  Lemma post_trans r0 t st st1 res n' st' : keeps st st1 -> post r0 t st1 res n' st' -> post r0 t st res n' st'.
  Proof. intros Hk (K & F & R). split; [eapply keeps_trans; eauto|]. split; [exact F|exact R]. Qed.

  Lemma with_err_cur st qf g : cur_ok st qf g -> cur_ok st (with_err qf) (Frame.with_err g).
  Proof.
    intros (K & M & R & A & C & I & N). split; [exact K|]. split; [exact M|]. split; [apply with_err_ok; exact R|].
    split; [apply with_err_abs; exact A|]. split; [exact C|]. split; [exact I|exact N].
  Qed.

  (* every clause returns the frame itself when it already carries an error *)
  Lemma leaves_case hls ls : Forall2 LL hls ls -> forall t n st qf g,
    cur_ok st qf g -> store_fresh t n st ->
    exists res n' st', run env t (qf_filter hls qf) n st = (res, n', st') /\
                       post (Filter.filter_leaves mt g ls) t st res n' st'.
  Proof.
    intros HF t n st qf g Hc Hf. destruct (q_err qf) eqn:E.
    - exists (Ok qf), n, st. split; [unfold qf_filter; rewrite E; reflexivity|].
      unfold Filter.filter_leaves. rewrite (cur_err _ _ _ Hc), E. apply post_refl; assumption.
    - pose proof (cur_eta _ _ _ Hc E) as Eg.
      assert (Hc' : cur_ok st qf (Frame.with_ix f (Frame.ix g))) by (rewrite <- Eg; exact Hc).
      destruct (Hleaves hls ls HF t n st qf (Frame.ix g) Hc' E Hf) as (res & n' & st' & Hrun & Hpost).
      rewrite <- Eg in Hpost. exists res, n', st'. auto.
  Qed.

  (* ---- the index merges, with everything the induction carries along *)
  Lemma not_index_cur t n st qf nq g gn :
    cur_ok st qf g -> cur_ok st nq gn -> store_fresh t n st ->
    exists q' n' st',
      run env t (not_index qf nq) n st = (Ok q', n', st') /\ keeps st st' /\ store_fresh t n' st' /\
      cur_ok st' q' (Frame.with_ix g (Filter.not_merge (Frame.ix g) (Frame.ix gn))).
  Proof.
    intros (K & M & R & A & C & I & N) (Kn & Mn & Rn & An & Cn & In_ & Nn) Hf.
    destruct (refines_not_index env dec t n st qf nq g gn R Rn A An N Nn Hf)
      as (q' & n' & st' & Hrun & Hk & Hf' & Hok' & Habs').
    destruct (not_index_nn env t n st qf nq q' n' st' Hf (ro_idx _ _ _ R) N Hrun) as [Hnn Hmap].
    exists q', n', st'. split; [exact Hrun|]. split; [exact Hk|]. split; [exact Hf'|].
    split; [eapply keeps_trans; eauto|]. split; [congruence|]. split; [exact Hok'|]. split; [exact Habs'|].
    split; [exact C|]. split; [|exact Hnn].
    simpl. eapply incl_tran; [apply not_merge_incl|exact I].
  Qed.

  Lemma or_frames_cur t n st orig l rhs go gl gr :
    cur_ok st orig go -> cur_ok st l gl -> cur_ok st rhs gr -> store_fresh t n st ->
    exists q' n' st',
      run env t (or_frames orig (Some l) rhs) n st = (Ok q', n', st') /\ keeps st st' /\ store_fresh t n' st' /\
      cur_ok st' q' (Filter.or_frames go (Some gl) gr).
  Proof.
    intros (K & M & R & A & C & I & N) (Kl & Ml & Rl & Al & Cl & Il & Nl) (Kr & Mr & Rr & Ar & Cr & Ir & Nr) Hf.
    destruct (refines_or_frames env dec t n st orig l rhs go gl gr R Rl Rr A Al Ar N Nl Nr Hf)
      as (q' & n' & st' & Hrun & Hk & Hf' & Hok' & Habs').
    destruct (or_frames_nn env t n st orig l rhs q' n' st' Hf (ro_idx _ _ _ R) N Nl Nr Hrun) as [Hnn Hmap].
    exists q', n', st'. split; [exact Hrun|]. split; [exact Hk|]. split; [exact Hf'|].
    split; [eapply keeps_trans; eauto|]. split; [rewrite Hmap; congruence|]. split; [exact Hok'|]. split; [exact Habs'|].
    split; [|split; [|exact Hnn]]; unfold Filter.or_frames; destruct (Frame.ferr gl); auto; destruct (Frame.ferr gr); auto.
    simpl. eapply incl_tran; [apply or_merge_incl|exact I].
  Qed.

  (* ---- the refinement of one clause, as a predicate on the pair of trees *)
  Definition P (hc : clause) (c : Filter.clause) : Prop :=
    forall t n st qf g, cur_ok st qf g -> store_fresh t n st ->
    exists res n' st', run env t (clause_filter hc qf) n st = (res, n', st') /\
                       post (Filter.clause_filter mt c g) t st res n' st'.

  Lemma P_leaf hl l : LL hl l -> P (CLeaf hl) (Filter.CLeaf l).
  Proof. intros H t n st qf g Hc Hf. apply leaves_case; auto. Qed.

  Lemma P_null : P CNull Filter.CNull.
  Proof. intros t n st qf g Hc Hf. exists (Ok qf), n, st. split; [reflexivity|]. apply post_refl; assumption. Qed.

  Lemma P_not_leaf hl l : LL (toggle hl) (Filter.invert_leaf l) -> P (CNot false (CLeaf hl)) (Filter.CNot (Filter.CLeaf l)).
  Proof.
    intros H t n st qf g Hc Hf. simpl. rewrite (cur_err _ _ _ Hc). destruct (q_err qf) eqn:E.
    - exists (Ok qf), n, st. split; [reflexivity|]. apply post_refl; assumption.
    - apply leaves_case; auto.
  Qed.

  Lemma P_not hc c : (forall hl, hc <> CLeaf hl) -> crel hc c -> P hc c ->
    P (CNot (Filter.clause_err (Filter.CNot c)) hc) (Filter.CNot c).
  Proof.
    intros Hn Hrel HP t n st qf g Hc Hf.
    assert (Hn0 : forall l, c <> Filter.CLeaf l).
    { destruct (crel_cases _ _ Hrel) as [(hl & l & E & _)|[_ H]]; [exfalso; eapply Hn; eauto|exact H]. }
    rewrite (clause_filter_not_other _ _ _ Hn), (l0_not_other mt _ _ Hn0), (cur_err _ _ _ Hc).
    destruct (q_err qf) eqn:E.
    { exists (Ok qf), n, st. split; [reflexivity|]. apply post_refl; assumption. }
    destruct (Filter.clause_err (Filter.CNot c)) eqn:Ece.
    { exists (Ok (with_err qf)), n, st. split; [reflexivity|]. apply post_refl; [apply with_err_cur; exact Hc|exact Hf]. }
    destruct (HP t n st qf g Hc Hf) as (res & n1 & st1 & Hrun & Hk1 & Hf1 & Hres).
    destruct res as [nq| |].
    - destruct Hres as (gn & Hgn & Hcn). rewrite Hgn. cbn [obind]. rewrite (cur_err _ _ _ Hcn).
      erewrite run_bindO_ok; [|exact Hrun].
      destruct (q_err nq) eqn:En.
      { exists (Ok nq), n1, st1. split; [reflexivity|]. split; [exact Hk1|]. split; [exact Hf1|]. exists gn. auto. }
      destruct (not_index_cur t n1 st1 qf nq g gn (cur_ok_keeps _ _ _ _ Hk1 Hc) Hcn Hf1)
        as (q' & n' & st' & Hrun' & Hk' & Hf' & Hc').
      exists (Ok q'), n', st'. split; [exact Hrun'|]. split; [eapply keeps_trans; eauto|]. split; [exact Hf'|].
      eexists. split; [reflexivity|exact Hc'].
    - contradiction.
    - exists Panic, n1, st1. split; [erewrite run_bindO_panic; [reflexivity|exact Hrun]|].
      split; [exact Hk1|]. split; [exact Hf1|]. rewrite Hres. reflexivity.
  Qed.

  Lemma and_loop_ok hcs cs : Forall2 (fun h c => crel h c /\ P h c) hcs cs -> forall t n st qf g,
    cur_ok st qf g -> store_fresh t n st ->
    exists res n' st', run env t (and_go hcs qf) n st = (res, n', st') /\
                       post (Filter.and_loop (fun c' g' => Filter.clause_filter mt c' g') cs g) t st res n' st'.
  Proof.
    intro HF. induction HF as [|hc c hcs cs [_ HP] HF IH]; intros t n st qf g Hc Hf.
    - exists (Ok qf), n, st. split; [reflexivity|]. apply post_refl; assumption.
    - cbn [and_go Filter.and_loop].
      destruct (HP t n st qf g Hc Hf) as (res & n1 & st1 & Hrun & Hk1 & Hf1 & Hres).
      destruct res as [nq| |].
      + destruct Hres as (gn & Hgn & Hcn). rewrite Hgn. cbn [obind].
        destruct (IH t n1 st1 nq gn Hcn Hf1) as (res & n' & st' & Hrun' & Hpost).
        exists res, n', st'. split; [erewrite run_bindO_ok; [exact Hrun'|exact Hrun]|].
        eapply post_trans; eauto.
      + contradiction.
      + exists Panic, n1, st1. split; [erewrite run_bindO_panic; [reflexivity|exact Hrun]|].
        split; [exact Hk1|]. split; [exact Hf1|]. rewrite Hres. reflexivity.
  Qed.

  Lemma P_and hcs cs : Forall2 (fun h c => crel h c /\ P h c) hcs cs ->
    P (CAnd (Filter.clause_err (Filter.CAnd cs)) hcs) (Filter.CAnd cs).
  Proof.
    intros HF t n st qf g Hc Hf. rewrite clause_filter_and, l0_and, (cur_err _ _ _ Hc).
    destruct (q_err qf) eqn:E.
    { exists (Ok qf), n, st. split; [reflexivity|]. apply post_refl; assumption. }
    destruct (Filter.clause_err (Filter.CAnd cs)) eqn:Ece.
    { exists (Ok (with_err qf)), n, st. split; [reflexivity|]. apply post_refl; [apply with_err_cur; exact Hc|exact Hf]. }
    apply and_loop_ok; assumption.
  Qed.

  (* ---- Or: leaf batches, flushes, merges *)
  Definition acc_rel (st : store) (acc : option qframe) (accL : option Frame.frame) : Prop :=
    match acc, accL with
    | None, None => True
    | Some aq, Some ag => cur_ok st aq ag
    | _, _ => False
    end.

  Lemma acc_rel_keeps st st' acc accL : keeps st st' -> acc_rel st acc accL -> acc_rel st' acc accL.
  Proof. intros Hk. destruct acc, accL; simpl; auto. apply cur_ok_keeps; exact Hk. Qed.

  Lemma or_acc_ok t n st qf g acc accL nq gn :
    cur_ok st qf g -> acc_rel st acc accL -> cur_ok st nq gn -> store_fresh t n st ->
    exists q' n' st', run env t (or_frames qf acc nq) n st = (Ok q', n', st') /\ keeps st st' /\ store_fresh t n' st' /\
      cur_ok st' q' (Filter.or_frames g accL gn).
  Proof.
    intros Hc Ha Hn Hf. destruct acc as [aq|], accL as [ag|]; simpl in Ha; try contradiction.
    - apply or_frames_cur; assumption.
    - exists nq, n, st. split; [reflexivity|]. split; [apply keeps_refl|]. split; [exact Hf|exact Hn].
  Qed.

  Lemma flush_ok t n st qf g filters pending acc accL :
    cur_ok st qf g -> store_fresh t n st -> Forall2 LL filters (rev pending) -> acc_rel st acc accL ->
    exists res n' st',
      run env t (flush_or qf filters acc) n st = (res, n', st') /\ keeps st st' /\ store_fresh t n' st' /\
      match res with
      | Ok acc1 => exists accL1, l0_flush mt g pending accL = Ok accL1 /\ acc_rel st' acc1 accL1
      | Panic => l0_flush mt g pending accL = Panic
      | Fail => False
      end.
  Proof.
    intros Hc Hf HF Ha. destruct filters as [|h0 hr].
    - assert (Er : rev pending = []) by (inversion HF; auto).
      destruct pending as [|p q]; [|simpl in Er; apply app_eq_nil in Er; destruct Er; discriminate].
      exists (Ok acc), n, st. split; [reflexivity|]. split; [apply keeps_refl|]. split; [exact Hf|].
      exists accL. split; [reflexivity|exact Ha].
    - assert (Hp : exists p q, pending = p :: q) by (destruct pending as [|p q]; [simpl in HF; inversion HF|eauto]).
      destruct Hp as (p & q & Ep).
      destruct (leaves_case _ _ HF t n st qf g Hc Hf) as (res & n1 & st1 & Hrun & Hk1 & Hf1 & Hres).
      rewrite Ep. unfold flush_or, l0_flush. rewrite <- Ep.
      destruct res as [nq| |].
      + destruct Hres as (gn & Hgn & Hcn). rewrite Hgn. cbn [obind].
        destruct (or_acc_ok t n1 st1 qf g acc accL nq gn (cur_ok_keeps _ _ _ _ Hk1 Hc) (acc_rel_keeps _ _ _ _ Hk1 Ha) Hcn Hf1)
          as (q' & n' & st' & Hrun' & Hk' & Hf' & Hc').
        exists (Ok (Some q')), n', st'. split.
        { erewrite run_bindO_ok; [|exact Hrun]. erewrite run_bindO_ok; [|exact Hrun']. reflexivity. }
        split; [eapply keeps_trans; eauto|]. split; [exact Hf'|]. eexists. split; [reflexivity|exact Hc'].
      + contradiction.
      + exists Panic, n1, st1. split; [erewrite run_bindO_panic; [reflexivity|exact Hrun]|].
        split; [exact Hk1|]. split; [exact Hf1|]. rewrite Hres. reflexivity.
  Qed.

  Lemma or_loop_ok qf g hcs cs : Forall2 (fun h c => crel h c /\ P h c) hcs cs ->
    forall filters pending acc accL t n st,
    cur_ok st qf g -> store_fresh t n st -> Forall2 LL filters (rev pending) -> acc_rel st acc accL ->
    exists res n' st', run env t (or_go qf hcs filters acc) n st = (res, n', st') /\
      post (Filter.or_loop mt (fun c' g' => Filter.clause_filter mt c' g') g cs pending accL) t st res n' st'.
  Proof.
    intro HF. induction HF as [|hc c hcs cs [Hrel HP] HF IH]; intros filters pending acc accL t n st Hc Hf Hfl Ha.
    - rewrite or_go_nil, l0_or_nil.
      destruct (flush_ok t n st qf g filters pending acc accL Hc Hf Hfl Ha) as (res & n1 & st1 & Hrun & Hk1 & Hf1 & Hres).
      destruct res as [acc1| |].
      + destruct Hres as (accL1 & Hfl1 & Ha1). rewrite Hfl1. cbn [obind].
        destruct acc1 as [r|], accL1 as [rg|]; simpl in Ha1; try contradiction.
        * exists (Ok r), n1, st1. split; [erewrite run_bindO_ok; [|exact Hrun]; reflexivity|].
          split; [exact Hk1|]. split; [exact Hf1|]. exists rg. auto.
        * exists Panic, n1, st1. split; [erewrite run_bindO_ok; [|exact Hrun]; reflexivity|].
          split; [exact Hk1|]. split; [exact Hf1|reflexivity].
      + contradiction.
      + exists Panic, n1, st1. split; [erewrite run_bindO_panic; [reflexivity|exact Hrun]|].
        split; [exact Hk1|]. split; [exact Hf1|]. rewrite Hres. reflexivity.
    - destruct (crel_cases _ _ Hrel) as [(hl & l & -> & -> & Hl)|[Hn Hn0]].
      + rewrite or_go_leaf, l0_or_leaf. apply IH; auto. simpl. apply Forall2_snoc; assumption.
      + rewrite (or_go_other _ _ _ _ _ Hn), (l0_or_other mt _ _ _ _ _ _ Hn0).
        destruct (flush_ok t n st qf g filters pending acc accL Hc Hf Hfl Ha) as (res & n1 & st1 & Hrun & Hk1 & Hf1 & Hres).
        destruct res as [acc1| |].
        2:{ contradiction. }
        2:{ exists Panic, n1, st1. split; [erewrite run_bindO_panic; [reflexivity|exact Hrun]|].
            split; [exact Hk1|]. split; [exact Hf1|]. rewrite Hres. reflexivity. }
        destruct Hres as (accL1 & Hfl1 & Ha1). rewrite Hfl1. cbn [obind].
        pose proof (cur_ok_keeps _ _ _ _ Hk1 Hc) as Hc1.
        destruct (HP t n1 st1 qf g Hc1 Hf1) as (res & n2 & st2 & Hrun2 & Hk2 & Hf2 & Hres).
        destruct res as [nq| |].
        2:{ contradiction. }
        2:{ exists Panic, n2, st2. split.
            { erewrite run_bindO_ok; [|exact Hrun]. erewrite run_bindO_panic; [reflexivity|exact Hrun2]. }
            split; [eapply keeps_trans; eauto|]. split; [exact Hf2|]. rewrite Hres. reflexivity. }
        destruct Hres as (gn & Hgn & Hcn). rewrite Hgn. cbn [obind].
        pose proof (cur_ok_keeps _ _ _ _ Hk2 Hc1) as Hc2.
        destruct (or_acc_ok t n2 st2 qf g acc1 accL1 nq gn Hc2 (acc_rel_keeps _ _ _ _ Hk2 Ha1) Hcn Hf2)
          as (q' & n3 & st3 & Hrun3 & Hk3 & Hf3 & Hc').
        pose proof (cur_ok_keeps _ _ _ _ Hk3 Hc2) as Hc3.
        destruct (IH [] [] (Some q') (Some (Filter.or_frames g accL1 gn)) t n3 st3 Hc3 Hf3 (Forall2_nil _) Hc')
          as (res & n' & st' & Hrun' & Hpost).
        exists res, n', st'. split.
        { erewrite run_bindO_ok; [|exact Hrun]. erewrite run_bindO_ok; [|exact Hrun2].
          erewrite run_bindO_ok; [|exact Hrun3]. exact Hrun'. }
        eapply post_trans; [|exact Hpost]. eapply keeps_trans; [exact Hk1|]. eapply keeps_trans; eauto.
  Qed.

  Lemma P_or hcs cs : Forall2 (fun h c => crel h c /\ P h c) hcs cs ->
    P (COr (Filter.clause_err (Filter.COr cs)) hcs) (Filter.COr cs).
  Proof.
    intros HF t n st qf g Hc Hf. rewrite clause_filter_or, l0_or, (cur_err _ _ _ Hc).
    destruct (q_err qf) eqn:E.
    { exists (Ok qf), n, st. split; [reflexivity|]. apply post_refl; assumption. }
    destruct (Filter.clause_err (Filter.COr cs)) eqn:Ece.
    { exists (Ok (with_err qf)), n, st. split; [reflexivity|]. apply post_refl; [apply with_err_cur; exact Hc|exact Hf]. }
    apply or_loop_ok; auto. constructor. exact I.
  Qed.

  (* THE INDUCTION: every related pair of clause trees is refined, on every later store, for every struct copy of
     the receiver whose index is a sub-index of the rows (with or without an error) *)
  Theorem clause_tree_refines hc c : crel hc c -> P hc c.
  Proof. apply (crel_strong P P_leaf P_null P_not_leaf P_not P_and P_or). Qed.

  (* QFrame.Filter of the receiver itself *)
  Theorem op_filter_refines t n qf c cl :
    ref_ok dec st0 qf -> abs1 dec st0 qf = Some f -> q_map qf = m -> store_fresh t n st0 ->
    nonneg (seg_of st0 (q_idx qf)) -> crel c cl ->
    exists res n' st',
      run env t (op_filter c qf) n st0 = (res, n', st') /\ keeps st0 st' /\ store_fresh t n' st' /\
      match res with
      | Ok qf' => ref_ok dec st' qf' /\ exists f', Filter.frame_filter mt f cl = Ok f' /\ abs1 dec st' qf' = Some f'
      | Panic => Filter.frame_filter mt f cl = Panic
      | Fail => False
      end.
  Proof.
    intros Hok Habs Hm Hf Hnn Hrel. destruct (abs1_inv _ _ _ _ Habs) as (_ & _ & He).
    unfold op_filter, Filter.frame_filter. rewrite Hferr. rewrite Hferr in He. rewrite <- He.
    assert (Hc : cur_ok st0 qf f).
    { split; [apply keeps_refl|]. split; [exact Hm|]. split; [exact Hok|]. split; [exact Habs|].
      split; [reflexivity|]. split; [apply incl_refl|exact Hnn]. }
    destruct (clause_tree_refines c cl Hrel t n st0 qf f Hc Hf) as (res & n' & st' & Hrun & Hk & Hf' & Hres).
    exists res, n', st'. split; [exact Hrun|]. split; [exact Hk|]. split; [exact Hf'|].
    destruct res as [q'| |]; auto.
    destruct Hres as (g' & Hg' & (_ & _ & R & A & _)). split; [exact R|]. exists g'. auto.
  Qed.
End ClauseTree.

(* ==================================================================== 4a. instance: the link of HeapRefine2 *)
Section LinkInstance.
  Variable env : fnid -> list val -> val.
  Variable dec : decoder.
  Variable mt : Filter.matcher_table.

  Lemma leaves_ok_link st0 m f :
    Forall (fun e => parts_in_bounds st0 (snd e)) (map_of st0 m) -> (forall l, m = Some l -> lookup st0 l <> None) ->
    leaves_ok env dec mt st0 m f (leaf_link env mt st0 m f).
  Proof.
    intros Hmp Hlive hls ls HF t n st qf i0 (K & M & R & A & C & I & N) He Hf. simpl in I.
    assert (HF' : Forall2 (leaf_link env mt st (q_map qf) f) hls ls).
    { rewrite M. eapply leaf_links_keeps; eauto. }
    destruct (refines_filter_leaves env dec mt t n st qf f i0 hls ls R A I Hf HF') as (res & n' & st' & Hrun & Hk & Hf' & Hres).
    exists res, n', st'. split; [exact Hrun|]. split; [exact Hk|]. split; [exact Hf'|].
    destruct res as [q'| |]; auto.
    destruct Hres as (Hok' & f' & Hfl & Ha').
    destruct (qf_filter_extras env dec mt t n st qf f i0 hls ls q' n' st' R A I Hf HF' N Hrun) as [Hm' Hnn'].
    destruct (filter_leaves_sub _ _ _ _ Hfl) as [Cf If]. simpl in Cf, If.
    exists f'. split; [exact Hfl|]. split; [eapply keeps_trans; eauto|]. split; [congruence|]. split; [exact Hok'|].
    split; [exact Ha'|]. split; [exact Cf|]. split; [eapply incl_tran; eauto|exact Hnn'].
  Qed.

  (* clause_rel of HeapRefine2 is the generic relation at leaf_link *)
  Section ClauseRelInd.
    Variables (st : store) (m : option loc) (f : Frame.frame).
    Notation R := (clause_rel env mt st m f).
    Notation G := (crel (leaf_link env mt st m f)).
    Fixpoint clause_rel_crel hc c (H : R hc c) {struct H} : G hc c :=
      match H in clause_rel _ _ _ _ _ hc c return G hc c with
      | CR_leaf _ _ _ _ _ hl l h => GR_leaf _ hl l h
      | CR_null _ _ _ _ _ => GR_null _
      | CR_not_leaf _ _ _ _ _ hl l h => GR_not_leaf _ hl l h
      | CR_not _ _ _ _ _ hc c hn h => GR_not _ hc c hn (clause_rel_crel hc c h)
      | CR_and _ _ _ _ _ hcs cs hf =>
          GR_and _ hcs cs
            ((fix go hcs cs (hf : Forall2 R hcs cs) {struct hf} : Forall2 G hcs cs :=
                match hf in Forall2 _ hcs cs return Forall2 G hcs cs with
                | Forall2_nil _ => Forall2_nil _
                | @Forall2_cons _ _ _ x y l l' hxy hr => @Forall2_cons _ _ _ x y l l' (clause_rel_crel x y hxy) (go l l' hr)
                end) hcs cs hf)
      | CR_or _ _ _ _ _ hcs cs hf =>
          GR_or _ hcs cs
            ((fix go hcs cs (hf : Forall2 R hcs cs) {struct hf} : Forall2 G hcs cs :=
                match hf in Forall2 _ hcs cs return Forall2 G hcs cs with
                | Forall2_nil _ => Forall2_nil _
                | @Forall2_cons _ _ _ x y l l' hxy hr => @Forall2_cons _ _ _ x y l l' (clause_rel_crel x y hxy) (go l l' hr)
                end) hcs cs hf)
      end.
  End ClauseRelInd.

  (* QFrame.Filter with ANY clause tree: the statement left open in HeapRefine2 *)
  Theorem refines_clause_filter t n st qf f c cl :
    ref_ok dec st qf -> abs1 dec st qf = Some f -> store_fresh t n st ->
    nonneg (seg_of st (q_idx qf)) ->
    clause_rel env mt st (q_map qf) f c cl ->
    exists res n' st',
      run env t (op_filter c qf) n st = (res, n', st') /\ keeps st st' /\ store_fresh t n' st' /\
      match res with
      | Ok qf' => ref_ok dec st' qf' /\ exists f', Filter.frame_filter mt f cl = Ok f' /\ abs1 dec st' qf' = Some f'
      | Panic => Filter.frame_filter mt f cl = Panic
      | Fail => False
      end.
  Proof.
    intros Hok Habs Hf Hnn Hrel. destruct (abs1_inv _ _ _ _ Habs) as (_ & _ & He).
    destruct (q_err qf) eqn:Eerr.
    { unfold op_filter, Filter.frame_filter. rewrite He, Eerr.
      exists (Ok qf), n, st. split; [reflexivity|]. split; [apply keeps_refl|]. split; [exact Hf|]. split; [exact Hok|].
      exists f. auto. }
    apply (op_filter_refines env dec mt st (q_map qf) f (leaf_link env mt st (q_map qf) f) He
             (leaves_ok_link st (q_map qf) f (ro_mparts _ _ _ Hok) (ro_mlive _ _ _ Hok))); auto.
    apply clause_rel_crel. exact Hrel.
  Qed.

  (* ---- 5. FilteredApply end to end: no premise about the Filter step is left; what is asked of the Apply step is
     the conclusion of the theorems about apply0 / apply1 / apply2 on the struct copy with the filtered index *)
  Theorem refines_filtered_apply_clause ut t n st qf f c cl instrs is :
    ref_ok dec st qf -> abs1 dec st qf = Some f -> store_fresh t n st ->
    nonneg (seg_of st (q_idx qf)) ->
    clause_rel env mt st (q_map qf) f c cl ->
    (forall fq ff n1 st1, keeps st st1 -> store_fresh t n1 st1 -> ref_ok dec st1 fq ->
       Filter.frame_filter mt f cl = Ok ff -> abs1 dec st1 fq = Some ff -> q_err fq = false ->
       exists ra n2 st2,
         run env t (op_apply instrs (with_index qf (q_idx fq))) n1 st1 = (ra, n2, st2) /\ keeps st1 st2 /\
         match ra with
         | Ok nq => ref_ok dec st2 nq /\
                    exists r, Ops.apply ut (Frame.with_ix f (Frame.ix ff)) is = Ok r /\ abs1 dec st2 nq = Some r
         | Panic => Ops.apply ut (Frame.with_ix f (Frame.ix ff)) is = Panic
         | Fail => False
         end) ->
    exists res n' st',
      run env t (op_filtered_apply c instrs qf) n st = (res, n', st') /\ keeps st st' /\
      match res with
      | Ok q' => ref_ok dec st' q' /\ exists r, Ops.filtered_apply mt ut f cl is = Ok r /\ abs1 dec st' q' = Some r
      | Panic => Ops.filtered_apply mt ut f cl is = Panic
      | Fail => False
      end.
  Proof.
    intros Hok Habs Hf Hnn Hrel Happly.
    destruct (refines_clause_filter t n st qf f c cl Hok Habs Hf Hnn Hrel) as (rf & n1 & st1 & Hrun & Hk1 & Hf1 & Hrf).
    apply (refines_filtered_apply env dec mt ut t n st qf f c cl instrs is rf n1 st1 Hok Habs Hrun Hk1 Hrf).
    intros fq ff -> Ha Hq. destruct Hrf as (Hokq & ff' & Hff & Ha'). rewrite Ha in Ha'. inversion Ha'; subst ff'.
    apply (Happly fq ff n1 st1); auto.
  Qed.
End LinkInstance.

(* ==================================================================== 4b. promoted and second-mask leaves *)
Lemma loc_dec (a b : loc) : {a = b} + {a <> b}.
Proof. repeat decide equality. Qed.

Lemma skipn_head {X} (l : list X) k y r : skipn k l = y :: r -> nth_error l k = Some y.
Proof. intro H. rewrite <- (Nat.add_0_r k), <- nth_error_skipn', H. reflexivity. Qed.

Lemma mask_or_repeat_false n s : length s = n -> mask_or (repeat false n) s = s.
Proof.
  revert s. induction n as [|n IH]; intros [|x s] H; simpl in *; try discriminate; [reflexivity|].
  unfold mask_or in *. simpl. f_equal. apply IH. lia.
Qed.

Lemma col_data_len st c : parts_in_bounds st c -> length (seg_of st (col_data c)) = col_len c.
Proof.
  unfold parts_in_bounds, col_len, col_data. destruct (c_parts c) as [|d rest]; simpl; [reflexivity|].
  intro H. inversion H; subst. apply seg_length. assumption.
Qed.

Lemma col_data_keeps st st' c : keeps st st' -> parts_in_bounds st c -> seg_of st' (col_data c) = seg_of st (col_data c).
Proof.
  unfold parts_in_bounds, col_data. destruct (c_parts c) as [|d rest]; simpl; [reflexivity|].
  intros Hk H. inversion H; subst. apply seg_keeps_eq; assumption.
Qed.

Section SecondMask.
  Variable env : fnid -> list val -> val.

  (* the tail of the inverted leaf: for i, x := range bIndex { if !x { bIndex[i] = !invIndex[i] } } *)
  Lemma inv_loop t st0 lb li len :
    lookup st0 lb = None -> lb <> li ->
    forall rest irest pre n st arr0 iarr,
    length rest = length irest -> length pre + length rest = len ->
    keeps st0 st -> store_fresh t n st ->
    lookup st lb = Some arr0 -> length arr0 = len -> map as_b arr0 = pre ++ rest ->
    lookup st li = Some iarr -> length iarr = len -> skipn (length pre) (map as_b iarr) = irest ->
    exists st' arr',
      run env t (for_eachO (seq (length pre) (length rest))
                  (fun (i : nat) (_ : unit) =>
                     let? x := get_b (mkSlice lb 0 len len) i in
                     if (x : bool) then Ret (Ok tt)
                     else let? y := get_b (mkSlice li 0 len len) i in
                          slice_set (mkSlice lb 0 len len) i (VB (negb y))) tt) n st = (Ok tt, n, st') /\
      keeps st0 st' /\ store_fresh t n st' /\ lookup st' lb = Some arr' /\ length arr' = len /\
      lookup st' li = Some iarr /\
      map as_b arr' = pre ++ mask_or rest (map negb irest).
  Proof.
    intros Hlb Hne. induction rest as [|x rest IH]; intros irest pre n st arr0 iarr Hlr Hlen Hk Hf Hl Harr Hm Hli Hiarr Hsk.
    - destruct irest; [|discriminate]. simpl. exists st, arr0. repeat split; auto.
    - destruct irest as [|y irest]; [discriminate|]. cbn [length seq for_eachO map]. rewrite mask_or_cons.
      set (k := length pre) in *.
      assert (Hk_lt : k < len) by (simpl in Hlen; lia).
      assert (Hgb : get_val st (mkSlice lb 0 len len) k = idx arr0 k).
      { unfold get_val. simpl. replace (k <? len) with true by (symmetry; apply Nat.ltb_lt; exact Hk_lt).
        unfold read_loc. rewrite Hl. reflexivity. }
      assert (Hx : exists v, nth_error arr0 k = Some v /\ as_b v = x).
      { assert (E : nth_error (map as_b arr0) k = Some x).
        { rewrite Hm. unfold k. rewrite nth_error_app2 by lia. rewrite Nat.sub_diag. reflexivity. }
        rewrite nth_error_map in E. destruct (nth_error arr0 k) as [v|]; [|discriminate]. exists v. inversion E. auto. }
      destruct Hx as (vx & Hvx & Hxb).
      pose proof (run_get_b env t (mkSlice lb 0 len len) k n st) as Hg. rewrite Hgb in Hg. unfold idx in Hg. rewrite Hvx in Hg.
      simpl in Hg. rewrite Hxb in Hg.
      rewrite run_bindO_unfold. rewrite run_bindO_unfold, Hg.
      assert (Hnext : forall st1 arr1 z,
                 keeps st0 st1 -> store_fresh t n st1 -> lookup st1 lb = Some arr1 -> length arr1 = len ->
                 map as_b arr1 = pre ++ z :: rest -> lookup st1 li = Some iarr -> z = (x || negb y)%bool ->
                 exists st' arr',
                   run env t (for_eachO (seq (S k) (length rest))
                     (fun (i : nat) (_ : unit) =>
                        let? x := get_b (mkSlice lb 0 len len) i in
                        if (x : bool) then Ret (Ok tt)
                        else let? y := get_b (mkSlice li 0 len len) i in
                             slice_set (mkSlice lb 0 len len) i (VB (negb y))) tt) n st1 = (Ok tt, n, st') /\
                   keeps st0 st' /\ store_fresh t n st' /\ lookup st' lb = Some arr' /\ length arr' = len /\
                   lookup st' li = Some iarr /\
                   map as_b arr' = pre ++ (x || negb y)%bool :: mask_or rest (map negb irest)).
      { intros st1 arr1 z Hk1 Hf1 Hl1 Ha1 Hm1 Hli1 Hz.
        destruct (IH irest (pre ++ [z]) n st1 arr1 iarr) as (st' & arr' & Hrun & Hk' & Hf' & Hl' & Ha' & Hli' & Hm').
        - simpl in Hlr. lia.
        - rewrite app_length. simpl. simpl in Hlen. unfold k in *. lia.
        - exact Hk1.
        - exact Hf1.
        - exact Hl1.
        - exact Ha1.
        - rewrite <- app_assoc. exact Hm1.
        - exact Hli1.
        - exact Hiarr.
        - rewrite app_length. simpl. replace (length pre + 1) with (S k) by (unfold k; lia).
          apply (skipn_cons_S _ _ _ _ Hsk).
        - exists st', arr'. rewrite app_length in Hrun. simpl in Hrun. replace (length pre + 1) with (S k) in Hrun by (unfold k; lia).
          split; [exact Hrun|]. split; [exact Hk'|]. split; [exact Hf'|]. split; [exact Hl'|]. split; [exact Ha'|].
          split; [exact Hli'|]. rewrite Hm', <- app_assoc, Hz. reflexivity. }
      destruct x.
      + cbv iota. cbn [run]. apply (Hnext st arr0 true); auto.
      + cbv iota.
        assert (Hgi : get_val st (mkSlice li 0 len len) k = idx iarr k).
        { unfold get_val. simpl. replace (k <? len) with true by (symmetry; apply Nat.ltb_lt; exact Hk_lt).
          unfold read_loc. rewrite Hli. reflexivity. }
        assert (Hy : exists v, nth_error iarr k = Some v /\ as_b v = y).
        { pose proof (skipn_head _ _ _ _ Hsk) as E. rewrite nth_error_map in E.
          destruct (nth_error iarr k) as [v|]; [|discriminate]. exists v. inversion E. auto. }
        destruct Hy as (vy & Hvy & Hyb).
        pose proof (run_get_b env t (mkSlice li 0 len len) k n st) as Hg2. rewrite Hgi in Hg2. unfold idx in Hg2. rewrite Hvy in Hg2.
        simpl in Hg2. rewrite Hyb in Hg2.
        rewrite run_bindO_unfold, Hg2. rewrite run_slice_set. simpl s_len.
        replace (k <? len) with true by (symmetry; apply Nat.ltb_lt; exact Hk_lt). simpl s_base. simpl s_off.
        apply (Hnext (write_loc st lb (0 + k) (VB (negb y))) (set_nth arr0 k (VB (negb y))) (negb y)).
        * apply keeps_write; auto.
        * apply fresh_write; auto.
        * rewrite lookup_write_same, Hl. reflexivity.
        * rewrite set_nth_length. exact Harr.
        * rewrite set_nth_map, Hm. simpl as_b. unfold k. apply set_nth_app_mid.
        * rewrite lookup_write_other by (intro E; apply Hne; auto). exact Hli.
        * reflexivity.
  Qed.
End SecondMask.

Section Promotion.
  Variable env : fnid -> list val -> val.

  (* what the kernel reads for physical row r of the temporary column fcolumn.New(ic.FloatSlice()) *)
  Definition prom_cell_val (st : store) (c : col) (r : Z) : outcome (list val) :=
    if (row r <? col_len c)%nat
    then do v <- idx (seg_of st (col_data c)) (row r); Ok [VZ (as_z v)]
    else Panic.

  Definition eff_cell (st : store) (p : bool) (c : col) (r : Z) : outcome (list val) :=
    if p then prom_cell_val st c r else cell_val st c r.
  Definition eff_acell (st : store) (p : bool) (oc : option col) (r : Z) : outcome (list val) :=
    match oc with Some a => eff_cell st p a r | None => Ok [] end.

  (* fcolumn.New(ic.FloatSlice()): one fresh array, read back as the promoted cells; [base] is any store between the
     one the filter started in and the current one that does not hold the mask *)
  Lemma promote_step t st0 base lb c n st arr0 :
    keeps st0 base -> keeps base st -> lookup base lb = None -> store_fresh t n st ->
    lookup st lb = Some arr0 -> parts_in_bounds st0 c ->
    exists c' st1 base1,
      run env t (promote c) n st = (c', S n, st1) /\ keeps base base1 /\ keeps base1 st1 /\
      lookup base1 lb = None /\ store_fresh t (S n) st1 /\ lookup st1 lb = Some arr0 /\
      parts_in_bounds base1 c' /\ forall r, cell_val base1 c' r = prom_cell_val st0 c r.
  Proof.
    intros Hk0 Hkb Hlb Hf Hl Hpc.
    assert (Hseg : seg_of st (col_data c) = seg_of st0 (col_data c)).
    { apply col_data_keeps; [eapply keeps_trans; eauto|exact Hpc]. }
    set (arr1 := map VZ (map as_z (seg_of st0 (col_data c)))).
    assert (Hlen1 : length arr1 = col_len c).
    { unfold arr1. rewrite !map_length. apply col_data_len. exact Hpc. }
    set (lp := (t, n)).
    assert (Hfr : lookup st lp = None) by (apply Hf; lia).
    assert (Hfrb : lookup base lp = None) by (eapply keeps_none; eauto).
    assert (Hne : lb <> lp) by (intro E; subst lb; congruence).
    exists (mkCol (c_name c) (c_pos c) ty_float [mkSlice lp 0 (length arr1) (length arr1)]),
           (update st lp arr1), (update base lp arr1).
    split.
    { unfold promote. erewrite run_bind_eq; [|apply run_read_zs]. rewrite Hseg. fold arr1.
      erewrite run_bind_eq; [|apply run_slice_lit]. reflexivity. }
    split; [apply keeps_update; exact Hfrb|].
    split.
    { intros l a Ha. destruct (loc_dec l lp) as [->|Hn].
      - rewrite lookup_update_same in Ha |- *. exact Ha.
      - rewrite lookup_update_other in Ha |- * by exact Hn. apply Hkb. exact Ha. }
    split; [rewrite lookup_update_other by exact Hne; exact Hlb|].
    split; [apply fresh_update; exact Hf|].
    split; [rewrite lookup_update_other by exact Hne; exact Hl|].
    split.
    { constructor; [|constructor]. split; simpl; [lia|]. rewrite read_update_same. lia. }
    intro r. unfold cell_val, prom_cell_val. cbn [c_parts s_len s_base s_off]. rewrite read_update_same, Hlen1.
    destruct (row r <? col_len c); [|reflexivity].
    unfold arr1. rewrite map_map. simpl. rewrite (idx_map (fun v => VZ (as_z v))).
    destruct (idx (seg_of st0 (col_data c)) (row r)); reflexivity.
  Qed.

  Lemma maybe_promote t st0 base lb (p : bool) c n st arr0 :
    keeps st0 base -> keeps base st -> lookup base lb = None -> store_fresh t n st ->
    lookup st lb = Some arr0 -> parts_in_bounds st0 c ->
    exists c' n1 st1 base1,
      run env t (if p then promote c else Ret c) n st = (c', n1, st1) /\ n <= n1 /\
      keeps base base1 /\ keeps base1 st1 /\
      lookup base1 lb = None /\ store_fresh t n1 st1 /\ lookup st1 lb = Some arr0 /\
      parts_in_bounds base1 c' /\ forall r, cell_val base1 c' r = eff_cell st0 p c r.
  Proof.
    intros Hk0 Hkb Hlb Hf Hl Hpc. destruct p.
    - destruct (promote_step t st0 base lb c n st arr0 Hk0 Hkb Hlb Hf Hl Hpc)
        as (c' & st1 & base1 & Hrun & H1 & H2 & H3 & H4 & H5 & H6 & H7).
      exists c', (S n), st1, base1. repeat (split; [assumption|]). split; [lia|]. repeat (split; [assumption|]). exact H7.
    - exists c, n, st, base. split; [reflexivity|]. split; [lia|]. split; [apply keeps_refl|]. split; [exact Hkb|].
      split; [exact Hlb|]. split; [exact Hf|]. split; [exact Hl|].
      split; [eapply parts_keeps; eauto|]. intro r. simpl. apply cell_val_keeps; auto.
  Qed.
End Promotion.

Section FilterLeaves2.
  Variable env : fnid -> list val -> val.
  Variable dec : decoder.
  Variable mt : Filter.matcher_table.

  (* the leaf is inverted through a second mask: filter.Inverse has no usable entry for its comparator *)
  Definition second_mask (hl : leaf) : bool := (lf_inverse hl && negb (lf_inv_builtin hl))%bool.

  (* the value QFrame.filter ORs into the shared mask for physical row r: the kernel (custom function = oracle, or
     built-in predicate) on the cell of the column - of its float copy when the column is promoted - and the cell of
     the argument column - of its float copy when the argument is promoted -, negated when the leaf is inverted
     through a second mask *)
  Definition row_val2 (st : store) (hl : leaf) (c : col) (argc : option col) (r : Z) : outcome bool :=
    do cell <- eff_cell st (lf_promote hl =? 1)%N c r;
    do acell <- eff_acell st (lf_promote hl =? 2)%N argc r;
    Ok (if second_mask hl then negb (base_val env hl false r cell acell)
        else base_val env hl (lf_inverse hl) r cell acell).

  Definition leaf_heap_ok2 (st0 : store) (m : option loc) (rows : list nat) (hl : leaf) (P : nat -> bool) : Prop :=
    exists c argc,
      map_get (map_of st0 m) (lf_col hl) = Some c /\
      match lf_arg hl with
      | None => argc = None
      | Some an => exists a, map_get (map_of st0 m) an = Some a /\ argc = Some a
      end /\
      lf_bad hl = false /\
      (forall i : Z, In (row i) rows -> row_val2 st0 hl c argc i = Ok (P (row i))).

  Definition leaf_link2 (st0 : store) (m : option loc) (f : Frame.frame) (hl : leaf) (l : Filter.leaf) : Prop :=
    exists P, leaf_heap_ok2 st0 m (Frame.ix f) hl P /\ l0_realised mt f l P.

  (* the link of HeapRefine2 is the special case without promotion and without a second mask *)
  Lemma leaf_link_link2 st0 m f hl l : leaf_link env mt st0 m f hl l -> leaf_link2 st0 m f hl l.
  Proof.
    intros (P & (c & argc & Hc & Harg & Hpro & Hbad & Hinv & HP) & Hl0). exists P. split; [|exact Hl0].
    exists c, argc. split; [exact Hc|]. split; [exact Harg|]. split; [exact Hbad|].
    intros i Hi. specialize (HP i Hi). unfold row_val2, second_mask. rewrite Hpro, Hinv.
    change (0 =? 1)%N with false. change (0 =? 2)%N with false. exact HP.
  Qed.

  Lemma row_val_eff base st0 hl u c' argc' c argc (p1 p2 : bool) i :
    (forall r, cell_val base c' r = eff_cell st0 p1 c r) ->
    (forall r, opt_cell_val base argc' r = eff_acell st0 p2 argc r) ->
    row_val env base hl u c' argc' i =
    do cell <- eff_cell st0 p1 c i; do acell <- eff_acell st0 p2 argc i; Ok (base_val env hl u i cell acell).
  Proof. intros H1 H2. unfold row_val. rewrite H1, H2. reflexivity. Qed.

  Lemma leaf_step_spec2 t st0 qf lb len hl P n st arr0 rows :
    lookup st0 lb = None -> in_bounds st0 (q_idx qf) -> s_len (q_idx qf) = len ->
    Forall (fun e => parts_in_bounds st0 (snd e)) (map_of st0 (q_map qf)) ->
    (forall l, q_map qf = Some l -> lookup st0 l <> None) ->
    incl (abs_ix st0 (q_idx qf)) rows ->
    leaf_heap_ok2 st0 (q_map qf) rows hl P ->
    keeps st0 st -> store_fresh t n st -> lookup st lb = Some arr0 -> length arr0 = len ->
    exists n' st' arr',
      run env t (leaf_step qf (mkSlice lb 0 len len) hl) n st = (Ok tt, n', st') /\
      keeps st0 st' /\ store_fresh t n' st' /\ n <= n' /\ lookup st' lb = Some arr' /\ length arr' = len /\
      map as_b arr' = mask_or (map as_b arr0) (map P (abs_ix st0 (q_idx qf))).
  Proof.
    intros Hlb Hix Hlen Hmp Hlive Hincl (c & argc & Hc & Harg & Hbad & HP) Hk Hf Hl Harr.
    assert (Em : map_of st (q_map qf) = map_of st0 (q_map qf)) by (apply map_of_keeps'; auto).
    assert (Hpc : parts_in_bounds st0 c) by (eapply map_get_parts; eauto).
    assert (Hpa : forall a, argc = Some a -> parts_in_bounds st0 a).
    { intros a Ea. destruct (lf_arg hl) as [an|]; [|congruence].
      destruct Harg as (a' & Ha' & Ea'). rewrite Ea' in Ea. inversion Ea; subst. eapply map_get_parts; eauto. }
    assert (Hargrun : run env t (match lf_arg hl with
                                 | None => Ret (Ok None)
                                 | Some an => let* oa := by_name_m (q_map qf) an in
                                              Ret (match oa with None => Fail | Some a => Ok (Some a) end)
                                 end) n st = (Ok argc, n, st)).
    { destruct (lf_arg hl) as [an|].
      - destruct Harg as (a & Ha & ->). erewrite run_bind_eq; [|apply run_by_name_m]. rewrite Em, Ha. reflexivity.
      - subst argc. reflexivity. }
    (* the promotions *)
    destruct (maybe_promote env t st0 st0 lb (lf_promote hl =? 1)%N c n st arr0 (keeps_refl _) Hk Hlb Hf Hl Hpc)
      as (c' & n1 & st1 & base1 & Hrun1 & Hn1 & Hkb1 & Hks1 & Hlb1 & Hf1 & Hl1 & Hpc1 & Hcell1).
    assert (Harg2 : exists argc' n2 st2 base2,
       run env t (match argc with
                  | Some a => if (lf_promote hl =? 2)%N then let* a' := promote a in Ret (Some a') else Ret (Some a)
                  | None => Ret None
                  end) n1 st1 = (argc', n2, st2) /\ n1 <= n2 /\ keeps base1 base2 /\ keeps base2 st2 /\
       lookup base2 lb = None /\ store_fresh t n2 st2 /\ lookup st2 lb = Some arr0 /\
       (forall a, argc' = Some a -> parts_in_bounds base2 a) /\
       forall r, opt_cell_val base2 argc' r = eff_acell st0 (lf_promote hl =? 2)%N argc r).
    { destruct argc as [a|].
      - destruct (maybe_promote env t st0 base1 lb (lf_promote hl =? 2)%N a n1 st1 arr0 Hkb1 Hks1 Hlb1 Hf1 Hl1 (Hpa a eq_refl))
          as (a' & n2 & st2 & base2 & Hrun2 & Hn2 & Hkb2 & Hks2 & Hlb2 & Hf2 & Hl2 & Hpa2 & Hcell2).
        exists (Some a'), n2, st2, base2. split.
        { destruct (lf_promote hl =? 2)%N.
          - erewrite run_bind_eq; [|exact Hrun2]. reflexivity.
          - simpl in Hrun2 |- *. inversion Hrun2; subst. reflexivity. }
        split; [exact Hn2|]. split; [exact Hkb2|]. split; [exact Hks2|]. split; [exact Hlb2|]. split; [exact Hf2|].
        split; [exact Hl2|]. split; [intros a0 E; inversion E; subst; exact Hpa2|]. intro r. simpl. apply Hcell2.
      - exists None, n1, st1, base1. split; [reflexivity|]. split; [lia|]. split; [apply keeps_refl|]. split; [exact Hks1|].
        split; [exact Hlb1|]. split; [exact Hf1|]. split; [exact Hl1|]. split; [intros a E; discriminate|]. intro r. reflexivity. }
    destruct Harg2 as (argc' & n2 & st2 & base2 & Hrun2 & Hn2 & Hkb2 & Hks2 & Hlb2 & Hf2 & Hl2 & Hpa2 & Hcell2).
    assert (Hk02 : keeps st0 base2) by (eapply keeps_trans; [exact Hkb1|exact Hkb2]).
    assert (Hpc2 : parts_in_bounds base2 c') by (exact (parts_keeps _ _ _ Hkb2 Hpc1)).
    assert (Hcell1' : forall r, cell_val base2 c' r = eff_cell st0 (lf_promote hl =? 1)%N c r).
    { intro r. rewrite (cell_val_keeps _ _ _ _ Hkb2 Hpc1). apply Hcell1. }
    assert (Hix2 : in_bounds base2 (q_idx qf)) by (exact (in_bounds_keeps _ _ _ Hk02 Hix)).
    assert (Hseg2 : seg_of base2 (q_idx qf) = seg_of st0 (q_idx qf)) by (apply seg_keeps_eq; auto).
    assert (Hrows : forall i, In i (map as_z (seg_of st0 (q_idx qf))) -> In (row i) rows).
    { intros i Hi. apply Hincl. unfold abs_ix. rewrite <- (map_map as_z row). apply in_map. exact Hi. }
    assert (Hprefix : forall K : col -> option col -> prog (outcome unit),
               run env t (leaf_step qf (mkSlice lb 0 len len) hl) n st =
               run env t (if second_mask hl
                          then let* invb := new_bool (s_len (q_idx qf)) in
                               let? _ := col_filter hl false c' argc' (q_idx qf) invb in
                               for_eachO (seq 0 len)
                                 (fun i (_ : unit) => let? x := get_b (mkSlice lb 0 len len) i in
                                             if (x : bool) then Ret (Ok tt)
                                             else let? y := get_b invb i in slice_set (mkSlice lb 0 len len) i (VB (negb y))) tt
                          else col_filter hl (lf_inverse hl) c' argc' (q_idx qf) (mkSlice lb 0 len len)) n2 st2).
    { intros _. unfold leaf_step, by_name. erewrite run_bind_eq; [|apply run_by_name_m]. rewrite Em, Hc.
      erewrite run_bindO_ok; [|exact Hargrun].
      erewrite run_bind_eq; [|exact Hrun1]. erewrite run_bind_eq; [|exact Hrun2]. reflexivity. }
    rewrite (Hprefix (fun _ _ => Ret (Ok tt))). clear Hprefix.
    destruct (second_mask hl) eqn:Esm.
    - (* inverted through a second mask *)
      set (li := (t, n2)).
      set (st3 := update st2 li (repeat (VB false) len)).
      assert (Hfr : lookup st2 li = None) by (apply Hf2; lia).
      assert (Hk23 : keeps st2 st3) by (apply keeps_update; exact Hfr).
      assert (Hne : lb <> li) by (intro E; subst lb; congruence).
      destruct (col_filter_spec env t st2 li len (q_idx qf) c' argc' hl false (fun i => negb (P (row i))) (S n2) st3
                  (repeat (VB false) len) Hbad Hfr) as (n4 & st4 & iarr & Hrun4 & Hk4 & Hf4 & Hn4 & Hli4 & Hia4 & Hm4).
      { exact (in_bounds_keeps _ _ _ Hks2 Hix2). }
      { exact Hlen. }
      { exact (parts_keeps _ _ _ Hks2 Hpc2). }
      { intros a Ea. eapply parts_keeps; [exact Hks2|]. apply Hpa2. exact Ea. }
      { exact Hk23. }
      { apply fresh_update. exact Hf2. }
      { unfold st3. apply lookup_update_same. }
      { apply repeat_length. }
      { intros i Hi. rewrite (seg_keeps_eq _ _ _ Hks2 Hix2), Hseg2 in Hi.
        rewrite (row_val_keeps env base2 st2 _ _ _ _ _ Hks2 Hpc2 Hpa2).
        rewrite (row_val_eff base2 st0 hl false c' argc' c argc _ _ i Hcell1' Hcell2).
        pose proof (HP i (Hrows i Hi)) as Hv. unfold row_val2 in Hv. rewrite Esm in Hv.
        destruct (eff_cell st0 (lf_promote hl =? 1)%N c i) as [cell| |]; try discriminate. simpl in Hv |- *.
        destruct (eff_acell st0 (lf_promote hl =? 2)%N argc i) as [acell| |]; try discriminate. simpl in Hv |- *.
        inversion Hv as [Hv']. rewrite Bool.negb_involutive. reflexivity. }
      assert (Hl4 : lookup st4 lb = Some arr0) by (apply Hk4; exact Hl2).
      assert (Hk04 : keeps st0 st4).
      { eapply keeps_trans; [exact Hk02|]. eapply keeps_trans; [exact Hks2|exact Hk4]. }
      destruct (inv_loop env t st0 lb li len Hlb Hne (map as_b arr0) (map as_b iarr) [] n4 st4 arr0 iarr)
        as (st5 & arr' & Hrun5 & Hk5 & Hf5 & Hl5 & Ha5 & _ & Hm5); auto.
      { rewrite !map_length. lia. }
      { simpl. rewrite map_length. exact Harr. }
      exists n4, st5, arr'. split; [|split; [exact Hk5|split; [exact Hf5|split; [lia|split; [exact Hl5|split; [exact Ha5|]]]]]].
      + unfold new_bool. erewrite run_bind_eq; [|apply run_make]. rewrite Hlen. fold li st3.
        erewrite run_bindO_ok; [|exact Hrun4].
        simpl length in Hrun5. rewrite map_length, Harr in Hrun5. exact Hrun5.
      + simpl in Hm5. rewrite Hm5. f_equal.
        rewrite (seg_keeps_eq _ _ _ Hks2 Hix2), Hseg2 in Hm4.
        rewrite Hm4, map_repeat. simpl as_b.
        rewrite mask_or_repeat_false by (rewrite !map_length, <- Hlen; apply (seg_length _ _ Hix)).
        unfold abs_ix. rewrite !map_map.
        apply map_ext. intro v. apply Bool.negb_involutive.
    - (* written directly into the shared mask *)
      destruct (col_filter_spec env t base2 lb len (q_idx qf) c' argc' hl (lf_inverse hl) (fun i => P (row i)) n2 st2 arr0
                  Hbad Hlb2 Hix2 Hlen Hpc2 Hpa2 Hks2 Hf2 Hl2 Harr) as (n' & st' & arr' & Hrun & Hk' & Hf' & Hn' & Hl' & Ha' & Hm').
      { intros i Hi. rewrite Hseg2 in Hi.
        rewrite (row_val_eff base2 st0 hl (lf_inverse hl) c' argc' c argc _ _ i Hcell1' Hcell2).
        pose proof (HP i (Hrows i Hi)) as Hv. unfold row_val2 in Hv. rewrite Esm in Hv. exact Hv. }
      exists n', st', arr'. split; [exact Hrun|]. split; [eapply keeps_trans; eauto|]. split; [exact Hf'|].
      split; [lia|]. split; [exact Hl'|]. split; [exact Ha'|].
      rewrite Hm', Hseg2. unfold abs_ix. rewrite !map_map. reflexivity.
  Qed.
End FilterLeaves2.

Section FilterLeaves2b.
  Variable env : fnid -> list val -> val.
  Variable dec : decoder.
  Variable mt : Filter.matcher_table.

  Lemma eff_cell_keeps st0 st p c r : keeps st0 st -> parts_in_bounds st0 c -> eff_cell st p c r = eff_cell st0 p c r.
  Proof.
    intros Hk Hp. destruct p; simpl; [|apply cell_val_keeps; auto].
    unfold prom_cell_val. rewrite (col_data_keeps _ _ _ Hk Hp). reflexivity.
  Qed.

  Lemma leaf_heap_ok2_keeps st0 st m rows hl P :
    keeps st0 st -> Forall (fun e => parts_in_bounds st0 (snd e)) (map_of st0 m) ->
    (forall l, m = Some l -> lookup st0 l <> None) ->
    leaf_heap_ok2 env st0 m rows hl P -> leaf_heap_ok2 env st m rows hl P.
  Proof.
    intros Hk Hmp Hlive (c & argc & Hc & Harg & Hbad & HP).
    assert (Em : map_of st m = map_of st0 m) by (apply map_of_keeps'; auto).
    assert (Hpc : parts_in_bounds st0 c) by (eapply map_get_parts; eauto).
    assert (Hpa : forall a, argc = Some a -> parts_in_bounds st0 a).
    { intros a Ea. destruct (lf_arg hl) as [an|]; [|congruence].
      destruct Harg as (a' & Ha' & Ea'). rewrite Ea' in Ea. inversion Ea; subst. eapply map_get_parts; eauto. }
    exists c, argc. rewrite Em. split; [exact Hc|]. split; [exact Harg|]. split; [exact Hbad|].
    intros i Hi. rewrite <- (HP i Hi). unfold row_val2. rewrite (eff_cell_keeps st0 st _ _ _ Hk Hpc).
    destruct argc as [a|]; simpl; [rewrite (eff_cell_keeps st0 st _ _ _ Hk (Hpa a eq_refl))|]; reflexivity.
  Qed.

  Lemma leaf_links2_keeps st0 st m f hls ls :
    keeps st0 st -> Forall (fun e => parts_in_bounds st0 (snd e)) (map_of st0 m) ->
    (forall l, m = Some l -> lookup st0 l <> None) ->
    Forall2 (leaf_link2 env mt st0 m f) hls ls -> Forall2 (leaf_link2 env mt st m f) hls ls.
  Proof.
    intros Hk Hmp Hlive HF. induction HF as [|hl l hls ls (P & Hh & Hl0) HF IH]; constructor; [|exact IH].
    exists P. split; [|exact Hl0]. eapply leaf_heap_ok2_keeps; eauto.
  Qed.

  Lemma leaves_loop2 t st0 qf lb len f i0 :
    lookup st0 lb = None -> in_bounds st0 (q_idx qf) -> s_len (q_idx qf) = len ->
    Forall (fun e => parts_in_bounds st0 (snd e)) (map_of st0 (q_map qf)) ->
    (forall l, q_map qf = Some l -> lookup st0 l <> None) ->
    abs_ix st0 (q_idx qf) = i0 -> incl i0 (Frame.ix f) ->
    forall hls ls, Forall2 (leaf_link2 env mt st0 (q_map qf) f) hls ls ->
    forall n st arr0, keeps st0 st -> store_fresh t n st -> lookup st lb = Some arr0 -> length arr0 = len ->
    exists n' st' arr',
      run env t (for_eachO hls (fun hl (_ : unit) => leaf_step qf (mkSlice lb 0 len len) hl) tt) n st = (Ok tt, n', st') /\
      keeps st0 st' /\ store_fresh t n' st' /\ lookup st' lb = Some arr' /\ length arr' = len /\
      Filter.ofold (fun b l => Filter.filter_leaf mt (Frame.with_ix f i0) l b) ls (map as_b arr0) = Ok (map as_b arr').
  Proof.
    intros Hlb Hix Hlen Hmp Hlive Hi0 Hincl hls ls HF.
    assert (Hli : length i0 = len) by (rewrite <- Hi0, (abs_ix_length _ _ Hix); exact Hlen).
    induction HF as [|hl l hls ls (P & Hh & Hl0) HF IH]; intros n st arr0 Hk Hf Hl Harr.
    - simpl. exists n, st, arr0. repeat split; auto.
    - destruct (leaf_step_spec2 env t st0 qf lb len hl P n st arr0 (Frame.ix f) Hlb Hix Hlen Hmp Hlive)
        as (n1 & st1 & arr1 & Hrun1 & Hk1 & Hf1 & Hn1 & Hl1 & Ha1 & Hm1); auto.
      { rewrite Hi0. exact Hincl. }
      destruct (IH n1 st1 arr1 Hk1 Hf1 Hl1 Ha1) as (n' & st' & arr' & Hrun & Hk' & Hf' & Hl' & Ha' & Hfold).
      exists n', st', arr'. split; [|split; [exact Hk'|split; [exact Hf'|split; [exact Hl'|split; [exact Ha'|]]]]].
      + cbn [for_eachO]. erewrite run_bindO_ok; [exact Hrun|exact Hrun1].
      + rewrite ofold_cons. rewrite (Hl0 i0 (map as_b arr0) Hincl) by (rewrite map_length; lia).
        cbn [obind]. rewrite Hi0 in Hm1. rewrite <- Hm1. exact Hfold.
  Qed.

  (* QFrame.filter with promoted and second-mask-inverted leaves; the by-name map is kept and the new index holds
     non-negative entries *)
  Theorem refines_filter_leaves2 t n st qf f i0 hls ls :
    ref_ok dec st qf -> abs1 dec st qf = Some (Frame.with_ix f i0) -> incl i0 (Frame.ix f) ->
    store_fresh t n st ->
    Forall2 (leaf_link2 env mt st (q_map qf) f) hls ls ->
    exists res n' st',
      run env t (qf_filter hls qf) n st = (res, n', st') /\ keeps st st' /\ store_fresh t n' st' /\
      match res with
      | Ok qf' => ref_ok dec st' qf' /\ q_map qf' = q_map qf /\
                  (nonneg (seg_of st (q_idx qf)) -> nonneg (seg_of st' (q_idx qf'))) /\
                  exists f', Filter.filter_leaves mt (Frame.with_ix f i0) ls = Ok f' /\ abs1 dec st' qf' = Some f'
      | Panic => Filter.filter_leaves mt (Frame.with_ix f i0) ls = Panic
      | Fail => False
      end.
  Proof.
    intros Hok Habs Hincl Hf HF. destruct (abs1_inv _ _ _ _ Habs) as (Hc & Hi & He). simpl in Hi, He.
    unfold qf_filter, Filter.filter_leaves. cbn [Frame.ferr Frame.with_ix Frame.ix]. rewrite He.
    destruct (q_err qf) eqn:Eerr.
    { exists (Ok qf), n, st. split; [reflexivity|]. split; [apply keeps_refl|]. split; [exact Hf|]. split; [exact Hok|].
      split; [reflexivity|]. split; [auto|]. eexists. split; [reflexivity|]. exact Habs. }
    set (len := s_len (q_idx qf)). set (lb := (t, n)).
    set (st1 := update st lb (repeat (VB false) len)).
    assert (Hfr : lookup st lb = None) by (apply Hf; lia).
    assert (Hk1 : keeps st st1) by (apply keeps_update; exact Hfr).
    destruct (leaves_loop2 t st qf lb len f i0 Hfr (ro_idx _ _ _ Hok) eq_refl (ro_mparts _ _ _ Hok) (ro_mlive _ _ _ Hok)
                (eq_sym Hi) Hincl hls ls HF (S n) st1 (repeat (VB false) len) Hk1 (fresh_update _ _ _ _ Hf))
      as (n2 & st2 & arr2 & Hloop & Hk2 & Hf2 & Hl2 & Ha2 & Hfold).
    { unfold st1. apply lookup_update_same. }
    { apply repeat_length. }
    assert (Hinit : map as_b (repeat (VB false) len) = map (fun _ : nat => false) i0).
    { rewrite map_repeat, map_false_repeat. f_equal. simpl. rewrite Hi. symmetry. apply (abs_ix_length _ _ (ro_idx _ _ _ Hok)). }
    rewrite Hinit in Hfold. rewrite Hfold.
    assert (Hr2 : read_loc st2 lb = arr2) by (unfold read_loc; rewrite Hl2; reflexivity).
    assert (Hlen2 : length (read_loc st2 lb) = len) by (rewrite Hr2; exact Ha2).
    destruct (refines_filter_index env dec t n2 st2 qf (Frame.with_ix f i0) (mkSlice lb 0 len len))
      as (res & n' & st' & Hrun & Hk' & Hf' & Hres).
    { eapply ref_ok_keeps; eauto. }
    { rewrite (abs1_keeps _ _ _ _ Hk2 Hok). exact Habs. }
    { exact Hf2. }
    { apply full_in_bounds. exact Hlen2. }
    rewrite (full_seg _ _ _ Hlen2), Hr2 in Hres. cbn [Frame.ix Frame.with_ix] in Hres.
    exists res, n', st'. split; [|split; [eapply keeps_trans; eauto|split; [exact Hf'|]]].
    - unfold new_bool. erewrite run_bind_eq; [|apply run_make]. fold len lb st1.
      erewrite run_bind_eq; [|exact Hloop]. cbv iota. exact Hrun.
    - destruct res as [qf'| |]; auto.
      + destruct Hres as (Hok' & i & Hif & Habs'). split; [exact Hok'|].
        assert (Hextra : q_map qf' = q_map qf /\ (nonneg (seg_of st (q_idx qf)) -> nonneg (seg_of st' (q_idx qf')))).
        { rewrite run_bindO_unfold in Hrun.
          destruct (run env t (index_filter (q_idx qf) (mkSlice lb 0 len len)) n2 st2) as [[o n3] st3] eqn:Eif.
          destruct o as [r| |]; inversion Hrun; subst. split; [reflexivity|]. intro Hnn.
          apply index_filter_nn in Eif; [exact Eif|exact Hf2|eapply in_bounds_keeps; [exact Hk2|apply (ro_idx _ _ _ Hok)]|].
          rewrite (seg_keeps_eq _ _ _ Hk2 (ro_idx _ _ _ Hok)). exact Hnn. }
        destruct Hextra as [Hm' Hnn']. split; [exact Hm'|]. split; [exact Hnn'|].
        rewrite Hif. cbn [obind]. eexists. split; [reflexivity|]. exact Habs'.
      + rewrite Hres. reflexivity.
  Qed.

  Lemma leaves_ok_link2 st0 m f :
    Forall (fun e => parts_in_bounds st0 (snd e)) (map_of st0 m) -> (forall l, m = Some l -> lookup st0 l <> None) ->
    leaves_ok env dec mt st0 m f (leaf_link2 env mt st0 m f).
  Proof.
    intros Hmp Hlive hls ls HF t n st qf i0 (K & M & R & A & C & I & N) He Hf. simpl in I.
    assert (HF' : Forall2 (leaf_link2 env mt st (q_map qf) f) hls ls).
    { rewrite M. eapply leaf_links2_keeps; eauto. }
    destruct (refines_filter_leaves2 t n st qf f i0 hls ls R A I Hf HF') as (res & n' & st' & Hrun & Hk & Hf' & Hres).
    exists res, n', st'. split; [exact Hrun|]. split; [exact Hk|]. split; [exact Hf'|].
    destruct res as [q'| |]; auto.
    destruct Hres as (Hok' & Hm' & Hnn' & f' & Hfl & Ha').
    destruct (filter_leaves_sub _ _ _ _ Hfl) as [Cf If]. simpl in Cf, If.
    exists f'. split; [exact Hfl|]. split; [eapply keeps_trans; eauto|]. split; [congruence|]. split; [exact Hok'|].
    split; [exact Ha'|]. split; [exact Cf|]. split; [eapply incl_tran; eauto|exact (Hnn' N)].
  Qed.

  (* clause_rel with the extended link *)
  Definition clause_rel2 (st : store) (m : option loc) (f : Frame.frame) : clause -> Filter.clause -> Prop :=
    crel (leaf_link2 env mt st m f).

  (* QFrame.Filter with ANY clause tree over linked leaves, promoted and second-mask-inverted ones included *)
  Theorem refines_clause_filter2 t n st qf f c cl :
    ref_ok dec st qf -> abs1 dec st qf = Some f -> store_fresh t n st ->
    nonneg (seg_of st (q_idx qf)) ->
    clause_rel2 st (q_map qf) f c cl ->
    exists res n' st',
      run env t (op_filter c qf) n st = (res, n', st') /\ keeps st st' /\ store_fresh t n' st' /\
      match res with
      | Ok qf' => ref_ok dec st' qf' /\ exists f', Filter.frame_filter mt f cl = Ok f' /\ abs1 dec st' qf' = Some f'
      | Panic => Filter.frame_filter mt f cl = Panic
      | Fail => False
      end.
  Proof.
    intros Hok Habs Hf Hnn Hrel. destruct (abs1_inv _ _ _ _ Habs) as (_ & _ & He).
    destruct (q_err qf) eqn:Eerr.
    { unfold op_filter, Filter.frame_filter. rewrite He, Eerr.
      exists (Ok qf), n, st. split; [reflexivity|]. split; [apply keeps_refl|]. split; [exact Hf|]. split; [exact Hok|].
      exists f. auto. }
    apply (op_filter_refines env dec mt st (q_map qf) f (leaf_link2 env mt st (q_map qf) f) He
             (leaves_ok_link2 st (q_map qf) f (ro_mparts _ _ _ Hok) (ro_mlive _ _ _ Hok))); auto.
  Qed.

  (* the relation of HeapRefine2 is included *)
  Lemma crel_mono (L1 L2 : leaf -> Filter.leaf -> Prop) : (forall hl l, L1 hl l -> L2 hl l) ->
    forall c cl, crel L1 c cl -> crel L2 c cl.
  Proof.
    intros HL c cl H.
    apply (crel_strong L1 (crel L2)); try exact H.
    - intros hl l Hl. constructor. apply HL. exact Hl.
    - constructor.
    - intros hl l Hl. constructor. apply HL. exact Hl.
    - intros hc c0 Hn _ H2. constructor; assumption.
    - intros hcs cs HF. constructor. induction HF as [|x y l l' [_ Hxy] HF IH]; constructor; assumption.
    - intros hcs cs HF. constructor. induction HF as [|x y l l' [_ Hxy] HF IH]; constructor; assumption.
  Qed.

  Lemma clause_rel_rel2 st m f c cl : clause_rel env mt st m f c cl -> clause_rel2 st m f c cl.
  Proof.
    intro H. apply (crel_mono (leaf_link env mt st m f)); [apply leaf_link_link2|]. apply clause_rel_crel. exact H.
  Qed.
End FilterLeaves2b.

(* ==================================================================== 5b. FilteredApply end to end, extended link *)
Section FilteredApplyFull.
  Variable env : fnid -> list val -> val.
  Variable dec : decoder.
  Variable mt : Filter.matcher_table.

  Theorem refines_filtered_apply_clause2 ut t n st qf f c cl instrs is :
    ref_ok dec st qf -> abs1 dec st qf = Some f -> store_fresh t n st ->
    nonneg (seg_of st (q_idx qf)) ->
    clause_rel2 env mt st (q_map qf) f c cl ->
    (forall fq ff n1 st1, keeps st st1 -> store_fresh t n1 st1 -> ref_ok dec st1 fq ->
       Filter.frame_filter mt f cl = Ok ff -> abs1 dec st1 fq = Some ff -> q_err fq = false ->
       exists ra n2 st2,
         run env t (op_apply instrs (with_index qf (q_idx fq))) n1 st1 = (ra, n2, st2) /\ keeps st1 st2 /\
         match ra with
         | Ok nq => ref_ok dec st2 nq /\
                    exists r, Ops.apply ut (Frame.with_ix f (Frame.ix ff)) is = Ok r /\ abs1 dec st2 nq = Some r
         | Panic => Ops.apply ut (Frame.with_ix f (Frame.ix ff)) is = Panic
         | Fail => False
         end) ->
    exists res n' st',
      run env t (op_filtered_apply c instrs qf) n st = (res, n', st') /\ keeps st st' /\
      match res with
      | Ok q' => ref_ok dec st' q' /\ exists r, Ops.filtered_apply mt ut f cl is = Ok r /\ abs1 dec st' q' = Some r
      | Panic => Ops.filtered_apply mt ut f cl is = Panic
      | Fail => False
      end.
  Proof.
    intros Hok Habs Hf Hnn Hrel Happly.
    destruct (refines_clause_filter2 env dec mt t n st qf f c cl Hok Habs Hf Hnn Hrel) as (rf & n1 & st1 & Hrun & Hk1 & Hf1 & Hrf).
    apply (refines_filtered_apply env dec mt ut t n st qf f c cl instrs is rf n1 st1 Hok Habs Hrun Hk1 Hrf).
    intros fq ff -> Ha Hq. destruct Hrf as (Hokq & ff' & Hff & Ha'). rewrite Ha in Ha'. inversion Ha'; subst ff'.
    apply (Happly fq ff n1 st1); auto.
  Qed.

  Hypothesis Hdec : dec_apply_ok dec.

  Lemma link1_keeps st st1 c d fn tout tbl index :
    keeps st st1 -> parts_in_bounds st c -> link1 env st c d fn tout tbl index -> link1 env st1 c d fn tout tbl index.
  Proof.
    intros Hk Hp Hl p Hin cell Hc. rewrite (cell_val_keeps _ _ _ _ Hk Hp) in Hc. exact (Hl p Hin cell Hc).
  Qed.

  (* Filter by any clause tree, then ONE user function of one column on the filtered rows, index restored: the only
     premise about the function is the row-wise link between the callback oracle and the L0 table on the rows that
     survive the filter *)
  Theorem refines_filtered_apply1 ut t n st qf f c cl a src fn tin tout tbl :
    ref_ok dec st qf -> abs1 dec st qf = Some f -> store_fresh t n st ->
    nonneg (seg_of st (q_idx qf)) ->
    clause_rel2 env mt st (q_map qf) f c cl ->
    i_src1 a = Some src -> i_src2 a = None -> src <> [] ->
    i_fn a = FnCall fn (ty_of tout) -> tout <> Frame.TEnum -> i_name_ok a = Ops.check_name (i_dst a) ->
    (forall c0 d ff, map_get (map_of st (q_map qf)) src = Some c0 -> Frame.lookup_col f src = Some d ->
                     Filter.frame_filter mt f cl = Ok ff ->
                     Frame.col_ftype d = tin /\ link1 env st c0 d fn tout tbl (Frame.ix ff)) ->
    exists res n' st',
      run env t (op_filtered_apply c [a] qf) n st = (res, n', st') /\ keeps st st' /\
      match res with
      | Ok q' => ref_ok dec st' q' /\
                 exists r, Ops.filtered_apply mt ut f cl [Ops.mkInstr (Ops.F1 tin tout tbl) (i_dst a) src []] = Ok r /\
                           abs1 dec st' q' = Some r
      | Panic => Ops.filtered_apply mt ut f cl [Ops.mkInstr (Ops.F1 tin tout tbl) (i_dst a) src []] = Panic
      | Fail => False
      end.
  Proof.
    intros Hok Habs Hf Hnn Hrel Hs1 Hs2 Hsrc Hfn Ht Hname Hlink.
    apply (refines_filtered_apply_clause2 ut t n st qf f c cl [a] _ Hok Habs Hf Hnn Hrel).
    intros fq ff n1 st1 Hk1 Hf1 Hokq Hff Hab Hq.
    destruct (swap_index dec st1 qf fq f ff (ref_ok_keeps _ _ _ _ Hk1 Hok) Hokq) as [Hokc Habc].
    { rewrite (abs1_keeps _ _ _ _ Hk1 Hok). exact Habs. }
    { exact Hab. }
    rewrite op_apply_single. unfold apply_instr. rewrite Hs1, Hs2.
    assert (Em : map_of st1 (q_map qf) = map_of st (q_map qf)).
    { apply map_of_keeps'; [exact Hk1|apply (ro_mlive _ _ _ Hok)]. }
    destruct (refines_apply1 env dec Hdec ut t n1 st1 (with_index qf (q_idx fq)) (Frame.with_ix f (Frame.ix ff)) a src fn tin tout tbl
                Hokc Habc Hf1 Hfn Ht Hname) as (ra & n2 & st2 & Hrun & Hk2 & _ & Hra).
    { intros c0 d Hc0 Hd. cbn [q_map with_index] in Hc0. rewrite Em in Hc0.
      change (Frame.lookup_col (Frame.with_ix f (Frame.ix ff)) src) with (Frame.lookup_col f src) in Hd.
      destruct (Hlink c0 d ff Hc0 Hd Hff) as [Hty Hl1]. split; [exact Hty|].
      cbn [Frame.ix Frame.with_ix].
      eapply link1_keeps; [exact Hk1| |exact Hl1].
      eapply map_get_parts; [apply (ro_mparts _ _ _ Hok)|exact Hc0]. }
    exists ra, n2, st2. split; [exact Hrun|]. split; [exact Hk2|].
    assert (El0 : Ops.apply ut (Frame.with_ix f (Frame.ix ff)) [Ops.mkInstr (Ops.F1 tin tout tbl) (i_dst a) src []]
                  = Ops.apply1 ut (Frame.with_ix f (Frame.ix ff)) (Ops.F1 tin tout tbl) (i_dst a) src).
    { unfold Ops.apply, Filter.ofold, Ops.apply_instr. cbn [fold_left Ops.isrc1 Ops.isrc2 Ops.ifn Ops.idst obind].
      unfold Ops.empty_name. destruct src as [|x src']; [congruence|]. reflexivity. }
    rewrite El0. exact Hra.
  Qed.
End FilteredApplyFull.

(* ==================================================================== non-vacuity *)
(* MARK-EXAMPLES *)
From QF Require Import Proofs.HeapOpsProofs Proofs.ConcProofs.

Module ClauseExamples.
  Import HeapExamples RefineExamples FilterExamples.

  (* A < 25 AND NOT (OR (NOT (AND (A < 25, Null)))) : an And chain, a Not of an Or, a Not of an And *)
  Definition hc1 : clause :=
    CAnd false [CLeaf lfA; CNot false (COr false [CNot false (CAnd false [CLeaf lfA; CNull])])].
  Definition c1 : Filter.clause :=
    Filter.CAnd [Filter.CLeaf l0A; Filter.CNot (Filter.COr [Filter.CNot (Filter.CAnd [Filter.CLeaf l0A; Filter.CNull])])].
  (* OR (A < 25, NOT (AND (A < 25)), A < 25) : a leaf batch is flushed before the Not, merged by orFrames, and the
     trailing batch is flushed at the end *)
  Definition hc2 : clause := COr false [CLeaf lfA; CNot false (CAnd false [CLeaf lfA]); CLeaf lfA].
  Definition c2 : Filter.clause :=
    Filter.COr [Filter.CLeaf l0A; Filter.CNot (Filter.CAnd [Filter.CLeaf l0A]); Filter.CLeaf l0A].

  Notation R0 := (clause_rel env0 [] st0 (q_map qf0) f0).
  Lemma rel_leaf : R0 (CLeaf lfA) (Filter.CLeaf l0A).
  Proof. constructor. exact lfA_link. Qed.

  Example clause_rel_1 : R0 hc1 c1.
  Proof.
    apply (CR_and env0 [] st0 (q_map qf0) f0
             [CLeaf lfA; CNot false (COr false [CNot false (CAnd false [CLeaf lfA; CNull])])]
             [Filter.CLeaf l0A; Filter.CNot (Filter.COr [Filter.CNot (Filter.CAnd [Filter.CLeaf l0A; Filter.CNull])])]).
    constructor; [exact rel_leaf|]. constructor; [|constructor].
    apply (CR_not env0 [] st0 (q_map qf0) f0 (COr false [CNot false (CAnd false [CLeaf lfA; CNull])])
             (Filter.COr [Filter.CNot (Filter.CAnd [Filter.CLeaf l0A; Filter.CNull])])); [intros hl; discriminate|].
    apply (CR_or env0 [] st0 (q_map qf0) f0 [CNot false (CAnd false [CLeaf lfA; CNull])]
             [Filter.CNot (Filter.CAnd [Filter.CLeaf l0A; Filter.CNull])]).
    constructor; [|constructor].
    apply (CR_not env0 [] st0 (q_map qf0) f0 (CAnd false [CLeaf lfA; CNull]) (Filter.CAnd [Filter.CLeaf l0A; Filter.CNull]));
      [intros hl; discriminate|].
    apply (CR_and env0 [] st0 (q_map qf0) f0 [CLeaf lfA; CNull] [Filter.CLeaf l0A; Filter.CNull]).
    constructor; [exact rel_leaf|]. constructor; [constructor|constructor].
  Qed.

  Example clause_rel_2 : R0 hc2 c2.
  Proof.
    apply (CR_or env0 [] st0 (q_map qf0) f0 [CLeaf lfA; CNot false (CAnd false [CLeaf lfA]); CLeaf lfA]
             [Filter.CLeaf l0A; Filter.CNot (Filter.CAnd [Filter.CLeaf l0A]); Filter.CLeaf l0A]).
    constructor; [exact rel_leaf|]. constructor; [|constructor; [exact rel_leaf|constructor]].
    apply (CR_not env0 [] st0 (q_map qf0) f0 (CAnd false [CLeaf lfA]) (Filter.CAnd [Filter.CLeaf l0A]));
      [intros hl; discriminate|].
    apply (CR_and env0 [] st0 (q_map qf0) f0 [CLeaf lfA] [Filter.CLeaf l0A]).
    constructor; [exact rel_leaf|constructor].
  Qed.

  Example nonneg_0 : nonneg (seg_of st0 (q_idx qf0)).
  Proof. unfold nonneg. vm_compute seg_of. repeat (constructor; [simpl; lia|]). constructor. Qed.

  Example fresh_1 : store_fresh 1 0 st0.
  Proof. intros k _. reflexivity. Qed.

  (* both sides computed *)
  Example clause_example_1 :
    let '(r, _, st') := run env0 1 (op_filter hc1 qf0) 0 st0 in
    match r with Ok q => option_map Ok (abs1 dec_std st' q) | _ => None end
    = Some (Filter.frame_filter [] f0 c1).
  Proof. vm_compute. reflexivity. Qed.
  Example clause_value_1 : Filter.frame_filter [] f0 c1 = Ok (Frame.with_ix f0 [1; 3; 2]).
  Proof. vm_compute. reflexivity. Qed.
  Example clause_example_2 :
    let '(r, _, st') := run env0 1 (op_filter hc2 qf0) 0 st0 in
    match r with Ok q => option_map Ok (abs1 dec_std st' q) | _ => None end
    = Some (Filter.frame_filter [] f0 c2).
  Proof. vm_compute. reflexivity. Qed.
  Example clause_value_2 : Filter.frame_filter [] f0 c2 = Ok (Frame.with_ix f0 [0; 1; 3; 2]).
  Proof. vm_compute. reflexivity. Qed.
  Example filtered_apply_clause_example :
    let '(r, _, st') := run env0 1 (op_filtered_apply hc1 [ApplyExamples.a1] qf0) 0 st0 in
    match r with Ok q => option_map Ok (abs1 dec_std st' q) | _ => None end
    = Some (Ops.filtered_apply [] [] f0 c1 [i1]).
  Proof. vm_compute. reflexivity. Qed.
End ClauseExamples.

Module SecondMaskExamples.
  Import HeapExamples RefineExamples FilterExamples.

  (* NOT (A < 25) as a leaf: "<" is an order comparator, filter.Inverse is not used, the leaf is evaluated into a
     second mask and negated into the shared one - on both sides *)
  Definition lfA_inv : leaf := toggle lfA.
  Definition l0A_inv : Filter.leaf := Filter.invert_leaf l0A.
  Definition PA_inv (p : nat) : bool := negb (PA p).

  Example second_mask_lfA_inv : second_mask lfA_inv = true.
  Proof. reflexivity. Qed.

  Lemma inv_combine : forall (b : list bool) (i : list nat), length i = length b ->
    map (fun xy : bool * bool => if fst xy then true else negb (snd xy))
        (combine b (mask_or (map (fun _ => false) b) (map PA i)))
    = mask_or b (map PA_inv i).
  Proof.
    induction b as [|x b IH]; intros [|p i] H; simpl in *; try discriminate; try reflexivity.
    unfold mask_or in *. simpl. rewrite IH by lia. destruct x; reflexivity.
  Qed.

  Example l0A_inv_realised : l0_realised [] f0 l0A_inv PA_inv.
  Proof.
    intros i b Hincl Hlen.
    assert (Hlen' : length i = length (map (fun _ : bool => false) b)) by (rewrite map_length; exact Hlen).
    pose proof (l0A_realised i (map (fun _ => false) b) Hincl Hlen') as H0.
    unfold Filter.filter_leaf in H0 |- *.
    cbn [l0A_inv Filter.invert_leaf l0A FilterLeafProofs.int_leaf Filter.lcol Filter.larg Filter.linv Filter.lcmp negb] in H0 |- *.
    destruct (Frame.lookup_col (Frame.with_ix f0 i) nA) as [s|]; [|discriminate].
    cbn [obind] in H0 |- *.
    change (Filter.is_order_comparator n_lt) with true. cbv iota.
    rewrite H0. cbn [obind]. f_equal. apply inv_combine. exact Hlen.
  Qed.

  Example lfA_inv_heap_ok : leaf_heap_ok2 env0 st0 (q_map qf0) (Frame.ix f0) lfA_inv PA_inv.
  Proof.
    exists cA, None. split; [reflexivity|]. split; [reflexivity|]. split; [reflexivity|].
    intros i Hin. unfold row_val2.
    change (lf_promote lfA_inv =? 1)%N with false. change (lf_promote lfA_inv =? 2)%N with false.
    unfold eff_cell, eff_acell. rewrite <- (cell_val_row st0 cA i). simpl in Hin.
    destruct Hin as [E|[E|[E|[E|[]]]]]; rewrite <- E; vm_compute; reflexivity.
  Qed.

  Example lfA_inv_link2 : leaf_link2 env0 [] st0 (q_map qf0) f0 lfA_inv l0A_inv.
  Proof. exists PA_inv. split; [exact lfA_inv_heap_ok|exact l0A_inv_realised]. Qed.

  (* NOT (A < 25) written as a Not clause over the leaf (the leaf is toggled), and inside an Or after a Null *)
  Definition hc4 : clause := CAnd false [CNot false (CLeaf lfA); CLeaf lfA_inv].
  Definition c4 : Filter.clause := Filter.CAnd [Filter.CNot (Filter.CLeaf l0A); Filter.CLeaf l0A_inv].

  Notation L2 := (leaf_link2 env0 [] st0 (q_map qf0) f0).
  Example clause_rel2_4 : clause_rel2 env0 [] st0 (q_map qf0) f0 hc4 c4.
  Proof.
    apply (GR_and L2 [CNot false (CLeaf lfA); CLeaf lfA_inv] [Filter.CNot (Filter.CLeaf l0A); Filter.CLeaf l0A_inv]).
    constructor; [apply GR_not_leaf; exact lfA_inv_link2|]. constructor; [apply GR_leaf; exact lfA_inv_link2|constructor].
  Qed.

  Example clause_example_4 :
    let '(r, _, st') := run env0 1 (op_filter hc4 qf0) 0 st0 in
    match r with Ok q => option_map Ok (abs1 dec_std st' q) | _ => None end
    = Some (Filter.frame_filter [] f0 c4).
  Proof. vm_compute. reflexivity. Qed.
  Example clause_value_4 : Filter.frame_filter [] f0 c4 = Ok (Frame.with_ix f0 [0]).
  Proof. vm_compute. reflexivity. Qed.
End SecondMaskExamples.

Module FilteredApplyExamples.
  Import HeapExamples RefineExamples FilterExamples ClauseExamples.

  Example filtered_apply1_premises :
    clause_rel2 env0 [] st0 (q_map qf0) f0 hc1 c1 /\
    i_src1 ApplyExamples.a1 = Some nA /\ i_src2 ApplyExamples.a1 = None /\ nA <> [] /\
    i_fn ApplyExamples.a1 = FnCall 1%N (ty_of Frame.TInt) /\ Frame.TInt <> Frame.TEnum /\
    i_name_ok ApplyExamples.a1 = Ops.check_name (i_dst ApplyExamples.a1) /\
    (forall c0 d ff, map_get (map_of st0 (q_map qf0)) nA = Some c0 -> Frame.lookup_col f0 nA = Some d ->
                     Filter.frame_filter [] f0 c1 = Ok ff ->
                     Frame.col_ftype d = Frame.TInt /\ link1 env0 st0 c0 d 1%N Frame.TInt ApplyExamples.tblA (Frame.ix ff)).
  Proof.
    split; [apply clause_rel_rel2; exact clause_rel_1|]. split; [reflexivity|]. split; [reflexivity|].
    split; [discriminate|]. split; [reflexivity|]. split; [discriminate|]. split; [reflexivity|].
    intros c0 d ff Hc0 Hd Hff. vm_compute in Hc0, Hd. inversion Hc0; inversion Hd; subst.
    rewrite clause_value_1 in Hff. inversion Hff; subst. split; [reflexivity|].
    intros p Hin. apply ApplyExamples.link1_example. simpl in Hin |- *. tauto.
  Qed.
End FilteredApplyExamples.

Module PromoteExamples.
  Import HeapExamples RefineExamples FilterExamples.

  (* heap side only: a leaf over column A with argument column A whose column is promoted (a fresh copy is allocated
     and the kernel reads the copy); the kernel is "x + y < 50" *)
  Definition lfP : leaf :=
    mkLeaf nA (Some nA) false false 1%N false false (fun _ => 0) None
           (fun _ c a => match c, a with VZ x :: _, VZ y :: _ => (x + y <? 50)%Z | _, _ => false end) (fun _ _ _ => false).

  Example lfP_heap_ok : leaf_heap_ok2 env0 st0 (q_map qf0) (Frame.ix f0) lfP PA.
  Proof.
    exists cA, (Some cA). split; [reflexivity|]. split; [exists cA; split; reflexivity|]. split; [reflexivity|].
    intros i Hin. unfold row_val2.
    change (lf_promote lfP =? 1)%N with true. change (lf_promote lfP =? 2)%N with false.
    unfold eff_acell, eff_cell, prom_cell_val. rewrite <- (cell_val_row st0 cA i). simpl in Hin.
    destruct Hin as [E|[E|[E|[E|[]]]]]; rewrite <- E; vm_compute; reflexivity.
  Qed.

  (* the run allocates the mask (1,0), the float copy (1,1) and the new index (1,2); the old arrays are unchanged *)
  Example lfP_run :
    let '(r, n', st') := run env0 1 (qf_filter [lfP] qf0) 0 st0 in
    (match r with Ok q => Some (abs_ix st' (q_idx q)) | _ => None end, n', map (lookup st') [(0, 0); (0, 3); (1, 1)])
    = (Some [1; 3; 2], 3, [lookup st0 (0, 0); lookup st0 (0, 3); Some [VZ 30; VZ 10; VZ 5; VZ 20]]).
  Proof. vm_compute. reflexivity. Qed.
End PromoteExamples.
