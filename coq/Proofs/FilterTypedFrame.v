(* Proofs/FilterTypedFrame.v — C02 at the level of QFrame.Filter: the executed model (Model/Filter.v:
   frame_filter -> clause_filter -> filter_leaves -> filter_leaf -> generated tables and kernels) against the
   row-wise specification (Model/FilterSpec.v: filter_spec / clause_sat / leaf_sat). *)
From QF Require Import Base.Prelude Base.KernelSyntax Gen.GenConsts Gen.GenTables Gen.GenKernels.
From QF Require Import Model.Frame Model.Bits Model.Kernel Model.Filter Model.FilterSpec.
From QF Require Import Proofs.FilterProofs Proofs.FilterLeafProofs Proofs.FilterTyped Proofs.FilterTypedLeaf.
Local Open Scope nat_scope.

(* ------------------------------------------------------------------ induction over clause trees *)

Section ClauseInd.
  Variable P : clause -> Prop.
  Hypothesis HL : forall l, P (CLeaf l).
  Hypothesis HN : P CNull.
  Hypothesis HNot : forall c, P c -> P (CNot c).
  Hypothesis HAnd : forall cs, Forall P cs -> P (CAnd cs).
  Hypothesis HOr : forall cs, Forall P cs -> P (COr cs).

  Fixpoint clause_ind2 (c : clause) : P c :=
    match c with
    | CLeaf l => HL l
    | CNull => HN
    | CNot c' => HNot c' (clause_ind2 c')
    | CAnd cs => HAnd cs ((fix go (cs : list clause) : Forall P cs :=
                             match cs with
                             | [] => Forall_nil P
                             | c' :: r => Forall_cons c' (clause_ind2 c') (go r)
                             end) cs)
    | COr cs => HOr cs ((fix go (cs : list clause) : Forall P cs :=
                           match cs with
                           | [] => Forall_nil P
                           | c' :: r => Forall_cons c' (clause_ind2 c') (go r)
                           end) cs)
    end.
End ClauseInd.

Inductive all_leaves (P : leaf -> Prop) : clause -> Prop :=
| al_leaf l : P l -> all_leaves P (CLeaf l)
| al_null : all_leaves P CNull
| al_not c : all_leaves P c -> all_leaves P (CNot c)
| al_and cs : Forall (all_leaves P) cs -> all_leaves P (CAnd cs)
| al_or cs : Forall (all_leaves P) cs -> all_leaves P (COr cs).

(* ------------------------------------------------------------------ clause_sat, unfolded *)

Fixpoint and_go (mt : matcher_table) (f : frame) (p : nat) (cs : list clause) : outcome (option (option bool)) :=
  match cs with
  | [] => Ok (det true)
  | c' :: rest => do a <- clause_sat mt f c' p; do b <- and_go mt f p rest; Ok (and3 a b)
  end.
Fixpoint or_go (mt : matcher_table) (f : frame) (p : nat) (cs : list clause) : outcome (option (option bool)) :=
  match cs with
  | [] => Ok (det false)
  | c' :: rest => do a <- clause_sat mt f c' p; do b <- or_go mt f p rest; Ok (or3 a b)
  end.

Lemma clause_sat_and mt f cs p :
  clause_sat mt f (CAnd cs) p = match cs with [] => Ok invalid | _ => and_go mt f p cs end.
Proof.
  destruct cs as [|c cs]; [reflexivity|].
  change (clause_sat mt f (CAnd (c :: cs)) p)
    with ((fix go (cs0 : list clause) : outcome (option (option bool)) :=
             match cs0 with
             | [] => Ok (det true)
             | c' :: rest => do a <- clause_sat mt f c' p; do b <- go rest; Ok (and3 a b)
             end) (c :: cs)).
  generalize (c :: cs). intro l. induction l as [|x l IH]; [reflexivity|].
  cbn [and_go]. rewrite <- IH. reflexivity.
Qed.
Lemma clause_sat_or mt f cs p :
  clause_sat mt f (COr cs) p = match cs with [] => Ok invalid | _ => or_go mt f p cs end.
Proof.
  destruct cs as [|c cs]; [reflexivity|].
  change (clause_sat mt f (COr (c :: cs)) p)
    with ((fix go (cs0 : list clause) : outcome (option (option bool)) :=
             match cs0 with
             | [] => Ok (det false)
             | c' :: rest => do a <- clause_sat mt f c' p; do b <- go rest; Ok (or3 a b)
             end) (c :: cs)).
  generalize (c :: cs). intro l. induction l as [|x l IH]; [reflexivity|].
  cbn [or_go]. rewrite <- IH. reflexivity.
Qed.

(* filter_spec as a named recursion *)
Section SpecGo.
  Variable mt : matcher_table.
  Variable f : frame.
  Variable c : clause.
  Fixpoint spec_go (index acc : list nat) (opened : bool) : filter_verdict :=
    match index with
    | [] => if opened then VOpen else VRows (rev acc)
    | p :: rest =>
        match clause_sat mt f c p with
        | Ok None => VError
        | Ok (Some None) => spec_go rest acc true
        | Ok (Some (Some true)) => spec_go rest (p :: acc) opened
        | Ok (Some (Some false)) => spec_go rest acc opened
        | _ => VFault
        end
    end.
End SpecGo.
Lemma filter_spec_go mt f c : filter_spec mt f c = spec_go mt f c (ix f) [] false.
Proof. reflexivity. Qed.

Lemma spec_go_rows mt f c (g : nat -> bool) : forall index acc,
  (forall p, In p index -> clause_sat mt f c p = Ok (Some (Some (g p)))) ->
  spec_go mt f c index acc false = VRows (rev acc ++ filter g index).
Proof.
  induction index as [|p index IH]; intros acc H; cbn [spec_go filter].
  - rewrite app_nil_r. reflexivity.
  - rewrite (H p (or_introl eq_refl)).
    destruct (g p); rewrite IH by (intros q Hq; apply H; right; exact Hq).
    + cbn [rev]. rewrite <- app_assoc. reflexivity.
    + reflexivity.
Qed.

Lemma spec_go_error mt f c p index acc opened :
  clause_sat mt f c p = Ok None -> spec_go mt f c (p :: index) acc opened = VError.
Proof. intro H. cbn [spec_go]. rewrite H. reflexivity. Qed.

Definition sat_true (r : outcome (option (option bool))) : bool :=
  match r with Ok (Some (Some true)) => true | _ => false end.

Lemma with_ix_id f : with_ix f (ix f) = f.
Proof. destruct f; reflexivity. Qed.

(* ------------------------------------------------------------------ the frame level *)

Section FrameLevel.
  Variable mt : matcher_table.
  Variable f : frame.
  Hypothesis Hok : frame_ok f.
  Hypothesis Hnoerr : ferr f = false.

  Lemma ix_in_range p : In p (ix f) -> p < phys_len f.
  Proof.
    intro Hp. destruct Hok as [Hwf _]. unfold wf_frame in Hwf. apply andb_true_iff in Hwf as [_ Hix].
    rewrite forallb_forall in Hix. apply Nat.ltb_lt. apply Hix. exact Hp.
  Qed.

  Definition leaf_det (l : leaf) (p : nat) : Prop := exists v, leaf_sat mt f l p = Ok (Some (Some v)).
  Definition leaf_valid (l : leaf) : Prop := forall p, In p (ix f) -> leaf_det l p.
  Definition leaf_bad (l : leaf) : Prop := exists p, In p (ix f) /\ leaf_sat mt f l p = Ok None.
  (* the specification answers for the leaf on every row of the frame: no cell fault, and no row left open
     (a user predicate or a like-matcher the case did not record, a negative any_bits mask, an order
     comparison of a non-strict enum with a constant outside the type) *)
  Definition leaf_closed (l : leaf) : Prop :=
    forall p, In p (ix f) -> leaf_sat mt f l p = Ok None \/ leaf_det l p.

  Inductive clause_valid : clause -> Prop :=
  | cv_leaf l : leaf_valid l -> clause_valid (CLeaf l)
  | cv_null : clause_valid CNull
  | cv_not c : clause_valid c -> clause_valid (CNot c)
  | cv_and cs : cs <> [] -> Forall clause_valid cs -> clause_valid (CAnd cs)
  | cv_or cs : cs <> [] -> Forall clause_valid cs -> clause_valid (COr cs).

  Inductive clause_bad : clause -> Prop :=
  | cb_leaf l : leaf_bad l -> clause_bad (CLeaf l)
  | cb_not c : clause_bad c -> clause_bad (CNot c)
  | cb_and_nil : clause_bad (CAnd [])
  | cb_and cs : Exists clause_bad cs -> clause_bad (CAnd cs)
  | cb_or_nil : clause_bad (COr [])
  | cb_or cs : Exists clause_bad cs -> clause_bad (COr cs).

  Lemma leaf_dich_list l : forall L, (forall p, In p L -> leaf_sat mt f l p = Ok None \/ leaf_det l p) ->
    (forall p, In p L -> leaf_det l p) \/ (exists p, In p L /\ leaf_sat mt f l p = Ok None).
  Proof.
    induction L as [|q L IH]; intro H; [left; intros p []|].
    destruct (H q (or_introl eq_refl)) as [Hb|Hd].
    - right. exists q. split; [left; reflexivity|exact Hb].
    - destruct (IH (fun p Hp => H p (or_intror Hp))) as [Hv|[p [Hp Hb]]].
      + left. intros p [<-|Hp]; [exact Hd|apply Hv; exact Hp].
      + right. exists p. split; [right; exact Hp|exact Hb].
  Qed.

  Lemma leaf_dich l : leaf_closed l -> leaf_valid l \/ leaf_bad l.
  Proof. intro H. exact (leaf_dich_list l (ix f) H). Qed.

  Lemma forall_or_exists {A} (P Q : A -> Prop) (l : list A) :
    Forall (fun x => P x \/ Q x) l -> Forall P l \/ Exists Q l.
  Proof.
    induction 1 as [|x l [Hp|Hq] _ IH]; [left; constructor| |right; constructor; exact Hq].
    destruct IH as [IH|IH]; [left; constructor; assumption|right; apply Exists_cons_tl; exact IH].
  Qed.

  Lemma clause_dich c : all_leaves leaf_closed c -> clause_valid c \/ clause_bad c.
  Proof.
    induction c as [l| |c IH|cs IH|cs IH] using clause_ind2; intro Hc; inversion Hc; subst.
    - destruct (leaf_dich l H0); [left; constructor; assumption|right; constructor; assumption].
    - left. constructor.
    - destruct (IH H0); [left; constructor; assumption|right; constructor; assumption].
    - destruct cs as [|c0 cs]; [right; constructor|].
      assert (Hd : Forall (fun c => clause_valid c \/ clause_bad c) (c0 :: cs)).
      { rewrite Forall_forall in *. intros c Hin. apply IH; [exact Hin|apply H0; exact Hin]. }
      destruct (forall_or_exists _ _ _ Hd); [left; constructor; [discriminate|assumption]|right; apply cb_and; assumption].
    - destruct cs as [|c0 cs]; [right; constructor|].
      assert (Hd : Forall (fun c => clause_valid c \/ clause_bad c) (c0 :: cs)).
      { rewrite Forall_forall in *. intros c Hin. apply IH; [exact Hin|apply H0; exact Hin]. }
      destruct (forall_or_exists _ _ _ Hd); [left; constructor; [discriminate|assumption]|right; apply cb_or; assumption].
  Qed.

  (* the row-wise meaning of a leaf as a boolean; defined through the plain leaf so that
     Filter.Inverse is the complement on every position *)
  Definition plain (l : leaf) : leaf := mkLeaf (lcol l) (lcmp l) (larg l) false.
  Definition core_set (l : leaf) (p : nat) : bool :=
    match leaf_sat mt f (plain l) p with Ok (Some (Some v)) => v | _ => false end.
  Definition leaf_set (l : leaf) (p : nat) : bool := xorb (core_set l p) (linv l).

  Lemma leaf_set_det l p v : leaf_sat mt f l p = Ok (Some (Some v)) -> leaf_set l p = v.
  Proof.
    unfold leaf_set, core_set. rewrite !leaf_sat_unfold. cbn [plain lcol lcmp larg linv].
    destruct (lookup_col f (lcol l)); [|discriminate].
    destruct (leaf_core mt f c (lcmp l) (larg l) p) as [[[w|]|]| |]; simpl; intro H; inversion H.
    rewrite xorb_false_r. reflexivity.
  Qed.

  Lemma leaf_set_invert l p : leaf_set (invert_leaf l) p = negb (leaf_set l p).
  Proof.
    unfold leaf_set, core_set, invert_leaf, plain. cbn [lcol lcmp larg linv].
    destruct (match leaf_sat mt f _ p with Ok (Some (Some v)) => v | _ => false end), (linv l); reflexivity.
  Qed.

  Lemma leaf_sat_invert l p : leaf_sat mt f (invert_leaf l) p = do r <- leaf_sat mt f l p; Ok (not3 r).
  Proof.
    rewrite !leaf_sat_unfold. unfold invert_leaf. cbn [lcol lcmp larg linv].
    destruct (lookup_col f (lcol l)); [|reflexivity].
    destruct (leaf_core mt f c (lcmp l) (larg l) p) as [[[w|]|]| |]; simpl; try reflexivity.
    destruct w, (linv l); reflexivity.
  Qed.

  (* validity of a leaf does not depend on the row *)
  Lemma leaf_uniform l p1 p2 v :
    p1 < phys_len f -> p2 < phys_len f ->
    leaf_sat mt f l p1 = Ok None -> leaf_sat mt f l p2 = Ok (Some (Some v)) -> False.
  Proof.
    intros H1 H2 Hb Hd.
    assert (Hnn : lcmp l <> CmpName n_notin).
    { intro E. rewrite leaf_sat_unfold in Hd. destruct (lookup_col f (lcol l)); [|discriminate].
      rewrite E in Hd. destruct (leaf_core mt f c (CmpName n_notin) (larg l) p2) as [r| |] eqn:Hc; try discriminate.
      apply notin_never in Hc. subst r. discriminate. }
    pose proof (leaf_err mt f Hok l [p2] [false] p1 H1 Hb Hnn) as E1.
    pose proof (leaf_ok mt f Hok l (fun _ => v) [p2] [false] p2) as E2.
    rewrite E2 in E1; [discriminate| |reflexivity].
    intros p [->|[->|[]]]; split; assumption.
  Qed.

  Lemma valid_head p0 rest l : ix f = p0 :: rest -> leaf_valid l ->
    leaf_realised mt f leaf_set (fun p => In p (ix f)) l.
  Proof.
    intros Hix Hv i b Hlen Hin.
    apply (leaf_ok mt f Hok l (leaf_set l) i b p0); [|exact Hlen].
    intros p Hp.
    assert (Hpi : In p (ix f)).
    { destruct Hp as [->|Hp]; [rewrite Hix; left; reflexivity|]. rewrite Forall_forall in Hin. apply Hin. exact Hp. }
    split; [apply ix_in_range; exact Hpi|].
    destruct (Hv p Hpi) as [v Hd]. rewrite (leaf_set_det l p v Hd). exact Hd.
  Qed.

  Lemma invert_valid l : leaf_valid l -> leaf_valid (invert_leaf l).
  Proof.
    intros Hv p Hp. destruct (Hv p Hp) as [v Hd]. exists (negb v).
    rewrite leaf_sat_invert, Hd. reflexivity.
  Qed.

  (* a valid clause meets the premises of the structural theorem (FilterProofs.clause_keeps) *)
  Lemma valid_clause_ok p0 rest c : ix f = p0 :: rest -> clause_valid c ->
    clause_ok mt f leaf_set (fun p => In p (ix f)) c.
  Proof.
    intros Hix. induction c as [l| |c IH|cs IH|cs IH] using clause_ind2; intro Hv; inversion Hv; subst.
    - apply ok_leaf. eapply valid_head; eassumption.
    - apply ok_null.
    - destruct c as [l|cs|cs|c'|].
      + inversion H0; subst. apply ok_not_leaf.
        * eapply valid_head; [eassumption|apply invert_valid; assumption].
        * intro p. apply leaf_set_invert.
      + apply ok_not; [intros l E; discriminate|apply IH; assumption].
      + apply ok_not; [intros l E; discriminate|apply IH; assumption].
      + apply ok_not; [intros l E; discriminate|apply IH; assumption].
      + apply ok_not; [intros l E; discriminate|apply IH; assumption].
    - apply ok_and; [assumption|]. rewrite Forall_forall in *. intros c Hc. apply IH; [exact Hc|apply H1; exact Hc].
    - apply ok_or; [assumption|]. rewrite Forall_forall in *. intros c Hc. apply IH; [exact Hc|apply H1; exact Hc].
  Qed.

  Lemma and_go_valid cs p :
    Forall (fun c => clause_sat mt f c p = Ok (Some (Some (clause_set leaf_set c p)))) cs ->
    and_go mt f p cs = Ok (Some (Some (forallb (fun c => clause_set leaf_set c p) cs))).
  Proof.
    induction 1 as [|c cs Hc _ IH]; [reflexivity|]. cbn [and_go forallb]. rewrite Hc. cbn [obind]. rewrite IH. cbn [obind].
    destruct (clause_set leaf_set c p), (forallb (fun c => clause_set leaf_set c p) cs); reflexivity.
  Qed.
  Lemma or_go_valid cs p :
    Forall (fun c => clause_sat mt f c p = Ok (Some (Some (clause_set leaf_set c p)))) cs ->
    or_go mt f p cs = Ok (Some (Some (existsb (fun c => clause_set leaf_set c p) cs))).
  Proof.
    induction 1 as [|c cs Hc _ IH]; [reflexivity|]. cbn [or_go existsb]. rewrite Hc. cbn [obind]. rewrite IH. cbn [obind].
    destruct (clause_set leaf_set c p), (existsb (fun c => clause_set leaf_set c p) cs); reflexivity.
  Qed.

  (* ... and the specification evaluates it, on every row, to its boolean reading *)
  Lemma valid_sat c : clause_valid c ->
    forall p, In p (ix f) -> clause_sat mt f c p = Ok (Some (Some (clause_set leaf_set c p))).
  Proof.
    induction c as [l| |c IH|cs IH|cs IH] using clause_ind2; intros Hv p Hp; inversion Hv; subst.
    - destruct (H0 p Hp) as [v Hd]. cbn [clause_sat clause_set]. rewrite (leaf_set_det l p v Hd). exact Hd.
    - reflexivity.
    - cbn [clause_sat]. rewrite (IH H0 p Hp). reflexivity.
    - rewrite clause_sat_and, clause_set_and. destruct cs as [|c0 cs]; [congruence|].
      apply and_go_valid. rewrite Forall_forall in *. intros c Hc. apply IH; [exact Hc|apply H1; exact Hc|exact Hp].
    - rewrite clause_sat_or, clause_set_or. destruct cs as [|c0 cs]; [congruence|].
      apply or_go_valid. rewrite Forall_forall in *. intros c Hc. apply IH; [exact Hc|apply H1; exact Hc|exact Hp].
  Qed.

  (* THE FRAME THEOREM, valid clauses: QFrame.Filter returns exactly the rows on which the specification
     says true, once each, in frame order, columns untouched *)
  Theorem filter_valid c :
    NoDup (ix f) -> ix f <> [] -> clause_valid c ->
    frame_filter mt f c = Ok (with_ix f (filter (fun p => sat_true (clause_sat mt f c p)) (ix f)))
    /\ filter_spec mt f c = VRows (filter (fun p => sat_true (clause_sat mt f c p)) (ix f)).
  Proof.
    intros Hnd Hne Hv.
    destruct (ix f) as [|p0 rest] eqn:Hix; [congruence|]. rewrite <- Hix in *.
    assert (Hext : filter (fun p => sat_true (clause_sat mt f c p)) (ix f) = filter (clause_set leaf_set c) (ix f)).
    { apply filter_ext_in. intros p Hp. rewrite (valid_sat c Hv p Hp). cbn [sat_true].
      destruct (clause_set leaf_set c p); reflexivity. }
    rewrite Hext. split.
    - unfold frame_filter. rewrite Hnoerr.
      pose proof (clause_keeps mt f Hnoerr leaf_set (fun p => In p (ix f)) c (valid_clause_ok p0 rest c Hix Hv) (ix f) Hnd) as K.
      rewrite with_ix_id in K. apply K. apply Forall_forall. auto.
    - rewrite filter_spec_go. rewrite (spec_go_rows mt f c (clause_set leaf_set c)); [reflexivity|].
      apply valid_sat. exact Hv.
  Qed.
End FrameLevel.

(* ------------------------------------------------------------------ invalid clauses: Filter reports an error *)

Section FrameErrors.
  Variable mt : matcher_table.
  Variable f : frame.
  Hypothesis Hok : frame_ok f.
  Hypothesis Hnoerr : ferr f = false.
  Variable p0 : nat.
  Variable rest0 : list nat.
  Hypothesis Hix : ix f = p0 :: rest0.

  Notation leaf_closed := (leaf_closed mt f).
  Notation leaf_bad := (leaf_bad mt f).
  Notation leaf_valid := (leaf_valid mt f).
  Notation clause_bad := (clause_bad mt f).
  Notation clause_valid := (clause_valid mt f).
  Notation leaf_set := (leaf_set mt f).
  Notation cf := (fun c' g => clause_filter mt c' g).

  Lemma err_sticky c g : ferr g = true -> clause_filter mt c g = Ok g.
  Proof.
    intro H. destruct c as [l|cs|cs|c|]; cbn [clause_filter]; try (rewrite H; reflexivity); [|reflexivity].
    unfold filter_leaves. rewrite H. reflexivity.
  Qed.

  Lemma and_loop_sticky cs g : ferr g = true -> and_loop cf cs g = Ok g.
  Proof.
    intro H. induction cs as [|c cs IH]; [reflexivity|]. cbn [and_loop]. rewrite (err_sticky c g H). exact IH.
  Qed.

  Lemma valid_bad_excl l : leaf_valid l -> leaf_bad l -> False.
  Proof.
    intros Hv [p [Hp Hb]]. destruct (Hv p Hp) as [v Hd].
    pose proof (ix_in_range f Hok p Hp) as Hlt.
    exact (leaf_uniform mt f Hok l p p v Hlt Hlt Hb Hd).
  Qed.

  Lemma incl_inb i : incl i (ix f) -> Forall (fun p => In p (ix f)) i.
  Proof. intro H. apply Forall_forall. exact H. Qed.

  Lemma valid_keeps c : clause_valid c -> forall i, NoDup i -> incl i (ix f) ->
    clause_filter mt c (with_ix f i) = Ok (with_ix f (filter (clause_set leaf_set c) i)).
  Proof.
    intros Hv i Hnd Hin.
    exact (clause_keeps mt f Hnoerr leaf_set (fun p => In p (ix f)) c
                        (valid_clause_ok mt f Hok p0 rest0 c Hix Hv) i Hnd (incl_inb i Hin)).
  Qed.

  Lemma bad_leaf_fails l i b : leaf_bad l -> leaf_in_scope l -> filter_leaf mt (with_ix f i) l b = Fail.
  Proof.
    intros [p [Hp Hb]] Hs. exact (leaf_err mt f Hok l i b p (ix_in_range f Hok p Hp) Hb Hs).
  Qed.

  (* a batch of leaves with an invalid one *)
  Lemma ofold_bad i : forall ls b,
    length i = length b -> incl i (ix f) ->
    Forall leaf_closed ls -> Forall leaf_in_scope ls -> Exists leaf_bad ls ->
    ofold (fun b l => filter_leaf mt (with_ix f i) l b) ls b = Fail.
  Proof.
    induction ls as [|l ls IH]; intros b Hlen Hin Hc Hs Hb; [inversion Hb|].
    inversion Hc as [|? ? Hcl Hcls]; subst. inversion Hs as [|? ? Hsl Hsls]; subst.
    rewrite ofold_ok_step.
    destruct (leaf_dich mt f l Hcl) as [Hv|Hbad].
    - pose proof (valid_head mt f Hok p0 rest0 l Hix Hv i b Hlen (incl_inb i Hin)) as E.
      change (Frame.with_ix f i) with (with_ix f i) in E. rewrite E. cbn [obind].
      apply IH; try assumption.
      + rewrite mask_or_length; [exact Hlen|rewrite map_length; symmetry; exact Hlen].
      + inversion Hb as [? ? Hbl|? ? Hbls]; subst; [exfalso; exact (valid_bad_excl l Hv Hbl)|exact Hbls].
    - rewrite (bad_leaf_fails l i b Hbad Hsl). reflexivity.
  Qed.

  Lemma filter_leaves_eval i ls :
    NoDup i -> incl i (ix f) -> Forall leaf_closed ls -> Forall leaf_in_scope ls ->
    exists nf, filter_leaves mt (with_ix f i) ls = Ok nf /\ (Exists leaf_bad ls -> ferr nf = true).
  Proof.
    intros Hnd Hin Hc Hs.
    assert (Hd : Forall (fun l => leaf_valid l \/ leaf_bad l) ls).
    { rewrite Forall_forall in *. intros l Hl. apply leaf_dich. apply Hc. exact Hl. }
    destruct (forall_or_exists _ _ _ Hd) as [Hv|Hb].
    - assert (Hr : Forall (leaf_realised mt f leaf_set (fun p => In p (ix f))) ls).
      { rewrite Forall_forall in *. intros l Hl. eapply valid_head; [exact Hok|exact Hix|apply Hv; exact Hl]. }
      rewrite (filter_leaves_or mt f Hnoerr leaf_set (fun p => In p (ix f)) ls i Hr (incl_inb i Hin)).
      eexists. split; [reflexivity|].
      intro Hb. exfalso. apply Exists_exists in Hb as [l [Hl Hbl]].
      rewrite Forall_forall in Hv. exact (valid_bad_excl l (Hv l Hl) Hbl).
    - unfold filter_leaves. cbn [ferr with_ix ix]. rewrite Hnoerr.
      rewrite (ofold_bad i ls _ ltac:(rewrite map_length; reflexivity) Hin Hc Hs Hb).
      eexists. split; [reflexivity|]. intros _. reflexivity.
  Qed.

  Definition acc_err (acc : option frame) : bool := match acc with Some a => ferr a | None => false end.

  Lemma or_frames_err i acc nf :
    acc_err acc = true \/ ferr nf = true -> ferr (or_frames (with_ix f i) acc nf) = true.
  Proof.
    unfold or_frames, acc_err. destruct acc as [a|]; intros [H|H]; try discriminate; try exact H.
    - rewrite H. exact H.
    - destruct (ferr a) eqn:E; [exact E|]. rewrite H. exact H.
  Qed.

  (* what the induction over clause trees provides for every sub-clause *)
  Definition errs (c : clause) : Prop :=
    clause_bad c -> forall i, NoDup i -> incl i (ix f) ->
    exists g, clause_filter mt c (with_ix f i) = Ok g /\ ferr g = true.

  Lemma sub_eval c i :
    all_leaves leaf_closed c -> errs c -> NoDup i -> incl i (ix f) ->
    exists g, clause_filter mt c (with_ix f i) = Ok g /\ (clause_bad c -> ferr g = true).
  Proof.
    intros Hc He Hnd Hin. destruct (clause_dich mt f c Hc) as [Hv|Hb].
    - exists (with_ix f (filter (clause_set leaf_set c) i)).
      split; [exact (valid_keeps c Hv i Hnd Hin)|]. intro Hb. destruct (He Hb i Hnd Hin) as [g' [E Hg']].
      rewrite (valid_keeps c Hv i Hnd Hin) in E. inversion E; subst. exact Hg'.
    - destruct (He Hb i Hnd Hin) as [g [E Hg]]. exists g. split; [exact E|intros _; exact Hg].
  Qed.

  Lemma and_loop_bad : forall cs,
    Forall (all_leaves leaf_closed) cs -> Forall errs cs -> Exists clause_bad cs ->
    forall i, NoDup i -> incl i (ix f) ->
    exists g, and_loop cf cs (with_ix f i) = Ok g /\ ferr g = true.
  Proof.
    induction cs as [|c cs IH]; intros Hc He Hb i Hnd Hin; [inversion Hb|].
    inversion Hc as [|? ? Hc1 Hcs]; subst. inversion He as [|? ? He1 Hes]; subst.
    cbn [and_loop].
    destruct (clause_dich mt f c Hc1) as [Hv|Hbad].
    - inversion Hb as [? ? Hb1|? ? Hbs]; subst.
      + destruct (He1 Hb1 i Hnd Hin) as [g [E Hg]]. rewrite E. cbn [obind].
        exists g. split; [apply and_loop_sticky; exact Hg|exact Hg].
      + rewrite (valid_keeps c Hv i Hnd Hin). cbn [obind].
        apply IH; try assumption.
        * apply NoDup_filter. exact Hnd.
        * intros p Hp. apply filter_In in Hp. apply Hin. exact (proj1 Hp).
    - destruct (He1 Hbad i Hnd Hin) as [g [E Hg]]. rewrite E. cbn [obind].
      exists g. split; [apply and_loop_sticky; exact Hg|exact Hg].
  Qed.

  Lemma flush_eval i pending acc :
    NoDup i -> incl i (ix f) -> Forall leaf_closed pending -> Forall leaf_in_scope pending ->
    exists acc',
      (match pending with
       | [] => Ok acc
       | _ => do nf <- filter_leaves mt (with_ix f i) (rev pending); Ok (Some (or_frames (with_ix f i) acc nf))
       end) = Ok acc'
      /\ (acc_err acc = true \/ Exists leaf_bad pending -> acc_err acc' = true)
      /\ (pending <> [] \/ acc <> None -> acc' <> None).
  Proof.
    intros Hnd Hin Hc Hs. destruct pending as [|l0 pending'].
    - exists acc. split; [reflexivity|]. split.
      + intros [H|H]; [exact H|inversion H].
      + intros [H|H]; [congruence|exact H].
    - destruct (filter_leaves_eval i (rev (l0 :: pending')) Hnd Hin (Forall_rev Hc) (Forall_rev Hs)) as [nf [E Hnf]].
      rewrite E. cbn [obind]. eexists. split; [reflexivity|]. split.
      + intro H. cbn [acc_err]. apply or_frames_err. destruct H as [H|H]; [left; exact H|right].
        apply Hnf. apply Exists_exists in H as [l [Hl Hbl]]. apply Exists_exists. exists l.
        split; [apply in_rev in Hl; exact Hl || (apply -> in_rev; exact Hl)|exact Hbl].
      + intros _. discriminate.
  Qed.

  Lemma or_loop_bad i : NoDup i -> incl i (ix f) -> forall cs pending acc,
    Forall (all_leaves leaf_closed) cs -> Forall (all_leaves leaf_in_scope) cs -> Forall errs cs ->
    Forall leaf_closed pending -> Forall leaf_in_scope pending ->
    (acc_err acc = true \/ Exists leaf_bad pending \/ Exists clause_bad cs) ->
    exists g, or_loop mt cf (with_ix f i) cs pending acc = Ok g /\ ferr g = true.
  Proof.
    intros Hnd Hin. induction cs as [|c cs IH]; intros pending acc Hc Hs He Hpc Hps Hbad.
    - cbn [or_loop].
      destruct (flush_eval i pending acc Hnd Hin Hpc Hps) as [acc' [Hf [Herr _]]].
      rewrite Hf. cbn [obind].
      assert (Ha : acc_err acc' = true).
      { apply Herr. destruct Hbad as [H|[H|H]]; [left; exact H|right; exact H|inversion H]. }
      destruct acc' as [a|]; [|discriminate Ha]. exists a. split; [reflexivity|exact Ha].
    - inversion Hc as [|? ? Hc1 Hcs]; subst. inversion Hs as [|? ? Hs1 Hss]; subst.
      inversion He as [|? ? He1 Hes]; subst.
      assert (NonLeaf : (forall l, c <> CLeaf l) ->
                exists g, (do acc' <- (match pending with
                                       | [] => Ok acc
                                       | _ => do nf <- filter_leaves mt (with_ix f i) (rev pending);
                                              Ok (Some (or_frames (with_ix f i) acc nf))
                                       end);
                           do nf <- clause_filter mt c (with_ix f i);
                           or_loop mt cf (with_ix f i) cs [] (Some (or_frames (with_ix f i) acc' nf))) = Ok g
                          /\ ferr g = true).
      { intros _.
        destruct (flush_eval i pending acc Hnd Hin Hpc Hps) as [acc' [Hf [Herr _]]].
        rewrite Hf. cbn [obind].
        destruct (sub_eval c i Hc1 He1 Hnd Hin) as [nf [E Hnf]]. rewrite E. cbn [obind].
        apply IH; [assumption|assumption|assumption|constructor|constructor|].
        destruct Hbad as [H|[H|H]].
        - left. cbn [acc_err]. apply or_frames_err. left. apply Herr. left. exact H.
        - left. cbn [acc_err]. apply or_frames_err. left. apply Herr. right. exact H.
        - inversion H as [? ? Hb1|? ? Hbs]; subst.
          + left. cbn [acc_err]. apply or_frames_err. right. apply Hnf. exact Hb1.
          + right. right. exact Hbs. }
      destruct c as [l|cs'|cs'|c'|].
      + (* a leaf joins the pending batch *)
        cbn [or_loop]. inversion Hc1; subst. inversion Hs1; subst.
        apply IH; [assumption|assumption|assumption|constructor; assumption|constructor; assumption|].
        destruct Hbad as [H|[H|H]]; [left; exact H|right; left; apply Exists_cons_tl; exact H|].
        inversion H as [? ? Hb1|? ? Hbs]; subst; [|right; right; exact Hbs].
        inversion Hb1; subst. right. left. apply Exists_cons_hd. assumption.
      + cbn [or_loop]. apply NonLeaf. intros l E. discriminate.
      + cbn [or_loop]. apply NonLeaf. intros l E. discriminate.
      + cbn [or_loop]. apply NonLeaf. intros l E. discriminate.
      + cbn [or_loop]. apply NonLeaf. intros l E. discriminate.
  Qed.

  Lemma clause_err_with i c g : clause_err c = true ->
    (if clause_err c then Ok (with_err (with_ix f i)) else g) = Ok (with_err (with_ix f i)).
  Proof. intro H. rewrite H. reflexivity. Qed.

  Lemma al_leaf_inv P l : all_leaves P (CLeaf l) -> P l.
  Proof. intro H. inversion H. assumption. Qed.
  Lemma al_not_inv P c : all_leaves P (CNot c) -> all_leaves P c.
  Proof. intro H. inversion H. assumption. Qed.
  Lemma al_and_inv P cs : all_leaves P (CAnd cs) -> Forall (all_leaves P) cs.
  Proof. intro H. inversion H. assumption. Qed.
  Lemma al_or_inv P cs : all_leaves P (COr cs) -> Forall (all_leaves P) cs.
  Proof. intro H. inversion H. assumption. Qed.
  Lemma cb_leaf_inv l : clause_bad (CLeaf l) -> leaf_bad l.
  Proof. intro H. inversion H. assumption. Qed.
  Lemma cb_not_inv c : clause_bad (CNot c) -> clause_bad c.
  Proof. intro H. inversion H. assumption. Qed.
  Lemma cb_and_inv cs : clause_bad (CAnd cs) -> cs = [] \/ Exists clause_bad cs.
  Proof. intro H. inversion H; [left; reflexivity|right; assumption]. Qed.
  Lemma cb_or_inv cs : clause_bad (COr cs) -> cs = [] \/ Exists clause_bad cs.
  Proof. intro H. inversion H; [left; reflexivity|right; assumption]. Qed.

  (* every invalid clause in scope makes clause_filter return a frame with Err set, on every sub-index *)
  Theorem bad_errors c : all_leaves leaf_closed c -> all_leaves leaf_in_scope c -> errs c.
  Proof.
    induction c as [l| |c IH|cs IH|cs IH] using clause_ind2; intros Hc Hs Hb i Hnd Hin.
    - apply al_leaf_inv in Hc. apply al_leaf_inv in Hs. apply cb_leaf_inv in Hb.
      cbn [clause_filter].
      destruct (filter_leaves_eval i [l] Hnd Hin ltac:(constructor; [assumption|constructor])
                                   ltac:(constructor; [assumption|constructor])) as [nf [E Hnf]].
      exists nf. split; [exact E|]. apply Hnf. constructor. assumption.
    - inversion Hb.
    - apply al_not_inv in Hc. apply al_not_inv in Hs. apply cb_not_inv in Hb.
      cbn [clause_filter]. cbn [ferr with_ix]. rewrite Hnoerr.
      destruct (clause_err (CNot c)) eqn:Ece; [eexists; split; reflexivity|].
      assert (Gen : exists g, (do nf <- clause_filter mt c (with_ix f i);
                               if ferr nf then Ok nf
                               else Ok (with_ix (with_ix f i) (not_merge (ix (with_ix f i)) (ix nf)))) = Ok g
                              /\ ferr g = true).
      { destruct (IH Hc Hs Hb i Hnd Hin) as [g [E Hg]]. rewrite E. cbn [obind]. rewrite Hg.
        exists g. split; [reflexivity|exact Hg]. }
      destruct c as [l|cs'|cs'|c'|]; try exact Gen.
      (* Not of a leaf runs the inverted leaf *)
      apply al_leaf_inv in Hc. apply al_leaf_inv in Hs. apply cb_leaf_inv in Hb.
      assert (Hcl : leaf_closed (invert_leaf l)).
      { intros p Hp. destruct (Hc p Hp) as [E|[v E]].
        - left. rewrite leaf_sat_invert, E. reflexivity.
        - right. exists (negb v). rewrite leaf_sat_invert, E. reflexivity. }
      assert (Hbl : leaf_bad (invert_leaf l)).
      { destruct Hb as [p [Hp E]]. exists p. split; [exact Hp|]. rewrite leaf_sat_invert, E. reflexivity. }
      destruct (filter_leaves_eval i [invert_leaf l] Hnd Hin ltac:(constructor; [assumption|constructor])
                                   ltac:(constructor; [exact Hs|constructor])) as [nf [E Hnf]].
      exists nf. split; [exact E|]. apply Hnf. constructor. exact Hbl.
    - apply al_and_inv in Hc. apply al_and_inv in Hs. apply cb_and_inv in Hb.
      cbn [clause_filter]. cbn [ferr with_ix]. rewrite Hnoerr.
      destruct (clause_err (CAnd cs)) eqn:Ece; [eexists; split; reflexivity|].
      destruct Hb as [->|Hb]; [discriminate Ece|].
      apply and_loop_bad; try assumption.
      rewrite Forall_forall in *. intros c Hcin. apply IH; [exact Hcin|apply Hc; exact Hcin|apply Hs; exact Hcin].
    - apply al_or_inv in Hc. apply al_or_inv in Hs. apply cb_or_inv in Hb.
      cbn [clause_filter]. cbn [ferr with_ix]. rewrite Hnoerr.
      destruct (clause_err (COr cs)) eqn:Ece; [eexists; split; reflexivity|].
      destruct Hb as [->|Hb]; [discriminate Ece|].
      apply or_loop_bad; [assumption|assumption|assumption|assumption| |constructor|constructor|right; right; assumption].
      rewrite Forall_forall in *. intros c Hcin. apply IH; [exact Hcin|apply Hc; exact Hcin|apply Hs; exact Hcin].
  Qed.
End FrameErrors.

(* ------------------------------------------------------------------ the theorems against filter_spec *)

Section Final.
  Variable mt : matcher_table.
  Variable f : frame.
  Hypothesis Hok : frame_ok f.
  Hypothesis Hnoerr : ferr f = false.

  Definition clause_closed (c : clause) : Prop := all_leaves (leaf_closed mt f) c.
  Definition clause_in_scope (c : clause) : Prop := all_leaves leaf_in_scope c.

  Definition sat_settled (r : outcome (option (option bool))) : Prop :=
    r = Ok None \/ exists v, r = Ok (Some (Some v)).

  Lemma and_go_settled p : forall cs,
    Forall (fun c => sat_settled (clause_sat mt f c p)) cs ->
    sat_settled (and_go mt f p cs)
    /\ (Exists (fun c => clause_sat mt f c p = Ok None) cs -> and_go mt f p cs = Ok None).
  Proof.
    induction 1 as [|c cs Hc _ [IH1 IH2]]; [split; [right; exists true; reflexivity|intro H; inversion H]|].
    cbn [and_go]. destruct Hc as [Hc|[v Hc]]; rewrite Hc; cbn [obind].
    - destruct IH1 as [E|[w E]]; rewrite E; cbn [obind]; split; try (left; reflexivity); intros _; reflexivity.
    - destruct IH1 as [E|[w E]]; rewrite E; cbn [obind].
      + split; [left; destruct v; reflexivity|intros _; destruct v; reflexivity].
      + split; [right; exists (v && w); destruct v, w; reflexivity|].
        intro H. inversion H as [? ? H1|? ? H1]; subst; [congruence|]. specialize (IH2 H1). congruence.
  Qed.

  Lemma or_go_settled p : forall cs,
    Forall (fun c => sat_settled (clause_sat mt f c p)) cs ->
    sat_settled (or_go mt f p cs)
    /\ (Exists (fun c => clause_sat mt f c p = Ok None) cs -> or_go mt f p cs = Ok None).
  Proof.
    induction 1 as [|c cs Hc _ [IH1 IH2]]; [split; [right; exists false; reflexivity|intro H; inversion H]|].
    cbn [or_go]. destruct Hc as [Hc|[v Hc]]; rewrite Hc; cbn [obind].
    - destruct IH1 as [E|[w E]]; rewrite E; cbn [obind]; split; try (left; reflexivity); intros _; reflexivity.
    - destruct IH1 as [E|[w E]]; rewrite E; cbn [obind].
      + split; [left; destruct v; reflexivity|intros _; destruct v; reflexivity].
      + split; [right; exists (v || w); destruct v, w; reflexivity|].
        intro H. inversion H as [? ? H1|? ? H1]; subst; [congruence|]. specialize (IH2 H1). congruence.
  Qed.

  (* an invalid clause is invalid on every row of the frame *)
  Lemma bad_sat c : clause_closed c -> clause_bad mt f c ->
    forall p, In p (ix f) -> clause_sat mt f c p = Ok None.
  Proof.
    induction c as [l| |c IH|cs IH|cs IH] using clause_ind2; intros Hc Hb p Hp.
    - apply al_leaf_inv in Hc. apply cb_leaf_inv in Hb. destruct Hb as [p1 [Hp1 Hb]].
      cbn [clause_sat]. destruct (Hc p Hp) as [E|[v E]]; [exact E|].
      exfalso. exact (leaf_uniform mt f Hok l p1 p v (ix_in_range f Hok p1 Hp1) (ix_in_range f Hok p Hp) Hb E).
    - inversion Hb.
    - apply al_not_inv in Hc. apply cb_not_inv in Hb. cbn [clause_sat]. rewrite (IH Hc Hb p Hp). reflexivity.
    - apply al_and_inv in Hc. apply cb_and_inv in Hb. rewrite clause_sat_and.
      destruct Hb as [->|Hb]; [reflexivity|]. destruct cs as [|c0 cs]; [inversion Hb|].
      assert (Hset : Forall (fun c => sat_settled (clause_sat mt f c p)) (c0 :: cs)).
      { rewrite Forall_forall in *. intros c Hcin.
        destruct (clause_dich mt f c (Hc c Hcin)) as [Hv|Hbad].
        - right. eexists. apply (valid_sat mt f c Hv p Hp).
        - left. apply IH; [exact Hcin|apply Hc; exact Hcin|exact Hbad|exact Hp]. }
      apply (and_go_settled p _ Hset). apply Exists_exists in Hb as [c [Hcin Hbad]].
      apply Exists_exists. exists c. split; [exact Hcin|].
      rewrite Forall_forall in *. apply IH; [exact Hcin|apply Hc; exact Hcin|exact Hbad|exact Hp].
    - apply al_or_inv in Hc. apply cb_or_inv in Hb. rewrite clause_sat_or.
      destruct Hb as [->|Hb]; [reflexivity|]. destruct cs as [|c0 cs]; [inversion Hb|].
      assert (Hset : Forall (fun c => sat_settled (clause_sat mt f c p)) (c0 :: cs)).
      { rewrite Forall_forall in *. intros c Hcin.
        destruct (clause_dich mt f c (Hc c Hcin)) as [Hv|Hbad].
        - right. eexists. apply (valid_sat mt f c Hv p Hp).
        - left. apply IH; [exact Hcin|apply Hc; exact Hcin|exact Hbad|exact Hp]. }
      apply (or_go_settled p _ Hset). apply Exists_exists in Hb as [c [Hcin Hbad]].
      apply Exists_exists. exists c. split; [exact Hcin|].
      rewrite Forall_forall in *. apply IH; [exact Hcin|apply Hc; exact Hcin|exact Hbad|exact Hp].
  Qed.

  (* C02, rows: if the specification accepts the clause and names the rows, QFrame.Filter returns exactly
     them, once each, in frame order, with the columns untouched *)
  Theorem filter_rows c rows :
    NoDup (ix f) -> ix f <> [] -> clause_closed c ->
    filter_spec mt f c = VRows rows ->
    frame_filter mt f c = Ok (with_ix f rows)
    /\ rows = filter (fun p => sat_true (clause_sat mt f c p)) (ix f).
  Proof.
    intros Hnd Hne Hc Hspec.
    destruct (clause_dich mt f c Hc) as [Hv|Hb].
    - destruct (filter_valid mt f Hok Hnoerr c Hnd Hne Hv) as [Hm Hs].
      rewrite Hs in Hspec. inversion Hspec; subst. split; [exact Hm|reflexivity].
    - exfalso. destruct (ix f) as [|p0 rest] eqn:Hix; [congruence|].
      rewrite filter_spec_go, Hix in Hspec.
      rewrite (spec_go_error mt f c p0 rest [] false) in Hspec; [discriminate|].
      apply (bad_sat c Hc Hb). rewrite Hix. left. reflexivity.
  Qed.

  (* C02, errors: if the specification rejects the clause, QFrame.Filter sets Err *)
  Theorem filter_error c :
    NoDup (ix f) -> clause_closed c -> clause_in_scope c ->
    filter_spec mt f c = VError ->
    exists g, frame_filter mt f c = Ok g /\ ferr g = true.
  Proof.
    intros Hnd Hc Hs Hspec.
    destruct (ix f) as [|p0 rest] eqn:Hix.
    - rewrite filter_spec_go, Hix in Hspec. discriminate.
    - rewrite <- Hix in Hnd. destruct (clause_dich mt f c Hc) as [Hv|Hb].
      + exfalso. destruct (filter_valid mt f Hok Hnoerr c Hnd ltac:(rewrite Hix; discriminate) Hv) as [_ Hsp].
        rewrite Hsp in Hspec. discriminate.
      + unfold frame_filter. rewrite Hnoerr.
        pose proof (bad_errors mt f Hok Hnoerr p0 rest Hix c Hc Hs Hb (ix f)) as B.
        rewrite with_ix_id in B. apply B; [exact Hnd|intros p Hp; exact Hp].
  Qed.

  (* ... and conversely: on closed clauses the specification's verdict is one of the two *)
  Theorem spec_verdict c :
    ix f <> [] -> clause_closed c ->
    (exists rows, filter_spec mt f c = VRows rows) \/ filter_spec mt f c = VError.
  Proof.
    intros Hne Hc. destruct (clause_dich mt f c Hc) as [Hv|Hb].
    - left. eexists. rewrite filter_spec_go. apply (spec_go_rows mt f c (clause_set (leaf_set mt f) c)).
      apply valid_sat. exact Hv.
    - right. destruct (ix f) as [|p0 rest] eqn:Hix; [congruence|].
      rewrite filter_spec_go, Hix. apply spec_go_error. apply (bad_sat c Hc Hb). rewrite Hix. left. reflexivity.
  Qed.
End Final.

(* ------------------------------------------------------------------ the premises as one executable check *)

Fixpoint clause_leaves (c : clause) : list leaf :=
  match c with
  | CLeaf l => [l]
  | CNull => []
  | CNot c' => clause_leaves c'
  | CAnd cs => flat_map clause_leaves cs
  | COr cs => flat_map clause_leaves cs
  end.

Lemma all_leaves_of_list (P : leaf -> Prop) c : Forall P (clause_leaves c) -> all_leaves P c.
Proof.
  induction c as [l| |c IH|cs IH|cs IH] using clause_ind2; cbn [clause_leaves]; intro H.
  - constructor. inversion H. assumption.
  - constructor.
  - constructor. apply IH. exact H.
  - constructor. induction IH as [|c cs Hc _ IHl]; [constructor|].
    cbn [flat_map] in H. apply Forall_app in H as [H1 H2]. constructor; [apply Hc; exact H1|apply IHl; exact H2].
  - constructor. induction IH as [|c cs Hc _ IHl]; [constructor|].
    cbn [flat_map] in H. apply Forall_app in H as [H1 H2]. constructor; [apply Hc; exact H1|apply IHl; exact H2].
Qed.

Fixpoint nodupb {A} (eqb : A -> A -> bool) (l : list A) : bool :=
  match l with
  | [] => true
  | x :: r => negb (existsb (eqb x) r) && nodupb eqb r
  end.

Lemma nodupb_ok {A} (eqb : A -> A -> bool) :
  (forall x y, eqb x y = true <-> x = y) -> forall l, nodupb eqb l = true -> NoDup l.
Proof.
  intros Hspec. induction l as [|x l IH]; intro H; [constructor|].
  cbn [nodupb] in H. apply andb_true_iff in H as [H1 H2]. constructor; [|apply IH; exact H2].
  intro Hin. apply negb_true_iff in H1.
  assert (existsb (eqb x) l = true) by (apply existsb_exists; exists x; split; [exact Hin|apply Hspec; reflexivity]).
  congruence.
Qed.

Definition enum_nodup_b (f : frame) : bool :=
  forallb (fun nc : bytes * coldata => match snd nc with ECol _ vs _ => nodupb bytes_eqb vs | _ => true end) (cols f).

Lemma frame_ok_b f : wf_frame f && enum_nodup_b f = true -> frame_ok f.
Proof.
  intro H. apply andb_true_iff in H as [H1 H2]. split; [exact H1|].
  intros n d vs st Hin. unfold enum_nodup_b in H2. rewrite forallb_forall in H2.
  specialize (H2 _ Hin). cbn [snd] in H2. exact (nodupb_ok bytes_eqb bytes_eqb_spec vs H2).
Qed.

Definition leaf_closed_b (mt : matcher_table) (f : frame) (l : leaf) : bool :=
  forallb (fun p => match leaf_sat mt f l p with Ok None | Ok (Some (Some _)) => true | _ => false end) (ix f).

Definition leaf_scope_b (l : leaf) : bool :=
  match lcmp l with CmpName s => negb (bytes_eqb s n_notin) | _ => true end.

Lemma leaf_closed_b_ok mt f l : leaf_closed_b mt f l = true -> leaf_closed mt f l.
Proof.
  unfold leaf_closed_b. rewrite forallb_forall. intros H p Hp. specialize (H p Hp). unfold leaf_det.
  destruct (leaf_sat mt f l p) as [[[v|]|]| |]; try discriminate; [right; eexists; reflexivity|left; reflexivity].
Qed.

Lemma leaf_scope_b_ok l : leaf_scope_b l = true -> leaf_in_scope l.
Proof.
  unfold leaf_scope_b, leaf_in_scope. intros H E. rewrite E in H. rewrite bytes_eqb_refl in H. discriminate.
Qed.

(* everything the frame theorems assume, as a boolean that an engine or an Example can evaluate:
   well-formed frame without error, pairwise different enum values, duplicate-free row index, and the
   specification answers (valid or invalid, but not open and without fault) for every leaf on every row *)
Definition c02_premises_b (mt : matcher_table) (f : frame) (c : clause) : bool :=
  wf_frame f && enum_nodup_b f && negb (ferr f) && nodupb Nat.eqb (ix f)
  && forallb (leaf_closed_b mt f) (clause_leaves c) && forallb leaf_scope_b (clause_leaves c).

(* THE C02 THEOREM in one statement *)
Theorem filter_meets_spec mt f c :
  c02_premises_b mt f c = true -> ix f <> [] ->
  match filter_spec mt f c with
  | VRows rows =>
      frame_filter mt f c = Ok (with_ix f rows)
      /\ rows = filter (fun p => sat_true (clause_sat mt f c p)) (ix f)
  | VError => exists g, frame_filter mt f c = Ok g /\ ferr g = true
  | VOpen | VFault => False
  end.
Proof.
  unfold c02_premises_b. intros H Hne.
  apply andb_true_iff in H as [H Hscope]. apply andb_true_iff in H as [H Hclosed].
  apply andb_true_iff in H as [H Hndb]. apply andb_true_iff in H as [H Hne'].
  assert (Hok : frame_ok f) by (apply frame_ok_b; exact H).
  assert (Hnoerr : ferr f = false) by (apply negb_true_iff; exact Hne').
  assert (Hnd : NoDup (ix f)) by (apply (nodupb_ok Nat.eqb Nat.eqb_eq); exact Hndb).
  assert (Hc : clause_closed mt f c).
  { apply all_leaves_of_list. apply Forall_forall. intros l Hl. apply leaf_closed_b_ok.
    rewrite forallb_forall in Hclosed. apply Hclosed. exact Hl. }
  assert (Hs : clause_in_scope c).
  { apply all_leaves_of_list. apply Forall_forall. intros l Hl. apply leaf_scope_b_ok.
    rewrite forallb_forall in Hscope. apply Hscope. exact Hl. }
  destruct (spec_verdict mt f Hok c Hne Hc) as [[rows Hr]|He].
  - rewrite Hr. exact (filter_rows mt f Hok Hnoerr c rows Hnd Hne Hc Hr).
  - rewrite He. exact (filter_error mt f Hok Hnoerr c Hnd Hc Hs He).
Qed.
