(* Proofs/GenFastCsvProofs.v — tie T1 for the CSV scanner: the definitions that tools/qf2coq/fastcsv.go generates
   from internal/fastcsv/csv.go (Gen/GenFastCsv.v: records for the structs, state passing, integers on Z, the
   underlying io.Reader an arbitrary read function, every for loop a Fixpoint over its own counter) agree with the
   hand-written model of Model/FastCsv.v, the one the csv engine executes.

   Conventions of the statements.
   * The model's states are injected into the generated records by rep_buf / rep_fs / rep_reader (nat into Z,
     rerr into gv_error, a field slice (s, e) into the view (s, e), the delimiter — an argument of the model's
     functions — into the field fields.delimiter).  The generated code is run with the underlying reader
     instantiated by the model's oracle: state (chunks, end of stream), answers mread = raw_read.
   * Well-formedness.  The model keeps len and cursor as natural numbers and subtracts with truncation where the Go
     code would panic on a slice that cannot exist; the statements therefore take  bwf b : len <= cap  (for more)
     and  cursor <= len  (for reset) as premises; both are invariants (Part 5).
   * Fuel.  gv_f fuel = (O => Panic | S fuel' => body); inside, every for loop starts with fuel' as its counter
     and every fuelled call gets fuel'.  The functions without loop take no fuel and are equal to the model
     outright.  nextUnquotedField has the model's own fuel scheme: gc (S f) = model f for EVERY f, exhaustion
     included.  The model hands its fuel on differently in the nested loops (next_quoted_loop, row_loop), so there
     the statements are: (run) model f = Ok r -> every generated fuel >= f + c gives Ok (rep r), and (back) generated
     g = Ok r' -> the model with fuel g gives Ok r with rep r = r'.  Together: the model answers Ok for some fuel
     iff the generated code does, with the same answer; a Go panic is Panic for every fuel on both sides. *)
From QF Require Import Base.Prelude Gen.GenConsts Gen.GenFastCsv Model.FastCsv Model.CsvSpec.
From QF Require Proofs.CsvFragFull.
Local Open Scope Z_scope.

Definition ofmap {A B : Type} (f : A -> B) (o : outcome A) : outcome B :=
  match o with Ok a => Ok (f a) | Fail => Fail | Panic => Panic end.

(* ================================================================== Part 0: injections *)
Definition mR : Type := (list bytes * rterm)%type.

Definition rep_err (e : rerr) : gv_error :=
  match e with RNil => gv_nil | REof => gv_EOF | RFail => gv_other end.

(* the model's oracle as an io.Reader: asked for c bytes *)
Definition mread (r : mR) (c : Z) : list N * gv_error * mR :=
  let '(out, e, r') := raw_read (Z.to_nat c) (mkReader (fst r) (snd r) false) in
  (out, rep_err e, (r_chunks r', r_term r')).

Definition rep_rd (r : reader) : gv_eofReaderWrapper mR :=
  gv_mk_eofReaderWrapper (r_chunks r, r_term r) (r_iseof r).
Definition rep_buf (b : buf) : gv_bufferedReader mR :=
  gv_mk_bufferedReader (rep_rd (b_rd b)) (b_data b, Z.of_nat (b_len b)) (Z.of_nat (b_cur b)).
Definition rep_view (p : nat * nat) : Z * Z := (Z.of_nat (fst p), Z.of_nat (snd p)).
Definition rep_fs (delim : N) (fs : fstate) : gv_fields mR :=
  gv_mk_fields (Z.of_nat (f_start fs)) (rep_buf (f_buf fs)) (f_eol fs) delim (rep_view (f_field fs))
               (rep_err (f_err fs)).
Definition rep_reader (delim : N) (rd : rdstate) : gv_Reader mR :=
  gv_mk_Reader (rep_fs delim (rd_fields rd)) (map rep_view (rd_row rd)).

Definition bwf (b : buf) : Prop := (b_len b <= length (b_data b))%nat.

Lemma rep_err_eqb a b : gv_error_eqb (rep_err a) (rep_err b) = rerr_eqb a b.
Proof. destruct a, b; reflexivity. Qed.

(* ================================================================== Part 1: lists *)
Lemma skipn_repeat {A} (x : A) : forall n m, skipn n (repeat x m) = repeat x (m - n).
Proof.
  induction n as [|n IH]; intros m; [rewrite Nat.sub_0_r; reflexivity|].
  destruct m as [|m]; [reflexivity|]. cbn [repeat skipn]. rewrite IH. reflexivity.
Qed.

Lemma blit_eq a p o : gv_blit a p o = blit a p o.
Proof. reflexivity. Qed.

Lemma blit_length a p o : (p + length o <= length a)%nat -> length (blit a p o) = length a.
Proof.
  intros H. unfold blit. rewrite !app_length, firstn_length, skipn_length. lia.
Qed.

(* ================================================================== Part 2: eofReaderWrapper.Read *)
Lemma raw_read_iseof c ch t b :
  raw_read c (mkReader ch t b)
  = let '(o, e, r') := raw_read c (mkReader ch t false) in (o, e, mkReader (r_chunks r') (r_term r') b).
Proof. unfold raw_read. cbn [r_chunks r_term r_iseof]. destruct ch; reflexivity. Qed.

Lemma raw_read_length c r : (length (fst (fst (raw_read c r))) <= c)%nat.
Proof.
  unfold raw_read. destruct (r_chunks r) as [|ch rest]; cbn [fst length]; [lia|].
  rewrite firstn_length. lia.
Qed.

Lemma wrapped_read_length c r : (length (fst (fst (wrapped_read c r))) <= c)%nat.
Proof.
  unfold wrapped_read. destruct (r_iseof r); cbn [fst length]; [lia|].
  pose proof (raw_read_length c r) as H. destruct (raw_read c r) as [[o e] r'].
  cbn [fst] in H. destruct (rerr_eqb e REof && negb (is_nil o)); exact H.
Qed.

Theorem gv_Read_eq (c : nat) (r : reader) :
  gv_eofReaderWrapper_Read mread (rep_rd r) (Z.of_nat c, [])
  = let '(out, e, r') := wrapped_read c r in
    Ok (Z.of_nat (length out), rep_err e, (Z.of_nat c, out), rep_rd r').
Proof.
  destruct r as [ch t iseof]. unfold gv_eofReaderWrapper_Read, wrapped_read, rep_rd.
  cbn [r_chunks r_term r_iseof gv_eofReaderWrapper_isEof gv_eofReaderWrapper_r].
  destruct iseof; [reflexivity|].
  unfold gv_io_read, mread. cbn [fst snd]. rewrite Nat2Z.id.
  pose proof (raw_read_length c (mkReader ch t false)) as Hl.
  destruct (raw_read c (mkReader ch t false)) as [[o e] r'] eqn:E. cbn [fst] in Hl.
  replace (Z.of_nat c <? Z.of_nat (length o)) with false by lia.
  cbn [obind]. unfold gv_eofReaderWrapper_set_r, gv_eofReaderWrapper_set_isEof.
  cbn [gv_eofReaderWrapper_isEof gv_eofReaderWrapper_r].
  assert (Hr : r_iseof r' = false).
  { unfold raw_read in E. cbn [r_chunks r_term r_iseof] in E. destruct ch; inversion E; reflexivity. }
  change gv_EOF with (rep_err REof). rewrite rep_err_eqb.
  assert (Hn : (0 <? Z.of_nat (length o)) = negb (is_nil o)) by (destruct o; reflexivity).
  rewrite Hn.
  destruct (rerr_eqb e REof) eqn:Ee; cbn [andb obind].
  - destruct o as [|x o]; cbn [is_nil negb obind]; [|reflexivity].
    destruct r' as [ch' t' b']. cbn [r_iseof] in Hr. subst b'. reflexivity.
  - destruct r' as [ch' t' b']. cbn [r_iseof] in Hr. subst b'. reflexivity.
Qed.

(* ================================================================== Part 3: bufferedReader.more / reset *)
Lemma more_bwf b : bwf b -> bwf (fst (more b)) /\ b_cur (fst (more b)) = b_cur b.
Proof.
  unfold bwf, more. intros H.
  set (data := if Nat.eqb (b_len b) (b_cap b) then _ else _).
  assert (Hd : (b_len b <= length data)%nat).
  { subst data. unfold b_cap. destruct (Nat.eqb (b_len b) (length (b_data b))); [|exact H].
    rewrite app_length, firstn_length, repeat_length. lia. }
  pose proof (wrapped_read_length (length data - b_len b) (b_rd b)) as Hl.
  destruct (wrapped_read (length data - b_len b) (b_rd b)) as [[o e] r']. cbn [fst] in *.
  split; [|reflexivity]. cbn [b_len b_data]. rewrite blit_length by lia. lia.
Qed.

Theorem gv_more_eq b : bwf b ->
  gv_bufferedReader_more mread (rep_buf b) = Ok (rep_err (snd (more b)), rep_buf (fst (more b))).
Proof.
  unfold bwf. intros H. unfold gv_bufferedReader_more, more, rep_buf.
  cbn [gv_bufferedReader_data gv_bufferedReader_r gv_bufferedReader_cursor]. unfold gv_len, gv_cap. cbn [fst snd].
  unfold b_cap.
  replace (Z.of_nat (b_len b) =? Z.of_nat (length (b_data b))) with (Nat.eqb (b_len b) (length (b_data b)))
    by (destruct (Nat.eqb_spec (b_len b) (length (b_data b))); lia).
  set (data := if Nat.eqb (b_len b) (length (b_data b)) then _ else b_data b).
  (* the buffer after the optional reallocation *)
  assert (Hgrow :
    (if Nat.eqb (b_len b) (length (b_data b))
     then do t1 <- gv_make (Z.of_nat (b_len b)) (2 * Z.of_nat (b_len b) + 1);
          Ok (gv_bufferedReader_set_data
                (gv_mk_bufferedReader (rep_rd (b_rd b)) (b_data b, Z.of_nat (b_len b)) (Z.of_nat (b_cur b)))
                (gv_copy t1 0 (snd t1) (b_data b, Z.of_nat (b_len b)) 0 (Z.of_nat (b_len b))))
     else Ok (gv_mk_bufferedReader (rep_rd (b_rd b)) (b_data b, Z.of_nat (b_len b)) (Z.of_nat (b_cur b))))
    = Ok (gv_mk_bufferedReader (rep_rd (b_rd b)) (data, Z.of_nat (b_len b)) (Z.of_nat (b_cur b)))).
  { subst data. destruct (Nat.eqb (b_len b) (length (b_data b))); [|reflexivity].
    unfold gv_make. replace ((Z.of_nat (b_len b) <? 0) || (2 * Z.of_nat (b_len b) + 1 <? Z.of_nat (b_len b))) with false by lia.
    cbn [obind]. unfold gv_copy, gv_bufferedReader_set_data. cbn [fst snd gv_bufferedReader_r gv_bufferedReader_cursor].
    rewrite Z.min_id, Nat2Z.id. change (Z.to_nat 0) with 0%nat. cbn [skipn].
    unfold gv_blit. cbn [firstn app]. rewrite firstn_length, Nat.min_l by exact H.
    rewrite skipn_repeat. unfold c_csv_grow_mul, c_csv_grow_add. repeat f_equal; lia. }
  rewrite Hgrow. clear Hgrow. cbn [obind gv_bufferedReader_data gv_bufferedReader_r fst snd].
  assert (Hd : (b_len b <= length data)%nat).
  { subst data. destruct (Nat.eqb (b_len b) (length (b_data b))); [|exact H].
    rewrite app_length, firstn_length, repeat_length. unfold c_csv_grow_mul, c_csv_grow_add. lia. }
  unfold gv_slice, gv_cap. cbn [fst snd].
  replace ((Z.of_nat (b_len b) <? 0) || (Z.of_nat (length data) <? Z.of_nat (b_len b))
           || (Z.of_nat (length data) <? Z.of_nat (length data))) with false by lia.
  cbn [obind]. unfold gv_win_of. cbn [fst snd].
  replace (Z.of_nat (length data) - Z.of_nat (b_len b)) with (Z.of_nat (length data - b_len b)) by lia.
  rewrite gv_Read_eq.
  pose proof (wrapped_read_length (length data - b_len b) (b_rd b)) as Hl.
  destruct (wrapped_read (length data - b_len b) (b_rd b)) as [[o e] r']. cbn [fst] in Hl.
  cbn [obind]. unfold gv_bufferedReader_set_r, gv_bufferedReader_set_data, gv_win_blit.
  cbn [gv_bufferedReader_data gv_bufferedReader_r gv_bufferedReader_cursor fst snd].
  rewrite Nat2Z.id, blit_eq. unfold gv_reslice, gv_cap, gv_len. cbn [fst snd].
  rewrite blit_length by lia.
  replace ((Z.of_nat (b_len b) + Z.of_nat (length o) <? 0)
           || (Z.of_nat (length data) <? Z.of_nat (b_len b) + Z.of_nat (length o))) with false by lia.
  cbn [obind b_rd b_data b_len b_cur]. rewrite Nat2Z.inj_add. reflexivity.
Qed.

Lemma reset_bwf b : bwf b -> (b_cur b <= b_len b)%nat ->
  bwf (buf_reset b) /\ b_cur (buf_reset b) = 0%nat.
Proof.
  unfold bwf, buf_reset. intros H Hc. cbn [b_len b_data b_cur]. split; [|reflexivity].
  rewrite app_length, firstn_length, !skipn_length. lia.
Qed.

Theorem gv_reset_eq b : bwf b -> (b_cur b <= b_len b)%nat ->
  gv_bufferedReader_reset (rep_buf b) = Ok (rep_buf (buf_reset b)).
Proof.
  unfold bwf. intros H Hc. unfold gv_bufferedReader_reset, buf_reset, rep_buf.
  cbn [gv_bufferedReader_data gv_bufferedReader_r gv_bufferedReader_cursor]. unfold gv_slice, gv_len, gv_cap.
  cbn [fst snd].
  replace ((Z.of_nat (b_cur b) <? 0) || (Z.of_nat (b_len b) <? Z.of_nat (b_cur b))
           || (Z.of_nat (length (b_data b)) <? Z.of_nat (b_len b))) with false by lia.
  cbn [obind]. unfold gv_bufferedReader_set_data, gv_bufferedReader_set_cursor, gv_copy, gv_view_len.
  cbn [gv_bufferedReader_data gv_bufferedReader_r gv_bufferedReader_cursor fst snd].
  unfold gv_reslice, gv_cap. cbn [fst snd].
  replace (Z.min (Z.of_nat (b_len b)) (Z.of_nat (b_len b) - Z.of_nat (b_cur b)))
    with (Z.of_nat (b_len b - b_cur b)) by lia.
  rewrite !Nat2Z.id. change (Z.to_nat 0) with 0%nat.
  set (n := (b_len b - b_cur b)%nat).
  assert (Hx : length (firstn n (skipn (b_cur b) (b_data b))) = n).
  { rewrite firstn_length, skipn_length. lia. }
  unfold gv_blit. cbn [firstn app]. rewrite Hx. cbn [Nat.add].
  rewrite app_length, Hx, skipn_length.
  replace ((Z.of_nat (b_len b) - Z.of_nat (b_cur b) <? 0)
           || (Z.of_nat (n + (length (b_data b) - n)) <? Z.of_nat (b_len b) - Z.of_nat (b_cur b))) with false by lia.
  cbn [obind b_rd b_data b_len b_cur]. repeat f_equal. lia.
Qed.

(* ================================================================== Part 4: the field scanners *)
Ltac gv_proj :=
  unfold gv_fields_set_fieldStart, gv_fields_set_buffer, gv_fields_set_hitEOL, gv_fields_set_delimiter,
    gv_fields_set_field, gv_fields_set_err, gv_bufferedReader_set_r, gv_bufferedReader_set_data,
    gv_bufferedReader_set_cursor, gv_Reader_set_fields, gv_Reader_set_fieldsBuffer;
  cbn [gv_fields_fieldStart gv_fields_buffer gv_fields_hitEOL gv_fields_delimiter gv_fields_field gv_fields_err
       gv_bufferedReader_r gv_bufferedReader_data gv_bufferedReader_cursor gv_Reader_fields gv_Reader_fieldsBuffer].

Lemma gv_index_rep b (i : nat) : gv_index (b_data b, Z.of_nat (b_len b)) (Z.of_nat i) = buf_get b i.
Proof.
  unfold gv_index, buf_get, gv_len. cbn [fst snd]. rewrite Nat2Z.id.
  destruct (Nat.ltb_spec i (b_len b)).
  - replace ((Z.of_nat i <? 0) || (Z.of_nat (b_len b) <=? Z.of_nat i)) with false by lia. reflexivity.
  - replace ((Z.of_nat i <? 0) || (Z.of_nat (b_len b) <=? Z.of_nat i)) with true by lia. reflexivity.
Qed.

Lemma gv_slice_rep b (s e : nat) :
  gv_slice (b_data b, Z.of_nat (b_len b)) (Z.of_nat s) (Z.of_nat e) = ofmap rep_view (buf_slice b s e).
Proof.
  unfold gv_slice, buf_slice, gv_cap, b_cap. cbn [fst snd].
  destruct (Nat.leb_spec s e); destruct (Nat.leb_spec e (length (b_data b))); cbn [andb ofmap].
  - replace ((Z.of_nat s <? 0) || (Z.of_nat e <? Z.of_nat s) || (Z.of_nat (length (b_data b)) <? Z.of_nat e)) with false by lia.
    reflexivity.
  - replace ((Z.of_nat s <? 0) || (Z.of_nat e <? Z.of_nat s) || (Z.of_nat (length (b_data b)) <? Z.of_nat e)) with true by lia.
    reflexivity.
  - replace ((Z.of_nat s <? 0) || (Z.of_nat e <? Z.of_nat s) || (Z.of_nat (length (b_data b)) <? Z.of_nat e)) with true by lia.
    reflexivity.
  - replace ((Z.of_nat s <? 0) || (Z.of_nat e <? Z.of_nat s) || (Z.of_nat (length (b_data b)) <? Z.of_nat e)) with true by lia.
    reflexivity.
Qed.

Theorem gv_fields_reset_eq d fs : bwf (f_buf fs) -> (b_cur (f_buf fs) <= b_len (f_buf fs))%nat ->
  gv_fields_reset (rep_fs d fs) = Ok (rep_fs d (fields_reset fs)).
Proof.
  intros H Hc. unfold gv_fields_reset, rep_fs. gv_proj. rewrite (gv_reset_eq _ H Hc). reflexivity.
Qed.

Definition rep_fsb (d : N) (r : fstate * bool) : bool * gv_fields mR := (snd r, rep_fs d (fst r)).

Lemma leb_Z (a b : nat) : (Z.of_nat a <=? Z.of_nat b) = Nat.leb a b.
Proof. destruct (Nat.leb_spec a b); lia. Qed.
Lemma ltb_Z (a b : nat) : (Z.of_nat a <? Z.of_nat b) = Nat.ltb a b.
Proof. destruct (Nat.ltb_spec a b); lia. Qed.
Lemma eqb_Z (a b : nat) : (Z.of_nat a =? Z.of_nat b) = Nat.eqb a b.
Proof. destruct (Nat.eqb_spec a b); lia. Qed.

(* the loop of nextUnquotedField: the same fuel scheme as the model, equal for every counter *)
Lemma gv_unq_loop_eq d : forall k fs, bwf (f_buf fs) ->
  gv_fields_nextUnquotedField_loop1 mread k (rep_fs d fs) (Z.of_nat (b_cur (f_buf fs)))
  = ofmap (rep_fsb d) (next_unquoted k d fs).
Proof.
  induction k as [|k IH]; intros fs Hw; [reflexivity|].
  destruct fs as [start b0 eol fld err]. cbn [f_buf] in Hw.
  cbn [gv_fields_nextUnquotedField_loop1 next_unquoted f_buf f_start f_eol f_field f_err].
  unfold rep_fs. cbn [f_buf f_start f_eol f_field f_err]. gv_proj.
  unfold rep_buf. gv_proj. unfold gv_len. cbn [fst snd]. rewrite leb_Z.
  (* what follows once a byte is available *)
  assert (Hrest : forall b, bwf b -> b_cur b = b_cur b0 ->
    (do t4 <- gv_index (b_data b, Z.of_nat (b_len b)) (Z.of_nat (b_cur b0));
     let v_cursor := Z.of_nat (b_cur b0) + 1 in
     let v_fs := gv_mk_fields (Z.of_nat start)
        (gv_mk_bufferedReader (rep_rd (b_rd b)) (b_data b, Z.of_nat (b_len b)) v_cursor) eol d (rep_view fld) (rep_err err) in
     if N.eqb t4 d then
       do t5 <- gv_slice (b_data b, Z.of_nat (b_len b)) (Z.of_nat start) (v_cursor - 1);
       Ok (true, gv_mk_fields v_cursor (gv_fields_buffer v_fs) eol d t5 (rep_err err))
     else if N.eqb t4 10%N then
       do t6 <- gv_slice (b_data b, Z.of_nat (b_len b)) (Z.of_nat start) (v_cursor - 1);
       Ok (true, gv_mk_fields (Z.of_nat start) (gv_fields_buffer v_fs) true d t6 (rep_err err))
     else gv_fields_nextUnquotedField_loop1 mread k v_fs v_cursor)
    = ofmap (rep_fsb d)
       (do ch <- buf_get b (b_cur b0);
        let cursor' := S (b_cur b0) in
        let b' := with_cur b cursor' in
        if N.eqb ch d then
          do fld' <- buf_slice b' start (cursor' - 1);
          Ok (mkFs cursor' b' eol fld' err, true)
        else if N.eqb ch ch_lf then
          do fld' <- buf_slice b' start (cursor' - 1);
          Ok (mkFs start b' true fld' err, true)
        else next_unquoted k d (mkFs start b' eol fld err))).
  { intros b Hb Hcb. rewrite gv_index_rep.
    destruct (buf_get b (b_cur b0)) as [ch| |]; cbn [obind ofmap]; [|reflexivity|reflexivity].
    cbv zeta. cbn [gv_fields_buffer].
    replace (Z.of_nat (b_cur b0) + 1) with (Z.of_nat (S (b_cur b0))) by lia.
    replace (Z.of_nat (S (b_cur b0)) - 1) with (Z.of_nat (S (b_cur b0) - 1)) by lia.
    change ch_lf with 10%N.
    destruct (N.eqb ch d).
    - change (b_data b) with (b_data (with_cur b (S (b_cur b0)))) at 1.
      change (b_len b) with (b_len (with_cur b (S (b_cur b0)))) at 1.
      rewrite gv_slice_rep.
      destruct (buf_slice (with_cur b (S (b_cur b0))) start (S (b_cur b0) - 1)) as [f'| |]; reflexivity.
    - destruct (N.eqb ch 10%N).
      + change (b_data b) with (b_data (with_cur b (S (b_cur b0)))) at 1.
        change (b_len b) with (b_len (with_cur b (S (b_cur b0)))) at 1.
        rewrite gv_slice_rep.
        destruct (buf_slice (with_cur b (S (b_cur b0))) start (S (b_cur b0) - 1)) as [f'| |]; reflexivity.
      + specialize (IH (mkFs start (with_cur b (S (b_cur b0))) eol fld err) Hb).
        cbn [f_buf with_cur b_cur] in IH. rewrite <- IH. reflexivity. }
  destruct (Nat.leb (b_len b0) (b_cur b0)).
  - change (gv_mk_bufferedReader (rep_rd (b_rd b0)) (b_data b0, Z.of_nat (b_len b0)) (Z.of_nat (b_cur b0)))
      with (rep_buf b0).
    rewrite (gv_more_eq _ Hw). destruct (more_bwf _ Hw) as [Hw1 Hc1].
    destruct (more b0) as [b e]. cbn [fst snd] in *. cbn [obind]. cbv zeta.
    change gv_nil with (rep_err RNil). change gv_EOF with (rep_err REof). rewrite !rep_err_eqb.
    destruct e; cbn [rerr_eqb negb].
    + unfold rep_buf. gv_proj. exact (Hrest b Hw1 Hc1).
    + unfold rep_buf. gv_proj. rewrite gv_slice_rep.
      destruct (buf_slice b start (b_cur b0)) as [f'| |]; reflexivity.
    + reflexivity.
  - exact (Hrest b0 Hw eq_refl).
Qed.

Theorem gv_nextUnquotedField_eq d k fs : bwf (f_buf fs) ->
  gv_fields_nextUnquotedField mread (S k) (rep_fs d fs) = ofmap (rep_fsb d) (next_unquoted k d fs).
Proof.
  intros Hw. unfold gv_fields_nextUnquotedField. rewrite <- (gv_unq_loop_eq d k fs Hw). reflexivity.
Qed.

(* ------------------------------------------------------------------ nextQuotedField *)
Definition rep_q (r : qresult) : (Z * Z) * bool * gv_error * gv_bufferedReader mR :=
  let '(b, fld, eol, err) := r in (rep_view fld, eol, rep_err err, rep_buf b).

(* the model's loop body once two bytes are buffered, the recursive calls abstracted *)
Definition qstep (rec : buf -> nat -> nat -> outcome qresult) (delim : N) (b : buf) (start w qc : nat)
  : outcome qresult :=
  do ch <- buf_get b (b_cur b);
  let b := with_cur b (S (b_cur b)) in
  let write_step :=
    do bw <- q_write b w;
    let '(b', w') := bw in
    rec b' w' 0%nat in
  if N.eqb ch delim then
    if Nat.odd qc then do fld <- buf_slice b start w; Ok (b, fld, false, RNil)
    else write_step
  else if N.eqb ch ch_lf then
    if Nat.odd qc then do fld <- buf_slice b start w; Ok (b, fld, true, RNil)
    else write_step
  else if N.eqb ch ch_cr then
    if Nat.odd qc then rec b w qc
    else write_step
  else if N.eqb ch ch_quote then
    let qc' := S qc in
    if Nat.odd qc' then rec b w qc'
    else
      do bw <- q_write b w;
      let '(b', w') := bw in
      rec b' w' 0%nat
  else write_step.

(* the model's handling of an error from the refill loop *)
Definition q_err (delim : N) (b : buf) (e : rerr) (start w qc : nat) : outcome qresult :=
  let at_delim :=
    rerr_eqb e REof && Nat.odd qc && Nat.ltb (b_cur b) (b_len b)
    && match nth_error (b_data b) (b_cur b) with Some x => N.eqb x delim | None => false end in
  if at_delim then
    let b' := with_cur b (S (b_cur b)) in
    do fld <- buf_slice b' start w; Ok (b', fld, false, RNil)
  else
    do fld <- buf_slice b start w; Ok (b, fld, true, e).

Lemma nql_unfold f d b s w qc :
  next_quoted_loop (S f) d b s w qc
  = do be <- q_fill (S f) b;
    let '(b, e) := be in
    match e with
    | RNil => qstep (fun b w qc => next_quoted_loop f d b s w qc) d b s w qc
    | _ => q_err d b e s w qc
    end.
Proof. reflexivity. Qed.

Lemma rem2_Z (n : nat) : Z.rem (Z.of_nat n) 2 = if Nat.odd n then 1 else 0.
Proof.
  rewrite Z.rem_mod_nonneg by lia.
  destruct (Nat.Even_or_Odd n) as [[m ->]|[m ->]].
  - rewrite Nat.odd_mul. cbn [Nat.odd andb]. rewrite Nat2Z.inj_mul, Z.mul_comm. apply Z.mod_mul. lia.
  - rewrite Nat.odd_add, Nat.odd_mul. cbn [Nat.odd andb xorb negb].
    rewrite Nat2Z.inj_add, Nat2Z.inj_mul. change (Z.of_nat 2) with 2. change (Z.of_nat 1) with 1.
    rewrite Z.add_comm, Z.mul_comm, Z.mod_add by lia. reflexivity.
Qed.

Lemma odd_Z_ne (n : nat) : negb (Z.rem (Z.of_nat n) 2 =? 0) = Nat.odd n.
Proof. rewrite rem2_Z. destruct (Nat.odd n); reflexivity. Qed.

Lemma odd_Z_eq1 (n : nat) : (Z.rem (Z.of_nat n) 2 =? 1) = Nat.odd n.
Proof. rewrite rem2_Z. destruct (Nat.odd n); reflexivity. Qed.

Lemma more_len b : (b_len b <= b_len (fst (more b)))%nat.
Proof.
  unfold more. set (data := if Nat.eqb (b_len b) (b_cap b) then _ else _).
  destruct (wrapped_read (length data - b_len b) (b_rd b)) as [[o e] r']. cbn [fst b_len]. lia.
Qed.

(* the refill loop: the model's q_fill, then the model's error handling *)
Lemma gv_qfill_eq d s w qc : forall k b, bwf b ->
  gv_nextQuotedField_loop1 mread k (rep_buf b) d (Z.of_nat s) (Z.of_nat w) (Z.of_nat qc)
  = match q_fill k b with
    | Ok (b', RNil) => Ok (inr (rep_buf b'))
    | Ok (b', e) => ofmap (fun r => inl (rep_q r)) (q_err d b' e s w qc)
    | Fail => Fail
    | Panic => Panic
    end.
Proof.
  induction k as [|k IH]; intros b Hw; [reflexivity|].
  cbn [gv_nextQuotedField_loop1 q_fill].
  unfold rep_buf at 1 2. gv_proj. unfold gv_len. cbn [fst snd].
  replace (Z.of_nat (b_cur b) + 1) with (Z.of_nat (b_cur b + 1)) by lia. rewrite leb_Z.
  destruct (Nat.leb (b_len b) (b_cur b + 1)); [|reflexivity].
  rewrite (gv_more_eq _ Hw). destruct (more_bwf _ Hw) as [Hw1 Hc1].
  destruct (more b) as [b1 e]. cbn [fst snd] in *. cbn [obind]. cbv zeta.
  change gv_nil with (rep_err RNil) at 1. change gv_EOF with (rep_err REof). rewrite !rep_err_eqb.
  destruct e; cbn [rerr_eqb negb]; [exact (IH b1 Hw1)| |].
  - (* io.EOF *)
    unfold q_err. cbn [rerr_eqb andb]. rewrite odd_Z_ne.
    unfold rep_buf at 1 2 3 4. gv_proj. unfold gv_len. cbn [fst snd]. rewrite ltb_Z.
    destruct (Nat.odd qc); cbn [andb].
    + destruct (Nat.ltb (b_cur b1) (b_len b1)) eqn:El; cbn [andb].
      * rewrite gv_index_rep. unfold buf_get. rewrite El. unfold idx.
        destruct (nth_error (b_data b1) (b_cur b1)) as [x|] eqn:En; cbn [of_option obind].
        2:{ exfalso. apply nth_error_None in En. apply Nat.ltb_lt in El. unfold bwf in Hw1. lia. }
        destruct (N.eqb x d).
        -- unfold rep_buf. gv_proj.
           change (b_data b1) with (b_data (with_cur b1 (S (b_cur b1)))).
           change (b_len b1) with (b_len (with_cur b1 (S (b_cur b1)))) at 1.
           rewrite gv_slice_rep.
           destruct (buf_slice (with_cur b1 (S (b_cur b1))) s w) as [f'| |]; cbn [obind ofmap]; [|reflexivity|reflexivity].
           unfold rep_q, rep_buf. cbn [with_cur b_rd b_data b_len b_cur]. repeat f_equal. lia.
        -- unfold rep_buf. gv_proj. rewrite gv_slice_rep.
           destruct (buf_slice b1 s w) as [f'| |]; reflexivity.
      * cbn [obind]. unfold rep_buf. gv_proj. rewrite gv_slice_rep.
        destruct (buf_slice b1 s w) as [f'| |]; reflexivity.
    + cbn [obind]. unfold rep_buf. gv_proj. rewrite gv_slice_rep.
      destruct (buf_slice b1 s w) as [f'| |]; reflexivity.
  - (* another error *)
    unfold q_err. cbn [rerr_eqb andb obind]. unfold rep_buf. gv_proj. rewrite gv_slice_rep.
    destruct (buf_slice b1 s w) as [f'| |]; reflexivity.
Qed.

Lemma q_fill_bwf : forall k b b' e, q_fill k b = Ok (b', e) -> bwf b -> bwf b'.
Proof.
  induction k as [|k IH]; intros b b' e H Hw; [discriminate|]. cbn [q_fill] in H.
  destruct (Nat.leb (b_len b) (b_cur b + 1)); [|inversion H; subst; exact Hw].
  destruct (more_bwf _ Hw) as [Hw1 _]. destruct (more b) as [b1 e1]. cbn [fst] in Hw1.
  destruct e1; [exact (IH _ _ _ H Hw1)|inversion H; subst; exact Hw1|inversion H; subst; exact Hw1].
Qed.

Lemma set_nth_split {A} (l : list A) : forall i v, (i < length l)%nat ->
  set_nth l i v = firstn i l ++ [v] ++ skipn (S i) l.
Proof.
  induction l as [|x l IH]; intros [|i] v H; cbn [length] in H; try lia; [reflexivity|].
  cbn [set_nth firstn skipn app]. f_equal. apply IH. lia.
Qed.

Lemma firstn1_skipn {A} (l : list A) i x : nth_error l i = Some x -> firstn 1 (skipn i l) = [x].
Proof.
  revert i. induction l as [|y l IH]; intros [|i] H; cbn in H; try discriminate.
  - inversion H. reflexivity.
  - cbn [skipn]. apply IH. exact H.
Qed.

(* quoteCount = 0; writeCursor++; the copy of the look-ahead byte *)
Lemma gv_write_eq b (w : nat) :
  (if negb (Z.of_nat w + 1 =? Z.of_nat (b_cur b))
   then
     do t11 <- gv_slice (b_data b, Z.of_nat (b_len b)) (Z.of_nat w + 1) (Z.of_nat w + 1 + 1);
     do t12 <- gv_slice (b_data b, Z.of_nat (b_len b)) (Z.of_nat (b_cur b)) (Z.of_nat (b_cur b) + 1);
     Ok (gv_mk_bufferedReader (rep_rd (b_rd b))
           (gv_copy (b_data b, Z.of_nat (b_len b)) (fst t11) (gv_view_len t11)
                    (b_data b, Z.of_nat (b_len b)) (fst t12) (gv_view_len t12))
           (Z.of_nat (b_cur b)))
   else Ok (gv_mk_bufferedReader (rep_rd (b_rd b)) (b_data b, Z.of_nat (b_len b)) (Z.of_nat (b_cur b))))
  = ofmap (fun bw => rep_buf (fst bw)) (q_write b w).
Proof.
  unfold q_write. replace (Z.of_nat w + 1) with (Z.of_nat (S w)) by lia. rewrite eqb_Z.
  destruct (Nat.eqb (S w) (b_cur b)); cbn [negb]; [reflexivity|].
  unfold gv_slice, gv_cap, b_cap. cbn [fst snd].
  destruct (Nat.leb_spec (S (S w)) (length (b_data b))) as [H1|H1];
    destruct (Nat.leb_spec (S (b_cur b)) (length (b_data b))) as [H2|H2]; cbn [andb].
  - replace ((Z.of_nat (S w) <? 0) || (Z.of_nat (S w) + 1 <? Z.of_nat (S w))
             || (Z.of_nat (length (b_data b)) <? Z.of_nat (S w) + 1)) with false by lia.
    replace ((Z.of_nat (b_cur b) <? 0) || (Z.of_nat (b_cur b) + 1 <? Z.of_nat (b_cur b))
             || (Z.of_nat (length (b_data b)) <? Z.of_nat (b_cur b) + 1)) with false by lia.
    cbn [obind]. unfold gv_copy, gv_view_len. cbn [fst snd].
    replace (Z.min (Z.of_nat (S w) + 1 - Z.of_nat (S w)) (Z.of_nat (b_cur b) + 1 - Z.of_nat (b_cur b))) with 1 by lia.
    rewrite !Nat2Z.id. change (Z.to_nat 1) with 1%nat.
    unfold idx. destruct (nth_error (b_data b) (b_cur b)) as [x|] eqn:En.
    2:{ apply nth_error_None in En. lia. }
    cbn [of_option obind ofmap fst]. rewrite (firstn1_skipn _ _ _ En).
    unfold gv_blit. cbn [length]. rewrite (set_nth_split (b_data b) (S w) x) by lia.
    unfold rep_buf, with_data. cbn [b_rd b_data b_len b_cur]. repeat f_equal. lia.
  - replace ((Z.of_nat (b_cur b) <? 0) || (Z.of_nat (b_cur b) + 1 <? Z.of_nat (b_cur b))
             || (Z.of_nat (length (b_data b)) <? Z.of_nat (b_cur b) + 1)) with true by lia.
    destruct ((Z.of_nat (S w) <? 0) || (Z.of_nat (S w) + 1 <? Z.of_nat (S w))
             || (Z.of_nat (length (b_data b)) <? Z.of_nat (S w) + 1)); reflexivity.
  - replace ((Z.of_nat (S w) <? 0) || (Z.of_nat (S w) + 1 <? Z.of_nat (S w))
             || (Z.of_nat (length (b_data b)) <? Z.of_nat (S w) + 1)) with true by lia. reflexivity.
  - replace ((Z.of_nat (S w) <? 0) || (Z.of_nat (S w) + 1 <? Z.of_nat (S w))
             || (Z.of_nat (length (b_data b)) <? Z.of_nat (S w) + 1)) with true by lia. reflexivity.
Qed.

Lemma q_write_snd b w bw : q_write b w = Ok bw -> snd bw = S w /\ (bwf b -> bwf (fst bw)) /\ b_cur (fst bw) = b_cur b /\ b_len (fst bw) = b_len b.
Proof.
  unfold q_write. destruct (Nat.eqb (S w) (b_cur b)); [intros H; inversion H; auto|].
  destruct (Nat.leb (S (S w)) (b_cap b) && Nat.leb (S (b_cur b)) (b_cap b)); [|discriminate].
  destruct (idx (b_data b) (b_cur b)) as [x| |]; cbn [obind]; try discriminate.
  intros H; inversion H. cbn [fst snd]. unfold bwf, with_data. cbn [b_data b_len b_cur].
  rewrite set_nth_length. auto.
Qed.

Section QLoop.
Variable d : N.
Variable s : nat.
Variables (F k' : nat).
Variable mrec : buf -> nat -> nat -> outcome qresult.
Hypothesis Hrec : forall b' w' qc', bwf b' ->
  gv_nextQuotedField_loop2 mread F k' (rep_buf b') d (Z.of_nat s) (Z.of_nat w') (Z.of_nat qc')
  = ofmap rep_q (mrec b' w' qc').

Lemma gv_qwrite_step bc w : bwf bc ->
  (do v_buffer <-
     (if negb (Z.of_nat w + 1 =? Z.of_nat (b_cur bc))
      then
        do t11 <- gv_slice (b_data bc, Z.of_nat (b_len bc)) (Z.of_nat w + 1) (Z.of_nat w + 1 + 1);
        do t12 <- gv_slice (b_data bc, Z.of_nat (b_len bc)) (Z.of_nat (b_cur bc)) (Z.of_nat (b_cur bc) + 1);
        Ok (gv_mk_bufferedReader (rep_rd (b_rd bc))
              (gv_copy (b_data bc, Z.of_nat (b_len bc)) (fst t11) (gv_view_len t11)
                       (b_data bc, Z.of_nat (b_len bc)) (fst t12) (gv_view_len t12))
              (Z.of_nat (b_cur bc)))
      else Ok (gv_mk_bufferedReader (rep_rd (b_rd bc)) (b_data bc, Z.of_nat (b_len bc)) (Z.of_nat (b_cur bc))));
   gv_nextQuotedField_loop2 mread F k' v_buffer d (Z.of_nat s) (Z.of_nat w + 1) 0)
  = ofmap rep_q (do bw <- q_write bc w; let '(b', w') := bw in mrec b' w' 0%nat).
Proof.
  intros Hw. rewrite gv_write_eq.
  destruct (q_write bc w) as [[b' w']| |] eqn:E; cbn [ofmap obind fst]; [|reflexivity|reflexivity].
  destruct (q_write_snd _ _ _ E) as (Hs & Hb & _). cbn [fst snd] in *. subst w'.
  replace (Z.of_nat w + 1) with (Z.of_nat (S w)) by lia. exact (Hrec b' (S w) 0%nat (Hb Hw)).
Qed.

Lemma gv_qloop_S b w qc : bwf b ->
  gv_nextQuotedField_loop2 mread F (S k') (rep_buf b) d (Z.of_nat s) (Z.of_nat w) (Z.of_nat qc)
  = ofmap rep_q
      (do be <- q_fill F b;
       let '(b, e) := be in
       match e with
       | RNil => qstep mrec d b s w qc
       | _ => q_err d b e s w qc
       end).
Proof.
  intros Hw. cbn [gv_nextQuotedField_loop2]. rewrite (gv_qfill_eq d s w qc F b Hw).
  destruct (q_fill F b) as [[b1 e]| |] eqn:Ef; [|reflexivity|reflexivity].
  pose proof (q_fill_bwf _ _ _ _ Ef Hw) as Hw1. cbn [obind].
  destruct e; cbn [obind].
  2:{ destruct (q_err d b1 REof s w qc); reflexivity. }
  2:{ destruct (q_err d b1 RFail s w qc); reflexivity. }
  unfold qstep. unfold rep_buf at 1 2. gv_proj. rewrite gv_index_rep.
  destruct (buf_get b1 (b_cur b1)) as [ch| |]; cbn [obind ofmap]; [|reflexivity|reflexivity].
  cbv zeta. unfold rep_buf. gv_proj.
  pose (bc := with_cur b1 (S (b_cur b1))).
  assert (Hwc : bwf bc) by exact Hw1.
  replace (Z.of_nat (b_cur b1) + 1) with (Z.of_nat (b_cur bc)) by (subst bc; cbn [with_cur b_cur]; lia).
  change (b_data b1) with (b_data bc). change (b_len b1) with (b_len bc). change (b_rd b1) with (b_rd bc).
  change (with_cur b1 (S (b_cur b1))) with bc. clearbody bc.
  rewrite !(gv_qwrite_step bc w Hwc).
  rewrite !odd_Z_ne. change ch_lf with 10%N. change ch_cr with 13%N. change ch_quote with 34%N.
  replace (Z.of_nat qc + 1) with (Z.of_nat (S qc)) by lia. rewrite odd_Z_eq1.
  rewrite !gv_slice_rep.
  fold (rep_buf bc).
  destruct (N.eqb ch d).
  { destruct (Nat.odd qc); [|reflexivity]. destruct (buf_slice bc s w); reflexivity. }
  destruct (N.eqb ch 10%N).
  { destruct (Nat.odd qc); [|reflexivity]. destruct (buf_slice bc s w); reflexivity. }
  destruct (N.eqb ch 13%N).
  { destruct (Nat.odd qc); [|reflexivity]. exact (Hrec bc w qc Hwc). }
  destruct (N.eqb ch 34%N); [|reflexivity].
  destruct (Nat.odd (S qc)); [|reflexivity]. exact (Hrec bc w (S qc) Hwc).
Qed.
End QLoop.

Lemma ofmap_ok_inv {A B} (f : A -> B) (o : outcome A) y : ofmap f o = Ok y -> exists x, o = Ok x /\ f x = y.
Proof. destruct o as [x| |]; cbn [ofmap]; intros H; inversion H. eauto. Qed.

(* the model's outer loop with the fuel scheme of the generated code: the refill loop gets F at every entry *)
Fixpoint nql' (F k : nat) (d : N) (b : buf) (s w qc : nat) {struct k} : outcome qresult :=
  match k with
  | O => Panic
  | S k' =>
      do be <- q_fill F b;
      let '(b, e) := be in
      match e with
      | RNil => qstep (fun b w qc => nql' F k' d b s w qc) d b s w qc
      | _ => q_err d b e s w qc
      end
  end.

Lemma gv_qloop_eq d s F : forall k b w qc, bwf b ->
  gv_nextQuotedField_loop2 mread F k (rep_buf b) d (Z.of_nat s) (Z.of_nat w) (Z.of_nat qc)
  = ofmap rep_q (nql' F k d b s w qc).
Proof.
  induction k as [|k IH]; intros b w qc Hw; [reflexivity|].
  rewrite (gv_qloop_S d s F k (fun b w qc => nql' F k d b s w qc) IH b w qc Hw). reflexivity.
Qed.

Lemma q_fill_mono : forall f b r, q_fill f b = Ok r -> forall f', (f <= f')%nat -> q_fill f' b = Ok r.
Proof.
  induction f as [|f IH]; intros b r H f' Hf; [discriminate|].
  destruct f' as [|f']; [lia|]. cbn [q_fill] in *.
  destruct (Nat.leb (b_len b) (b_cur b + 1)); [|exact H].
  destruct (more b) as [b1 e]. destruct e; [apply (IH _ _ H); lia|exact H|exact H].
Qed.

Lemma qstep_mono (rec1 rec2 : buf -> nat -> nat -> outcome qresult) d b s w qc r :
  (forall b w qc r, rec1 b w qc = Ok r -> rec2 b w qc = Ok r) ->
  qstep rec1 d b s w qc = Ok r -> qstep rec2 d b s w qc = Ok r.
Proof.
  intros Hm. unfold qstep.
  destruct (buf_get b (b_cur b)) as [ch| |]; cbn [obind]; try discriminate. cbv zeta.
  assert (Hws : forall bb, (do bw <- q_write bb w; let '(b', w') := bw in rec1 b' w' 0%nat) = Ok r ->
                           (do bw <- q_write bb w; let '(b', w') := bw in rec2 b' w' 0%nat) = Ok r).
  { intros bb. destruct (q_write bb w) as [[b' w']| |]; cbn [obind]; try discriminate. apply Hm. }
  destruct (N.eqb ch d). { destruct (Nat.odd qc); [auto|apply Hws]. }
  destruct (N.eqb ch ch_lf). { destruct (Nat.odd qc); [auto|apply Hws]. }
  destruct (N.eqb ch ch_cr). { destruct (Nat.odd qc); [apply Hm|apply Hws]. }
  destruct (N.eqb ch ch_quote); [|apply Hws].
  destruct (Nat.odd (S qc)); [apply Hm|apply Hws].
Qed.

Lemma nql_run d s : forall f b w qc r, next_quoted_loop f d b s w qc = Ok r ->
  forall F k, (f <= F)%nat -> (f <= k)%nat -> nql' F k d b s w qc = Ok r.
Proof.
  induction f as [|f IH]; intros b w qc r H F k HF Hk; [discriminate|].
  destruct k as [|k]; [lia|]. rewrite nql_unfold in H. cbn [nql'].
  destruct (q_fill (S f) b) as [[b1 e]| |] eqn:Ef; cbn [obind] in H; try discriminate.
  rewrite (q_fill_mono _ _ _ Ef F HF). cbn [obind].
  destruct e; [|exact H|exact H].
  apply (qstep_mono (fun b w qc => next_quoted_loop f d b s w qc)); [|exact H].
  intros b' w' qc' r' H'. apply (IH _ _ _ _ H'); lia.
Qed.

Lemma nql_back d s : forall k F b w qc r, nql' F k d b s w qc = Ok r ->
  forall f, (F + k <= f)%nat -> next_quoted_loop f d b s w qc = Ok r.
Proof.
  induction k as [|k IH]; intros F b w qc r H f Hf; [discriminate|].
  destruct f as [|f]; [lia|]. rewrite nql_unfold. cbn [nql'] in H.
  destruct (q_fill F b) as [[b1 e]| |] eqn:Ef; cbn [obind] in H; try discriminate.
  rewrite (q_fill_mono _ _ _ Ef (S f)) by lia. cbn [obind].
  destruct e; [|exact H|exact H].
  apply (qstep_mono (fun b w qc => nql' F k d b s w qc)); [|exact H].
  intros b' w' qc' r' H'. apply (IH _ _ _ _ _ H'). lia.
Qed.

(* nextQuotedField: the generated function is the model's loop with the generated fuel scheme ... *)
Lemma gv_nextQuotedField_eq' d g b : bwf b ->
  gv_nextQuotedField mread (S g) (rep_buf b) d
  = ofmap rep_q (nql' g g d (with_cur b (S (b_cur b))) (S (b_cur b)) (S (b_cur b)) 0).
Proof.
  intros Hw. unfold gv_nextQuotedField. unfold rep_buf. gv_proj.
  replace (Z.of_nat (b_cur b) + 1) with (Z.of_nat (S (b_cur b))) by lia.
  change 0 with (Z.of_nat 0).
  rewrite <- (gv_qloop_eq d (S (b_cur b)) g g (with_cur b (S (b_cur b))) (S (b_cur b)) 0 Hw).
  unfold rep_buf. reflexivity.
Qed.

(* ... hence: whenever the model answers, every larger generated fuel gives the same answer *)
Theorem gv_nextQuotedField_run d f b r : bwf b -> next_quoted f d b = Ok r ->
  forall g, (f + 1 <= g)%nat -> gv_nextQuotedField mread g (rep_buf b) d = Ok (rep_q r).
Proof.
  intros Hw H g Hg. destruct g as [|g]; [lia|]. rewrite (gv_nextQuotedField_eq' d g b Hw).
  unfold next_quoted in H. cbn [with_cur b_cur] in H.
  rewrite (nql_run d _ f _ _ _ r H g g) by lia. reflexivity.
Qed.

(* ... and whenever the generated code answers, the model answers the same (with fuel 2g) *)
Theorem gv_nextQuotedField_back d g b r' : bwf b -> gv_nextQuotedField mread g (rep_buf b) d = Ok r' ->
  exists r, next_quoted (2 * g) d b = Ok r /\ rep_q r = r'.
Proof.
  intros Hw H. destruct g as [|g]; [discriminate|]. rewrite (gv_nextQuotedField_eq' d g b Hw) in H.
  apply ofmap_ok_inv in H. destruct H as (r & H & Hr). exists r. split; [|exact Hr].
  unfold next_quoted. cbn [with_cur b_cur]. apply (nql_back d _ g g _ _ _ _ H). lia.
Qed.

(* ------------------------------------------------------------------ invariants of the model: len <= cap, cursor <= len *)
Definition inv (b : buf) : Prop := (b_len b <= length (b_data b) /\ b_cur b <= b_len b)%nat.

Lemma inv_bwf b : inv b -> bwf b.
Proof. intros [H _]. exact H. Qed.

Lemma more_inv b : inv b -> inv (fst (more b)).
Proof.
  intros [H1 H2]. destruct (more_bwf b H1) as [Hw Hc]. pose proof (more_len b). split; [exact Hw|lia].
Qed.

Lemma buf_get_lt b i x : buf_get b i = Ok x -> (i < b_len b)%nat.
Proof. unfold buf_get. destruct (Nat.ltb_spec i (b_len b)); [auto|discriminate]. Qed.

Lemma unq_inv d : forall k fs r, next_unquoted k d fs = Ok r -> inv (f_buf fs) -> inv (f_buf (fst r)).
Proof.
  induction k as [|k IH]; intros fs r H Hi; [discriminate|]. cbn [next_unquoted] in H.
  set (b0 := f_buf fs) in *.
  assert (Hbe : inv (fst (if Nat.leb (b_len b0) (b_cur b0) then more b0 else (b0, RNil)))
                /\ b_cur (fst (if Nat.leb (b_len b0) (b_cur b0) then more b0 else (b0, RNil))) = b_cur b0).
  { destruct (Nat.leb (b_len b0) (b_cur b0)); [|split; [exact Hi|reflexivity]].
    split; [apply more_inv; exact Hi|apply more_bwf, inv_bwf, Hi]. }
  destruct (if Nat.leb (b_len b0) (b_cur b0) then more b0 else (b0, RNil)) as [b e]. cbn [fst] in Hbe.
  destruct Hbe as [Hb Hc]. destruct e.
  - destruct (buf_get b (b_cur b0)) as [ch| |] eqn:Eg; cbn [obind] in H; try discriminate.
    apply buf_get_lt in Eg.
    assert (Hb' : inv (with_cur b (S (b_cur b0)))).
    { destruct Hb as [H1 H2]. split; cbn [with_cur b_len b_data b_cur]; [exact H1|lia]. }
    destruct (N.eqb ch d).
    { destruct (buf_slice (with_cur b (S (b_cur b0))) (f_start fs) (S (b_cur b0) - 1)); cbn [obind] in H; try discriminate.
      inversion H; subst. exact Hb'. }
    destruct (N.eqb ch ch_lf).
    { destruct (buf_slice (with_cur b (S (b_cur b0))) (f_start fs) (S (b_cur b0) - 1)); cbn [obind] in H; try discriminate.
      inversion H; subst. exact Hb'. }
    apply (IH _ _ H). exact Hb'.
  - destruct (buf_slice b (f_start fs) (b_cur b0)); cbn [obind] in H; try discriminate.
    inversion H; subst. exact Hb.
  - inversion H; subst. exact Hb.
Qed.

Lemma q_fill_inv : forall k b b' e, q_fill k b = Ok (b', e) -> inv b -> inv b'.
Proof.
  induction k as [|k IH]; intros b b' e H Hi; [discriminate|]. cbn [q_fill] in H.
  destruct (Nat.leb (b_len b) (b_cur b + 1)); [|inversion H; subst; exact Hi].
  pose proof (more_inv _ Hi) as Hi1. destruct (more b) as [b1 e1]. cbn [fst] in Hi1.
  destruct e1; [exact (IH _ _ _ H Hi1)|inversion H; subst; exact Hi1|inversion H; subst; exact Hi1].
Qed.

Definition qbuf (r : qresult) : buf := fst (fst (fst r)).

Lemma q_err_inv d b e s w qc r : q_err d b e s w qc = Ok r -> inv b -> inv (qbuf r).
Proof.
  unfold q_err. intros H Hi.
  destruct (rerr_eqb e REof && Nat.odd qc && Nat.ltb (b_cur b) (b_len b)
            && match nth_error (b_data b) (b_cur b) with Some x => N.eqb x d | None => false end) eqn:Ea.
  - apply andb_prop in Ea. destruct Ea as [Ea _]. apply andb_prop in Ea. destruct Ea as [_ El].
    apply Nat.ltb_lt in El.
    destruct (buf_slice (with_cur b (S (b_cur b))) s w); cbn [obind] in H; try discriminate.
    inversion H; subst. unfold qbuf. cbn [fst]. destruct Hi as [H1 H2].
    split; cbn [with_cur b_len b_data b_cur]; [exact H1|lia].
  - destruct (buf_slice b s w); cbn [obind] in H; try discriminate. inversion H; subst. exact Hi.
Qed.

Lemma qstep_inv (rec : buf -> nat -> nat -> outcome qresult) d b s w qc r :
  (forall b w qc r, rec b w qc = Ok r -> inv b -> inv (qbuf r)) ->
  qstep rec d b s w qc = Ok r -> inv b -> inv (qbuf r).
Proof.
  intros Hrec H Hi. unfold qstep in H.
  destruct (buf_get b (b_cur b)) as [ch| |] eqn:Eg; cbn [obind] in H; try discriminate.
  apply buf_get_lt in Eg. cbv zeta in H.
  set (bc := with_cur b (S (b_cur b))) in *.
  assert (Hc : inv bc).
  { destruct Hi as [H1 H2]. split; subst bc; cbn [with_cur b_len b_data b_cur]; [exact H1|lia]. }
  assert (Hws : (do bw <- q_write bc w; let '(b', w') := bw in rec b' w' 0%nat) = Ok r -> inv (qbuf r)).
  { destruct (q_write bc w) as [[b' w']| |] eqn:Ew; cbn [obind]; try discriminate.
    intros H'. apply (Hrec _ _ _ _ H').
    destruct (q_write_snd _ _ _ Ew) as (_ & Hb & Hcur & Hlen). cbn [fst] in *.
    destruct Hc as [H1 H2]. split; [exact (Hb H1)|lia]. }
  assert (Hsl : forall eol, (do fld <- buf_slice bc s w; Ok (bc, fld, eol, RNil)) = Ok r -> inv (qbuf r)).
  { intros eol. destruct (buf_slice bc s w); cbn [obind]; try discriminate. intros H'. inversion H'; subst. exact Hc. }
  destruct (N.eqb ch d). { destruct (Nat.odd qc); [exact (Hsl _ H)|exact (Hws H)]. }
  destruct (N.eqb ch ch_lf). { destruct (Nat.odd qc); [exact (Hsl _ H)|exact (Hws H)]. }
  destruct (N.eqb ch ch_cr). { destruct (Nat.odd qc); [exact (Hrec _ _ _ _ H Hc)|exact (Hws H)]. }
  destruct (N.eqb ch ch_quote); [|exact (Hws H)].
  destruct (Nat.odd (S qc)); [exact (Hrec _ _ _ _ H Hc)|exact (Hws H)].
Qed.

Lemma nql_inv d s : forall f b w qc r, next_quoted_loop f d b s w qc = Ok r -> inv b -> inv (qbuf r).
Proof.
  induction f as [|f IH]; intros b w qc r H Hi; [discriminate|]. rewrite nql_unfold in H.
  destruct (q_fill (S f) b) as [[b1 e]| |] eqn:Ef; cbn [obind] in H; try discriminate.
  pose proof (q_fill_inv _ _ _ _ Ef Hi) as Hi1.
  destruct e; [|exact (q_err_inv _ _ _ _ _ _ _ H Hi1)|exact (q_err_inv _ _ _ _ _ _ _ H Hi1)].
  apply (qstep_inv _ _ _ _ _ _ _ (fun b w qc r => IH b w qc r) H Hi1).
Qed.

(* fields.next with its two callees abstracted *)
Definition fnext_gen (nq : buf -> outcome qresult) (unq : fstate -> outcome (fstate * bool))
           (fs : fstate) : outcome (fstate * bool) :=
  if f_eol fs then Ok (fs, false)
  else
    let b0 := f_buf fs in
    let '(b, e) := if Nat.leb (b_len b0) (b_cur b0) then more b0 else (b0, RNil) in
    match e with
    | RNil =>
        do first <- buf_get b (b_cur b);
        if N.eqb first ch_quote then
          do r <- nq b;
          let '(b', fld, eol, err) := r in
          Ok (mkFs (b_cur b') b' eol fld err, rerr_eqb err RNil || rerr_eqb err REof)
        else unq (mkFs (f_start fs) b (f_eol fs) (f_field fs) (f_err fs))
    | _ =>
        if rerr_eqb e REof && Nat.ltb 0 (f_start fs) then
          do fld <- buf_slice b (f_start fs) (f_start fs);
          Ok (mkFs (f_start fs) b true fld e, true)
        else Ok (mkFs (f_start fs) b (f_eol fs) (f_field fs) e, false)
    end.

Lemma fields_next_unfold f d fs : fields_next f d fs = fnext_gen (next_quoted f d) (next_unquoted f d) fs.
Proof. reflexivity. Qed.

Lemma fnext_gen_mono (nq1 nq2 : buf -> outcome qresult) (unq1 unq2 : fstate -> outcome (fstate * bool)) fs r :
  (forall b r, nq1 b = Ok r -> nq2 b = Ok r) -> (forall fs r, unq1 fs = Ok r -> unq2 fs = Ok r) ->
  fnext_gen nq1 unq1 fs = Ok r -> fnext_gen nq2 unq2 fs = Ok r.
Proof.
  intros Hq Hu. unfold fnext_gen. destruct (f_eol fs); [auto|]. cbv zeta.
  destruct (if Nat.leb (b_len (f_buf fs)) (b_cur (f_buf fs)) then more (f_buf fs) else (f_buf fs, RNil)) as [b e].
  destruct e; [|auto|auto].
  destruct (buf_get b (b_cur b)) as [c| |]; cbn [obind]; try discriminate.
  destruct (N.eqb c ch_quote); [|apply Hu].
  destruct (nq1 b) as [q| |] eqn:E; cbn [obind]; try discriminate.
  rewrite (Hq _ _ E). auto.
Qed.

Lemma fnext_gen_inv (nq : buf -> outcome qresult) (unq : fstate -> outcome (fstate * bool)) fs r :
  (forall b r, nq b = Ok r -> inv b -> (b_cur b < b_len b)%nat -> inv (qbuf r)) ->
  (forall fs r, unq fs = Ok r -> inv (f_buf fs) -> inv (f_buf (fst r))) ->
  fnext_gen nq unq fs = Ok r -> inv (f_buf fs) -> inv (f_buf (fst r)).
Proof.
  intros Hq Hu H Hi. unfold fnext_gen in H. destruct (f_eol fs); [inversion H; subst; exact Hi|]. cbv zeta in H.
  assert (Hbe : inv (fst (if Nat.leb (b_len (f_buf fs)) (b_cur (f_buf fs)) then more (f_buf fs) else (f_buf fs, RNil)))).
  { destruct (Nat.leb (b_len (f_buf fs)) (b_cur (f_buf fs))); [apply more_inv|]; exact Hi. }
  destruct (if Nat.leb (b_len (f_buf fs)) (b_cur (f_buf fs)) then more (f_buf fs) else (f_buf fs, RNil)) as [b e].
  cbn [fst] in Hbe. destruct e.
  - destruct (buf_get b (b_cur b)) as [c| |] eqn:Eg; cbn [obind] in H; try discriminate.
    apply buf_get_lt in Eg.
    destruct (N.eqb c ch_quote); [|exact (Hu _ _ H Hbe)].
    destruct (nq b) as [[[[b' fld] eol] err]| |] eqn:E; cbn [obind] in H; try discriminate.
    inversion H; subst. exact (Hq _ _ E Hbe Eg).
  - destruct (rerr_eqb REof REof && Nat.ltb 0 (f_start fs)).
    + destruct (buf_slice b (f_start fs) (f_start fs)); cbn [obind] in H; try discriminate. inversion H; subst. exact Hbe.
    + inversion H; subst. exact Hbe.
  - cbn [rerr_eqb andb] in H. inversion H; subst. exact Hbe.
Qed.

Lemma next_quoted_inv f d b r : next_quoted f d b = Ok r -> inv b -> (b_cur b < b_len b)%nat -> inv (qbuf r).
Proof.
  unfold next_quoted. intros H [H1 H2] Hl. apply (nql_inv _ _ _ _ _ _ _ H).
  split; cbn [with_cur b_len b_data b_cur]; [exact H1|lia].
Qed.

Lemma fields_next_inv f d fs r : fields_next f d fs = Ok r -> inv (f_buf fs) -> inv (f_buf (fst r)).
Proof.
  rewrite fields_next_unfold. apply fnext_gen_inv.
  - intros b q. apply next_quoted_inv.
  - intros fs' q. apply unq_inv.
Qed.

(* ------------------------------------------------------------------ fields.next *)
Section FNext.
Variable d : N.
Variable g : nat.
Variable nq : buf -> outcome qresult.
Variable unq : fstate -> outcome (fstate * bool).
Hypothesis Hnq : forall b, bwf b -> gv_nextQuotedField mread g (rep_buf b) d = ofmap rep_q (nq b).
Hypothesis Hunq : forall fs, bwf (f_buf fs) -> gv_fields_nextUnquotedField mread g (rep_fs d fs) = ofmap (rep_fsb d) (unq fs).

Lemma gv_fields_next_S fs : bwf (f_buf fs) ->
  gv_fields_next mread (S g) (rep_fs d fs) = ofmap (rep_fsb d) (fnext_gen nq unq fs).
Proof.
  intros Hw. destruct fs as [start b0 eol fld err]. cbn [f_buf] in Hw.
  unfold gv_fields_next, fnext_gen. unfold rep_fs at 1. cbn [f_buf f_start f_eol f_field f_err]. gv_proj.
  destruct eol; [reflexivity|]. cbv zeta.
  unfold rep_fs. cbn [f_buf f_start f_eol f_field f_err]. gv_proj.
  unfold rep_buf at 1 2. gv_proj. unfold gv_len. cbn [fst snd]. rewrite leb_Z.
  assert (Hrest : forall b, bwf b ->
    (do t4 <- gv_index (gv_bufferedReader_data (rep_buf b)) (gv_bufferedReader_cursor (rep_buf b));
     if N.eqb t4 34%N then
       do (t5, t6, t7, t8) <- gv_nextQuotedField mread g (rep_buf b) d;
       Ok ((if gv_error_eqb t7 gv_nil then true else gv_error_eqb t7 gv_EOF),
           gv_mk_fields (gv_bufferedReader_cursor t8) t8 t6 d t5 t7)
     else
       do (t9, t10) <- gv_fields_nextUnquotedField mread g
                          (gv_mk_fields (Z.of_nat start) (rep_buf b) false d (rep_view fld) (rep_err err));
       Ok (t9, t10))
    = ofmap (rep_fsb d)
       (do first <- buf_get b (b_cur b);
        if N.eqb first ch_quote then
          do r <- nq b;
          let '(b', fld', eol', err') := r in
          Ok (mkFs (b_cur b') b' eol' fld' err', rerr_eqb err' RNil || rerr_eqb err' REof)
        else unq (mkFs start b false fld err))).
  { intros b Hb. unfold rep_buf at 1 2. gv_proj. rewrite gv_index_rep.
    destruct (buf_get b (b_cur b)) as [c| |]; cbn [obind ofmap]; [|reflexivity|reflexivity].
    change ch_quote with 34%N. destruct (N.eqb c 34%N).
    - rewrite (Hnq b Hb). destruct (nq b) as [[[[b' fld'] eol'] err']| |]; cbn [ofmap obind rep_q]; [|reflexivity|reflexivity].
      unfold rep_fsb, rep_fs. cbn [fst snd f_buf f_start f_eol f_field f_err].
      change gv_nil with (rep_err RNil). change gv_EOF with (rep_err REof). rewrite !rep_err_eqb.
      unfold rep_buf at 1. gv_proj. destruct (rerr_eqb err' RNil); reflexivity.
    - change (gv_mk_fields (Z.of_nat start) (rep_buf b) false d (rep_view fld) (rep_err err))
        with (rep_fs d (mkFs start b false fld err)).
      rewrite (Hunq (mkFs start b false fld err) Hb).
      destruct (unq (mkFs start b false fld err)) as [[fs' ok]| |]; reflexivity. }
  destruct (Nat.leb (b_len b0) (b_cur b0)).
  - change (gv_mk_bufferedReader (rep_rd (b_rd b0)) (b_data b0, Z.of_nat (b_len b0)) (Z.of_nat (b_cur b0)))
      with (rep_buf b0).
    rewrite (gv_more_eq _ Hw). destruct (more_bwf _ Hw) as [Hw1 Hc1].
    destruct (more b0) as [b e]. cbn [fst snd] in *. cbn [obind]. cbv zeta.
    change gv_nil with (rep_err RNil) at 1. change gv_EOF with (rep_err REof) at 1. rewrite !rep_err_eqb.
    destruct e; cbn [rerr_eqb negb andb].
    + exact (Hrest b Hw1).
    + change 0 with (Z.of_nat 0). rewrite ltb_Z.
      destruct (Nat.ltb 0 start); [|reflexivity].
      unfold rep_buf. gv_proj. rewrite gv_slice_rep. destruct (buf_slice b start start); reflexivity.
    + reflexivity.
  - exact (Hrest b0 Hw).
Qed.
End FNext.

(* the callees with the generated fuel scheme *)
Definition nq' (g : nat) (d : N) (b : buf) : outcome qresult :=
  match g with
  | O => Panic
  | S g' => nql' g' g' d (with_cur b (S (b_cur b))) (S (b_cur b)) (S (b_cur b)) 0
  end.
Definition unq' (g : nat) (d : N) (fs : fstate) : outcome (fstate * bool) :=
  match g with O => Panic | S k => next_unquoted k d fs end.
(* gv_fields_next F *)
Definition fnx (F : nat) (d : N) (fs : fstate) : outcome (fstate * bool) :=
  match F with O => Panic | S g => fnext_gen (nq' g d) (unq' g d) fs end.

Lemma gv_nq_eq d g b : bwf b -> gv_nextQuotedField mread g (rep_buf b) d = ofmap rep_q (nq' g d b).
Proof. intros Hw. destruct g as [|g]; [reflexivity|]. exact (gv_nextQuotedField_eq' d g b Hw). Qed.

Lemma gv_unq_eq d g fs : bwf (f_buf fs) ->
  gv_fields_nextUnquotedField mread g (rep_fs d fs) = ofmap (rep_fsb d) (unq' g d fs).
Proof. intros Hw. destruct g as [|g]; [reflexivity|]. exact (gv_nextUnquotedField_eq d g fs Hw). Qed.

Lemma gv_fields_next_eq' d F fs : bwf (f_buf fs) ->
  gv_fields_next mread F (rep_fs d fs) = ofmap (rep_fsb d) (fnx F d fs).
Proof.
  intros Hw. destruct F as [|g]; [reflexivity|].
  exact (gv_fields_next_S d g (nq' g d) (unq' g d) (gv_nq_eq d g) (gv_unq_eq d g) fs Hw).
Qed.

Lemma unq_mono d : forall f fs r, next_unquoted f d fs = Ok r -> forall f', (f <= f')%nat -> next_unquoted f' d fs = Ok r.
Proof.
  induction f as [|f IH]; intros fs r H f' Hf; [discriminate|].
  destruct f' as [|f']; [lia|]. cbn [next_unquoted] in *.
  destruct (if Nat.leb (b_len (f_buf fs)) (b_cur (f_buf fs)) then more (f_buf fs) else (f_buf fs, RNil)) as [b e].
  destruct e; [|exact H|exact H].
  destruct (buf_get b (b_cur (f_buf fs))) as [c| |]; cbn [obind] in *; try discriminate.
  destruct (N.eqb c d); [exact H|]. destruct (N.eqb c ch_lf); [exact H|].
  apply (IH _ _ H). lia.
Qed.

Lemma fnx_run d f fs r : fields_next f d fs = Ok r -> forall F, (f + 2 <= F)%nat -> fnx F d fs = Ok r.
Proof.
  intros H F HF. destruct F as [|g]; [lia|]. cbn [fnx]. rewrite fields_next_unfold in H.
  apply (fnext_gen_mono (next_quoted f d) _ (next_unquoted f d) _ _ _) with (3 := H).
  - intros b q Hq. destruct g as [|g']; [lia|]. cbn [nq']. unfold next_quoted in Hq. cbn [with_cur b_cur] in Hq.
    apply (nql_run d _ f _ _ _ _ Hq); lia.
  - intros fs' q Hq. destruct g as [|k]; [lia|]. cbn [unq']. apply (unq_mono d f _ _ Hq). lia.
Qed.

Lemma fnx_back d F fs r : fnx F d fs = Ok r -> fields_next (2 * F) d fs = Ok r.
Proof.
  destruct F as [|g]; [discriminate|]. cbn [fnx]. intros H. rewrite fields_next_unfold.
  apply (fnext_gen_mono (nq' g d) _ (unq' g d) _ _ _) with (3 := H).
  - intros b q Hq. destruct g as [|g']; [discriminate|]. cbn [nq'] in Hq. unfold next_quoted. cbn [with_cur b_cur].
    apply (nql_back d _ g' g' _ _ _ _ Hq). lia.
  - intros fs' q Hq. destruct g as [|k]; [discriminate|]. cbn [unq'] in Hq. apply (unq_mono d k _ _ Hq). lia.
Qed.

Lemma fnx_inv d F fs r : fnx F d fs = Ok r -> inv (f_buf fs) -> inv (f_buf (fst r)).
Proof. intros H. exact (fields_next_inv _ _ _ _ (fnx_back _ _ _ _ H)). Qed.

Theorem gv_fields_next_run d f fs r : bwf (f_buf fs) -> fields_next f d fs = Ok r ->
  forall g, (f + 2 <= g)%nat -> gv_fields_next mread g (rep_fs d fs) = Ok (rep_fsb d r).
Proof. intros Hw H g Hg. rewrite (gv_fields_next_eq' d g fs Hw), (fnx_run d f fs r H g Hg). reflexivity. Qed.

Theorem gv_fields_next_back d g fs r' : bwf (f_buf fs) -> gv_fields_next mread g (rep_fs d fs) = Ok r' ->
  exists r, fields_next (2 * g) d fs = Ok r /\ rep_fsb d r = r'.
Proof.
  intros Hw H. rewrite (gv_fields_next_eq' d g fs Hw) in H. apply ofmap_ok_inv in H.
  destruct H as (r & H & Hr). exists r. split; [exact (fnx_back _ _ _ _ H)|exact Hr].
Qed.

(* ================================================================== Part 5: Reader *)
(* the row loop with the generated fuel scheme: fields.next gets F at every trip *)
Fixpoint row_loop' (F k : nat) (d : N) (fs : fstate) (acc : list (nat * nat)) {struct k}
  : outcome (fstate * list (nat * nat)) :=
  match k with
  | O => Panic
  | S k' =>
      do r <- fnx F d fs;
      let '(fs', ok) := r in
      if ok then row_loop' F k' d fs' (acc ++ [f_field fs']) else Ok (fs', acc)
  end.

Definition rep_row (d : N) (r : fstate * list (nat * nat)) : gv_Reader mR :=
  gv_mk_Reader (rep_fs d (fst r)) (map rep_view (snd r)).

Lemma gv_row_loop_eq d F : forall k fs acc, inv (f_buf fs) ->
  gv_Reader_Next_loop1 mread F k (rep_row d (fs, acc)) = ofmap (rep_row d) (row_loop' F k d fs acc).
Proof.
  induction k as [|k IH]; intros fs acc Hi; [reflexivity|].
  cbn [gv_Reader_Next_loop1 row_loop']. unfold rep_row at 1 2. cbn [fst snd]. gv_proj.
  rewrite (gv_fields_next_eq' d F fs (inv_bwf _ Hi)).
  destruct (fnx F d fs) as [[fs' ok]| |] eqn:E; cbn [ofmap obind rep_fsb fst snd]; [|reflexivity|reflexivity].
  destruct ok; [|reflexivity].
  pose proof (fnx_inv _ _ _ _ E Hi) as Hi'. cbn [fst] in Hi'.
  rewrite <- (IH fs' (acc ++ [f_field fs']) Hi'). unfold rep_row. cbn [fst snd].
  rewrite map_app. reflexivity.
Qed.

(* Reader.Next with its row loop abstracted *)
Definition rnext_gen (rl : fstate -> outcome (fstate * list (nat * nat))) (rd : rdstate) : outcome (rdstate * bool) :=
  if negb (rerr_eqb (f_err (rd_fields rd)) RNil) then Ok (rd, false)
  else
    let fs0 := fields_reset (rd_fields rd) in
    do r <- rl fs0;
    let '(fs, row) := r in
    do row' <- trim_last_cr (f_buf fs) row;
    if is_nil row' then
      let fs' := if rerr_eqb (f_err fs) RNil
                 then mkFs (f_start fs) (f_buf fs) (f_eol fs) (f_field fs) REof else fs in
      Ok (mkRd fs' row', false)
    else Ok (mkRd fs row', true).

Lemma reader_next_unfold f d rd : reader_next f d rd = rnext_gen (fun fs0 => row_loop f d fs0 []) rd.
Proof. reflexivity. Qed.

Definition rep_rdb (d : N) (r : rdstate * bool) : bool * gv_Reader mR := (snd r, rep_reader d (fst r)).

Lemma set_nth_last {A} (l : list A) x v : set_nth (l ++ [x]) (length l) v = l ++ [v].
Proof. induction l as [|y l IH]; [reflexivity|]. cbn [app length set_nth]. rewrite IH. reflexivity. Qed.

Lemma nth_error_last {A} (l : list A) x : nth_error (l ++ [x]) (length l) = Some x.
Proof. induction l as [|y l IH]; [reflexivity|]. exact IH. Qed.

(* CRLF support: the last field loses a trailing CR *)
Lemma gv_trim_eq (FS : gv_fields mR) (b : buf) row :
  (if 0 <? Z.of_nat (length (map rep_view row)) then
     do t4 <- gv_list_index (map rep_view row) (Z.of_nat (length (map rep_view row)) - 1);
     do (v_r, _) <-
       (do t6 <- (if 0 <? gv_view_len t4 then
                    do t5 <- gv_view_index (b_data b, Z.of_nat (b_len b)) t4 (gv_view_len t4 - 1);
                    Ok (N.eqb t5 13%N)
                  else Ok false);
        if t6 then
          do t7 <- gv_view_slice (b_data b, Z.of_nat (b_len b)) t4 0 (gv_view_len t4 - 1);
          do t8 <- gv_list_update (map rep_view row) (Z.of_nat (length (map rep_view row)) - 1) t7;
          Ok (gv_mk_Reader FS t8, t7)
        else Ok (gv_mk_Reader FS (map rep_view row), t4));
     Ok v_r
   else Ok (gv_mk_Reader FS (map rep_view row)))
  = ofmap (fun row' => gv_mk_Reader FS (map rep_view row')) (trim_last_cr b row).
Proof.
  unfold trim_last_cr. destruct (rev row) as [|[s e] fr] eqn:Er.
  { assert (row = []) by (rewrite <- (rev_involutive row), Er; reflexivity). subst row. reflexivity. }
  assert (Hrow : row = rev fr ++ [(s, e)]) by (rewrite <- (rev_involutive row), Er; reflexivity).
  clear Er. subst row. rewrite !map_app, !app_length, !map_length. cbn [map length].
  replace (0 <? Z.of_nat (length (rev fr) + 1)) with true by lia. unfold gv_list_index.
  replace (Z.of_nat (length (rev fr) + 1) - 1 <? 0) with false by lia.
  replace (Z.to_nat (Z.of_nat (length (rev fr) + 1) - 1)) with (length (map rep_view (rev fr)))
    by (rewrite map_length; lia).
  unfold idx at 1. rewrite nth_error_last. cbn [of_option obind].
  unfold gv_view_len, rep_view. cbn [fst snd].
  replace (0 <? Z.of_nat e - Z.of_nat s) with (Nat.ltb 0 (e - s)) by (destruct (Nat.ltb_spec 0 (e - s)); lia).
  destruct (Nat.ltb_spec 0 (e - s)) as [Hse|Hse]; cbn [obind].
  2:{ cbn [ofmap]. rewrite map_app. reflexivity. }
  unfold gv_view_index, gv_view_len. cbn [fst snd].
  replace ((Z.of_nat e - Z.of_nat s - 1 <? 0) || (Z.of_nat e - Z.of_nat s <=? Z.of_nat e - Z.of_nat s - 1)) with false by lia.
  replace (Z.to_nat (Z.of_nat s + (Z.of_nat e - Z.of_nat s - 1))) with (e - 1)%nat by lia.
  unfold idx at 1 2. destruct (nth_error (b_data b) (e - 1)) as [x|] eqn:En; cbn [of_option obind]; [|reflexivity].
  change ch_cr with 13%N. destruct (N.eqb x 13%N); cbn [ofmap].
  2:{ rewrite map_app. reflexivity. }
  assert (Hlt : (e - 1 < length (b_data b))%nat) by (apply nth_error_Some; rewrite En; discriminate).
  unfold gv_view_slice, gv_cap. cbn [fst snd].
  replace ((0 <? 0) || (Z.of_nat e - Z.of_nat s - 1 <? 0)
           || (Z.of_nat (length (b_data b)) - Z.of_nat s <? Z.of_nat e - Z.of_nat s - 1)) with false by lia.
  cbn [obind]. unfold gv_list_update.
  replace (Z.of_nat (length (rev fr) + 1) - 1 <? 0) with false by lia.
  replace (Z.to_nat (Z.of_nat (length (rev fr) + 1) - 1)) with (length (map rep_view (rev fr)))
    by (rewrite map_length; lia).
  unfold idx. rewrite nth_error_last. cbn [of_option obind]. rewrite set_nth_last.
  rewrite map_app. cbn [map]. unfold rep_view. cbn [fst snd]. repeat f_equal; lia.
Qed.

Lemma gv_Reader_Next_eq' d g rd : inv (f_buf (rd_fields rd)) ->
  gv_Reader_Next mread (S g) (rep_reader d rd)
  = ofmap (rep_rdb d) (rnext_gen (fun fs0 => row_loop' g g d fs0 []) rd).
Proof.
  intros Hi. destruct rd as [fs row0]. cbn [rd_fields] in Hi.
  unfold gv_Reader_Next, rnext_gen. cbn [rd_fields rd_row].
  unfold rep_reader. cbn [rd_fields rd_row]. gv_proj.
  change (gv_fields_err (rep_fs d fs)) with (rep_err (f_err fs)).
  change gv_nil with (rep_err RNil) at 1. rewrite rep_err_eqb.
  destruct (rerr_eqb (f_err fs) RNil) eqn:Ee; cbn [negb]; [|reflexivity].
  cbv zeta. rewrite (gv_fields_reset_eq d fs (inv_bwf _ Hi) (proj2 Hi)). cbn [obind].
  destruct (reset_bwf _ (inv_bwf _ Hi) (proj2 Hi)) as [Hw0 Hc0].
  assert (Hi0 : inv (f_buf (fields_reset fs))).
  { split; [exact Hw0|]. cbn [fields_reset f_buf]. rewrite Hc0. lia. }
  change (gv_mk_Reader (rep_fs d (fields_reset fs)) (@nil (Z * Z))) with (rep_row d (fields_reset fs, [])).
  rewrite (gv_row_loop_eq d g g (fields_reset fs) [] Hi0).
  destruct (row_loop' g g d (fields_reset fs) []) as [[fs1 row]| |]; cbn [ofmap obind]; [|reflexivity|reflexivity].
  unfold rep_row. cbn [fst snd]. gv_proj. unfold rep_fs, rep_buf. gv_proj.
  rewrite (gv_trim_eq _ (f_buf fs1) row).
  destruct (trim_last_cr (f_buf fs1) row) as [row'| |]; cbn [ofmap obind]; [|reflexivity|reflexivity].
  gv_proj. rewrite map_length. change 0 with (Z.of_nat 0) at 1. rewrite eqb_Z.
  destruct row' as [|p row']; cbn [length Nat.eqb is_nil map]; [|reflexivity].
  change gv_nil with (rep_err RNil). rewrite rep_err_eqb.
  destruct (rerr_eqb (f_err fs1) RNil); reflexivity.
Qed.

Lemma nql_mono d s : forall f b w qc r, next_quoted_loop f d b s w qc = Ok r ->
  forall f', (f <= f')%nat -> next_quoted_loop f' d b s w qc = Ok r.
Proof.
  induction f as [|f IH]; intros b w qc r H f' Hf; [discriminate|].
  destruct f' as [|f']; [lia|]. rewrite nql_unfold in *.
  destruct (q_fill (S f) b) as [[b1 e]| |] eqn:Ef; cbn [obind] in H; try discriminate.
  rewrite (q_fill_mono _ _ _ Ef (S f')) by lia. cbn [obind].
  destruct e; [|exact H|exact H].
  apply (qstep_mono (fun b w qc => next_quoted_loop f d b s w qc)); [|exact H].
  intros b' w' qc' r' H'. apply (IH _ _ _ _ H'). lia.
Qed.

Lemma fields_next_mono d f fs r : fields_next f d fs = Ok r ->
  forall f', (f <= f')%nat -> fields_next f' d fs = Ok r.
Proof.
  intros H f' Hf. rewrite fields_next_unfold in *.
  apply (fnext_gen_mono (next_quoted f d) _ (next_unquoted f d) _ _ _) with (3 := H).
  - intros b q Hq. unfold next_quoted in *. apply (nql_mono _ _ _ _ _ _ _ Hq). exact Hf.
  - intros fs' q Hq. apply (unq_mono d f _ _ Hq). exact Hf.
Qed.

Lemma row_run d : forall f fs acc r, row_loop f d fs acc = Ok r ->
  forall F k, (f + 2 <= F)%nat -> (f <= k)%nat -> row_loop' F k d fs acc = Ok r.
Proof.
  induction f as [|f IH]; intros fs acc r H F k HF Hk; [discriminate|].
  destruct k as [|k]; [lia|]. cbn [row_loop row_loop'] in *.
  destruct (fields_next (S f) d fs) as [[fs' ok]| |] eqn:E; cbn [obind] in H; try discriminate.
  rewrite (fnx_run d (S f) fs _ E F) by lia. cbn [obind].
  destruct ok; [|exact H]. apply (IH _ _ _ H); lia.
Qed.

Lemma row_back d : forall k F fs acc r, row_loop' F k d fs acc = Ok r ->
  forall f, (2 * F + k <= f)%nat -> row_loop f d fs acc = Ok r.
Proof.
  induction k as [|k IH]; intros F fs acc r H f Hf; [discriminate|].
  destruct f as [|f]; [lia|]. cbn [row_loop row_loop'] in *.
  destruct (fnx F d fs) as [[fs' ok]| |] eqn:E; cbn [obind] in H; try discriminate.
  rewrite (fields_next_mono d _ _ _ (fnx_back _ _ _ _ E) (S f)) by lia. cbn [obind].
  destruct ok; [|exact H]. apply (IH _ _ _ _ H). lia.
Qed.

Lemma row_loop_inv d : forall f fs acc r, row_loop f d fs acc = Ok r -> inv (f_buf fs) -> inv (f_buf (fst r)).
Proof.
  induction f as [|f IH]; intros fs acc r H Hi; [discriminate|]. cbn [row_loop] in H.
  destruct (fields_next (S f) d fs) as [[fs' ok]| |] eqn:E; cbn [obind] in H; try discriminate.
  pose proof (fields_next_inv _ _ _ _ E Hi) as Hi'. cbn [fst] in Hi'.
  destruct ok; [exact (IH _ _ _ H Hi')|inversion H; subst; exact Hi'].
Qed.

Lemma rnext_gen_mono (rl1 rl2 : fstate -> outcome (fstate * list (nat * nat))) rd r :
  (forall fs q, rl1 fs = Ok q -> rl2 fs = Ok q) -> rnext_gen rl1 rd = Ok r -> rnext_gen rl2 rd = Ok r.
Proof.
  intros Hm. unfold rnext_gen. destruct (negb (rerr_eqb (f_err (rd_fields rd)) RNil)); [auto|]. cbv zeta.
  destruct (rl1 (fields_reset (rd_fields rd))) as [q| |] eqn:E; cbn [obind]; try discriminate.
  rewrite (Hm _ _ E). auto.
Qed.

Lemma reader_next_inv f d rd r : reader_next f d rd = Ok r ->
  inv (f_buf (rd_fields rd)) -> inv (f_buf (rd_fields (fst r))).
Proof.
  unfold reader_next. intros H Hi.
  destruct (negb (rerr_eqb (f_err (rd_fields rd)) RNil)); [inversion H; subst; exact Hi|].
  destruct (reset_bwf _ (inv_bwf _ Hi) (proj2 Hi)) as [Hw0 Hc0].
  assert (Hi0 : inv (f_buf (fields_reset (rd_fields rd)))).
  { split; [exact Hw0|]. cbn [fields_reset f_buf]. rewrite Hc0. lia. }
  destruct (row_loop f d (fields_reset (rd_fields rd)) []) as [[fs row]| |] eqn:E; cbn [obind] in H; try discriminate.
  pose proof (row_loop_inv _ _ _ _ _ E Hi0) as Hi1. cbn [fst] in Hi1.
  destruct (trim_last_cr (f_buf fs) row) as [row'| |]; cbn [obind] in H; try discriminate.
  destruct (is_nil row'); inversion H; subst; cbn [fst rd_fields]; [|exact Hi1].
  destruct (rerr_eqb (f_err fs) RNil); exact Hi1.
Qed.

(* Reader.Next: whenever the model answers, every generated fuel >= f + 3 gives the same answer ... *)
Theorem gv_Reader_Next_run d f rd r : inv (f_buf (rd_fields rd)) -> reader_next f d rd = Ok r ->
  forall g, (f + 3 <= g)%nat -> gv_Reader_Next mread g (rep_reader d rd) = Ok (rep_rdb d r).
Proof.
  intros Hi H g Hg. destruct g as [|g]; [lia|]. rewrite (gv_Reader_Next_eq' d g rd Hi).
  rewrite reader_next_unfold in H.
  rewrite (rnext_gen_mono (fun fs0 => row_loop f d fs0 []) (fun fs0 => row_loop' g g d fs0 []) rd r); [reflexivity| |exact H].
  intros fs q Hq. apply (row_run d f _ _ _ Hq); lia.
Qed.

(* ... and whenever the generated code answers, the model (with fuel 3g) answers the same *)
Theorem gv_Reader_Next_back d g rd r' : inv (f_buf (rd_fields rd)) ->
  gv_Reader_Next mread g (rep_reader d rd) = Ok r' ->
  exists r, reader_next (3 * g) d rd = Ok r /\ rep_rdb d r = r'.
Proof.
  intros Hi H. destruct g as [|g]; [discriminate|]. rewrite (gv_Reader_Next_eq' d g rd Hi) in H.
  apply ofmap_ok_inv in H. destruct H as (r & H & Hr). exists r. split; [|exact Hr].
  rewrite reader_next_unfold.
  apply (rnext_gen_mono (fun fs0 => row_loop' g g d fs0 []) (fun fs0 => row_loop (3 * S g) d fs0 []) rd r); [|exact H].
  intros fs q Hq. apply (row_back d g g _ _ _ Hq). lia.
Qed.

(* ------------------------------------------------------------------ Fields, Err, Read, NewReader *)
Theorem gv_Reader_Fields_eq d rd :
  gv_Reader_Fields (rep_reader d rd) = Ok (map rep_view (rd_row rd), rep_reader d rd).
Proof. reflexivity. Qed.

(* Err(): io.EOF ITSELF is the regular end; every other error is handed out *)
Theorem gv_Reader_Err_eq d rd :
  gv_Reader_Err (rep_reader d rd)
  = Ok (if reader_failed rd then gv_other else gv_nil, rep_reader d rd).
Proof.
  unfold gv_Reader_Err, reader_failed, rep_reader, rep_fs. gv_proj.
  destruct (f_err (rd_fields rd)); reflexivity.
Qed.

Theorem gv_NewReader_eq d chunks t :
  gv_NewReader ((chunks, t) : mR) d = Ok (rep_reader d (new_reader (N.to_nat c_csv_init_cap) chunks t)).
Proof. reflexivity. Qed.

(* Read = Next, then the row or the sticky error *)
Theorem gv_Reader_Read_eq (r : gv_Reader mR) g :
  gv_Reader_Read mread (S g) r
  = do x <- gv_Reader_Next mread g r;
    let '(ok, r') := x in
    if ok then Ok (gv_Reader_fieldsBuffer r', gv_nil, r') else Ok ([], gv_fields_err (gv_Reader_fields r'), r').
Proof. reflexivity. Qed.

(* ================================================================== Part 6: the Read loop *)
(* A consumer of the translated Reader (this loop is NOT translated code: internal/fastcsv has no such loop; it is
   the loop of Model/FastCsv.v's scan_loop written over the generated Read and Err):
     for { row, err := r.Read(); if err != nil { break }; rows = append(rows, copy of row) }; return rows, r.Err() *)
Definition gv_resolve (r : gv_Reader mR) (v : Z * Z) : bytes :=
  firstn (Z.to_nat (snd v - fst v))
         (skipn (Z.to_nat (fst v)) (fst (gv_bufferedReader_data (gv_fields_buffer (gv_Reader_fields r))))).

Fixpoint gv_read_all (fuel fin : nat) (r : gv_Reader mR) (rows : list (list bytes)) {struct fuel}
  : outcome (list (list bytes) * gv_error) :=
  match fuel with
  | O => Panic
  | S fuel' =>
      do x <- gv_Reader_Read mread fin r;
      let '(row, err, r') := x in
      match err with
      | gv_nil => gv_read_all fuel' fin r' (map (gv_resolve r') row :: rows)
      | _ => do e <- gv_Reader_Err r'; Ok (rev rows, fst e)
      end
  end.

Lemma gv_resolve_rep d rd p : gv_resolve (rep_reader d rd) (rep_view p) = resolve (f_buf (rd_fields rd)) p.
Proof.
  unfold gv_resolve, resolve, rep_reader, rep_fs, rep_buf, rep_view. gv_proj. cbn [fst snd].
  rewrite Nat2Z.id. f_equal. lia.
Qed.

Lemma reader_next_false_err f d rd rd' : reader_next f d rd = Ok (rd', false) -> f_err (rd_fields rd') <> RNil.
Proof.
  unfold reader_next. destruct (rerr_eqb (f_err (rd_fields rd)) RNil) eqn:E; cbn [negb].
  2:{ intros H. inversion H; subst. intros C. rewrite C in E. discriminate. }
  destruct (row_loop f d (fields_reset (rd_fields rd)) []) as [[fs row]| |]; cbn [obind]; try discriminate.
  destruct (trim_last_cr (f_buf fs) row) as [row'| |]; cbn [obind]; try discriminate.
  destruct (is_nil row'); [|discriminate]. intros H. inversion H; subst. cbn [rd_fields].
  destruct (rerr_eqb (f_err fs) RNil) eqn:E2; [discriminate|]. intros C. rewrite C in E2. discriminate.
Qed.

Lemma gv_read_all_run d fin : forall fuel rd rows tr res,
  inv (f_buf (rd_fields rd)) -> scan_loop fuel fin d rd rows tr = Ok res ->
  forall G Fin, (fuel <= G)%nat -> (fin + 4 <= Fin)%nat ->
  gv_read_all G Fin (rep_reader d rd) rows
  = Ok (fst (fst res), if snd (fst res) then gv_other else gv_nil).
Proof.
  induction fuel as [|fuel IH]; intros rd rows tr res Hi H G Fin HG HF; [discriminate|].
  destruct G as [|G]; [lia|]. destruct Fin as [|Fin]; [lia|].
  cbn [scan_loop gv_read_all] in *.
  destruct (reader_next fin d rd) as [[rd' ok]| |] eqn:E; cbn [obind] in H; try discriminate.
  rewrite gv_Reader_Read_eq, (gv_Reader_Next_run d fin rd _ Hi E Fin) by lia.
  pose proof (reader_next_inv _ _ _ _ E Hi) as Hi'. cbn [fst] in Hi'.
  cbn [obind rep_rdb fst snd]. destruct ok.
  - assert (Hrows : map (gv_resolve (rep_reader d rd')) (gv_Reader_fieldsBuffer (rep_reader d rd')) = reader_fields rd').
    { unfold reader_fields. cbn [rep_reader gv_Reader_fieldsBuffer]. rewrite map_map.
      apply map_ext. intros p. apply gv_resolve_rep. }
    cbn [obind]. rewrite Hrows. apply (IH _ _ _ _ Hi' H); lia.
  - inversion H; subst. cbn [fst snd obind].
    pose proof (reader_next_false_err _ _ _ _ E) as Hne.
    rewrite gv_Reader_Err_eq. cbn [rep_reader gv_Reader_fields rep_fs gv_fields_err].
    destruct (f_err (rd_fields rd')); [congruence|reflexivity|reflexivity].
Qed.

Lemma new_reader_inv cap chunks t : inv (f_buf (rd_fields (new_reader cap chunks t))).
Proof.
  unfold new_reader, inv. cbn [rd_fields f_buf b_len b_data b_cur]. unfold c_csv_init_len. cbn. lia.
Qed.

(* the translated Reader, read to the end through Read: the rows of the character machine of Model/CsvSpec.v on the
   whole document, whatever the fragmentation, the EOF style and the initial capacity; Err() = nil *)
Theorem gv_rows (cap : nat) (d : N) (chunks : list bytes) (t : rterm) (G Fin : nat) :
  Forall (fun c : bytes => c <> []) chunks -> (t = TEofSep \/ t = TEofWith) ->
  (length (concat chunks) + 2 <= G)%nat -> (length (concat chunks) + 6 <= Fin)%nat ->
  gv_read_all G Fin (rep_reader d (new_reader cap chunks t)) [] = Ok (stream_scan d (concat chunks), gv_nil).
Proof.
  intros Hne Ht HG HF.
  destruct (Proofs.CsvFragFull.scan_loop_fuel_suffices cap d chunks t (length (concat chunks) + 2)
              (length (concat chunks) + 2) Hne Ht (le_n _) (le_n _)) as [tr Htr].
  rewrite (gv_read_all_run d _ _ _ _ _ _ (new_reader_inv cap chunks t) Htr G Fin HG) by lia.
  reflexivity.
Qed.

(* NewReader, then the Read loop *)
Definition gv_scan (G Fin : nat) (d : N) (chunks : list bytes) (t : rterm) : outcome (list (list bytes) * gv_error) :=
  do r <- gv_NewReader ((chunks, t) : mR) d; gv_read_all G Fin r [].

Theorem gv_scan_rows (d : N) (chunks : list bytes) (t : rterm) (G Fin : nat) :
  Forall (fun c : bytes => c <> []) chunks -> (t = TEofSep \/ t = TEofWith) ->
  (length (concat chunks) + 2 <= G)%nat -> (length (concat chunks) + 6 <= Fin)%nat ->
  gv_scan G Fin d chunks t = Ok (stream_scan d (concat chunks), gv_nil).
Proof.
  intros Hne Ht HG HF. unfold gv_scan. rewrite gv_NewReader_eq. cbn [obind].
  apply gv_rows; assumption.
Qed.

Corollary gv_scan_fragmentation (d : N) (doc : bytes) (frag1 frag2 : list bytes) (t1 t2 : rterm) (G Fin : nat) :
  Forall (fun c : bytes => c <> []) frag1 -> Forall (fun c : bytes => c <> []) frag2 ->
  concat frag1 = doc -> concat frag2 = doc ->
  (t1 = TEofSep \/ t1 = TEofWith) -> (t2 = TEofSep \/ t2 = TEofWith) ->
  (length doc + 2 <= G)%nat -> (length doc + 6 <= Fin)%nat ->
  gv_scan G Fin d frag1 t1 = gv_scan G Fin d frag2 t2.
Proof.
  intros H1 H2 E1 E2 T1 T2 HG HF.
  rewrite (gv_scan_rows d frag1 t1 G Fin H1 T1), (gv_scan_rows d frag2 t2 G Fin H2 T2) by (rewrite ?E1, ?E2; assumption).
  rewrite E1, E2. reflexivity.
Qed.
