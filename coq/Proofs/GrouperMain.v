(* Proofs/GrouperMain.v — C04 / C05 for the grouper model: group_ids partitions the index by key
   equality and distinct_ids keeps one representative per class, for every hash function that respects
   key equality (every collision pattern, every growth timing). *)
From QF Require Import Base.Prelude Gen.GenConsts Model.Grouper Proofs.GrouperProofs Proofs.GrouperInv.
Local Open Scope N_scope.

(* ------------------------------------------------------------------ general facts about groups *)

Lemma nodup_app_r {X} (a b : list X) : NoDup (a ++ b) -> NoDup b.
Proof. induction a as [|x a IH]; simpl; intro H; auto. inversion H; auto. Qed.

Lemma nodup_app_l {X} (a b : list X) : NoDup (a ++ b) -> NoDup a.
Proof.
  induction a as [|x a IH]; simpl; intro H; [constructor|].
  inversion H as [|? ? Hn Hnd]; subst. constructor; auto.
  intro Hx. apply Hn. apply in_or_app. auto.
Qed.

Lemma in_heads {X} (gs : list (list X)) h : In h (heads gs) <-> exists r, In (h :: r) gs.
Proof.
  unfold heads. rewrite in_flat_map. split.
  - intros (g & Hg & Hh). destruct g as [|x r]; simpl in Hh; [contradiction|].
    destruct Hh as [->|[]]. exists r. exact Hg.
  - intros (r & Hr). exists (h :: r). split; [exact Hr | left; reflexivity].
Qed.

Lemma in_concat_group {X} (gs : list (list X)) g x : In g gs -> In x g -> In x (concat gs).
Proof. intros Hg Hx. apply in_concat. exists g. auto. Qed.

Lemma group_unique {X} (gs : list (list X)) g1 g2 x :
  NoDup (concat gs) -> In g1 gs -> In g2 gs -> In x g1 -> In x g2 -> g1 = g2.
Proof.
  induction gs as [|g gs IH]; intros ND H1 H2 X1 X2; [contradiction|].
  simpl in ND. pose proof (nodup_app_r _ _ ND) as NDr.
  assert (Hdisj : forall y, In y g -> In y (concat gs) -> False).
  { intros y Y1 Y2. clear -ND Y1 Y2. induction g as [|z g IHg]; [contradiction|].
    simpl in ND. inversion ND as [|? ? Hn Hnd]; subst. destruct Y1 as [->|Y1].
    - apply Hn. apply in_or_app. right. exact Y2.
    - apply IHg; auto. }
  destruct H1 as [<-|H1], H2 as [<-|H2].
  - reflexivity.
  - exfalso. apply (Hdisj x X1). eapply in_concat_group; eauto.
  - exfalso. apply (Hdisj x X2). eapply in_concat_group; eauto.
  - apply IH; auto.
Qed.

Lemma heads_incl {X} (gs : list (list X)) : incl (heads gs) (concat gs).
Proof.
  intros h Hh. apply in_heads in Hh. destruct Hh as (r & Hr).
  eapply in_concat_group; [exact Hr | left; reflexivity].
Qed.

Lemma heads_nodup {X} (gs : list (list X)) : NoDup (concat gs) -> NoDup (heads gs).
Proof.
  induction gs as [|g gs IH]; intro ND; simpl; [constructor|].
  simpl in ND. pose proof (nodup_app_r _ _ ND) as NDr.
  destruct g as [|x r]; simpl; [apply IH; exact NDr|].
  constructor; [|apply IH; exact NDr].
  intro Hin. apply heads_incl in Hin. simpl in ND. inversion ND as [|? ? Hn _]; subst.
  apply Hn. apply in_or_app. right. exact Hin.
Qed.

(* one representative per group of a partition is a Distinct result *)
Lemma distinct_of_partition {X} (eqb : X -> X -> bool) (ids : list X) (gs : list (list X)) :
  NoDup ids -> partition_ok eqb ids gs -> distinct_ok eqb ids (heads gs).
Proof.
  intros ND (P & Hg & Hsame).
  assert (NDc : NoDup (concat gs)) by (eapply Permutation_NoDup; [apply Permutation_sym; exact P | exact ND]).
  assert (Hin : forall x, In x (concat gs) -> In x ids) by (intros x; apply Permutation_in; exact P).
  repeat split.
  - apply heads_nodup. exact NDc.
  - intros h Hh. apply Hin. apply heads_incl. exact Hh.
  - intros i j Hi Hj Hne. destruct (eqb i j) eqn:E; [exfalso|reflexivity].
    apply in_heads in Hi. apply in_heads in Hj. destruct Hi as (ri & Hi), Hj as (rj & Hj).
    assert (Ii : In i ids) by (apply Hin; eapply in_concat_group; [exact Hi | left; reflexivity]).
    assert (Ij : In j ids) by (apply Hin; eapply in_concat_group; [exact Hj | left; reflexivity]).
    destruct (proj2 (Hsame i j Ii Ij) (or_intror E)) as (g & Hgin & Gi & Gj).
    assert (E1 : g = i :: ri) by (apply (group_unique gs g (i :: ri) i NDc Hgin Hi Gi); left; reflexivity).
    assert (E2 : g = j :: rj) by (apply (group_unique gs g (j :: rj) j NDc Hgin Hj Gj); left; reflexivity).
    rewrite E1 in E2. inversion E2. contradiction.
  - intros i Hi.
    assert (Hc : In i (concat gs)) by (eapply Permutation_in; [apply Permutation_sym; exact P | exact Hi]).
    apply in_concat in Hc. destruct Hc as (g & Hgin & Gi).
    destruct g as [|h r]; [contradiction|].
    assert (Hh : In h (heads gs)) by (apply in_heads; exists r; exact Hgin).
    assert (Ih : In h ids) by (apply Hin; eapply in_concat_group; [exact Hgin | left; reflexivity]).
    destruct (proj1 (Hsame i h Hi Ih)) as [->|E].
    + exists (h :: r). repeat split; auto. left; reflexivity.
    + left. exact Hh.
    + right. exists h. auto.
Qed.

(* ------------------------------------------------------------------ the model *)
Section Main.
Context {A : Type}.
Variable eqb : A -> A -> bool.
Variable hash : A -> N.
Notation slot := (option (entry A)).

Lemma new_table_inv (all : list A) (n : N) :
  tinv eqb hash (new_table (calculate_initial_size_exp n)) [].
Proof.
  set (e := calculate_initial_size_exp n).
  assert (He : 3 <= e) by (unfold e, calculate_initial_size_exp; change c_grouper_min_exp with 3; apply N.le_max_r).
  assert (Hlen : N.of_nat (length (entries (@new_table A e))) = 2 ^ e).
  { unfold new_table. cbn [entries]. rewrite repeat_length. apply N2Nat.id. }
  constructor.
  - exists e. auto.
  - unfold new_table. cbn [entries]. apply reach_empty.
  - unfold new_table. cbn [entries group_count]. rewrite occ_repeat. reflexivity.
  - unfold new_table. cbn [lf_num lf_den group_count entries]. split; [reflexivity | lia].
  - unfold new_table. cbn [group_count entries]. lia.
  - unfold new_table. cbn [group_count]. simpl. lia.
  - unfold new_table. cbn [entries]. rewrite occ_repeat. constructor; simpl.
    + constructor.
    + intros x [].
    + intros x y [].
    + constructor.
Qed.

Section WithIndex.
Variable all : list A.
Hypothesis Hper : per_on eqb all.
Hypothesis Hhash : hash_respects eqb hash all.
Hypothesis Hbound : N.of_nat (length all) <= 2 ^ 30.

Lemma insert_all_spec : forall r done t,
  tinv eqb hash t done -> NoDup (done ++ r) -> incl (done ++ r) all ->
  exists t', insert_all eqb hash true t r = Ok t' /\ tinv eqb hash t' (done ++ r).
Proof.
  induction r as [|i r IH]; intros done t I ND Hincl.
  - exists t. rewrite app_nil_r. auto.
  - simpl insert_all.
    assert (E : done ++ i :: r = (done ++ [i]) ++ r) by (rewrite <- app_assoc; reflexivity).
    rewrite E in *.
    destruct (insert_spec eqb hash all Hper Hhash Hbound t done i I) as (t1 & H1 & I1).
    + apply nodup_app_l in ND. exact ND.
    + intros x Hx. apply Hincl. apply in_or_app. auto.
    + rewrite H1. cbn [obind]. apply IH; auto.
Qed.

End WithIndex.

(* Theorem 1: the table built by groupIndex never faults and satisfies the invariant *)
Theorem group_index_inv (ids : list A) :
  NoDup ids -> per_on eqb ids -> hash_respects eqb hash ids -> N.of_nat (length ids) <= 2 ^ 30 ->
  exists t, group_index eqb hash true ids = Ok t /\ tinv eqb hash t ids.
Proof.
  intros ND Hper Hhash Hb. unfold group_index.
  apply (insert_all_spec ids Hper Hhash Hb ids [] _ (new_table_inv ids _)); simpl; auto.
  apply incl_refl.
Qed.

(* ------------------------------------------------------------------ C04 *)

Lemma content_partition (L : list (entry A)) (ids : list A) :
  per_on eqb ids -> content eqb hash L ids -> partition_ok eqb ids (map members L).
Proof.
  intros (Hsym & Htrans) C. split; [exact (c_perm _ _ _ _ C)|]. split.
  - intros g Hg. apply in_map_iff in Hg. destruct Hg as (e & <- & He).
    destruct (c_ent _ _ _ _ C e He) as (_ & rest & Hm & _ & Hs).
    split; [rewrite Hm; discriminate | exact Hs].
  - intros i j Hi Hj. split.
    + intros (g & Hg & Gi & Gj). apply in_map_iff in Hg. destruct Hg as (e & <- & He).
      destruct (c_ent _ _ _ _ C e He) as (_ & rest & Hm & Hrel & Hs).
      assert (Hf : In (first e) ids).
      { apply (subseq_incl _ _ Hs). rewrite Hm. left; reflexivity. }
      rewrite Hm in Gi, Gj. destruct Gi as [Gi|Gi], Gj as [Gj|Gj].
      * left. congruence.
      * right. subst i. apply Hsym; auto.
      * right. subst j. auto.
      * right. apply (Htrans i (first e) j); auto.
    + intros [<-|E].
      * assert (Hc : In i (concat (map members L))).
        { eapply Permutation_in; [apply Permutation_sym; exact (c_perm _ _ _ _ C) | exact Hi]. }
        apply in_concat in Hc. destruct Hc as (g & Hg & Gi). exists g. auto.
      * assert (Hci : In i (concat (map members L))).
        { eapply Permutation_in; [apply Permutation_sym; exact (c_perm _ _ _ _ C) | exact Hi]. }
        assert (Hcj : In j (concat (map members L))).
        { eapply Permutation_in; [apply Permutation_sym; exact (c_perm _ _ _ _ C) | exact Hj]. }
        apply in_concat in Hci. destruct Hci as (g1 & Hg1 & Gi).
        apply in_concat in Hcj. destruct Hcj as (g2 & Hg2 & Gj).
        apply in_map_iff in Hg1. destruct Hg1 as (e1 & <- & He1).
        apply in_map_iff in Hg2. destruct Hg2 as (e2 & <- & He2).
        destruct (c_ent _ _ _ _ C e1 He1) as (_ & r1 & Hm1 & Hrel1 & Hs1).
        destruct (c_ent _ _ _ _ C e2 He2) as (_ & r2 & Hm2 & Hrel2 & Hs2).
        assert (Hf1 : In (first e1) ids).
        { apply (subseq_incl _ _ Hs1). rewrite Hm1. left; reflexivity. }
        assert (Hf2 : In (first e2) ids).
        { apply (subseq_incl _ _ Hs2). rewrite Hm2. left; reflexivity. }
        assert (Hff : eqb (first e1) (first e2) = true).
        { rewrite Hm1 in Gi. rewrite Hm2 in Gj. destruct Gi as [Gi|Gi], Gj as [Gj|Gj].
          - congruence.
          - subst i. apply (Htrans _ j _); auto.
          - subst j. apply (Htrans _ i _); auto.
          - apply (Htrans _ i _); auto. apply (Htrans _ j _); auto. }
        assert (E12 : e1 = e2) by (apply (c_pair _ _ _ _ C); auto).
        subst e2. exists (members e1). split; [apply in_map; exact He1 | auto].
Qed.

Theorem group_ids_partition (ids : list A) :
  NoDup ids -> per_on eqb ids -> hash_respects eqb hash ids -> N.of_nat (length ids) <= 2 ^ 30 ->
  exists gs, group_ids_gen eqb hash ids = Ok gs /\ partition_ok eqb ids gs.
Proof.
  intros ND Hper Hhash Hb.
  destruct (group_index_inv ids ND Hper Hhash Hb) as (t & Ht & I).
  unfold group_ids_gen. rewrite Ht. cbn [obind]. eexists. split; [reflexivity|].
  apply content_partition; [exact Hper | exact (i_content _ _ _ _ I)].
Qed.

(* ------------------------------------------------------------------ Distinct = GroupBy without the slices *)

Definition erase_e (e : entry A) : entry A := mkEntry (ehash e) (first e) [].
Definition erase_es (es : list slot) : list slot := map (option_map erase_e) es.
Definition erase_t (t : table A) : table A :=
  mkTable (erase_es (entries t)) (lf_num t) (lf_den t) (group_count t)
          (reloc_count t) (reloc_coll t) (insert_coll t).
Definition omap1 {X Y} (f : X -> Y) (o : outcome X) : outcome Y :=
  match o with Ok x => Ok (f x) | Fail => Fail | Panic => Panic end.

Lemma map_set_nth {X Y} (f : X -> Y) (l : list X) p v :
  map f (set_nth l p v) = set_nth (map f l) p (f v).
Proof.
  revert p; induction l as [|x l IH]; intros [|p]; simpl; auto. rewrite IH. reflexivity.
Qed.

Lemma probe_erase (stop : entry A -> bool) :
  (forall e, stop (erase_e e) = stop e) ->
  forall fuel es mask pos c,
    probe stop fuel (erase_es es) mask pos c = probe stop fuel es mask pos c.
Proof.
  intros Hstop. induction fuel as [|f IH]; intros es mask pos c; [reflexivity|].
  simpl. unfold idx, erase_es. rewrite nth_error_map.
  destruct (nth_error es (N.to_nat pos)) as [[e|]|]; simpl; auto.
  rewrite Hstop. destruct (stop e); auto.
Qed.

Definition er_st (st : outcome (list slot * N)) : outcome (list slot * N) :=
  omap1 (fun nc => (erase_es (fst nc), snd nc)) st.

Lemma grow_step_erase fuel mask st s :
  grow_step fuel mask (er_st st) (option_map erase_e s) = er_st (grow_step fuel mask st s).
Proof.
  destruct st as [[ne c]| |]; simpl; auto.
  rewrite probe_erase by reflexivity.
  replace (slot_hash (option_map erase_e s)) with (slot_hash s) by (destruct s; reflexivity).
  destruct (probe _ _ ne mask _ c) as [[p c']| |]; simpl; auto.
  unfold erase_es. rewrite map_set_nth. reflexivity.
Qed.

Lemma grow_loop_erase fuel mask rest st :
  fold_left (grow_step fuel mask) (erase_es rest) (er_st st)
  = er_st (fold_left (grow_step fuel mask) rest st).
Proof.
  revert st; induction rest as [|s r IH]; intro st; simpl; auto.
  rewrite grow_step_erase. apply IH.
Qed.

Lemma erase_repeat n : erase_es (repeat None n) = repeat None n.
Proof. induction n as [|n IH]; simpl; auto. fold (erase_es (repeat None n)). rewrite IH. reflexivity. Qed.

Lemma grow_erase t : grow (erase_t t) = omap1 erase_t (grow t).
Proof.
  unfold grow. cbn [entries erase_t reloc_coll lf_num lf_den group_count reloc_count insert_coll].
  assert (El : length (erase_es (entries t)) = length (entries t)) by apply map_length.
  rewrite !El.
  set (nl := u32 (c_growthFactor * N.of_nat (length (entries t)))).
  pose proof (grow_loop_erase (N.to_nat nl) (u32 (nl + (2 ^ 32 - 1))) (entries t)
                              (Ok (repeat None (N.to_nat nl), reloc_coll t))) as H.
  unfold er_st at 1 in H. simpl omap1 in H. rewrite erase_repeat in H. rewrite H.
  destruct (fold_left _ (entries t) _) as [[ne c]| |]; reflexivity.
Qed.

Lemma insert_erase t i :
  insert_entry eqb hash false (erase_t t) i = omap1 erase_t (insert_entry eqb hash true t i).
Proof.
  unfold insert_entry. cbn [erase_t lf_num lf_den].
  assert (H1 : (if c_maxLoadFactor_num * lf_den t <? lf_num t * c_maxLoadFactor_den
                then grow (erase_t t) else Ok (erase_t t))
               = omap1 erase_t (if c_maxLoadFactor_num * lf_den t <? lf_num t * c_maxLoadFactor_den
                                then grow t else Ok t)).
  { destruct (_ <? _); [apply grow_erase | reflexivity]. }
  rewrite H1. destruct (if _ <? _ then grow t else Ok t) as [t1| |]; simpl; auto.
  assert (El : length (erase_es (entries t1)) = length (entries t1)) by apply map_length.
  rewrite !El.
  rewrite probe_erase by reflexivity.
  destruct (probe _ _ (entries t1) _ _ _) as [[p c']| |]; simpl; auto.
  unfold idx, erase_es. rewrite nth_error_map.
  destruct (nth_error (entries t1) p) as [[e|]|] eqn:E; simpl; auto.
  - unfold erase_t. cbn [entries lf_num lf_den group_count reloc_count reloc_coll insert_coll].
    f_equal. f_equal. unfold erase_es. rewrite map_set_nth. simpl.
    symmetry. apply set_nth_same. rewrite nth_error_map, E. reflexivity.
  - unfold erase_t. cbn [entries lf_num lf_den group_count reloc_count reloc_coll insert_coll].
    f_equal. f_equal. unfold erase_es. rewrite map_set_nth. reflexivity.
Qed.

Lemma insert_all_erase ids : forall t,
  insert_all eqb hash false (erase_t t) ids = omap1 erase_t (insert_all eqb hash true t ids).
Proof.
  induction ids as [|i r IH]; intro t; simpl; auto.
  rewrite insert_erase. destruct (insert_entry eqb hash true t i) as [t1| |]; simpl; auto.
Qed.

Lemma group_index_erase ids :
  group_index eqb hash false ids = omap1 erase_t (group_index eqb hash true ids).
Proof.
  unfold group_index. rewrite <- insert_all_erase. f_equal.
  unfold new_table, erase_t. cbn. rewrite erase_repeat. reflexivity.
Qed.

Lemma firsts_erase es : map first (occ (erase_es es)) = map first (occ es).
Proof.
  induction es as [|s es IH]; simpl; auto.
  fold (erase_es es). rewrite !map_app, IH. destruct s; reflexivity.
Qed.

Lemma heads_members (L : list (entry A)) :
  (forall e, In e L -> exists rest, members e = first e :: rest) ->
  heads (map members L) = map first L.
Proof.
  induction L as [|e L IH]; intro H; simpl; auto.
  destruct (H e (or_introl eq_refl)) as (rest & Hm). rewrite Hm. simpl.
  f_equal. apply IH. intros x Hx. apply H. right. exact Hx.
Qed.

(* C05: Distinct returns the first member of every group of GroupBy, in the same (slot) order *)
Theorem distinct_ids_heads (ids : list A) :
  NoDup ids -> per_on eqb ids -> hash_respects eqb hash ids -> N.of_nat (length ids) <= 2 ^ 30 ->
  exists gs, group_ids_gen eqb hash ids = Ok gs /\ partition_ok eqb ids gs /\
             distinct_ids_gen eqb hash ids = Ok (heads gs) /\ distinct_ok eqb ids (heads gs).
Proof.
  intros ND Hper Hhash Hb.
  destruct (group_index_inv ids ND Hper Hhash Hb) as (t & Ht & I).
  pose proof (i_content _ _ _ _ I) as C.
  assert (P : partition_ok eqb ids (map members (occ (entries t)))) by (apply content_partition; auto).
  exists (map members (occ (entries t))).
  unfold group_ids_gen, distinct_ids_gen. rewrite group_index_erase, Ht. cbn [obind omap1].
  split; [reflexivity|]. split; [exact P|]. split.
  - cbn [erase_t entries]. rewrite firsts_erase. f_equal. symmetry. apply heads_members.
    intros e He. destruct (c_ent _ _ _ _ C e He) as (_ & rest & Hm & _). exists rest. exact Hm.
  - apply distinct_of_partition; auto.
Qed.

End Main.
