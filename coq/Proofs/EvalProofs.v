(* Proofs/EvalProofs.v — property C07: decoding keeps the operands in the order written, n-ary Expr folds from the
   left, temporary column names are fresh, Eval on a failed frame does nothing. *)
From QF Require Import Base.Prelude Model.Frame Model.Filter Model.Ops Model.Eval.
Local Open Scope nat_scope.

(* column-constant expressions remember on which side the constant was written *)
Lemma decode_col_const op c k : new_expr (EList [EStr op; EColName c; EConst k]) = XColConst op c k false.
Proof. reflexivity. Qed.
Lemma decode_const_col op c k : new_expr (EList [EStr op; EConst k; EColName c]) = XColConst op c k true.
Proof. reflexivity. Qed.
Lemma decode_col_col op c1 c2 : new_expr (EList [EStr op; EColName c1; EColName c2]) = XColCol op c1 c2.
Proof. reflexivity. Qed.
Lemma decode_unary op c : new_expr (EList [EStr op; EColName c]) = XUnary op c.
Proof. reflexivity. Qed.

(* Expr(name, a, b, c, ...) = Expr(name, Expr(name, a, b), c, ...) *)
Lemma expr_call_fold name a b c rest :
  expr_call name (a :: b :: c :: rest)
  = expr_call name (EBuilt (expr_call name [a; b]) :: c :: rest).
Proof. reflexivity. Qed.

Lemma expr_call_zero name : expr_call name [] = XError.
Proof. reflexivity. Qed.

(* a malformed list (no operation identifier in front, wrong length, an argument of an unknown kind) decodes to the
   error expression, which Eval reports through Err *)
Lemma decode_bad_op x y : new_expr (EList [EColName x; y]) = XError.
Proof. destruct y; reflexivity. Qed.
Lemma decode_bad_len : new_expr (EList []) = XError /\ forall a, new_expr (EList [a]) = XError.
Proof. split; [reflexivity|intro a; reflexivity]. Qed.

Lemma exec_error ut cx f : ferr f = false -> execute ut cx XError f = Ok (with_err f, []).
Proof. intro H. simpl. rewrite H. reflexivity. Qed.

(* the temporary name chosen for an intermediate column is not a column of the current frame *)
Lemma temp_go_fresh f prefix : forall k i name,
  (fix go (k : nat) (i : nat) : outcome bytes :=
     match k with
     | O => Panic
     | S k' => let name := prefix ++ temp_suffix ++ itoa i in
               if contains f name then go k' (S i) else Ok name
     end) k i = Ok name -> contains f name = false.
Proof.
  induction k as [|k IH]; intros i name H; [discriminate|].
  cbv zeta in H. destruct (contains f (prefix ++ temp_suffix ++ itoa i)) eqn:E.
  - exact (IH (S i) name H).
  - inversion H; subst. exact E.
Qed.

Theorem temp_fresh f prefix name : temp_col_name f prefix = Ok name -> contains f name = false.
Proof. unfold temp_col_name. apply temp_go_fresh. Qed.

Theorem eval_sticky ut cx f dst e : ferr f = true -> eval ut cx f dst e = Ok f.
Proof. intro H. unfold eval. rewrite H. reflexivity. Qed.
