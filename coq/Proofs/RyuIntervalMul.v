(* Proofs/RyuIntervalMul.v — stage 1 of the correctness of float64ToDecimal: what the fixed-point
   multiplications mulShift64 m (table entry) shift compute, for all 2047 biased exponents and every
   1 <= m <= mp_max = 4 (2^53 - 1) + 2.

   With e2 the binary exponent, q the number of decimal digits dropped, (A, B) = (2^(e2-q), 5^q) for
   e2 >= 0 and (5^(-e2-q), 2^q) for e2 < 0, the exact scaled value of m is m * A / B (a rational) and the
   code wants its floor.  RESULT: mulShift64 returns floor (m * A / B) for every exponent and every m with
   exactly TWO exceptions (found by lattice enumeration outside Coq, confirmed and shown to be the only ones
   here):   exp = 472,  m = 28933731341339864 (= 4 * 7233432835334966): the result is one too small;
            exp = 1797, m = 33542060588139028 (= 4 * 8385515147034757): the result is one too large.
   (121/122-bit table entries are one or two bits short of what exactness needs; upstream Ryu later moved
   to 125 bits.)  Both m are values of mv only, so vr is off by one in the last digit for these two floats
   (and their negatives); the final digits are still right, see Proofs/RyuInterval.v.

   Method: floor (m n1 / d1) = floor (m n2 / d2) for all m <= X iff no fraction y/m, m <= X, lies in
   (n1/d1, n2/d2]; the verified checker of Proofs/RyuIntervalFrac.v is run for every exponent. *)
From QF Require Import Base.Prelude Gen.GenConsts Gen.GenRyu Model.Ryu.
From QF Require Import Proofs.RyuTables Proofs.RyuArith Proofs.RyuAppendF Proofs.RyuExactInt Proofs.RyuNoPanic
                       Proofs.RyuShortest Proofs.RyuIntervalFrac.
Local Open Scope N_scope.

(* the binary exponent of the biased exponent [exp] (value = m2 * 2^(e2+2)) *)
Definition e2_of (exp : N) : Z := (Z.of_N (if (exp =? 0)%N then 1%N else exp) - 1077)%Z.

(* the exact scale A / B of step 3: vr = floor (mv * A / B) is what the algorithm wants *)
Definition ratio (pl : plan) (e2 : Z) : N * N :=
  if p_pos pl then (2 ^ (Z.to_N e2 - p_q pl), 5 ^ p_q pl)
  else (5 ^ (Z.to_N (- e2) - p_q pl), 2 ^ p_q pl).

(* the same through the power table and shifts, for evaluation *)
Definition ratio_c (pl : plan) (e2 : Z) : N * N :=
  if p_pos pl then (N.shiftl 1 (Z.to_N e2 - p_q pl), pow5N (p_q pl))
  else (pow5N (Z.to_N (- e2) - p_q pl), N.shiftl 1 (p_q pl)).

Lemma ratio_c_eq pl e2 : ratio_c pl e2 = ratio pl e2.
Proof.
  unfold ratio_c, ratio. destruct (p_pos pl); rewrite pow5N_spec, N.shiftl_1_l; reflexivity.
Qed.

Definition frac_fuel : nat := 120.

(* ordered pair of fractions (lo, hi) out of A/B and mul/2^shift *)
Definition bounds_of (pl : plan) (e2 : Z) : (N * N) * (N * N) :=
  let '(A, B) := ratio_c pl e2 in
  let mul := val128 (p_mul pl) in
  let D := N.shiftl 1 (Z.to_N (p_sh pl)) in
  if A * D <=? mul * B then ((A, B), (mul, D)) else ((mul, D), (A, B)).

Definition exp_exact_b (exp : N) : bool :=
  match plan_of exp with
  | Ok pl =>
      let '(lo, hi) := bounds_of pl (e2_of exp) in
      let '(n1, d1) := widen_lo lo in let '(n2, d2) := widen_hi hi in
      nofrac frac_fuel true n1 d1 n2 d2 mp_max
  | _ => false
  end.

(* the two exceptional exponents: one fraction ys/xs is inside the interval *)
Definition exp_except_b (exp xs ys : N) : bool :=
  match plan_of exp with
  | Ok pl =>
      let '(lo, hi) := bounds_of pl (e2_of exp) in
      let '(n1, d1) := widen_lo lo in let '(n2, d2) := widen_hi hi in
      nofrac frac_fuel false n1 d1 ys xs mp_max && nofrac frac_fuel true ys xs n2 d2 mp_max && (0 <? xs)
      && (N.gcd xs ys =? 1) && (mp_max <? 2 * xs)
  | _ => false
  end.

Definition exc_x1 : N := 28933731341339864.
Definition exc_y1 : N := 2178999185345151731.
Definition exc_x2 : N := 33542060588139028.
Definition exc_y2 : N := 1850063423920730049.

Definition exp_mul_ok (exp : N) : bool :=
  if exp =? 472 then exp_except_b exp exc_x1 exc_y1
  else if exp =? 1797 then exp_except_b exp exc_x2 exc_y2
  else exp_exact_b exp.

Lemma all_exp_mul_ok : forallb exp_mul_ok (map N.of_nat (seq 0 2047)) = true.
Proof. vm_cast_no_check (eq_refl true). Qed.

Definition mul_exception (exp x : N) : bool :=
  ((exp =? 472) && (x =? exc_x1)) || ((exp =? 1797) && (x =? exc_x2)).

Lemma bounds_of_spec pl e2 n1 d1 n2 d2 :
  bounds_of pl e2 = ((n1, d1), (n2, d2)) ->
  let A := fst (ratio pl e2) in let B := snd (ratio pl e2) in
  let mul := val128 (p_mul pl) in let D := 2 ^ Z.to_N (p_sh pl) in
  n1 * d2 <= n2 * d1 /\
  ((n1 = A /\ d1 = B /\ n2 = mul /\ d2 = D) \/ (n1 = mul /\ d1 = D /\ n2 = A /\ d2 = B)).
Proof.
  unfold bounds_of. rewrite ratio_c_eq, N.shiftl_1_l.
  destruct (ratio pl e2) as [A B]. cbn [fst snd].
  destruct (A * 2 ^ Z.to_N (p_sh pl) <=? val128 (p_mul pl) * B) eqn:E; intro H; inversion H; subst; clear H.
  - apply N.leb_le in E. split; [exact E|]. left. auto.
  - apply N.leb_gt in E. split; [lia|]. right. auto.
Qed.

Lemma ratio_pos pl e2 : 0 < fst (ratio pl e2) /\ 0 < snd (ratio pl e2).
Proof.
  unfold ratio. destruct (p_pos pl); cbn [fst snd]; split;
    (assert (forall b n : N, b <> 0 -> 0 < b ^ n) as P by (intros b n Hb; pose proof (N.pow_nonzero b n Hb); lia);
     apply P; lia).
Qed.

(* Stage 1.  For every biased exponent of a finite float and every 1 <= x <= mp_max: the fixed-point product
   F pl x = floor (x * mul / 2^shift) (which is what mulShift64 returns, Proofs/RyuNoPanic.v mulShift64_F)
   equals floor (x * A / B) — except at the two listed (exp, x). *)
Theorem mulshift_exact (exp : N) (pl : plan) (x : N) :
  exp <= 2046 -> plan_of exp = Ok pl -> 1 <= x <= mp_max -> mul_exception exp x = false ->
  F pl x = x * fst (ratio pl (e2_of exp)) / snd (ratio pl (e2_of exp)).
Proof.
  intros He EP Hx Hexc.
  pose proof all_exp_mul_ok as G. rewrite forallb_forall in G.
  assert (IN : In exp (map N.of_nat (seq 0 2047))).
  { apply in_map_iff. exists (N.to_nat exp). split; [lia|]. apply in_seq. lia. }
  specialize (G exp IN). unfold exp_mul_ok in G.
  rewrite F_div.
  pose proof (ratio_pos pl (e2_of exp)) as [PA PB].
  assert (PD : 0 < 2 ^ Z.to_N (p_sh pl)).
  { pose proof (N.pow_nonzero 2 (Z.to_N (p_sh pl)) ltac:(lia)). lia. }
  assert (EXC : forall xs ys, exp_except_b exp xs ys = true -> x <> xs ->
                x * val128 (p_mul pl) / 2 ^ Z.to_N (p_sh pl)
                = x * fst (ratio pl (e2_of exp)) / snd (ratio pl (e2_of exp))).
  { intros xs ys GE Hne. unfold exp_except_b in GE. rewrite EP in GE.
    destruct (bounds_of pl (e2_of exp)) as [[n1 d1] [n2 d2]] eqn:EB.
    apply bounds_of_spec in EB. cbv zeta in EB. destruct EB as [Hle Hcases].
    assert (P1 : 0 < d1 /\ 0 < d2) by (destruct Hcases as [(-> & -> & -> & ->)|(-> & -> & -> & ->)]; split; assumption).
    destruct P1 as [P1 P2].
    pose proof (widen_lo_spec n1 d1 P1) as [WL1 WL2]. pose proof (widen_hi_spec n2 d2 P2) as [WH1 WH2].
    destruct (widen_lo (n1, d1)) as [n1' d1']. destruct (widen_hi (n2, d2)) as [n2' d2']. cbn [fst snd] in *.
    repeat (apply andb_true_iff in GE as [GE ?]).
    match goal with H : (N.gcd _ _ =? 1) = true |- _ => apply N.eqb_eq in H; rename H into GC end.
    match goal with H : (mp_max <? _) = true |- _ => apply N.ltb_lt in H; rename H into HX end.
    match goal with H : (0 <? xs) = true |- _ => apply N.ltb_lt in H; rename H into Hxs end.
    match goal with H : nofrac _ true _ _ _ _ _ = true |- _ => apply nofrac_sound in H; rename H into NR end.
    apply nofrac_sound in GE. cbv iota in GE, NR.
    assert (NL0 : NFL n1 d1 ys xs mp_max).
    { apply (NFL_mono n1 d1 ys xs n1' d1' ys xs); try assumption; lia. }
    assert (NR0 : NFR ys xs n2 d2 mp_max).
    { apply (NFR_mono ys xs n2 d2 ys xs n2' d2'); try assumption; lia. }
    destruct Hcases as [(-> & -> & -> & ->)|(-> & -> & -> & ->)].
    - symmetry. apply (floor_eq_except _ _ _ _ mp_max xs ys); assumption.
    - apply (floor_eq_except _ _ _ _ mp_max xs ys); assumption. }
  unfold mul_exception in Hexc.
  destruct (exp =? 472) eqn:E1.
  { cbn [andb orb] in Hexc. apply (EXC _ _ G).
    destruct (exp =? 1797) eqn:E2; [apply N.eqb_eq in E1, E2; lia|].
    cbn [andb orb] in Hexc. rewrite orb_false_r in Hexc. apply N.eqb_neq in Hexc. exact Hexc. }
  destruct (exp =? 1797) eqn:E2.
  { cbn [andb orb] in Hexc. apply N.eqb_neq in Hexc. apply (EXC _ _ G). exact Hexc. }
  unfold exp_exact_b in G. rewrite EP in G.
  destruct (bounds_of pl (e2_of exp)) as [[n1 d1] [n2 d2]] eqn:EB.
  apply bounds_of_spec in EB. cbv zeta in EB. destruct EB as [Hle Hcases].
  assert (P1 : 0 < d1 /\ 0 < d2) by (destruct Hcases as [(-> & -> & -> & ->)|(-> & -> & -> & ->)]; split; assumption).
  destruct P1 as [P1 P2].
  pose proof (widen_lo_spec n1 d1 P1) as [WL1 WL2]. pose proof (widen_hi_spec n2 d2 P2) as [WH1 WH2].
  destruct (widen_lo (n1, d1)) as [n1' d1']. destruct (widen_hi (n2, d2)) as [n2' d2']. cbn [fst snd] in *.
  apply nofrac_sound in G. cbv iota in G.
  apply (NFR_mono n1 d1 n2 d2 n1' d1' n2' d2') in G; try assumption.
  destruct Hcases as [(-> & -> & -> & ->)|(-> & -> & -> & ->)].
  - symmetry. apply (floor_eq _ _ _ _ mp_max); assumption.
  - apply (floor_eq _ _ _ _ mp_max); assumption.
Qed.

(* the two exceptions are real: the product is off by one there *)
Lemma mulshift_exception_1 :
  match plan_of 472 with
  | Ok pl => F pl exc_x1 + 1 = exc_x1 * fst (ratio_c pl (e2_of 472)) / snd (ratio_c pl (e2_of 472))
  | _ => False
  end.
Proof. vm_compute. reflexivity. Qed.

Lemma mulshift_exception_2 :
  match plan_of 1797 with
  | Ok pl => F pl exc_x2 = exc_x2 * fst (ratio_c pl (e2_of 1797)) / snd (ratio_c pl (e2_of 1797)) + 1
  | _ => False
  end.
Proof. vm_compute. reflexivity. Qed.

(* in terms of the model function *)
Corollary mulShift64_exact (exp : N) (pl : plan) (x : N) :
  exp <= 2046 -> plan_of exp = Ok pl -> 1 <= x <= mp_max -> mul_exception exp x = false ->
  mulShift64 x (p_mul pl) (p_sh pl)
  = Ok (x * fst (ratio pl (e2_of exp)) / snd (ratio pl (e2_of exp))).
Proof.
  intros He EP Hx Hexc.
  destruct (ryu_indices_ok exp He) as (pl' & EP' & G & _). rewrite EP in EP'. inversion EP'; subst pl'.
  rewrite mulShift64_F by (assumption || lia).
  f_equal. apply (mulshift_exact exp); assumption.
Qed.

Theorem mulShift64_off_by_one :
  (exists pl, plan_of 472 = Ok pl /\
     mulShift64 28933731341339864 (p_mul pl) (p_sh pl) = Ok 2178999185345151730 /\
     28933731341339864 * fst (ratio pl (e2_of 472)) / snd (ratio pl (e2_of 472)) = 2178999185345151731) /\
  (exists pl, plan_of 1797 = Ok pl /\
     mulShift64 33542060588139028 (p_mul pl) (p_sh pl) = Ok 1850063423920730049 /\
     33542060588139028 * fst (ratio pl (e2_of 1797)) / snd (ratio pl (e2_of 1797)) = 1850063423920730048).
Proof.
  split.
  - destruct (plan_of 472) as [pl| |] eqn:E; try (vm_compute in E; discriminate).
    exists pl. split; [reflexivity|]. rewrite <- ratio_c_eq.
    assert (E' : Ok pl = plan_of 472) by (symmetry; exact E). vm_compute in E'. inversion E'; subst pl.
    vm_compute. split; reflexivity.
  - destruct (plan_of 1797) as [pl| |] eqn:E; try (vm_compute in E; discriminate).
    exists pl. split; [reflexivity|]. rewrite <- ratio_c_eq.
    assert (E' : Ok pl = plan_of 1797) by (symmetry; exact E). vm_compute in E'. inversion E'; subst pl.
    vm_compute. split; reflexivity.
Qed.
