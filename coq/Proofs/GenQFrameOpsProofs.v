(* Proofs/GenQFrameOpsProofs.v — tie T1 for the frame-level operations of qframe.go.
   Gen/GenQFrameOps.v is the Go text of qframe.go (withErr, withIndex, Contains, Len, ColumnNames, checkColumns,
   Select, Drop, Slice, setColumn, Copy, constCount, createColumn, New, apply0, apply1, apply2, Apply, WithRowNums,
   FilteredApply, Sort, Equals, Eval, ColumnTypes, ColumnTypeMap) and of internal/strings/set.go rendered statement by statement by tools/qf2coq/qframeops.go.  Here
   every generated definition is proved equal, through the representation relation [rep], to the hand-written model
   function of Model/Frame.v / Model/Ops.v.

   The representation relation.  The Go frame is the record (columns : slice of namedColumn{Column, name, pos},
   columnsByName : map name -> namedColumn, index, Err); the model frame is (cols : list (name, column), ix, ferr)
   and READS the by-name map as "a name resolves to the LAST column of the slice with that name, at that position"
   (Frame.lookup).  [rep q f] says exactly that:
     - the slice is the model's list, entry i carrying pos = i               (columns q = ncols_from 0 (cols f))
     - the index is the model's index, Err is set iff the flag is
     - the map has no repeated key (it is a Go map) and for EVERY name n
         columnsByName[n] = namedColumn{Column: c, name: n, pos: p}  when lookup f n = Some (p, c),
         and n is absent from the map when lookup f n = None.
   A frame with a repeated name (Select("a", "a")) is represented: the map entry is the one written last.

   There is no fuel: every loop of these functions ranges over a slice or a map.  Where Go leaves the iteration
   order of a map open (the copy loop of setColumn, the three ranges of New) the generated function takes the order
   as an argument [ord : forall V, gq_map V -> gq_map V] and the theorem holds for every [ord] answering a
   permutation.  The abstraction boundaries (column constructors and methods, NewConfig, sort.Strings, Filter) are
   stated at the head of the sections NewRep, ApplyRep, SortRep, EqualsRep and EvalRep. *)
From Coq Require Import Permutation.
From QF Require Import Base.Prelude Gen.GenFuncs Gen.GenQFrameOps.
From QF Require Import Model.Frame Model.Filter Model.Ops Proofs.GenFuncsProofs.
Local Open Scope Z_scope.

(* ------------------------------------------------------------------ byte strings *)

Lemma bytes_eqb_sym a b : bytes_eqb a b = bytes_eqb b a.
Proof.
  destruct (bytes_eqb a b) eqn:E1; destruct (bytes_eqb b a) eqn:E2; try reflexivity.
  - apply bytes_eqb_spec in E1. subst. rewrite bytes_eqb_refl in E2. discriminate.
  - apply bytes_eqb_spec in E2. subst. rewrite bytes_eqb_refl in E1. discriminate.
Qed.

Lemma bytes_eqb_neq a b : a <> b -> bytes_eqb a b = false.
Proof.
  intro H. destruct (bytes_eqb a b) eqn:E1; [|reflexivity]. apply bytes_eqb_spec in E1. contradiction.
Qed.

Lemma bytes_eqb_false a b : bytes_eqb a b = false -> a <> b.
Proof. intros H Heq. subst. rewrite bytes_eqb_refl in H. discriminate. Qed.

Lemma existsb_bytes_In x l : existsb (bytes_eqb x) l = true <-> In x l.
Proof.
  rewrite existsb_exists. split.
  - intros [y [Hin Hy]]. apply bytes_eqb_spec in Hy. subst. exact Hin.
  - intro Hin. exists x. split; [exact Hin|apply bytes_eqb_refl].
Qed.

Lemma NoDup_app_snoc {T} (l : list T) x : NoDup l -> ~ In x l -> NoDup (l ++ [x]).
Proof.
  intros Hnd Hn. induction l as [|y l IH]; cbn [app].
  - constructor; [intros []|constructor].
  - inversion Hnd as [|? ? Hy Hnd']; subst. constructor.
    + rewrite in_app_iff. intros [H|[H|[]]]; [exact (Hy H)|]. subst. apply Hn. left. reflexivity.
    + apply IH; [exact Hnd'|]. intro H. apply Hn. right. exact H.
Qed.

(* ------------------------------------------------------------------ Go maps as association lists *)

Section Maps.
Context {V : Type}.
Implicit Types (m : gq_map V) (k n : bytes) (v : V).

Lemma gq_mget_notin m k : ~ In k (map fst m) -> gq_mget m k = None.
Proof.
  induction m as [|[k' v'] r IH]; intro H; [reflexivity|]. cbn [gq_mget].
  rewrite bytes_eqb_neq by (intro Heq; apply H; left; exact Heq).
  apply IH. intro Hin. apply H. right. exact Hin.
Qed.

Lemma gq_mget_in m k v : gq_mget m k = Some v -> In k (map fst m).
Proof.
  induction m as [|[k' v'] r IH]; cbn [gq_mget]; [discriminate|].
  destruct (bytes_eqb k' k) eqn:Ek; intro H.
  - left. apply bytes_eqb_spec. exact Ek.
  - right. apply IH. exact H.
Qed.

Lemma gq_mset_notin m k v : ~ In k (map fst m) -> gq_mset m k v = m ++ [(k, v)].
Proof.
  induction m as [|[k' v'] r IH]; intro H; [reflexivity|]. cbn [gq_mset].
  rewrite bytes_eqb_neq by (intro Heq; apply H; left; exact Heq).
  cbn [app]. f_equal. apply IH. intro Hin. apply H. right. exact Hin.
Qed.

Lemma gq_mget_mset m k v n : gq_mget (gq_mset m k v) n = if bytes_eqb k n then Some v else gq_mget m n.
Proof.
  induction m as [|[k' v'] r IH]; cbn [gq_mset gq_mget].
  - destruct (bytes_eqb k n); reflexivity.
  - destruct (bytes_eqb k' k) eqn:Ek; cbn [gq_mget].
    + apply bytes_eqb_spec in Ek. subst k'. destruct (bytes_eqb k n); reflexivity.
    + destruct (bytes_eqb k' n) eqn:En.
      * apply bytes_eqb_spec in En. subst k'. rewrite bytes_eqb_sym, Ek. reflexivity.
      * exact IH.
Qed.

Lemma gq_mset_keys m k v :
  map fst (gq_mset m k v) = if existsb (bytes_eqb k) (map fst m) then map fst m else map fst m ++ [k].
Proof.
  induction m as [|[k' v'] r IH]; [reflexivity|]. cbn [gq_mset map fst existsb].
  rewrite (bytes_eqb_sym k k'). destruct (bytes_eqb k' k) eqn:Ek; cbn [orb map fst]; [reflexivity|].
  rewrite IH. destruct (existsb (bytes_eqb k) (map fst r)); reflexivity.
Qed.

Lemma gq_mset_nodup m k v : NoDup (map fst m) -> NoDup (map fst (gq_mset m k v)).
Proof.
  intro H. rewrite gq_mset_keys. destruct (existsb (bytes_eqb k) (map fst m)) eqn:Ex; [exact H|].
  assert (Hn : ~ In k (map fst m)).
  { intro Hin. apply existsb_bytes_In in Hin. rewrite Hin in Ex. discriminate. }
  apply NoDup_app_snoc; assumption.
Qed.

Lemma gq_mget_perm m m' k : NoDup (map fst m) -> Permutation m' m -> gq_mget m' k = gq_mget m k.
Proof.
  intros Hnd Hp. revert Hnd. induction Hp as [|[k1 v1] l l' Hp IH|[k1 v1] [k2 v2] l|l l' l'' Hp1 IH1 Hp2 IH2]; intro Hnd.
  - reflexivity.
  - cbn [gq_mget]. cbn [map fst] in Hnd. inversion Hnd as [|? ? Hnot Hnd']; subst.
    rewrite IH by exact Hnd'. reflexivity.
  - cbn [gq_mget]. cbn [map fst] in Hnd. inversion Hnd as [|? ? Hnot Hnd']; subst.
    destruct (bytes_eqb k1 k) eqn:E1; destruct (bytes_eqb k2 k) eqn:E2; try reflexivity.
    apply bytes_eqb_spec in E1, E2. subst. exfalso. apply Hnot. left. reflexivity.
  - rewrite IH1, IH2; [reflexivity|exact Hnd|].
    apply (Permutation_NoDup (l := map fst l'')); [|exact Hnd].
    apply Permutation_map. apply Permutation_sym. exact Hp2.
Qed.

End Maps.


(* ------------------------------------------------------------------ slices *)

Lemma gq_make_nat {T} (z : T) (n : nat) : gq_make z (Z.of_nat n) (Z.of_nat n) = Ok (repeat z n).
Proof.
  unfold gq_make. destruct (Z.of_nat n <? 0) eqn:E1; [lia|].
  rewrite Z.ltb_irrefl. cbn [orb]. rewrite Nat2Z.id. reflexivity.
Qed.

(* result[i] = v in a loop that fills a made slice from the left *)
Lemma gq_update_fill {T} (z v : T) (pre : list T) (k : nat) :
  gq_update (pre ++ repeat z (S k)) (Z.of_nat (length pre)) v = Ok ((pre ++ [v]) ++ repeat z k).
Proof.
  unfold gq_update. destruct (Z.of_nat (length pre) <? 0) eqn:E1; [lia|]. rewrite Nat2Z.id.
  unfold idx. rewrite nth_error_app2 by lia. rewrite Nat.sub_diag. cbn [repeat nth_error of_option obind].
  f_equal. clear E1. induction pre as [|x pre IH]; cbn [app length set_nth]; [reflexivity|]. f_equal. exact IH.
Qed.

Lemma gq_update_nat {T} (s : list T) (i : nat) (v : T) :
  (i < length s)%nat -> gq_update s (Z.of_nat i) v = Ok (set_nth s i v).
Proof.
  intro H. unfold gq_update. destruct (Z.of_nat i <? 0) eqn:E1; [lia|]. rewrite Nat2Z.id.
  unfold idx. destruct (nth_error s i) eqn:En; [reflexivity|]. apply nth_error_None in En. lia.
Qed.

Lemma set_nth_app_last {T} (s : list T) (z v : T) : set_nth (s ++ [z]) (length s) v = s ++ [v].
Proof. induction s as [|x s IH]; cbn [app length set_nth]; [reflexivity|]. f_equal. exact IH. Qed.

Lemma gq_copy_same {T} (z : T) (s : list T) : gq_copy (repeat z (length s)) s = s.
Proof.
  unfold gq_copy. rewrite repeat_length, firstn_all, skipn_all2 by (rewrite repeat_length; lia).
  apply app_nil_r.
Qed.

Lemma gq_copy_grow {T} (z : T) (s : list T) : gq_copy (repeat z (S (length s))) s = s ++ [z].
Proof.
  unfold gq_copy. rewrite repeat_length. rewrite firstn_all2 by lia. f_equal.
  replace (S (length s)) with (length s + 1)%nat by lia. rewrite repeat_app.
  rewrite skipn_app, repeat_length, Nat.sub_diag. rewrite skipn_all2 by (rewrite repeat_length; lia). reflexivity.
Qed.

(* ------------------------------------------------------------------ the model's reading of the by-name map *)

(* lookup, recursing from the head: the LAST column called n, and its position *)
Fixpoint lookup_r (n : bytes) (cs : list (bytes * coldata)) (pos : nat) : option (nat * coldata) :=
  match cs with
  | [] => None
  | (m, c) :: r =>
      match lookup_r n r (S pos) with
      | Some x => Some x
      | None => if bytes_eqb m n then Some (pos, c) else None
      end
  end.

Lemma lookup_from_r n : forall cs pos acc,
  lookup_from n cs pos acc = match lookup_r n cs pos with Some x => Some x | None => acc end.
Proof.
  induction cs as [|[m c] r IH]; intros pos acc; cbn [lookup_from lookup_r]; [reflexivity|].
  rewrite IH. destruct (lookup_r n r (S pos)); [reflexivity|]. destruct (bytes_eqb m n); reflexivity.
Qed.

Lemma lookup_is_r f n : lookup f n = lookup_r n (cols f) 0.
Proof. unfold lookup. rewrite lookup_from_r. destruct (lookup_r n (cols f) 0); reflexivity. Qed.

Lemma lookup_r_range n : forall cs pos q c,
  lookup_r n cs pos = Some (q, c) -> (pos <= q < pos + length cs)%nat.
Proof.
  induction cs as [|[m c0] r IH]; intros pos q c H; cbn [lookup_r] in H; [discriminate|]. cbn [length].
  destruct (lookup_r n r (S pos)) as [[q' c']|] eqn:Er.
  - inversion H; subst. apply IH in Er. lia.
  - destruct (bytes_eqb m n); [|discriminate]. inversion H; subst. lia.
Qed.

Lemma lookup_r_snoc n m c : forall cs pos,
  lookup_r n (cs ++ [(m, c)]) pos = if bytes_eqb m n then Some ((pos + length cs)%nat, c) else lookup_r n cs pos.
Proof.
  induction cs as [|[m0 c0] r IH]; intro pos; cbn [app lookup_r length].
  - rewrite Nat.add_0_r. destruct (bytes_eqb m n); reflexivity.
  - rewrite IH. destruct (bytes_eqb m n); [f_equal; f_equal; lia|]. reflexivity.
Qed.

(* the column the map points to is replaced in place *)
Lemma lookup_r_set_nth name c n : forall cs pos p c0,
  lookup_r name cs pos = Some ((pos + p)%nat, c0) ->
  lookup_r n (set_nth cs p (name, c)) pos
  = if bytes_eqb name n then Some ((pos + p)%nat, c) else lookup_r n cs pos.
Proof.
  induction cs as [|[m c1] r IH]; intros pos p c0 H; cbn [lookup_r] in H; [discriminate|].
  destruct p as [|p]; cbn [set_nth lookup_r].
  - rewrite Nat.add_0_r in *.
    destruct (lookup_r name r (S pos)) as [[q' c']|] eqn:Er.
    { inversion H; subst. apply lookup_r_range in Er. lia. }
    destruct (bytes_eqb m name) eqn:Em; [|discriminate]. apply bytes_eqb_spec in Em. subst m.
    destruct (bytes_eqb name n) eqn:En.
    + apply bytes_eqb_spec in En. subst n. rewrite Er. reflexivity.
    + reflexivity.
  - destruct (lookup_r name r (S pos)) as [[q' c']|] eqn:Er.
    + inversion H; subst. replace (pos + S p)%nat with (S pos + p)%nat in * by lia.
      rewrite (IH (S pos) p c0 Er).
      destruct (bytes_eqb name n) eqn:En; [reflexivity|].
      reflexivity.
    + destruct (bytes_eqb m name); [|discriminate]. inversion H. lia.
Qed.

(* ------------------------------------------------------------------ the representation relation *)

Section Rep.
Context {E : Type}.
Notation gframe := (gq_QFrame nat E coldata).
Notation gncol := (gq_namedColumn coldata).

Fixpoint ncols_from (pos : nat) (cs : list (bytes * coldata)) : list gncol :=
  match cs with
  | [] => []
  | (n, c) :: r => gq_mk_namedColumn c n (Z.of_nat pos) :: ncols_from (S pos) r
  end.

Definition entry_of (n : bytes) (pc : nat * coldata) : gncol := gq_mk_namedColumn (snd pc) n (Z.of_nat (fst pc)).

Definition rep (q : gframe) (f : frame) : Prop :=
  gq_QFrame_columns q = ncols_from 0 (cols f)
  /\ gq_QFrame_index q = ix f
  /\ negb (gq_isnil (gq_QFrame_Err q)) = ferr f
  /\ NoDup (map fst (gq_QFrame_columnsByName q))
  /\ forall n, gq_mget (gq_QFrame_columnsByName q) n = option_map (entry_of n) (lookup f n).

(* the abstraction function: rep q f determines f *)
Definition absq (q : gframe) : frame :=
  mkFrame (map (fun nc => (gq_namedColumn_name nc, gq_namedColumn_Column nc)) (gq_QFrame_columns q))
          (gq_QFrame_index q) (negb (gq_isnil (gq_QFrame_Err q))).

Lemma ncols_from_length : forall cs pos, length (ncols_from pos cs) = length cs.
Proof. induction cs as [|[n c] r IH]; intro pos; cbn [ncols_from length]; [reflexivity|]. rewrite IH. reflexivity. Qed.

Lemma ncols_from_app : forall a b pos, ncols_from pos (a ++ b) = ncols_from pos a ++ ncols_from (pos + length a) b.
Proof.
  induction a as [|[n c] r IH]; intros b pos; cbn [app ncols_from length].
  - rewrite Nat.add_0_r. reflexivity.
  - rewrite IH. do 3 f_equal. lia.
Qed.

Lemma ncols_from_set_nth n c : forall cs pos p, (p < length cs)%nat ->
  set_nth (ncols_from pos cs) p (gq_mk_namedColumn c n (Z.of_nat (pos + p))) = ncols_from pos (set_nth cs p (n, c)).
Proof.
  induction cs as [|[m c0] r IH]; intros pos p H; cbn [length] in H; [lia|].
  destruct p as [|p]; cbn [ncols_from set_nth].
  - rewrite Nat.add_0_r. reflexivity.
  - f_equal. replace (pos + S p)%nat with (S pos + p)%nat by lia. apply IH. lia.
Qed.

Lemma ncols_from_names : forall cs pos,
  map (fun nc : gncol => (gq_namedColumn_name nc, gq_namedColumn_Column nc)) (ncols_from pos cs) = cs.
Proof. induction cs as [|[n c] r IH]; intro pos; cbn [ncols_from map]; [reflexivity|]. rewrite IH. reflexivity. Qed.

Lemma rep_absq q f : rep q f -> absq q = f.
Proof.
  intros (Hc & Hi & He & _). unfold absq. rewrite Hc, Hi, He, ncols_from_names. destruct f; reflexivity.
Qed.

Lemma rep_mhas q f n : rep q f -> gq_mhas (gq_QFrame_columnsByName q) n = contains f n.
Proof.
  intros (_ & _ & _ & _ & Hm). unfold gq_mhas, contains. rewrite Hm. destruct (lookup f n); reflexivity.
Qed.

Lemma rep_mget_or q f n z p c : rep q f -> lookup f n = Some (p, c) ->
  gq_mget_or z (gq_QFrame_columnsByName q) n = gq_mk_namedColumn c n (Z.of_nat p).
Proof. intros (_ & _ & _ & _ & Hm) Hl. unfold gq_mget_or. rewrite Hm, Hl. reflexivity. Qed.

Lemma lookup_pos_lt f n p c : lookup f n = Some (p, c) -> (p < length (cols f))%nat.
Proof. rewrite lookup_is_r. intro H. apply lookup_r_range in H. lia. Qed.

(* ------------------------------------------------------------------ withErr, withIndex, Contains, Len *)

Lemma gq_withErr_rep q f e : rep q f ->
  exists q', gq_QFrame_withErr q (Some e) = Ok q' /\ rep q' (with_err f).
Proof.
  intros (Hc & Hi & He & Hn & Hm). eexists. split; [reflexivity|].
  unfold rep, with_err. cbn [gq_QFrame_columns gq_QFrame_index gq_QFrame_Err gq_QFrame_columnsByName cols ix ferr gq_isnil negb].
  repeat split; assumption.
Qed.

Lemma gq_withIndex_rep q f i : rep q f ->
  exists q', gq_QFrame_withIndex q i = Ok q' /\ rep q' (with_ix f i).
Proof.
  intros (Hc & Hi & He & Hn & Hm). eexists. split; [reflexivity|].
  unfold rep, with_ix. cbn [gq_QFrame_columns gq_QFrame_index gq_QFrame_Err gq_QFrame_columnsByName cols ix ferr].
  repeat split; assumption.
Qed.

Lemma gq_Contains_eq q f n : rep q f -> gq_QFrame_Contains q n = Ok (contains f n).
Proof. intro H. unfold gq_QFrame_Contains. rewrite (rep_mhas q f n H). reflexivity. Qed.

Lemma gq_Len_eq q f : rep q f -> gq_QFrame_Len q = Ok (frame_len f).
Proof.
  intros (Hc & Hi & He & _). unfold gq_QFrame_Len, frame_len. rewrite He, Hi. destruct (ferr f); reflexivity.
Qed.

(* ------------------------------------------------------------------ ColumnNames *)

Lemma gq_ColumnNames_loop : forall (l : list gncol) (pre : list bytes),
  gq_QFrame_ColumnNames_loop1 l (Z.of_nat (length pre)) (pre ++ repeat (@nil N) (length l))
  = Ok (pre ++ map (fun nc => gq_namedColumn_name nc) l).
Proof.
  induction l as [|nc l IH]; intro pre; cbn [gq_QFrame_ColumnNames_loop1 length map].
  - reflexivity.
  - rewrite gq_update_fill. cbn [obind].
    replace (Z.of_nat (length pre) + 1) with (Z.of_nat (length (pre ++ [gq_namedColumn_name nc])))
      by (rewrite app_length; cbn [length]; lia).
    rewrite IH. rewrite <- app_assoc. reflexivity.
Qed.

Lemma gq_ColumnNames_eq q f : rep q f -> gq_QFrame_ColumnNames q = Ok (col_names f).
Proof.
  intros (Hc & _). unfold gq_QFrame_ColumnNames. rewrite gq_make_nat. cbn [obind].
  pose proof (gq_ColumnNames_loop (gq_QFrame_columns q) []) as H. cbn [length app] in H.
  change (Z.of_nat 0) with 0 in H. rewrite H. cbn [obind]. rewrite Hc. unfold col_names. f_equal.
  generalize (cols f) 0%nat. induction l as [|[n c] r IH]; intro pos; cbn [ncols_from map]; [reflexivity|].
  rewrite IH. reflexivity.
Qed.

(* ------------------------------------------------------------------ checkColumns *)

Variable col_nil : coldata.
Variable new_error : bytes -> bytes -> E.
Variable propagate : bytes -> option E -> E.
Variable checkname_error : bytes -> E.
Variable unknownCol : bytes -> bytes.

Lemma gq_checkColumns_eq q f op names : rep q f ->
  exists r, gq_QFrame_checkColumns new_error unknownCol q op names = Ok r
            /\ gq_isnil r = forallb (contains f) names.
Proof.
  intro H. unfold gq_QFrame_checkColumns.
  induction names as [|x l IH]; cbn [gq_QFrame_checkColumns_loop1 forallb].
  - eexists. split; reflexivity.
  - rewrite (rep_mhas q f x H). destruct (contains f x); cbn [negb andb].
    + exact IH.
    + eexists. split; reflexivity.
Qed.

(* ------------------------------------------------------------------ Select *)

Definition col_of (f : frame) (n : bytes) : coldata :=
  match lookup_col f n with Some c => c | None => col_nil end.
Definition sel (f : frame) (names : list bytes) : list (bytes * coldata) := map (fun n => (n, col_of f n)) names.

Lemma select_cols f names : forallb (contains f) names = true ->
  flat_map (fun n => match lookup_col f n with Some c => [(n, c)] | None => [] end) names = sel f names.
Proof.
  induction names as [|x l IH]; cbn [forallb flat_map sel map]; intro H; [reflexivity|].
  apply andb_true_iff in H. destruct H as [Hx Hl]. rewrite (IH Hl). unfold col_of, contains, lookup_col in *.
  destruct (lookup f x); [reflexivity|discriminate].
Qed.

Notation zero_ncol := (gq_mk_namedColumn col_nil (@nil N) 0 : gncol).

Lemma gq_Select_loop q f : rep q f -> forall l pre M,
  forallb (contains f) l = true ->
  NoDup (map fst M) ->
  (forall n, gq_mget M n = option_map (entry_of n) (lookup_r n (sel f pre) 0)) ->
  exists M' arr',
    gq_QFrame_Select_loop1 col_nil l (Z.of_nat (length pre)) q M (ncols_from 0 (sel f pre) ++ repeat zero_ncol (length l))
    = Ok (M', arr')
    /\ arr' = ncols_from 0 (sel f (pre ++ l))
    /\ NoDup (map fst M')
    /\ forall n, gq_mget M' n = option_map (entry_of n) (lookup_r n (sel f (pre ++ l)) 0).
Proof.
  intro Hrep. induction l as [|x l IH]; intros pre M Hall Hnd Hm; cbn [gq_QFrame_Select_loop1 length].
  - exists M, (ncols_from 0 (sel f pre)). cbn [repeat]. rewrite !app_nil_r. auto.
  - cbn [forallb] in Hall. apply andb_true_iff in Hall. destruct Hall as [Hx Hl].
    unfold contains in Hx. destruct (lookup f x) as [[p c]|] eqn:Elk; [|discriminate].
    rewrite (rep_mget_or q f x _ p c Hrep Elk).
    unfold gq_namedColumn_set_pos. cbn [gq_namedColumn_Column gq_namedColumn_name].
    pose proof (gq_update_fill zero_ncol (gq_mk_namedColumn c x (Z.of_nat (length pre))) (ncols_from 0 (sel f pre)) (length l)) as Hu.
    rewrite ncols_from_length in Hu. unfold sel in Hu at 2. rewrite map_length in Hu.
    rewrite Hu. cbn [obind].
    assert (Hsel : sel f (pre ++ [x]) = sel f pre ++ [(x, c)]).
    { unfold sel. rewrite map_app. cbn [map]. unfold col_of, lookup_col. rewrite Elk. reflexivity. }
    assert (Harr : ncols_from 0 (sel f pre) ++ [gq_mk_namedColumn c x (Z.of_nat (length pre))] = ncols_from 0 (sel f (pre ++ [x]))).
    { rewrite Hsel, ncols_from_app. cbn [ncols_from]. unfold sel. rewrite map_length. reflexivity. }
    rewrite Harr.
    replace (Z.of_nat (length pre) + 1) with (Z.of_nat (length (pre ++ [x]))) by (rewrite app_length; cbn [length]; lia).
    destruct (IH (pre ++ [x]) (gq_mset M x (gq_mk_namedColumn c x (Z.of_nat (length pre)))) Hl) as (M' & arr' & Hrun & Ha & Hnd' & Hm').
    + apply gq_mset_nodup. exact Hnd.
    + intro n. rewrite gq_mget_mset, Hsel, lookup_r_snoc. unfold sel at 1. rewrite map_length. cbn [Nat.add].
      destruct (bytes_eqb x n) eqn:En.
      * apply bytes_eqb_spec in En. subst n. reflexivity.
      * apply Hm.
    + exists M', arr'. rewrite <- app_assoc in Ha, Hm'. cbn [app] in Ha, Hm'. auto.
Qed.

Lemma gq_Select_rep q f names : rep q f ->
  exists q', gq_QFrame_Select col_nil new_error unknownCol q names = Ok q' /\ rep q' (select f names).
Proof.
  intro Hrep. pose proof Hrep as (Hc & Hi & He & Hn & Hm).
  unfold gq_QFrame_Select, select. rewrite He.
  destruct (ferr f) eqn:Ef; [exists q; split; [reflexivity|exact Hrep]|].
  destruct (gq_checkColumns_eq q f (bs 6 0x53656c656374) names Hrep) as (r & Hr & Hnil).
  rewrite Hr. cbn [obind]. rewrite Hnil.
  destruct (forallb (contains f) names) eqn:Hall; cbn [negb].
  2:{ destruct r as [e|]; [|discriminate]. destruct (gq_withErr_rep q f e Hrep) as (q' & Hq & Hrep').
      rewrite Hq. cbn [obind]. exists q'. split; [reflexivity|exact Hrep']. }
  destruct names as [|x names]; cbn [length].
  - change (Z.of_nat 0 =? 0) with true. cbv iota. eexists. split; [reflexivity|].
    unfold rep. cbn. repeat split; try reflexivity. constructor.
  - replace (Z.of_nat (S (length names)) =? 0) with false by lia.
    change (Z.of_nat (S (length names))) with (Z.of_nat (length (x :: names))).
    rewrite gq_make_nat. cbn [obind].
    destruct (gq_Select_loop q f Hrep (x :: names) [] [] Hall) as (M' & arr' & Hrun & Ha & Hnd' & Hm').
    + constructor.
    + intro n. reflexivity.
    + cbn [sel map ncols_from app length] in Hrun. change (Z.of_nat 0) with 0 in Hrun. cbn [length].
      rewrite Hrun. cbn [obind].
      eexists. split; [reflexivity|]. cbn [app] in Ha, Hm'.
      rewrite (select_cols f (x :: names) Hall).
      unfold rep. cbn [gq_QFrame_columns gq_QFrame_index gq_QFrame_Err gq_QFrame_columnsByName cols ix ferr gq_isnil negb].
      repeat split; try assumption; try reflexivity.
      intro n. rewrite Hm'. rewrite lookup_is_r. reflexivity.
Qed.

(* ------------------------------------------------------------------ Drop *)

Lemma gq_mhas_mset {V} (m : gq_map V) k v n : gq_mhas (gq_mset m k v) n = bytes_eqb k n || gq_mhas m n.
Proof. unfold gq_mhas. rewrite gq_mget_mset. destruct (bytes_eqb k n); reflexivity. Qed.

Lemma gq_NewStringSet_loop : forall l S,
  exists S', gq_NewStringSet_loop1 l S = Ok S'
             /\ forall x, gq_mhas S' x = gq_mhas S x || existsb (bytes_eqb x) l.
Proof.
  induction l as [|k l IH]; intro S; cbn [gq_NewStringSet_loop1 existsb].
  - exists S. split; [reflexivity|]. intro x. rewrite orb_false_r. reflexivity.
  - destruct (IH (gq_mset S k tt)) as (S' & Hrun & Hs). exists S'. split; [exact Hrun|].
    intro x. rewrite Hs, gq_mhas_mset, (bytes_eqb_sym k x).
    destruct (bytes_eqb x k), (gq_mhas S x); reflexivity.
Qed.

Lemma gq_NewStringSet_eq l :
  exists S, gq_NewStringSet l = Ok S /\ forall x, gq_mhas S x = existsb (bytes_eqb x) l.
Proof.
  unfold gq_NewStringSet. destruct (gq_NewStringSet_loop l []) as (S' & Hrun & Hs).
  rewrite Hrun. cbn [obind]. exists S'. split; [reflexivity|]. intro x. rewrite Hs. reflexivity.
Qed.

Lemma gq_Drop_loop (S : gq_map unit) (names : list bytes) :
  (forall x, gq_mhas S x = existsb (bytes_eqb x) names) ->
  forall cs pos acc,
  gq_QFrame_Drop_loop1 (ncols_from pos cs) S acc
  = Ok (acc ++ filter (fun n => negb (existsb (bytes_eqb n) names)) (map fst cs)).
Proof.
  intro Hs. induction cs as [|[n c] r IH]; intros pos acc; cbn [ncols_from gq_QFrame_Drop_loop1 map fst filter].
  - rewrite app_nil_r. reflexivity.
  - unfold gq_StringSet_Contains. cbn [obind gq_namedColumn_name]. rewrite Hs.
    destruct (existsb (bytes_eqb n) names); cbn [negb obind].
    + apply IH.
    + rewrite IH. rewrite <- app_assoc. reflexivity.
Qed.

Lemma gq_Drop_rep q f names : rep q f ->
  exists q', gq_QFrame_Drop col_nil new_error unknownCol q names = Ok q' /\ rep q' (drop f names).
Proof.
  intro Hrep. pose proof Hrep as (Hc & Hi & He & Hn & Hm).
  unfold gq_QFrame_Drop, drop. rewrite He.
  destruct (ferr f) eqn:Ef; [exists q; split; [reflexivity|exact Hrep]|].
  destruct names as [|x names].
  - exists q. split; [reflexivity|exact Hrep].
  - replace (Z.of_nat (length (x :: names)) =? 0) with false by (cbn [length]; lia).
    destruct (gq_NewStringSet_eq (x :: names)) as (S & HS & Hs). rewrite HS. cbn [obind].
    rewrite Hc, (gq_Drop_loop S (x :: names) Hs). cbn [obind app].
    destruct (gq_Select_rep q f (filter (fun n => negb (existsb (bytes_eqb n) (x :: names))) (map fst (cols f))) Hrep)
      as (q' & Hq & Hrep').
    rewrite Hq. cbn [obind]. exists q'. split; [reflexivity|exact Hrep'].
Qed.

(* ------------------------------------------------------------------ Slice *)

Lemma gq_Slice_rep q f a b : rep q f ->
  exists q', gq_QFrame_Slice new_error q a b = Ok q' /\ rep q' (slice f a b).
Proof.
  intro Hrep. pose proof Hrep as (Hc & Hi & He & Hn & Hm).
  unfold gq_QFrame_Slice, slice. rewrite He.
  destruct (ferr f) eqn:Ef; [exists q; split; [reflexivity|exact Hrep]|].
  destruct (a <? 0) eqn:E1.
  { destruct (gq_withErr_rep q f (new_error (bs 5 0x536c696365) (bs 26 0x7374617274206d757374206265206e6f6e206e65676174697665)) Hrep) as (q' & Hq & Hr).
    rewrite Hq. exists q'. split; [reflexivity|exact Hr]. }
  destruct (b <? a) eqn:E2.
  { destruct (gq_withErr_rep q f (new_error (bs 5 0x536c696365) (bs 34 0x7374617274206d757374206e6f742062652067726561746572207468616e20656e64)) Hrep) as (q' & Hq & Hr).
    rewrite Hq. exists q'. split; [reflexivity|exact Hr]. }
  rewrite (gq_Len_eq q f Hrep). cbn [obind]. unfold frame_len. rewrite Ef.
  destruct (Z.of_nat (length (ix f)) <? b) eqn:E3.
  { destruct (gq_withErr_rep q f (new_error (bs 5 0x536c696365) (bs 42 0x656e64206d757374206e6f742062652067726561746572207468616e20716672616d65206c656e677468)) Hrep) as (q' & Hq & Hr).
    rewrite Hq. exists q'. split; [reflexivity|exact Hr]. }
  unfold gq_slice. rewrite Hi, E1, E2, E3. cbn [orb obind].
  destruct (gq_withIndex_rep q f (firstn (Z.to_nat (b - a)) (skipn (Z.to_nat a) (ix f))) Hrep) as (q' & Hq & Hr).
  rewrite Hq. exists q'. split; [reflexivity|exact Hr].
Qed.

(* ------------------------------------------------------------------ setColumn *)

Definition perm_order (ord : forall V : Type, gq_map V -> gq_map V) : Prop :=
  forall (V : Type) (m : gq_map V), Permutation (ord V m) m.

Lemma gq_setColumn_loop : forall (l : list (bytes * gncol)) (cs : list gncol) (M : gq_map gncol) (i : list nat) (e : option E),
  NoDup (map fst (M ++ l)) ->
  gq_QFrame_setColumn_loop1 l (gq_mk_QFrame cs M i e) = Ok (gq_mk_QFrame cs (M ++ l) i e).
Proof.
  induction l as [|[k v] l IH]; intros cs M i e Hnd; cbn [gq_QFrame_setColumn_loop1].
  - rewrite app_nil_r. reflexivity.
  - unfold gq_QFrame_set_columnsByName. cbn [gq_QFrame_columns gq_QFrame_columnsByName gq_QFrame_index gq_QFrame_Err].
    assert (Hk : ~ In k (map fst M)).
    { rewrite map_app in Hnd. cbn [map fst] in Hnd. apply NoDup_remove_2 in Hnd. intro H. apply Hnd.
      rewrite in_app_iff. left. exact H. }
    rewrite (gq_mset_notin M k v Hk). rewrite IH.
    + rewrite <- app_assoc. reflexivity.
    + rewrite <- app_assoc. exact Hnd.
Qed.

Lemma gq_CheckName_nil name : gq_isnil (gq_CheckName checkname_error name) = check_name name.
Proof. unfold gq_CheckName. rewrite gf_strings_CheckName_eq. destruct (check_name name); reflexivity. Qed.

Lemma gq_setColumn_rep ord q f name c : perm_order ord -> rep q f ->
  exists q', gq_QFrame_setColumn col_nil propagate checkname_error ord q name c = Ok q' /\ rep q' (set_column f name c).
Proof.
  intros Hord Hrep. pose proof Hrep as (Hc & Hi & He & Hn & Hm).
  unfold gq_QFrame_setColumn, set_column. rewrite gq_CheckName_nil.
  destruct (check_name name) eqn:Ecn; cbn [negb].
  2:{ destruct (gq_CheckName checkname_error name) as [e0|] eqn:Ecn'.
      - destruct (gq_withErr_rep q f (propagate (bs 9 0x736574436f6c756d6e) (Some e0)) Hrep) as (q' & Hq & Hr).
        rewrite Hq. exists q'. split; [reflexivity|exact Hr].
      - pose proof (gq_CheckName_nil name) as Hx. rewrite Ecn', Ecn in Hx. discriminate. }
  destruct q as [cs M i e]. cbn [gq_QFrame_columns gq_QFrame_columnsByName gq_QFrame_index gq_QFrame_Err] in *.
  unfold gq_QFrame_withIndex. cbn [obind gq_QFrame_columns gq_QFrame_columnsByName gq_QFrame_index gq_QFrame_Err].
  unfold gq_mhas, gq_mget_or. rewrite (Hm name).
  assert (HndO : NoDup (map fst (ord gncol M))).
  { apply (Permutation_NoDup (l := map fst M)); [|exact Hn]. apply Permutation_map, Permutation_sym, Hord. }
  assert (Hget : forall n, gq_mget (ord gncol M) n = option_map (entry_of n) (lookup f n)).
  { intro n. rewrite (gq_mget_perm M (ord gncol M) n Hn (Hord _ M)). apply Hm. }
  assert (Hlen : length cs = length (cols f)) by (rewrite Hc; apply ncols_from_length).
  destruct (lookup f name) as [[p c0]|] eqn:Elk; cbn [option_map entry_of fst snd obind gq_namedColumn_pos].
  - (* the name exists: replaced in place *)
    pose proof (lookup_pos_lt f name p c0 Elk) as Hp.
    rewrite gq_make_nat. cbn [obind]. unfold gq_QFrame_set_columns, gq_QFrame_set_columnsByName.
    cbn [gq_QFrame_columns gq_QFrame_columnsByName gq_QFrame_index gq_QFrame_Err].
    rewrite gq_copy_same. rewrite (gq_setColumn_loop (ord gncol M) cs [] i e HndO). cbn [obind app].
    cbn [gq_QFrame_columns gq_QFrame_columnsByName gq_QFrame_index gq_QFrame_Err].
    rewrite (gq_update_nat cs p _ ltac:(lia)). cbn [obind].
    eexists. split; [reflexivity|].
    unfold rep. cbn [gq_QFrame_columns gq_QFrame_columnsByName gq_QFrame_index gq_QFrame_Err cols ix ferr].
    split; [|split; [exact Hi|split; [exact He|split]]].
    + rewrite Hc. apply (ncols_from_set_nth name c (cols f) 0 p Hp).
    + apply gq_mset_nodup. exact HndO.
    + intro n. rewrite gq_mget_mset, Hget. rewrite !lookup_is_r. cbn [cols].
      rewrite lookup_is_r in Elk.
      rewrite (lookup_r_set_nth name c n (cols f) 0 p c0 Elk). cbn [Nat.add].
      destruct (bytes_eqb name n) eqn:En; [|reflexivity]. apply bytes_eqb_spec in En. subst n. reflexivity.
  - (* a new name: appended *)
    replace (Z.of_nat (length cs) + 1) with (Z.of_nat (S (length cs))) by lia.
    rewrite gq_make_nat. cbn [obind]. unfold gq_QFrame_set_columns, gq_QFrame_set_columnsByName.
    cbn [gq_QFrame_columns gq_QFrame_columnsByName gq_QFrame_index gq_QFrame_Err].
    rewrite gq_copy_grow. rewrite (gq_setColumn_loop (ord gncol M) _ [] i e HndO). cbn [obind app].
    cbn [gq_QFrame_columns gq_QFrame_columnsByName gq_QFrame_index gq_QFrame_Err].
    rewrite (gq_update_nat (cs ++ [zero_ncol]) (length cs) _ ltac:(rewrite app_length; cbn [length]; lia)). cbn [obind].
    rewrite set_nth_app_last.
    eexists. split; [reflexivity|].
    unfold rep. cbn [gq_QFrame_columns gq_QFrame_columnsByName gq_QFrame_index gq_QFrame_Err cols ix ferr].
    split; [|split; [exact Hi|split; [exact He|split]]].
    + rewrite ncols_from_app, Hc. cbn [ncols_from Nat.add]. rewrite ncols_from_length. reflexivity.
    + apply gq_mset_nodup. exact HndO.
    + intro n. rewrite gq_mget_mset, Hget. rewrite !lookup_is_r. cbn [cols].
      rewrite lookup_r_snoc. cbn [Nat.add]. rewrite Hlen.
      destruct (bytes_eqb name n) eqn:En; [|reflexivity]. apply bytes_eqb_spec in En. subst n. reflexivity.
Qed.

(* ------------------------------------------------------------------ Copy *)

Lemma gq_Copy_rep ord q f dst src : perm_order ord -> rep q f ->
  exists q', gq_QFrame_Copy col_nil new_error propagate checkname_error unknownCol ord q dst src = Ok q'
             /\ rep q' (copy f dst src).
Proof.
  intros Hord Hrep. pose proof Hrep as (Hc & Hi & He & Hn & Hm).
  unfold gq_QFrame_Copy, copy. rewrite He.
  destruct (ferr f) eqn:Ef; [exists q; split; [reflexivity|exact Hrep]|]. cbn [negb].
  rewrite (rep_mhas q f src Hrep). unfold contains, lookup_col.
  destruct (lookup f src) as [[p c]|] eqn:Elk; cbn [negb option_map snd].
  - destruct (bytes_eqb dst src); [exists q; split; [reflexivity|exact Hrep]|].
    rewrite (rep_mget_or q f src _ p c Hrep Elk). cbn [gq_namedColumn_Column].
    destruct (gq_setColumn_rep ord q f dst c Hord Hrep) as (q' & Hq & Hr).
    rewrite Hq. exists q'. split; [reflexivity|exact Hr].
  - destruct (gq_withErr_rep q f (new_error (bs 4 0x436f7079) (unknownCol src)) Hrep) as (q' & Hq & Hr).
    rewrite Hq. exists q'. split; [reflexivity|exact Hr].
Qed.

(* ------------------------------------------------------------------ every model frame has a representation *)

(* the map New / Select / setColumn build: the entries written in slice order, a later one replacing an earlier *)
Definition map_of (cs : list (bytes * coldata)) : gq_map gncol :=
  fold_left (fun M nc => gq_mset M (gq_namedColumn_name nc) nc) (ncols_from 0 cs) [].

Definition embed (e : E) (f : frame) : gframe :=
  gq_mk_QFrame (ncols_from 0 (cols f)) (map_of (cols f)) (ix f) (if ferr f then Some e else None).

Lemma map_of_inv : forall (l pre : list (bytes * coldata)) (M : gq_map gncol),
  NoDup (map fst M) ->
  (forall n, gq_mget M n = option_map (entry_of n) (lookup_r n pre 0)) ->
  let M' := fold_left (fun M nc => gq_mset M (gq_namedColumn_name nc) nc) (ncols_from (length pre) l) M in
  NoDup (map fst M') /\ forall n, gq_mget M' n = option_map (entry_of n) (lookup_r n (pre ++ l) 0).
Proof.
  induction l as [|[m c] l IH]; intros pre M Hnd Hm; cbn [ncols_from fold_left].
  - rewrite app_nil_r. split; assumption.
  - cbn [gq_namedColumn_name].
    specialize (IH (pre ++ [(m, c)]) (gq_mset M m (gq_mk_namedColumn c m (Z.of_nat (length pre))))).
    rewrite app_length in IH. cbn [length] in IH. replace (length pre + 1)%nat with (S (length pre)) in IH by lia.
    rewrite <- app_assoc in IH. cbn [app] in IH. apply IH.
    + apply gq_mset_nodup. exact Hnd.
    + intro n. rewrite gq_mget_mset, lookup_r_snoc. cbn [Nat.add].
      destruct (bytes_eqb m n) eqn:En; [|apply Hm]. apply bytes_eqb_spec in En. subst n. reflexivity.
Qed.

Lemma embed_rep e f : rep (embed e f) f.
Proof.
  unfold rep, embed. cbn [gq_QFrame_columns gq_QFrame_columnsByName gq_QFrame_index gq_QFrame_Err].
  split; [reflexivity|split; [reflexivity|split; [destruct (ferr f); reflexivity|]]].
  destruct (map_of_inv (cols f) [] []) as [Hnd Hm]; [constructor|intro n; reflexivity|].
  cbn [length app] in Hnd, Hm. split; [exact Hnd|]. intro n. rewrite lookup_is_r. apply Hm.
Qed.

End Rep.

(* ================================================================== New / createColumn ================== *)

(* The abstraction boundary of the translation of New: the per-type column constructors, Column.Len,
   index.NewAscending, newqf.NewConfig and sort.Strings are arguments of the generated functions.  Here they are
   instantiated with the model's readings (Model/Ops.v: ICol .., repeat .., enum_new, enum_new_const, col_len, seq);
   newqf.NewConfig is any function answering the Config (ColumnOrder, EnumColumns) of the model's arguments, and
   sort.Strings any function that sorts canonically ([sort_canonical]).
   The data map: the Go value map[string]DataSlice is the association list of the model's data with every value
   tagged with its dynamic type ([dyn_of]: reflection as a tagged union); DOther is a value of a type that
   createColumn does not know.  Pre-built columns (ecolumn.Column, column.Column) and StringBlob inputs are outside
   the model's newdata and therefore outside these theorems. *)

Section NewRep.
Context {E CF : Type}.
Variable col_nil : coldata.
Variable new_error : bytes -> bytes -> E.
Variable propagate : bytes -> option E -> E.
Variable checkname_error : bytes -> E.
Variable enum_error : E.                       (* the error ecolumn.New / NewConst answer *)

Notation gdyn := (gq_dyn coldata N unit unit).
Notation gframe := (gq_QFrame nat E coldata).
Notation gncol := (gq_namedColumn coldata).

Definition dyn_of (d : newdata) : gdyn :=
  match d with
  | DInts x => gq_dyn_slice_int x
  | DFloats x => gq_dyn_slice_float64 x
  | DBools x => gq_dyn_slice_bool x
  | DStrPtrs x => gq_dyn_slice_ptr_string x
  | DStrings x => gq_dyn_slice_string x
  | DConstInt v c => gq_dyn_ConstInt (gq_mk_ConstInt v c)
  | DConstFloat v c => gq_dyn_ConstFloat (gq_mk_ConstFloat v c)
  | DConstBool v c => gq_dyn_ConstBool (gq_mk_ConstBool v c)
  | DConstStr v c => gq_dyn_ConstString (gq_mk_ConstString v c)
  | DOther => gq_dyn_other tt
  end.

Definition m_icolumn_New (d : list Z) : outcome coldata := Ok (ICol d).
Definition m_icolumn_NewConst (v c : Z) : outcome coldata := Ok (ICol (repeat v (Z.to_nat c))).
Definition m_fcolumn_New (d : list N) : outcome coldata := Ok (FCol d).
Definition m_fcolumn_NewConst (v : N) (c : Z) : outcome coldata := Ok (FCol (repeat v (Z.to_nat c))).
Definition m_bcolumn_New (d : list bool) : outcome coldata := Ok (BCol d).
Definition m_bcolumn_NewConst (v : bool) (c : Z) : outcome coldata := Ok (BCol (repeat v (Z.to_nat c))).
Definition m_scolumn_New (d : list (option bytes)) : outcome coldata := Ok (SCol d).
Definition m_scolumn_NewConst (v : option bytes) (c : Z) : outcome coldata := Ok (SCol (repeat v (Z.to_nat c))).
Definition m_scolumn_NewBytes (p : list Z) (d : list N) : outcome coldata := Panic.   (* not reached from newdata *)
Definition of_enum (r : outcome coldata) : outcome (coldata * option E) :=
  match r with Ok c => Ok (c, None) | Fail => Ok (col_nil, Some enum_error) | Panic => Panic end.
Definition m_ecolumn_New (d : list (option bytes)) (values : list bytes) := of_enum (enum_new d values).
Definition m_ecolumn_NewConst (v : option bytes) (c : Z) (values : list bytes) :=
  of_enum (enum_new_const v (Z.to_nat c) values).
Definition m_col_Len (c : coldata) : outcome Z := Ok (Z.of_nat (col_len c)).
Definition m_NewAscending (z : Z) : outcome (list nat) := Ok (seq 0 (Z.to_nat z)).

Notation g_createColumn :=
  (gq_createColumn col_nil new_error propagate (fun _ : unit => col_nil) m_icolumn_New m_icolumn_NewConst m_fcolumn_New
     m_fcolumn_NewConst m_ecolumn_New m_scolumn_New m_ecolumn_NewConst m_scolumn_NewConst m_bcolumn_New
     m_bcolumn_NewConst m_scolumn_NewBytes).

(* the conversion loop of []string: sp[i] = &sc[i] *)
Lemma gq_createColumn_loop : forall (l pre : list bytes) (sc : list bytes),
  sc = pre ++ l ->
  gq_createColumn_loop1 l (Z.of_nat (length pre)) sc (map Some pre ++ repeat None (length l))
  = Ok (map Some sc).
Proof.
  induction l as [|x l IH]; intros pre sc Hsc; cbn [gq_createColumn_loop1 length].
  - cbn [repeat]. rewrite app_nil_r in *. subst. reflexivity.
  - unfold gq_index. destruct (Z.of_nat (length pre) <? 0) eqn:E1; [lia|]. rewrite Nat2Z.id.
    unfold idx. rewrite Hsc at 1. rewrite nth_error_app2 by lia. rewrite Nat.sub_diag. cbn [nth_error of_option obind].
    pose proof (gq_update_fill (@None bytes) (Some x) (map Some pre) (length l)) as Hu.
    rewrite map_length in Hu. rewrite Hu. cbn [obind].
    replace (Z.of_nat (length pre) + 1) with (Z.of_nat (length (pre ++ [x]))) by (rewrite app_length; cbn [length]; lia).
    replace (map Some pre ++ [Some x]) with (map Some (pre ++ [x])) by (rewrite map_app; reflexivity).
    apply IH. rewrite <- app_assoc. exact Hsc.
Qed.

(* the enum declaration createColumn consults: only for string data *)
Definition enum_for (d : newdata) (cfg : gq_Config) (name : bytes) : option (list bytes) :=
  if is_string_data d then gq_mget (gq_Config_EnumColumns cfg) name else None.

Definition cfg_used (cfg : gq_Config) (name : bytes) : gq_Config :=
  gq_Config_set_EnumColumns cfg (gq_mdel (gq_Config_EnumColumns cfg) name).

(* createColumn = Ops.create_column; the declaration is deleted from the config exactly when it was used with success *)
Lemma gq_createColumn_eq name d cfg :
  match create_column d (enum_for d cfg name) with
  | Ok c => g_createColumn name (dyn_of d) cfg
            = Ok (c, None, match enum_for d cfg name with Some _ => cfg_used cfg name | None => cfg end)
  | Fail => exists e, g_createColumn name (dyn_of d) cfg = Ok (col_nil, Some e, cfg)
  | Panic => g_createColumn name (dyn_of d) cfg = Panic
  end.
Proof.
  unfold enum_for.
  destruct d as [x|x|x|x|x|v c|v c|v c|v c|]; cbn [is_string_data dyn_of create_column].
  - reflexivity.
  - reflexivity.
  - reflexivity.
  - (* []*string *)
    unfold gq_createColumn. cbn [obind gq_constCount]. cbv iota. cbn [obind].
    unfold gq_mhas, gq_mget_or. destruct (gq_mget (gq_Config_EnumColumns cfg) name) as [vals|]; [|reflexivity].
    unfold m_ecolumn_New, of_enum. destruct (enum_new x vals); cbn [obind gq_isnil negb]; try reflexivity.
    eexists; reflexivity.
  - (* []string: converted first *)
    unfold gq_createColumn. rewrite gq_make_nat. cbn [obind].
    pose proof (gq_createColumn_loop x [] x eq_refl) as Hl. cbn [length map app] in Hl. change (Z.of_nat 0) with 0 in Hl.
    rewrite Hl. cbn [obind gq_constCount]. cbv iota. cbn [obind].
    unfold gq_mhas, gq_mget_or. destruct (gq_mget (gq_Config_EnumColumns cfg) name) as [vals|]; [|reflexivity].
    unfold m_ecolumn_New, of_enum. destruct (enum_new (map Some x) vals); cbn [obind gq_isnil negb]; try reflexivity.
    eexists; reflexivity.
  - unfold gq_createColumn. cbn [obind gq_constCount gq_ConstInt_Count gq_ConstInt_Val]. cbv iota.
    destruct (c <? 0); cbn [obind]; [eexists; reflexivity|reflexivity].
  - unfold gq_createColumn. cbn [obind gq_constCount gq_ConstFloat_Count gq_ConstFloat_Val]. cbv iota.
    destruct (c <? 0); cbn [obind]; [eexists; reflexivity|reflexivity].
  - unfold gq_createColumn. cbn [obind gq_constCount gq_ConstBool_Count gq_ConstBool_Val]. cbv iota.
    destruct (c <? 0); cbn [obind]; [eexists; reflexivity|reflexivity].
  - unfold gq_createColumn. cbn [obind gq_constCount gq_ConstString_Count gq_ConstString_Val]. cbv iota.
    destruct (c <? 0); cbn [obind]; [eexists; reflexivity|].
    unfold gq_mhas, gq_mget_or. destruct (gq_mget (gq_Config_EnumColumns cfg) name) as [vals|]; [|reflexivity].
    unfold m_ecolumn_NewConst, of_enum. destruct (enum_new_const v (Z.to_nat c) vals); cbn [obind gq_isnil negb]; try reflexivity.
    eexists; reflexivity.
  - eexists; reflexivity.
Qed.

(* ------------------------------------------------------------------ the model's New, restated *)

(* the step of Ops.new_frame (a local definition there) *)
Definition nstep (data : list (bytes * newdata)) (enums : list (bytes * list bytes))
  (st : list (bytes * coldata) * nat * list bytes) (n : bytes) : outcome (list (bytes * coldata) * nat * list bytes) :=
  let '(acc, first, used) := st in
  match assocb n data with
  | None => Panic
  | Some d =>
      let en := if is_string_data d && negb (existsb (bytes_eqb n) used) then assocb n enums else None in
      do c <- create_column d en;
      let used' := match en with Some _ => n :: used | None => used end in
      let first' := match acc with [] => col_len c | _ => first end in
      if Nat.eqb first' (col_len c) then Ok (acc ++ [(n, c)], first', used') else Fail
  end.

Definition order_of (data : list (bytes * newdata)) (order : list bytes) : list bytes :=
  match order with [] => sort_names (map fst data) | _ => order end.

Lemma new_frame_unfold data order enums :
  new_frame data order enums =
  let errf := mkFrame [] [] true in
  if negb (forallb (fun kv => check_name (fst kv)) data) then Ok errf
  else
    if negb (Nat.eqb (length (order_of data order)) (length data)) then Ok errf
    else if negb (forallb (fun n => match assocb n data with Some _ => true | None => false end) (order_of data order)) then Ok errf
    else if negb (nodup_bytes (order_of data order)) then Ok errf
    else
      match ofold (nstep data enums) (order_of data order) ([], 0%nat, []) with
      | Ok (cs, len, used) =>
          if negb (forallb (fun kv => existsb (bytes_eqb (fst kv)) used) enums) then Ok errf
          else Ok (mkFrame cs (seq 0 len) false)
      | Fail => Ok errf
      | Panic => Panic
      end.
Proof. reflexivity. Qed.

(* ------------------------------------------------------------------ maps: the data map, the enum declarations *)

Lemma gq_mget_assocb {V} (m : gq_map V) k : gq_mget m k = assocb k m.
Proof. induction m as [|[k' v] r IH]; cbn [gq_mget assocb]; [reflexivity|]. rewrite IH. reflexivity. Qed.

Definition gdata_of (data : list (bytes * newdata)) : gq_map gdyn := map (fun kv => (fst kv, dyn_of (snd kv))) data.

Lemma gdata_get data n : gq_mget (gdata_of data) n = option_map dyn_of (assocb n data).
Proof.
  induction data as [|[k d] r IH]; cbn [gdata_of map gq_mget assocb fst snd]; [reflexivity|].
  destruct (bytes_eqb k n); [reflexivity|exact IH].
Qed.

Lemma gdata_keys data : map fst (gdata_of data) = map fst data.
Proof. unfold gdata_of. rewrite map_map. reflexivity. Qed.

(* config.EnumColumns after the declarations of [used] were consumed *)
Definition enums_left (enums : list (bytes * list bytes)) (used : list bytes) : gq_map (list bytes) :=
  filter (fun kv => negb (existsb (bytes_eqb (fst kv)) used)) enums.

Lemma enums_left_get enums used n :
  gq_mget (enums_left enums used) n = if existsb (bytes_eqb n) used then None else assocb n enums.
Proof.
  induction enums as [|[k v] r IH]; cbn [enums_left filter assocb fst].
  - destruct (existsb (bytes_eqb n) used); reflexivity.
  - destruct (existsb (bytes_eqb k) used) eqn:Ek; cbn [negb gq_mget].
    + fold (enums_left r used). rewrite IH. destruct (bytes_eqb k n) eqn:Ekn; [|reflexivity].
      apply bytes_eqb_spec in Ekn. subst k. rewrite Ek. reflexivity.
    + fold (enums_left r used). rewrite IH. destruct (bytes_eqb k n) eqn:Ekn; [|reflexivity].
      apply bytes_eqb_spec in Ekn. subst k. rewrite Ek. reflexivity.
Qed.

Lemma enums_left_del enums used n : NoDup (map fst enums) ->
  gq_mdel (enums_left enums used) n = enums_left enums (n :: used).
Proof.
  induction enums as [|[k v] r IH]; intro Hnd; [reflexivity|].
  cbn [map fst] in Hnd. inversion Hnd as [|? ? Hk Hnd']; subst.
  cbn [enums_left filter fst existsb]. fold (enums_left r used). fold (enums_left r (n :: used)).
  rewrite (bytes_eqb_sym k n).
  destruct (existsb (bytes_eqb k) used) eqn:Ek; cbn [negb].
  - rewrite orb_true_r. cbn [negb]. apply IH. exact Hnd'.
  - cbn [gq_mdel]. destruct (bytes_eqb n k) eqn:Enk; rewrite (bytes_eqb_sym k n), Enk; cbn [orb negb].
    + apply bytes_eqb_spec in Enk. subst k.
      (* the later entries do not have this key: nothing else to delete, nothing else newly filtered *)
      clear IH Hnd. induction r as [|[k2 v2] r IHr]; [reflexivity|].
      cbn [map fst] in Hk, Hnd'. inversion Hnd' as [|? ? Hk2 Hnd2]; subst.
      cbn [enums_left filter fst existsb]. fold (enums_left r used). fold (enums_left r (n :: used)).
      rewrite (bytes_eqb_neq k2 n) by (intro Heq; apply Hk; left; exact Heq). cbn [orb].
      destruct (existsb (bytes_eqb k2) used); cbn [negb]; [|f_equal]; apply IHr; try assumption;
        intro Hin; apply Hk; right; exact Hin.
    + f_equal. apply IH. exact Hnd'.
Qed.

Lemma enums_left_empty enums used :
  (0 <? Z.of_nat (length (enums_left enums used))) = negb (forallb (fun kv => existsb (bytes_eqb (fst kv)) used) enums).
Proof.
  induction enums as [|[k v] r IH]; [reflexivity|].
  cbn [enums_left filter fst forallb]. fold (enums_left r used).
  destruct (existsb (bytes_eqb k) used); cbn [negb andb length]; [exact IH|]. lia.
Qed.

(* ------------------------------------------------------------------ the column loop of New *)

Notation zero_ncol := (gq_mk_namedColumn col_nil (@nil N) 0 : gncol).
Notation g_loop3 ord3 :=
  (gq_New_loop3 (A:=nat) col_nil new_error propagate (fun _ : unit => col_nil) m_col_Len m_icolumn_New m_icolumn_NewConst
     m_fcolumn_New m_fcolumn_NewConst m_ecolumn_New m_scolumn_New m_ecolumn_NewConst m_scolumn_NewConst m_bcolumn_New
     m_bcolumn_NewConst m_scolumn_NewBytes m_NewAscending ord3).

(* New answered QFrame{Err: e} *)
Definition errq_like (r : outcome gframe) : Prop := exists e, r = Ok (gq_mk_QFrame [] [] [] (Some e)).

Lemma errq_rep e : rep (gq_mk_QFrame [] [] [] (Some e) : gframe) (mkFrame [] [] true).
Proof. unfold rep. cbn. repeat split; try reflexivity. constructor. Qed.

Lemma gq_New_loop2_ok : forall (l : list (bytes * list bytes)) (acc : list bytes),
  gq_New_loop2 l acc = Ok (acc ++ map fst l).
Proof.
  induction l as [|[k v] l IH]; intro acc; cbn [gq_New_loop2 map fst].
  - rewrite app_nil_r. reflexivity.
  - rewrite IH, <- app_assoc. reflexivity.
Qed.

Lemma gq_index_filled {T} (pre : list T) (v : T) (rest : list T) :
  gq_index ((pre ++ [v]) ++ rest) (Z.of_nat (length pre)) = Ok v.
Proof.
  unfold gq_index. destruct (Z.of_nat (length pre) <? 0) eqn:E1; [lia|]. rewrite Nat2Z.id.
  unfold idx. rewrite <- app_assoc. rewrite nth_error_app2 by lia. rewrite Nat.sub_diag. reflexivity.
Qed.

Lemma en_eq d enums used x :
  (if is_string_data d then gq_mget (enums_left enums used) x else None)
  = (if is_string_data d && negb (existsb (bytes_eqb x) used) then assocb x enums else None).
Proof.
  rewrite enums_left_get. destruct (is_string_data d), (existsb (bytes_eqb x) used); reflexivity.
Qed.

Lemma ofold_nil' {X Y} (f : Y -> X -> outcome Y) init : ofold f [] init = Ok init.
Proof. reflexivity. Qed.

Lemma ofold_stuck {X Y} (f : Y -> X -> outcome Y) : forall l,
  fold_left (fun acc x => do a <- acc; f a x) l Fail = Fail
  /\ fold_left (fun acc x => do a <- acc; f a x) l Panic = Panic.
Proof. induction l as [|x l IH]; cbn [fold_left obind]; [split; reflexivity|exact IH]. Qed.

Lemma ofold_cons' {X Y} (f : Y -> X -> outcome Y) x l init :
  ofold f (x :: l) init = match f init x with Ok b => ofold f l b | Fail => Fail | Panic => Panic end.
Proof.
  unfold ofold. cbn [fold_left obind]. destruct (f init x); [reflexivity| |]; apply (ofold_stuck f l).
Qed.

Lemma gq_New_loop3_eq ord3 data enums order0 : NoDup (map fst enums) ->
  forall l acc first used (M : gq_map gncol),
  forallb (fun n => match assocb n data with Some _ => true | None => false end) l = true ->
  NoDup (map fst M) ->
  (forall k, gq_mget M k = option_map (entry_of k) (lookup_r k acc 0)) ->
  match ofold (nstep data enums) l (acc, first, used) with
  | Ok (cs, len, used') =>
      if negb (forallb (fun kv => existsb (bytes_eqb (fst kv)) used') enums)
      then errq_like (g_loop3 ord3 l (Z.of_nat (length acc)) (gdata_of data) (gq_mk_Config order0 (enums_left enums used))
                        (ncols_from 0 acc ++ repeat zero_ncol (length l)) M (Z.of_nat first) (Z.of_nat first))
      else Z.of_nat len < 4294967296 ->
           exists q', g_loop3 ord3 l (Z.of_nat (length acc)) (gdata_of data) (gq_mk_Config order0 (enums_left enums used))
                        (ncols_from 0 acc ++ repeat zero_ncol (length l)) M (Z.of_nat first) (Z.of_nat first) = Ok q'
                      /\ rep q' (mkFrame cs (seq 0 len) false)
  | Fail => errq_like (g_loop3 ord3 l (Z.of_nat (length acc)) (gdata_of data) (gq_mk_Config order0 (enums_left enums used))
                        (ncols_from 0 acc ++ repeat zero_ncol (length l)) M (Z.of_nat first) (Z.of_nat first))
  | Panic => g_loop3 ord3 l (Z.of_nat (length acc)) (gdata_of data) (gq_mk_Config order0 (enums_left enums used))
                        (ncols_from 0 acc ++ repeat zero_ncol (length l)) M (Z.of_nat first) (Z.of_nat first) = Panic
  end.
Proof.
  intro HndE. induction l as [|x l IH]; intros acc first used M Hmem HndM HM.
  - rewrite ofold_nil'. cbn [gq_New_loop3 length repeat gq_Config_EnumColumns]. rewrite app_nil_r.
    rewrite enums_left_empty.
    destruct (negb (forallb (fun kv => existsb (bytes_eqb (fst kv)) used) enums)).
    + rewrite gq_New_loop2_ok. cbn [obind]. unfold errq_like. eexists. reflexivity.
    + intro Hlen. unfold gq_u32. rewrite Z.mod_small by lia. unfold m_NewAscending. cbn [obind]. rewrite Nat2Z.id.
      eexists. split; [reflexivity|].
      unfold rep. cbn [gq_QFrame_columns gq_QFrame_columnsByName gq_QFrame_index gq_QFrame_Err cols ix ferr gq_isnil negb].
      repeat split; try assumption; try reflexivity.
      intro k. rewrite lookup_is_r. apply HM.
  - cbn [forallb] in Hmem. apply andb_true_iff in Hmem. destruct Hmem as [Hx Hmem].
    destruct (assocb x data) as [d|] eqn:Ed; [|discriminate].
    rewrite ofold_cons'. unfold nstep at 1. rewrite Ed.
    cbn [gq_New_loop3 length].
    unfold gq_mget_or. rewrite gdata_get, Ed. cbn [option_map].
    pose proof (gq_createColumn_eq x d (gq_mk_Config order0 (enums_left enums used))) as Hcc.
    unfold enum_for in Hcc. cbn [gq_Config_EnumColumns] in Hcc. rewrite en_eq in Hcc.
    set (en := if is_string_data d && negb (existsb (bytes_eqb x) used) then assocb x enums else None) in *.
    destruct (create_column d en) as [c| |] eqn:Ecc; cbn [obind].
    2:{ destruct Hcc as [e He]. rewrite He. cbn [obind gq_isnil negb]. unfold errq_like. eexists. reflexivity. }
    2:{ rewrite Hcc. reflexivity. }
    rewrite Hcc. cbn [obind gq_isnil negb].
    assert (Hcfg : match en with Some _ => cfg_used (gq_mk_Config order0 (enums_left enums used)) x
                                | None => gq_mk_Config order0 (enums_left enums used) end
                   = gq_mk_Config order0 (enums_left enums (match en with Some _ => x :: used | None => used end))).
    { destruct en; [|reflexivity]. unfold cfg_used, gq_Config_set_EnumColumns. cbn [gq_Config_ColumnOrder gq_Config_EnumColumns].
      rewrite enums_left_del by exact HndE. reflexivity. }
    rewrite Hcfg. clear Hcfg Hcc.
    pose proof (gq_update_fill zero_ncol (gq_mk_namedColumn c x (Z.of_nat (length acc))) (ncols_from 0 acc) (length l)) as Hu.
    rewrite ncols_from_length in Hu. rewrite Hu. cbn [obind]. clear Hu.
    pose proof (gq_index_filled (ncols_from 0 acc) (gq_mk_namedColumn c x (Z.of_nat (length acc))) (repeat zero_ncol (length l))) as Hi.
    rewrite ncols_from_length in Hi. rewrite Hi. cbn [obind]. clear Hi.
    unfold m_col_Len. cbn [obind].
    assert (Harr : ncols_from 0 acc ++ [gq_mk_namedColumn c x (Z.of_nat (length acc))] = ncols_from 0 (acc ++ [(x, c)])).
    { rewrite ncols_from_app. cbn [ncols_from Nat.add]. reflexivity. }
    rewrite Harr.
    replace (Z.of_nat (length acc) + 1) with (Z.of_nat (length (acc ++ [(x, c)]))) by (rewrite app_length; cbn [length]; lia).
    assert (HndM' : NoDup (map fst (gq_mset M x (gq_mk_namedColumn c x (Z.of_nat (length acc)))))) by (apply gq_mset_nodup; exact HndM).
    assert (HM' : forall k, gq_mget (gq_mset M x (gq_mk_namedColumn c x (Z.of_nat (length acc)))) k
                            = option_map (entry_of k) (lookup_r k (acc ++ [(x, c)]) 0)).
    { intro k. rewrite gq_mget_mset, lookup_r_snoc. cbn [Nat.add].
      destruct (bytes_eqb x k) eqn:Ek; [|apply HM]. apply bytes_eqb_spec in Ek. subst k. reflexivity. }
    destruct acc as [|a0 acc0].
    + (* the first column fixes the length *)
      cbn [length]. change (Z.of_nat 0 =? 0) with true. cbv iota. cbn [obind]. rewrite Z.eqb_refl. cbn [negb].
      rewrite Nat.eqb_refl.
      specialize (IH ([] ++ [(x, c)]) (col_len c) (match en with Some _ => x :: used | None => used end) _ Hmem HndM' HM').
      exact IH.
    + replace (Z.of_nat (length (a0 :: acc0)) =? 0) with false by (cbn [length]; lia). cbv iota. cbn [obind].
      destruct (Nat.eqb first (col_len c)) eqn:Efl.
      * apply Nat.eqb_eq in Efl. rewrite <- Efl. rewrite Z.eqb_refl. cbn [negb].
        specialize (IH ((a0 :: acc0) ++ [(x, c)]) first (match en with Some _ => x :: used | None => used end) _ Hmem HndM' HM').
        exact IH.
      * replace (Z.of_nat first =? Z.of_nat (col_len c)) with false by (apply Nat.eqb_neq in Efl; lia).
        cbn [negb]. unfold errq_like. eexists. reflexivity.
Qed.

(* ------------------------------------------------------------------ the column order checks of New *)

Notation g_loop4 ord3 :=
  (gq_New_loop4 (A:=nat) col_nil new_error propagate (fun _ : unit => col_nil) m_col_Len m_icolumn_New m_icolumn_NewConst
     m_fcolumn_New m_fcolumn_NewConst m_ecolumn_New m_scolumn_New m_ecolumn_NewConst m_scolumn_NewConst m_bcolumn_New
     m_bcolumn_NewConst m_scolumn_NewBytes m_NewAscending ord3).

(* "occurs more than once": each name against the names before it *)
Fixpoint go_nodup (seen l : list bytes) : bool :=
  match l with
  | [] => true
  | x :: r => negb (existsb (bytes_eqb x) seen) && go_nodup (x :: seen) r
  end.

Lemma nodup_bytes_spec l : nodup_bytes l = true <-> NoDup l.
Proof.
  induction l as [|x l IH]; cbn [nodup_bytes]; [split; [constructor|reflexivity]|].
  rewrite andb_true_iff, negb_true_iff, IH. split.
  - intros [Hx Hl]. constructor; [|exact Hl]. intro Hin. apply existsb_bytes_In in Hin. rewrite Hin in Hx. discriminate.
  - intro H. inversion H as [|? ? Hx Hl]; subst. split; [|exact Hl].
    destruct (existsb (bytes_eqb x) l) eqn:Ex; [|reflexivity]. apply existsb_bytes_In in Ex. contradiction.
Qed.

Lemma go_nodup_spec : forall l seen, go_nodup seen l = true <-> (NoDup l /\ forall x, In x l -> ~ In x seen).
Proof.
  induction l as [|x l IH]; intro seen; cbn [go_nodup].
  - split; [intros _; split; [constructor|intros ? []]|reflexivity].
  - rewrite andb_true_iff, negb_true_iff, IH. split.
    + intros [Hx [Hnd Hdis]]. split.
      * constructor; [|exact Hnd]. intro Hin. apply (Hdis x Hin). left. reflexivity.
      * intros y [Hy|Hy] Hs.
        -- subst y. apply existsb_bytes_In in Hs. rewrite Hs in Hx. discriminate.
        -- apply (Hdis y Hy). right. exact Hs.
    + intros [Hnd Hdis]. inversion Hnd as [|? ? Hx Hl]; subst. split; [|split].
      * destruct (existsb (bytes_eqb x) seen) eqn:Ex; [|reflexivity]. apply existsb_bytes_In in Ex.
        exfalso. apply (Hdis x (or_introl eq_refl) Ex).
      * exact Hl.
      * intros y Hy [Hs|Hs]; [subst y; contradiction|]. apply (Hdis y (or_intror Hy) Hs).
Qed.

Lemma go_nodup_nil l : go_nodup [] l = nodup_bytes l.
Proof.
  destruct (go_nodup [] l) eqn:E1; destruct (nodup_bytes l) eqn:E2; try reflexivity.
  - apply go_nodup_spec in E1. destruct E1 as [Hnd _]. apply nodup_bytes_spec in Hnd. congruence.
  - apply nodup_bytes_spec in E2. assert (H : go_nodup [] l = true) by (apply go_nodup_spec; split; [exact E2|intros ? ? []]).
    congruence.
Qed.

Lemma gq_New_loop4_eq ord3 (gd : gq_map gdyn) cfg : forall l seen (S : gq_map unit),
  (forall x, gq_mhas S x = existsb (bytes_eqb x) seen) ->
  if forallb (fun n => gq_mhas gd n) l && go_nodup seen l
  then g_loop4 ord3 l gd cfg S = g_loop4 ord3 [] gd cfg []
  else errq_like (g_loop4 ord3 l gd cfg S).
Proof.
  induction l as [|x l IH]; intros seen S HS; cbn [forallb go_nodup andb].
  - reflexivity.
  - cbn [gq_New_loop4]. destruct (gq_mhas gd x) eqn:Eh; cbn [negb andb].
    2:{ unfold errq_like. eexists. reflexivity. }
    rewrite HS. destruct (existsb (bytes_eqb x) seen) eqn:Es; cbn [negb andb].
    { rewrite andb_false_r. unfold errq_like. eexists. reflexivity. }
    apply (IH (x :: seen) (gq_mset S x tt)).
    intro y. rewrite gq_mhas_mset, HS. cbn [existsb]. rewrite (bytes_eqb_sym x y). reflexivity.
Qed.

Lemma gdata_has data n : gq_mhas (gdata_of data) n = match assocb n data with Some _ => true | None => false end.
Proof. unfold gq_mhas. rewrite gdata_get. destruct (assocb n data); reflexivity. Qed.

(* ------------------------------------------------------------------ the default column order: sort.Strings *)

(* sort.Strings answers the model's sort_names for every arrangement of duplicate-free input *)
Definition sort_canonical (srt : list bytes -> list bytes) : Prop :=
  forall l l', NoDup l -> Permutation l l' -> srt l = sort_names l'.

Lemma insert_sorted_perm' s : forall l, Permutation (insert_sorted s l) (s :: l).
Proof.
  induction l as [|x l IH]; cbn [insert_sorted]; [apply Permutation_refl|].
  destruct (bytes_cmp s x); try apply Permutation_refl.
  eapply Permutation_trans; [apply perm_skip; exact IH|apply perm_swap].
Qed.

Lemma sort_names_perm' : forall l, Permutation (sort_names l) l.
Proof.
  induction l as [|x l IH]; [apply Permutation_refl|]. unfold sort_names in *. cbn [fold_right].
  eapply Permutation_trans; [apply insert_sorted_perm'|apply perm_skip; exact IH].
Qed.

Lemma NoDup_app_l {T} (a b : list T) : NoDup (a ++ b) -> NoDup a.
Proof.
  induction a as [|x a IH]; cbn [app]; intro H; [constructor|].
  inversion H as [|? ? Hx Hr]; subst. constructor; [|apply IH; exact Hr].
  intro Hin. apply Hx. rewrite in_app_iff. left. exact Hin.
Qed.

Lemma iter_sort_spec srt : sort_canonical srt -> forall l acc l',
  l <> [] -> NoDup (acc ++ l) -> Permutation (acc ++ l) l' ->
  fold_left (fun a k => srt (a ++ [k])) l acc = sort_names l'.
Proof.
  intro Hs. induction l as [|k r IH]; intros acc l' Hne Hnd Hp; [contradiction|]. cbn [fold_left].
  destruct r as [|k2 r].
  - cbn [fold_left]. apply Hs; assumption.
  - assert (Hacc : srt (acc ++ [k]) = sort_names (acc ++ [k])).
    { apply Hs; [|apply Permutation_refl]. replace (acc ++ k :: k2 :: r) with ((acc ++ [k]) ++ k2 :: r) in Hnd by (rewrite <- app_assoc; reflexivity).
      apply NoDup_app_l in Hnd. exact Hnd. }
    apply IH; [discriminate| |].
    + rewrite Hacc. apply (Permutation_NoDup (l := (acc ++ [k]) ++ k2 :: r)).
      * apply Permutation_app_tail, Permutation_sym, sort_names_perm'.
      * rewrite <- app_assoc. exact Hnd.
    + rewrite Hacc. eapply Permutation_trans; [apply Permutation_app_tail, sort_names_perm'|].
      rewrite <- app_assoc. exact Hp.
Qed.

Lemma iter_sort_all srt : sort_canonical srt -> forall l l', NoDup l -> Permutation l l' ->
  fold_left (fun a k => srt (a ++ [k])) l [] = sort_names l'.
Proof.
  intros Hs l l' Hnd Hp. destruct l as [|k r].
  - apply Permutation_nil in Hp. subst. reflexivity.
  - apply (iter_sort_spec srt Hs (k :: r) [] l'); [discriminate|exact Hnd|exact Hp].
Qed.

Lemma gq_New_loop1_eq srt : forall (l : list (bytes * gdyn)) (o : list bytes) (e : gq_map (list bytes)),
  gq_New_loop1 srt l (gq_mk_Config o e) = Ok (gq_mk_Config (fold_left (fun a k => srt (a ++ [k])) (map fst l) o) e).
Proof.
  induction l as [|[k v] l IH]; intros o e; cbn [gq_New_loop1 map fst fold_left]; [reflexivity|].
  unfold gq_Config_set_ColumnOrder. cbn [gq_Config_ColumnOrder gq_Config_EnumColumns]. apply IH.
Qed.

(* ------------------------------------------------------------------ New *)

Notation g_loop5 srt ord2 ord3 :=
  (gq_New_loop5 (A:=nat) col_nil new_error propagate checkname_error (fun _ : unit => col_nil) m_col_Len srt m_icolumn_New
     m_icolumn_NewConst m_fcolumn_New m_fcolumn_NewConst m_ecolumn_New m_scolumn_New m_ecolumn_NewConst m_scolumn_NewConst
     m_bcolumn_New m_bcolumn_NewConst m_scolumn_NewBytes m_NewAscending ord2 ord3).

Notation g_New srt ncfg ord1 ord2 ord3 :=
  (gq_New (A:=nat) (CF:=CF) col_nil new_error propagate checkname_error (fun _ : unit => col_nil) m_col_Len srt m_icolumn_New
     m_icolumn_NewConst m_fcolumn_New m_fcolumn_NewConst m_ecolumn_New m_scolumn_New m_ecolumn_NewConst m_scolumn_NewConst
     m_bcolumn_New m_bcolumn_NewConst m_scolumn_NewBytes ncfg m_NewAscending ord1 ord2 ord3).

Lemma gq_New_loop5_eq srt ord2 ord3 (gd : gq_map gdyn) cfg : forall (l : list (bytes * gdyn)),
  if forallb (fun kv => check_name (fst kv)) l
  then g_loop5 srt ord2 ord3 l gd cfg = g_loop5 srt ord2 ord3 [] gd cfg
  else errq_like (g_loop5 srt ord2 ord3 l gd cfg).
Proof.
  induction l as [|[k v] l IH]; cbn [forallb fst]; [reflexivity|].
  cbn [gq_New_loop5]. rewrite gq_CheckName_nil. destruct (check_name k); cbn [negb andb].
  - exact IH.
  - unfold errq_like. eexists. reflexivity.
Qed.

Lemma forallb_perm {T} (p : T -> bool) (l l' : list T) : Permutation l l' -> forallb p l = forallb p l'.
Proof.
  intro H. induction H as [|x l l' H IH|x y l|l l' l'' H1 IH1 H2 IH2]; cbn [forallb].
  - reflexivity.
  - rewrite IH. reflexivity.
  - destruct (p x), (p y); reflexivity.
  - rewrite IH1. exact IH2.
Qed.

Lemma enums_left_all enums : enums_left enums [] = enums.
Proof. induction enums as [|kv r IH]; [reflexivity|]. cbn [enums_left filter existsb negb]. f_equal. exact IH. Qed.

(* New = Ops.new_frame, for every iteration order of the three map ranges, every canonical sort, every NewConfig
   answering the Config of the model's arguments.  Premise: the frame has fewer than 2^32 rows (the index is made by
   index.NewAscending(uint32(currentLen))). *)
Theorem gq_New_rep srt (ncfg : list CF -> outcome gq_Config) ord1 ord2 ord3 data order enums fns :
  sort_canonical srt -> perm_order ord1 -> perm_order ord2 ->
  NoDup (map fst data) -> NoDup (map fst enums) ->
  ncfg fns = Ok (gq_mk_Config order enums) ->
  (forall f, new_frame data order enums = Ok f -> Z.of_nat (length (ix f)) < 4294967296) ->
  match new_frame data order enums with
  | Ok f => exists q', g_New srt ncfg ord1 ord2 ord3 (gdata_of data) fns = Ok q' /\ rep q' f
  | Fail => False
  | Panic => g_New srt ncfg ord1 ord2 ord3 (gdata_of data) fns = Panic
  end.
Proof.
  intros Hsrt Ho1 Ho2 HndD HndE Hcfg Hrows. revert Hrows. rewrite new_frame_unfold. cbv zeta. intro Hrows.
  unfold gq_New. rewrite Hcfg. cbn [obind].
  pose proof (gq_New_loop5_eq srt ord2 ord3 (gdata_of data) (gq_mk_Config order enums) (ord1 _ (gdata_of data))) as H5.
  rewrite (forallb_perm _ _ _ (Ho1 _ (gdata_of data))) in H5.
  assert (Hchk : forallb (fun kv : bytes * gdyn => check_name (fst kv)) (gdata_of data)
                 = forallb (fun kv : bytes * newdata => check_name (fst kv)) data).
  { unfold gdata_of. generalize data. induction data0 as [|kv r IHr]; [reflexivity|]. cbn [map forallb fst]. rewrite IHr. reflexivity. }
  rewrite Hchk in H5. clear Hchk.
  destruct (forallb (fun kv : bytes * newdata => check_name (fst kv)) data); cbn [negb].
  2:{ destruct H5 as [e He]. rewrite He. eexists. split; [reflexivity|apply errq_rep]. }
  rewrite H5. clear H5. cbn [gq_New_loop5 gq_Config_ColumnOrder].
  (* the column order *)
  match goal with |- context [obind (if Z.of_nat (length order) =? 0 then ?a else ?b) _] =>
    assert (Hord : (if Z.of_nat (length order) =? 0 then a else b)
                   = Ok (gq_mk_Config (order_of data order) (enums_left enums [])))
  end.
  { rewrite enums_left_all. destruct order as [|o os].
    - cbn [length]. change (Z.of_nat 0 =? 0) with true. cbv iota.
      unfold gq_make. change (0 <? 0) with false. destruct (Z.of_nat (length (gdata_of data)) <? 0) eqn:E0; [lia|].
      cbn [orb obind Z.to_nat repeat]. unfold gq_Config_set_ColumnOrder. cbn [gq_Config_EnumColumns].
      rewrite gq_New_loop1_eq. cbn [obind]. do 2 f_equal.
      unfold order_of. apply (iter_sort_all srt Hsrt).
      + apply (Permutation_NoDup (l := map fst (gdata_of data))).
        * apply Permutation_map, Permutation_sym, Ho2.
        * rewrite gdata_keys. exact HndD.
      + rewrite <- gdata_keys. apply Permutation_map, Ho2.
    - replace (Z.of_nat (length (o :: os)) =? 0) with false by (cbn [length]; lia). reflexivity. }
  rewrite Hord. cbn [obind]. clear Hord. cbn [gq_Config_ColumnOrder].
  assert (Hlen : (Z.of_nat (length (order_of data order)) =? Z.of_nat (length (gdata_of data)))
                 = Nat.eqb (length (order_of data order)) (length data)).
  { unfold gdata_of. rewrite map_length. destruct (Nat.eqb (length (order_of data order)) (length data)) eqn:En.
    - apply Nat.eqb_eq in En. rewrite En. apply Z.eqb_refl.
    - apply Nat.eqb_neq in En. apply Z.eqb_neq. lia. }
  rewrite Hlen. clear Hlen.
  destruct (Nat.eqb (length (order_of data order)) (length data)) eqn:Elen; cbn [negb].
  2:{ eexists. split; [reflexivity|apply errq_rep]. }
  (* membership and repetitions *)
  pose proof (gq_New_loop4_eq ord3 (gdata_of data) (gq_mk_Config (order_of data order) (enums_left enums []))
                (order_of data order) [] [] (fun x => eq_refl)) as H4.
  rewrite go_nodup_nil in H4.
  assert (Hmem : forallb (fun n => gq_mhas (gdata_of data) n) (order_of data order)
                 = forallb (fun n => match assocb n data with Some _ => true | None => false end) (order_of data order)).
  { generalize (order_of data order). induction l as [|n r IHr]; [reflexivity|]. cbn [forallb]. rewrite gdata_has, IHr. reflexivity. }
  rewrite Hmem in H4. clear Hmem.
  destruct (forallb (fun n => match assocb n data with Some _ => true | None => false end) (order_of data order)) eqn:Emem;
    cbn [negb andb] in *.
  2:{ destruct H4 as [e He]. rewrite He. eexists. split; [reflexivity|apply errq_rep]. }
  destruct (nodup_bytes (order_of data order)); cbn [negb].
  2:{ destruct H4 as [e He]. rewrite He. eexists. split; [reflexivity|apply errq_rep]. }
  rewrite H4. clear H4. cbn [gq_New_loop4 gq_Config_ColumnOrder].
  assert (Hn : length (gdata_of data) = length (order_of data order)).
  { unfold gdata_of. rewrite map_length. apply Nat.eqb_eq in Elen. symmetry. exact Elen. }
  rewrite Hn. rewrite gq_make_nat. cbn [obind].
  (* the columns *)
  pose proof (gq_New_loop3_eq ord3 data enums (order_of data order) HndE (order_of data order) [] 0%nat [] []
                Emem (NoDup_nil _) (fun k => eq_refl)) as H3.
  cbn [ncols_from app length] in H3. change (Z.of_nat 0) with 0 in H3.
  destruct (ofold (nstep data enums) (order_of data order) ([], 0%nat, [])) as [[[cs len] used]| |].
  - destruct (negb (forallb (fun kv => existsb (bytes_eqb (fst kv)) used) enums)).
    + destruct H3 as [e He]. rewrite He. eexists. split; [reflexivity|apply errq_rep].
    + apply H3. specialize (Hrows _ eq_refl). cbn [ix] in Hrows. rewrite seq_length in Hrows. exact Hrows.
  - destruct H3 as [e He]. rewrite He. eexists. split; [reflexivity|apply errq_rep].
  - exact H3.
Qed.

End NewRep.

(* the generated createColumn / New with the abstraction boundary instantiated by the model's constructors *)
Definition m_createColumn {E : Type} (col_nil : coldata) (new_error : bytes -> bytes -> E) (propagate : bytes -> option E -> E)
  (enum_error : E) : bytes -> gq_dyn coldata N unit unit -> gq_Config -> outcome (coldata * option E * gq_Config) :=
  gq_createColumn col_nil new_error propagate (fun _ : unit => col_nil) m_icolumn_New m_icolumn_NewConst m_fcolumn_New
    m_fcolumn_NewConst (m_ecolumn_New col_nil enum_error) m_scolumn_New (m_ecolumn_NewConst col_nil enum_error)
    m_scolumn_NewConst m_bcolumn_New m_bcolumn_NewConst m_scolumn_NewBytes.

Definition m_New {E CF : Type} (col_nil : coldata) (new_error : bytes -> bytes -> E) (propagate : bytes -> option E -> E)
  (checkname_error : bytes -> E) (enum_error : E) (srt : list bytes -> list bytes) (ncfg : list CF -> outcome gq_Config)
  (ord1 ord2 ord3 : forall V : Type, gq_map V -> gq_map V)
  : gq_map (gq_dyn coldata N unit unit) -> list CF -> outcome (gq_QFrame nat E coldata) :=
  gq_New col_nil new_error propagate checkname_error (fun _ : unit => col_nil) m_col_Len srt m_icolumn_New
    m_icolumn_NewConst m_fcolumn_New m_fcolumn_NewConst (m_ecolumn_New col_nil enum_error) m_scolumn_New
    (m_ecolumn_NewConst col_nil enum_error) m_scolumn_NewConst m_bcolumn_New m_bcolumn_NewConst m_scolumn_NewBytes
    ncfg m_NewAscending ord1 ord2 ord3.

(* ------------------------------------------------------------------ the model's own sort is canonical *)

From Coq Require Import Sorted RelationClasses.

Lemma bcmp_antisym : forall a b, bytes_cmp b a = CompOpp (bytes_cmp a b).
Proof.
  induction a as [|x a IH]; intros [|y b]; cbn [bytes_cmp CompOpp]; try reflexivity.
  rewrite (N.compare_antisym x y). destruct (N.compare x y); cbn [CompOpp]; [apply IH|reflexivity|reflexivity].
Qed.

Lemma bcmp_eq : forall a b, bytes_cmp a b = Eq -> a = b.
Proof.
  induction a as [|x a IH]; intros [|y b]; cbn [bytes_cmp]; try discriminate; [reflexivity|].
  destruct (N.compare_spec x y) as [Hxy|Hxy|Hxy]; try discriminate. intro Hr. subst. f_equal. apply IH. exact Hr.
Qed.

Lemma bcmp_le_trans : forall a b c, bytes_cmp a b <> Gt -> bytes_cmp b c <> Gt -> bytes_cmp a c <> Gt.
Proof.
  induction a as [|x a IH]; intros [|y b] [|z c]; cbn [bytes_cmp]; try congruence.
  destruct (N.compare_spec x y), (N.compare_spec y z), (N.compare_spec x z); subst; try congruence; try lia; eauto.
Qed.

Definition bytes_le (a b : bytes) : Prop := bytes_cmp a b <> Gt.

Lemma bytes_le_antisym a b : bytes_le a b -> bytes_le b a -> a = b.
Proof.
  unfold bytes_le. intros H1 H2. rewrite (bcmp_antisym a b) in H2. apply bcmp_eq.
  destruct (bytes_cmp a b); cbn [CompOpp] in H2; congruence.
Qed.

Lemma insert_sorted_ssorted s : forall l, StronglySorted bytes_le l -> StronglySorted bytes_le (insert_sorted s l).
Proof.
  induction l as [|x l IH]; intro Hs; cbn [insert_sorted]; [repeat constructor|].
  inversion Hs as [|? ? Hs' Hall]; subst.
  assert (Hcase : bytes_cmp s x <> Gt -> StronglySorted bytes_le (s :: x :: l)).
  { intro Hle. constructor; [exact Hs|]. constructor; [exact Hle|].
    rewrite Forall_forall in *. intros y Hy. apply (bcmp_le_trans s x y Hle (Hall y Hy)). }
  destruct (bytes_cmp s x) eqn:Ec; try (apply Hcase; congruence).
  constructor; [apply IH; exact Hs'|]. rewrite Forall_forall in *. intros y Hy.
  apply (Permutation_in (l' := s :: l)) in Hy; [|apply insert_sorted_perm'].
  destruct Hy as [Hy|Hy]; [|apply Hall; exact Hy]. subst y. unfold bytes_le.
  rewrite (bcmp_antisym s x), Ec. cbn [CompOpp]. discriminate.
Qed.

Lemma sort_names_ssorted l : StronglySorted bytes_le (sort_names l).
Proof.
  induction l as [|x l IH]; [constructor|]. unfold sort_names in *. cbn [fold_right]. apply insert_sorted_ssorted. exact IH.
Qed.

Lemma ssorted_perm_unique : forall a b, StronglySorted bytes_le a -> StronglySorted bytes_le b -> Permutation a b -> a = b.
Proof.
  induction a as [|x a IH]; intros b Ha Hb Hp.
  - apply Permutation_nil in Hp. subst. reflexivity.
  - destruct b as [|y b]; [apply Permutation_sym, Permutation_nil in Hp; discriminate|].
    inversion Ha as [|? ? Ha' Hxa]; subst. inversion Hb as [|? ? Hb' Hyb]; subst.
    rewrite Forall_forall in Hxa, Hyb.
    assert (Hxy : x = y).
    { assert (Hx : In x (y :: b)) by (apply (Permutation_in _ Hp); left; reflexivity).
      assert (Hy : In y (x :: a)) by (apply (Permutation_in _ (Permutation_sym Hp)); left; reflexivity).
      destruct Hx as [Hx|Hx]; [symmetry; exact Hx|]. destruct Hy as [Hy|Hy]; [exact Hy|].
      apply bytes_le_antisym; [apply Hxa; exact Hy|apply Hyb; exact Hx]. }
    subst y. f_equal. apply IH; [exact Ha'|exact Hb'|]. apply (Permutation_cons_inv Hp).
Qed.

Lemma sort_names_canonical : sort_canonical sort_names.
Proof.
  intros l l' _ Hp. apply ssorted_perm_unique; try apply sort_names_ssorted.
  eapply Permutation_trans; [apply sort_names_perm'|]. eapply Permutation_trans; [exact Hp|].
  apply Permutation_sym, sort_names_perm'.
Qed.

(* ================================================================== apply0 .. FilteredApply, WithRowNums ===== *)

(* The abstraction boundary: Column.Apply1 / Column.Apply2 (ca1, ca2) and QFrame.Filter (flt: tied by
   Properties/T1Filter.v) are arguments of the generated functions; the theorems hold for EVERY ca1 / ca2 / flt that
   answer what the model's col_apply1 / col_apply2 / frame_filter answer ([apply1_ok] .. [filter_ok]); the column
   constructors icolumn.New .. and Column.Len are the model's, a row id used as a position is Z.of_nat, and
   newqf.NewConfig(nil) answers the empty Config ([ncfg_empty]).
   Function values.  types.DataFuncOrBuiltInId is interface{}: a value tagged with its dynamic type.  [fn_of fn] is
   the Go value of the model's descriptor fn: a constant is the value itself (int, float64, bool, *string), a
   types.ColumnName its name, func() T the function value [popper vals] whose successive calls answer the recorded
   results vals (and which panics when they are used up — as the model's scatter does), everything else (one- and
   two-argument functions, built-in names) a value of a type apply0 does not name, carrying the descriptor for the
   columns (OTHER = afn).  A string constant (not pointer) is covered by [gq_apply0_string_sim].
   [sim r m]: the Go result r and the model result m agree: both panic, or both answer frames in the representation
   relation. *)

Section ApplyRep.
Context {E CF : Type}.
Variable col_nil : coldata.
Variable new_error : bytes -> bytes -> E.
Variable propagate : bytes -> option E -> E.
Variable checkname_error : bytes -> E.
Variable unknownCol : bytes -> bytes.
Variable enum_error : E.
Variable ord : forall V : Type, gq_map V -> gq_map V.
Variable Hord : perm_order ord.
Variable ut : upper_table.
Variable ncfg : list CF -> outcome gq_Config.
Definition ncfg_empty : Prop := ncfg [] = Ok (gq_mk_Config [] []).
Variable Hncfg : ncfg_empty.

Notation adyn := (gq_dyn coldata N unit afn).
Notation gframe := (gq_QFrame nat E coldata).

Definition sim (r : outcome gframe) (m : outcome frame) : Prop :=
  match m with
  | Ok f' => exists q', r = Ok q' /\ rep q' f'
  | Fail => r = Fail
  | Panic => r = Panic
  end.

(* func() T: the recorded results, one per call *)
Definition popper {T : Type} (vals : list T) : gq_func0 T :=
  gq_mk_func0 vals (fun s => match s with [] => Panic | v :: r => Ok (v, r) end).

Definition cell_int (c : cell) : Z := match c with CInt z => z | _ => 0 end.
Definition cell_float (c : cell) : N := match c with CFloat b => b | _ => 0%N end.
Definition cell_bool (c : cell) : bool := match c with CBool b => b | _ => false end.
Definition cell_str (c : cell) : option bytes := match c with CStr s => s | _ => None end.

Definition fn_of (fn : afn) : adyn :=
  match fn with
  | F0Stream TInt vals => gq_dyn_func_int (popper (map cell_int vals))
  | F0Stream TFloat vals => gq_dyn_func_float64 (popper (map cell_float vals))
  | F0Stream TBool vals => gq_dyn_func_bool (popper (map cell_bool vals))
  | F0Stream TString vals => gq_dyn_func_ptr_string (popper (map cell_str vals))
  | F0Const (CInt z) => gq_dyn_int z
  | F0Const (CFloat b) => gq_dyn_float64 b
  | F0Const (CBool b) => gq_dyn_bool b
  | F0Const (CStr s) => gq_dyn_ptr_string s
  | F0ColName n => gq_dyn_types_ColumnName n
  | _ => gq_dyn_other fn
  end.

(* the descriptors that stand for a Go value: no func() of an enum type, results of the declared type, no enum constant *)
Definition fn_wf (fn : afn) : bool :=
  match fn with
  | F0Stream t vals => negb (ctype_eqb t TEnum) && forallb (cell_type_ok t) vals
  | F0Const (CEnum _) => false
  | _ => true
  end.

(* the column a dynamic Apply1 result stands for: a raw slice is wrapped by apply1, a Column is taken as it is *)
Definition dyn_col (dy : adyn) : option coldata :=
  match dy with
  | gq_dyn_slice_int d => Some (ICol d)
  | gq_dyn_slice_float64 d => Some (FCol d)
  | gq_dyn_slice_bool d => Some (BCol d)
  | gq_dyn_slice_ptr_string d => Some (SCol d)
  | gq_dyn_column_Column c => Some c
  | _ => None
  end.

Definition apply1_ok (ca1 : coldata -> adyn -> list nat -> outcome (adyn * option E)) : Prop :=
  forall c fn i,
  match col_apply1 ut c fn i with
  | Ok r => exists dy, ca1 c (fn_of fn) i = Ok (dy, None) /\ dyn_col dy = Some r
  | Fail => exists dy e, ca1 c (fn_of fn) i = Ok (dy, Some e)
  | Panic => ca1 c (fn_of fn) i = Panic
  end.

Definition apply2_ok (ca2 : coldata -> adyn -> coldata -> list nat -> outcome (coldata * option E)) : Prop :=
  forall c fn c2 i,
  match col_apply2 c c2 fn i with
  | Ok r => ca2 c (fn_of fn) c2 i = Ok (r, None)
  | Fail => exists r e, ca2 c (fn_of fn) c2 i = Ok (r, Some e)
  | Panic => ca2 c (fn_of fn) c2 i = Panic
  end.

Definition filter_ok (mt : matcher_table) (flt : gframe -> clause -> outcome gframe) : Prop :=
  forall q f c, rep q f -> sim (flt q c) (frame_filter mt f c).

Variable ca1 : coldata -> adyn -> list nat -> outcome (adyn * option E).
Variable ca2 : coldata -> adyn -> coldata -> list nat -> outcome (coldata * option E).
Variable Hca1 : apply1_ok ca1.
Variable Hca2 : apply2_ok ca2.

Notation g_apply0 :=
  (gq_QFrame_apply0 (OTHER := afn) col_nil new_error propagate checkname_error unknownCol (fun _ : unit => col_nil) m_col_Len 0%N
     Z.of_nat ord m_icolumn_New m_icolumn_NewConst m_fcolumn_New m_fcolumn_NewConst (m_ecolumn_New col_nil enum_error)
     m_scolumn_New (m_ecolumn_NewConst col_nil enum_error) m_scolumn_NewConst m_bcolumn_New m_bcolumn_NewConst
     m_scolumn_NewBytes ncfg).
Notation g_apply1 :=
  (gq_QFrame_apply1 col_nil new_error propagate checkname_error unknownCol ord m_icolumn_New m_fcolumn_New m_scolumn_New
     m_bcolumn_New ca1).
Notation g_apply2 := (gq_QFrame_apply2 col_nil new_error propagate checkname_error unknownCol ord ca2).
Notation g_Apply_loop :=
  (gq_QFrame_Apply_loop1 col_nil new_error propagate checkname_error unknownCol (fun _ : unit => col_nil) m_col_Len 0%N
     Z.of_nat ord m_icolumn_New m_icolumn_NewConst m_fcolumn_New m_fcolumn_NewConst (m_ecolumn_New col_nil enum_error)
     m_scolumn_New (m_ecolumn_NewConst col_nil enum_error) m_scolumn_NewConst m_bcolumn_New m_bcolumn_NewConst
     m_scolumn_NewBytes ncfg ca1 ca2).
Notation g_Apply :=
  (gq_QFrame_Apply col_nil new_error propagate checkname_error unknownCol (fun _ : unit => col_nil) m_col_Len 0%N
     Z.of_nat ord m_icolumn_New m_icolumn_NewConst m_fcolumn_New m_fcolumn_NewConst (m_ecolumn_New col_nil enum_error)
     m_scolumn_New (m_ecolumn_NewConst col_nil enum_error) m_scolumn_NewConst m_bcolumn_New m_bcolumn_NewConst
     m_scolumn_NewBytes ncfg ca1 ca2).
Notation g_setColumn := (gq_QFrame_setColumn col_nil propagate checkname_error ord).

Lemma sim_withErr (q : gframe) f e : rep q f -> sim (do t <- gq_QFrame_withErr q (Some e); Ok t) (Ok (with_err f)).
Proof.
  intro H. destruct (gq_withErr_rep q f e H) as (q' & Hq & Hr). rewrite Hq. exists q'. split; [reflexivity|exact Hr].
Qed.

Lemma sim_setColumn (q : gframe) f name c : rep q f -> sim (do t <- g_setColumn q name c; Ok t) (Ok (set_column f name c)).
Proof.
  intro H. destruct (gq_setColumn_rep col_nil new_error propagate checkname_error unknownCol ord q f name c Hord H) as (q' & Hq & Hr).
  rewrite Hq. exists q'. split; [reflexivity|exact Hr].
Qed.

(* ------------------------------------------------------------------ apply0: the loop  lData[i] = t() *)

(* the four loops of apply0 are this one, at int, float64, bool, *string *)
Definition fill_loop {T : Type} : list nat -> gq_func0 T -> list T -> outcome (gq_func0 T * list T) :=
  fix loop (l : list nat) (g : gq_func0 T) (arr : list T) {struct l} : outcome (gq_func0 T * list T) :=
  match l with
  | [] => Ok (g, arr)
  | p :: l' =>
      do (v, g) <- gq_func0_call g;
      do arr' <- gq_update arr (Z.of_nat p) v;
      loop l' g arr'
  end.

Lemma loop1_fill : gq_QFrame_apply0_loop1 Z.of_nat = fill_loop (T := Z). Proof. reflexivity. Qed.
Lemma loop2_fill : gq_QFrame_apply0_loop2 Z.of_nat = fill_loop (T := N). Proof. reflexivity. Qed.
Lemma loop3_fill : gq_QFrame_apply0_loop3 Z.of_nat = fill_loop (T := bool). Proof. reflexivity. Qed.
Lemma loop4_fill : gq_QFrame_apply0_loop4 Z.of_nat = fill_loop (T := option bytes). Proof. reflexivity. Qed.

Lemma gq_update_map {T} (inj : T -> cell) (arr : list T) p v :
  (p < length arr)%nat -> gq_update arr (Z.of_nat p) v = Ok (set_nth arr p v).
Proof. apply gq_update_nat. Qed.

Lemma set_nth_map {T U} (h : T -> U) : forall (arr : list T) p v, set_nth (map h arr) p (h v) = map h (set_nth arr p v).
Proof.
  induction arr as [|x arr IH]; intros p v; destruct p; cbn [map set_nth]; try reflexivity. f_equal. apply IH.
Qed.

(* the recorded results: the loop is the model's scatter, fault for fault *)
Lemma fill_popper {T} (inj : T -> cell) : forall (index : list nat) (vals arr : list T),
  match scatter (map inj arr) index (map inj vals) with
  | Ok cells => exists g' arr', fill_loop index (popper vals) arr = Ok (g', arr') /\ map inj arr' = cells
  | Fail => False
  | Panic => fill_loop index (popper vals) arr = Panic
  end.
Proof.
  induction index as [|p index IH]; intros vals arr; cbn [scatter fill_loop].
  - eexists _, arr. split; reflexivity.
  - destruct vals as [|v vals]; cbn [map]; [reflexivity|].
    cbn [popper gq_func0_call obind fst snd]. rewrite map_length.
    destruct (p <? length arr)%nat eqn:Ep.
    + apply Nat.ltb_lt in Ep. rewrite (gq_update_nat arr p v Ep). cbn [obind]. rewrite set_nth_map. apply IH.
    + apply Nat.ltb_ge in Ep. unfold gq_update. destruct (Z.of_nat p <? 0) eqn:E0; [lia|]. rewrite Nat2Z.id.
      unfold idx. replace (nth_error arr p) with (@None T) by (symmetry; apply nth_error_None; lia). reflexivity.
Qed.

(* any function value whose next calls answer vals *)
Fixpoint yields {T : Type} (g : gq_func0 T) (vals : list T) : Prop :=
  match vals with
  | [] => True
  | v :: r => exists g', gq_func0_call g = Ok (v, g') /\ yields g' r
  end.

Lemma fill_yields {T} (inj : T -> cell) : forall (index : list nat) (g : gq_func0 T) (vals arr : list T),
  yields g vals -> length vals = length index ->
  match scatter (map inj arr) index (map inj vals) with
  | Ok cells => exists g' arr', fill_loop index g arr = Ok (g', arr') /\ map inj arr' = cells
  | Fail => False
  | Panic => fill_loop index g arr = Panic
  end.
Proof.
  induction index as [|p index IH]; intros g vals arr Hy Hlen; cbn [scatter fill_loop].
  - eexists _, arr. split; reflexivity.
  - destruct vals as [|v vals]; [discriminate|]. cbn [map]. cbn [yields] in Hy. destruct Hy as (g' & Hcall & Hy).
    rewrite Hcall. cbn [obind]. rewrite map_length.
    destruct (p <? length arr)%nat eqn:Ep.
    + apply Nat.ltb_lt in Ep. rewrite (gq_update_nat arr p v Ep). cbn [obind]. rewrite set_nth_map.
      apply IH; [exact Hy|]. cbn [length] in Hlen. lia.
    + apply Nat.ltb_ge in Ep. unfold gq_update. destruct (Z.of_nat p <? 0) eqn:E0; [lia|]. rewrite Nat2Z.id.
      unfold idx. replace (nth_error arr p) with (@None T) by (symmetry; apply nth_error_None; lia). reflexivity.
Qed.

Lemma yields_pure {T} (v : T) : forall k, yields (gq_func0_pure v) (repeat v k).
Proof. induction k as [|k IH]; cbn [repeat yields]; [exact I|]. eexists. split; [reflexivity|exact IH]. Qed.

(* the closure of WithRowNums: i++; return i *)
Definition counter (i : Z) : gq_func0 Z := gq_mk_func0 i (fun v_i => let v_i := v_i + 1 in Ok (v_i, v_i)).

Lemma yields_counter : forall k i, yields (counter i) (map (fun j => i + 1 + Z.of_nat j) (seq 0 k)).
Proof.
  induction k as [|k IH]; intro i; cbn [seq map yields]; [exact I|].
  eexists. split; [cbn [counter gq_func0_call obind fst snd]; rewrite Z.add_0_r; reflexivity|].
  rewrite <- seq_shift, map_map. fold (counter (i + 1)).
  replace (map (fun j => i + 1 + Z.of_nat (S j)) (seq 0 k)) with (map (fun j => i + 1 + 1 + Z.of_nat j) (seq 0 k)).
  - apply IH.
  - apply map_ext. intro j. lia.
Qed.

(* the typed cells of a column *)
Lemma col_of_cells_int d : col_of_cells TInt (map CInt d) = Ok (ICol d).
Proof.
  cbn [col_of_cells]. assert (H : omap (fun c => match c with CInt z => Ok z | _ => Panic end) (map CInt d) = Ok d).
  { induction d as [|x d IH]; cbn [map omap]; [reflexivity|]. rewrite IH. reflexivity. }
  rewrite H. reflexivity.
Qed.
Lemma col_of_cells_float d : col_of_cells TFloat (map CFloat d) = Ok (FCol d).
Proof.
  cbn [col_of_cells]. assert (H : omap (fun c => match c with CFloat z => Ok z | _ => Panic end) (map CFloat d) = Ok d).
  { induction d as [|x d IH]; cbn [map omap]; [reflexivity|]. rewrite IH. reflexivity. }
  rewrite H. reflexivity.
Qed.
Lemma col_of_cells_bool d : col_of_cells TBool (map CBool d) = Ok (BCol d).
Proof.
  cbn [col_of_cells]. assert (H : omap (fun c => match c with CBool z => Ok z | _ => Panic end) (map CBool d) = Ok d).
  { induction d as [|x d IH]; cbn [map omap]; [reflexivity|]. rewrite IH. reflexivity. }
  rewrite H. reflexivity.
Qed.
Lemma col_of_cells_str d : col_of_cells TString (map CStr d) = Ok (SCol d).
Proof.
  cbn [col_of_cells]. assert (H : omap (fun c => match c with CStr z => Ok z | _ => Panic end) (map CStr d) = Ok d).
  { induction d as [|x d IH]; cbn [map omap]; [reflexivity|]. rewrite IH. reflexivity. }
  rewrite H. reflexivity.
Qed.

Lemma typed_cells_int vals : forallb (cell_type_ok TInt) vals = true -> map CInt (map cell_int vals) = vals.
Proof.
  induction vals as [|c vals IH]; cbn [forallb map]; intro H; [reflexivity|]. apply andb_true_iff in H. destruct H as [Hc Hv].
  rewrite (IH Hv). destruct c; try discriminate. reflexivity.
Qed.
Lemma typed_cells_float vals : forallb (cell_type_ok TFloat) vals = true -> map CFloat (map cell_float vals) = vals.
Proof.
  induction vals as [|c vals IH]; cbn [forallb map]; intro H; [reflexivity|]. apply andb_true_iff in H. destruct H as [Hc Hv].
  rewrite (IH Hv). destruct c; try discriminate. reflexivity.
Qed.
Lemma typed_cells_bool vals : forallb (cell_type_ok TBool) vals = true -> map CBool (map cell_bool vals) = vals.
Proof.
  induction vals as [|c vals IH]; cbn [forallb map]; intro H; [reflexivity|]. apply andb_true_iff in H. destruct H as [Hc Hv].
  rewrite (IH Hv). destruct c; try discriminate. reflexivity.
Qed.
Lemma typed_cells_str vals : forallb (cell_type_ok TString) vals = true -> map CStr (map cell_str vals) = vals.
Proof.
  induction vals as [|c vals IH]; cbn [forallb map]; intro H; [reflexivity|]. apply andb_true_iff in H. destruct H as [Hc Hv].
  rewrite (IH Hv). destruct c; try discriminate. reflexivity.
Qed.

(* ------------------------------------------------------------------ apply0 *)

Lemma map_repeat' {T U} (h : T -> U) v k : map h (repeat v k) = repeat (h v) k.
Proof. induction k as [|k IH]; cbn [repeat map]; [reflexivity|]. rewrite IH. reflexivity. Qed.

(* colLen: qf.columns[0].Len(), 0 without columns *)
Lemma rep_colLen (q : gframe) f : rep q f ->
  (if 0 <? Z.of_nat (length (gq_QFrame_columns q))
   then do t1 <- gq_index (gq_QFrame_columns q) 0; do t2 <- m_col_Len (gq_namedColumn_Column t1); Ok t2
   else Ok 0) = Ok (Z.of_nat (phys_len f)).
Proof.
  intros (Hc & _). rewrite Hc. unfold phys_len. destruct (cols f) as [|[n c] r]; [reflexivity|].
  cbn [ncols_from length]. replace (0 <? Z.of_nat (S (length (ncols_from 1 r)))) with true by lia. reflexivity.
Qed.

(* the tail of apply0: createColumn on the data made, then setColumn *)
Ltac apply0_tail Hrep :=
  rewrite Hncfg; cbn [obind];
  unfold gq_createColumn; cbn [obind gq_constCount gq_isnil negb gq_mhas gq_mget gq_mget_or gq_Config_EnumColumns
                                 m_icolumn_New m_fcolumn_New m_bcolumn_New m_scolumn_New
                                 m_icolumn_NewConst m_fcolumn_NewConst m_bcolumn_NewConst m_scolumn_NewConst
                                 gq_ConstInt_Val gq_ConstInt_Count gq_ConstFloat_Val gq_ConstFloat_Count
                                 gq_ConstBool_Val gq_ConstBool_Count gq_ConstString_Val gq_ConstString_Count];
  try (match goal with |- context [Z.of_nat ?n <? 0] => replace (Z.of_nat n <? 0) with false by lia end;
       cbn [andb obind gq_isnil negb gq_mhas gq_mget gq_mget_or gq_Config_EnumColumns
              m_icolumn_NewConst m_fcolumn_NewConst m_bcolumn_NewConst m_scolumn_NewConst]);
  try rewrite Nat2Z.id;
  apply sim_setColumn; exact Hrep.

(* a func() T with recorded results *)
Ltac apply0_after_fill Hrep Hfill cells_lemma :=
  let cells := fresh "cells" in let g' := fresh "g" in let arr' := fresh "arr" in
  let Hrun := fresh "Hrun" in let Hcells := fresh "Hcells" in
  match type of Hfill with match ?sc with _ => _ end => destruct sc as [cells| |] end;
  [ destruct Hfill as (g' & arr' & Hrun & Hcells); rewrite Hrun; cbn [obind]; subst cells; rewrite cells_lemma; cbn [obind];
    apply0_tail Hrep
  | contradiction
  | rewrite Hfill; reflexivity ].

Ltac apply0_stream Hrep Htyped inj loopfill cells_lemma :=
  let Hfill := fresh "Hfill" in
  cbv iota; rewrite gq_make_nat; cbn [obind]; rewrite loopfill;
  match goal with |- context [fill_loop ?index (popper ?vals) (repeat ?z ?n)] =>
    pose proof (fill_popper inj index vals (repeat z n)) as Hfill
  end;
  rewrite map_repeat', Htyped in Hfill; cbn [zero_cell];
  apply0_after_fill Hrep Hfill cells_lemma.

(* a constant on a frame that does not cover its columns: the closure func() T { return t } *)
Ltac apply0_const_partial Hrep inj loopfill cells_lemma :=
  let Hfill := fresh "Hfill" in
  cbv iota; rewrite gq_make_nat; cbn [obind]; rewrite loopfill;
  match goal with |- context [fill_loop ?index (gq_func0_pure ?w) (repeat ?z ?n)] =>
    pose proof (fill_yields inj index (gq_func0_pure w) (repeat w (length index)) (repeat z n)
                  (yields_pure w (length index)) (repeat_length w (length index))) as Hfill
  end;
  rewrite !map_repeat' in Hfill; cbn [zero_cell const_type];
  apply0_after_fill Hrep Hfill cells_lemma.

Lemma gq_apply0_sim (q : gframe) f fn dst : fn_wf fn = true -> rep q f -> sim (g_apply0 q (fn_of fn) dst) (apply0 f fn dst).
Proof.
  intros Hwf Hrep. pose proof Hrep as (Hc & Hi & He & Hn & Hm).
  unfold gq_QFrame_apply0, apply0. rewrite He.
  destruct (ferr f) eqn:Ef; [exists q; split; [reflexivity|exact Hrep]|]. cbn [negb].
  rewrite (rep_colLen q f Hrep). cbn [obind]. rewrite Hi.
  assert (Hcmp : (Z.of_nat (length (ix f)) =? Z.of_nat (phys_len f)) = Nat.eqb (length (ix f)) (phys_len f)).
  { destruct (Nat.eqb (length (ix f)) (phys_len f)) eqn:En.
    - apply Nat.eqb_eq in En. rewrite En. apply Z.eqb_refl.
    - apply Nat.eqb_neq in En. apply Z.eqb_neq. lia. }
  rewrite Hcmp. clear Hcmp.
  destruct fn as [t vals|c|src|tin tout tbl|t tbl|name|]; cbn [fn_of fn_wf] in *.
  - (* func() T *)
    apply andb_true_iff in Hwf. destruct Hwf as [Hne Htyped].
    destruct t; cbn [ctype_eqb negb] in *; try discriminate;
      destruct (negb (Nat.eqb (length (ix f)) (phys_len f))); cbn [obind].
    + apply0_stream Hrep (typed_cells_int vals Htyped) CInt loop1_fill col_of_cells_int.
    + apply0_stream Hrep (typed_cells_int vals Htyped) CInt loop1_fill col_of_cells_int.
    + apply0_stream Hrep (typed_cells_float vals Htyped) CFloat loop2_fill col_of_cells_float.
    + apply0_stream Hrep (typed_cells_float vals Htyped) CFloat loop2_fill col_of_cells_float.
    + apply0_stream Hrep (typed_cells_bool vals Htyped) CBool loop3_fill col_of_cells_bool.
    + apply0_stream Hrep (typed_cells_bool vals Htyped) CBool loop3_fill col_of_cells_bool.
    + apply0_stream Hrep (typed_cells_str vals Htyped) CStr loop4_fill col_of_cells_str.
    + apply0_stream Hrep (typed_cells_str vals Htyped) CStr loop4_fill col_of_cells_str.
  - (* a constant *)
    destruct c as [z|b|b|s|s]; try discriminate;
      destruct (Nat.eqb (length (ix f)) (phys_len f)) eqn:Eix; cbn [negb obind const_col].
    + cbv iota. apply0_tail Hrep.
    + apply0_const_partial Hrep CInt loop1_fill col_of_cells_int.
    + cbv iota. apply0_tail Hrep.
    + apply0_const_partial Hrep CFloat loop2_fill col_of_cells_float.
    + cbv iota. apply0_tail Hrep.
    + apply0_const_partial Hrep CBool loop3_fill col_of_cells_bool.
    + cbv iota. apply0_tail Hrep.
    + apply0_const_partial Hrep CStr loop4_fill col_of_cells_str.
  - (* types.ColumnName: Copy *)
    destruct (negb (Nat.eqb (length (ix f)) (phys_len f))); cbn [obind]; cbv iota;
      destruct (gq_Copy_rep col_nil new_error propagate checkname_error unknownCol ord q f dst src Hord Hrep) as (q' & Hq & Hr);
      rewrite Hq; exists q'; (split; [reflexivity|exact Hr]).
  - destruct (negb (Nat.eqb (length (ix f)) (phys_len f))); cbn [obind]; cbv iota; apply sim_withErr; exact Hrep.
  - destruct (negb (Nat.eqb (length (ix f)) (phys_len f))); cbn [obind]; cbv iota; apply sim_withErr; exact Hrep.
  - destruct (negb (Nat.eqb (length (ix f)) (phys_len f))); cbn [obind]; cbv iota; apply sim_withErr; exact Hrep.
  - destruct (negb (Nat.eqb (length (ix f)) (phys_len f))); cbn [obind]; cbv iota; apply sim_withErr; exact Hrep.
Qed.

(* a string constant (the Go type string, not *string) is the constant CStr (Some s) *)
Lemma gq_apply0_string_sim (q : gframe) f s dst : rep q f ->
  sim (g_apply0 q (gq_dyn_string s) dst) (apply0 f (F0Const (CStr (Some s))) dst).
Proof.
  intros Hrep. pose proof Hrep as (Hc & Hi & He & Hn & Hm).
  unfold gq_QFrame_apply0, apply0. rewrite He.
  destruct (ferr f) eqn:Ef; [exists q; split; [reflexivity|exact Hrep]|]. cbn [negb].
  rewrite (rep_colLen q f Hrep). cbn [obind]. rewrite Hi.
  assert (Hcmp : (Z.of_nat (length (ix f)) =? Z.of_nat (phys_len f)) = Nat.eqb (length (ix f)) (phys_len f)).
  { destruct (Nat.eqb (length (ix f)) (phys_len f)) eqn:En.
    - apply Nat.eqb_eq in En. rewrite En. apply Z.eqb_refl.
    - apply Nat.eqb_neq in En. apply Z.eqb_neq. lia. }
  rewrite Hcmp. clear Hcmp.
  destruct (Nat.eqb (length (ix f)) (phys_len f)) eqn:Eix; cbn [negb obind const_col].
  - cbv iota. apply0_tail Hrep.
  - apply0_const_partial Hrep CStr loop4_fill col_of_cells_str.
Qed.

(* ------------------------------------------------------------------ apply1, apply2 *)

Lemma gq_apply1_sim (q : gframe) f fn dst src : rep q f -> sim (g_apply1 q (fn_of fn) dst src) (apply1 ut f fn dst src).
Proof.
  intro Hrep. pose proof Hrep as (Hc & Hi & He & Hn & Hm).
  unfold gq_QFrame_apply1, apply1. rewrite He.
  destruct (ferr f) eqn:Ef; [exists q; split; [reflexivity|exact Hrep]|]. cbn [negb].
  rewrite (rep_mhas q f src Hrep). unfold contains, lookup_col.
  destruct (lookup f src) as [[p c]|] eqn:Elk; cbn [negb option_map snd].
  2:{ apply sim_withErr. exact Hrep. }
  rewrite (rep_mget_or q f src _ p c Hrep Elk). cbn [gq_namedColumn_Column]. rewrite Hi.
  pose proof (Hca1 c fn (ix f)) as H1.
  destruct (col_apply1 ut c fn (ix f)) as [r| |].
  - destruct H1 as (dy & Hrun & Hdy). rewrite Hrun. cbn [obind gq_isnil negb].
    destruct dy; cbn [dyn_col] in Hdy; try discriminate; inversion Hdy; subst;
      cbn [obind m_icolumn_New m_fcolumn_New m_bcolumn_New m_scolumn_New]; apply sim_setColumn; exact Hrep.
  - destruct H1 as (dy & e & Hrun). rewrite Hrun. cbn [obind gq_isnil negb]. apply sim_withErr. exact Hrep.
  - rewrite H1. reflexivity.
Qed.

Lemma gq_apply2_sim (q : gframe) f fn dst src1 src2 : rep q f ->
  sim (g_apply2 q (fn_of fn) dst src1 src2) (apply2 f fn dst src1 src2).
Proof.
  intro Hrep. pose proof Hrep as (Hc & Hi & He & Hn & Hm).
  unfold gq_QFrame_apply2, apply2. rewrite He.
  destruct (ferr f) eqn:Ef; [exists q; split; [reflexivity|exact Hrep]|]. cbn [negb].
  rewrite (rep_mhas q f src1 Hrep). unfold contains, lookup_col.
  destruct (lookup f src1) as [[p1 c1]|] eqn:Elk1; cbn [negb option_map snd].
  2:{ apply sim_withErr. exact Hrep. }
  rewrite (rep_mget_or q f src1 _ p1 c1 Hrep Elk1). cbn [gq_namedColumn_Column].
  rewrite (rep_mhas q f src2 Hrep). unfold contains.
  destruct (lookup f src2) as [[p2 c2]|] eqn:Elk2; cbn [negb option_map snd].
  2:{ apply sim_withErr. exact Hrep. }
  rewrite (rep_mget_or q f src2 _ p2 c2 Hrep Elk2). cbn [gq_namedColumn_Column]. rewrite Hi.
  pose proof (Hca2 c1 fn c2 (ix f)) as H2.
  destruct (col_apply2 c1 c2 fn (ix f)) as [r| |].
  - rewrite H2. cbn [obind gq_isnil negb]. apply sim_setColumn. exact Hrep.
  - destruct H2 as (r & e & Hrun). rewrite Hrun. cbn [obind gq_isnil negb]. apply sim_withErr. exact Hrep.
  - rewrite H2. reflexivity.
Qed.

(* ------------------------------------------------------------------ Apply *)

(* an instruction as the Go struct *)
Definition ginstr_of (i : instr) : gq_Instruction coldata N unit afn :=
  gq_mk_Instruction (fn_of (ifn i)) (idst i) (isrc1 i) (isrc2 i).

Definition instr_wf (i : instr) : bool := fn_wf (ifn i).

Lemma empty_name_eqb s : bytes_eqb s [] = empty_name s.
Proof. destruct s; reflexivity. Qed.

Lemma sim_bind (r : outcome gframe) (m : outcome frame) (k : gframe -> outcome gframe) (km : frame -> outcome frame) :
  sim r m -> (forall q' f', rep q' f' -> sim (k q') (km f')) ->
  sim (do v <- r; k v) (match m with Ok b => km b | Fail => Fail | Panic => Panic end).
Proof.
  intros Hs Hk. destruct m as [f'| |]; cbn [sim] in Hs.
  - destruct Hs as (q' & Hr & Hrep'). rewrite Hr. cbn [obind]. apply Hk. exact Hrep'.
  - rewrite Hs. reflexivity.
  - rewrite Hs. reflexivity.
Qed.

Lemma gq_Apply_loop_sim : forall is (q : gframe) f, forallb instr_wf is = true -> rep q f ->
  sim (g_Apply_loop (map ginstr_of is) q) (ofold (apply_instr ut) is f).
Proof.
  induction is as [|i is IH]; intros q f Hwf Hrep; cbn [map gq_QFrame_Apply_loop1].
  - exists q. split; [reflexivity|exact Hrep].
  - cbn [forallb] in Hwf. apply andb_true_iff in Hwf. destruct Hwf as [Hwi Hwf].
    rewrite ofold_cons'. unfold apply_instr at 1.
    cbn [ginstr_of gq_Instruction_Fn gq_Instruction_DstCol gq_Instruction_SrcCol1 gq_Instruction_SrcCol2].
    rewrite !empty_name_eqb.
    assert (Hk : forall q' f', rep q' f' -> sim (g_Apply_loop (map ginstr_of is) q') (ofold (apply_instr ut) is f'))
      by (intros q' f' Hr; apply IH; assumption).
    destruct (empty_name (isrc1 i)).
    + pose proof (sim_bind _ _ _ _ (gq_apply0_sim q f (ifn i) (idst i) Hwi Hrep) Hk) as Hs.
      destruct (g_apply0 q (fn_of (ifn i)) (idst i)); exact Hs.
    + destruct (empty_name (isrc2 i)).
      * pose proof (sim_bind _ _ _ _ (gq_apply1_sim q f (ifn i) (idst i) (isrc1 i) Hrep) Hk) as Hs.
        destruct (g_apply1 q (fn_of (ifn i)) (idst i) (isrc1 i)); exact Hs.
      * pose proof (sim_bind _ _ _ _ (gq_apply2_sim q f (ifn i) (idst i) (isrc1 i) (isrc2 i) Hrep) Hk) as Hs.
        destruct (g_apply2 q (fn_of (ifn i)) (idst i) (isrc1 i) (isrc2 i)); exact Hs.
Qed.

Lemma gq_Apply_sim is (q : gframe) f : forallb instr_wf is = true -> rep q f ->
  sim (g_Apply q (map ginstr_of is)) (apply ut f is).
Proof.
  intros Hwf Hrep. unfold gq_QFrame_Apply, apply. pose proof (gq_Apply_loop_sim is q f Hwf Hrep) as H.
  destruct (ofold (apply_instr ut) is f) as [f'| |]; cbn [sim] in *.
  - destruct H as (q' & Hr & Hrep'). rewrite Hr. exists q'. split; [reflexivity|exact Hrep'].
  - rewrite H. reflexivity.
  - rewrite H. reflexivity.
Qed.

(* ------------------------------------------------------------------ WithRowNums *)

Notation g_WithRowNums :=
  (gq_QFrame_WithRowNums col_nil new_error propagate checkname_error unknownCol (fun _ : unit => col_nil) m_col_Len 0%N
     Z.of_nat ord m_icolumn_New m_icolumn_NewConst m_fcolumn_New m_fcolumn_NewConst (m_ecolumn_New col_nil enum_error)
     m_scolumn_New (m_ecolumn_NewConst col_nil enum_error) m_scolumn_NewConst m_bcolumn_New m_bcolumn_NewConst
     m_scolumn_NewBytes ncfg ca1 ca2).

(* apply0 with any func() int whose next len(index) calls answer zs *)
Lemma gq_apply0_yields_sim (q : gframe) f (g : gq_func0 Z) zs dst : yields g zs -> length zs = length (ix f) -> rep q f ->
  sim (g_apply0 q (gq_dyn_func_int g) dst) (apply0 f (F0Stream TInt (map CInt zs)) dst).
Proof.
  intros Hy Hlen Hrep. pose proof Hrep as (Hc & Hi & He & Hn & Hm).
  unfold gq_QFrame_apply0, apply0. rewrite He.
  destruct (ferr f) eqn:Ef; [exists q; split; [reflexivity|exact Hrep]|]. cbn [negb].
  rewrite (rep_colLen q f Hrep). cbn [obind]. rewrite Hi. cbn [ctype_eqb].
  assert (Hfn : (if negb (Z.of_nat (length (ix f)) =? Z.of_nat (phys_len f))
                 then do v_fn <- Ok (gq_dyn_func_int g : adyn); Ok v_fn else Ok (gq_dyn_func_int g : adyn)) = Ok (gq_dyn_func_int g))
    by (destruct (negb (Z.of_nat (length (ix f)) =? Z.of_nat (phys_len f))); reflexivity).
  match goal with |- context [obind (if negb (Z.of_nat (length (ix f)) =? Z.of_nat (phys_len f)) then ?a else ?b) _] =>
    change (if negb (Z.of_nat (length (ix f)) =? Z.of_nat (phys_len f)) then a else b)
      with (if negb (Z.of_nat (length (ix f)) =? Z.of_nat (phys_len f))
            then do v_fn <- Ok (gq_dyn_func_int g : adyn); Ok v_fn else Ok (gq_dyn_func_int g : adyn))
  end.
  rewrite Hfn. cbn [obind]. cbv iota. rewrite gq_make_nat. cbn [obind]. rewrite loop1_fill.
  pose proof (fill_yields CInt (ix f) g zs (repeat 0 (phys_len f)) Hy Hlen) as Hfill.
  rewrite map_repeat' in Hfill. cbn [zero_cell].
  apply0_after_fill Hrep Hfill col_of_cells_int.
Qed.

Lemma gq_WithRowNums_sim (q : gframe) f name : rep q f -> sim (g_WithRowNums q name) (with_row_nums f name).
Proof.
  intro Hrep. unfold gq_QFrame_WithRowNums, with_row_nums, apply.
  unfold gq_QFrame_Apply. cbn [gq_QFrame_Apply_loop1 gq_Instruction_Fn gq_Instruction_DstCol gq_Instruction_SrcCol1
                                 gq_Instruction_SrcCol2 bytes_eqb obind].
  rewrite ofold_cons'. unfold apply_instr. cbn [isrc1 empty_name length Nat.eqb ifn idst].
  fold (counter (-1)).
  pose proof (gq_apply0_yields_sim q f (counter (-1)) (map (fun j => -1 + 1 + Z.of_nat j) (seq 0 (length (ix f)))) name
                (yields_counter (length (ix f)) (-1)) ltac:(rewrite map_length, seq_length; reflexivity) Hrep) as H0.
  rewrite map_map in H0.
  replace (map (fun x => CInt (-1 + 1 + Z.of_nat x)) (seq 0 (length (ix f))))
    with (map (fun k => CInt (Z.of_nat k)) (seq 0 (length (ix f)))) in H0 by (apply map_ext; intro k; f_equal; lia).
  destruct (apply0 f (F0Stream TInt (map (fun k => CInt (Z.of_nat k)) (seq 0 (length (ix f))))) name) as [f'| |]; cbn [sim] in H0.
  - destruct H0 as (q' & Hq & Hr). rewrite Hq. cbn [obind]. rewrite ofold_nil'. exists q'. split; [reflexivity|exact Hr].
  - rewrite H0. reflexivity.
  - rewrite H0. reflexivity.
Qed.

(* ------------------------------------------------------------------ FilteredApply *)

Lemma rep_set_index (q : gframe) f i : rep q f -> rep (gq_QFrame_set_index q i) (with_ix f i).
Proof.
  intros (Hc & Hi & He & Hn & Hm). unfold rep, gq_QFrame_set_index, with_ix.
  cbn [gq_QFrame_columns gq_QFrame_index gq_QFrame_Err gq_QFrame_columnsByName cols ix ferr]. repeat split; assumption.
Qed.

Notation g_FilteredApply flt :=
  (gq_QFrame_FilteredApply col_nil new_error propagate checkname_error unknownCol (fun _ : unit => col_nil) m_col_Len 0%N
     Z.of_nat ord m_icolumn_New m_icolumn_NewConst m_fcolumn_New m_fcolumn_NewConst (m_ecolumn_New col_nil enum_error)
     m_scolumn_New (m_ecolumn_NewConst col_nil enum_error) m_scolumn_NewConst m_bcolumn_New m_bcolumn_NewConst
     m_scolumn_NewBytes ncfg ca1 ca2 flt).

Lemma gq_FilteredApply_sim mt flt c is (q : gframe) f : filter_ok mt flt -> forallb instr_wf is = true -> rep q f ->
  sim (g_FilteredApply flt q c (map ginstr_of is)) (filtered_apply mt ut f c is).
Proof.
  intros Hflt Hwf Hrep. unfold gq_QFrame_FilteredApply, filtered_apply.
  pose proof (Hflt q f c Hrep) as Hf. destruct (frame_filter mt f c) as [ff| |]; cbn [sim] in Hf.
  2:{ rewrite Hf. reflexivity. }
  2:{ rewrite Hf. reflexivity. }
  destruct Hf as (q1 & Hq1 & Hrep1). rewrite Hq1. cbn [obind].
  pose proof Hrep1 as (_ & Hi1 & He1 & _). rewrite He1.
  destruct (ferr ff); [exists q1; split; [reflexivity|exact Hrep1]|].
  rewrite Hi1.
  pose proof (gq_Apply_sim is _ _ Hwf (rep_set_index q f (ix ff) Hrep)) as Ha.
  destruct (apply ut (with_ix f (ix ff)) is) as [r| |]; cbn [sim obind] in *.
  - destruct Ha as (q2 & Hq2 & Hrep2). rewrite Hq2. cbn [obind].
    pose proof Hrep as (_ & Hi & _). rewrite Hi.
    eexists. split; [reflexivity|]. apply rep_set_index. exact Hrep2.
  - rewrite Ha. reflexivity.
  - rewrite Ha. reflexivity.
Qed.

End ApplyRep.

(* the generated functions with the column constructors, Column.Len and the row ids of the model *)
Section ApplyWrappers.
Context {E CF : Type}.
Variable col_nil : coldata.
Variable new_error : bytes -> bytes -> E.
Variable propagate : bytes -> option E -> E.
Variable checkname_error : bytes -> E.
Variable unknownCol : bytes -> bytes.
Variable enum_error : E.
Variable ord : forall V : Type, gq_map V -> gq_map V.
Variable ncfg : list CF -> outcome gq_Config.
Notation adyn := (gq_dyn coldata N unit afn).
Notation gframe := (gq_QFrame nat E coldata).
Variable ca1 : coldata -> adyn -> list nat -> outcome (adyn * option E).
Variable ca2 : coldata -> adyn -> coldata -> list nat -> outcome (coldata * option E).

Definition m_apply0 : gframe -> adyn -> bytes -> outcome gframe :=
  gq_QFrame_apply0 (OTHER := afn) col_nil new_error propagate checkname_error unknownCol (fun _ : unit => col_nil) m_col_Len 0%N
    Z.of_nat ord m_icolumn_New m_icolumn_NewConst m_fcolumn_New m_fcolumn_NewConst (m_ecolumn_New col_nil enum_error)
    m_scolumn_New (m_ecolumn_NewConst col_nil enum_error) m_scolumn_NewConst m_bcolumn_New m_bcolumn_NewConst
    m_scolumn_NewBytes ncfg.
Definition m_apply1 : gframe -> adyn -> bytes -> bytes -> outcome gframe :=
  gq_QFrame_apply1 col_nil new_error propagate checkname_error unknownCol ord m_icolumn_New m_fcolumn_New m_scolumn_New
    m_bcolumn_New ca1.
Definition m_apply2 : gframe -> adyn -> bytes -> bytes -> bytes -> outcome gframe :=
  gq_QFrame_apply2 col_nil new_error propagate checkname_error unknownCol ord ca2.
Definition m_Apply : gframe -> list (gq_Instruction coldata N unit afn) -> outcome gframe :=
  gq_QFrame_Apply col_nil new_error propagate checkname_error unknownCol (fun _ : unit => col_nil) m_col_Len 0%N
    Z.of_nat ord m_icolumn_New m_icolumn_NewConst m_fcolumn_New m_fcolumn_NewConst (m_ecolumn_New col_nil enum_error)
    m_scolumn_New (m_ecolumn_NewConst col_nil enum_error) m_scolumn_NewConst m_bcolumn_New m_bcolumn_NewConst
    m_scolumn_NewBytes ncfg ca1 ca2.
Definition m_WithRowNums : gframe -> bytes -> outcome gframe :=
  gq_QFrame_WithRowNums col_nil new_error propagate checkname_error unknownCol (fun _ : unit => col_nil) m_col_Len 0%N
    Z.of_nat ord m_icolumn_New m_icolumn_NewConst m_fcolumn_New m_fcolumn_NewConst (m_ecolumn_New col_nil enum_error)
    m_scolumn_New (m_ecolumn_NewConst col_nil enum_error) m_scolumn_NewConst m_bcolumn_New m_bcolumn_NewConst
    m_scolumn_NewBytes ncfg ca1 ca2.
Definition m_FilteredApply (flt : gframe -> clause -> outcome gframe)
  : gframe -> clause -> list (gq_Instruction coldata N unit afn) -> outcome gframe :=
  gq_QFrame_FilteredApply col_nil new_error propagate checkname_error unknownCol (fun _ : unit => col_nil) m_col_Len 0%N
    Z.of_nat ord m_icolumn_New m_icolumn_NewConst m_fcolumn_New m_fcolumn_NewConst (m_ecolumn_New col_nil enum_error)
    m_scolumn_New (m_ecolumn_NewConst col_nil enum_error) m_scolumn_NewConst m_bcolumn_New m_bcolumn_NewConst
    m_scolumn_NewBytes ncfg ca1 ca2 flt.
End ApplyWrappers.

(* instances of the boundary: the model's functions carried over the representation *)
Definition m_col_Apply1 {E : Type} (e : E) (ut : upper_table) (c : coldata) (d : gq_dyn coldata N unit afn) (i : list nat)
  : outcome (gq_dyn coldata N unit afn * option E) :=
  match d with
  | gq_dyn_other fn =>
      match col_apply1 ut c fn i with
      | Ok (ICol x) => Ok (gq_dyn_slice_int x, None)
      | Ok (FCol x) => Ok (gq_dyn_slice_float64 x, None)
      | Ok (BCol x) => Ok (gq_dyn_slice_bool x, None)
      | Ok (SCol x) => Ok (gq_dyn_slice_ptr_string x, None)
      | Ok r => Ok (gq_dyn_column_Column r, None)
      | Fail => Ok (gq_dyn_nil, Some e)
      | Panic => Panic
      end
  | _ => Ok (gq_dyn_nil, Some e)      (* a constant, a func() T, a column name: not a one-argument function *)
  end.

Definition m_col_Apply2 {E : Type} (e : E) (c : coldata) (d : gq_dyn coldata N unit afn) (c2 : coldata) (i : list nat)
  : outcome (coldata * option E) :=
  match d with
  | gq_dyn_other fn => match col_apply2 c c2 fn i with Ok r => Ok (r, None) | Fail => Ok (c, Some e) | Panic => Panic end
  | _ => Ok (c, Some e)
  end.

Definition m_lift {E : Type} (e : E) (m : outcome frame) : outcome (gq_QFrame nat E coldata) :=
  match m with Ok f' => Ok (embed e f') | Fail => Fail | Panic => Panic end.

Lemma m_col_Apply1_ok {E : Type} (e : E) ut : apply1_ok ut (m_col_Apply1 e ut).
Proof.
  intros c fn i. unfold m_col_Apply1.
  assert (Hother : match col_apply1 ut c fn i with
                   | Ok r => exists dy, m_col_Apply1 e ut c (gq_dyn_other fn) i = Ok (dy, None) /\ dyn_col dy = Some r
                   | Fail => exists dy e0, m_col_Apply1 e ut c (gq_dyn_other fn) i = Ok (dy, Some e0)
                   | Panic => m_col_Apply1 e ut c (gq_dyn_other fn) i = Panic end).
  { unfold m_col_Apply1. destruct (col_apply1 ut c fn i) as [r| |].
    - destruct r; eexists; split; reflexivity.
    - do 2 eexists. reflexivity.
    - reflexivity. }
  destruct fn as [t vals|k|src|tin tout tbl|t tbl|name|]; try exact Hother.
  all: try (destruct t; try exact Hother; cbn [fn_of col_apply1]; do 2 eexists; reflexivity).
  all: try (destruct k; try exact Hother; cbn [fn_of col_apply1]; do 2 eexists; reflexivity).
  all: try (cbn [fn_of col_apply1]; do 2 eexists; reflexivity).
Qed.

Lemma m_col_Apply2_ok {E : Type} (e : E) : apply2_ok (m_col_Apply2 e).
Proof.
  intros c fn c2 i. unfold m_col_Apply2.
  assert (Hother : match col_apply2 c c2 fn i with
                   | Ok r => m_col_Apply2 e c (gq_dyn_other fn) c2 i = Ok (r, None)
                   | Fail => exists r e0, m_col_Apply2 e c (gq_dyn_other fn) c2 i = Ok (r, Some e0)
                   | Panic => m_col_Apply2 e c (gq_dyn_other fn) c2 i = Panic end).
  { unfold m_col_Apply2. destruct (col_apply2 c c2 fn i); [reflexivity|do 2 eexists; reflexivity|reflexivity]. }
  assert (Hfail : forall fn0, (match fn0 with F2 _ _ => false | _ => true end) = true -> col_apply2 c c2 fn0 i = Fail).
  { intros fn0 H0. unfold col_apply2. destruct (negb (ctype_eqb (col_type c) (col_type c2))); [reflexivity|].
    destruct fn0; try reflexivity; discriminate. }
  destruct fn as [t vals|k|src|tin tout tbl|t tbl|name|]; try exact Hother.
  all: try (destruct t; try exact Hother).
  all: try (destruct k; try exact Hother).
  all: cbn [fn_of]; match goal with |- context [col_apply2 _ _ ?fn0 _] => rewrite (Hfail fn0 eq_refl) end;
       do 2 eexists; reflexivity.
Qed.

Lemma m_lift_sim {E : Type} (e : E) m : sim (m_lift e m) m.
Proof.
  destruct m as [f'| |]; cbn [sim m_lift]; [|reflexivity|reflexivity].
  eexists. split; [reflexivity|]. apply (embed_rep (fun _ _ => e) (fun _ _ => e) (fun _ => e) (fun b => b)).
Qed.

Lemma m_filter_ok {E : Type} (e : E) mt : filter_ok mt (fun q c => m_lift e (frame_filter mt (absq q) c)).
Proof. intros q f c Hrep. rewrite (rep_absq q f Hrep). apply m_lift_sim. Qed.

(* ================================================================== Sort ================================= *)

(* The abstraction boundary of Sort: Column.Comparable (cmpf) and the sorter qfsort.New(ix, columns).Sort() (srt).
   A Comparable is the pair (the column, its Compare on two row ids); [comparable_ok cmpf]: for equalNull = false
   — the literal Sort passes — cmpf answers the model's col_comparable.  The sorter is internal/sort, translated in
   Gen/GenSorter.v (gs_Sort over Less = less_keys of the Compare functions, tied by the T1_sorter theorems); the model makes the
   range check of the rows a Compare reads once, before sorting ([rows_in_range], an over-approximation on frames
   that are not well formed), so the theorem takes it as a premise (it follows from wf_frame: T1_qframe_Sort_C03). *)
From QF Require Import Gen.GenSorter Model.Sort Model.SortFrame Proofs.GenSorterProofs.

Section SortRep.
Context {E : Type}.
Variable col_nil : coldata.
Variable new_error : bytes -> bytes -> E.
Variable unknownCol : bytes -> bytes.

Notation gframe := (gq_QFrame nat E coldata).
Notation gcmp := (coldata * (nat -> nat -> cmpres))%type.

Definition comparable_ok (cmpf : coldata -> bool -> bool -> bool -> outcome gcmp) : Prop :=
  forall c reverse nullLast, cmpf c reverse false nullLast = Ok (c, col_comparable c reverse nullLast).

Definition gorder_of (o : order) : gq_Order := gq_mk_Order (o_column o) (o_reverse o) (o_nulllast o).

Variable cmpf : coldata -> bool -> bool -> bool -> outcome gcmp.
Variable srt : list nat -> list gcmp -> outcome (list nat).
Variable Hcmp : comparable_ok cmpf.

Notation g_Sort := (gq_QFrame_Sort col_nil new_error unknownCol cmpf srt).

Lemma gq_Sort_loop (q : gframe) f : rep q f -> forall orders acc,
  match comparables f orders with
  | Some cs =>
      gq_QFrame_Sort_loop1 col_nil new_error unknownCol cmpf srt (map gorder_of orders) q acc
      = gq_QFrame_Sort_loop1 col_nil new_error unknownCol cmpf srt [] q (acc ++ cs)
  | None => exists q', gq_QFrame_Sort_loop1 col_nil new_error unknownCol cmpf srt (map gorder_of orders) q acc = Ok q'
                       /\ rep q' (with_err f)
  end.
Proof.
  intro Hrep. induction orders as [|o orders IH]; intro acc; cbn [comparables map].
  - rewrite app_nil_r. reflexivity.
  - cbn [gq_QFrame_Sort_loop1 gorder_of gq_Order_Column gq_Order_Reverse gq_Order_NullLast].
    rewrite (rep_mhas q f (o_column o) Hrep). unfold contains, lookup_col.
    destruct (lookup f (o_column o)) as [[p c]|] eqn:Elk; cbn [negb option_map snd].
    + rewrite (rep_mget_or q f (o_column o) _ p c Hrep Elk). cbn [gq_namedColumn_Column].
      rewrite Hcmp. cbn [obind]. specialize (IH (acc ++ [(c, col_comparable c (o_reverse o) (o_nulllast o))])).
      destruct (comparables f orders) as [cs|].
      * rewrite IH, <- app_assoc. reflexivity.
      * exact IH.
    + destruct (gq_withErr_rep q f (new_error (bs 4 0x536f7274) (unknownCol (o_column o))) Hrep) as (q' & Hq & Hr).
      rewrite Hq. exists q'. split; [reflexivity|exact Hr].
Qed.

(* premise: on this frame the sorter answers what the model's sorter answers behind its range check *)
Lemma gq_Sort_sim (q : gframe) f orders : rep q f ->
  (forall cs, comparables f orders = Some cs ->
     srt (ix f) cs = if rows_in_range (ix f) (map fst cs) then sort_ids (less_keys (map snd cs)) (ix f) else Panic) ->
  match sort_frame f orders with
  | Ok f' => exists q', g_Sort q (map gorder_of orders) = Ok q' /\ rep q' f'
  | Fail => g_Sort q (map gorder_of orders) = Fail
  | Panic => g_Sort q (map gorder_of orders) = Panic
  end.
Proof.
  intros Hrep Hsrt. pose proof Hrep as (Hc & Hi & He & Hn & Hm).
  unfold gq_QFrame_Sort, sort_frame. rewrite He.
  destruct (ferr f) eqn:Ef; [exists q; split; [reflexivity|exact Hrep]|]. cbn [negb].
  destruct orders as [|o orders]; [exists q; split; [reflexivity|exact Hrep]|].
  rewrite map_length. replace (Z.of_nat (length (o :: orders)) =? 0) with false by (cbn [length]; lia).
  unfold gq_make0. replace (Z.of_nat (length (o :: orders)) <? 0) with false by lia. cbn [obind].
  pose proof (gq_Sort_loop q f Hrep (o :: orders) []) as Hl.
  destruct (comparables f (o :: orders)) as [cs|] eqn:Ecs.
  - rewrite Hl. cbn [app gq_QFrame_Sort_loop1]. unfold gq_QFrame_withIndex. cbn [obind gq_QFrame_index].
    rewrite Hi, (Hsrt cs eq_refl).
    destruct (rows_in_range (ix f) (map fst cs)); [|reflexivity].
    destruct (sort_ids (less_keys (map snd cs)) (ix f)) as [sorted| |]; cbn [obind]; [|reflexivity|reflexivity].
    eexists. split; [reflexivity|].
    unfold rep, gq_QFrame_set_index, with_ix.
    cbn [gq_QFrame_columns gq_QFrame_index gq_QFrame_Err gq_QFrame_columnsByName cols ix ferr].
    repeat split; try assumption; try reflexivity. rewrite Ef. exact He.
  - exact Hl.
Qed.

End SortRep.

(* the sorter of Gen/GenSorter.v: Less = less_keys over the Compare functions *)
Definition m_sorter (fuel : nat) (i : list nat) (cs : list (coldata * (nat -> nat -> cmpres))) : outcome (list nat) :=
  gs_Sort (less_keys (map snd cs)) fuel i.

(* Column.Comparable for equalNull = false (Sort); equalNull = true is the use of Distinct / GroupBy, not modelled here *)
Definition m_col_Comparable (c : coldata) (reverse equalNull nullLast : bool) : outcome (coldata * (nat -> nat -> cmpres)) :=
  if equalNull then Panic else Ok (c, col_comparable c reverse nullLast).

Lemma m_col_Comparable_ok : comparable_ok m_col_Comparable.
Proof. intros c r nl. reflexivity. Qed.

(* with the translated sorter and enough fuel the premise of gq_Sort_sim is the model's range check *)
Lemma gq_Sort_translated {E : Type} (col_nil : coldata) (new_error : bytes -> bytes -> E) (unknownCol : bytes -> bytes)
  (fuel : nat) (q : gq_QFrame nat E coldata) f orders :
  rep q f -> (length (ix f) + 6 <= fuel)%nat -> Z.of_nat (length (ix f)) < 9223372036854775808 ->
  (forall cs, comparables f orders = Some cs -> rows_in_range (ix f) (map fst cs) = true) ->
  match sort_frame f orders with
  | Ok f' => exists q', gq_QFrame_Sort col_nil new_error unknownCol m_col_Comparable (m_sorter fuel) q (map gorder_of orders) = Ok q'
                        /\ rep q' f'
  | Fail => gq_QFrame_Sort col_nil new_error unknownCol m_col_Comparable (m_sorter fuel) q (map gorder_of orders) = Fail
  | Panic => gq_QFrame_Sort col_nil new_error unknownCol m_col_Comparable (m_sorter fuel) q (map gorder_of orders) = Panic
  end.
Proof.
  intros Hrep Hfuel Hlen Hrange.
  apply (gq_Sort_sim col_nil new_error unknownCol m_col_Comparable (m_sorter fuel) m_col_Comparable_ok q f orders Hrep).
  intros cs Hcs. rewrite (Hrange cs Hcs). unfold m_sorter. apply gs_Sort_eq; assumption.
Qed.

(* ================================================================== Equals ================================ *)

(* The abstraction boundary of Equals: Column.Equals (ceq), instantiated with the model's col_equals.  The reason
   text (a Sprintf) is an arbitrary function of its format string; the model keeps the boolean. *)
Section EqualsRep.
Context {E : Type}.
Variable sprintf : bytes -> bytes.
Notation gframe := (gq_QFrame nat E coldata).

(* the column loop of Ops.equals (an anonymous fix there) *)
Fixpoint eq_go (f g : frame) (a b : list (bytes * coldata)) : outcome bool :=
  match a, b with
  | (n, c) :: a', (m, o) :: b' =>
      if negb (bytes_eqb n m) then Ok false
      else do e <- col_equals c (ix f) o (ix g); if e then eq_go f g a' b' else Ok false
  | _, _ => Ok true
  end.

Lemma equals_unfold f g :
  equals f g = if negb (Nat.eqb (length (ix f)) (length (ix g))) then Ok false
               else if negb (Nat.eqb (length (cols f)) (length (cols g))) then Ok false
               else eq_go f g (cols f) (cols g).
Proof.
  unfold equals. destruct (negb (Nat.eqb (length (ix f)) (length (ix g)))); [reflexivity|].
  destruct (negb (Nat.eqb (length (cols f)) (length (cols g)))); [reflexivity|].
  generalize (cols f) (cols g). induction l as [|[n c] a IH]; intros [|[m o] b]; cbn [eq_go]; try reflexivity.
  destruct (negb (bytes_eqb n m)); [reflexivity|]. destruct (col_equals c (ix f) o (ix g)) as [e| |]; cbn [obind]; try reflexivity.
  destruct e; [apply IH|reflexivity].
Qed.

Notation g_Equals := (gq_QFrame_Equals (E := E) sprintf (fun c i o oi => col_equals c i o oi)).

Lemma Z_nat_eqb a b : (Z.of_nat a =? Z.of_nat b) = Nat.eqb a b.
Proof.
  destruct (Nat.eqb a b) eqn:En.
  - apply Nat.eqb_eq in En. subst. apply Z.eqb_refl.
  - apply Nat.eqb_neq in En. apply Z.eqb_neq. lia.
Qed.

Lemma gq_Equals_loop (q q2 : gframe) f g : gq_QFrame_index q = ix f -> gq_QFrame_index q2 = ix g ->
  forall a b pre p p2, length a = length b -> gq_QFrame_columns q2 = pre ++ ncols_from p2 b ->
  match eq_go f g a b with
  | Ok r => exists reason, gq_QFrame_Equals_loop1 sprintf (fun c i o oi => col_equals c i o oi) (ncols_from p a) (Z.of_nat (length pre)) q q2
                           = Ok (r, reason)
  | Fail => gq_QFrame_Equals_loop1 sprintf (fun c i o oi => col_equals c i o oi) (ncols_from p a) (Z.of_nat (length pre)) q q2 = Fail
  | Panic => gq_QFrame_Equals_loop1 sprintf (fun c i o oi => col_equals c i o oi) (ncols_from p a) (Z.of_nat (length pre)) q q2 = Panic
  end.
Proof.
  intros Hi Hi2. induction a as [|[n c] a IH]; intros b pre p p2 Hlen Hcols.
  - destruct b; [|discriminate]. cbn [eq_go ncols_from gq_QFrame_Equals_loop1]. eexists. reflexivity.
  - destruct b as [|[m o] b]; [discriminate|]. cbn [eq_go ncols_from gq_QFrame_Equals_loop1].
    assert (Hidx : gq_index (gq_QFrame_columns q2) (Z.of_nat (length pre)) = Ok (gq_mk_namedColumn o m (Z.of_nat p2))).
    { rewrite Hcols. cbn [ncols_from]. unfold gq_index. destruct (Z.of_nat (length pre) <? 0) eqn:E0; [lia|]. rewrite Nat2Z.id.
      unfold idx. rewrite nth_error_app2 by lia. rewrite Nat.sub_diag. reflexivity. }
    rewrite Hidx. cbn [obind gq_namedColumn_name gq_namedColumn_Column].
    destruct (negb (bytes_eqb n m)); [eexists; reflexivity|].
    rewrite Hi, Hi2. destruct (col_equals c (ix f) o (ix g)) as [e| |]; cbn [obind]; try reflexivity.
    destruct e; cbn [negb]; [|eexists; reflexivity].
    replace (Z.of_nat (length pre) + 1) with (Z.of_nat (length (pre ++ [gq_mk_namedColumn o m (Z.of_nat p2) : gq_namedColumn coldata])))
      by (rewrite app_length; cbn [length]; lia).
    apply (IH b (pre ++ [gq_mk_namedColumn o m (Z.of_nat p2)]) (S p) (S p2)).
    + cbn [length] in Hlen. lia.
    + rewrite Hcols, <- app_assoc. reflexivity.
Qed.

(* Equals = Ops.equals: the same boolean (with some reason text), the same panics *)
Lemma gq_Equals_eq (q q2 : gframe) f g : rep q f -> rep q2 g ->
  match equals f g with
  | Ok r => exists reason, g_Equals q q2 = Ok (r, reason)
  | Fail => g_Equals q q2 = Fail
  | Panic => g_Equals q q2 = Panic
  end.
Proof.
  intros (Hc & Hi & _) (Hc2 & Hi2 & _). rewrite equals_unfold. unfold gq_QFrame_Equals.
  rewrite Hi, Hi2, Z_nat_eqb. destruct (negb (Nat.eqb (length (ix f)) (length (ix g)))); [eexists; reflexivity|].
  rewrite Hc, Hc2, !ncols_from_length, Z_nat_eqb.
  destruct (Nat.eqb (length (cols f)) (length (cols g))) eqn:El; cbn [negb]; [|eexists; reflexivity].
  apply Nat.eqb_eq in El. rewrite <- Hc.
  pose proof (gq_Equals_loop q q2 f g Hi Hi2 (cols f) (cols g) [] 0%nat 0%nat El Hc2) as H.
  cbn [length] in H. change (Z.of_nat 0) with 0 in H. rewrite Hc. exact H.
Qed.

End EqualsRep.

(* ================================================================== Eval ================================== *)

(* The abstraction boundary of Eval: eval.NewConfig (ncf: answers the Config whose Ctx is the context cx) and
   expr.execute (exec).  [execute_ok exec x e]: on every represented frame exec x answers what the model's execute
   answers for the expression e — the frame in the representation relation, the same result column name.  With
   exec built from the GENERATED execute of Gen/GenExprTree.v ([exec_translated]) that premise is T1_expr_execute, so
   [gq_Eval_translated] speaks about translated text from the wrapper down to the instructions. *)
From QF Require Import Model.Eval.
From QF Require Proofs.GenExprTreeProofs.

Section EvalRep.
Context {E ECF EXPR : Type}.
Variable col_nil : coldata.
Variable new_error : bytes -> bytes -> E.
Variable propagate : bytes -> option E -> E.
Variable checkname_error : bytes -> E.
Variable unknownCol : bytes -> bytes.
Variable ord : forall V : Type, gq_map V -> gq_map V.
Variable Hord : perm_order ord.
Variable ut : upper_table.
Variable cx : ctx.
Notation gframe := (gq_QFrame nat E coldata).
Variable ncf : list ECF -> outcome (gq_EvalConfig ctx).
Variable exec : EXPR -> gframe -> ctx -> outcome (gframe * bytes).

Definition execute_ok (x : EXPR) (e : expr) : Prop :=
  forall (q : gframe) f, rep q f ->
  match execute ut cx e f with
  | Ok (f', n) => exists q', exec x q cx = Ok (q', n) /\ rep q' f'
  | Fail => exec x q cx = Fail
  | Panic => exec x q cx = Panic
  end.

Notation g_Eval := (gq_QFrame_Eval col_nil new_error propagate checkname_error unknownCol ord ncf exec).

Lemma gq_Eval_sim (q : gframe) f dst x e ff : ncf ff = Ok (gq_mk_EvalConfig cx) -> execute_ok x e -> rep q f ->
  match eval ut cx f dst e with
  | Ok f' => exists q', g_Eval q dst x ff = Ok q' /\ rep q' f'
  | Fail => g_Eval q dst x ff = Fail
  | Panic => g_Eval q dst x ff = Panic
  end.
Proof.
  intros Hncf Hexec Hrep. pose proof Hrep as (Hc & Hi & He & Hn & Hm).
  unfold gq_QFrame_Eval, eval. rewrite He.
  destruct (ferr f) eqn:Ef; [exists q; split; [reflexivity|exact Hrep]|]. cbn [negb].
  rewrite Hncf. cbn [obind gq_EvalConfig_Ctx].
  pose proof (Hexec q f Hrep) as Hx. destruct (execute ut cx e f) as [[r name]| |]; cbn [obind].
  2:{ rewrite Hx. reflexivity. }
  2:{ rewrite Hx. reflexivity. }
  destruct Hx as (q1 & Hq1 & Hrep1). rewrite Hq1. cbn [obind].
  destruct (gq_Copy_rep col_nil new_error propagate checkname_error unknownCol ord q1 r dst name Hord Hrep1) as (q2 & Hq2 & Hrep2).
  rewrite Hq2. cbn [obind]. rewrite (gq_Contains_eq q f name Hrep).
  destruct (negb (bytes_eqb name dst)); cbn [obind andb].
  - destruct (contains f name); cbn [negb obind].
    + exists q2. split; [reflexivity|exact Hrep2].
    + destruct (gq_Drop_rep col_nil new_error propagate checkname_error unknownCol q2 (copy r dst name) [name] Hrep2) as (q3 & Hq3 & Hrep3).
      rewrite Hq3. cbn [obind]. exists q3. split; [reflexivity|exact Hrep3].
  - exists q2. split; [reflexivity|exact Hrep2].
Qed.

End EvalRep.

(* expr.execute built from the translated execute (Gen/GenExprTree.v instantiated on the model's frames, as in
   Properties/T1Expr.v): run on the frame a Go frame represents, the result carried back *)
Definition exec_translated {E : Type} (e0 : E) (ut : upper_table) (fuel : nat)
  (x : GenExprTreeProofs.MExpression) (q : gq_QFrame nat E coldata) (cx : ctx) : outcome (gq_QFrame nat E coldata * bytes) :=
  match GenExprTreeProofs.g_execute ut fuel x (absq q) cx with
  | Ok (f', n) => Ok (embed e0 f', n)
  | Fail => Fail
  | Panic => Panic
  end.

Lemma exec_translated_ok {E : Type} (e0 : E) ut cx fuel (x : GenExprTreeProofs.MExpression) :
  GenExprTreeProofs.wf_expr x = true -> (GenExprTreeProofs.fuel_need x <= fuel)%nat ->
  execute_ok ut cx (exec_translated e0 ut fuel) x (GenExprTreeProofs.abs_expr x).
Proof.
  intros Hwf Hfuel q f Hrep. unfold exec_translated.
  rewrite (rep_absq q f Hrep), (GenExprTreeProofs.g_execute_eq ut cx x fuel f Hwf Hfuel).
  destruct (execute ut cx (GenExprTreeProofs.abs_expr x) f) as [[f' n]| |]; [|reflexivity|reflexivity].
  eexists. split; [reflexivity|]. apply (embed_rep (fun _ _ => e0) (fun _ _ => e0) (fun _ => e0) (fun b => b)).
Qed.

(* ================================================================== C03_frame_sort on the translated Sort ===== *)

From QF Require Proofs.SortFrameProofs.

Lemma sort_frame_ok_range f orders g : ferr f = false -> sort_frame f orders = Ok g ->
  forall cs, comparables f orders = Some cs -> rows_in_range (ix f) (map fst cs) = true.
Proof.
  intros Hf Hs cs Hcs. unfold sort_frame in Hs. rewrite Hf in Hs. destruct orders as [|o orders].
  - cbn [comparables] in Hcs. inversion Hcs. unfold rows_in_range. cbn [map forallb]. apply orb_true_r.
  - rewrite Hcs in Hs. destruct (rows_in_range (ix f) (map fst cs)); [reflexivity|discriminate].
Qed.

Theorem gq_Sort_C03 {E : Type} (col_nil : coldata) (new_error : bytes -> bytes -> E) (unknownCol : bytes -> bytes)
  (fuel : nat) (q : gq_QFrame nat E coldata) (f : frame) (orders : list order) :
  wf_frame f = true -> ferr f = false -> SortFrameProofs.orders_known f orders = true -> rep q f ->
  (length (ix f) + 6 <= fuel)%nat -> Z.of_nat (length (ix f)) < 9223372036854775808 ->
  exists q' g t t',
    gq_QFrame_Sort col_nil new_error unknownCol m_col_Comparable (m_sorter fuel) q (map gorder_of orders) = Ok q' /\ rep q' g /\
    cols g = cols f /\ ferr g = false /\ Permutation (ix g) (ix f) /\
    abs f = Ok t /\ abs g = Ok t' /\ tnames t' = tnames t /\ ttypes t' = ttypes t /\
    Permutation (trows t') (trows t) /\
    (forall i a, nth_error (ix g) i = Some a ->
       exists row, row_at f a = Ok row /\ nth_error (trows t') i = Some row) /\
    (forall i j a b, (i < j)%nat -> nth_error (ix g) i = Some a -> nth_error (ix g) j = Some b ->
       SortFrameProofs.row_lt f orders b a = Ok false).
Proof.
  intros Hwf Hf Hk Hrep Hfuel Hlen.
  destruct (SortFrameProofs.frame_sort_full f orders Hwf Hf Hk) as (g & t & t' & Hs & Hrest).
  pose proof (gq_Sort_translated col_nil new_error unknownCol fuel q f orders Hrep Hfuel Hlen
                (sort_frame_ok_range f orders g Hf Hs)) as Hg.
  rewrite Hs in Hg. destruct Hg as (q' & Hq & Hrep'). exists q', g, t, t'. split; [exact Hq|]. split; [exact Hrep'|exact Hrest].
Qed.

(* ================================================================== ColumnTypes, ColumnTypeMap ============== *)

Section TypesRep.
Context {E : Type}.
Notation gframe := (gq_QFrame nat E coldata).
Notation gncol := (gq_namedColumn coldata).
Definition m_col_DataType (c : coldata) : outcome ctype := Ok (col_type c).

Lemma gq_ColumnTypes_loop : forall (l : list gncol) (pre : list ctype),
  gq_QFrame_ColumnTypes_loop1 m_col_DataType l (Z.of_nat (length pre)) (pre ++ repeat TInt (length l))
  = Ok (pre ++ map (fun nc => col_type (gq_namedColumn_Column nc)) l).
Proof.
  induction l as [|nc l IH]; intro pre; cbn [gq_QFrame_ColumnTypes_loop1 length map].
  - cbn [repeat]. reflexivity.
  - unfold m_col_DataType at 1. cbn [obind]. rewrite gq_update_fill. cbn [obind].
    replace (Z.of_nat (length pre) + 1) with (Z.of_nat (length (pre ++ [col_type (gq_namedColumn_Column nc)])))
      by (rewrite app_length; cbn [length]; lia).
    rewrite IH, <- app_assoc. reflexivity.
Qed.

(* ColumnTypes: the types of the columns in slice order (the ttypes of the logical table) *)
Lemma gq_ColumnTypes_eq (q : gframe) f : rep q f ->
  gq_QFrame_ColumnTypes TInt m_col_DataType q = Ok (map (fun nc => col_type (snd nc)) (cols f)).
Proof.
  intros (Hc & _). unfold gq_QFrame_ColumnTypes. rewrite gq_make_nat. cbn [obind].
  pose proof (gq_ColumnTypes_loop (gq_QFrame_columns q) []) as H. cbn [length app] in H.
  change (Z.of_nat 0) with 0 in H. rewrite H. cbn [obind]. rewrite Hc. f_equal.
  generalize (cols f) 0%nat. induction l as [|[n c] r IH]; intro pos; cbn [ncols_from map gq_namedColumn_Column snd]; [reflexivity|].
  rewrite IH. reflexivity.
Qed.

Lemma gq_ColumnTypeMap_loop : forall (l : list (bytes * gncol)) (acc : gq_map ctype),
  exists M, gq_QFrame_ColumnTypeMap_loop1 m_col_DataType l acc = Ok M
            /\ forall n, gq_mget M n = match gq_mget (rev l) n with
                                       | Some nc => Some (col_type (gq_namedColumn_Column nc))
                                       | None => gq_mget acc n
                                       end.
Proof.
  induction l as [|[k v] l IH]; intro acc; cbn [gq_QFrame_ColumnTypeMap_loop1 rev].
  - exists acc. split; [reflexivity|]. intro n. reflexivity.
  - unfold m_col_DataType at 1. cbn [obind].
    destruct (IH (gq_mset acc k (col_type (gq_namedColumn_Column v)))) as (M & Hrun & HM).
    exists M. split; [exact Hrun|]. intro n. rewrite HM, gq_mget_mset.
    assert (Happ : gq_mget (rev l ++ [(k, v)]) n = match gq_mget (rev l) n with Some x => Some x | None => if bytes_eqb k n then Some v else None end).
    { generalize (rev l). intro g0. induction g0 as [|[k' v'] r IHr]; cbn [app gq_mget]; [reflexivity|].
      destruct (bytes_eqb k' n); [reflexivity|exact IHr]. }
    rewrite Happ. destruct (gq_mget (rev l) n); [reflexivity|]. destruct (bytes_eqb k n); reflexivity.
Qed.

(* ColumnTypeMap: a name resolves to the type of the column the by-name map points to, for every iteration order *)
Lemma gq_ColumnTypeMap_eq ord (q : gframe) f : perm_order ord -> rep q f ->
  exists M, gq_QFrame_ColumnTypeMap m_col_DataType ord q = Ok M
            /\ forall n, gq_mget M n = option_map col_type (lookup_col f n).
Proof.
  intros Hord (Hc & Hi & He & Hn & Hm). unfold gq_QFrame_ColumnTypeMap.
  destruct (gq_ColumnTypeMap_loop (ord _ (gq_QFrame_columnsByName q)) []) as (M & Hrun & HM).
  rewrite Hrun. cbn [obind]. exists M. split; [reflexivity|]. intro n. rewrite HM.
  assert (Hp : Permutation (rev (ord _ (gq_QFrame_columnsByName q))) (gq_QFrame_columnsByName q)).
  { eapply Permutation_trans; [apply Permutation_sym, Permutation_rev|apply Hord]. }
  rewrite (gq_mget_perm _ _ n Hn Hp), Hm. unfold lookup_col. destruct (lookup f n) as [[p c]|]; reflexivity.
Qed.

End TypesRep.

(* the generated functions of this part with the boundary of the model *)
Definition m_Sort {E : Type} (col_nil : coldata) (new_error : bytes -> bytes -> E) (unknownCol : bytes -> bytes) (fuel : nat)
  : gq_QFrame nat E coldata -> list gq_Order -> outcome (gq_QFrame nat E coldata) :=
  gq_QFrame_Sort col_nil new_error unknownCol m_col_Comparable (m_sorter fuel).
Definition m_Equals {E : Type} (sprintf : bytes -> bytes)
  : gq_QFrame nat E coldata -> gq_QFrame nat E coldata -> outcome (bool * bytes) :=
  gq_QFrame_Equals sprintf (fun c i o oi => col_equals c i o oi).
