(* Proofs/GrouperCheck.v — the boolean checkers partition_b / distinct_b of Model/Grouper.v decide the
   specification predicates partition_ok / distinct_ok (they are the property oracle applied to what the
   implementation returned). *)
From QF Require Import Base.Prelude Model.Grouper Proofs.GrouperProofs Proofs.GrouperMain.

Lemma subseq_cons_notin {X} (l m : list X) x : subseq l (x :: m) -> ~ In x l -> subseq l m.
Proof.
  intros H Hn. inversion H as [|y l1 l2 H1|y l1 l2 H1]; subst; auto.
  exfalso. apply Hn. left; reflexivity.
Qed.

Lemma nodup_group {X} (gs : list (list X)) g : NoDup (concat gs) -> In g gs -> NoDup g.
Proof.
  induction gs as [|g0 gs IH]; intros ND Hg; [contradiction|].
  destruct Hg as [<-|Hg]; simpl in ND.
  - eapply nodup_app_l; eauto.
  - apply IH; auto. eapply nodup_app_r; eauto.
Qed.

Lemma concat_nil_all {X} (gs : list (list X)) : concat gs = [] -> forall g, In g gs -> g = [].
Proof.
  induction gs as [|g0 gs IH]; simpl; intros H g Hg; [contradiction|].
  destruct Hg as [<-|Hg].
  - apply app_eq_nil in H. tauto.
  - apply app_eq_nil in H. apply IH; tauto.
Qed.

Lemma fop_of_nodup {X} (R : X -> X -> Prop) (l : list X) :
  NoDup l -> (forall a b, In a l -> In b l -> a <> b -> R a b) -> ForallOrdPairs R l.
Proof.
  induction l as [|x l IH]; intros ND H; constructor.
  - apply Forall_forall. intros y Hy. inversion ND as [|? ? Hn _]; subst.
    apply H; [left; reflexivity | right; exact Hy |]. intro; subst. contradiction.
  - inversion ND; subst. apply IH; auto. intros a b Ha Hb. apply H; right; assumption.
Qed.

Section Check.
Context {A : Type}.
Variable aeq : A -> A -> bool.
Variable eqb : A -> A -> bool.
Hypothesis Haeq : forall x y, aeq x y = true <-> x = y.

Lemma aeq_refl x : aeq x x = true.
Proof. apply Haeq. reflexivity. Qed.

Lemma mem_b_spec x l : mem_b aeq x l = true <-> In x l.
Proof.
  induction l as [|y l IH]; simpl; [split; [discriminate | contradiction]|].
  destruct (aeq x y) eqn:E.
  - apply Haeq in E. subst. split; auto.
  - rewrite IH. split; auto. intros [H|H]; auto. subst. rewrite aeq_refl in E. discriminate.
Qed.

Lemma nodup_b_spec l : nodup_b aeq l = true <-> NoDup l.
Proof.
  induction l as [|x l IH]; simpl; [split; [constructor | reflexivity]|].
  rewrite andb_true_iff, negb_true_iff, IH. split.
  - intros (H1 & H2). constructor; auto. rewrite <- mem_b_spec. congruence.
  - intro H. inversion H as [|? ? Hn Hd]; subst. split; auto.
    destruct (mem_b aeq x l) eqn:E; auto. apply mem_b_spec in E. contradiction.
Qed.

Lemma related_b_spec i l : related_b eqb i l = true <-> exists j, In j l /\ eqb i j = true.
Proof.
  induction l as [|y l IH]; simpl.
  - split; [discriminate | intros (j & [] & _)].
  - destruct (eqb i y) eqn:E.
    + split; auto. intros _. exists y. auto.
    + rewrite IH. split.
      * intros (j & Hj & Ej). exists j. auto.
      * intros (j & [->|Hj] & Ej); [congruence|]. exists j. auto.
Qed.

Lemma apart_b_spec hs : apart_b eqb hs = true <-> ForallOrdPairs (fun h k => eqb h k = false) hs.
Proof.
  induction hs as [|h r IH]; simpl.
  - split; [constructor | reflexivity].
  - rewrite andb_true_iff, forallb_forall, IH. split.
    + intros (H1 & H2). constructor; auto. apply Forall_forall. intros k Hk.
      apply negb_true_iff. apply H1. exact Hk.
    + intro H. inversion H as [|? ? Hf Hr]; subst. split; auto.
      intros k Hk. apply negb_true_iff. rewrite Forall_forall in Hf. apply Hf. exact Hk.
Qed.

Lemma group_rel_b_spec g :
  group_rel_b eqb g = true <-> exists x r, g = x :: r /\ forall y, In y r -> eqb y x = true.
Proof.
  destruct g as [|x r]; simpl.
  - split; [discriminate | intros (x & r & H & _); discriminate].
  - rewrite forallb_forall. split.
    + intro H. exists x, r. auto.
    + intros (x' & r' & E & H). inversion E; subst. exact H.
Qed.

(* ---------------------------------------------------------------- unmerge *)

Lemma pop_head_some x gs gs' :
  pop_head aeq x gs = Some gs' ->
  exists l1 g l2, gs = l1 ++ (x :: g) :: l2 /\ gs' = l1 ++ g :: l2.
Proof.
  revert gs'; induction gs as [|g0 gs IH]; intros gs' H; simpl in H; [discriminate|].
  destruct g0 as [|y g0].
  - destruct (pop_head aeq x gs) as [r|]; simpl in H; [|discriminate].
    inversion H; subst. destruct (IH r eq_refl) as (l1 & g & l2 & E1 & E2).
    exists ([] :: l1), g, l2. subst. auto.
  - destruct (aeq x y) eqn:E.
    + apply Haeq in E. subst y. inversion H; subst. exists [], g0, gs. auto.
    + destruct (pop_head aeq x gs) as [r|]; simpl in H; [|discriminate].
      inversion H; subst. destruct (IH r eq_refl) as (l1 & g & l2 & E1 & E2).
      exists ((y :: g0) :: l1), g, l2. subst. auto.
Qed.

Lemma unmerge_sound : forall ids gs,
  unmerge aeq ids gs = true ->
  Permutation (concat gs) ids /\ forall g, In g gs -> subseq g ids.
Proof.
  induction ids as [|x ids IH]; intros gs H; simpl in H.
  - rewrite forallb_forall in H.
    assert (Hall : forall g, In g gs -> g = []).
    { intros g Hg. specialize (H g Hg). destruct g; [reflexivity | discriminate]. }
    split.
    + replace (concat gs) with (@nil A); [constructor|].
      symmetry. clear H. induction gs as [|g gs IHg]; simpl; auto.
      rewrite (Hall g (or_introl eq_refl)). simpl. apply IHg. intros g' Hg'. apply Hall. right; auto.
    + intros g Hg. rewrite (Hall g Hg). constructor.
  - destruct (pop_head aeq x gs) as [gs'|] eqn:E; [|discriminate].
    destruct (pop_head_some x gs gs' E) as (l1 & g & l2 & E1 & E2). subst gs gs'.
    destruct (IH _ H) as (P & S). split.
    + rewrite concat_app in *. simpl in *.
      eapply Permutation_trans; [apply Permutation_sym, Permutation_middle|].
      apply perm_skip. exact P.
    + intros g0 Hg0. apply in_app_or in Hg0. destruct Hg0 as [Hg0|[<-|Hg0]].
      * apply subseq_skip. apply S. apply in_or_app. auto.
      * apply subseq_take. apply S. apply in_or_app. right; left; reflexivity.
      * apply subseq_skip. apply S. apply in_or_app. right; right; exact Hg0.
Qed.

Lemma pop_head_complete x ids' : forall gs,
  ~ In x ids' -> (forall g, In g gs -> subseq g (x :: ids')) -> In x (concat gs) ->
  exists l1 g l2, gs = l1 ++ (x :: g) :: l2 /\ pop_head aeq x gs = Some (l1 ++ g :: l2).
Proof.
  intros gs Hn. induction gs as [|g0 gs IH]; intros Hs Hx; simpl in Hx; [contradiction|].
  assert (Hs' : forall g, In g gs -> subseq g (x :: ids')) by (intros g Hg; apply Hs; right; exact Hg).
  destruct g0 as [|y g0]; simpl.
  - destruct (IH Hs' Hx) as (l1 & g & l2 & E1 & E2). rewrite E2. simpl.
    exists ([] :: l1), g, l2. subst. auto.
  - destruct (aeq x y) eqn:E.
    + apply Haeq in E. subst y. exists [], g0, gs. auto.
    + assert (Hxy : x <> y) by (intro; subst; rewrite aeq_refl in E; discriminate).
      assert (Hng : ~ In x (y :: g0)).
      { intro Hin. specialize (Hs (y :: g0) (or_introl eq_refl)).
        inversion Hs as [|z l1 l2 H1|z l1 l2 H1]; subst.
        - apply Hn. apply (subseq_incl _ _ H1). exact Hin.
        - apply Hxy. reflexivity. }
      apply in_app_or in Hx. destruct Hx as [Hx|Hx]; [contradiction|].
      destruct (IH Hs' Hx) as (l1 & g & l2 & E1 & E2). rewrite E2. simpl.
      exists ((y :: g0) :: l1), g, l2. subst. auto.
Qed.

Lemma unmerge_complete : forall ids gs,
  NoDup ids -> Permutation (concat gs) ids -> (forall g, In g gs -> subseq g ids) ->
  unmerge aeq ids gs = true.
Proof.
  induction ids as [|x ids IH]; intros gs ND P S; simpl.
  - apply Permutation_sym, Permutation_nil in P.
    apply forallb_forall. intros g Hg. rewrite (concat_nil_all gs P g Hg). reflexivity.
  - inversion ND as [|? ? Hn ND']; subst.
    assert (Hx : In x (concat gs)).
    { eapply Permutation_in; [apply Permutation_sym; exact P | left; reflexivity]. }
    destruct (pop_head_complete x ids gs Hn S Hx) as (l1 & g & l2 & E1 & E2).
    rewrite E2. subst gs.
    assert (P' : Permutation (concat (l1 ++ g :: l2)) ids).
    { rewrite concat_app in *. simpl in *. apply Permutation_sym.
      eapply Permutation_cons_app_inv. apply Permutation_sym. exact P. }
    apply IH; auto.
    intros g' Hg'.
    assert (Hng : ~ In x g').
    { intro Hin. apply Hn. eapply Permutation_in; [exact P'|]. eapply in_concat_group; eauto. }
    apply in_app_or in Hg'. destruct Hg' as [Hg'|[<-|Hg']].
    + apply (subseq_cons_notin _ _ x); auto. apply S. apply in_or_app. auto.
    + specialize (S (x :: g)). assert (Hin : In (x :: g) (l1 ++ (x :: g) :: l2))
        by (apply in_or_app; right; left; reflexivity).
      specialize (S Hin). inversion S as [|z m1 m2 H1|z m1 m2 H1]; subst; auto.
      exfalso. apply Hn. apply (subseq_incl _ _ H1). left; reflexivity.
    + apply (subseq_cons_notin _ _ x); auto. apply S. apply in_or_app. right; right; exact Hg'.
Qed.

(* ---------------------------------------------------------------- partition_b *)

Theorem partition_b_sound ids gs :
  NoDup ids -> per_on eqb ids -> partition_b aeq eqb ids gs = true -> partition_ok eqb ids gs.
Proof.
  intros ND (Hsym & Htrans) H. unfold partition_b in H.
  apply andb_true_iff in H. destruct H as (H & Hap). apply andb_true_iff in H. destruct H as (Hun & Hrel).
  destruct (unmerge_sound ids gs Hun) as (P & S).
  rewrite forallb_forall in Hrel. apply apart_b_spec in Hap.
  assert (NDc : NoDup (concat gs)) by (eapply Permutation_NoDup; [apply Permutation_sym; exact P | exact ND]).
  assert (Hin : forall g x, In g gs -> In x g -> In x ids).
  { intros g x Hg Hx. apply (subseq_incl _ _ (S g Hg)). exact Hx. }
  split; [exact P|]. split.
  - intros g Hg. split; [|apply S; exact Hg].
    apply Hrel, group_rel_b_spec in Hg. destruct Hg as (x & r & -> & _). discriminate.
  - intros i j Hi Hj. split.
    + intros (g & Hg & Gi & Gj). pose proof (Hrel g Hg) as Hr. apply group_rel_b_spec in Hr.
      destruct Hr as (x & r & -> & Hr).
      assert (Hx : In x ids) by (eapply Hin; [exact Hg | left; reflexivity]).
      destruct Gi as [Gi|Gi], Gj as [Gj|Gj].
      * left. congruence.
      * right. subst i. apply Hsym; auto.
      * right. subst j. auto.
      * right. apply (Htrans i x j); auto.
    + intros [<-|E].
      * assert (Hc : In i (concat gs)).
        { eapply Permutation_in; [apply Permutation_sym; exact P | exact Hi]. }
        apply in_concat in Hc. destruct Hc as (g & Hg & Gi). exists g. auto.
      * assert (Hci : In i (concat gs)).
        { eapply Permutation_in; [apply Permutation_sym; exact P | exact Hi]. }
        assert (Hcj : In j (concat gs)).
        { eapply Permutation_in; [apply Permutation_sym; exact P | exact Hj]. }
        apply in_concat in Hci. destruct Hci as (g1 & Hg1 & Gi).
        apply in_concat in Hcj. destruct Hcj as (g2 & Hg2 & Gj).
        pose proof (Hrel g1 Hg1) as R1. apply group_rel_b_spec in R1. destruct R1 as (h1 & r1 & -> & R1).
        pose proof (Hrel g2 Hg2) as R2. apply group_rel_b_spec in R2. destruct R2 as (h2 & r2 & -> & R2).
        assert (Hh1 : In h1 ids) by (eapply Hin; [exact Hg1 | left; reflexivity]).
        assert (Hh2 : In h2 ids) by (eapply Hin; [exact Hg2 | left; reflexivity]).
        assert (Hff : eqb h1 h2 = true).
        { destruct Gi as [Gi|Gi], Gj as [Gj|Gj].
          - congruence.
          - subst i. apply (Htrans _ j _); auto.
          - subst j. apply (Htrans _ i _); auto.
          - apply (Htrans _ i _); auto. apply (Htrans _ j _); auto. }
        assert (E12 : h1 = h2).
        { destruct (ForallOrdPairs_In Hap h1 h2) as [E12|[E12|E12]]; auto.
          - apply in_heads. exists r1. exact Hg1.
          - apply in_heads. exists r2. exact Hg2.
          - congruence.
          - apply Hsym in Hff; auto. congruence. }
        subst h2.
        assert (Eg : h1 :: r1 = h1 :: r2).
        { apply (group_unique gs _ _ h1 NDc Hg1 Hg2); left; reflexivity. }
        exists (h1 :: r1). split; [exact Hg1|]. split; [exact Gi|]. rewrite Eg. exact Gj.
Qed.

Theorem partition_b_complete ids gs :
  NoDup ids -> partition_ok eqb ids gs -> partition_b aeq eqb ids gs = true.
Proof.
  intros ND PO. pose proof (distinct_of_partition eqb ids gs ND PO) as (Dn & _ & Dap & _).
  destruct PO as (P & Hg & Hsame).
  assert (NDc : NoDup (concat gs)) by (eapply Permutation_NoDup; [apply Permutation_sym; exact P | exact ND]).
  unfold partition_b. rewrite !andb_true_iff. repeat split.
  - apply unmerge_complete; auto. intros g G. apply Hg. exact G.
  - apply forallb_forall. intros g G. apply group_rel_b_spec.
    destruct (Hg g G) as (Hne & Hs). destruct g as [|x r]; [congruence|].
    exists x, r. split; [reflexivity|]. intros y Hy.
    assert (Iy : In y ids) by (apply (subseq_incl _ _ Hs); right; exact Hy).
    assert (Ix : In x ids) by (apply (subseq_incl _ _ Hs); left; reflexivity).
    destruct (proj1 (Hsame y x Iy Ix)) as [E|E]; auto.
    + exists (x :: r). split; [exact G|]. split; [right; exact Hy | left; reflexivity].
    + exfalso. subst y. pose proof (nodup_group gs _ NDc G) as NDg.
      inversion NDg; contradiction.
  - apply apart_b_spec. apply fop_of_nodup; auto.
Qed.

(* ---------------------------------------------------------------- distinct_b *)

Theorem distinct_b_sound ids d :
  per_on eqb ids -> distinct_b aeq eqb ids d = true -> distinct_ok eqb ids d.
Proof.
  intros (Hsym & _) H. unfold distinct_b in H. rewrite !andb_true_iff in H.
  destruct H as (((Hn & Hi) & Hap) & Hc).
  apply nodup_b_spec in Hn. rewrite forallb_forall in Hi, Hc. apply apart_b_spec in Hap.
  assert (Hincl : incl d ids) by (intros x Hx; apply mem_b_spec; apply Hi; exact Hx).
  repeat split; auto.
  - intros i j Ii Ij Hne. destruct (ForallOrdPairs_In Hap i j Ii Ij) as [E|[E|E]]; auto.
    + contradiction.
    + destruct (eqb i j) eqn:Eij; auto. apply Hsym in Eij; auto. congruence.
  - intros i Ii. specialize (Hc i Ii). destruct (mem_b aeq i d) eqn:Em.
    + left. apply mem_b_spec. exact Em.
    + right. apply related_b_spec. exact Hc.
Qed.

Theorem distinct_b_complete ids d :
  distinct_ok eqb ids d -> distinct_b aeq eqb ids d = true.
Proof.
  intros (Hn & Hi & Hap & Hc). unfold distinct_b. rewrite !andb_true_iff. repeat split.
  - apply nodup_b_spec. exact Hn.
  - apply forallb_forall. intros x Hx. apply mem_b_spec. apply Hi. exact Hx.
  - apply apart_b_spec. apply fop_of_nodup; auto.
  - apply forallb_forall. intros i Ii. destruct (mem_b aeq i d) eqn:Em; auto.
    destruct (Hc i Ii) as [H|H].
    + apply mem_b_spec in H. congruence.
    + apply related_b_spec. exact H.
Qed.

End Check.
