(* Model/Aggregate.v — L0 model of the frame-level part of QFrame.GroupBy / QFrame.Distinct (qframe.go) and of
   Grouper.Aggregate / Grouper.QFrames (grouper.go) with the per-type Column.Aggregate / Column.Subset
   (internal/template/column.go, internal/{i,f,b}column/aggregations.go, internal/{s,e}column/column.go).
   Executable definitions only; the proofs are in Proofs/AggregateProofs.v.

   The hash table itself (internal/grouper) is Model/Grouper.v; it enters here as the argument [grp]/[dst] of
   group_by_with / distinct_with ([table_group]/[table_distinct] are the instances built from Model/Grouper.v;
   the correspondence engine runs the instance "the groups observed through the hook", because the run-time
   memhash is seeded per process).

   Aggregation functions:
   * the string "count" and the built-in names are looked up in the generated tables t_{i,f,b}_aggregations;
     the integer and bool built-ins and the float max / min are modelled concretely (Go int = int64 with
     wrap-around; math.Max / math.Min on bit patterns), the float sum / avg go through an oracle table [ft]
     (Go function name, argument cells, result cell);
   * user functions func([]T) T are finite tables from the argument cells (enum cells are seen as the *string
     the function receives) to the result cell.  A missing table entry is a model fault (Panic). *)
From QF Require Import Base.Prelude Gen.GenConsts Gen.GenTables Model.Frame Model.Filter Model.Ops.
From QF Require Model.Grouper.
Local Open Scope N_scope.

(* ------------------------------------------------------------------ key cells of a row (Comparable) *)

(* what Compare/Hash of the column read at position p: enum columns compare and hash the rank byte *)
Definition key_cell_at (c : coldata) (p : nat) : outcome Grouper.cell :=
  match c with
  | ICol d => do z <- idx d p; Ok (Grouper.CInt z)
  | FCol d => do b <- idx d p; Ok (Grouper.CFloat b)
  | BCol d => do b <- idx d p; Ok (Grouper.CBool b)
  | SCol d => do s <- idx d p; Ok (Grouper.CStr s)
  | ECol d _ _ => do r <- idx d p; Ok (Grouper.CEnum r)
  end.

Definition key_row (kcols : list coldata) (p : nat) : outcome (list Grouper.cell) :=
  omap (fun c => key_cell_at c p) kcols.

Definition key_cells (kcols : list coldata) (p : nat) : list Grouper.cell :=
  match key_row kcols p with Ok k => k | _ => [] end.

(* equals(comparables, i, j) and the uint64 hash fold over the comparables, as Model/Grouper.v defines them *)
Definition key_eqb (nulleq : bool) (kcols : list coldata) (a b : nat) : bool :=
  Grouper.key_equal nulleq (key_cells kcols a) (key_cells kcols b).
Definition key_hash (memhash : bytes -> N -> N) (rnd : nat -> nat -> N) (nulleq : bool) (kcols : list coldata) (a : nat) : N :=
  Grouper.key_hash memhash nulleq (rnd a) (key_cells kcols a).

(* grouper.GroupBy(qf.index, comparables): every row of the index is hashed, so a position outside a key
   column panics *)
Definition table_group (memhash : bytes -> N -> N) (rnd : nat -> nat -> N) (nulleq : bool)
           (kcols : list coldata) (ids : list nat) : outcome (list (list nat)) :=
  do _ <- omap (key_row kcols) ids;
  Grouper.group_ids (key_eqb nulleq kcols) (key_hash memhash rnd nulleq kcols) ids.

(* grouper.Distinct(qf.index, comparables) *)
Definition table_distinct (memhash : bytes -> N -> N) (rnd : nat -> nat -> N) (nulleq : bool)
           (kcols : list coldata) (ids : list nat) : outcome (list nat) :=
  do _ <- omap (key_row kcols) ids;
  Grouper.distinct_ids (key_eqb nulleq kcols) (key_hash memhash rnd nulleq kcols) ids.

(* ------------------------------------------------------------------ QFrame.GroupBy *)

(* type Grouper struct { indices; groupedColumns; columns; columnsByName; Err; Stats } *)
Record grouper := mkGrouper {
  gcols : list (bytes * coldata);     (* g.columns (g.columnsByName resolves a name as the frame does) *)
  gkeys : list bytes;                 (* g.groupedColumns *)
  gindices : list (list nat);         (* g.indices *)
  gerr : bool                         (* g.Err != nil *)
}.

Definition err_grouper : grouper := mkGrouper [] [] [] true.

(* the frame whose by-name map is g.columnsByName *)
Definition gframe (g : grouper) : frame := mkFrame (gcols g) [] false.

(* qf.columnsByName[name].Column for every name; a missing name gives a nil Column whose method call panics *)
Definition named_cols (f : frame) (names : list bytes) : outcome (list coldata) :=
  omap (fun n => of_option (lookup_col f n)) names.

(* func (qf QFrame) GroupBy(configFns ...groupby.ConfigFunc) Grouper ; [grp] = grouper.GroupBy over the comparables *)
Definition group_by_with (grp : list coldata -> list nat -> outcome (list (list nat)))
           (f : frame) (columns : list bytes) : outcome grouper :=
  if ferr f then Ok err_grouper
  else if negb (forallb (contains f) columns) then Ok err_grouper           (* checkColumns *)
  else
    match ix f with
    | [] => Ok (mkGrouper (cols f) columns [] false)                        (* qf.Len() == 0 *)
    | _ :: _ =>
        match columns with
        | [] => Ok (mkGrouper (cols f) columns [ix f] false)                (* one group: the index itself *)
        | _ :: _ =>
            do kcols <- named_cols f columns;
            do gs <- grp kcols (ix f);
            Ok (mkGrouper (cols f) columns gs false)
        end
    end.

Definition group_by (memhash : bytes -> N -> N) (rnd : nat -> nat -> N) (nulleq : bool)
           (f : frame) (columns : list bytes) : outcome grouper :=
  group_by_with (table_group memhash rnd nulleq) f columns.

(* ------------------------------------------------------------------ QFrame.Distinct *)

(* func (qf QFrame) Distinct(configFns ...groupby.ConfigFunc) QFrame ; [dst] = grouper.Distinct.
   NB: the length test comes BEFORE the column check: an unknown column is not reported on a frame without rows *)
Definition distinct_with (dst : list coldata -> list nat -> outcome (list nat))
           (f : frame) (columns : list bytes) : outcome frame :=
  if ferr f then Ok f
  else
    match ix f with
    | [] => Ok f
    | _ :: _ =>
        if negb (forallb (contains f) columns) then Ok (with_err f)
        else
          let columns' := match columns with [] => col_names f | _ :: _ => columns end in   (* columnsOrAll *)
          do kcols <- named_cols f columns';
          do d <- dst kcols (ix f);
          Ok (with_ix f d)
    end.

Definition distinct (memhash : bytes -> N -> N) (rnd : nat -> nat -> N) (nulleq : bool)
           (f : frame) (columns : list bytes) : outcome frame :=
  distinct_with (table_distinct memhash rnd nulleq) f columns.

(* ------------------------------------------------------------------ aggregation functions *)

Inductive aggfn :=
| GName (name : bytes)                                (* a string: "count" or the name of a built-in *)
| GUser (t : ctype) (tbl : list (list cell * cell))   (* func([]T) T with T = int, float64, bool, *string *)
| GOther.                                             (* any other Go value *)

(* type Aggregation struct { Fn; Column; As } *)
Record aggregation := mkAgg { agfn : aggfn; acol : bytes; aas : bytes }.

(* TODO-GEN: the literal "count" of grouper.go, func Grouper.Aggregate (if agg.Fn == "count") *)
Definition name_count : bytes := bs 5 0x636f756e74.

(* Go function names of the built-ins (values of the generated tables t_*_aggregations) *)
Definition gofn_sum : bytes := bs 3 0x73756d.
Definition gofn_max : bytes := bs 3 0x6d6178.
Definition gofn_min : bytes := bs 3 0x6d696e.
Definition gofn_avg : bytes := bs 3 0x617667.
Definition gofn_majority : bytes := bs 8 0x6d616a6f72697479.

(* icolumn/aggregations.go *)
Definition i_sum (v : list Z) : Z := fold_left (fun r x => wrap64 (r + x)) v 0%Z.
Definition int_max (x y : Z) : Z := if (y <? x)%Z then x else y.      (* integer.Max *)
Definition int_min (x y : Z) : Z := if (x <? y)%Z then x else y.      (* integer.Min *)
Definition i_max (v : list Z) : outcome Z :=
  match v with [] => Panic | x :: r => Ok (fold_left int_max r x) end.   (* values[0] *)
Definition i_min (v : list Z) : outcome Z :=
  match v with [] => Panic | x :: r => Ok (fold_left int_min r x) end.

(* bcolumn/aggregations.go: tCount > fCount *)
Definition b_majority (v : list bool) : bool :=
  (length (filter negb v) <? length (filter (fun x => x) v))%nat.

(* fcolumn/aggregations.go: max / min fold math.Max / math.Min (GOROOT/src/math/dim.go, func max / min; on amd64
   the assembly archMax / archMin, trusted to compute the same function up to the payload of a NaN result) *)
Definition f_pinf : N := 0x7FF0000000000000.
Definition f_ninf : N := 0xFFF0000000000000.
Definition f_max (x y : N) : N :=
  if (x =? f_pinf) || (y =? f_pinf) then f_pinf                  (* IsInf(x, 1) || IsInf(y, 1) *)
  else if f_isnan x || f_isnan y then f_nan
  else if (f_key x =? 0)%Z && (f_key y =? 0)%Z then (if N.testbit x 63 then y else x)   (* x == 0 && x == y *)
  else if f_lt y x then x else y.
Definition f_min (x y : N) : N :=
  if (x =? f_ninf) || (y =? f_ninf) then f_ninf
  else if f_isnan x || f_isnan y then f_nan
  else if (f_key x =? 0)%Z && (f_key y =? 0)%Z then (if N.testbit x 63 then x else y)
  else if f_lt x y then x else y.
Definition fl_max (v : list N) : outcome N :=
  match v with [] => Panic | x :: r => Ok (fold_left f_max r x) end.   (* values[0] *)
Definition fl_min (v : list N) : outcome N :=
  match v with [] => Panic | x :: r => Ok (fold_left f_min r x) end.

(* oracle for the float built-ins sum and avg: (Go function name, argument cells, result cell) *)
Definition float_table := list (bytes * list cell * cell).

Definition cells_obs_eqb (a b : list cell) : bool := list_eqb cell_obs_eqb a b.

Definition float_oracle (ft : float_table) (gofn : bytes) (vals : list cell) : outcome cell :=
  match find (fun e => if bytes_eqb (fst (fst e)) gofn then cells_obs_eqb (snd (fst e)) vals else false) ft with
  | Some e => Ok (snd e)
  | None => Panic
  end.

Definition user_apply (tbl : list (list cell * cell)) (vals : list cell) : outcome cell :=
  match find (fun e => cells_obs_eqb (fst e) vals) tbl with
  | Some e => Ok (snd e)
  | None => Panic
  end.

Definition cell_int (c : cell) : outcome Z := match c with CInt z => Ok z | _ => Panic end.
Definition cell_bool (c : cell) : outcome bool := match c with CBool b => Ok b | _ => Panic end.
Definition cell_float (c : cell) : outcome N := match c with CFloat b => Ok b | _ => Panic end.

(* the built-in with Go function name [gofn] of the column package of type [t], applied to a slice of values *)
Definition builtin_apply (ft : float_table) (t : ctype) (gofn : bytes) (vals : list cell) : outcome cell :=
  match t with
  | TInt =>
      do zs <- omap cell_int vals;
      if bytes_eqb gofn gofn_sum then Ok (CInt (i_sum zs))
      else if bytes_eqb gofn gofn_max then do r <- i_max zs; Ok (CInt r)
      else if bytes_eqb gofn gofn_min then do r <- i_min zs; Ok (CInt r)
      else Panic
  | TFloat =>
      if bytes_eqb gofn gofn_max then do fs <- omap cell_float vals; do r <- fl_max fs; Ok (CFloat r)
      else if bytes_eqb gofn gofn_min then do fs <- omap cell_float vals; do r <- fl_min fs; Ok (CFloat r)
      else float_oracle ft gofn vals                               (* sum, avg: float addition and division *)
  | TBool =>
      do bl <- omap cell_bool vals;
      if bytes_eqb gofn gofn_majority then Ok (CBool (b_majority bl)) else Panic
  | _ => Panic
  end.

(* var aggregations = map[string]func(...) of the column package; string and enum columns have none *)
Definition agg_table_of (t : ctype) : list (bytes * bytes) :=
  match t with
  | TInt => t_i_aggregations
  | TFloat => t_f_aggregations
  | TBool => t_b_aggregations
  | _ => []
  end.

(* the type switch at the head of Column.Aggregate: the function that will be applied, or an error *)
Definition resolve_fn (ft : float_table) (c : coldata) (fn : aggfn) : outcome (list cell -> outcome cell) :=
  match fn with
  | GName n =>
      match assocb n (agg_table_of (col_type c)) with
      | Some gofn => Ok (builtin_apply ft (col_type c) gofn)
      | None => Fail
      end
  | GUser t tbl =>
      if ctype_eqb t (col_ftype c) && negb (ctype_eqb t TEnum) then Ok (user_apply tbl) else Fail
  | GOther => Fail
  end.

(* the value the aggregation function sees for position p: subsetWithBuf / stringSlice; an enum cell is the
   pointer into c.values (or nil) *)
Definition agg_cell_at (c : coldata) (p : nat) : outcome cell :=
  do x <- cell_at c p; Ok (match x with CEnum s => CStr s | y => y end).

Definition agg_vals (c : coldata) (g : list nat) : outcome (list cell) := omap (agg_cell_at c) g.

(* func (c Column) Aggregate(indices []index.Int, fn interface{}) (column.Column, error):
   the function is applied to each group's values in the order of the group; the result column has the type
   of the receiver, string for an enum receiver *)
Definition col_aggregate (ft : float_table) (c : coldata) (indices : list (list nat)) (fn : aggfn) : outcome coldata :=
  do fnc <- resolve_fn ft c fn;
  do cells <- omap (fun g => do vals <- agg_vals c g; fnc vals) indices;
  col_of_cells (col_ftype c) cells.

(* func (c Column) Subset(index index.Int) column.Column ; the enum subset does not copy the strict flag *)
Definition col_subset (c : coldata) (index : list nat) : outcome coldata :=
  match c with
  | ICol d => do r <- omap (idx d) index; Ok (ICol r)
  | FCol d => do r <- omap (idx d) index; Ok (FCol r)
  | BCol d => do r <- omap (idx d) index; Ok (BCol r)
  | SCol d => do r <- omap (idx d) index; Ok (SCol r)
  | ECol d vs _ => do r <- omap (idx d) index; Ok (ECol r vs false)
  end.

(* ------------------------------------------------------------------ Grouper.Aggregate *)

Definition agg_name (a : aggregation) : bytes :=
  if empty_name (aas a) then acol a else aas a.

Definition name_in (n : bytes) (cs : list (bytes * coldata)) : bool :=
  existsb (fun nc => bytes_eqb (fst nc) n) cs.

Definition err_frame : frame := mkFrame [] [] true.

(* if agg.Fn == "count" *)
Definition is_count (fn : aggfn) : bool :=
  match fn with GName n => bytes_eqb n name_count | _ => false end.

(* the column an aggregation produces: the group sizes for "count", else col.Aggregate(g.indices, agg.Fn) *)
Definition agg_column (ft : float_table) (c : coldata) (indices : list (list nat)) (fn : aggfn) : outcome coldata :=
  if is_count fn then Ok (ICol (map (fun ix => Z.of_nat (length ix)) indices))
  else col_aggregate ft c indices fn.

(* one iteration of `for _, agg := range aggs`; Fail = `return QFrame{Err: ...}` *)
Definition agg_step (ft : float_table) (g : grouper) (acc : list (bytes * coldata)) (a : aggregation)
  : outcome (list (bytes * coldata)) :=
  match lookup_col (gframe g) (acol a) with
  | None => Fail                                                   (* unknownCol *)
  | Some c =>
      if name_in (agg_name a) acc then Fail                        (* part of group by or already an aggregate *)
      else do r <- agg_column ft c (gindices g) (agfn a); Ok (acc ++ [(agg_name a, r)])
  end.

(* --- specification of the error cases (used by the property oracle of the engine and by the theorems) --- *)

(* the type switch of Column.Aggregate accepts Fn for a column of this type *)
Definition fn_applicable (c : coldata) (fn : aggfn) : bool :=
  match fn with
  | GName n => match assocb n (agg_table_of (col_type c)) with Some _ => true | None => false end
  | GUser t _ => ctype_eqb t (col_ftype c) && negb (ctype_eqb t TEnum)
  | GOther => false
  end.

(* aggregation [a] is rejected when [names] are the grouping columns and the result names of the aggregations
   before it: unknown column, or result name already taken, or (unless "count") function not applicable *)
Definition agg_invalid (g : grouper) (names : list bytes) (a : aggregation) : bool :=
  match lookup_col (gframe g) (acol a) with
  | None => true
  | Some c => existsb (fun m => bytes_eqb m (agg_name a)) names
              || (negb (is_count (agfn a)) && negb (fn_applicable c (agfn a)))
  end.

(* func (g Grouper) Aggregate(aggs ...Aggregation) QFrame *)
Definition aggregate (ft : float_table) (g : grouper) (aggs : list aggregation) : outcome frame :=
  if gerr g then Ok err_frame
  else
    do firsts <- omap (fun ix => idx ix 0%nat) (gindices g);       (* firstElementIx[i] = ix[0] *)
    do keycols <- omap (fun n => do c <- of_option (lookup_col (gframe g) n);
                                 do s <- col_subset c firsts; Ok (n, s)) (gkeys g);
    match ofold (agg_step ft g) aggs keycols with
    | Ok cs => Ok (mkFrame cs (seq 0 (length (gindices g))) false)
    | Fail => Ok err_frame
    | Panic => Panic
    end.

(* func (g Grouper) QFrames() ([]QFrame, error) *)
Definition qframes (g : grouper) : outcome (list frame) :=
  if gerr g then Fail
  else Ok (map (fun ix => mkFrame (gcols g) ix false) (gindices g)).
