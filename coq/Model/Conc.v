(* Model/Conc.v — concurrent use of the heap level (C11).
   Threads are programs started from a common store.  Thread number i (position i in the list of
   programs) has thread id S i, so its k-th allocation is the location (S i, k) in every schedule;
   tid 0 never allocates (it names, by convention, what exists before the threads start).
   A schedule is a list of thread ids; one step executes ONE action node (Alloc / Read / Write / Call)
   of the chosen thread against the shared store; a step of a finished or non-existent thread is a no-op.
   Every Alloc / Read / Write is recorded in the trace as (tid, location, is_write).
   qframe contains no synchronisation at all, so no two accesses of different threads are ordered:
   a race is any two accesses to one location by different threads of which at least one is a write. *)
From QF Require Import Base.Prelude Model.Heap.

Record tstate (A : Type) := mkT { ts_code : prog A; ts_ctr : nat }.
Arguments mkT {A} ts_code ts_ctr.
Arguments ts_code {A} t.
Arguments ts_ctr {A} t.

Definition event := (tid * loc * bool)%type.     (* thread, location, is_write *)

Record cstate (A : Type) := mkC { c_pool : list (tstate A); c_store : store; c_trace : list event }.
Arguments mkC {A} c_pool c_store c_trace.
Arguments c_pool {A} c.
Arguments c_store {A} c.
Arguments c_trace {A} c.

Section Conc.
  Variable env : fnid -> list val -> val.

  (* one action node of thread t against the shared store *)
  Definition tstep {A} (t : tid) (th : tstate A) (s : store) : option (tstate A * store * option event) :=
    match ts_code th with
    | Ret _ => None
    | Alloc init k =>
        let l := (t, ts_ctr th) in
        Some (mkT (k l) (S (ts_ctr th)), update s l init, Some (t, l, true))
    | Read l k => Some (mkT (k (read_loc s l)) (ts_ctr th), s, Some (t, l, false))
    | Write l i v k => Some (mkT k (ts_ctr th), write_loc s l i v, Some (t, l, true))
    | Call fn args k => Some (mkT (k (scalar (env fn args))) (ts_ctr th), s, None)
    end.

  Definition cstep {A} (t : tid) (c : cstate A) : cstate A :=
    match t with
    | O => c
    | S i =>
        match nth_error (c_pool c) i with
        | None => c
        | Some th =>
            match tstep t th (c_store c) with
            | None => c
            | Some (th', s', ev) =>
                mkC (set_nth (c_pool c) i th') s'
                    (match ev with Some e => e :: c_trace c | None => c_trace c end)
            end
        end
    end.

  Definition cinit {A} (progs : list (prog A)) (s : store) : cstate A :=
    mkC (map (fun p => mkT p 0) progs) s [].

  Definition run_conc {A} (progs : list (prog A)) (sched : list tid) (s : store) : cstate A :=
    fold_left (fun c t => cstep t c) sched (cinit progs s).

  Definition result_of {A} (th : tstate A) : option A :=
    match ts_code th with Ret a => Some a | _ => None end.

  Definition results {A} (c : cstate A) : list (option A) := map result_of (c_pool c).

  (* the schedule ran every thread to its end *)
  Definition complete {A} (c : cstate A) : bool :=
    forallb (fun th => match result_of th with Some _ => true | None => false end) (c_pool c).

  (* what each thread returns when it runs alone from the same store *)
  Fixpoint solo_results_from {A} (i : nat) (progs : list (prog A)) (s : store) : list (option A) :=
    match progs with
    | [] => []
    | p :: r => Some (fst (fst (run env (S i) p 0 s))) :: solo_results_from (S i) r s
    end.
  Definition solo_results {A} (progs : list (prog A)) (s : store) := solo_results_from 0 progs s.
End Conc.

Definition conflict (e1 e2 : event) : bool :=
  let '(t1, l1, w1) := e1 in
  let '(t2, l2, w2) := e2 in
  (negb (t1 =? t2)%nat && loc_eqb l1 l2 && (w1 || w2))%bool.

Fixpoint has_race (tr : list event) : bool :=
  match tr with
  | [] => false
  | e :: r => (existsb (conflict e) r || has_race r)%bool
  end.

Definition no_race (tr : list event) : Prop :=
  forall e1 e2, In e1 tr -> In e2 tr -> conflict e1 e2 = false.

(* a fair schedule for tests: rounds of 1..m *)
Fixpoint round_robin (m rounds : nat) : list tid :=
  match rounds with
  | O => []
  | S r => seq 1 m ++ round_robin m r
  end.
