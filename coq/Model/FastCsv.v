(* Model/FastCsv.v — buffer-level model of /repo/internal/fastcsv/csv.go (state of the tree after the
   three repairs: look-ahead loop, CR skipped only after a closing quote, empty last field at EOF).

   The scan buffer [data] is a PHYSICAL array of cap bytes (a list of length cap) together with the
   slice length [b_len] and the cursor; bytes between len and cap are kept ("stale") across reset
   and across reads that do not overwrite them; a reallocation zero-fills everything beyond len.
   The io.Reader is an oracle: the list of chunks still to be delivered (the "schedule"), the way the
   stream ends, and whether the eofReaderWrapper has seen EOF-with-data.
   Executable definitions only; no proofs in this file. *)
From QF Require Import Base.Prelude Gen.GenConsts.

(* ------------------------------------------------------------------ the reader oracle *)

(* How the stream ends once every chunk has been handed out. *)
Inductive rterm :=
| TEofSep      (* a separate read returns (0, io.EOF) *)
| TEofWith     (* the read that delivers the last byte also returns io.EOF *)
| TFailSep     (* a separate read returns (0, err), err <> io.EOF *)
| TFailWith.   (* the read that delivers the last byte also returns err *)

Inductive rerr := RNil | REof | RFail.

Definition rerr_eqb (a b : rerr) : bool :=
  match a, b with RNil, RNil | REof, REof | RFail, RFail => true | _, _ => false end.

Definition term_err (t : rterm) : rerr :=
  match t with TEofSep | TEofWith => REof | TFailSep | TFailWith => RFail end.
Definition term_with (t : rterm) : bool :=
  match t with TEofWith | TFailWith => true | _ => false end.

Record reader := mkReader {
  r_chunks : list bytes;   (* what is still to be delivered; a Read never crosses a chunk border *)
  r_term   : rterm;
  r_iseof  : bool          (* eofReaderWrapper.isEof *)
}.

Definition is_nil {A} (l : list A) : bool := match l with [] => true | _ => false end.

(* The underlying reader: Read(p) with len(p) = c receives min(c, |chunk remainder|) bytes. *)
Definition raw_read (c : nat) (r : reader) : bytes * rerr * reader :=
  match r_chunks r with
  | [] => ([], term_err (r_term r), r)
  | ch :: rest =>
      let out := firstn c ch in
      let rem := skipn c ch in
      let chunks' := if is_nil rem then rest else rem :: rest in
      let e := if is_nil chunks' && term_with (r_term r) then term_err (r_term r) else RNil in
      (out, e, mkReader chunks' (r_term r) (r_iseof r))
  end.

(* eofReaderWrapper.Read *)
Definition wrapped_read (c : nat) (r : reader) : bytes * rerr * reader :=
  if r_iseof r then ([], REof, r)
  else
    let '(out, e, r') := raw_read c r in
    if rerr_eqb e REof && negb (is_nil out)
    then (out, RNil, mkReader (r_chunks r') (r_term r') true)
    else (out, e, r').

(* ------------------------------------------------------------------ bufferedReader *)

Record buf := mkBuf {
  b_data : list N;   (* physical array, length = cap(data) *)
  b_len  : nat;      (* len(data) *)
  b_cur  : nat;      (* cursor *)
  b_rd   : reader
}.

Definition b_cap (b : buf) : nat := length (b_data b).

(* write [out] into [data] from position [pos] on (the reader was given exactly that window) *)
Definition blit (data : list N) (pos : nat) (out : bytes) : list N :=
  firstn pos data ++ out ++ skipn (pos + length out) data.

(* func (b *bufferedReader) more() error *)
Definition more (b : buf) : buf * rerr :=
  let data :=
    if Nat.eqb (b_len b) (b_cap b)
    then firstn (b_len b) (b_data b)
         ++ repeat 0%N (N.to_nat c_csv_grow_mul * b_len b + N.to_nat c_csv_grow_add - b_len b)
    else b_data b in
  let '(out, e, rd) := wrapped_read (length data - b_len b) (b_rd b) in
  (mkBuf (blit data (b_len b) out) (b_len b + length out) (b_cur b) rd, e).

(* func (b *bufferedReader) reset(): copy(b.data, b.data[b.cursor:]); shrink; cursor = 0 *)
Definition buf_reset (b : buf) : buf :=
  let n := b_len b - b_cur b in
  mkBuf (firstn n (skipn (b_cur b) (b_data b)) ++ skipn n (b_data b)) n 0 (b_rd b).

(* b.data[i] : index expression on the slice (panics at i >= len) *)
Definition buf_get (b : buf) (i : nat) : outcome N :=
  if Nat.ltb i (b_len b) then idx (b_data b) i else Panic.

(* b.data[s:e] as an (offset, end) pair; Go panics unless s <= e <= cap *)
Definition buf_slice (b : buf) (s e : nat) : outcome (nat * nat) :=
  if Nat.leb s e && Nat.leb e (b_cap b) then Ok (s, e) else Panic.

Definition with_cur (b : buf) (c : nat) : buf := mkBuf (b_data b) (b_len b) c (b_rd b).
Definition with_data (b : buf) (d : list N) : buf := mkBuf d (b_len b) (b_cur b) (b_rd b).

(* ------------------------------------------------------------------ fields *)

Record fstate := mkFs {
  f_start  : nat;          (* fieldStart *)
  f_buf    : buf;
  f_eol    : bool;         (* hitEOL *)
  f_field  : nat * nat;    (* field, as offsets into buffer.data *)
  f_err    : rerr          (* sticky err *)
}.

Definition ch_quote : N := 34.
Definition ch_lf : N := 10.
Definition ch_cr : N := 13.

(* func (fs *fields) reset() *)
Definition fields_reset (fs : fstate) : fstate :=
  mkFs 0 (buf_reset (f_buf fs)) false (0, 0) (f_err fs).

(* func (fs *fields) nextUnquotedField() bool.
   The local variable cursor always equals fs.buffer.cursor at the head of the loop (it is
   initialised from it and stored back after every increment), so the model keeps only b_cur. *)
Fixpoint next_unquoted (fuel : nat) (delim : N) (fs : fstate) : outcome (fstate * bool) :=
  match fuel with
  | O => Panic
  | S fuel' =>
      let b0 := f_buf fs in
      let cursor := b_cur b0 in
      let '(b, e) := if Nat.leb (b_len b0) cursor then more b0 else (b0, RNil) in
      match e with
      | REof =>
          do fld <- buf_slice b (f_start fs) cursor;
          Ok (mkFs (f_start fs) b true fld REof, true)
      | RFail => Ok (mkFs (f_start fs) b (f_eol fs) (f_field fs) RFail, false)
      | RNil =>
          do ch <- buf_get b cursor;
          let cursor' := S cursor in
          let b' := with_cur b cursor' in
          if N.eqb ch delim then
            do fld <- buf_slice b' (f_start fs) (cursor' - 1);
            Ok (mkFs cursor' b' (f_eol fs) fld (f_err fs), true)
          else if N.eqb ch ch_lf then
            do fld <- buf_slice b' (f_start fs) (cursor' - 1);
            Ok (mkFs (f_start fs) b' true fld (f_err fs), true)
          else next_unquoted fuel' delim (mkFs (f_start fs) b' (f_eol fs) (f_field fs) (f_err fs))
      end
  end.

(* the inner loop  for buffer.cursor+1 >= len(buffer.data) { if err := buffer.more(); err != nil {...} } ;
   returns the error that ended it (RNil: two bytes are available) *)
Fixpoint q_fill (fuel : nat) (b : buf) : outcome (buf * rerr) :=
  match fuel with
  | O => Panic
  | S fuel' =>
      if Nat.leb (b_len b) (b_cur b + 1) then
        let '(b', e) := more b in
        match e with
        | RNil => q_fill fuel' b'
        | _ => Ok (b', e)
        end
      else Ok (b, RNil)
  end.

(* result of nextQuotedField: buffer, field, hitEOL, err *)
Definition qresult : Type := buf * (nat * nat) * bool * rerr.

(* quoteCount = 0; writeCursor++; copy(data[w:w+1], data[cursor:cursor+1]) when w != cursor.
   The two slice expressions are bounded by cap, not by len. *)
Definition q_write (b : buf) (w : nat) : outcome (buf * nat) :=
  let w' := S w in
  if Nat.eqb w' (b_cur b) then Ok (b, w')
  else
    if Nat.leb (S w') (b_cap b) && Nat.leb (S (b_cur b)) (b_cap b) then
      do x <- idx (b_data b) (b_cur b);
      Ok (with_data b (set_nth (b_data b) w' x), w')
    else Panic.

Fixpoint next_quoted_loop (fuel : nat) (delim : N) (b : buf) (start w qc : nat) : outcome qresult :=
  match fuel with
  | O => Panic
  | S fuel' =>
      do be <- q_fill (S fuel') b;
      let '(b, e) := be in
      match e with
      | RNil =>
          do ch <- buf_get b (b_cur b);
          let b := with_cur b (S (b_cur b)) in
          let write_step :=
            do bw <- q_write b w;
            let '(b', w') := bw in
            next_quoted_loop fuel' delim b' start w' 0 in
          if N.eqb ch delim then
            if Nat.odd qc then do fld <- buf_slice b start w; Ok (b, fld, false, RNil)
            else write_step
          else if N.eqb ch ch_lf then
            if Nat.odd qc then do fld <- buf_slice b start w; Ok (b, fld, true, RNil)
            else write_step
          else if N.eqb ch ch_cr then
            if Nat.odd qc then next_quoted_loop fuel' delim b start w qc
            else write_step
          else if N.eqb ch ch_quote then
            let qc' := S qc in
            if Nat.odd qc' then next_quoted_loop fuel' delim b start w qc'
            else
              do bw <- q_write b w;
              let '(b', w') := bw in
              next_quoted_loop fuel' delim b' start w' 0
          else write_step
      | _ =>
          let at_delim :=
            rerr_eqb e REof && Nat.odd qc && Nat.ltb (b_cur b) (b_len b)
            && match nth_error (b_data b) (b_cur b) with Some x => N.eqb x delim | None => false end in
          if at_delim then
            let b' := with_cur b (S (b_cur b)) in
            do fld <- buf_slice b' start w; Ok (b', fld, false, RNil)
          else
            do fld <- buf_slice b start w; Ok (b, fld, true, e)
      end
  end.

(* func nextQuotedField(buffer *bufferedReader, delimiter byte) ([]byte, bool, error) *)
Definition next_quoted (fuel : nat) (delim : N) (b : buf) : outcome qresult :=
  let b := with_cur b (S (b_cur b)) in
  next_quoted_loop fuel delim b (b_cur b) (b_cur b) 0.

(* func (fs *fields) next() bool *)
Definition fields_next (fuel : nat) (delim : N) (fs : fstate) : outcome (fstate * bool) :=
  if f_eol fs then Ok (fs, false)
  else
    let b0 := f_buf fs in
    let '(b, e) := if Nat.leb (b_len b0) (b_cur b0) then more b0 else (b0, RNil) in
    match e with
    | RNil =>
        do first <- buf_get b (b_cur b);
        if N.eqb first ch_quote then
          do r <- next_quoted fuel delim b;
          let '(b', fld, eol, err) := r in
          Ok (mkFs (b_cur b') b' eol fld err, rerr_eqb err RNil || rerr_eqb err REof)
        else next_unquoted fuel delim (mkFs (f_start fs) b (f_eol fs) (f_field fs) (f_err fs))
    | _ =>
        if rerr_eqb e REof && Nat.ltb 0 (f_start fs) then
          do fld <- buf_slice b (f_start fs) (f_start fs);
          Ok (mkFs (f_start fs) b true fld e, true)
        else Ok (mkFs (f_start fs) b (f_eol fs) (f_field fs) e, false)
    end.

(* ------------------------------------------------------------------ Reader *)

Record rdstate := mkRd {
  rd_fields : fstate;
  rd_row    : list (nat * nat)    (* fieldsBuffer *)
}.

(* for r.fields.next() { r.fieldsBuffer = append(r.fieldsBuffer, r.fields.field) } *)
Fixpoint row_loop (fuel : nat) (delim : N) (fs : fstate) (acc : list (nat * nat))
  : outcome (fstate * list (nat * nat)) :=
  match fuel with
  | O => Panic
  | S fuel' =>
      do r <- fields_next (S fuel') delim fs;
      let '(fs', ok) := r in
      if ok then row_loop fuel' delim fs' (acc ++ [f_field fs']) else Ok (fs', acc)
  end.

(* the bytes a field slice denotes, read from the physical array *)
Definition resolve (b : buf) (f : nat * nat) : bytes :=
  firstn (snd f - fst f) (skipn (fst f) (b_data b)).

(* CRLF support: drop a trailing '\r' of the last field *)
Definition trim_last_cr (b : buf) (row : list (nat * nat)) : outcome (list (nat * nat)) :=
  match rev row with
  | [] => Ok row
  | (s, e) :: front_rev =>
      if Nat.ltb 0 (e - s) then
        do x <- idx (b_data b) (e - 1);
        if N.eqb x ch_cr then Ok (rev front_rev ++ [(s, e - 1)]) else Ok row
      else Ok row
  end.

(* func (r *Reader) Next() bool *)
Definition reader_next (fuel : nat) (delim : N) (rd : rdstate) : outcome (rdstate * bool) :=
  if negb (rerr_eqb (f_err (rd_fields rd)) RNil) then Ok (rd, false)
  else
    let fs0 := fields_reset (rd_fields rd) in
    do r <- row_loop fuel delim fs0 [];
    let '(fs, row) := r in
    do row' <- trim_last_cr (f_buf fs) row;
    if is_nil row' then
      let fs' := if rerr_eqb (f_err fs) RNil
                 then mkFs (f_start fs) (f_buf fs) (f_eol fs) (f_field fs) REof else fs in
      Ok (mkRd fs' row', false)
    else Ok (mkRd fs row', true).

(* Fields(), copied out (the slices are only valid until the next call of Next) *)
Definition reader_fields (rd : rdstate) : list bytes :=
  map (resolve (f_buf (rd_fields rd))) (rd_row rd).

(* Err() != nil *)
Definition reader_failed (rd : rdstate) : bool := rerr_eqb (f_err (rd_fields rd)) RFail.

(* NewReader with a chosen initial capacity (Go: c_csv_init_cap) *)
Definition new_reader (cap : nat) (chunks : list bytes) (t : rterm) : rdstate :=
  mkRd (mkFs 0 (mkBuf (repeat 0%N cap) (N.to_nat c_csv_init_len) 0 (mkReader chunks t false))
             false (0, 0) RNil) [].

Definition buf_state (rd : rdstate) : nat * nat * nat :=
  let b := f_buf (rd_fields rd) in (b_len b, b_cap b, b_cur b).

(* for r.Next() { rows = append(rows, copy of r.Fields()) }, with the buffer state (len, cap, cursor)
   observed after every call of Next *)
Fixpoint scan_loop (fuel fuel_in : nat) (delim : N) (rd : rdstate)
         (rows : list (list bytes)) (trace : list (nat * nat * nat))
  : outcome (list (list bytes) * bool * list (nat * nat * nat)) :=
  match fuel with
  | O => Panic
  | S fuel' =>
      do r <- reader_next fuel_in delim rd;
      let '(rd', ok) := r in
      let trace' := buf_state rd' :: trace in
      if ok then scan_loop fuel' fuel_in delim rd' (reader_fields rd' :: rows) trace'
      else Ok (rev rows, reader_failed rd', rev trace')
  end.

(* every loop of the scanner consumes a byte, receives at least one byte, or consumes a chunk *)
Definition scan_fuel (chunks : list bytes) : nat :=
  length (concat chunks) + length chunks + 4.

Definition scan_trace (cap : nat) (delim : N) (chunks : list bytes) (t : rterm)
  : outcome (list (list bytes) * bool * list (nat * nat * nat)) :=
  let fuel := scan_fuel chunks in
  scan_loop fuel fuel delim (new_reader cap chunks t) [] [].

(* rows and Err()-ness *)
Definition scan (cap : nat) (delim : N) (chunks : list bytes) (t : rterm)
  : outcome (list (list bytes) * bool) :=
  do r <- scan_trace cap delim chunks t;
  Ok (fst r).

(* fastcsv.NewReader *)
Definition scan_default (delim : N) (chunks : list bytes) (t : rterm) :=
  scan (N.to_nat c_csv_init_cap) delim chunks t.
