(* Model/Match.v — internal/strings/convert.go (ToUpper), internal/strings/match.go (NewMatcher and the
   nine matchers), and their use by internal/scolumn/filters.go (regexFilter) and
   internal/ecolumn/filters.go (filterLike) + column.go (filterWithBitset).
   Opaque standard-library functions are section variables (they become explicit arguments):
     up         unicode.ToUpper on a decoded rune (the result is an int32, possibly negative in
                principle: the code tests r >= 0)
     str_upper  strings.ToUpper on the pattern
     re_match   regexp: [re_match pat s] = None when [pat] does not compile, else Some (MatchString s)
   Executable definitions only; lemmas are in Proofs/MatchProofs.v. *)
From QF Require Import Base.Prelude Model.Utf8 Model.Bits.
Local Open Scope N_scope.

(* ------------------------------------------------------------------ slices and buffers *)

(* s[:i] and s[i:] on a string / on a slice whose capacity equals its length (the model is
   conservative for slices with spare capacity: it reports Panic where Go would allow i <= cap). *)
Definition slice_to (s : bytes) (i : Z) : outcome bytes :=
  if ((0 <=? i) && (i <=? Z.of_nat (length s)))%Z then Ok (firstn (Z.to_nat i) s) else Panic.
Definition slice_from (s : bytes) (i : Z) : outcome bytes :=
  if ((0 <=? i) && (i <=? Z.of_nat (length s)))%Z then Ok (skipn (Z.to_nat i) s) else Panic.

(* b[i] = v *)
Definition store (b : bytes) (i : nat) (v : N) : outcome bytes :=
  if (i <? length b)%nat then Ok (set_nth b i v) else Panic.

(* utf8.EncodeRune(b[off:], r) given the bytes [d] it writes: panics when they do not fit *)
Definition write_at (b : bytes) (off : nat) (d : bytes) : outcome bytes :=
  if (off + length d <=? length b)%nat
  then Ok (firstn off b ++ d ++ skipn (off + length d) b) else Panic.

(* copy(dst, src): the new contents of dst; the number of bytes copied is min(len dst, len src) *)
Definition copy_into (dst src : bytes) : bytes :=
  let n := Nat.min (length dst) (length src) in firstn n src ++ skipn n dst.

(* make([]byte, n) *)
Definition make_bytes (n : nat) : bytes := repeat 0 n.

(* ------------------------------------------------------------------ ToUpper *)
Section ToUpper.
  Variable up : N -> Z.

  (* first loop: `for i, c := range s { r := unicode.ToUpper(c); if r == c { continue }; ...; break }` *)
  Fixpoint first_changed (l : list (nat * N)) : option (nat * N * Z) :=
    match l with
    | [] => None
    | (i, c) :: l' =>
        let r := up c in
        if (r =? Z.of_N c)%Z then first_changed l' else Some (i, c, r)
    end.

  (* body of the second loop for one rune c; state = (b, nbytes) *)
  Definition tu_step (b : bytes) (nb : nat) (c : N) : outcome (bytes * nat) :=
    let r := up c in
    if ((0 <=? r) && (r <? Z.of_N rune_self))%Z && (nb <? length b)%nat then
      (* common case *)
      do b' <- store b nb (to_byte (Z.to_N r));
      Ok (b', S nb)
    else if (0 <=? r)%Z then
      do b1 <- (if (length b <=? nb + utf_max)%nat then
                  (* nb := make([]byte, 2*len(b)); copy(nb, b[:nbytes]); b = nb *)
                  do pre <- slice_to b (Z.of_nat nb);
                  Ok (copy_into (make_bytes (2 * length b)) pre)
                else Ok b);
      do b2 <- write_at b1 nb (encode_rune r);
      Ok (b2, (nb + length (encode_rune r))%nat)
    else Ok (b, nb).

  Fixpoint tu_loop (cs : list N) (b : bytes) (nb : nat) : outcome (bytes * nat) :=
    match cs with
    | [] => Ok (b, nb)
    | c :: cs' => do st <- tu_step b nb c; tu_loop cs' (fst st) (snd st)
    end.

  (* func ToUpper(bP *[]byte, s string) string — result: (returned string, contents of *bP afterwards).
     The returned string aliases the buffer; the model returns its value at the time of return. *)
  Definition to_upper (bp s : bytes) : outcome (bytes * bytes) :=
    match first_changed (range_string s) with
    | None => Ok (s, bp)                                     (* b == nil: return s, *bP untouched *)
    | Some (i, c, r) =>
        let b0 := if (length s + utf_max <=? length bp)%nat then bp
                  else make_bytes (length s + utf_max) in
        do pre <- slice_to s (Z.of_nat i);
        let b1 := copy_into b0 pre in
        let nb := Nat.min (length b0) (length pre) in        (* nbytes = copy(b, s[:i]) *)
        do st <- (if (0 <=? r)%Z then
                    if (r <? Z.of_N rune_self)%Z then
                      do b2 <- store b1 nb (to_byte (Z.to_N r)); Ok (b2, S nb)
                    else
                      do b2 <- write_at b1 nb (encode_rune r);
                      Ok (b2, (nb + length (encode_rune r))%nat)
                  else Ok (b1, nb));
        do si <- slice_from s (Z.of_nat i);
        let adv := if c =? rune_error then Z.of_nat (snd (decode_rune si))
                   else rune_len (Z.of_N c) in
        do s' <- slice_from s (Z.of_nat i + adv);
        do st' <- tu_loop (map snd (range_string s')) (fst st) (snd st);
        do res <- slice_to (fst st') (Z.of_nat (snd st'));
        Ok (res, fst st')
    end.
End ToUpper.

(* ------------------------------------------------------------------ strings.HasPrefix & co. *)
Fixpoint has_prefix (s p : bytes) : bool :=
  match p, s with
  | [], _ => true
  | x :: p', y :: s' => (x =? y) && has_prefix s' p'
  | _ :: _, [] => false
  end.

(* len(s) >= len(suffix) && s[len(s)-len(suffix):] == suffix *)
Definition has_suffix (s p : bytes) : bool :=
  (length p <=? length s)%nat && bytes_eqb (skipn (length s - length p) s) p.

Fixpoint contains (s p : bytes) : bool :=
  has_prefix s p || match s with [] => false | _ :: s' => contains s' p end.

Definition c_percent : N := 0x25.

(* strings.TrimPrefix(s, "%"), strings.TrimSuffix(s, "%"), trimPercent *)
Definition trim_prefix_pct (s : bytes) : bytes :=
  if has_prefix s [c_percent] then skipn 1 s else s.
Definition trim_suffix_pct (s : bytes) : bytes :=
  if has_suffix s [c_percent] then firstn (length s - 1) s else s.
Definition trim_percent (s : bytes) : bytes := trim_suffix_pct (trim_prefix_pct s).

(* regexp.QuoteMeta: specialBytes is built from the 14 characters \.+*?()|[]{}^$ *)
Definition c_special_bytes : bytes :=
  [0x5C; 0x2E; 0x2B; 0x2A; 0x3F; 0x28; 0x29; 0x7C; 0x5B; 0x5D; 0x7B; 0x7D; 0x5E; 0x24].
Definition special (b : N) : bool := existsb (N.eqb b) c_special_bytes.
Definition quote_meta (p : bytes) : bytes :=
  flat_map (fun b => if special b then [0x5C; b] else [b]) p.

(* ------------------------------------------------------------------ NewMatcher / Matches *)
Inductive mkind :=
| KContains | KSuffix | KPrefix | KExact
| KCIContains | KCISuffix | KCIPrefix | KCIExact
| KRegex.

Definition mkind_eqb (a b : mkind) : bool :=
  match a, b with
  | KContains, KContains | KSuffix, KSuffix | KPrefix, KPrefix | KExact, KExact
  | KCIContains, KCIContains | KCISuffix, KCISuffix | KCIPrefix, KCIPrefix | KCIExact, KCIExact
  | KRegex, KRegex => true
  | _, _ => false
  end.

(* m_str: matchString, or the source text of the compiled regular expression; m_buf: the scratch buffer
   of the CI matchers (unused otherwise) *)
Record matcher := mkMatcher { m_kind : mkind; m_str : bytes; m_buf : bytes }.

(* TODO-GEN internal/strings/match.go, NewMatcher: the literals "%", "^", "$", "(?i)" and the initial
   buffer size 10 *)
Definition c_caret : N := 0x5E.
Definition c_dollar : N := 0x24.
Definition c_ci_flag : bytes := [0x28; 0x3F; 0x69; 0x29].
Definition c_matcher_buf : nat := 10.

Section Matcher.
  Variable up : N -> Z.
  Variable str_upper : bytes -> bytes.
  Variable re_match : bytes -> bytes -> option bool.

  (* func NewMatcher(comparatee string, caseSensitive bool) (Matcher, error); Fail = error *)
  Definition new_matcher (p : bytes) (cs : bool) : outcome matcher :=
    let fs := has_prefix p [c_percent] in
    let fe := has_suffix p [c_percent] in
    if negb (bytes_eqb (quote_meta p) p) then
      do p1 <- (if negb fs then Ok ([c_caret] ++ p) else slice_from p 1);
      do p2 <- (if negb fe then Ok (p1 ++ [c_dollar])
                else slice_to p1 (Z.of_nat (length p1) - 1));
      let p3 := if negb cs then c_ci_flag ++ p2 else p2 in
      match re_match p3 [] with            (* regexp.Compile *)
      | None => Fail
      | Some _ => Ok (mkMatcher KRegex p3 [])
      end
    else if negb cs then
      let pu := str_upper p in
      let buf := make_bytes c_matcher_buf in
      if fs && fe then Ok (mkMatcher KCIContains (trim_percent pu) buf)
      else if fs then Ok (mkMatcher KCISuffix (trim_percent pu) buf)
      else if fe then Ok (mkMatcher KCIPrefix (trim_percent pu) buf)
      else Ok (mkMatcher KCIExact pu buf)
    else
      if fs && fe then Ok (mkMatcher KContains (trim_percent p) [])
      else if fs then Ok (mkMatcher KSuffix (trim_percent p) [])
      else if fe then Ok (mkMatcher KPrefix (trim_percent p) [])
      else Ok (mkMatcher KExact p []).

  (* func (m *XMatcher) Matches(s string) bool; the matcher is returned because the CI matchers keep
     the (possibly replaced) buffer for the next call *)
  Definition matches (m : matcher) (s : bytes) : outcome (bool * matcher) :=
    let ci (f : bytes -> bytes -> bool) :=
      do ub <- to_upper up (m_buf m) s;
      Ok (f (fst ub) (m_str m), mkMatcher (m_kind m) (m_str m) (snd ub)) in
    match m_kind m with
    | KContains => Ok (contains s (m_str m), m)
    | KSuffix => Ok (has_suffix s (m_str m), m)
    | KPrefix => Ok (has_prefix s (m_str m), m)
    | KExact => Ok (bytes_eqb s (m_str m), m)
    | KCIContains => ci contains
    | KCISuffix => ci has_suffix
    | KCIPrefix => ci has_prefix
    | KCIExact => ci bytes_eqb
    | KRegex =>
        match re_match (m_str m) s with
        | Some r => Ok (r, m)
        | None => Panic                      (* a compiled expression always answers *)
        end
    end.

  (* internal/scolumn/filters.go regexFilter: column = list of cells (None = null), index = row
     numbers, bIndex = the result vector (only false entries are evaluated). *)
  Fixpoint rf_loop (index : list nat) (col : list (option bytes)) (m : matcher) (i : nat)
           (bi : list bool) : outcome (list bool) :=
    match bi with
    | [] => Ok []
    | x :: bi' =>
        if x then do r <- rf_loop index col m (S i) bi'; Ok (true :: r)
        else
          do ix <- idx index i;
          do cell <- idx col ix;                    (* s.stringAt(index[i]) *)
          match cell with
          | None => do r <- rf_loop index col m (S i) bi'; Ok (false :: r)
          | Some s =>
              do bm <- matches m s;
              do r <- rf_loop index col (snd bm) (S i) bi';
              Ok (fst bm :: r)
          end
    end.

  Definition regex_filter (index : list nat) (col : list (option bytes)) (p : bytes)
             (bi : list bool) (cs : bool) : outcome (list bool) :=
    do m <- new_matcher p cs;
    rf_loop index col m 0 bi.

  (* internal/ecolumn/filters.go filterLike: `for i, v := range values { if matcher.Matches(v) {
     bset.set(enumVal(i)) } }`; enumVal is a uint8, so the conversion truncates. *)
  Fixpoint fl_loop (m : matcher) (i : nat) (values : list bytes) (bset : bitset) : outcome bitset :=
    match values with
    | [] => Ok bset
    | v :: vs =>
        do bm <- matches m v;
        fl_loop (snd bm) (S i) vs
                (if fst bm then bitset_set bset (N.of_nat i mod 256) else bset)
    end.

  Definition filter_like (p : bytes) (values : list bytes) (cs : bool) : outcome bitset :=
    do m <- new_matcher p cs;
    fl_loop m 0 values bitset_empty.

  (* internal/ecolumn/column.go filterWithBitset; data = the enumVal (uint8) of every row *)
  Fixpoint fwb_loop (index : list nat) (data : list N) (bset : bitset) (i : nat)
           (bi : list bool) : outcome (list bool) :=
    match bi with
    | [] => Ok []
    | x :: bi' =>
        if x then do r <- fwb_loop index data bset (S i) bi'; Ok (true :: r)
        else
          do ix <- idx index i;
          do e <- idx data ix;
          do r <- fwb_loop index data bset (S i) bi';
          Ok (bitset_isset bset e :: r)
    end.

  (* the `multiFilterFuncs` branch of ecolumn filterBuiltIn for like / ilike *)
  Definition enum_like_filter (index : list nat) (values : list bytes) (data : list N) (p : bytes)
             (bi : list bool) (cs : bool) : outcome (list bool) :=
    do bset <- filter_like p values cs;
    fwb_loop index data bset 0 bi.
End Matcher.

(* ================================================================== specification side
   What the property text says, written without reference to the model above; used as property
   oracle by Corr/StringsCorr.v (code 2) and as right-hand side of the theorems in Properties/C18.v. *)

(* upper-casing by the book: decode, map, drop negative results, encode *)
Definition upper_spec (up : N -> Z) (s : bytes) : bytes :=
  utf8_encode (filter (fun r => (0 <=? r)%Z) (map up (utf8_decode s))).

(* the pattern with ONE leading and/or ONE trailing % removed; the two flags are those of the
   original pattern *)
Definition starts_pct (p : bytes) : bool := match p with 0x25 :: _ => true | _ => false end.
Definition ends_pct (p : bytes) : bool := match rev p with 0x25 :: _ => true | _ => false end.
Definition pattern_core (fs fe : bool) (p : bytes) : bytes :=
  let a := if fs then skipn 1 p else p in
  if fe then firstn (length a - 1) a else a.

Definition is_meta (b : N) : bool := existsb (N.eqb b) c_special_bytes.

(* the regular expression of a pattern with metacharacters: the pattern without the % at its ends,
   anchored at each end that has no %, (?i) in front for ilike *)
Definition like_regex (p : bytes) (cs : bool) : bytes :=
  let fs := starts_pct p in
  let fe := ends_pct p in
  (if cs then [] else c_ci_flag)
    ++ (if fs then [] else [c_caret]) ++ pattern_core fs fe p ++ (if fe then [] else [c_dollar]).

(* documented rule of like / ilike on a non-null cell; None = the filter reports an error.
   [pu] is strings.ToUpper(p). *)
Definition like_spec (up : N -> Z) (pu : bytes) (re_match : bytes -> bytes -> option bool)
           (p : bytes) (cs : bool) (cell : bytes) : option bool :=
  let fs := starts_pct p in
  let fe := ends_pct p in
  if existsb is_meta p then
    match re_match (like_regex p cs) [] with
    | None => None
    | Some _ => re_match (like_regex p cs) cell
    end
  else
    let cell' := if cs then cell else upper_spec up cell in
    let lit := pattern_core fs fe (if cs then p else pu) in
    Some (match fs, fe with
          | true, true => contains cell' lit
          | true, false => has_suffix cell' lit
          | false, true => has_prefix cell' lit
          | false, false => bytes_eqb cell' lit
          end).

(* filter level: a null cell never matches; an error is reported separately *)
Definition like_row_spec (up : N -> Z) (pu : bytes) (re_match : bytes -> bytes -> option bool)
           (p : bytes) (cs : bool) (cell : option bytes) : bool :=
  match cell with
  | None => false
  | Some s => match like_spec up pu re_match p cs s with Some b => b | None => false end
  end.
