(* Model/CsvSpec.v — the specification side of C12/C13.
   [render]      : well-formed (RFC 4180, any single-byte delimiter) documents are the image of a renderer;
   [stream_scan] : the buffer-free character machine that says which rows a byte sequence denotes for
                   the fastcsv scanner (it is defined on every byte sequence, well-formed or not).
   Executable definitions only; proofs are in Proofs/CsvSpecProofs.v. *)
From QF Require Import Base.Prelude.
Local Open Scope N_scope.

Definition c_quote : N := 34.
Definition c_lf : N := 10.
Definition c_cr : N := 13.

(* ------------------------------------------------------------------ renderer *)

(* styles: per row (per field quoted?, row ended by CRLF instead of LF), and: final line break? *)
Definition row_style : Type := list bool * bool.
Definition styles : Type := list row_style * bool.

Definition special (delim c : N) : bool :=
  (c =? delim) || (c =? c_quote) || (c =? c_cr) || (c =? c_lf).

(* a field that must be quoted *)
Definition needs_quote (delim : N) (f : bytes) : bool := existsb (special delim) f.

Fixpoint escape (f : bytes) : bytes :=
  match f with
  | [] => []
  | c :: t => if c =? c_quote then c_quote :: c_quote :: escape t else c :: escape t
  end.

Definition render_cell (c : bool * bytes) : bytes :=
  if fst c then c_quote :: escape (snd c) ++ [c_quote] else snd c.

Fixpoint render_cells (delim : N) (cells : list (bool * bytes)) : bytes :=
  match cells with
  | [] => []
  | [c] => render_cell c
  | c :: cs => render_cell c ++ delim :: render_cells delim cs
  end.

Definition eol (crlf : bool) : bytes := if crlf then [c_cr; c_lf] else [c_lf].

(* styled rows: every cell paired with its quoting choice, every row with its line ending *)
Definition srow : Type := list (bool * bytes) * bool.

Fixpoint render_rows (delim : N) (final : bool) (rows : list srow) : bytes :=
  match rows with
  | [] => []
  | [r] => render_cells delim (fst r) ++ (if final then eol (snd r) else [])
  | r :: rs => render_cells delim (fst r) ++ eol (snd r) ++ render_rows delim final rs
  end.

Definition style_rows (rows : list (list bytes)) (sts : list row_style) : list srow :=
  map (fun rs => (combine (fst (snd rs)) (fst rs), snd (snd rs))) (combine rows sts).

Definition render (delim : N) (rows : list (list bytes)) (st : styles) : bytes :=
  render_rows delim (snd st) (style_rows rows (fst st)).

Definition cells_of (rows : list srow) : list (list bytes) := map (fun r => map snd (fst r)) rows.

(* ------------------------------------------------------------------ well-formedness *)

Definition is_nilb {A} (l : list A) : bool := match l with [] => true | _ => false end.

Definition delim_ok (delim : N) : bool :=
  negb ((delim =? c_quote) || (delim =? c_cr) || (delim =? c_lf)).

(* the field ends in CR *)
Definition ends_cr (f : bytes) : bool :=
  match rev f with c :: _ => c =? c_cr | [] => false end.

(* quoting is forced for fields containing the delimiter, a quote, CR or LF *)
Definition cell_ok (delim : N) (c : bool * bytes) : bool := implb (needs_quote delim (snd c)) (fst c).

(* a row has at least one field; its LAST field must not end in CR (the scanner cannot tell such a CR from
   the CR of a CRLF row end; a cell ending in CR contains a bare CR, which C12 excludes) *)
Definition row_ok (delim : N) (r : srow) : bool :=
  negb (is_nilb (fst r)) && forallb (cell_ok delim) (fst r)
  && negb (ends_cr (snd (last (fst r) (false, [])))).

(* normalisation (i): a row made of one empty unquoted field renders as an empty line; as the last row
   of a document without final line break it renders as nothing at all and is therefore not denoted *)
Definition is_blank_row (r : srow) : bool :=
  match fst r with
  | [(false, [])] => true
  | _ => false
  end.

Definition final_ok (final : bool) (rows : list srow) : bool :=
  final || match rev rows with r :: _ => negb (is_blank_row r) | [] => true end.

Definition wf_srows (delim : N) (final : bool) (rows : list srow) : bool :=
  delim_ok delim && forallb (row_ok delim) rows && final_ok final rows.

(* the styles have the shape of the rows *)
Fixpoint shape_ok (rows : list (list bytes)) (sts : list row_style) : bool :=
  match rows, sts with
  | [], [] => true
  | r :: rows', s :: sts' => Nat.eqb (length (fst s)) (length r) && shape_ok rows' sts'
  | _, _ => false
  end.

Definition wf_doc (delim : N) (rows : list (list bytes)) (st : styles) : bool :=
  shape_ok rows (fst st) && wf_srows delim (snd st) (style_rows rows (fst st)).

(* no bare CR: every CR in the cell is followed by LF *)
Fixpoint no_bare_cr (f : bytes) : bool :=
  match f with
  | [] => true
  | c :: t =>
      (if c =? c_cr then match t with c2 :: _ => c2 =? c_lf | [] => false end else true)
      && no_bare_cr t
  end.

(* ------------------------------------------------------------------ the character machine *)

(* accumulators hold bytes in reverse order *)
Inductive sstate :=
| SStart (after_delim : bool)     (* at the start of a field; after_delim: the row already has a field *)
| SUnq (acc : bytes)              (* inside an unquoted field *)
| SQuo (acc : bytes) (q : bool).  (* inside a quoted field; q: an odd number of quotes was just seen *)

Inductive emit :=
| ENone
| EField (f : bytes)    (* the field ends, the row goes on *)
| ERow (f : bytes).     (* the field and the row end *)

(* one byte; [last]: it is the last byte of the document (a byte inside a quoted field is only
   interpreted when another byte follows it) *)
Definition sstep (delim c : N) (last : bool) (st : sstate) : sstate * emit :=
  match st with
  | SQuo acc q =>
      if last then
        if q && (c =? delim) then (SStart true, EField acc) else (SStart false, ERow acc)
      else if c =? delim then
        if q then (SStart true, EField acc) else (SQuo (c :: acc) false, ENone)
      else if c =? c_lf then
        if q then (SStart false, ERow acc) else (SQuo (c :: acc) false, ENone)
      else if c =? c_cr then
        if q then (SQuo acc true, ENone) else (SQuo (c :: acc) false, ENone)
      else if c =? c_quote then
        if q then (SQuo (c_quote :: acc) false, ENone) else (SQuo acc true, ENone)
      else
        (* after an odd number of quotes any other byte is dropped and a quote is kept *)
        if q then (SQuo (c_quote :: acc) false, ENone) else (SQuo (c :: acc) false, ENone)
  | _ =>
      let acc := match st with SUnq a => a | _ => [] end in
      let at_start := match st with SStart _ => true | _ => false end in
      if at_start && (c =? c_quote) then (SQuo [] false, ENone)
      else if c =? delim then (SStart true, EField acc)
      else if c =? c_lf then (SStart false, ERow acc)
      else (SUnq (c :: acc), ENone)
  end.

(* Reader.Next: a trailing CR of the last field of a row is dropped *)
Definition trim_rev (f : bytes) : bytes :=
  match f with
  | c :: t => if c =? c_cr then t else f
  | [] => f
  end.

(* fr: the fields of the current row, last one first, each with its bytes reversed.
   A row without fields is not a row (it only arises at the end of the input). *)
Definition close_row (fr : list bytes) (rr : list (list bytes)) : list (list bytes) :=
  match fr with
  | [] => rr
  | l :: more => map (@rev N) (rev (trim_rev l :: more)) :: rr
  end.

Fixpoint sscan (delim : N) (st : sstate) (fr : list bytes) (rr : list (list bytes)) (doc : bytes)
  : list (list bytes) :=
  match doc with
  | [] =>
      rev (close_row (match st with
                      | SStart ad => if ad then [] :: fr else fr
                      | SUnq acc => acc :: fr
                      | SQuo acc _ => acc :: fr
                      end) rr)
  | c :: rest =>
      match sstep delim c (is_nilb rest) st with
      | (st', ENone) => sscan delim st' fr rr rest
      | (st', EField f) => sscan delim st' (f :: fr) rr rest
      | (st', ERow f) => sscan delim st' [] (close_row (f :: fr) rr) rest
      end
  end.

Definition stream_scan (delim : N) (doc : bytes) : list (list bytes) :=
  sscan delim (SStart false) [] [] doc.

(* ------------------------------------------------------------------ typed tables (C12 glue, C13) *)

(* Column contents as observed through the typed views: ints as Z (int64), floats as IEEE-754 bit patterns
   (every NaN is represented by [nan_bits]), strings/enum cells as option bytes (None = null). *)
Inductive column :=
| ColInt (l : list Z)
| ColFloat (l : list N)
| ColBool (l : list bool)
| ColString (l : list (option bytes))
| ColEnum (vals : list bytes) (l : list (option bytes))   (* vals: the value table (not compared) *)
| ColNone.                                                (* ncolumn: zero rows, no type *)

Definition frame : Type := list (bytes * column).

Definition nan_bits : N := 0x7FF8000000000001.   (* math.NaN() *)
Definition is_nan_bits (x : N) : bool :=
  (N.land (N.shiftr x 52) 0x7FF =? 0x7FF) && negb (N.land x 0xFFFFFFFFFFFFF =? 0).

Definition col_len (c : column) : nat :=
  match c with
  | ColInt l => length l | ColFloat l => length l | ColBool l => length l
  | ColString l => length l | ColEnum _ l => length l | ColNone => 0%nat
  end.

(* every NaN is one value *)
Definition canon_float (x : N) : N := if is_nan_bits x then nan_bits else x.

(* C13: what a cell becomes by writing and reading it back: a null string/enum cell is written as the empty
   field; the empty field is read as the empty string, or as null when EmptyNull is set *)
Definition norm_cell (empty_null : bool) (c : option bytes) : option bytes :=
  match c with
  | None => if empty_null then None else Some []
  | Some [] => if empty_null then None else Some []
  | Some s => Some s
  end.

Definition norm_col (empty_null : bool) (c : column) : column :=
  match c with
  | ColString l => ColString (map (norm_cell empty_null) l)
  | ColEnum v l => ColEnum v (map (norm_cell empty_null) l)
  | ColFloat l => ColFloat (map canon_float l)
  | c => c
  end.

Definition no_cr (s : bytes) : bool := negb (existsb (N.eqb c_cr) s).
