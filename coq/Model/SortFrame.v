(* Model/SortFrame.v — L0 model of QFrame.Sort (qframe.go):

     func (qf QFrame) Sort(orders ...Order) QFrame {
         if qf.Err != nil { return qf }
         if len(orders) == 0 { return qf }
         comparables := make([]column.Comparable, 0, len(orders))
         for _, o := range orders {
             s, ok := qf.columnsByName[o.Column]
             if !ok { return qf.withErr(qerrors.New("Sort", unknownCol(o.Column))) }
             comparables = append(comparables, s.Comparable(o.Reverse, false, o.NullLast))
         }
         newDf := qf.withIndex(qf.index.Copy())
         sorter := qfsort.New(newDf.index, comparables)
         sorter.Sort()
         return newDf
     }

   on top of the physical frame of Model/Frame.v and of the sorter of Model/Sort.v ([sort_ids] = Sorter.Sort,
   [less_keys] = Sorter.Less, [mk_cmpcfg] = the Comparable constructors, [compare_rows*] = the per-type
   Compare methods).  The columns of the result are the columns of the receiver (withIndex copies the struct,
   the column slice is shared), the index is a fresh copy sorted in place — in a pure model: [with_ix].

   Compare reads c.data[i] for the row ids i found in the index.  The sorter of Model/Sort.v takes Less as a
   pure function, so the range check of those reads is made ONCE, before sorting ([rows_in_range]): when a
   row id of the index lies outside a key column and at least one comparison can happen (two rows or more)
   the model answers [Panic].  This is an over-approximation on frames that are not well formed (the Go code
   panics only if the comparison that touches the row is actually performed, e.g. not when an earlier key
   already decides); on well-formed frames — the only ones the API can build, C10_wf_* — every read is in
   range (theorem C03_frame_sort_no_panic) and the defaults written below are never used.
   Executable definitions only; the proofs are in Proofs/SortFrameProofs.v. *)
From QF Require Import Base.Prelude Gen.GenConsts Model.Frame Model.Sort.

(* Order{Column, Reverse, NullLast} *)
Definition order := (bytes * bool * bool)%type.
Definition o_column (o : order) : bytes := fst (fst o).
Definition o_reverse (o : order) : bool := snd (fst o).
Definition o_nulllast (o : order) : bool := snd o.

(* bytes.Compare(x, y) == -1 on two non-null strings *)
Definition str_vlt (x y : option bytes) : bool :=
  match x, y with
  | Some a, Some b => match bytes_cmp a b with Lt => true | _ => false end
  | _, _ => false
  end.

Definition str_is_null (x : option bytes) : bool := match x with None => true | Some _ => false end.

(* s.Comparable(o.Reverse, false, o.NullLast) of the five column types: Compare on two physical row ids *)
Definition col_comparable (c : coldata) (reverse nullLast : bool) : nat -> nat -> cmpres :=
  let cfg := mk_cmpcfg reverse false nullLast in
  match c with
  | ICol d => compare_rows_int cfg (fun i j => (nth i d 0 <? nth j d 0)%Z)
  | FCol d => compare_rows_float cfg (fun i => f_isnan (nth i d 0%N)) (fun i j => f_lt (nth i d 0%N) (nth j d 0%N))
  | BCol d => compare_rows_bool cfg (fun i => nth i d false)
  | SCol d => compare_rows cfg (fun i => str_is_null (nth i d None)) (fun i j => str_vlt (nth i d None) (nth j d None))
  | ECol d _ _ =>
      (* x.isNull() is x == nullValue; x < y compares the stored uint8 ranks (= the declared positions) *)
      compare_rows cfg (fun i => enum_is_null (nth i d c_nullValue))
                   (fun i j => (nth i d c_nullValue <? nth j d c_nullValue)%N)
  end.

(* the loop over the orders: the first name the by-name map does not know ends it with an error *)
Fixpoint comparables (f : frame) (orders : list order) : option (list (coldata * (nat -> nat -> cmpres))) :=
  match orders with
  | [] => Some []
  | o :: rest =>
      match lookup_col f (o_column o) with
      | None => None
      | Some c =>
          match comparables f rest with
          | None => None
          | Some cs => Some ((c, col_comparable c (o_reverse o) (o_nulllast o)) :: cs)
          end
      end
  end.

(* every c.data[i] a Compare can perform is in range; no Compare happens on fewer than two rows *)
Definition rows_in_range (index : list nat) (keycols : list coldata) : bool :=
  (length index <? 2)%nat
  || forallb (fun c => forallb (fun p => (p <? col_len c)%nat) index) keycols.

Definition sort_frame (f : frame) (orders : list order) : outcome frame :=
  if ferr f then Ok f
  else match orders with
       | [] => Ok f
       | _ =>
           match comparables f orders with
           | None => Ok (with_err f)
           | Some cs =>
               if rows_in_range (ix f) (map fst cs) then
                 do sorted <- sort_ids (less_keys (map snd cs)) (ix f);
                 Ok (with_ix f sorted)
               else Panic
           end
       end.
