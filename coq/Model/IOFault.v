(* Model/IOFault.v — fault models and the control flow / error propagation of the six I/O entry
   points (property C15).  Executable definitions only (proofs: Proofs/IOFaultProofs.v).

   Level of detail.  What is modelled loop for loop is the *error path*: who calls Read / Write /
   the driver, where the returned error is stored, where it is looked at again.  What a CSV field or
   a JSON value *is* is a parameter: the CSV field scanner is a record [scanner] of functions over
   the scan buffer (the detailed model of internal/fastcsv is Model/FastCsv.v, not used here), the
   JSON scanner is a byte automaton [jscanner], a CSV record is the list of bufio write operations
   encoding/csv issues for it.  Every theorem of Properties/C15.v quantifies over these parameters;
   the concrete instances at the end of the file exist for the correspondence engine "iofault".
   The SQL entry points are modelled in Model/Sql.v (read_sql with [sql_faults], to_sql with
   [exec_ok]). *)
From QF Require Import Base.Prelude Gen.GenConsts Model.Sql.
Local Open Scope N_scope.

(* ================================================================== readers *)

Inductive rerr := REOF | RFault.

(* An io.Reader that delivers [r_data] in reads of at most [r_chunk] bytes and then returns
   [r_term] forever.  r_with_data: the terminal error accompanies the last bytes (n > 0, err).
   "The reader fails at offset k of doc" is  mkReader (firstn k doc) c RFault b. *)
Record reader := mkReader {
  r_data : bytes;
  r_chunk : nat;
  r_term : rerr;
  r_with_data : bool
}.

Definition rd_read (r : reader) (cap : nat) : bytes * option rerr * reader :=
  let n := Nat.min (Nat.min cap (r_chunk r)) (length (r_data r)) in
  let out := firstn n (r_data r) in
  let rest := skipn n (r_data r) in
  let r' := mkReader rest (r_chunk r) (r_term r) (r_with_data r) in
  match r_data r with
  | [] => ([], Some (r_term r), r')
  | _ :: _ =>
      match rest with
      | [] => if r_with_data r then (out, Some (r_term r), r') else (out, None, r')
      | _ :: _ => (out, None, r')
      end
  end.

Definition rerr_is_eof (e : option rerr) : bool := match e with Some REOF => true | _ => false end.
Definition rerr_is_nil (e : option rerr) : bool := match e with None => true | _ => false end.

(* ================================================================== internal/fastcsv (coarse) *)

(* type eofReaderWrapper struct { r io.Reader; isEof bool } *)
Record wrapper := mkWrapper { w_r : reader; w_eof : bool }.

(* func (r *eofReaderWrapper) Read(b []byte) (int, error) *)
Definition wr_read (w : wrapper) (cap : nat) : bytes * option rerr * wrapper :=
  if w_eof w then ([], Some REOF, w)
  else
    let '(c, err, r') := rd_read (w_r w) cap in
    if rerr_is_eof err && Nat.ltb 0 (length c)
    then (c, None, mkWrapper r' true)
    else (c, err, mkWrapper r' (w_eof w)).

(* fields + bufferedReader + Reader.fieldsBuffer *)
Record fstate := mkF {
  f_data : bytes;            (* buffer.data *)
  f_cap : nat;               (* cap(buffer.data) *)
  f_cursor : nat;            (* buffer.cursor *)
  f_src : wrapper;
  f_fieldStart : nat;
  f_hitEOL : bool;
  f_field : bytes;
  f_err : option rerr        (* fields.err *)
}.

Definition set_err (s : fstate) (e : option rerr) : fstate :=
  mkF (f_data s) (f_cap s) (f_cursor s) (f_src s) (f_fieldStart s) (f_hitEOL s) (f_field s) e.

(* func (b *bufferedReader) more() error *)
Definition more (s : fstate) : option rerr * fstate :=
  let cap := if Nat.eqb (length (f_data s)) (f_cap s)
             then (N.to_nat c_csv_grow_mul * length (f_data s) + N.to_nat c_csv_grow_add)%nat
             else f_cap s in
  let '(c, err, src') := wr_read (f_src s) (cap - length (f_data s)) in
  (err, mkF (f_data s ++ c) cap (f_cursor s) src' (f_fieldStart s) (f_hitEOL s) (f_field s) (f_err s)).

(* func (fs *fields) reset()  (buffer.reset included) *)
Definition fields_reset (s : fstate) : fstate :=
  mkF (skipn (f_cursor s) (f_data s)) (f_cap s) 0 (f_src s) 0 false [] (f_err s).

(* What a field scanner reports when run over the buffer from the cursor. *)
Inductive sres :=
| SNeed                                          (* the buffer ends before the field does: call more() *)
| SField (field : bytes) (cursor' fieldStart' : nat) (eol : bool).

(* The field scanner: a parameter of the model.
   sc_unq  : nextUnquotedField over data from cursor (field starts at fieldStart);
   sc_q    : nextQuotedField over data from cursor (cursor is at the opening quote);
   sc_q_eof: what nextQuotedField returns when more() fails: the field collected so far, the cursor,
             and whether the special case "closing quote + delimiter at EOF" applies. *)
Record scanner := mkScanner {
  sc_unq : N -> bytes -> nat -> nat -> sres;
  sc_q : N -> bytes -> nat -> sres;
  sc_q_eof : N -> bytes -> nat -> bytes * nat * bool
}.

Section FastCsv.
  Variable sc : scanner.
  Variable delim : N.

  Definition with_field (s : fstate) (field : bytes) (cursor fieldStart : nat) (eol : bool) (e : option rerr) : fstate :=
    mkF (f_data s) (f_cap s) cursor (f_src s) fieldStart eol field e.

  (* the loop of nextUnquotedField; fuel counts calls of more() *)
  Fixpoint next_unquoted (fuel : nat) (s : fstate) : outcome (bool * fstate) :=
    match sc_unq sc delim (f_data s) (f_cursor s) (f_fieldStart s) with
    | SField field c' fs' eol => Ok (true, with_field s field c' fs' (eol || f_hitEOL s) (f_err s))
    | SNeed =>
        match fuel with
        | O => Panic
        | S fuel' =>
            let '(err, s1) := more s in
            match err with
            | Some REOF =>
                (* fs.field = data[start:cursor]; fs.hitEOL = true; fs.err = err; return true *)
                let n := length (f_data s1) in
                Ok (true, with_field s1 (skipn (f_fieldStart s1) (f_data s1)) n (f_fieldStart s1) true (Some REOF))
            | Some RFault => Ok (false, set_err s1 (Some RFault))
            | None => next_unquoted fuel' s1
            end
        end
    end.

  (* nextQuotedField + the assignment  fs.field, fs.hitEOL, fs.err = ...; fs.fieldStart = cursor;
     return fs.err == nil || fs.err == io.EOF *)
  Fixpoint next_quoted (fuel : nat) (s : fstate) : outcome (bool * fstate) :=
    match sc_q sc delim (f_data s) (f_cursor s) with
    | SField field c' _ eol => Ok (true, with_field s field c' c' eol None)
    | SNeed =>
        match fuel with
        | O => Panic
        | S fuel' =>
            let '(err, s1) := more s in
            match err with
            | None => next_quoted fuel' s1
            | Some e =>
                let '(field, c', special) := sc_q_eof sc delim (f_data s1) (f_cursor s1) in
                if rerr_is_eof err && special
                then Ok (true, with_field s1 field (S c') (S c') false None)
                else Ok (rerr_is_eof err, with_field s1 field c' c' true (Some e))
            end
        end
    end.

  (* func (fs *fields) next() bool *)
  Definition fields_next (fuel : nat) (s : fstate) : outcome (bool * fstate) :=
    if f_hitEOL s then Ok (false, s)
    else
      let go (s : fstate) :=
        do first <- idx (f_data s) (f_cursor s);
        if first =? 34 then next_quoted fuel s else next_unquoted fuel s in
      if Nat.leb (length (f_data s)) (f_cursor s) then
        let '(err, s1) := more s in
        match err with
        | Some e =>
            let s2 := set_err s1 (Some e) in
            if rerr_is_eof err && Nat.ltb 0 (f_fieldStart s2)
            then Ok (true, with_field s2 [] (f_cursor s2) (f_fieldStart s2) true (Some e))
            else Ok (false, s2)
        | None => go s1
        end
      else go s.

  (* for r.fields.next() { r.fieldsBuffer = append(r.fieldsBuffer, r.fields.field) } *)
  Fixpoint collect_fields (fuel mfuel : nat) (s : fstate) (acc : list bytes) : outcome (fstate * list bytes) :=
    match fuel with
    | O => Panic
    | S fuel' =>
        do r <- fields_next mfuel s;
        let '(ok, s') := r in
        if ok then collect_fields fuel' mfuel s' (acc ++ [f_field s']) else Ok (s', acc)
    end.

  Definition strip_cr (fields : list bytes) : list bytes :=
    match rev fields with
    | [] => fields
    | lastf :: before =>
        match rev lastf with
        | 13 :: rl => rev before ++ [rev rl]
        | _ => fields
        end
    end.

  (* func (r *Reader) Next() bool *)
  Definition reader_next (fuel mfuel : nat) (s : fstate) : outcome (bool * fstate * list bytes) :=
    if negb (rerr_is_nil (f_err s)) then Ok (false, s, [])
    else
      do r <- collect_fields fuel mfuel (fields_reset s) [];
      let '(s1, fields) := r in
      let fields1 := strip_cr fields in
      match fields1 with
      | [] =>
          let s2 := if rerr_is_nil (f_err s1) then set_err s1 (Some REOF) else s1 in
          Ok (false, s2, fields1)
      | _ => Ok (true, s1, fields1)
      end.

  (* func (r *Reader) Err() error : nil for io.EOF *)
  Definition reader_err (s : fstate) : bool :=
    match f_err s with Some RFault => true | _ => false end.

  (* func (r *Reader) Read() ([][]byte, error) : (fields, err) with err = fields.err, EOF included *)
  Definition reader_read (fuel mfuel : nat) (s : fstate) : outcome (option (list bytes) * fstate) :=
    do r <- reader_next fuel mfuel s;
    let '(ok, s', fields) := r in
    if ok then Ok (Some fields, s') else Ok (None, s').

  (* fastcsv.NewReader *)
  Definition new_fstate (r : reader) : fstate :=
    mkF [] (N.to_nat c_csv_init_cap) 0 (mkWrapper r false) 0 false [] None.

  (* ---------------------------------------------------------------- internal/io/csv.go ReadCSV *)

  Record csv_conf := mkCsvConf {
    cc_headers : list bytes;          (* conf.Headers *)
    cc_ignore_empty : bool            (* conf.IgnoreEmptyLines *)
  }.

  Definition is_empty_line (fields : list bytes) : bool :=
    match fields with [[]] => true | _ => false end.

  (* for r.Next() { if r.Err() != nil { return err } ... }   then   if r.Err() != nil { return err }
     The result is the number of rows kept. *)
  Fixpoint read_body (fuel rfuel mfuel : nat) (conf : csv_conf) (ncols : nat) (s : fstate) (nrows : nat)
    : outcome nat :=
    match fuel with
    | O => Panic
    | S fuel' =>
        do r <- reader_next rfuel mfuel s;
        let '(ok, s', fields) := r in
        if ok then
          if reader_err s' then Fail                                   (* "ReadCSV read body" *)
          else if negb (Nat.eqb (length fields) ncols) then
            if is_empty_line fields && cc_ignore_empty conf
            then read_body fuel' rfuel mfuel conf ncols s' nrows
            else Fail                                                  (* wrong number of columns *)
          else if is_empty_line fields && cc_ignore_empty conf
          then read_body fuel' rfuel mfuel conf ncols s' nrows
          else read_body fuel' rfuel mfuel conf ncols s' (S nrows)
        else
          if reader_err s' then Fail                                   (* the check after the loop *)
          else Ok nrows
    end.

  (* What follows the row loop (type inference per column, duplicate check, qframe.New) is
     [post headers nrows] : true = a frame without Err is returned. *)
  Variable post : list bytes -> nat -> bool.

  (* internal/io.ReadCSV followed by qframe.New: Ok n = error-free frame with n rows *)
  Definition read_csv (fuel rfuel mfuel : nat) (conf : csv_conf) (r : reader) : outcome nat :=
    let s0 := new_fstate r in
    do hs <-
      (match cc_headers conf with
       | [] =>
           do rr <- reader_read rfuel mfuel s0;
           let '(fields, s1) := rr in
           match fields with
           | Some h => Ok (h, s1)
           | None => Fail            (* err != nil: io.EOF on empty input included *)
           end
       | h => Ok (h, s0)
       end);
    let '(headers, s1) := hs in
    do n <- read_body fuel rfuel mfuel conf (length headers) s1 0;
    if post headers n then Ok n else Fail.

End FastCsv.

(* ================================================================== encoding/json Decoder (coarse) *)

Inductive jverdict :=
| JCont
| JEndHere        (* scanEndObject / scanEndArray at top level: the value ends with this byte *)
| JEndBefore      (* scanEnd: the value ended before this byte *)
| JErr.           (* scanError *)

(* the scanner automaton of encoding/json: a parameter *)
Record jscanner (S : Type) := mkJS {
  js_init : S;
  js_step : S -> N -> S * jverdict;
  js_eof_end : S -> bool          (* step(' ') == scanEnd at io.EOF *)
}.
Arguments mkJS {S}. Arguments js_init {S}. Arguments js_step {S}. Arguments js_eof_end {S}.

Inductive jres (S : Type) :=
| JMore (s : S) (n : nat)         (* all bytes scanned, value not complete; n bytes so far *)
| JDone (vlen : nat)              (* the value is the first vlen bytes *)
| JSyntax.
Arguments JMore {S}. Arguments JDone {S}. Arguments JSyntax {S}.

Section Json.
  Context {S : Type}.
  Variable js : jscanner S.

  (* for ; scanp < len(dec.buf); scanp++ { switch dec.scan.step(c) ... } *)
  Fixpoint js_run (s : S) (b : bytes) (n : nat) : jres S :=
    match b with
    | [] => JMore s n
    | c :: rest =>
        match js_step js s c with
        | (s', JCont) => js_run s' rest (Datatypes.S n)
        | (_, JEndHere) => JDone (Datatypes.S n)
        | (_, JEndBefore) => JDone n
        | (_, JErr) => JSyntax
        end
    end.

  (* specification side: the number of bytes of [b] the decoder has to see before it knows that the
     value is complete (None: the value is not complete within b, or a syntax error comes first) *)
  Fixpoint js_need (s : S) (b : bytes) (n : nat) : option nat :=
    match b with
    | [] => None
    | c :: rest =>
        match js_step js s c with
        | (s', JCont) => js_need s' rest (Datatypes.S n)
        | (_, JErr) => None
        | (_, _) => Some (Datatypes.S n)
        end
    end.

  (* refill(): room for at least minRead = 512 bytes *)
  Definition json_min_read : nat := 512.
  Definition json_cap (cap len : nat) : nat :=
    if Nat.ltb (cap - len) json_min_read then (2 * cap + json_min_read)%nat else cap.

  (* readValue: fuel counts refills.  State: scanner state, bytes scanned, the error of the last
     refill, the bytes of the last refill not yet scanned, the reader, cap(dec.buf). *)
  Fixpoint read_value (fuel : nat) (s : S) (n : nat) (lasterr : option rerr) (fresh : bytes)
           (r : reader) (cap : nat) : outcome nat :=
    match js_run s fresh n with
    | JDone vlen => Ok vlen
    | JSyntax => Fail
    | JMore s' n' =>
        match lasterr with
        | Some REOF => if js_eof_end js s' then Ok n' else Fail
        | Some RFault => Fail
        | None =>
            match fuel with
            | O => Panic
            | Datatypes.S fuel' =>
                let cap' := json_cap cap n' in
                let '(c, err, r') := rd_read r (cap' - n') in
                read_value fuel' s' n' err c r' cap'
            end
        end
    end.

  (* d.unmarshal(&records); jsonRecordsToData; qframe.New : [post v] = Some rows | None (error) *)
  Variable post : bytes -> option nat.

  (* qframe.ReadJSON on the document [doc] delivered by reader [r] (r_data r is a prefix of doc) *)
  Definition read_json (fuel : nat) (doc : bytes) (r : reader) : outcome nat :=
    do vlen <- read_value fuel (js_init js) 0 None [] r 0;
    match post (firstn vlen doc) with
    | Some rows => Ok rows
    | None => Fail
    end.
End Json.

(* ================================================================== writers *)

(* An io.Writer that accepts [fw_left] more bytes and then fails: a Write that does not fit is cut
   short and returns an error.  fw_got = everything accepted so far.  fw_sw: the writer also
   implements io.StringWriter (bufio.Writer.WriteString then forwards large writes directly). *)
Record fwriter := mkFW { fw_left : nat; fw_got : bytes; fw_sw : bool }.

Definition fw_write (w : fwriter) (p : bytes) : nat * bool * fwriter :=
  if Nat.leb (length p) (fw_left w)
  then (length p, false, mkFW (fw_left w - length p) (fw_got w ++ p) (fw_sw w))
  else (fw_left w, true, mkFW 0 (fw_got w ++ firstn (fw_left w) p) (fw_sw w)).

(* bufio.Writer: b.buf[0:b.n], b.err (sticky), b.wr *)
Record bufw := mkBW { b_buf : bytes; b_err : bool; b_wr : fwriter }.

Definition bufio_size : nat := 4096.       (* bufio.defaultBufSize (Go standard library) *)

Definition new_bufw (w : fwriter) : bufw := mkBW [] false w.

Definition b_available (b : bufw) : nat := bufio_size - length (b_buf b).

(* func (b *Writer) Flush() error *)
Definition b_flush (b : bufw) : bufw :=
  if b_err b then b
  else match b_buf b with
       | [] => b
       | _ =>
           let '(n, err, w') := fw_write (b_wr b) (b_buf b) in
           (* n < b.n && err == nil cannot happen with fw_write (a short write carries an error) *)
           if err then mkBW (skipn n (b_buf b)) true w'
           else mkBW [] false w'
       end.

(* func (b *Writer) WriteString(s string) (int, error); fuel bounds the loop
   for len(s) > b.Available() && b.err == nil *)
Fixpoint b_write_string (fuel : nat) (b : bufw) (s : bytes) : outcome bufw :=
  if Nat.ltb (b_available b) (length s) && negb (b_err b) then
    match fuel with
    | O => Panic
    | S fuel' =>
        if Nat.eqb (length (b_buf b)) 0 && fw_sw (b_wr b) then
          let '(n, err, w') := fw_write (b_wr b) s in
          b_write_string fuel' (mkBW (b_buf b) err w') (skipn n s)
        else
          let n := b_available b in
          let b1 := b_flush (mkBW (b_buf b ++ firstn n s) (b_err b) (b_wr b)) in
          b_write_string fuel' b1 (skipn n s)
    end
  else if b_err b then Ok b
  else Ok (mkBW (b_buf b ++ s) false (b_wr b)).

(* func (b *Writer) WriteByte(c byte) error *)
Definition b_write_byte (b : bufw) (c : N) : bufw :=
  if b_err b then b
  else
    let b1 := if Nat.leb (b_available b) 0 then b_flush b else b in
    if b_err b1 then b1 else mkBW (b_buf b1 ++ [c]) false (b_wr b1).

(* One call of a bufio method by csv.Writer.Write: WriteRune(',') and WriteByte are WByte. *)
Inductive wop := WByte (c : N) | WStr (s : bytes).

Definition wop_bytes (o : wop) : bytes := match o with WByte c => [c] | WStr s => s end.

Definition wfuel (s : bytes) : nat := (2 * length s + 2)%nat.

(* func (w *Writer) Write(record []string) error: the bufio calls in order, return at the first
   error.  Result: (writer, error?) *)
Fixpoint csv_write (b : bufw) (ops : list wop) : outcome (bufw * bool) :=
  match ops with
  | [] => Ok (b, false)
  | o :: rest =>
      do b' <- (match o with
                | WByte c => Ok (b_write_byte b c)
                | WStr s => b_write_string (wfuel s) b s
                end);
      if b_err b' then Ok (b', true) else csv_write b' rest
  end.

(* the row loop of ToCSV:  err := w.Write(row); if err != nil { return err } *)
Fixpoint csv_write_all (b : bufw) (records : list (list wop)) : outcome (bufw * bool) :=
  match records with
  | [] => Ok (b, false)
  | rcd :: rest =>
      do r <- csv_write b rcd;
      let '(b', err) := r in
      if err then Ok (b', true) else csv_write_all b' rest
  end.

(* func (qf QFrame) ToCSV: header (if configured) and rows as records; w.Flush(); return w.Error().
   Result: (what the underlying writer accepted, error returned?) *)
Definition to_csv (header : option (list wop)) (rows : list (list wop)) (w : fwriter) : outcome (bytes * bool) :=
  let b0 := new_bufw w in
  do r <- csv_write_all b0 (match header with Some h => [h] | None => [] end);
  let '(b1, err1) := r in
  if err1 then Ok (fw_got (b_wr b1), true)
  else
    do r2 <- csv_write_all b1 rows;
    let '(b2, err2) := r2 in
    if err2 then Ok (fw_got (b_wr b2), true)
    else
      let b3 := b_flush b2 in
      Ok (fw_got (b_wr b3), b_err b3).       (* w.Error() = b.err *)

(* func (qf QFrame) ToJSON: writer.Write("[") ; one Write per record ; writer.Write("]") *)
Fixpoint json_write_all (w : fwriter) (pieces : list bytes) : fwriter * bool :=
  match pieces with
  | [] => (w, false)
  | p :: rest =>
      let '(_, err, w') := fw_write w p in
      if err then (w', true) else json_write_all w' rest
  end.

Definition to_json (records : list bytes) (w : fwriter) : bytes * bool :=
  let '(w', err) := json_write_all w ([[91]] ++ records ++ [[93]]) in
  (fw_got w', err).

(* ================================================================== concrete instances (engine) *)

(* A field scanner in the style of internal/fastcsv, written from the format, not from the code:
   it rescans the field from its start each time more bytes have arrived. *)
Fixpoint unq_find (delim : N) (b : bytes) (pos : nat) : option (nat * bool) :=
  match b with
  | [] => None
  | c :: rest => if c =? delim then Some (pos, false)
                 else if c =? 10 then Some (pos, true)
                 else unq_find delim rest (S pos)
  end.

Definition simple_unq (delim : N) (data : bytes) (cursor fieldStart : nat) : sres :=
  match unq_find delim (skipn cursor data) cursor with
  | Some (p, eol) => SField (firstn (p - fieldStart) (skipn fieldStart data)) (S p) (if eol then fieldStart else S p) eol
  | None => SNeed
  end.

(* quoted field: b = bytes after the opening quote, processed only while a following byte exists;
   qc = consecutive quotes seen; acc = field content (reversed) *)
Fixpoint q_find (delim : N) (b : bytes) (pos : nat) (qc : nat) (acc : bytes) : option (nat * bool) * bytes * nat * nat :=
  match b with
  | [] | [_] => (None, acc, pos, qc)
  | c :: ((_ :: _) as rest) =>
      let odd := Nat.odd qc in
      if (c =? delim) && odd then (Some (S pos, false), acc, pos, qc)
      else if (c =? 10) && odd then (Some (S pos, true), acc, pos, qc)
      else if (c =? 13) && odd then q_find delim rest (S pos) qc acc
      else if (c =? 34) && Nat.even qc then q_find delim rest (S pos) (S qc) acc
      else q_find delim rest (S pos) 0 (c :: acc)
  end.

Definition simple_q (delim : N) (data : bytes) (cursor : nat) : sres :=
  match q_find delim (skipn (S cursor) data) (S cursor) 0 [] with
  | (Some (c', eol), acc, _, _) => SField (rev acc) c' c' eol
  | (None, _, _, _) => SNeed
  end.

Definition simple_q_eof (delim : N) (data : bytes) (cursor : nat) : bytes * nat * bool :=
  match q_find delim (skipn (S cursor) data) (S cursor) 0 [] with
  | (_, acc, pos, qc) =>
      (rev acc, pos, Nat.odd qc && match nth_error data pos with Some c => c =? delim | None => false end)
  end.

Definition simple_scanner : scanner := mkScanner simple_unq simple_q simple_q_eof.

(* after the row loop: duplicate header names and names rejected by qframe.New make Err non-nil *)
Fixpoint nodup_bytes (l : list bytes) : bool :=
  match l with
  | [] => true
  | x :: r => negb (existsb (bytes_eqb x) r) && nodup_bytes r
  end.
Definition simple_post (headers : list bytes) (nrows : nat) : bool :=
  nodup_bytes headers && forallb check_name headers.

(* A JSON value scanner for documents whose top-level value is an array or an object:
   state = (depth, in string, after backslash, started). *)
Definition jstate := (nat * bool * bool)%type.
Definition simple_js_step (s : jstate) (c : N) : jstate * jverdict :=
  let '(depth, instr, esc) := s in
  if instr then
    if esc then ((depth, true, false), JCont)
    else if c =? 92 then ((depth, true, true), JCont)
    else if c =? 34 then ((depth, false, false), JCont)
    else (s, JCont)
  else if (c =? 32) || (c =? 9) || (c =? 10) || (c =? 13) then (s, JCont)
  else if (c =? 91) || (c =? 123) then ((S depth, false, false), JCont)
  else if (c =? 93) || (c =? 125) then
    match depth with
    | O => (s, JErr)
    | S O => ((O, false, false), JEndHere)
    | S d => ((d, false, false), JCont)
    end
  else if c =? 34 then
    match depth with O => (s, JErr) | _ => ((depth, true, false), JCont) end
  else match depth with O => (s, JErr) | _ => (s, JCont) end.

Definition simple_js : jscanner jstate := mkJS (O, false, false) simple_js_step (fun _ => false).
